/-
Helper lemmas for `Props/C16RenderX.lean`, part 4: the extended block parser (`BlockExt.parseBlocksXT`, any set of
block extensions, table processor off) on a block of plain lines — every extension processor declines it, whatever
the parent, and `ParagraphProcessor` takes it.

Core Lean only.
-/
import MdVerif.Lemmas.RenderXDoc
import MdVerif.Lemmas.BlockExtFlags
import MdVerif.Lemmas.DocParseQuote

namespace MdVerif.RenderX
open Py Block BlockExt

theorem contains_false_of_head {s : Str} {c : Char} (pat : Str) (h : c ∉ s) : contains s (c :: pat) = false := by
  rw [contains_eq_false_iff]
  intro pre post e
  apply h
  rw [e]; simp

mutual
theorem admSibNode_flat (tab : Nat) (b : Str) (ind : Nat) (hb : startsWith b (spaces (tab * 2)) = false) :
    ∀ n : Node, admSibNode tab b ind n = some (0, b, ind)
  | ⟨_, _, _, _, children, _, _⟩ => by
    simp only [admSibNode]
    exact admSibKids_flat tab b ind hb children
theorem admSibKids_flat (tab : Nat) (b : Str) (ind : Nat) (hb : startsWith b (spaces (tab * 2)) = false) :
    ∀ kids : List Node, admSibKids tab b ind kids = some (0, b, ind)
  | [] => by simp [admSibKids]
  | [c] => by simp [admSibKids, hb]
  | c :: d :: r => by
    simp only [admSibKids]
    exact admSibKids_flat tab b ind hb (d :: r)
end

theorem startsWith_spaces_false_of_head {b : Str} {n : Nat} (hn : 0 < n) (h : ∀ c, b.head? = some c → c ≠ ' ') :
    startsWith b (spaces n) = false := by
  obtain ⟨m, rfl⟩ : ∃ m, n = m + 1 := ⟨n - 1, by omega⟩
  cases b with
  | nil => simp [spaces, List.replicate_succ, startsWith]
  | cons c r =>
    have := h c rfl
    simp [spaces, List.replicate_succ, startsWith, this]

/-- `AdmonitionProcessor.test` on a block without `!` that does not start with a space -/
theorem admTest_plain (tab : Nat) (htab : 0 < tab) (parent : Node) (b : Str) (hbang : '!' ∉ b)
    (hhead : ∀ c, b.head? = some c → c ≠ ' ') : admTest tab parent b = none := by
  have h1 : admSearch b = none := admSearch_none (contains_false_of_head _ hbang)
  have h2 : startsWith b (spaces (tab * 2)) = false := startsWith_spaces_false_of_head (by omega) hhead
  have h3 : startsWith b (spaces tab) = false := startsWith_spaces_false_of_head htab hhead
  simp only [admTest, h1, admContent]
  cases parent.last? with
  | none => rfl
  | some sib =>
    simp only [admSibNode_flat tab b 0 h2 sib, h3]
    simp

/-- a block of plain lines goes to `ParagraphProcessor`, with any block extensions enabled, under any parent -/
theorem dispatchXT_plain (cfg : XCfg) (tab : Nat) (htab : tab > 0) (pb : PB) (state : List BState) (refs : Refs)
    (parent : Node) (l0 : Str) (r : List Str) (rest : List Str) (h : ∀ l ∈ l0 :: r, PlainFacts l) :
    dispatchXT false cfg tab pb state refs parent (joinLines (l0 :: r)) rest =
      some (paraP state refs parent (joinLines (l0 :: r)) rest) := by
  obtain ⟨hg, hl, hv, _, h2⟩ := block_facts l0 r h
  have hs : Escape.startOk Generated.escapedChars (joinLines (l0 :: r)) = true := by
    simp only [Escape.LineStartsOk, Bool.and_eq_true] at hl; exact hl.1
  have hch : ∀ c ∈ joinLines (l0 :: r), c ≠ '!' ∧ c ≠ ':' ∧ c ≠ '[' ∧ c ≠ '*' := by
    intro c hc
    rcases mem_joinLines_plain h hc with rfl | hc
    · decide
    · refine ⟨?_, ?_, ?_, ?_⟩ <;> (intro e; subst e; exact absurd hc (by decide))
  generalize hb : joinLines (l0 :: r) = b at *
  have hhead : ∀ c, b.head? = some c → c ≠ ' ' := by
    intro c hc e
    subst e
    cases b with
    | nil => simp at hc
    | cons a t =>
      simp only [List.head?_cons, Option.some.injEq] at hc
      subst hc
      simp [Escape.startsVisible, isSpace] at hv
  have hadm := admTest_plain tab htab parent b (fun hm => (hch _ hm).1 rfl) hhead
  have hdef : defSearch b = none := defSearch_none (contains_false_of_head _ (fun hm => (hch _ hm).2.1 rfl))
  have hfn : fnSearch b = none := fnSearch_none (contains_false_of_head _ (fun hm => (hch _ hm).2.2.1 rfl))
  have hab : abbrSearch b = none := abbrSearch_none (contains_false_of_head _ (fun hm => (hch _ hm).2.2.2 rfl))
  have hsp : startsWith b (spaces tab) = false := startsWith_spaces_false_of_head htab hhead
  cases b with
  | nil => simp [Escape.startsVisible] at hv
  | cons c t =>
    have hc : isSpace c = false := by simpa [Escape.startsVisible] using hv
    have hc1 : c ≠ '\n' := by intro e; subst e; exact absurd hc (by decide)
    have e1 : ((c :: t).isEmpty || startsWith (c :: t) ['\n']) = false := by simp [startsWith, hc1]
    simp only [dispatchXT, hadm, ite_self, tailEmptyT, e1, hsp, indentTestX, Bool.false_eq_true, if_false,
      Bool.false_and, Bool.and_false,
      Escape.hashSearch_eq_none (esc := Generated.escapedChars) (by decide) _ hl,
      Escape.setextMatch_eq_false (esc := Generated.escapedChars) (by decide) _ hg h2,
      Escape.hrSearch_eq_none (esc := Generated.escapedChars) (by decide) (by decide) (by decide) _ hl,
      tailList,
      Escape.listItemMatch_eq_none (esc := Generated.escapedChars) (by decide) (by decide) (by decide) (by decide)
        tab _ _ _ hg hs, Option.isSome_none, tailDef, hdef, tailQuote,
      Escape.quoteSearch_eq_none (esc := Generated.escapedChars) (by decide) _ hl, tailFootnote, footnoteP, hfn,
      tailAbbr, abbrP, hab, tailRef,
      Escape.refSearch_eq_none (esc := Generated.escapedChars) (by decide) _ hl]

theorem paraP_plain (state : List BState) (hst : isstate state .list = false) (refs : Refs) (parent : Node)
    (l0 : Str) (r : List Str) (rest : List Str) (h : ∀ l ∈ l0 :: r, PlainFacts l) :
    paraP state refs parent (joinLines (l0 :: r)) rest =
      (parent.append (mkText "p" (joinLines (l0 :: r))), refs, rest) := by
  obtain ⟨_, _, hv, _, _⟩ := block_facts l0 r h
  simp [paraP, Escape.isBlank_of_visible hv, Escape.lstrip_of_visible hv, hst]

/-- `parseBlocks` (extended) on one block of plain lines -/
theorem parseBlocksXT_plain1 (cfg : XCfg) (tab : Nat) (htab : tab > 0) (f : Nat) (state : List BState)
    (hst : isstate state .list = false) (refs : Refs) (parent : Node) (l0 : Str) (r : List Str)
    (h : ∀ l ∈ l0 :: r, PlainFacts l) :
    parseBlocksXT false cfg tab (f + 1) state refs parent [joinLines (l0 :: r)] =
      some (parent.append (mkText "p" (joinLines (l0 :: r))), refs) := by
  simp only [parseBlocksXT, dispatchXT_plain cfg tab htab _ state refs parent l0 r [] h,
    paraP_plain state hst refs parent l0 r [] h]

/-- `parseChunk` (extended) on a text of plain lines -/
theorem parseChunkXT_plain (cfg : XCfg) (tab : Nat) (htab : tab > 0) (f : Nat) (state : List BState)
    (hst : isstate state .list = false) (refs : Refs) (parent : Node) (l0 : Str) (r : List Str)
    (h : ∀ l ∈ l0 :: r, PlainFacts l) :
    parseChunk (parseBlocksXT false cfg tab (f + 1)) state refs parent (joinLines (l0 :: r)) =
      some (parent.append (mkText "p" (joinLines (l0 :: r))), refs) := by
  obtain ⟨_, _, _, hne, _⟩ := block_facts l0 r h
  have hsplit : splitS ['\n', '\n'] (joinLines (l0 :: r)) = [joinLines (l0 :: r)] := by
    simp only [splitS]
    exact DocParse.splitAux_single true _ hne
  simp only [parseChunk, hsplit]
  exact parseBlocksXT_plain1 cfg tab htab f state hst refs parent l0 r h

/-! ### searches anchored at line starts, on one line -/

theorem lineSearchAux_noNl {α : Type} (f : Str → Option α) : ∀ (s : Str) (i : Nat), '\n' ∉ s →
    lineSearchAux f false i s = none := by
  intro s
  induction s with
  | nil => intro i _; simp [lineSearchAux]
  | cons c r ih =>
    intro i h
    have hc : c ≠ '\n' := fun e => h (e ▸ List.mem_cons_self)
    simp only [lineSearchAux, Bool.false_eq_true, if_false, hc, decide_false]
    exact ih _ (fun hm => h (List.mem_cons_of_mem _ hm))

theorem lineSearch_line_none {α : Type} (f : Str → Option α) (s : Str) (hnl : '\n' ∉ s) (h0 : f s = none)
    (hne : s ≠ []) : lineSearch f s = none := by
  obtain ⟨c, r, rfl⟩ : ∃ c r, s = c :: r := by
    cases s with
    | nil => exact absurd rfl hne
    | cons c r => exact ⟨c, r, rfl⟩
  have hc : c ≠ '\n' := fun e => hnl (e ▸ List.mem_cons_self)
  simp only [lineSearch, lineSearchAux, if_true, h0, hc, decide_false]
  exact lineSearchAux_noNl f r 1 (fun hm => hnl (List.mem_cons_of_mem _ hm))

theorem lineSearch_line_some {α : Type} (f : Str → Option α) (s : Str) (a : α) (h0 : f s = some a) (hne : s ≠ []) :
    lineSearch f s = some (0, a) := by
  obtain ⟨c, r, rfl⟩ : ∃ c r, s = c :: r := by
    cases s with
    | nil => exact absurd rfl hne
    | cons c r => exact ⟨c, r, rfl⟩
  simp only [lineSearch, lineSearchAux, if_true, h0]


theorem nlSearchAux_noNl {α : Type} (f : Str → Option α) : ∀ (s : Str) (i : Nat), '\n' ∉ s →
    nlSearchAux f i s = none := by
  intro s
  induction s with
  | nil => intro i _; rfl
  | cons c r ih =>
    intro i h
    have hc : c ≠ '\n' := fun e => h (e ▸ List.mem_cons_self)
    simp only [nlSearchAux, hc, if_false]
    exact ih _ (fun hm => h (List.mem_cons_of_mem _ hm))

theorem defSearch_line_none (b : Str) (hnl : '\n' ∉ b) (h0 : defAt b = none) : defSearch b = none := by
  simp only [defSearch, nlSearch, h0, nlSearchAux_noNl defAt b 0 hnl]

end MdVerif.RenderX
