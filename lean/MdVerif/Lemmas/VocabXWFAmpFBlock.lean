/-
C05 on the extension pipeline, removal of the residual hypothesis `hamp` of `C05X_partial`, fenced_code ON with fenced
blocks in the document: the preprocessors and the block stage.

`FencedBlockPreprocessor` replaces every fenced block by the raw-HTML placeholder `STX wzxhzdk:k ETX`, a block of its
own (`NoCtlF.OwnBlock`, `Spec/F/OwnBlock.lean`).  A class of strings that is closed under infixes cannot contain the
placeholders AND imply the invariant `G.SOk` of the inline stage; worker fc2's three string classes
(`BlkXT.Dom2`, `Lemmas/F/PlaceholdersXTBlock.lean`) separate the roles.  The instance used here, for EVERY source:

* `Bp` = no STX/ETX at all (`AllC okc`, the class of `strDomX_noctl`): the blocks the processors take apart;
* `Tp` = `G.SOk`: the strings of the tree — closed under newline-joins, `lstrip`, `lines`, and a whole placeholder is
  `STX w…`;
* `Rp` = `Bp` or one placeholder block (`NoCtlF.TokBlock`): the elements of the block list; a placeholder block only
  meets `EmptyBlockProcessor` and `ParagraphProcessor` (`BlkXT.dispatchXT_tokline`, needs `0 < tab`).

* `fencedLoopA_own`: the loop of the preprocessor on a text without STX/ETX — the `own`/`rest` part of fc2's
  `finv_step`/`fencedLoopA_inv` without the domain facts (`DomA`, `Adj3`, `Qw`) — gives `OwnBlock` and stash entries
  without STX/ETX;  `prepareX_own`: through `Extract.extract` (`ownBlock_semiIns`);
* `pl_splitS_ownq`: the block list of an `OwnBlock` text; `block_stage_F`: the tree has `G.NodeS`, the log no STX.

Core Lean only.
-/
import MdVerif.Lemmas.VocabXWFAmpPipe
import MdVerif.Lemmas.F.PlaceholdersXTFence
import MdVerif.Lemmas.F.PlaceholdersAmpExtract

set_option autoImplicit false

namespace MdVerif.VocabXAmp
open Py G PipelineX
open MdVerif.NoCtl.BlkB (PL pl_cons pl_one pl_nil)
open MdVerif.NoCtl.BlkX (TX LogC XInv)
open MdVerif.NoCtl.BlkXT
open MdVerif.NoCtlF (nn NlOpt BeforeTok AfterTok OwnBlock TokBlock)
open MdVerif.NoCtlXF.XT (mem_join_decomp splitAux_no_sep nlOpt_before nlOpt_after last_of_suffix_nn
  nl_not_mem_placeholder tokCh_placeholder placeholder_cons unique_occ ph_not_mem placeholder_eq afterTok_replace
  fenceFindFrom_shape noCtl_suffix entry_noctl lstrip_of_head)

/-- fc2's helper lemmas carry the (unused) parameters of the token grammar of `Spec/F`; any instance will do -/
local instance : NoCtlF.HtmlBound := ⟨0, false, false⟩

/-! ### the three classes -/

/-- ordinary blocks: no STX, no ETX -/
abbrev Bq : Str → Prop := NoCtl.Blk.AllC NoCtl.Blk.okc

/-- strings of the tree: the invariant of the inline stage -/
abbrev Tq : Str → Prop := fun s => SOk s = true

/-- the elements of a block list: an ordinary block or one placeholder block -/
def Rq (h : Nat) (s : Str) : Prop := Bq s ∨ TokBlock h s

theorem placeholder_shape (n : Nat) : ∃ r, Fenced.placeholder n = G.STX :: 'w' :: r ∧ G.STX ∉ r := by
  refine ⟨"zxhzdk:".toList ++ natToDec n ++ [Char.ofNat 3], rfl, ?_⟩
  intro hm
  rcases List.mem_append.1 hm with hm | hm
  · rcases List.mem_append.1 hm with hm | hm
    · revert hm; decide
    · exact natToDec_noSTX n hm
  · revert hm; decide

theorem sok_placeholder (n : Nat) : SOk (Fenced.placeholder n) = true := by
  obtain ⟨r, e, hr⟩ := placeholder_shape n
  rw [e]; exact SOk_stx_letter (Or.inr rfl) hr

theorem sok_nlOpt {a : Str} (h : NlOpt a) : SOk a = true := by
  rcases h with rfl | rfl <;> decide

theorem tq_tokBlock {h : Nat} {x : Str} (hx : TokBlock h x) : Tq x := by
  obtain ⟨n, a, b, _, ha, hb, rfl⟩ := hx
  exact SOk_append (SOk_append (sok_nlOpt ha) (sok_placeholder n)) (sok_nlOpt hb)

theorem tq_of_bq {s : Str} (h : Bq s) : Tq s := SOk_of_noSTX (noSTX_of_allC h)

theorem tq_join {a b : Str} (ha : Tq a) (hb : Tq b) : Tq (a ++ '\n' :: b) :=
  SOk_append ha (by rw [SOk_cons_ne (by decide)]; exact hb)

theorem tq_lines {s : Str} (h : Tq s) : PL Tq (lines s) := by
  intro l hl
  obtain ⟨u, v, e, _, hv⟩ := mem_join_decomp (sep := ['\n']) hl
  have e' : s = u ++ l ++ v := by
    rw [← e]; exact (lines_joinLines s).symm
  have h1 : SOk (l ++ v) = true := by
    have : s = u ++ (l ++ v) := by rw [e']; simp
    rw [this] at h
    exact SOk_right h
  refine SOk_left h1 ?_
  intro c hc
  rcases hv with rfl | ⟨v', rfl⟩
  · cases hc
  · simp only [List.singleton_append, List.head?_cons, Option.some.injEq] at hc
    subst hc; decide

theorem tokBlock_head {h : Nat} {x : Str} (hx : TokBlock h x) : x.head? = some '\n' ∨ x.head? = some G.STX := by
  obtain ⟨n, a, b, _, ha, _, rfl⟩ := hx
  obtain ⟨r, e, _⟩ := placeholder_shape n
  rcases ha with rfl | rfl
  · right; rw [e]; rfl
  · left; rfl

/-- **the three string classes of the block stage with raw-HTML placeholders, for every text** -/
theorem dom2_q (h : Nat) : Dom2 NoCtl.Blk.okc NoCtl.Blk.okc Bq Tq (Rq h) where
  b := strDomX_noctl
  sub := fun _ hs => tq_of_bq hs
  rOf := fun _ hs => .inl hs
  rSp := by
    intro s hs hsp
    rcases hs with hs | hs
    · exact hs
    · exfalso
      obtain ⟨t, ht⟩ := startsWith_iff_prefix.1 hsp
      have hh : s.head? = some ' ' := by rw [ht]; rfl
      rcases tokBlock_head hs with e | e
      · rw [e] at hh; exact absurd hh (by decide)
      · rw [e] at hh; exact absurd hh (by decide)
  join := fun _ _ ha hb => tq_join ha (tq_of_bq hb)
  lstrip := fun _ hs => SOk_lstrip hs
  lines := fun _ hs => tq_lines hs

/-! ### a placeholder block in the loop -/

theorem tok_step_q (h : Nat) {tables : Bool} {cfg : BlockExt.XCfg} {tab : Nat} (htab : 0 < tab) {pb : Block.PB}
    {state : List Block.BState} {refs : Block.Refs}
    {parent : Node} {b : Str} {rest : List Str} {r : Node × Block.Refs × List Str}
    (hP : TX NoCtl.Blk.okc NoCtl.Blk.okc Tq parent) (hA : parent.textAtomic = false)
    (hR : LogC NoCtl.Blk.okc Bq refs) (hb : TokBlock h b) (hrest : PL (Rq h) rest)
    (hr : BlockExt.dispatchXT tables cfg tab pb state refs parent b rest = some r) :
    ResT NoCtl.Blk.okc NoCtl.Blk.okc Bq Tq (Rq h) r := by
  have hbT := tq_tokBlock hb
  obtain ⟨n, a, e, hn, ha, he, rfl⟩ := hb
  obtain ⟨w, hw⟩ := placeholder_cons n
  have hch := tokCh_placeholder n
  rw [hw] at hch
  rcases ha with rfl | rfl
  · -- the paragraph
    have e1 : [] ++ Fenced.placeholder n ++ e = NoCtl.STX :: w ++ e := by rw [hw]; rfl
    rw [e1] at hr hbT
    rw [dispatchXT_tokline tables cfg tab htab pb state refs parent NoCtl.STX w e rest hch (by decide) (by decide) he]
      at hr
    cases hr
    refine paraP_gen (dom2_q h).tnil hP hA hR (fun a' ha' => tq_join ha' hbT) ?_ hrest
    rw [show NoCtl.STX :: w ++ e = NoCtl.STX :: (w ++ e) from rfl, lstrip_of_head (by decide)]
    exact hbT
  · -- the line feed in front
    have e1 : ['\n'] ++ Fenced.placeholder n ++ e = '\n' :: (NoCtl.STX :: w) ++ e := by rw [hw]; rfl
    rw [e1] at hr
    rw [dispatchXT_nl_tokline tables cfg tab htab pb state refs parent (NoCtl.STX :: w) e rest hch he] at hr
    cases hr
    refine emptyP_t (dom2_q h) hP hA hR ?_ hrest
    refine .inr ⟨n, [], e, hn, .inl rfl, he, ?_⟩
    rw [hw]; rfl

/-- **the loop of the extended block parser keeps the invariant on lists of ordinary blocks and placeholder blocks** -/
theorem parseBlocksXT_pres_q (h : Nat) (tables : Bool) (cfg : BlockExt.XCfg) {tab : Nat} (htab : 0 < tab) (f : Nat) :
    PresT NoCtl.Blk.okc NoCtl.Blk.okc Bq Tq (Rq h) (BlockExt.parseBlocksXT tables cfg tab f) :=
  parseBlocksXT_pres_of tables cfg tab (fun pb hpb state refs parent b rest r hP hA hR hb hrest hd => by
    rcases hb with hb | hb
    · exact dispatchXT_t (dom2_q h) hpb hP hA hR hb hrest hd
    · exact tok_step_q h htab hP hA hR hb hrest hd) f

/-! ### the blocks of a text in which every placeholder is a block of its own -/

theorem rq_of_piece {h : Nat} {s x u v : Str} (e : s = u ++ x ++ v) (hu : u = [] ∨ ∃ u', u = u' ++ nn)
    (hv : v = [] ∨ ∃ v', v = nn ++ v') (hx : ¬ nn <:+: x) (ho : OwnBlock h s) : Rq h x := by
  by_cases hs : NoCtl.STX ∈ x
  · -- a placeholder block
    right
    obtain ⟨x1, x2, rfl⟩ := List.append_of_mem hs
    obtain ⟨n, r, hn, hph, hbef, haft⟩ := ho.1 (u ++ x1) (x2 ++ v) (by rw [e]; simp)
    obtain ⟨x3, h3, hr3⟩ : ∃ x3, NoCtl.STX :: x2 = Fenced.placeholder n ++ x3 ∧ r = x3 ++ v := by
      have e2 : (NoCtl.STX :: x2) ++ v = Fenced.placeholder n ++ r := by rw [← hph]; rfl
      rcases List.append_eq_append_iff.1 e2 with ⟨w, hw1, hw2⟩ | ⟨w, hw1, hw2⟩
      · cases w with
        | nil => exact ⟨[], by simpa using hw1.symm, by simpa using hw2.symm⟩
        | cons c w' =>
          exfalso
          rcases hv with rfl | ⟨v', rfl⟩
          · cases hw2
          · simp only [nn, List.cons_append, List.cons.injEq] at hw2
            apply nl_not_mem_placeholder n
            rw [hw1, ← hw2.1]; simp
      · exact ⟨w, hw1, hw2⟩
    have hx1 : ¬ nn <:+: x1 := fun hi => hx (hi.trans ⟨[], NoCtl.STX :: x2, by simp⟩)
    have hx3 : ¬ nn <:+: x3 := fun hi => hx (hi.trans ⟨x1 ++ Fenced.placeholder n, [], by rw [h3]; simp⟩)
    refine ⟨n, x1, x3, hn, nlOpt_before hbef hx1, nlOpt_after (hr3 ▸ haft) hx3, ?_⟩
    rw [h3]; simp
  · -- an ordinary block
    left
    have he : NoCtl.ETX ∉ x := by
      intro hm
      obtain ⟨x1, x2, rfl⟩ := List.append_of_mem hm
      obtain ⟨n, u', _, hq'⟩ := ho.2 (u ++ x1) (x2 ++ v) (by rw [e]; simp)
      obtain ⟨body, hbody⟩ : ∃ body, Fenced.placeholder n = (NoCtl.STX :: body) ++ [NoCtl.ETX] := ⟨_, rfl⟩
      have hcut : u ++ x1 = u' ++ NoCtl.STX :: body := by
        rw [hbody, ← List.append_assoc] at hq'
        exact (List.append_inj' hq' rfl).1
      have hbm : ∀ c ∈ NoCtl.STX :: body, c ∈ Fenced.placeholder n := by
        intro c hc; rw [hbody]; exact List.mem_append_left _ hc
      have hs1 : NoCtl.STX ∉ x1 := fun h' => hs (List.mem_append_left _ h')
      by_cases hlen : (NoCtl.STX :: body).length ≤ x1.length
      · have : (NoCtl.STX :: body) <:+ x1 :=
          List.suffix_of_suffix_length_le (l₃ := u ++ x1) ⟨u', hcut.symm⟩ (List.suffix_append u x1) hlen
        exact hs1 (this.subset (by simp))
      · have hsuf : x1 <:+ NoCtl.STX :: body :=
          List.suffix_of_suffix_length_le (l₃ := u ++ x1) (List.suffix_append u x1) ⟨u', hcut.symm⟩ (by omega)
        obtain ⟨t, ht⟩ := hsuf
        have htne : t ≠ [] := by
          intro h0; subst h0
          simp only [List.nil_append] at ht
          rw [ht] at hlen; exact hlen (Nat.le_refl _)
        have hu' : u = u' ++ t := by
          rw [← ht, ← List.append_assoc] at hcut
          exact List.append_cancel_right hcut
        rcases hu with rfl | ⟨u'', hu2⟩
        · have := congrArg List.length hu'
          simp only [List.length_nil, List.length_append] at this
          exact htne (List.eq_nil_of_length_eq_zero (by omega))
        · have hm := last_of_suffix_nn htne ⟨u', hu'.symm⟩ ⟨u'', hu2.symm⟩
          exact nl_not_mem_placeholder n (hbm _ (by rw [← ht]; exact List.mem_append_left _ hm))
    intro c hcm
    have h2 : c ≠ NoCtl.STX := fun h' => hs (h' ▸ hcm)
    have h3 : c ≠ NoCtl.ETX := fun h' => he (h' ▸ hcm)
    simp [NoCtl.Blk.okc, h2, h3]

/-- **the block list of a text in which every placeholder is a block of its own** -/
theorem pl_splitS_ownq {h : Nat} {s : Str} (ho : OwnBlock h s) : PL (Rq h) (splitS nn s) := by
  intro x hx
  obtain ⟨u, v, e, hu, hv⟩ := mem_join_decomp (sep := nn) hx
  rw [join_splitS (by simp [nn])] at e
  exact rq_of_piece e hu hv (splitAux_no_sep nn (by simp [nn]) s 0 x hx) ho

/-! ### the block stage -/

theorem nodeS_of_xinv {n : Node} (h : XInv NoCtl.Blk.okc NoCtl.Blk.okc Tq n) : NodeS n := by
  obtain ⟨hn, _⟩ := h
  refine ⟨?_, hn.tail, fun kv hkv => SOkA_of_noSTX (noSTX_of_allC (hn.attrs kv hkv).2)⟩
  have ht := hn.text
  by_cases hat : n.textAtomic = true
  · rw [if_pos hat] at ht; exact SOk_of_noSTX (noSTX_of_allC ht)
  · rw [if_neg hat] at ht; exact ht

/-- **the extended block stage on a text in which every placeholder is a block of its own**: the tree has the
    invariant of the inline stage, the log holds no STX/ETX -/
theorem block_stage_F (tables : Bool) (xc : BlockExt.XCfg) {tab : Nat} (htab : 0 < tab) {h : Nat} {text : Str}
    (ho : OwnBlock h text) {root : Node} {log : Block.Refs}
    (hr : BlockExt.parseDocumentXT tables xc tab text = some (root, log)) :
    root.Forall NodeS ∧ NoCtl.BlkX.LogC NoCtl.Blk.okc (NoCtl.Blk.AllC NoCtl.Blk.okc) log := by
  obtain ⟨o1, _, o3⟩ := parseBlocksXT_pres_q h tables xc htab _ _ _ _ _ _
    (NoCtl.BlkX.tx_el (dom2_q h).tnil "div" (by decide)) rfl NoCtl.BlkX.logC_nil (pl_splitS_ownq ho) hr
  exact ⟨Node.Forall.mono (fun _ hn => nodeS_of_xinv hn) root o1, o3⟩

/-! ### the fenced-code preprocessor on a text without STX/ETX -/

/-- the part of fc2's loop invariant that needs no domain facts -/
structure FInvQ (text : Str) (index h : Nat) : Prop where
  own : OwnBlock h text
  rest : NoCtl.NoCtl (text.drop index)

open MdVerif.Fenced in
/-- **one replacement keeps the invariant** (the `own` and `rest` parts of `NoCtlXF.XT.finv_step`) -/
theorem finvq_step {text : Str} {index h : Nat} (hI : FInvQ text index h) {m : FenceMatch}
    (hm : fenceFindFrom text index = some m) :
    FInvQ (text.take m.start ++ '\n' :: (Fenced.placeholder h ++ '\n' :: text.drop m.stop))
      (m.start + 1 + (Fenced.placeholder h).length) (h + 1) := by
  obtain ⟨b1, b2, b3, hls, ⟨c, rD, hD, hc⟩, hle, _, _, _⟩ := fenceFindFrom_shape hm
  have hcn : c ≠ '\n' := by rcases hc with rfl | rfl <;> decide
  have hcph : ∀ n, c ∉ Fenced.placeholder n := by
    intro n
    rcases hc with rfl | rfl <;> exact ph_not_mem n (by decide) (by decide) (by decide)
  have hDsuf : text.drop m.start <:+: text.drop index := by
    have : text.drop m.start = (text.drop index).drop (m.start - index) := by
      rw [List.drop_drop]; congr 1; omega
    rw [this]; exact (List.drop_suffix _ _).isInfix
  have hCsuf : text.drop m.stop <:+: text.drop index := by
    have : text.drop m.stop = (text.drop index).drop (m.stop - index) := by
      rw [List.drop_drop]; congr 1; omega
    rw [this]; exact (List.drop_suffix _ _).isInfix
  have hDn : NoCtl.NoCtl (text.drop m.start) := noCtl_suffix hI.rest hDsuf
  have hCn : NoCtl.NoCtl (text.drop m.stop) := noCtl_suffix hI.rest hCsuf
  have htext : text = text.take m.start ++ text.drop m.start := (List.take_append_drop _ _).symm
  have hbody : ∀ d ∈ NoCtlF.htmlBody h, d ≠ NoCtl.STX ∧ d ≠ NoCtl.ETX :=
    fun d hd => NoCtlF.inner_ne (NoCtlF.htmlBody_inner h d hd)
  have hph : Fenced.placeholder h = NoCtl.STX :: (NoCtlF.htmlBody h ++ [NoCtl.ETX]) := by
    rw [placeholder_eq]; simp [NoCtlF.frnToken]
  generalize hA : text.take m.start = A at hls htext
  generalize hDD : text.drop m.start = D at hD hDn htext
  generalize hC : text.drop m.stop = C at hle hCn
  have hAlen : A.length = m.start := by rw [← hA, List.length_take]; omega
  refine ⟨⟨?_, ?_⟩, ?_⟩
  · -- every STX starts a placeholder block
    intro u w e
    rcases List.append_eq_append_iff.1 e with ⟨y, hy1, hy2⟩ | ⟨y, hy1, hy2⟩
    · have e2 : ['\n'] ++ NoCtl.STX :: (NoCtlF.htmlBody h ++ NoCtl.ETX :: '\n' :: C) = y ++ NoCtl.STX :: w := by
        rw [← hy2, hph]; simp
      have hnot : NoCtl.STX ∉ NoCtlF.htmlBody h ++ NoCtl.ETX :: '\n' :: C := by
        intro hm'
        simp only [List.mem_append, List.mem_cons] at hm'
        rcases hm' with hm' | hm' | hm' | hm'
        · exact (hbody _ hm').1 rfl
        · revert hm'; decide
        · revert hm'; decide
        · exact hCn.1 hm'
      obtain ⟨rfl, rfl⟩ := unique_occ (x := NoCtl.STX) (p := ['\n']) (by decide) hnot e2
      refine ⟨h, '\n' :: C, by omega, by rw [hph]; simp, ?_, ?_⟩
      · rw [hy1]
        rcases hls with h0 | ⟨x, hx⟩
        · rw [h0]; exact .inr (.inl rfl)
        · rw [hx]; exact .inr (.inr ⟨x, by simp [nn]⟩)
      · rcases hle with h0 | ⟨y, hy⟩
        · rw [h0]; exact .inr (.inl rfl)
        · rw [hy]; exact .inr (.inr ⟨y, by simp [nn]⟩)
    · cases y with
      | nil =>
        exfalso
        simp only [List.nil_append, List.cons.injEq] at hy2
        exact absurd hy2.1 (by decide)
      | cons d y' =>
        simp only [List.cons_append, List.cons.injEq] at hy2
        obtain ⟨rfl, rfl⟩ := hy2
        have eold : text = u ++ NoCtl.STX :: (y' ++ D) := by rw [htext, hy1]; simp
        obtain ⟨n, r, hn, hphn, hbef, haft⟩ := hI.own.1 u (y' ++ D) eold
        obtain ⟨r1, hr1, hr⟩ : ∃ r1, NoCtl.STX :: y' = Fenced.placeholder n ++ r1 ∧ r = r1 ++ D := by
          have e3 : (NoCtl.STX :: y') ++ D = Fenced.placeholder n ++ r := by rw [← hphn]; rfl
          rcases List.append_eq_append_iff.1 e3 with ⟨z, hz1, hz2⟩ | ⟨z, hz1, hz2⟩
          · cases z with
            | nil => exact ⟨[], by simpa using hz1.symm, by simpa using hz2.symm⟩
            | cons z0 z' =>
              exfalso
              rw [hD] at hz2
              simp only [List.cons_append, List.cons.injEq] at hz2
              apply hcph n
              rw [hz1, hz2.1]; simp
          · exact ⟨z, hz1, hz2⟩
        refine ⟨n, r1 ++ '\n' :: (Fenced.placeholder h ++ '\n' :: C), by omega, ?_, hbef, ?_⟩
        · have : NoCtl.STX :: (y' ++ '\n' :: (Fenced.placeholder h ++ '\n' :: C)) =
              (NoCtl.STX :: y') ++ '\n' :: (Fenced.placeholder h ++ '\n' :: C) := rfl
          rw [this, hr1]; simp
        · exact afterTok_replace hD hcn (hr ▸ haft)
  · -- every ETX ends a placeholder
    intro u w e
    rcases List.append_eq_append_iff.1 e with ⟨y, hy1, hy2⟩ | ⟨y, hy1, hy2⟩
    · have e2 : ('\n' :: NoCtl.STX :: NoCtlF.htmlBody h) ++ NoCtl.ETX :: ('\n' :: C) = y ++ NoCtl.ETX :: w := by
        rw [← hy2, hph]; simp
      have hnot1 : NoCtl.ETX ∉ '\n' :: NoCtl.STX :: NoCtlF.htmlBody h := by
        intro hm'
        simp only [List.mem_cons] at hm'
        rcases hm' with hm' | hm' | hm'
        · revert hm'; decide
        · revert hm'; decide
        · exact (hbody _ hm').2 rfl
      have hnot2 : NoCtl.ETX ∉ '\n' :: C := by
        intro hm'
        simp only [List.mem_cons] at hm'
        rcases hm' with hm' | hm'
        · revert hm'; decide
        · exact hCn.2 hm'
      obtain ⟨rfl, rfl⟩ := unique_occ hnot1 hnot2 e2
      exact ⟨h, A ++ ['\n'], by omega, by rw [hy1, hph]; simp⟩
    · cases y with
      | nil =>
        exfalso
        simp only [List.nil_append, List.cons.injEq] at hy2
        exact absurd hy2.1 (by decide)
      | cons d y' =>
        simp only [List.cons_append, List.cons.injEq] at hy2
        obtain ⟨rfl, rfl⟩ := hy2
        have eold : text = u ++ NoCtl.ETX :: (y' ++ D) := by rw [htext, hy1]; simp
        obtain ⟨n, u', hn, hq⟩ := hI.own.2 u (y' ++ D) eold
        exact ⟨n, u', by omega, hq⟩
  · -- behind the new index
    have : (A ++ '\n' :: (Fenced.placeholder h ++ '\n' :: C)).drop (m.start + 1 + (Fenced.placeholder h).length) =
        '\n' :: C := by
      rw [← hAlen, show A.length + 1 + (Fenced.placeholder h).length =
        A.length + (1 + (Fenced.placeholder h).length) by omega, ← List.drop_drop, List.drop_left]
      rw [show 1 + (Fenced.placeholder h).length = (Fenced.placeholder h).length + 1 by omega,
        List.drop_succ_cons, List.drop_left]
    rw [this]
    exact ⟨by intro hm'; simp only [List.mem_cons] at hm'; rcases hm' with hm' | hm'
              · revert hm'; decide
              · exact hCn.1 hm',
           by intro hm'; simp only [List.mem_cons] at hm'; rcases hm' with hm' | hm'
              · revert hm'; decide
              · exact hCn.2 hm'⟩

/-- **the loop of `FencedBlockPreprocessor.run`**: every placeholder is a block of its own, every stash entry is free
    of STX/ETX -/
theorem fencedLoopA_own : ∀ (fuel : Nat) (text : Str) (index : Nat) (stash : List Str) (t' : Str)
    (stash' : List Str), Fenced.fencedLoopA fuel text index stash = .ok t' stash' →
    FInvQ text index stash.length → (∀ e ∈ stash, NoCtl.NoCtl e) →
    OwnBlock stash'.length t' ∧ ∀ e ∈ stash', NoCtl.NoCtl e := by
  intro fuel
  induction fuel with
  | zero => intro text index stash t' stash' h; simp [Fenced.fencedLoopA] at h
  | succ k ih =>
    intro text index stash t' stash' h hI hS
    simp only [Fenced.fencedLoopA] at h
    split at h
    · simp only [Fenced.RunResult.ok.injEq] at h
      obtain ⟨rfl, rfl⟩ := h
      exact ⟨hI.own, hS⟩
    · rename_i m hm
      obtain ⟨b1, _, _, _, _, _, i1, i2, i3⟩ := fenceFindFrom_shape hm
      have hcode := noCtl_suffix hI.rest i1
      have hattrs := noCtl_suffix hI.rest i2
      have hlang := noCtl_suffix hI.rest i3
      obtain ⟨e1, e2⟩ := entry_noctl hattrs hlang hcode
      have hstep := finvq_step hI hm
      have hS' : ∀ x, NoCtl.NoCtl x → ∀ e ∈ stash ++ [x], NoCtl.NoCtl e := by
        intro x hx e he
        rcases List.mem_append.1 he with he | he
        · exact hS e he
        · simp only [List.mem_singleton] at he; subst he; exact hx
      split at h
      · refine ih _ _ _ _ _ h ?_ (hS' _ e1)
        simpa using hstep
      · split at h
        · refine ih _ _ _ _ _ h ⟨hI.own, ?_⟩ hS
          have hge : index ≤ Fenced.attrsEnd text m (m.attrs.getD []) := by
            unfold Fenced.attrsEnd; omega
          have : text.drop (Fenced.attrsEnd text m (m.attrs.getD [])) =
              (text.drop index).drop (Fenced.attrsEnd text m (m.attrs.getD []) - index) := by
            rw [List.drop_drop]; congr 1; omega
          rw [this]
          exact noCtl_suffix hI.rest (List.drop_suffix _ _).isInfix
        · refine ih _ _ _ _ _ h ?_ (hS' _ e2)
          simpa using hstep

theorem ownBlock_of_noCtl' (h : Nat) {s : Str} (hs : NoCtl.NoCtl s) : OwnBlock h s := by
  refine ⟨fun u w e => ?_, fun u w e => ?_⟩
  · exact absurd (by rw [e]; simp) hs.1
  · exact absurd (by rw [e]; simp) hs.2

/-- **the preprocessors, for every source and every flag set**: in the text handed to the block parser every STX/ETX
    belongs to a raw-HTML placeholder that is a block of its own, and the stash holds no STX/ETX -/
theorem prepareX_own {x : Exts} {cfg : Pipeline.Cfg} {src text : Str} {stash : List Str}
    (h : prepareX x cfg src = .ok (text, stash)) :
    OwnBlock stash.length text ∧ ∀ e ∈ stash, NoCtl.NoCtl e := by
  have hn : NoCtl.NoCtl (Normalize.normalize cfg.tab src) := NoCtl.normalize_noctl cfg.tab src
  unfold prepareX at h
  simp only at h
  split at h
  · cases h
  · split at h
    · split at h
      · cases h
      · split at h
        · rename_i t' st hrun
          simp only [FootnotesTree.R.ok.injEq, Prod.mk.injEq] at h
          obtain ⟨rfl, rfl⟩ := h
          obtain ⟨o1, o2⟩ := fencedLoopA_own _ _ _ _ _ _ hrun
            ⟨ownBlock_of_noCtl' 0 hn, by simpa using hn⟩ (fun e he => by cases he)
          exact ⟨NoCtlF.ownBlock_semiIns (NoCtlF.extract_semiIns t') o1, o2⟩
        · cases h
    · simp only [FootnotesTree.R.ok.injEq, Prod.mk.injEq] at h
      obtain ⟨rfl, rfl⟩ := h
      exact ⟨NoCtlF.ownBlock_semiIns (NoCtlF.extract_semiIns _) (ownBlock_of_noCtl' _ hn), by simp⟩

end MdVerif.VocabXAmp
