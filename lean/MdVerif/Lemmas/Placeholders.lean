/-
Helper lemmas for C10 (`Props/C10.lean`): umbrella of the parts, and the composition of the stage lemmas along
`Pipeline.convert`.

Parts (all core Lean):
* `PlaceholdersBasic`  `NoCtl`, `Node.Forall`, tokens, `WF` (split / append), searching placeholders
* `PlaceholdersBlock`  the block parser invents no characters (`Blk.parseDocument_chars`)
* `PlaceholdersPP`     `processPlaceholders` restores every in-range placeholder
* `PlaceholdersRun`    `InlineProcessor.run` visits every element that holds a placeholder
* `PlaceholdersHI`     `handleInline` / `applyPattern` keep data and stash closed, given the matchers' contract
* `PlaceholdersPat`    backtick, escape, line break, not_strong matchers
* `PlaceholdersEm`     emphasis matchers; the contract of `findMatch` in the two modes
* `PlaceholdersPost`   post-conditions of `UnescapeTreeprocessor`, `AndSubstitutePostprocessor`, `RawHtmlPostprocessor`
* `PlaceholdersChain`  raw-HTML preprocessor on `<`-free text, serializer, `PrettifyTreeprocessor`, end of `convert`
-/
import MdVerif.Lemmas.PlaceholdersBasic
import MdVerif.Lemmas.PlaceholdersBlock
import MdVerif.Lemmas.PlaceholdersPP
import MdVerif.Lemmas.PlaceholdersRun
import MdVerif.Lemmas.PlaceholdersHI
import MdVerif.Lemmas.PlaceholdersPat
import MdVerif.Lemmas.PlaceholdersEm
import MdVerif.Lemmas.PlaceholdersPost
import MdVerif.Lemmas.PlaceholdersChain
import MdVerif.Lemmas.Normalize

namespace MdVerif.NoCtl
open Py Inline

/-! ### the text handed to the block parser -/

theorem normalize_noctl (tab : Nat) (s : Str) : NoCtl (Normalize.normalize tab s) :=
  noCtl_iff.2 fun _ hc => ⟨(Normalize.mem_normalize hc).2.1, (Normalize.mem_normalize hc).2.2.1⟩

theorem prepare_noctl (cfg : Pipeline.Cfg) (s : Str) : NoCtl (Pipeline.prepare cfg s) :=
  extract_noctl (normalize_noctl cfg.tab s)

/-- in the character domain of the inline subset, the prepared text stays in the domain -/
theorem prepare_dom {esc : Bool} (cfg : Pipeline.Cfg) {s : Str} (h : DomS esc s) :
    Blk.AllC (fun c => Blk.okc c && domChar esc c) (Pipeline.prepare cfg s) := by
  have hn : ∀ c ∈ Normalize.normalize cfg.tab s, domChar esc c = true := by
    intro c hc
    rcases (Normalize.mem_normalize hc).1 with rfl | rfl | hm
    · cases esc <;> decide
    · cases esc <;> decide
    · exact h c hm
  have hamp : '&' ∉ Normalize.normalize cfg.tab s := by
    intro hm
    have := hn _ hm
    cases esc <;> simp [domChar] at this
  intro c hc
  have hok := noCtl_iff.1 (prepare_noctl cfg s) c hc
  rcases mem_extract hc with hm | ⟨ha, _⟩
  · simp only [Bool.and_eq_true]
    exact ⟨by simp [Blk.okc, hok.1, hok.2], hn c hm⟩
  · exact absurd ha hamp

/-! ### from the block tree to the invariants of the inline engine -/

theorem allC_okc {s : Str} (h : Blk.AllC Blk.okc s) : NoCtl s :=
  noCtl_iff.2 fun c hc => by
    have := h c hc
    simpa [Blk.okc] using this

theorem allC_dom {esc : Bool} {s : Str} (h : Blk.AllC (fun c => Blk.okc c && domChar esc c) s) :
    NoCtl s ∧ DomS esc s := by
  refine ⟨noCtl_iff.2 fun c hc => ?_, fun c hc => ?_⟩
  · have := h c hc
    simp only [Bool.and_eq_true] at this
    simpa [Blk.okc] using this.1
  · have := h c hc
    simp only [Bool.and_eq_true] at this
    exact this.2

theorem tnode_of_bnode {esc : Bool} {n : Node} (h : Blk.BNode (fun c => Blk.okc c && domChar esc c) Blk.okc n) :
    TNode esc n := by
  obtain ⟨b1, b2, b3, b4, b5, b6, b7⟩ := h
  have htail := allC_dom b4
  have hattrs : attrsNoCtl n.attrs := by rw [b2]; intro kv hkv; cases hkv
  refine ⟨b1, hattrs, ⟨WF.of_noCtl htail.1, htail.2⟩, ?_, ?_, ?_⟩
  · split
    · rename_i hc
      rw [hc.2] at b5
      exact allC_okc b5
    · rename_i hc
      have hat : n.textAtomic = false := by
        cases hx : n.textAtomic with
        | false => rfl
        | true => exact absurd ⟨by simp [isCode, b6 hx], hx⟩ hc
      rw [hat] at b5
      have ht := allC_dom b5
      exact ⟨WF.of_noCtl ht.1, ht.2⟩
  · intro hc _
    exact b7 (by simpa [isCode] using hc)
  · intro hat
    rw [hat] at b5
    exact WF.of_noCtl (allC_okc b5)

theorem fnode_of_tnode {esc : Bool} {n : Node} (h : TNode esc n) : FNode n := by
  obtain ⟨h1, h2, h3, h4, h5, h6⟩ := h
  have htext : WFO true 0 n.text ∧ (isCode n = true → NoCtlO n.text) := by
    by_cases hc : isCode n = true ∧ n.textAtomic = true
    · rw [if_pos hc] at h4
      exact ⟨WF.of_noCtl h4, fun _ => h4⟩
    · rw [if_neg hc] at h4
      refine ⟨WF.mono (Nat.le_refl _) (fun _ => rfl) h4.1, ?_⟩
      intro hcd
      cases he : esc with
      | true => exact absurd ⟨hcd, h5 hcd he⟩ hc
      | false => subst he; exact noCtl_of_wf h4.1
  exact ⟨h1, h2, WF.mono (Nat.le_refl _) (fun _ => rfl) h3.1, htext.1, htext.2⟩

/-! ### end to end, on the character domain of mode `esc` -/

theorem convert_noctl_mode {esc : Bool} {cfg : Pipeline.Cfg} (hcfg : esc = true → EscOK cfg.esc) {src out : Str}
    (hd : DomS esc src) (h : Pipeline.convert cfg src = .ok out) : NoCtl out := by
  unfold Pipeline.convert at h
  split at h
  · cases h
  · split at h
    · cases h; exact noCtl_nil
    · cases ht : Pipeline.tree cfg src with
      | none => simp [ht] at h
      | some r =>
        cases r with
        | none => simp [ht] at h
        | some p =>
          obtain ⟨u, html⟩ := p
          simp only [ht] at h
          cases hf : Post.finish cfg.blockLevel html (Ser.serialize cfg.fmt u) with
          | none => simp [hf] at h
          | some r2 =>
            cases r2 with
            | none => simp [hf] at h
            | some o =>
              simp only [hf, Pipeline.Outcome.ok.injEq] at h
              subst h
              -- the stages of `tree`
              unfold Pipeline.tree at ht
              cases hb : Block.parseDocument cfg.tab (Pipeline.prepare cfg src) with
              | none => simp [hb] at ht
              | some br =>
                obtain ⟨root, refs⟩ := br
                simp only [hb] at ht
                cases hr : Inline.run { esc := cfg.esc, refs := refs.reverse } root with
                | none => simp [hr] at ht
                | some ir =>
                  obtain ⟨t, st⟩ := ir
                  simp only [hr] at ht
                  cases hu : TreeProc.unescapeTree (TreeProc.prettify t cfg.blockLevel) with
                  | none => simp [hu] at ht
                  | some u' =>
                    simp only [hu, Option.some.injEq, Prod.mk.injEq] at ht
                    obtain ⟨rfl, rfl⟩ := ht
                    obtain ⟨hroot, -, -⟩ := Blk.parseDocument_chars (Blk.charDom_dom esc) cfg.tab _ (prepare_dom cfg hd) hb
                    have htree : root.Forall (TNode esc) := Node.Forall.mono (fun _ hn => tnode_of_bnode hn) root hroot
                    have hhi : HISpec esc { esc := cfg.esc, refs := refs.reverse } := by
                      cases esc with
                      | true => exact hiSpec_true (hcfg rfl)
                      | false => exact hiSpec_false _
                    obtain ⟨ht', hhtml⟩ := run_spec hhi htree hr
                    have hfn : t.Forall FNode := Node.Forall.mono (fun _ hn => fnode_of_tnode hn) t ht'
                    have hun := unescapeTree_fnode (prettify_fnode hfn cfg.blockLevel) hu
                    have hser := serialize_noctl cfg.fmt hun
                    rw [hhtml] at hf
                    exact finish_noctl hser hf

end MdVerif.NoCtl
