/-
C05 on the extension pipeline, removal of the residual hypothesis `hamp` of `C05X_partial`: **every flag set**,
fenced_code with fenced blocks included.

`treeX_Q_tab` is `treeX_Q` of `Lemmas/VocabXWFAmpPipe.lean` with the block stage of `Lemmas/VocabXWFAmpFBlock.lean`
(`prepareX_own`, `block_stage_F`): the text handed to the block parser may hold raw-HTML placeholders, each a block of
its own; the stash of the fenced-code preprocessor holds no STX/ETX, so the postprocessors that `toc` runs on the name of
a heading keep the string class `SK` (`postX_K`).  The block-stage lemmas for a placeholder block
(`BlkXT.dispatchXT_tokline`) need `0 < tab`; `treeX_no_amp_all` asks for it only when fenced_code is on.

Core Lean only.
-/
import MdVerif.Lemmas.VocabXWFAmpFBlock

set_option autoImplicit false

namespace MdVerif.VocabXAmp
open Py G PipelineX

open VocabX in
/-- **the tree handed to the serializer** has no STX followed by `a`, in any text, tail or attribute value — every
    flag set, `tab_length ≥ 1` -/
theorem treeX_Q_tab (x : Exts) (cfg : Pipeline.Cfg) (htab : 0 < cfg.tab) (hesc : EscTwo (escX x cfg)) (src : Str)
    (u : Node) (html : List Str) (h : treeX x cfg src = .ok u html) : u.Forall NodeQ := by
  unfold treeX at h
  split at h
  · cases h
  · cases h
  · rename_i text stash hprep
    obtain ⟨hown, hstashN⟩ := prepareX_own hprep
    split at h
    · cases h
    · rename_i root log hparse
      obtain ⟨hroot, hlog⟩ := block_stage_F x.tables x.blockCfg htab hown hparse
      have nroot : BlockExt.NI (qtX x) root :=
        parseDocumentXT_NI (tagsA_X x) (tablesA_X x) (qtX_div x) cfg.tab text hparse
      dsimp only at h
      split at h
      · cases h
      · cases h
      · rename_i root1 log1 hfs
        obtain ⟨hroot1, hlog1⟩ := fnStage_S x cfg hroot hlog hfs
        have nroot1 : BlockExt.NI (qtX x) root1 := by
          split at hfs
          · rename_i hfn
            split at hfs
            · rename_i div log' hmk
              simp only [FootnotesTree.R.ok.injEq, Prod.mk.injEq] at hfs
              obtain ⟨rfl, _⟩ := hfs
              exact placeDiv_NI nroot
                (makeDiv_NI (fnQ_X x hfn) (fun l t s l' hh => parseChunkX_NI x cfg l t hh) _ _ _ hmk)
            · simp only [FootnotesTree.R.ok.injEq, Prod.mk.injEq] at hfs
              obtain ⟨rfl, _⟩ := hfs; exact nroot
            · cases hfs
            · cases hfs
          · simp only [FootnotesTree.R.ok.injEq, Prod.mk.injEq] at hfs
            obtain ⟨rfl, _⟩ := hfs; exact nroot
        split at h
        · cases h
        · rename_i t xs hrun
          have ht : t.Forall NodeS := by
            refine runX_S ?_ ?_ hrun hroot1
            · exact hesc
            · exact refsS_of_logC x _ hlog1
          have nt : BlockExt.NI (qtX x) t := runX_Q (inlQ_X x _ _) hrun nroot1
          have hhtml : ∀ e ∈ xs.st.html, G.STX ∉ e := by
            intro e he
            rcases VocabXOut.Stash.runX_entRef _ hrun e he with h' | h'
            · exact (hstashN e h').1
            · exact Vocab2.entRef_noSTX h'
          split at h
          · cases h
          · rename_i t2 hdup
            have ht2 : t2.Forall NodeS := by
              split at hdup
              · exact duplicates_S t t2 ht hdup
              · simp only [Option.some.injEq] at hdup; subst hdup; exact ht
            have nt2 : BlockExt.NI (qtX x) t2 := by
              split at hdup
              · exact duplicates_NI (keyQ_X x) (keyOkX_core (by decide)) _ _ _ hdup nt
              · simp only [Option.some.injEq] at hdup; subst hdup; exact nt
            split at h
            · cases h
            · cases h
            · cases h
            · rename_i t6 htoc
              split at h
              · cases h
              · rename_i u' hu
                simp only [TreeResult.ok.injEq] at h
                obtain ⟨rfl, _⟩ := h
                exact lateStages_Q x cfg (abbrs_noSTX hlog1) hhtml ht2 nt2 htoc hu

/-- **the residual hypothesis `hamp` of `C05X_partial` for every flag set** — fenced_code with fenced blocks
    included (then `tab_length ≥ 1`): the serialisation of the tree never contains the ampersand substitute -/
theorem treeX_no_amp_all (x : Exts) (cfg : Pipeline.Cfg) (htab : x.fencedCode = true → 0 < cfg.tab)
    (hesc : AmpFull.EscTwo (escX x cfg)) (src : Str) (u : Node) (html : List Str)
    (h : treeX x cfg src = .ok u html) (hgn : VocabXOut.GNL u.children = true) :
    contains (Vocab2.inner cfg.fmt u) Post.ampSubstitute = false := by
  cases hfc : x.fencedCode with
  | false => exact treeX_no_amp x hfc cfg hesc src u html h hgn
  | true =>
    exact inner_no_amp_gn cfg.fmt u hgn (treeX_Q_tab x cfg (htab hfc) (fun c hc => hesc c hc) src u html h)

end MdVerif.VocabXAmp
