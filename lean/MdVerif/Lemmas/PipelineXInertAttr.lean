/-
attr_list end to end: without `{` (and, with fenced_code, without `hl_lines=`) the tree processor is the identity and
no fenced block carries options.  Core Lean only.
-/
import MdVerif.Lemmas.PipelineXInertTables

namespace MdVerif.Fenced
open Py Code

/-! ### the options of a fenced block come from `{` … `}` or `hl_lines=` -/

def hlPat : Str := "hl_lines=".toList

theorem hlCands_hl {f : Str} {base : Nat} {hl : Option Str} {p : Nat} (h : (hl, p) ∈ hlCands f base) :
    hl = none ∨ hlPat <+: f := by
  simp only [hlCands, List.mem_append, List.mem_singleton] at h
  rcases h with h | h
  · split at h
    · rename_i hsw
      exact Or.inr ((BlockExt.startsWith_iff_prefix _ _).mp hsw)
    · cases h
  · injection h with h1 _
    exact Or.inl h1

theorem langCands_hl {b : Str} {base : Nat} {x : Option Str × Option Str × Nat} (h : x ∈ langCands b base) :
    x.2.1 = none ∨ hlPat <:+: b := by
  simp only [langCands, List.mem_append, List.mem_flatMap, List.mem_map] at h
  rcases h with ⟨d, _, l, _, s2, _, hp, hhp, rfl⟩ | ⟨hp, hhp, rfl⟩
  · rcases hlCands_hl hhp with h1 | h1
    · exact Or.inl h1
    · exact Or.inr (h1.isInfix.trans (List.drop_suffix _ _).isInfix)
  · rcases hlCands_hl hhp with h1 | h1
    · exact Or.inl h1
    · exact Or.inr h1.isInfix

theorem attrCands_spec {b : Str} {base : Nat} {c : Cand} (h : c ∈ attrCands b base) : '{' ∈ b ∧ c.hl = none := by
  simp only [attrCands] at h
  split at h
  · rename_i r
    simp only [List.mem_filterMap] at h
    obtain ⟨j, _, hj⟩ := h
    split at hj
    · injection hj with hj
      exact ⟨List.mem_cons_self, by rw [← hj]⟩
    · cases hj
  · cases h

theorem openCands_spec {a : Str} {c : Cand} (h : c ∈ openCands a) :
    (c.attrs = none ∨ '{' ∈ a) ∧ (c.hl = none ∨ hlPat <:+: a) := by
  simp only [openCands, List.mem_flatMap, List.mem_append, List.mem_map] at h
  obtain ⟨k, _, h | ⟨x, hx, rfl⟩⟩ := h
  · have := attrCands_spec h
    exact ⟨Or.inr ((List.drop_suffix _ _).subset this.1), Or.inl this.2⟩
  · refine ⟨Or.inl rfl, ?_⟩
    rcases langCands_hl hx with h1 | h1
    · exact Or.inl h1
    · exact Or.inr (h1.trans (List.drop_suffix _ _).isInfix)

theorem fenceAt_spec {s : Str} {m : FenceMatch} (h : fenceAt s = some m) :
    (m.attrs = none ∨ '{' ∈ s) ∧ (m.hl = none ∨ hlPat <:+: s) := by
  simp only [fenceAt] at h
  split at h
  · cases h
  · obtain ⟨c, hc, ht⟩ := List.exists_of_findSome?_eq_some h
    have := openCands_spec hc
    simp only [tryCand] at ht
    split at ht
    · split at ht
      · injection ht with ht
        rw [← ht]
        exact ⟨this.1.imp id (fun hm => (List.drop_suffix _ _).subset hm),
          this.2.imp id (fun hm => hm.trans (List.drop_suffix _ _).isInfix)⟩
      · cases ht
    · cases ht

theorem fenceScan_spec : ∀ (s : Str) (bol : Bool) (off : Nat) {m : FenceMatch}, fenceScan bol off s = some m →
    (m.attrs = none ∨ '{' ∈ s) ∧ (m.hl = none ∨ hlPat <:+: s) := by
  intro s
  induction s with
  | nil => intro bol off m h; simp [fenceScan] at h
  | cons c r ih =>
    intro bol off m h
    simp only [fenceScan] at h
    split at h
    · rename_i m' hm'
      injection h with h
      rw [← h]
      split at hm'
      · have := fenceAt_spec hm'
        exact this
      · cases hm'
    · have := ih _ _ h
      exact ⟨this.1.imp id (List.mem_cons_of_mem _), this.2.imp id List.infix_cons⟩

theorem fenceFindFrom_spec {text : Str} {index : Nat} {m : FenceMatch} (h : fenceFindFrom text index = some m) :
    (m.attrs = none ∨ '{' ∈ text) ∧ (m.hl = none ∨ hlPat <:+: text) := by
  have := fenceScan_spec _ _ _ h
  exact ⟨this.1.imp id (fun hm => (List.drop_suffix _ _).subset hm),
    this.2.imp id (fun hm => hm.trans (List.drop_suffix _ _).isInfix)⟩

end MdVerif.Fenced

namespace MdVerif.PipelineX
open Py Pipeline BlockExt InlineX

/-- no `{` and no `hl_lines=` -/
def OkAttr (s : Str) : Prop := NoC '{' s ∧ contains s Fenced.hlPat = false

theorem closed_okAttr : Closed OkAttr :=
  closed_and (closed_noC '{' (by decide)) (closed_noSub Fenced.hlPat (by decide) (by decide))

theorem prep_noC (c : Char) (h1 : c ≠ ';') (h2 : phChar c = false) : PrepClosed (NoC c) := by
  have := prepClosed_noSub [c] (by simp [h1.symm]) c (by simp) h2
  have conv : ∀ s, NoC c s ↔ contains s [c] = false := by
    intro s
    constructor
    · intro hs
      cases hcs : contains s [c] with
      | false => rfl
      | true => exact absurd (((contains_iff_infix s _).mp hcs).subset List.mem_cons_self) hs
    · intro hcs hm
      have : [c] <:+: s := by
        obtain ⟨a, b, hab⟩ := List.append_of_mem hm
        exact ⟨a, b, by simp [hab]⟩
      have := (contains_iff_infix _ _).mpr this
      simp [hcs] at this
  exact ⟨fun s hs => (conv _).mpr (this.extract s ((conv s).mp hs)), fun k => (conv _).mpr (this.ph k)⟩

theorem prep_okAttr : PrepClosed OkAttr :=
  prepClosed_and (prep_noC '{' (by decide) (by decide))
    (prepClosed_noSub Fenced.hlPat (by decide) '_' (by decide) (by decide))

theorem fencedHasConfig_false : ∀ (fuel : Nat) (text : Str) (index : Nat) (stash : List Str) {t' : Str} {st' : List Str},
    OkAttr text → Fenced.fencedLoopA fuel text index stash = .ok t' st' →
    fencedHasConfig fuel text index stash.length = false := by
  intro fuel
  induction fuel with
  | zero => intro text index stash t' st' _ h; simp [Fenced.fencedLoopA] at h
  | succ f ih =>
    intro text index stash t' st' hok h
    simp only [Fenced.fencedLoopA] at h
    simp only [fencedHasConfig]
    cases hm : Fenced.fenceFindFrom text index with
    | none => rfl
    | some m =>
      rw [hm] at h
      simp only [] at h ⊢
      obtain ⟨h1, h2⟩ := Fenced.fenceFindFrom_spec hm
      have hattrs : m.attrs = none := h1.resolve_right hok.1
      have hhl : m.hl = none := h2.resolve_right (fun hinf => by
        have := (contains_iff_infix text _).mpr hinf
        simp [hok.2] at this)
      have hnew : OkAttr (text.take m.start ++ '\n' :: (Fenced.placeholder stash.length ++ '\n' :: text.drop m.stop)) :=
        closed_okAttr.joinNl (ok_take closed_okAttr _ hok)
          (closed_okAttr.joinNl (prep_okAttr.ph _) (ok_drop closed_okAttr _ hok))
      simp only [hattrs, hhl, Option.getD_none, List.isEmpty_nil, if_true, Node.truthy, Bool.false_eq_true, if_false] at h ⊢
      have := ih _ _ _ hnew h
      simpa using this

end MdVerif.PipelineX
