/-
Helper lemmas for `Props/C02Fn.lean`, part 5 (toc without the hypothesis on the headings): TAG NAMES AND ATTRIBUTE NAMES
hold no STX, at every element of the tree that `TocTreeprocessor` serialises — through the block stage, the footnote
tree processor, the inline stage on any fuel, the duplicates pass and prettify (`NamesOk`, `qn`).  And a generic form of
`PrettifyTreeprocessor` keeping a class of strings (`prettify_P`).  Core Lean only.
-/
import MdVerif.Lemmas.C02FnAll
import MdVerif.Lemmas.C02FnDup2

namespace MdVerif.C02Names
open Py Pipeline PipelineX NoCtl C02BigX C02Fn
open BlockExt (NI NI_iff)
open InlineXNodes FnDocNI

/-- tag (a literal name without STX/ETX, or no name at all) and attribute names without STX -/
def NamesOk (n : Node) : Prop := tagNoCtl n.tag ∧ ∀ kv ∈ n.attrs, TreeProc.STX ∉ kv.1

/-- … and no `class` value holds an STX (the classes are literals of the block parser and of the patterns) -/
def NamesC (n : Node) : Prop := NamesOk n ∧ ∀ kv ∈ n.attrs, kv.1 = "class".toList → TreeProc.STX ∉ kv.2

theorem NamesC.names {n : Node} (h : NamesC n) : NamesOk n := h.1

def tagOkB : Tag → Bool
  | .name s => !s.contains TreeProc.STX && !s.contains TreeProc.ETX
  | .qname s => !s.contains TreeProc.STX && !s.contains TreeProc.ETX
  | _ => true

/-- `NamesOk` as a node test -/
def qn (tag : Tag) (attrs : List (Str × Str)) : Bool :=
  tagOkB tag && attrs.all (fun kv => !kv.1.contains TreeProc.STX) &&
    attrs.all (fun kv => !(kv.1 == "class".toList) || !kv.2.contains TreeProc.STX)

theorem tagOkB_iff (tag : Tag) : tagOkB tag = true ↔ tagNoCtl tag := by
  cases tag <;> simp [tagOkB, tagNoCtl, NoCtl.NoCtl, NoCtl.STX, NoCtl.ETX, TreeProc.STX, TreeProc.ETX] <;> exact Iff.rfl

theorem qn_iff (n : Node) : qn n.tag n.attrs = true ↔ NamesC n := by
  constructor
  · intro h
    simp only [qn, Bool.and_eq_true, List.all_eq_true] at h
    obtain ⟨⟨h1, h2⟩, h3⟩ := h
    refine ⟨⟨(tagOkB_iff _).1 h1, fun kv hkv => by simpa using h2 kv hkv⟩, fun kv hkv hk => ?_⟩
    have := h3 kv hkv
    simpa [hk] using this
  · rintro ⟨⟨h1, h2⟩, h3⟩
    simp only [qn, Bool.and_eq_true, List.all_eq_true]
    refine ⟨⟨(tagOkB_iff _).2 h1, fun kv hkv => by simpa using h2 kv hkv⟩, fun kv hkv => ?_⟩
    by_cases hk : kv.1 = "class".toList
    · simpa [hk] using h3 kv hkv hk
    · simp only [Bool.or_eq_true, Bool.not_eq_true', beq_eq_false_iff_ne, ne_eq]
      exact Or.inl hk

mutual
theorem NI_of_forall : (n : Node) → n.Forall NamesC → NI qn n
  | ⟨tag, attrs, text, ta, children, tail, tla⟩, h => by
    simp only [Node.Forall] at h
    rw [NI_iff]
    exact ⟨(qn_iff _).2 h.1, NI_of_forallL children h.2⟩
theorem NI_of_forallL : (l : List Node) → Node.ForallL NamesC l → ∀ c ∈ l, NI qn c
  | [], _ => by intro c hc; cases hc
  | a :: r, h => by
    simp only [Node.ForallL] at h
    intro c hc
    rcases List.mem_cons.1 hc with e | hc
    · rw [e]; exact NI_of_forall a h.1
    · exact NI_of_forallL r h.2 c hc
end

mutual
theorem forall_of_NI : (n : Node) → NI qn n → n.Forall NamesC
  | ⟨tag, attrs, text, ta, children, tail, tla⟩, h => by
    rw [NI_iff] at h
    simp only [Node.Forall]
    exact ⟨(qn_iff _).1 h.1, forallL_of_NI children h.2⟩
theorem forallL_of_NI : (l : List Node) → (∀ c ∈ l, NI qn c) → Node.ForallL NamesC l
  | [], _ => by simp [Node.ForallL]
  | a :: r, h => by
    simp only [Node.ForallL]
    exact ⟨forall_of_NI a (h a List.mem_cons_self), forallL_of_NI r (fun c hc => h c (List.mem_cons_of_mem _ hc))⟩
end

theorem namesOk_of_nodeNoCtl {n : Node} (h : NodeNoCtl n) : NamesC n :=
  ⟨⟨h.1, fun kv hkv => (h.2.1 kv hkv).1.1⟩, fun kv hkv _ => (h.2.1 kv hkv).2.1⟩

theorem namesOk_of_xinv {n : Node} (h : BlkX.XInv Blk.okc Blk.okc NoCtlXF.XT.Ts n) : NamesC n :=
  ⟨⟨h.1.tag, fun kv hkv => (allC_okc (h.1.attrs kv hkv).1).1⟩, fun kv hkv _ => (allC_okc (h.1.attrs kv hkv).2).1⟩

/-! ### the inline patterns -/

theorem qn_core (t : Str) (attrs : List (Str × Str)) (ht : Vocab2.hasTag Vocab2.inlineTags t = true)
    (ha : Vocab2.attrsOk attrs = true) : qn (.name t) attrs = true := by
  simp only [Vocab2.hasTag, Vocab2.inlineTags, List.any_cons, List.any_nil, Bool.or_false, Bool.or_eq_true,
    decide_eq_true_eq] at ht
  simp only [Vocab2.attrsOk, Bool.and_eq_true, List.all_eq_true] at ha
  have hkey : ∀ kv ∈ attrs, kv.1 = "href".toList ∨ kv.1 = "title".toList ∨ kv.1 = "src".toList ∨ kv.1 = "alt".toList := by
    intro kv hkv
    have := ha.1 kv hkv
    simp only [Vocab2.attrOk, Vocab2.attrNames, List.any_cons, List.any_nil, Bool.or_false, Bool.or_eq_true,
      decide_eq_true_eq] at this
    rcases this with h | h | h | h
    · exact Or.inl h.symm
    · exact Or.inr (Or.inl h.symm)
    · exact Or.inr (Or.inr (Or.inl h.symm))
    · exact Or.inr (Or.inr (Or.inr h.symm))
  have htag : tagNoCtl (.name t) := by
    apply (tagOkB_iff _).1
    rcases ht with h | h | h | h | h | h <;> subst h <;> decide
  have hn : NamesC ⟨.name t, attrs, none, false, [], none, false⟩ := by
    refine ⟨⟨htag, ?_⟩, ?_⟩
    · intro kv hkv
      rcases hkey kv hkv with h | h | h | h <;> rw [h] <;> decide
    · intro kv hkv hk
      exfalso
      rcases hkey kv hkv with h | h | h | h <;> rw [h] at hk <;> revert hk <;> decide
  exact (qn_iff ⟨.name t, attrs, none, false, [], none, false⟩).2 hn

theorem patOk_qn (xc : InlineX.XCfg) : PatOk qn xc :=
  patOk_table xc qn_core
    (fun id _ refId => by rw [fnRefNode_eq]; rfl)
    (fun g n h => by
      unfold InlineX.wikiNode at h
      simp only [] at h
      split at h
      · cases h
      · simp only [Inline.PNode.el.injEq] at h; subst h; rfl)
    rfl

/-! ### the footnote tree processors -/

theorem names_kids (n : Node) (kids : List Node) (h : NamesC n) : NamesC { n with children := kids } := h
theorem names_untail (n : Node) (h : NamesC n) : NamesC { n with tail := none, tailAtomic := false } := h
theorem names_el (tag : String) (h : tagOkB (.name tag.toList) = true) : NamesC (FootnotesTree.el tag) :=
  ⟨⟨(tagOkB_iff _).1 h, fun _ hkv => by cases hkv⟩, fun _ hkv => by cases hkv⟩

theorem backlink_names (id : Str) (index : Nat) : (FootnotesTree.backlink id index).Forall NamesC :=
  forall_of_NI _ (by rfl)

theorem makeLis_names (x : Exts) (cfg : Cfg) :
    ∀ (l : List (Str × Str)) (index : Nat) (log : Block.Refs) {lis : List Node} {log' : Block.Refs},
      (∀ kv ∈ l, Blk.AllC Blk.okc kv.2) → LogOk log →
      FootnotesTree.makeLis (parseChunkX x cfg) fnCount l index log = .ok (lis, log') →
      (∀ li ∈ lis, li.Forall NamesC) ∧ LogOk log'
  | [], _, log, lis, log', _, hlog, h => by
    simp only [FootnotesTree.makeLis, FootnotesTree.R.ok.injEq, Prod.mk.injEq] at h
    obtain ⟨rfl, rfl⟩ := h
    exact ⟨(by intro li hli; cases hli), hlog⟩
  | (id, text) :: rest, index, log, lis, log', hl, hlog, h => by
    have hkv := hl (id, text) List.mem_cons_self
    unfold FootnotesTree.makeLis at h
    split at h
    · cases h
    · next sur log1 hparse =>
      split at h
      · cases h
      · dsimp only at h
        split at h
        · cases h
        · next li' hadd =>
          split at h
          · next lis2 log2 hrest =>
            simp only [FootnotesTree.R.ok.injEq, Prod.mk.injEq] at h
            obtain ⟨rfl, rfl⟩ := h
            obtain ⟨hsur, hlog1⟩ := BlkX.parseChunkXT_strs strDomX_okc x.tables x.blockCfg cfg.tab _ log hlog
              text hkv hparse
            obtain ⟨ih1, ih2⟩ := makeLis_names x cfg rest (index + 1) log1
              (fun kv hkv => hl kv (List.mem_cons_of_mem _ hkv)) hlog1 hrest
            refine ⟨?_, ih2⟩
            intro li hli
            rcases List.mem_cons.1 hli with rfl | hli
            · refine NoCtlX.addBacklink_forall (Q := NamesC) ?_ (backlink_names id index) names_kids
                (names_el "p" (by decide)) ?_ hadd
              · rw [Node.forall_iff]
                refine ⟨⟨⟨(tagOkB_iff (.name "li".toList)).1 (by decide), ?_⟩, ?_⟩, ?_⟩
                · intro kv hkv'
                  simp only [List.mem_singleton] at hkv'
                  subst hkv'
                  show TreeProc.STX ∉ "id".toList
                  decide
                · intro kv hkv' hk
                  simp only [List.mem_singleton] at hkv'
                  subst hkv'
                  exact absurd (show "id".toList = "class".toList from hk) (by decide)
                · intro c hc
                  have hsur' := (Node.forall_iff _ _).1 hsur
                  exact Node.Forall.mono (fun _ hn => namesOk_of_nodeNoCtl (nodeNoCtl_of_bnodeXP hn)) c (hsur'.2 c hc)
              · intro node t hn _ _
                exact hn
            · exact ih1 li hli
          · cases h
          · cases h

theorem fnStageX_names {x : Exts} {cfg : Cfg} {root0 root : Node} {log0 log : Block.Refs}
    (hr0 : root0.Forall NamesC) (hl0 : LogOk log0) (h : fnStageX x cfg root0 log0 = .ok (root, log)) :
    root.Forall NamesC := by
  unfold fnStageX at h
  split at h
  · cases hm : FootnotesTree.makeDiv (parseChunkX x cfg) fnCount (BlockExt.footnotesOf log0) log0 with
    | oof => rw [hm] at h; cases h
    | ood => rw [hm] at h; cases h
    | ok r =>
      obtain ⟨div, log1⟩ := r
      rw [hm] at h
      cases div with
      | none =>
        simp only [FootnotesTree.R.ok.injEq, Prod.mk.injEq] at h
        obtain ⟨rfl, _⟩ := h
        exact hr0
      | some d =>
        simp only [FootnotesTree.R.ok.injEq, Prod.mk.injEq] at h
        obtain ⟨rfl, _⟩ := h
        refine placeDiv_forall names_untail names_kids hr0 ?_
        unfold FootnotesTree.makeDiv at hm
        split at hm
        · cases hm
        · split at hm
          · next lis log2 hl =>
            simp only [FootnotesTree.R.ok.injEq, Prod.mk.injEq, Option.some.injEq] at hm
            obtain ⟨rfl, _⟩ := hm
            have hfn : ∀ kv ∈ BlockExt.footnotesOf log0, Blk.AllC Blk.okc kv.2 :=
              fun kv hkv => (BlkX.footnotesOf_c hl0 kv hkv).2
            obtain ⟨h1, _⟩ := makeLis_names x cfg _ 1 log0 hfn hl0 hl
            rw [Node.forall_iff]
            refine ⟨⟨⟨(tagOkB_iff (.name "div".toList)).1 (by decide), ?_⟩, ?_⟩, ?_⟩
            · intro kv hkv
              simp only [List.mem_singleton] at hkv
              subst hkv
              show TreeProc.STX ∉ "class".toList
              decide
            · intro kv hkv _
              simp only [List.mem_singleton] at hkv
              subst hkv
              show TreeProc.STX ∉ "footnote".toList
              decide
            · intro c hc
              simp only [List.mem_cons, List.not_mem_nil, or_false] at hc
              rcases hc with rfl | rfl
              · rw [Node.forall_iff]
                exact ⟨names_el "hr" (by decide), by intro c hc; cases hc⟩
              · rw [Node.forall_iff]
                exact ⟨names_el "ol" (by decide), h1⟩
          · cases hm
          · cases hm
  · simp only [FootnotesTree.R.ok.injEq, Prod.mk.injEq] at h
    obtain ⟨rfl, _⟩ := h
    exact hr0

/-- **the tree handed to the inline stage: tag and attribute names hold no STX** -/
theorem blockStageX_names {x : Exts} {cfg : Cfg} {src : Str} (htab : x.fencedCode = true → 0 < cfg.tab)
    {root : Node} {log : Block.Refs} {stash : List Str} (h : blockStageX x cfg src = .ok (root, log, stash)) :
    root.Forall NamesC := by
  simp only [blockStageX] at h
  split at h
  · cases h
  · cases h
  · next text stash' hp =>
    split at h
    · cases h
    · next root0 log0 hpd =>
      have h0 : root0.Forall NamesC ∧ LogOk log0 := by
        cases hf : x.fencedCode with
        | true =>
          obtain ⟨hown, _, _⟩ := prepareX_fenced hf hp
          letI : NoCtlF.HtmlBound := ⟨stash'.length, false, false⟩
          obtain ⟨hroot0, hlog0⟩ := NoCtlXF.XT.block_stage_own_s x.tables x.blockCfg (htab hf) hown hpd
          exact ⟨Node.Forall.mono (fun _ hn => namesOk_of_xinv hn) root0 hroot0, hlog0⟩
        | false =>
          obtain ⟨e1, _⟩ := prepareX_nofence hf hp
          subst e1
          have hok : Blk.AllC Blk.okc (Pipeline.prepare cfg src) := fun c hc => by
            have := noCtl_iff.1 (prepare_noctl cfg src) c hc
            simp [Blk.okc, this.1, this.2]
          obtain ⟨h1, h2⟩ := BlkX.parseDocumentXT_strs strDomX_okc x.tables x.blockCfg cfg.tab _ hok hpd
          exact ⟨Node.Forall.mono (fun _ hn => namesOk_of_nodeNoCtl (nodeNoCtl_of_bnodeXP hn)) _ h1, h2⟩
      split at h
      · cases h
      · cases h
      · next root1 log1 hfn =>
        simp only [FootnotesTree.R.ok.injEq, Prod.mk.injEq] at h
        obtain ⟨rfl, _, _⟩ := h
        exact fnStageX_names h0.1 h0.2 hfn

/-- `qn` does not look at the value of `href` -/
theorem backrefFree_qn : BackrefFree qn := by
  intro l h hl _
  have htag : (l.setAttr "href".toList h).tag = l.tag := by unfold Node.setAttr; split <;> rfl
  have hkids : (l.setAttr "href".toList h).children = l.children := by unfold Node.setAttr; split <;> rfl
  rw [NI_iff] at hl ⊢
  rw [hkids]
  refine ⟨?_, hl.2⟩
  have h1 := (qn_iff l).1 hl.1
  apply (qn_iff _).2
  have hmem : ∀ kv ∈ (l.setAttr "href".toList h).attrs, kv ∈ l.attrs ∨ kv.1 = "href".toList := by
    intro kv hkv
    unfold Node.setAttr at hkv
    split at hkv
    · simp only [List.mem_map] at hkv
      obtain ⟨kv0, hkv0, e⟩ := hkv
      split at e
      · right; rw [← e]
      · left; rw [← e]; exact hkv0
    · simp only [List.mem_append, List.mem_singleton] at hkv
      rcases hkv with hkv | rfl
      · exact Or.inl hkv
      · exact Or.inr rfl
  refine ⟨⟨by rw [htag]; exact h1.1.1, ?_⟩, ?_⟩
  · intro kv hkv
    rcases hmem kv hkv with hm | hm
    · exact h1.1.2 kv hm
    · rw [hm]; decide
  · intro kv hkv hk
    rcases hmem kv hkv with hm | hm
    · exact h1.2 kv hm hk
    · rw [hm] at hk; exact absurd hk (by decide)

/-- **through the inline stage (any fuel) and the duplicates pass** -/
theorem names_dup {x : Exts} {xc : InlineX.XCfg} {root t t1 : Node} {html : List Str} {xs : InlineX.XSt}
    (h0 : root.Forall NamesC) (hr : runXBig xc root html = some (t, xs)) (hd : dupStage x t xs.fn = some t1) :
    t1.Forall NamesC := by
  unfold runXBig at hr
  have h1 : NI qn t :=
    (runLoopX_NI (patOk_qn xc) _ _ _ _ _ _ _ hr (NI_of_forall _ h0) (by intro n hn; cases hn)).1
  have h2 : NI qn t1 := by
    unfold dupStage at hd
    split at hd
    · exact duplicates_NI backrefFree_qn _ _ _ hd h1
    · simp only [Option.some.injEq] at hd; subst hd; exact h1
  exact forall_of_NI _ h2

/-! ### prettify keeps a class of strings -/

/-- what `PrettifyTreeprocessor` does to a text or a tail -/
structure PrClass (P : Str → Prop) : Prop where
  nl : P ['\n']
  nil : P []
  cons_nl : ∀ s, P s → P ('\n' :: s)
  rstrip_nl : ∀ s, P s → P (rstrip s ++ ['\n'])

def NodeP (P A : Str → Prop) (n : Node) : Prop :=
  P (n.text.getD []) ∧ P (n.tail.getD []) ∧ ∀ kv ∈ n.attrs, A kv.2

section
variable {P A : Str → Prop}

private theorem ite_pred' {α : Type} (Q : α → Prop) {c : Prop} [Decidable c] {a b : α} (ha : Q a) (hb : Q b) :
    Q (if c then a else b) := by
  split
  · exact ha
  · exact hb

mutual
theorem prettifyETree_P (hc : PrClass P) (bl : List Str) :
    ∀ t : Node, t.Forall (NodeP P A) → (TreeProc.prettifyETree bl t).Forall (NodeP P A)
  | ⟨tag, attrs, text, ta, children, tail, tla⟩, h => by
    simp only [Node.Forall] at h
    obtain ⟨⟨h1, h2, h3⟩, hk⟩ := h
    simp only at h1 h2 h3
    unfold TreeProc.prettifyETree
    simp only [Node.Forall]
    refine ⟨⟨?_, ?_, h3⟩, ?_⟩
    · exact ite_pred' (fun t : Option Str => P (t.getD [])) hc.nl h1
    · exact ite_pred' (fun t : Option Str => P (t.getD [])) hc.nl h2
    · split
      · exact prettifyKids_P hc bl children hk
      · exact hk
theorem prettifyKids_P (hc : PrClass P) (bl : List Str) : ∀ l : List Node, Node.ForallL (NodeP P A) l →
    Node.ForallL (NodeP P A) (TreeProc.prettifyKids bl l)
  | [], _ => by simp [TreeProc.prettifyKids, Node.ForallL]
  | c :: r, h => by
    simp only [Node.ForallL] at h
    unfold TreeProc.prettifyKids
    simp only [Node.ForallL]
    refine ⟨?_, prettifyKids_P hc bl r h.2⟩
    split
    · exact prettifyETree_P hc bl c h.1
    · exact h.1
end

theorem brRule_P (hc : PrClass P) {n : Node} (h : n.Forall (NodeP P A)) : (TreeProc.brRule n).Forall (NodeP P A) := by
  obtain ⟨tag, attrs, text, ta, children, tail, tla⟩ := n
  simp only [Node.Forall] at h
  unfold TreeProc.brRule
  split
  · split
    · simp only [Node.Forall]; exact ⟨⟨h.1.1, hc.nl, h.1.2.2⟩, h.2⟩
    · simp only [Node.Forall]; exact ⟨⟨h.1.1, hc.cons_nl _ h.1.2.1, h.1.2.2⟩, h.2⟩
  · simp only [Node.Forall]; exact h

theorem preRule_P (hc : PrClass P) {n : Node} (h : n.Forall (NodeP P A)) : (TreeProc.preRule n).Forall (NodeP P A) := by
  unfold TreeProc.preRule
  split
  · split
    · next code rest hch =>
      split
      · split
        · next t ht =>
          rw [Node.forall_iff] at h ⊢
          refine ⟨h.1, ?_⟩
          intro c hcm
          simp only [List.mem_cons] at hcm
          rcases hcm with rfl | hcm
          · have hcd := h.2 code (by rw [hch]; exact List.mem_cons_self)
            rw [Node.forall_iff] at hcd ⊢
            refine ⟨⟨?_, hcd.1.2.1, hcd.1.2.2⟩, hcd.2⟩
            have := hcd.1.1
            rw [ht] at this
            exact hc.rstrip_nl _ this
          · exact h.2 c (by rw [hch]; exact List.mem_cons_of_mem _ hcm)
        · exact h
      · exact h
    · exact h
  · exact h

theorem nodeP_children_irrel (n : Node) (l : List Node) (h : NodeP P A n) : NodeP P A { n with children := l } := h

/-- **`PrettifyTreeprocessor.run` keeps a class of strings that contains `"\n"` and is closed under `'\n' :: ·` and
    `rstrip · ++ "\n"`** (attribute values are not touched) -/
theorem prettify_P (hc : PrClass P) {t : Node} (h : t.Forall (NodeP P A)) (bl : List Str) :
    (TreeProc.prettify t bl).Forall (NodeP P A) := by
  unfold TreeProc.prettify
  exact TokG.mapTree_P nodeP_children_irrel (fun _ => preRule_P hc) _
    (TokG.mapTree_P nodeP_children_irrel (fun _ => brRule_P hc) _ (prettifyETree_P hc bl t h))
end

end MdVerif.C02Names
