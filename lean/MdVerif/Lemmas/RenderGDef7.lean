/-
Helper lemmas for `Props/C16RenderG.lean`, part 35: a definition list followed by ordinary paragraphs — `convertX` end
to end.

Core Lean only.
-/
import MdVerif.Lemmas.RenderGDef6

namespace MdVerif.RenderG
open Py Block BlockExt MdVerif.RenderX

/-- the blocks of the document as lists of lines -/
def defQBlockLines (tab : Nat) (gs : List DGroup) (qs : List Para) : List (List Str) :=
  gs.flatMap (groupBlockLines tab) ++ qs.map pLines

theorem defQ_blocks_lines (tab : Nat) (gs : List DGroup) (qs : List Para) :
    gs.flatMap (groupBlocks tab) ++ qs.map pText = (defQBlockLines tab gs qs).map joinLines := by
  simp only [defQBlockLines, List.map_append, ← flatMap_blocks_lines, List.map_map]
  rfl

theorem convertX_defQ (x : PipelineX.Exts) (hdef : x.defList = true) (hnl : x.nl2br = false)
    (hf : x.fencedCode = false) (htb : x.tables = false) (hal : x.attrList = false) (htoc : x.toc = false)
    (cfg : Pipeline.Cfg) (hbl : cfg.blockLevel = TreeProc.defaultBlockLevel) (htab : 0 < cfg.tab)
    (g0 : DGroup) (gr : List DGroup) (qs : List Para) (h0 : GroupOK g0) (hr : ∀ g ∈ gr, GroupOK g)
    (hqs : ∀ p ∈ qs, ParaOK p) :
    PipelineX.convertX x cfg (defSrcQ cfg.tab g0 gr qs) = .ok (defOutQ (allItems (g0 :: gr)) (qs.map pText)) := by
  have hall : ∀ g ∈ g0 :: gr, GroupOK g := by
    intro g hg
    rcases List.mem_cons.1 hg with rfl | hg
    · exact h0
    · exact hr g hg
  -- the front
  have hblocks : ∀ bl ∈ defQBlockLines cfg.tab (g0 :: gr) qs, bl ≠ [] := by
    intro bl hbl'
    rcases List.mem_append.1 hbl' with hbl' | hbl'
    · obtain ⟨g, _, hb⟩ := List.mem_flatMap.1 hbl'
      simp only [groupBlockLines, List.mem_cons, List.mem_map] at hb
      rcases hb with rfl | ⟨p, _, rfl⟩ <;> simp [CodeLaw.indentLines, pLines]
    · obtain ⟨p, _, rfl⟩ := List.mem_map.1 hbl'
      simp [pLines]
  have hne : defQBlockLines cfg.tab (g0 :: gr) qs ≠ [] := by simp [defQBlockLines, groupBlockLines]
  obtain ⟨b0, br, hbb⟩ : ∃ b0 br, defQBlockLines cfg.tab (g0 :: gr) qs = b0 :: br := by
    cases h : defQBlockLines cfg.tab (g0 :: gr) qs with
    | nil => exact absurd h hne
    | cons a b => exact ⟨a, b, rfl⟩
  have hsrc : defSrcQ cfg.tab g0 gr qs = joinLines (chunkLines (defQBlockLines cfg.tab (g0 :: gr) qs)) := by
    rw [← joinChunks_joinLines _ hblocks, ← defQ_blocks_lines]; rfl
  obtain ⟨s1, s2, s3, s4, s5⟩ := front_lines cfg.tab (chunkLines (defQBlockLines cfg.tab (g0 :: gr) qs))
    (by rw [hbb]; exact chunkLines_ne _ _ (hblocks b0 (by rw [hbb]; simp)))
    (by
      intro l hl
      rcases mem_chunkLines _ l hl with rfl | ⟨bl, hbl', hlb⟩
      · exact safeLine_nil
      · rcases List.mem_append.1 hbl' with hbl' | hbl'
        · obtain ⟨g, hg, hb⟩ := List.mem_flatMap.1 hbl'
          have hgo := hall g hg
          simp only [groupBlockLines, List.mem_cons, List.mem_map] at hb
          rcases hb with rfl | ⟨p, hp, rfl⟩
          · rcases List.mem_append.1 hlb with h | h
            · exact (hgo.terms l h).safeLine
            · obtain ⟨y, hy, rfl⟩ := List.mem_map.1 h
              exact safeLine_defLine y (hgo.defs y hy)
          · obtain ⟨y, hy, rfl⟩ := List.mem_map.1 hlb
            exact safeLine_indent cfg.tab y (hgo.conts p hp y hy)
        · obtain ⟨p, hp, rfl⟩ := List.mem_map.1 hbl'
          exact (hqs p hp l hlb).safeLine)
    (by
      have ht0 := h0.terms g0.t0 List.mem_cons_self
      obtain ⟨a, b, hab⟩ : ∃ a b, g0.t0 = a :: b := by
        cases h : g0.t0 with
        | nil => exact absurd h ht0.ne
        | cons a b => exact ⟨a, b, rfl⟩
      refine ⟨a, ?_, DocParse.alnum_visible a (ht0.chars a (by rw [hab]; simp)) (ht0.head a (by rw [hab]; rfl))⟩
      rw [← hsrc]
      have hin : ∀ (L : Str) (r : List Str), a ∈ L → a ∈ DocParse.joinChunks (L :: r) := by
        intro L r h
        cases r with
        | nil => simpa [DocParse.joinChunks] using h
        | cons y ys => simp [DocParse.joinChunks, h]
      show a ∈ DocParse.joinChunks ((g0 :: gr).flatMap (groupBlocks cfg.tab) ++ qs.map pText)
      simp only [List.flatMap_cons, groupBlocks, List.cons_append]
      apply hin
      rw [defSrc_eq]
      cases htr : g0.tr with
      | nil => simp [joinLines, join, hab]
      | cons y ys => rw [Block.joinLines_cons_cons]; simp [hab])
  rw [← hsrc] at s1 s2 s3 s4 s5
  -- the block stage
  have hblk := parseDocumentXT_defQ x.blockCfg (by simpa [PipelineX.Exts.blockCfg] using hdef) cfg.tab htab g0 gr qs
    h0 hr hqs
  rw [flatMap_kids_items] at hblk
  have hok : ∀ it ∈ allItems (g0 :: gr), it.ok := by
    intro it hit
    obtain ⟨g, hg, hig⟩ := List.mem_flatMap.1 hit
    exact groupItems_ok g (hall g hg) it hig
  obtain ⟨it0, ir, hitems⟩ : ∃ it0 ir, allItems (g0 :: gr) = it0 :: ir := by
    obtain ⟨r, hr'⟩ := groupItems_head g0
    exact ⟨DItem.txt "dt" g0.t0, r ++ gr.flatMap groupItems, by simp [allItems, hr']⟩
  -- the inline stage
  have hquiet : quietKids false (rootOf (dlOf ((allItems (g0 :: gr)).map DItem.node) :: pNodes qs)).children = true := by
    have hk := quietKids_items _ hok
    have hd : quietTree false (dlOf ((allItems (g0 :: gr)).map DItem.node)) = true := by
      simp [dlOf, Node.el, quietTree, Node.truthy, hk]
    have h2 := quietKids_ps qs hqs
    simp only [rootOf, quietKids, hd, Bool.true_and]
    exact h2
  have hrun := fun (ic : Inline.Cfg) (keys : List Str) =>
    runX_quiet { cfg := ic, table := InlineX.table x.footnotes x.wikilinks false, fnKeys := keys } false
      (fun hm => nl_mem_table _ _ false hm) (Nat.le_trans (by decide) (table_length _ _ false)) _ [] hquiet
  -- the tree stages
  have hpre := prettify_dlQ it0 ir (qs.map pText) (by rw [← hitems]; exact hok)
  rw [← hitems, show (qs.map pText).map (mkText "p") = pNodes qs by simp [pNodes]] at hpre
  have hqtexts : ∀ t ∈ qs.map pText, TreeProc.STX ∉ t ∧ Ser.escCdata t = t ∧ Post.STX ∉ t := by
    intro t htm
    obtain ⟨p, hp, rfl⟩ := List.mem_map.1 htm
    exact pText_facts p (hqs p hp)
  have hun := unescapeTree_dlQ _ (qs.map pText) hok (fun t h => (hqtexts t h).1)
  have hser := serialize_dlQ cfg.fmt _ (qs.map pText) hok (fun t h => (hqtexts t h).2.1)
  have hJ : Post.STX ∉ defOutQ (allItems (g0 :: gr)) (qs.map pText) := by
    unfold defOutQ defOutG
    exact stx_app (stx_app (stx_app (by decide +kernel) (stx_itemsHtml _ hok)) (by decide +kernel))
      (stx_psHtmlAfter _ (fun t h => (hqtexts t h).2.2))
  obtain ⟨e1, e2⟩ := defOutQ_ends (allItems (g0 :: gr)) (qs.map pText)
  have hfin := finishX_wrapped' x cfg (defOutQ (allItems (g0 :: gr)) (qs.map pText)) hJ
    (fun c hc => by rw [e1] at hc; cases hc; decide)
    (fun c hc => by rw [e2] at hc; cases hc; decide)
  have hfo : BlockExt.footnotesOf [] = [] := rfl
  have hab : BlockExt.abbrsOf [] = [] := rfl
  have hmk : ∀ p fc, FootnotesTree.makeDiv p fc [] [] = .ok (none, []) := fun _ _ => rfl
  have habbr : ∀ t, AbbrTree.run [] t = t := fun _ => rfl
  have hdup := fun fn => duplicates_noFn fn _ (noFnDiv_dlDocQ (allItems (g0 :: gr)) qs)
  simp only [PipelineX.convertX, s1, s2, PipelineX.Exts.unsupported, Bool.false_eq_true, if_false,
    PipelineX.treeX, PipelineX.prepareX, s3, s4, s5, Bool.and_false, hf, htb, hblk, hfo, hmk, hnl, hal, htoc]
  cases hfn : x.footnotes <;> cases hab' : x.abbr <;>
    simp only [hfn, hab', Bool.false_eq_true, if_false, if_true, List.map_nil, PipelineX.refsX, Bool.or_self,
      Bool.or_true, Bool.or_false, Bool.true_or, BlockExt.refsOf, List.filter_nil, PipelineX.escX, htb, Bool.false_and] <;>
    (rw [hfn] at hrun; rw [hrun]; simp only [hdup, hbl, hpre, hab, habbr, hun, hser]; exact hfin)

end MdVerif.RenderG
