/-
C02 on the extension pipeline: `FootnotePostTreeprocessor` never raises, part 1.

The structural invariant `Inv` ("every `div` whose class is exactly `footnote` has the shape that
`makeFootnotesDiv` builds: falsy text, children `hr`, `ol`, the `hr` a leaf, the `ol` with `li` children that carry
an `id` with a `:`, every text and tail of these falsy, and no further `div.footnote` below") and its preservation by
the table-driven inline tree processor `InlineX.runLoopX` on any fuel.  Core Lean only.
-/
import MdVerif.Lemmas.FnDoc
import MdVerif.Lemmas.PipelineXInertFnDiv
import MdVerif.Lemmas.BlockExtFuelPipe

namespace MdVerif.C02FnDup
open MdVerif.Py MdVerif.Inline MdVerif.InlineX MdVerif.InlineXNodes
open MdVerif.BlockExt (NI NI_iff allNodes allKids)
open MdVerif.FootnotesTree

/-! ### the interface of a node and the shape of the footnote `div` -/

/-- tag, attributes, truthiness of text and tail -/
abbrev IF := Tag × List (Str × Str) × Bool × Bool

def iface (n : Node) : IF := (n.tag, n.attrs, Node.truthy n.text, Node.truthy n.tail)

/-- the interface of a node and of its children -/
def iface2 (n : Node) : IF × List IF := (iface n, n.children.map iface)

def attrD (k : String) (attrs : List (Str × Str)) : Str := ((attrs.find? (fun kv => kv.1 = k.toList)).map (·.2)).getD []

def hasColon (s : Str) : Bool := (Footnotes.splitFirst ':' s).isSome

def falsyI (i : IF) : Bool := !i.2.2.1 && !i.2.2.2

/-- an `li` with an `id` that has a `:`, text and tail falsy -/
def goodLiI (i : IF) : Bool := i.1 == .name "li".toList && hasColon (attrD "id" i.2.1) && falsyI i

/-- an `hr` without children, text and tail falsy -/
def goodHrI (j : IF × List IF) : Bool := j.1.1 == .name "hr".toList && falsyI j.1 && j.2.isEmpty

/-- an `ol` of good `li`s, text and tail falsy -/
def goodOlI (j : IF × List IF) : Bool := j.1.1 == .name "ol".toList && falsyI j.1 && j.2.all goodLiI

/-- the shape of the footnote `div` (given its text and children) -/
def goodDiv (text : Option Str) (children : List Node) : Bool :=
  !Node.truthy text &&
    match children with
    | [h, o] => goodHrI (iface2 h) && goodOlI (iface2 o)
    | _ => false

mutual
/-- every `div.footnote` of the tree has the shape `goodDiv` and no `div.footnote` below it -/
def inv : Node → Bool
  | ⟨tag, attrs, text, _, children, _, _⟩ =>
    (qtFn tag attrs || (goodDiv text children && allKids qtFn children)) && invKids children
def invKids : List Node → Bool
  | [] => true
  | c :: r => inv c && invKids r
end

theorem inv_eq (n : Node) :
    inv n = ((qtFn n.tag n.attrs || (goodDiv n.text n.children && allKids qtFn n.children)) && invKids n.children) := by
  cases n; simp [inv]

theorem invKids_iff (l : List Node) : invKids l = true ↔ ∀ c ∈ l, inv c = true := by
  induction l with
  | nil => simp [invKids]
  | cons c r ih => simp [invKids, ih]

theorem inv_iff (n : Node) : inv n = true ↔
    (qtFn n.tag n.attrs = true ∨ (goodDiv n.text n.children = true ∧ ∀ k ∈ n.children, NI qtFn k)) ∧
      ∀ k ∈ n.children, inv k = true := by
  rw [inv_eq, Bool.and_eq_true, Bool.or_eq_true, Bool.and_eq_true, invKids_iff, BlockExt.allKids_iff]
  rfl

theorem inv_congr {a b : Node} (h1 : a.tag = b.tag) (h2 : a.attrs = b.attrs) (h3 : a.text = b.text)
    (h4 : a.children = b.children) : inv a = inv b := by
  rw [inv_eq, inv_eq b, h1, h2, h3, h4]

mutual
theorem inv_of_allNodes : (n : Node) → allNodes qtFn n = true → inv n = true
  | ⟨tag, attrs, text, ta, children, tail, tla⟩, h => by
    simp only [allNodes, Bool.and_eq_true] at h
    simp only [inv, h.1, Bool.true_or, Bool.true_and]
    exact invKids_of_allKids children h.2
theorem invKids_of_allKids : (l : List Node) → allKids qtFn l = true → invKids l = true
  | [], _ => rfl
  | c :: r, h => by
    simp only [allKids, Bool.and_eq_true] at h
    simp only [invKids, inv_of_allNodes c h.1, invKids_of_allKids r h.2, Bool.and_self]
end

/-- a tree without `div.footnote` satisfies the invariant -/
theorem inv_of_NI {n : Node} (h : NI qtFn n) : inv n = true := inv_of_allNodes n h

/-! ### what the shape says about the children -/

def falsy (c : Node) : Prop := Node.truthy c.text = false ∧ Node.truthy c.tail = false

theorem falsy_of_falsyI {c : Node} (h : falsyI (iface c) = true) : falsy c := by
  simpa [falsyI, iface, falsy] using h

theorem goodLiI_falsy {i : IF} (h : goodLiI i = true) : falsyI i = true := by
  simp only [goodLiI, Bool.and_eq_true] at h; exact h.2

/-- all children of a good `hr` (there are none) / a good `ol` are falsy -/
theorem kids_falsy_of_good {c : Node} (h : goodHrI (iface2 c) = true ∨ goodOlI (iface2 c) = true) :
    ∀ k ∈ c.children, falsy k := by
  intro k hk
  rcases h with h | h
  · simp only [goodHrI, iface2, Bool.and_eq_true, List.isEmpty_iff, List.map_eq_nil_iff] at h
    rw [h.2] at hk; cases hk
  · simp only [goodOlI, iface2, Bool.and_eq_true, List.all_eq_true, List.mem_map] at h
    exact falsy_of_falsyI (goodLiI_falsy (h.2 (iface k) ⟨k, hk, rfl⟩))

/-- the children of a good footnote `div` are falsy -/
theorem goodDiv_kids_falsy {text : Option Str} {children : List Node} (h : goodDiv text children = true) :
    ∀ k ∈ children, falsy k := by
  simp only [goodDiv, Bool.and_eq_true] at h
  obtain ⟨_, h⟩ := h
  split at h
  · rename_i hh o
    simp only [Bool.and_eq_true] at h
    intro k hk
    simp only [List.mem_cons, List.not_mem_nil, or_false] at hk
    rcases hk with e | e
    · subst e
      have := h.1
      simp only [goodHrI, Bool.and_eq_true] at this
      exact falsy_of_falsyI this.1.2
    · subst e
      have := h.2
      simp only [goodOlI, Bool.and_eq_true] at this
      exact falsy_of_falsyI this.1.2
  · cases h

theorem goodDiv_text {text : Option Str} {children : List Node} (h : goodDiv text children = true) :
    Node.truthy text = false := by
  simp only [goodDiv, Bool.and_eq_true, Bool.not_eq_true'] at h
  exact h.1

/-! ### `__processPlaceholders` keeps tag, attributes and children of the parent -/

/-- tag, attributes, children -/
def K (n : Node) : Tag × List (Str × Str) × List Node := (n.tag, n.attrs, n.children)

theorem linkText_K (text : Str) (atomic isText : Bool) (result : List Node) (parent : Node) :
    K (linkText text atomic isText result parent).2 = K parent := by
  unfold linkText
  split
  · rfl
  · split
    · split <;> rfl
    · split
      · split <;> rfl
      · split <;> rfl

theorem ppLoop_K (stash : List StashItem) (nested : Node → Option Node) (data : Str) (atomic isText : Bool) :
    ∀ (g start : Nat) (result : List Node) (parent : Node) (res : List Node) (parent' : Node),
      ppLoop stash nested data atomic isText g start result parent = some (res, parent') →
      K parent' = K parent := by
  intro g
  induction g with
  | zero => intro start result parent res parent' h; simp [ppLoop] at h
  | succ g ih =>
    intro start result parent res parent' h
    simp only [ppLoop] at h
    have hpre : ∀ (c : Prop) [Decidable c] (t : Str),
        K (if c then linkText t false isText result parent else (result, parent)).2 = K parent := by
      intro c _ t
      split
      · exact linkText_K _ _ _ _ _
      · rfl
    split at h
    · rename_i off _
      split at h
      · have p1 := hpre (start + off > 0) (slice data start (start + off))
        split at h
        · split at h
          · cases h
          · exact (ih _ _ _ _ _ h).trans p1
        · rename_i s
          have q := ih _ _ _ _ _ h
          rw [q, linkText_K, p1]
      · have q := ih _ _ _ _ _ h
        rw [q, linkText_K]
    · simp only [Option.some.injEq, Prod.mk.injEq] at h
      obtain ⟨e1, e2⟩ := h; subst e1; subst e2
      exact linkText_K _ _ _ _ _

theorem ppTop_K (st : St) (data : Str) (atomic : Bool) (parent : Node) (isText : Bool) (res : List Node)
    (parent' : Node) (h : ppTop st data atomic parent isText = some (res, parent')) : K parent' = K parent := by
  unfold ppTop at h
  cases hf : st.stash.length + 2 with
  | zero => omega
  | succ f =>
    rw [hf] at h
    simp only [processPlaceholders] at h
    split at h
    · simp only [Option.some.injEq, Prod.mk.injEq] at h
      rw [← h.2]
    · exact ppLoop_K _ _ _ _ _ _ _ _ _ _ _ h

/-! ### one child -/

theorem patOk_qtFn (xc : XCfg) : PatOk qtFn xc := by
  intro k data si x f x' h
  have q := findX_tags PipelineX.nonDivOk_fn xc k data si x h
  refine ⟨q.1, ?_⟩
  intro ff n e hn
  have := q.2 ff e
  simp only [InlineX.FoundQ, hn] at this
  exact this

/-- a child whose text and tail are falsy is left alone -/
theorem visitChildX_falsy {xc : XCfg} {child : Node} {v : VisitX} {c : Node} {tr : List Node} {v' : VisitX}
    (h : visitChildX xc child v = some (c, tr, v')) (hf : falsy child) : c = child ∧ tr = [] ∧ v'.done = v.done := by
  unfold visitChildX at h
  simp only [hf.1, hf.2, Bool.false_and, Bool.false_eq_true, if_false, Option.some.injEq, Prod.mk.injEq,
    List.length_nil, List.range_zero, List.map_nil, List.reverse_nil, List.nil_append] at h
  obtain ⟨e1, e2, e3⟩ := h
  subst e1; subst e2; subst e3
  exact ⟨by cases child; rfl, rfl, rfl⟩

variable {qt : Tag → List (Str × Str) → Bool}

/-- what `visitChildX` does to a child: same tag and attributes; new children (from the stash) in front of the old
    ones, none when the text is falsy (the text is then unchanged); new siblings from the stash -/
theorem visitChildX_spec {xc : XCfg} (hpat : PatOk qt xc) (child : Node) (v : VisitX) (c : Node) (tr : List Node)
    (v' : VisitX) (h : visitChildX xc child v = some (c, tr, v')) (hs : StashNI qt v.x.st.stash) :
    (∃ lst, K c = (child.tag, child.attrs, lst ++ child.children) ∧ (∀ n ∈ lst, NI qt n) ∧
        (Node.truthy child.text = false → lst = [] ∧ c.text = child.text)) ∧
      (∀ n ∈ tr, NI qt n) ∧ StashNI qt v'.x.st.stash ∧ v'.done = v.done := by
  unfold visitChildX at h
  simp only [] at h
  split at h
  · cases h
  · rename_i c1 lst x1 hr1
    have k1 : K c1 = K child ∧ (∀ n ∈ lst, NI qt n) ∧ StashNI qt x1.st.stash ∧
        (Node.truthy child.text = false → lst = [] ∧ c1 = child) := by
      split at hr1
      · rename_i hcond
        split at hr1
        · cases hr1
        · rename_i data x1' hh
          split at hr1
          · cases hr1
          · rename_i lst' c1' hpp
            simp only [Option.some.injEq, Prod.mk.injEq] at hr1
            obtain ⟨e1, e2, e3⟩ := hr1; subst e1; subst e2; subst e3
            have hs1 := handleInlineTopX_NI hpat _ _ _ _ hh hs
            have q := ppTop_NI _ hs1 _ _ _ _ _ _ hpp
            refine ⟨(ppTop_K _ _ _ _ _ _ _ hpp).trans rfl, q.1, hs1, ?_⟩
            intro hf
            rw [hf] at hcond
            simp at hcond
      · simp only [Option.some.injEq, Prod.mk.injEq] at hr1
        obtain ⟨e1, e2, e3⟩ := hr1; subst e1; subst e2; subst e3
        exact ⟨rfl, by simp, hs, fun _ => ⟨rfl, rfl⟩⟩
    split at h
    · cases h
    · rename_i c2 tr' x2 hr2
      have k2 : K c2 = K c1 ∧ c2.text = c1.text ∧ (∀ n ∈ tr', NI qt n) ∧ StashNI qt x2.st.stash := by
        split at hr2
        · split at hr2
          · cases hr2
          · rename_i data x2' hh
            split at hr2
            · cases hr2
            · rename_i tr'' dumby hpp
              simp only [Option.some.injEq, Prod.mk.injEq] at hr2
              obtain ⟨e1, e2, e3⟩ := hr2; subst e1; subst e2; subst e3
              have hs2 : StashNI qt x2'.st.stash := by
                split at hh
                · simp only [Option.some.injEq, Prod.mk.injEq] at hh
                  rw [← hh.2]; exact k1.2.2.1
                · exact handleInlineTopX_NI hpat _ _ _ _ hh k1.2.2.1
              have q := ppTop_NI _ hs2 _ _ _ _ _ _ hpp
              refine ⟨?_, ?_, q.1, hs2⟩
              · split <;> rfl
              · split <;> rfl
        · simp only [Option.some.injEq, Prod.mk.injEq] at hr2
          obtain ⟨e1, e2, e3⟩ := hr2; subst e1; subst e2; subst e3
          exact ⟨rfl, rfl, by simp, k1.2.2.1⟩
      simp only [Option.some.injEq, Prod.mk.injEq] at h
      obtain ⟨e1, e2, e3⟩ := h; subst e1; subst e2; subst e3
      refine ⟨⟨lst, ?_, k1.2.1, ?_⟩, k2.2.2.1, k2.2.2.2, rfl⟩
      · have e := k2.1.trans k1.1
        simp only [K, Prod.mk.injEq] at e ⊢
        exact ⟨e.1, e.2.1, by rw [e.2.2]⟩
      · intro hf
        obtain ⟨e1, e2⟩ := k1.2.2.2 hf
        subst e2
        exact ⟨e1, k2.2.1⟩

/-- the invariant through `visitChildX` -/
theorem visitChildX_inv {xc : XCfg} (child : Node) (v : VisitX) (c : Node) (tr : List Node)
    (v' : VisitX) (h : visitChildX xc child v = some (c, tr, v')) (hc : inv child = true)
    (hs : StashNI qtFn v.x.st.stash) :
    inv c = true ∧ (∀ n ∈ tr, NI qtFn n) ∧ StashNI qtFn v'.x.st.stash ∧ v'.done = v.done := by
  obtain ⟨⟨lst, hK, hlst, hfal⟩, h2, h3, h4⟩ := visitChildX_spec (patOk_qtFn xc) child v c tr v' h hs
  refine ⟨?_, h2, h3, h4⟩
  simp only [K, Prod.mk.injEq] at hK
  obtain ⟨e1, e2, e3⟩ := hK
  have hci := (inv_iff child).1 hc
  cases hq : qtFn child.tag child.attrs with
  | true =>
    rw [inv_iff, e1, e2, e3]
    refine ⟨Or.inl hq, ?_⟩
    intro k hk
    rcases List.mem_append.1 hk with hk | hk
    · exact inv_of_NI (hlst k hk)
    · exact hci.2 k hk
  | false =>
    rcases hci.1 with h0 | h0
    · rw [hq] at h0; cases h0
    · obtain ⟨l0, ht⟩ := hfal (goodDiv_text h0.1)
      rw [l0, List.nil_append] at e3
      rw [inv_congr e1 e2 ht e3]; exact hc

/-! ### the loop over the children -/

theorem visitLoopX_falsy {xc : XCfg} :
    ∀ (g : Nat) (todo : List (Node × Option Nat)) (v v' : VisitX), visitLoopX xc g todo v = some v' →
      (∀ p ∈ todo, falsy p.1) → v'.done = (todo.map (·.1)).reverse ++ v.done := by
  intro g
  induction g with
  | zero => intro todo v v' h _; simp [visitLoopX] at h
  | succ g ih =>
    intro todo v v' h ht
    cases todo with
    | nil =>
      simp only [visitLoopX, Option.some.injEq] at h
      subst h; rfl
    | cons p todo =>
      obtain ⟨child, orig⟩ := p
      simp only [visitLoopX] at h
      split at h
      · cases h
      · rename_i c tr v1 hv
        obtain ⟨e1, e2, e3⟩ := visitChildX_falsy hv (ht (child, orig) List.mem_cons_self)
        subst e1; subst e2
        have q := ih _ _ _ h (by
          intro p hp
          simp only [List.map_nil, List.nil_append] at hp
          exact ht p (List.mem_cons_of_mem _ hp))
        rw [q, e3]
        simp

theorem visitLoopX_inv {xc : XCfg} :
    ∀ (g : Nat) (todo : List (Node × Option Nat)) (v v' : VisitX), visitLoopX xc g todo v = some v' →
      (∀ p ∈ todo, inv p.1 = true) → (∀ n ∈ v.done, inv n = true) → StashNI qtFn v.x.st.stash →
      (∀ n ∈ v'.done, inv n = true) ∧ StashNI qtFn v'.x.st.stash := by
  intro g
  induction g with
  | zero => intro todo v v' h _ _ _; simp [visitLoopX] at h
  | succ g ih =>
    intro todo v v' h ht hd hs
    cases todo with
    | nil =>
      simp only [visitLoopX, Option.some.injEq] at h
      subst h; exact ⟨hd, hs⟩
    | cons p todo =>
      obtain ⟨child, orig⟩ := p
      simp only [visitLoopX] at h
      split at h
      · cases h
      · rename_i c tr v1 hv
        have q := visitChildX_inv _ _ _ _ _ hv (ht (child, orig) List.mem_cons_self) hs
        refine ih _ _ _ h ?_ ?_ q.2.2.1
        · intro p hp
          rcases List.mem_append.1 hp with hp | hp
          · obtain ⟨n, hn, rfl⟩ := List.mem_map.1 hp
            exact inv_of_NI (q.2.1 n hn)
          · exact ht p (List.mem_cons_of_mem _ hp)
        · intro n hn
          rcases List.mem_cons.1 hn with e | hn
          · subst e; exact q.1
          · rw [q.2.2.2] at hn; exact hd n hn

/-! ### `getAt`, `setAt` -/

theorem getAt_inv : ∀ (p : Path) (n cur : Node), getAt n p = some cur → inv n = true → inv cur = true := by
  intro p
  induction p with
  | nil => intro n cur h hn; simp only [getAt, Option.some.injEq] at h; subst h; exact hn
  | cons i p ih =>
    intro n cur h hn
    simp only [getAt] at h
    split at h
    · rename_i c hc
      exact ih _ _ h (((inv_iff n).1 hn).2 c (List.mem_of_getElem? hc))
    · cases h

theorem iface_setAt : ∀ (p : Path) (k cur new : Node), getAt k p = some cur → iface new = iface cur →
    iface (setAt k p new) = iface k := by
  intro p
  cases p with
  | nil => intro k cur new h hn; simp only [getAt, Option.some.injEq] at h; subst h; exact hn
  | cons i p =>
    intro k cur new h _
    simp only [getAt] at h
    split at h
    · rename_i c hc
      simp only [setAt, hc]
      rfl
    · cases h

/-- `new` may replace `cur`: same interface, and the same children when all children of `cur` are falsy -/
def Sim (cur new : Node) : Prop :=
  iface new = iface cur ∧ ((∀ c ∈ cur.children, falsy c) → new.children = cur.children)

/-- same interface, and children with the same interfaces when all children are falsy -/
def Sim2 (c c' : Node) : Prop :=
  iface c' = iface c ∧ ((∀ k ∈ c.children, falsy k) → c'.children.map iface = c.children.map iface)

theorem map_set_same {α β : Type} (f : α → β) : ∀ (l : List α) (i : Nat) (k x : α), l[i]? = some k → f x = f k →
    (l.set i x).map f = l.map f := by
  intro l
  induction l with
  | nil => intro i k x h _; simp at h
  | cons a r ih =>
    intro i k x h hx
    cases i with
    | zero =>
      simp only [List.getElem?_cons_zero, Option.some.injEq] at h
      subst h
      simp [List.set, hx]
    | succ i =>
      simp only [List.getElem?_cons_succ] at h
      simp [List.set, ih i k x h hx]

theorem setAt_sim2 : ∀ (p : Path) (c cur new : Node), getAt c p = some cur → Sim cur new → Sim2 c (setAt c p new) := by
  intro p
  cases p with
  | nil =>
    intro c cur new h hs
    simp only [getAt, Option.some.injEq] at h; subst h
    exact ⟨hs.1, fun hf => by simp only [setAt]; rw [hs.2 hf]⟩
  | cons i q =>
    intro c cur new h hs
    simp only [getAt] at h
    split at h
    · rename_i k hk
      simp only [setAt, hk]
      refine ⟨rfl, fun _ => ?_⟩
      exact map_set_same iface _ _ k _ hk (iface_setAt q k cur new h hs.1)
    · cases h

theorem good_sim2 {c c' : Node} (hg : goodHrI (iface2 c) = true ∨ goodOlI (iface2 c) = true) (hs : Sim2 c c') :
    iface2 c' = iface2 c := by
  simp only [iface2, Prod.mk.injEq]
  exact ⟨hs.1, hs.2 (kids_falsy_of_good hg)⟩

theorem goodDiv_set {text : Option Str} {l : List Node} {i : Nat} {c c' : Node} (hg : goodDiv text l = true)
    (hc : l[i]? = some c) (hs : Sim2 c c') : goodDiv text (l.set i c') = true := by
  simp only [goodDiv, Bool.and_eq_true] at hg ⊢
  refine ⟨hg.1, ?_⟩
  have hg2 := hg.2
  rcases l with _ | ⟨h0, _ | ⟨o, _ | ⟨z, r⟩⟩⟩
  · simp at hg2
  · simp at hg2
  · simp only [Bool.and_eq_true] at hg2
    cases i with
    | zero =>
      simp only [List.getElem?_cons_zero, Option.some.injEq] at hc
      subst hc
      simp only [List.set, Bool.and_eq_true]
      rw [good_sim2 (Or.inl hg2.1) hs]
      exact hg2
    | succ i =>
      cases i with
      | zero =>
        simp only [List.getElem?_cons_succ, List.getElem?_cons_zero, Option.some.injEq] at hc
        subst hc
        simp only [List.set, Bool.and_eq_true]
        rw [good_sim2 (Or.inr hg2.2) hs]
        exact hg2
      | succ i => simp at hc
  · simp at hg2

theorem setAt_inv : ∀ (p : Path) (n cur new : Node), getAt n p = some cur → inv n = true → inv new = true →
    (NI qtFn cur → NI qtFn new) → Sim cur new → inv (setAt n p new) = true := by
  intro p
  induction p with
  | nil => intro n cur new _ _ hnew _ _; exact hnew
  | cons i q ih =>
    intro n cur new h hn hnew hni hs
    simp only [getAt] at h
    split at h
    · rename_i c hc
      have hni' := (inv_iff n).1 hn
      have hcm : c ∈ n.children := List.mem_of_getElem? hc
      have hc' : inv (setAt c q new) = true := ih c cur new h (hni'.2 c hcm) hnew hni hs
      simp only [setAt, hc]
      rw [inv_iff]
      simp only []
      refine ⟨?_, ?_⟩
      · rcases hni'.1 with h0 | h0
        · exact Or.inl h0
        · refine Or.inr ⟨goodDiv_set h0.1 hc (setAt_sim2 q c cur new h hs), ?_⟩
          intro k hk
          rcases List.mem_or_eq_of_mem_set hk with hk | e
          · exact h0.2 k hk
          · subst e
            have hcn := h0.2 c hcm
            exact setAt_NI q c new hcn (hni (getAt_NI q c cur h hcn))
      · intro k hk
        rcases List.mem_or_eq_of_mem_set hk with hk | e
        · exact hni'.2 k hk
        · subst e; exact hc'
    · cases h

/-! ### `run` -/

/-- **The inline stage keeps the invariant**, on any fuel. -/
theorem runLoopX_inv (xc : XCfg) (g2 : Nat) :
    ∀ (g : Nat) (root : Node) (stack : List Path) (x : XSt) (root' : Node) (x' : XSt),
      runLoopX xc g2 g root stack x = some (root', x') → inv root = true → StashNI qtFn x.st.stash →
      inv root' = true ∧ StashNI qtFn x'.st.stash := by
  intro g
  induction g with
  | zero => intro root stack x root' x' h _ _; simp [runLoopX] at h
  | succ g ih =>
    intro root stack x root' x' h hr hs
    cases stack with
    | nil =>
      simp only [runLoopX, Option.some.injEq, Prod.mk.injEq] at h
      rw [← h.1, ← h.2]; exact ⟨hr, hs⟩
    | cons p stack =>
      simp only [runLoopX] at h
      split at h
      · exact ih _ _ _ _ _ h hr hs
      · rename_i cur hcur
        split at h
        · cases h
        · rename_i v hv
          have hc := getAt_inv p root cur hcur hr
          have hci := (inv_iff cur).1 hc
          have q := visitLoopX_inv _ _ _ _ hv
            (fun p hp => hci.2 _ (withIdx_fst _ _ _ hp)) (by simp) hs
          have hfal : (∀ c ∈ cur.children, falsy c) → v.done.reverse = cur.children := by
            intro hf
            have e := visitLoopX_falsy _ _ _ _ hv (fun p hp => hf _ (withIdx_fst _ _ _ hp))
            rw [e, InlineXSkel.withIdx_map_fst]
            simp
          refine ih _ _ _ _ _ h (setAt_inv p root cur _ hcur hr ?_ ?_ ⟨rfl, hfal⟩) q.2
          · cases hq : qtFn cur.tag cur.attrs with
            | true =>
              rw [inv_iff]
              exact ⟨Or.inl hq, fun k hk => q.1 k (List.mem_reverse.1 hk)⟩
            | false =>
              rcases hci.1 with h0 | h0
              · rw [hq] at h0; cases h0
              · rw [inv_congr (a := { cur with children := v.done.reverse }) (b := cur) rfl rfl rfl
                  (hfal (goodDiv_kids_falsy h0.1))]
                exact hc
          · intro hcn
            have q2 := visitLoopX_NI (patOk_qtFn xc) _ _ _ _ hv
              (fun p hp => InlineXNodes.NI_kids hcn _ (withIdx_fst _ _ _ hp)) (by simp) hs
            exact NI_of (a := cur) hcn rfl rfl (fun m hm => q2.1 m (List.mem_reverse.1 hm))

end MdVerif.C02FnDup
