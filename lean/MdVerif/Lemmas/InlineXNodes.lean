/-
A node invariant through the table-driven inline tree processor `InlineX.runX` (`Model/InlineX.lean`), generic in
the per-node predicate `qt : Tag → attributes → Bool` (`BlockExt.NI qt n`: `qt` holds of the tag and attributes of
every node of `n`): if every element a pattern of the table creates satisfies it (`PatOk`), then `runX` keeps it —
in the tree and in the stash of inline elements.  The inline stage only creates elements through the patterns, moves
stashed elements into the tree and rewrites texts and tails.  Core Lean only.
-/
import MdVerif.Model.InlineX
import MdVerif.Lemmas.BlockExtTree

namespace MdVerif.InlineXNodes
open MdVerif.Py MdVerif.Inline MdVerif.InlineX
open MdVerif.BlockExt (NI NI_iff NI_fields NI_children)

variable {qt : Tag → List (Str × Str) → Bool}

/-- a node with the tag and attributes of a good node and good children is good -/
theorem NI_of {a b : Node} (ha : NI qt a) (htag : b.tag = a.tag) (hattrs : b.attrs = a.attrs)
    (hk : ∀ c ∈ b.children, NI qt c) : NI qt b := by
  rw [NI_iff] at ha ⊢
  rw [htag, hattrs]
  exact ⟨ha.1, hk⟩

theorem NI_kids {a : Node} (ha : NI qt a) : ∀ c ∈ a.children, NI qt c := ((NI_iff a).1 ha).2

/-- same tag, attributes and children: only text / tail fields differ -/
theorem NI_upd {a b : Node} (ha : NI qt a) (htag : b.tag = a.tag) (hattrs : b.attrs = a.attrs)
    (hk : b.children = a.children) : NI qt b :=
  NI_of ha htag hattrs (by rw [hk]; exact NI_kids ha)

/-- every element of the stash is good -/
def StashNI (qt : Tag → List (Str × Str) → Bool) (stash : List StashItem) : Prop :=
  ∀ n, StashItem.node n ∈ stash → NI qt n

theorem stashNI_append {stash : List StashItem} (h : StashNI qt stash) (it : StashItem)
    (hit : ∀ n, it = .node n → NI qt n) : StashNI qt (stash ++ [it]) := by
  intro n hn
  rcases List.mem_append.1 hn with hn | hn
  · exact h n hn
  · simp only [List.mem_singleton] at hn; exact hit n hn.symm

/-! ### placeholders -/

theorem linkText_NI (text : Str) (atomic isText : Bool) (result : List Node) (parent : Node)
    (hr : ∀ n ∈ result, NI qt n) :
    (∀ n ∈ (linkText text atomic isText result parent).1, NI qt n) ∧
      (NI qt parent → NI qt (linkText text atomic isText result parent).2) := by
  unfold linkText
  split
  · exact ⟨hr, fun hp => hp⟩
  · split
    · rename_i l r
      have hl : NI qt l := hr l List.mem_cons_self
      have hrest : ∀ n ∈ r, NI qt n := fun n hn => hr n (List.mem_cons_of_mem _ hn)
      split
      · refine ⟨?_, fun hp => hp⟩
        intro n hn
        rcases List.mem_cons.1 hn with e | hn
        · subst e; exact NI_upd (a := l) hl rfl rfl rfl
        · exact hrest n hn
      · refine ⟨?_, fun hp => hp⟩
        intro n hn
        rcases List.mem_cons.1 hn with e | hn
        · subst e; exact NI_upd (a := l) hl rfl rfl rfl
        · exact hrest n hn
    · split
      · split
        · exact ⟨by simp, fun hp => NI_upd (a := parent) hp rfl rfl rfl⟩
        · exact ⟨by simp, fun hp => NI_upd (a := parent) hp rfl rfl rfl⟩
      · split
        · exact ⟨by simp, fun hp => NI_upd (a := parent) hp rfl rfl rfl⟩
        · exact ⟨by simp, fun hp => NI_upd (a := parent) hp rfl rfl rfl⟩

theorem stashGet_mem (stash : List StashItem) (id : Str) (it : StashItem) (h : stashGet stash id = some it) :
    it ∈ stash := by
  unfold stashGet at h
  simp only [] at h
  split at h
  · exact List.mem_of_getElem? h
  · cases h

/-- what is done to an element taken out of the stash keeps it good -/
def NestedNI (qt : Tag → List (Str × Str) → Bool) (nested : Node → Option Node) : Prop :=
  ∀ n n', NI qt n → nested n = some n' → NI qt n'

theorem ppLoop_NI {stash : List StashItem} (hs : StashNI qt stash) {nested : Node → Option Node}
    (hn : NestedNI qt nested) (data : Str) (atomic isText : Bool) :
    ∀ (g start : Nat) (result : List Node) (parent : Node) (res : List Node) (parent' : Node),
      (∀ n ∈ result, NI qt n) →
      ppLoop stash nested data atomic isText g start result parent = some (res, parent') →
      (∀ n ∈ res, NI qt n) ∧ (NI qt parent → NI qt parent') := by
  intro g
  induction g with
  | zero => intro start result parent res parent' _ h; simp [ppLoop] at h
  | succ g ih =>
    intro start result parent res parent' hr h
    simp only [ppLoop] at h
    have hpre : ∀ (c : Prop) [Decidable c] (t : Str),
        (∀ n ∈ (if c then linkText t false isText result parent else (result, parent)).1, NI qt n) ∧
          (NI qt parent → NI qt (if c then linkText t false isText result parent else (result, parent)).2) := by
      intro c _ t
      split
      · exact linkText_NI _ _ _ _ _ hr
      · exact ⟨hr, fun hp => hp⟩
    split at h
    · rename_i off _
      split at h
      · rename_i item hitem
        have hmem : item ∈ stash := by
          cases hid : (findPh data (start + off)).fst with
          | none => rw [hid] at hitem; cases hitem
          | some id => rw [hid] at hitem; exact stashGet_mem _ _ _ hitem
        have p1 := hpre (start + off > 0) (slice data start (start + off))
        split at h
        · rename_i n
          split at h
          · cases h
          · rename_i n' hn'
            have hg : NI qt n' := hn n n' (hs n hmem) hn'
            have q := ih _ _ _ _ _ (fun m hm => by
              rcases List.mem_cons.1 hm with e | hm
              · subst e; exact hg
              · exact p1.1 m hm) h
            exact ⟨q.1, fun hp => q.2 (p1.2 hp)⟩
        · rename_i s
          have p2 := linkText_NI s false isText _
            (if start + off > 0 then linkText (slice data start (start + off)) false isText result parent
              else (result, parent)).snd p1.1
          have q := ih _ _ _ _ _ p2.1 h
          exact ⟨q.1, fun hp => q.2 (p2.2 (p1.2 hp))⟩
      · have p1 := linkText_NI (slice data start (start + off + phPrefixLen)) false isText result parent hr
        have q := ih _ _ _ _ _ p1.1 h
        exact ⟨q.1, fun hp => q.2 (p1.2 hp)⟩
    · simp only [Option.some.injEq, Prod.mk.injEq] at h
      obtain ⟨e1, e2⟩ := h; subst e1; subst e2
      have p1 := linkText_NI (List.drop start data) atomic isText result parent hr
      exact ⟨fun n hn => p1.1 n (List.mem_reverse.1 hn), p1.2⟩

/-- the recursive call of `processPlaceholders`: the new elements are good, the parent stays good -/
def PPNI (qt : Tag → List (Str × Str) → Bool) (pp : PP) : Prop :=
  ∀ d a parent isText res parent', pp d a parent isText = some (res, parent') →
    (∀ n ∈ res, NI qt n) ∧ (NI qt parent → NI qt parent')

theorem petTail_NI {pp : PP} (hpp : PPNI qt pp) (c c' : Node) (res : List Node)
    (h : petTail pp c = some (c', res)) (hc : NI qt c) : NI qt c' ∧ ∀ n ∈ res, NI qt n := by
  unfold petTail at h
  split at h
  · split at h
    · rename_i r c1 hh
      simp only [Option.some.injEq, Prod.mk.injEq] at h
      obtain ⟨e1, e2⟩ := h; subst e1; subst e2
      have q := hpp _ _ _ _ _ _ hh
      exact ⟨q.2 (NI_upd (a := c) hc rfl rfl rfl), q.1⟩
    · cases h
  · simp only [Option.some.injEq, Prod.mk.injEq] at h
    obtain ⟨e1, e2⟩ := h; subst e1; subst e2
    exact ⟨hc, by simp⟩

theorem petText_NI {pp : PP} (hpp : PPNI qt pp) (c c2 : Node) (h : petText pp c = some c2) (hc : NI qt c) :
    NI qt c2 := by
  unfold petText at h
  split at h
  · split at h
    · rename_i r c1 hh
      simp only [Option.some.injEq] at h; subst h
      have q := hpp _ _ _ _ _ _ hh
      have q2 := q.2 (NI_upd (a := c) hc rfl rfl rfl)
      refine NI_of (a := c1) q2 rfl rfl ?_
      intro x hx
      rcases List.mem_append.1 hx with hx | hx
      · exact q.1 x hx
      · exact NI_kids q2 x hx
    · cases h
  · simp only [Option.some.injEq] at h; subst h
    exact hc

theorem procKids_NI {pp : PP} (hpp : PPNI qt pp) :
    ∀ (l l' : List Node), procKids pp l = some l' → (∀ n ∈ l, NI qt n) → ∀ n ∈ l', NI qt n := by
  intro l
  induction l with
  | nil => intro l' h _; simp only [procKids, Option.some.injEq] at h; subst h; simp
  | cons c r ih =>
    intro l' h hg
    simp only [procKids] at h
    split at h
    · cases h
    · rename_i c1 res h1
      split at h
      · cases h
      · rename_i c2 h2
        split at h
        · cases h
        · rename_i r' h3
          simp only [Option.some.injEq] at h; subst h
          have q1 := petTail_NI hpp _ _ _ h1 (hg c List.mem_cons_self)
          have q2 := petText_NI hpp _ _ h2 q1.1
          have q3 := ih _ h3 (fun n hn => hg n (List.mem_cons_of_mem _ hn))
          intro n hn
          rcases List.mem_cons.1 hn with e | hn
          · subst e; exact q2
          · rcases List.mem_append.1 hn with hn | hn
            · exact q1.2 n hn
            · exact q3 n hn

theorem procNode_NI {pp : PP} (hpp : PPNI qt pp) : NestedNI qt (procNode pp) := by
  intro node n' hf h
  unfold procNode at h
  simp only [] at h
  split at h
  · cases h
  · rename_i n1 tailRes h1
    split at h
    · cases h
    · rename_i n2 h2
      split at h
      · cases h
      · rename_i kids h3
        simp only [Option.some.injEq] at h; subst h
        have hg0 : NI qt { node with children := [] } := NI_of (a := node) hf rfl rfl (by simp)
        have q1 := petTail_NI hpp _ _ _ h1 hg0
        have q2 := petText_NI hpp _ _ h2 q1.1
        have q3 := procKids_NI hpp _ _ h3 (NI_kids hf)
        refine NI_of (a := n2) q2 rfl rfl ?_
        intro x hx
        simp only [List.mem_append] at hx
        rcases hx with (hx | hx) | hx
        · exact NI_kids q2 x hx
        · exact q1.2 x hx
        · exact q3 x hx

theorem processPlaceholders_NI {stash : List StashItem} (hs : StashNI qt stash) :
    ∀ (f : Nat), PPNI qt (processPlaceholders stash f) := by
  intro f
  induction f with
  | zero => intro d a parent isText res parent' h; simp [processPlaceholders] at h
  | succ f ih =>
    intro d a parent isText res parent' h
    simp only [processPlaceholders] at h
    split at h
    · simp only [Option.some.injEq, Prod.mk.injEq] at h
      obtain ⟨e1, e2⟩ := h; subst e1; subst e2
      exact ⟨by simp, fun hp => hp⟩
    · exact ppLoop_NI hs (procNode_NI ih) d a isText _ _ _ _ _ _ (by simp) h

theorem ppTop_NI (st : St) (hs : StashNI qt st.stash) : PPNI qt (ppTop st) :=
  fun d a parent isText res parent' h => processPlaceholders_NI hs _ d a parent isText res parent' h

/-! ### `__applyPattern`, `__handleInline` over the table -/

/-- the patterns of the table create good elements only and leave the stash of inline elements alone -/
def PatOk (qt : Tag → List (Str × Str) → Bool) (xc : XCfg) : Prop :=
  ∀ k data si x f x', findX xc k data si x = some (f, x') →
    x'.st.stash = x.st.stash ∧ ∀ ff n, f = some ff → ff.node = .el n → NI qt n

def HINI (qt : Tag → List (Str × Str) → Bool) (hi : HIX) : Prop :=
  ∀ d p x d' x', hi d p x = some (d', x') → StashNI qt x.st.stash → StashNI qt x'.st.stash

theorem hiOptX_NI {hi : HIX} (hhi : HINI qt hi) (t : Option Str) (atomic : Bool) (pi : Nat) (x : XSt)
    (t' : Option Str) (x' : XSt) (h : hiOptX hi t atomic pi x = some (t', x')) (hs : StashNI qt x.st.stash) :
    StashNI qt x'.st.stash := by
  unfold hiOptX at h
  split at h
  · split at h
    · rename_i d x1 hh
      simp only [Option.some.injEq, Prod.mk.injEq] at h
      rw [← h.2]; exact hhi _ _ _ _ _ hh hs
    · cases h
  · simp only [Option.some.injEq, Prod.mk.injEq] at h
    rw [← h.2]; exact hs

theorem hiNodeX_NI {hi : HIX} (hhi : HINI qt hi) (pi : Nat) (n : Node) (x : XSt) (n' : Node) (x' : XSt)
    (h : hiNodeX hi pi n x = some (n', x')) (hs : StashNI qt x.st.stash) :
    StashNI qt x'.st.stash ∧ n'.tag = n.tag ∧ n'.attrs = n.attrs ∧ n'.children = n.children := by
  unfold hiNodeX at h
  split at h
  · cases h
  · rename_i t x1 h1
    split at h
    · cases h
    · rename_i tl x2 h2
      simp only [Option.some.injEq, Prod.mk.injEq] at h
      obtain ⟨e1, e2⟩ := h; subst e1; subst e2
      exact ⟨hiOptX_NI hhi _ _ _ _ _ _ h2 (hiOptX_NI hhi _ _ _ _ _ _ h1 hs), rfl, rfl, rfl⟩

theorem hiNodesX_NI {hi : HIX} (hhi : HINI qt hi) (pi : Nat) :
    ∀ (l : List Node) (x : XSt) (l' : List Node) (x' : XSt), hiNodesX hi pi l x = some (l', x') →
      StashNI qt x.st.stash → (∀ n ∈ l, NI qt n) → StashNI qt x'.st.stash ∧ ∀ n ∈ l', NI qt n := by
  intro l
  induction l with
  | nil =>
    intro x l' x' h hs _
    simp only [hiNodesX, Option.some.injEq, Prod.mk.injEq] at h
    rw [← h.1, ← h.2]; exact ⟨hs, by simp⟩
  | cons n r ih =>
    intro x l' x' h hs hl
    simp only [hiNodesX] at h
    split at h
    · cases h
    · rename_i n1 x1 h1
      split at h
      · cases h
      · rename_i r1 x2 h2
        simp only [Option.some.injEq, Prod.mk.injEq] at h
        obtain ⟨e1, e2⟩ := h; subst e1; subst e2
        have q1 := hiNodeX_NI hhi _ _ _ _ _ h1 hs
        have q2 := ih _ _ _ h2 q1.1 (fun m hm => hl m (List.mem_cons_of_mem _ hm))
        refine ⟨q2.1, ?_⟩
        intro m hm
        rcases List.mem_cons.1 hm with e | hm
        · subst e
          exact NI_upd (a := n) (hl n List.mem_cons_self) q1.2.1 q1.2.2.1 q1.2.2.2
        · exact q2.2 m hm

theorem stashX_NI (x : XSt) (it : StashItem) (hs : StashNI qt x.st.stash) (hit : ∀ n, it = .node n → NI qt n) :
    StashNI qt (stashX x it).2.st.stash := by
  simp only [stashX, stashNode]
  exact stashNI_append hs it hit

def APNI (qt : Tag → List (Str × Str) → Bool) (ap : Nat → Str → Nat → XSt → Option (Str × Bool × Nat × XSt)) : Prop :=
  ∀ pi d si x d' m si' x', ap pi d si x = some (d', m, si', x') → StashNI qt x.st.stash → StashNI qt x'.st.stash

theorem applyPatternX_NI {xc : XCfg} (hpat : PatOk qt xc) {hi : HIX} (hhi : HINI qt hi) :
    APNI qt (applyPatternX xc hi) := by
  intro pi d si x d' m si' x' h hs
  unfold applyPatternX at h
  split at h
  · simp only [Option.some.injEq, Prod.mk.injEq] at h
    rw [← h.2.2.2]; exact hs
  · rename_i k hk
    split at h
    · cases h
    · rename_i x1 hf
      simp only [Option.some.injEq, Prod.mk.injEq] at h
      rw [← h.2.2.2, (hpat _ _ _ _ _ _ hf).1]; exact hs
    · rename_i f x1 hf
      have hp := hpat _ _ _ _ _ _ hf
      have hs1 : StashNI qt x1.st.stash := by rw [hp.1]; exact hs
      split at h
      · simp only [Option.some.injEq, Prod.mk.injEq] at h
        rw [← h.2.2.2]; exact hs1
      · rename_i s hnode
        simp only [Option.some.injEq, Prod.mk.injEq] at h
        rw [← h.2.2.2]
        exact stashX_NI _ _ hs1 (by intro n e; cases e)
      · rename_i n hnode
        have hn : NI qt n := hp.2 f n rfl hnode
        split at h
        · simp only [Option.some.injEq, Prod.mk.injEq] at h
          rw [← h.2.2.2]
          exact stashX_NI _ _ hs1 (by intro m e; cases e; exact hn)
        · split at h
          · cases h
          · rename_i n1 x3 h1
            split at h
            · cases h
            · rename_i kids x4 h2
              simp only [Option.some.injEq, Prod.mk.injEq] at h
              rw [← h.2.2.2]
              have q1 := hiNodeX_NI hhi _ _ _ _ _ h1 hs1
              have q2 := hiNodesX_NI hhi _ _ _ _ _ h2 q1.1 (NI_kids hn)
              exact stashX_NI _ _ q2.1 (by intro m e; cases e; exact NI_of (a := n) hn q1.2.1 q1.2.2.1 q2.2)

theorem hiLoopX_NI {count : Nat} {ap : Nat → Str → Nat → XSt → Option (Str × Bool × Nat × XSt)} (hap : APNI qt ap) :
    ∀ (g : Nat) (data : Str) (pi si : Nat) (x : XSt) (d' : Str) (x' : XSt),
      hiLoopX count ap g data pi si x = some (d', x') → StashNI qt x.st.stash → StashNI qt x'.st.stash := by
  intro g
  induction g with
  | zero => intro data pi si x d' x' h _; simp [hiLoopX] at h
  | succ g ih =>
    intro data pi si x d' x' h hs
    simp only [hiLoopX] at h
    split at h
    · split at h
      · cases h
      · rename_i d m si1 x1 h1
        exact ih _ _ _ _ _ _ h (hap _ _ _ _ _ _ _ _ h1 hs)
    · simp only [Option.some.injEq, Prod.mk.injEq] at h
      rw [← h.2]; exact hs

theorem handleInlineX_NI {xc : XCfg} (hpat : PatOk qt xc) : ∀ (f : Nat), HINI qt (handleInlineX xc f) := by
  intro f
  induction f with
  | zero => intro d p x d' x' h _; simp [handleInlineX] at h
  | succ f ih =>
    intro d p x d' x' h hs
    simp only [handleInlineX] at h
    exact hiLoopX_NI (applyPatternX_NI hpat ih) _ _ _ _ _ _ _ h hs

theorem handleInlineTopX_NI {xc : XCfg} (hpat : PatOk qt xc) (data : Str) (x : XSt) (d' : Str) (x' : XSt)
    (h : handleInlineTopX xc data x = some (d', x')) (hs : StashNI qt x.st.stash) : StashNI qt x'.st.stash :=
  handleInlineX_NI hpat _ _ _ _ _ _ h hs

/-! ### `run` -/

theorem visitChildX_NI {xc : XCfg} (hpat : PatOk qt xc) (child : Node) (v : VisitX) (c : Node) (tr : List Node)
    (v' : VisitX) (h : visitChildX xc child v = some (c, tr, v')) (hc : NI qt child)
    (hs : StashNI qt v.x.st.stash) :
    NI qt c ∧ (∀ n ∈ tr, NI qt n) ∧ StashNI qt v'.x.st.stash ∧ v'.done = v.done := by
  unfold visitChildX at h
  simp only [] at h
  split at h
  · cases h
  · rename_i c1 lst x1 hr1
    -- the text
    have k1 : NI qt c1 ∧ (∀ n ∈ lst, NI qt n) ∧ StashNI qt x1.st.stash := by
      split at hr1
      · split at hr1
        · cases hr1
        · rename_i data x1' hh
          split at hr1
          · cases hr1
          · rename_i lst' c1' hpp
            simp only [Option.some.injEq, Prod.mk.injEq] at hr1
            obtain ⟨e1, e2, e3⟩ := hr1; subst e1; subst e2; subst e3
            have hs1 := handleInlineTopX_NI hpat _ _ _ _ hh hs
            have q := ppTop_NI _ hs1 _ _ _ _ _ _ hpp
            exact ⟨q.2 (NI_upd (a := child) hc rfl rfl rfl), q.1, hs1⟩
      · simp only [Option.some.injEq, Prod.mk.injEq] at hr1
        obtain ⟨e1, e2, e3⟩ := hr1; subst e1; subst e2; subst e3
        exact ⟨hc, by simp, hs⟩
    split at h
    · cases h
    · rename_i c2 tr' x2 hr2
      have k2 : NI qt c2 ∧ (∀ n ∈ tr', NI qt n) ∧ StashNI qt x2.st.stash := by
        split at hr2
        · split at hr2
          · cases hr2
          · rename_i data x2' hh
            split at hr2
            · cases hr2
            · rename_i tr'' dumby hpp
              simp only [Option.some.injEq, Prod.mk.injEq] at hr2
              obtain ⟨e1, e2, e3⟩ := hr2; subst e1; subst e2; subst e3
              have hs2 : StashNI qt x2'.st.stash := by
                split at hh
                · simp only [Option.some.injEq, Prod.mk.injEq] at hh
                  rw [← hh.2]; exact k1.2.2
                · exact handleInlineTopX_NI hpat _ _ _ _ hh k1.2.2
              have q := ppTop_NI _ hs2 _ _ _ _ _ _ hpp
              refine ⟨?_, q.1, hs2⟩
              split
              · exact NI_upd (a := c1) k1.1 rfl rfl rfl
              · exact NI_upd (a := c1) k1.1 rfl rfl rfl
        · simp only [Option.some.injEq, Prod.mk.injEq] at hr2
          obtain ⟨e1, e2, e3⟩ := hr2; subst e1; subst e2; subst e3
          exact ⟨k1.1, by simp, k1.2.2⟩
      simp only [Option.some.injEq, Prod.mk.injEq] at h
      obtain ⟨e1, e2, e3⟩ := h; subst e1; subst e2; subst e3
      refine ⟨?_, k2.2.1, k2.2.2, rfl⟩
      refine NI_of (a := c2) k2.1 rfl rfl ?_
      intro m hm
      rcases List.mem_append.1 hm with hm | hm
      · exact k1.2.1 m hm
      · exact NI_kids k2.1 m hm

theorem visitLoopX_NI {xc : XCfg} (hpat : PatOk qt xc) :
    ∀ (g : Nat) (todo : List (Node × Option Nat)) (v v' : VisitX), visitLoopX xc g todo v = some v' →
      (∀ p ∈ todo, NI qt p.1) → (∀ n ∈ v.done, NI qt n) → StashNI qt v.x.st.stash →
      (∀ n ∈ v'.done, NI qt n) ∧ StashNI qt v'.x.st.stash := by
  intro g
  induction g with
  | zero => intro todo v v' h _ _ _; simp [visitLoopX] at h
  | succ g ih =>
    intro todo v v' h ht hd hs
    cases todo with
    | nil =>
      simp only [visitLoopX, Option.some.injEq] at h
      subst h; exact ⟨hd, hs⟩
    | cons p todo =>
      obtain ⟨child, orig⟩ := p
      simp only [visitLoopX] at h
      split at h
      · cases h
      · rename_i c tr v1 hv
        have q := visitChildX_NI hpat _ _ _ _ _ hv (ht (child, orig) List.mem_cons_self) hs
        refine ih _ _ _ h ?_ ?_ q.2.2.1
        · intro p hp
          rcases List.mem_append.1 hp with hp | hp
          · obtain ⟨n, hn, rfl⟩ := List.mem_map.1 hp
            exact q.2.1 n hn
          · exact ht p (List.mem_cons_of_mem _ hp)
        · intro n hn
          rcases List.mem_cons.1 hn with e | hn
          · subst e; exact q.1
          · rw [q.2.2.2] at hn; exact hd n hn

theorem withIdx_fst (l : List Node) : ∀ (i : Nat) x, x ∈ withIdx l i → x.1 ∈ l := by
  induction l with
  | nil => intro i x hx; simp [withIdx] at hx
  | cons n r ih =>
    intro i x hx
    simp only [withIdx, List.mem_cons] at hx
    rcases hx with e | hx
    · subst e; exact List.mem_cons_self
    · exact List.mem_cons_of_mem _ (ih _ _ hx)

theorem getAt_NI : ∀ (p : Path) (n cur : Node), getAt n p = some cur → NI qt n → NI qt cur := by
  intro p
  induction p with
  | nil => intro n cur h hn; simp only [getAt, Option.some.injEq] at h; subst h; exact hn
  | cons i p ih =>
    intro n cur h hn
    simp only [getAt] at h
    split at h
    · rename_i c hc
      exact ih _ _ h (NI_kids hn c (List.mem_of_getElem? hc))
    · cases h

theorem setAt_NI : ∀ (p : Path) (n new : Node), NI qt n → NI qt new → NI qt (setAt n p new) := by
  intro p
  induction p with
  | nil => intro n new _ hnew; exact hnew
  | cons i p ih =>
    intro n new hn hnew
    simp only [setAt]
    split
    · rename_i c hc
      refine NI_of (a := n) hn rfl rfl ?_
      intro m hm
      rcases List.mem_or_eq_of_mem_set hm with hm | e
      · exact NI_kids hn m hm
      · subst e; exact ih _ _ (NI_kids hn c (List.mem_of_getElem? hc)) hnew
    · exact hn

theorem runLoopX_NI {xc : XCfg} (hpat : PatOk qt xc) (g2 : Nat) :
    ∀ (g : Nat) (root : Node) (stack : List Path) (x : XSt) (root' : Node) (x' : XSt),
      runLoopX xc g2 g root stack x = some (root', x') → NI qt root → StashNI qt x.st.stash →
      NI qt root' ∧ StashNI qt x'.st.stash := by
  intro g
  induction g with
  | zero => intro root stack x root' x' h _ _; simp [runLoopX] at h
  | succ g ih =>
    intro root stack x root' x' h hr hs
    cases stack with
    | nil =>
      simp only [runLoopX, Option.some.injEq, Prod.mk.injEq] at h
      rw [← h.1, ← h.2]; exact ⟨hr, hs⟩
    | cons p stack =>
      simp only [runLoopX] at h
      split at h
      · exact ih _ _ _ _ _ h hr hs
      · rename_i cur hcur
        split at h
        · cases h
        · rename_i v hv
          have hc := getAt_NI p root cur hcur hr
          have q := visitLoopX_NI hpat _ _ _ _ hv
            (fun p hp => NI_kids hc _ (withIdx_fst _ _ _ hp)) (by simp) hs
          refine ih _ _ _ _ _ h (setAt_NI _ _ _ hr ?_) q.2
          exact NI_of (a := cur) hc rfl rfl (fun m hm => q.1 m (List.mem_reverse.1 hm))

/-- **The inline stage keeps a node invariant**: if the patterns of the table create good elements only, a good
    tree stays good, and so does every element left in the stash. -/
theorem runX_NI {xc : XCfg} (hpat : PatOk qt xc) (tree : Node) (html : List Str) (t : Node) (xs : XSt)
    (h : runX xc tree html = some (t, xs)) (ht : NI qt tree) : NI qt t ∧ StashNI qt xs.st.stash := by
  unfold runX at h
  exact runLoopX_NI hpat _ _ _ _ _ _ _ h ht (by intro n hn; cases hn)

end MdVerif.InlineXNodes
