/-
C05 on the extension pipeline: `Lemmas/AmpFullTree.lean` (block tree, prettify, unescape, serializer) over the
generalised string invariant of `Lemmas/VocabXWFAmpGStr.lean`; the file is `AmpFullTree.lean` with the namespace changed
and `folB`, `not_decimal_letter`, `unescapeText_SQ2` adapted to the letters `q`, `z`.

* `PrettifyTreeprocessor` only adds line feeds;
* `UnescapeTreeprocessor` replaces the escape tokens — every code has at least two digits, so no STX is written — and
  leaves every other STX followed by what followed it: no STX is followed by `a` afterwards (`NodeQ`);
* the serializer escapes the strings and separates them by markup that starts with `<`, `>`, `"` or a blank.

Core Lean only.
-/
import MdVerif.Lemmas.VocabXWFAmpGRun

set_option autoImplicit false

namespace MdVerif.VocabXAmp.G
open Py Inline

/-! ### the block tree -/

theorem nodeS_of_noCtl {n : Node} (h : NoCtl.NodeNoCtl n) : NodeS n :=
  ⟨SOk_of_noCtl h.2.2.1, SOk_of_noCtl h.2.2.2, fun kv hkv => SOkA_of_noSTX (h.2.1 kv hkv).2.1⟩

theorem forallS_of_noCtl {t : Node} (h : NoCtl.TreeNoCtl t) : t.Forall NodeS :=
  Node.Forall.mono (fun _ hn => nodeS_of_noCtl hn) t h

/-! ### `PrettifyTreeprocessor` -/

private theorem ite_pred {α : Type} (P : α → Prop) {c : Prop} [Decidable c] {a b : α} (ha : P a) (hb : P b) :
    P (if c then a else b) := by
  split
  · exact ha
  · exact hb

mutual
theorem prettifyETree_S (bl : List Str) : ∀ t : Node, t.Forall NodeS → (TreeProc.prettifyETree bl t).Forall NodeS
  | ⟨tag, attrs, text, ta, children, tail, tla⟩, h => by
    simp only [Node.Forall] at h
    obtain ⟨⟨h1, h2, h3⟩, hk⟩ := h
    simp only at h1 h2 h3
    unfold TreeProc.prettifyETree
    simp only [Node.Forall]
    refine ⟨⟨?_, ?_, h3⟩, ?_⟩
    · exact ite_pred (fun t : Option Str => SOk (t.getD []) = true) (by decide) h1
    · exact ite_pred (fun t : Option Str => SOk (t.getD []) = true) (by decide) h2
    · split
      · exact prettifyKids_S bl children hk
      · exact hk
theorem prettifyKids_S (bl : List Str) : ∀ l : List Node, Node.ForallL NodeS l →
    Node.ForallL NodeS (TreeProc.prettifyKids bl l)
  | [], _ => by simp [TreeProc.prettifyKids, Node.ForallL]
  | c :: r, h => by
    simp only [Node.ForallL] at h
    unfold TreeProc.prettifyKids
    simp only [Node.ForallL]
    refine ⟨?_, prettifyKids_S bl r h.2⟩
    split
    · exact prettifyETree_S bl c h.1
    · exact h.1
end

mutual
theorem mapTree_P {P : Node → Prop} (hP : ∀ (n : Node) (l : List Node), P n → P { n with children := l })
    {f : Node → Node} (hf : ∀ n : Node, n.Forall P → (f n).Forall P) :
    ∀ t : Node, t.Forall P → (TreeProc.mapTree f t).Forall P
  | ⟨tag, attrs, text, ta, children, tail, tla⟩, h => by
    simp only [Node.Forall] at h
    unfold TreeProc.mapTree
    apply hf
    simp only [Node.Forall]
    exact ⟨hP _ _ h.1, mapKids_P hP hf children h.2⟩
theorem mapKids_P {P : Node → Prop} (hP : ∀ (n : Node) (l : List Node), P n → P { n with children := l })
    {f : Node → Node} (hf : ∀ n : Node, n.Forall P → (f n).Forall P) :
    ∀ l : List Node, Node.ForallL P l → Node.ForallL P (TreeProc.mapKids f l)
  | [], _ => by simp [TreeProc.mapKids, Node.ForallL]
  | c :: r, h => by
    simp only [Node.ForallL] at h
    unfold TreeProc.mapKids
    simp only [Node.ForallL]
    exact ⟨mapTree_P hP hf c h.1, mapKids_P hP hf r h.2⟩
end

theorem brRule_S {n : Node} (h : n.Forall NodeS) : (TreeProc.brRule n).Forall NodeS := by
  unfold TreeProc.brRule
  split
  · split
    · exact forallS_setTail h (by decide) _
    · exact forallS_setTail h (by rw [SOk_cons_ne (by decide)]; exact forallS_tail h) _
  · exact h

theorem preRule_S {n : Node} (h : n.Forall NodeS) : (TreeProc.preRule n).Forall NodeS := by
  unfold TreeProc.preRule
  split
  · split
    · next code rest hch =>
      split
      · split
        · next t ht =>
          refine forallS_setChildren h ?_
          have hk := forallS_children h
          rw [hch] at hk
          intro c hc
          rcases List.mem_cons.1 hc with rfl | hc
          · have hcd := hk code List.mem_cons_self
            refine forallS_setText hcd ?_ _
            have := forallS_text hcd
            rw [ht] at this
            exact SOk_append (SOk_rstrip this) (by decide)
          · exact hk c (List.mem_cons_of_mem _ hc)
        · exact h
      · exact h
    · exact h
  · exact h

theorem prettify_S {t : Node} (h : t.Forall NodeS) (bl : List Str) : (TreeProc.prettify t bl).Forall NodeS := by
  unfold TreeProc.prettify
  exact mapTree_P nodeS_children_irrel (fun _ => preRule_S) _
    (mapTree_P nodeS_children_irrel (fun _ => brRule_S) _ (prettifyETree_S bl t h))

/-! ### `UnescapeTreeprocessor` -/

/-- after an STX in the output: nothing, `k`, `w` or a digit -/
def folB : Str → Bool
  | [] => true
  | c :: _ => gl c || isAsciiDigit c

def SQ2 : Str → Bool
  | [] => true
  | c :: r => (c != STX || folB r) && SQ2 r

theorem SQ_of_SQ2 {s : Str} (h : SQ2 s = true) : SQ s = true := by
  induction s with
  | nil => rfl
  | cons c r ih =>
    simp only [SQ2, Bool.and_eq_true, Bool.or_eq_true] at h
    simp only [SQ, Bool.and_eq_true, Bool.or_eq_true, bne_iff_ne]
    refine ⟨?_, ih h.2⟩
    rcases h.1 with h1 | h1
    · exact Or.inl (by simpa using h1)
    · right
      cases r with
      | nil => simp
      | cons d r =>
        simp only [List.head?_cons, ne_eq, Option.some.injEq]
        rintro rfl
        have : folB ('a' :: r) = false := rfl
        rw [this] at h1; cases h1

theorem decToNat_foldl_ge (r : Str) : ∀ (acc : Nat),
    acc * 10 ^ r.length ≤ r.foldl (fun a c => a * 10 + decimalValue c) acc := by
  induction r with
  | nil => intro acc; simp
  | cons c r ih =>
    intro acc
    simp only [List.foldl_cons, List.length_cons]
    refine Nat.le_trans ?_ (ih _)
    rw [Nat.pow_succ, ← Nat.mul_assoc, Nat.mul_right_comm]
    exact Nat.mul_le_mul_right _ (Nat.le_add_right _ _)

theorem isNZ_value {c : Char} (h : isNZ c = true) : 1 ≤ decimalValue c := by
  simp only [isNZ, Bool.and_eq_true, decide_eq_true_eq, Char.le_def, UInt32.le_iff_toNat_le] at h
  have h1 : ('1' : Char).val.toNat = 49 := by decide
  have h2 : ('9' : Char).val.toNat = 57 := by decide
  rw [h1, h2] at h
  have e : c.toNat = c.val.toNat := rfl
  unfold decimalValue
  rw [if_pos (by omega)]
  omega

/-- a number spelt with a non-zero first digit and at least one more -/
theorem decToNat_two {c d : Char} {r : Str} (h : isNZ c = true) : 10 ≤ decToNat (c :: d :: r) := by
  unfold decToNat
  simp only [List.foldl_cons, Nat.zero_mul, Nat.zero_add]
  have h1 := isNZ_value h
  have h2 := decToNat_foldl_ge r (decimalValue c * 10 + decimalValue d)
  have h3 : 1 ≤ 10 ^ r.length := Nat.pow_pos (by omega)
  calc 10 ≤ (decimalValue c * 10 + decimalValue d) * 1 := by omega
    _ ≤ (decimalValue c * 10 + decimalValue d) * 10 ^ r.length := Nat.mul_le_mul_left _ h3
    _ ≤ _ := h2

theorem ofNat_ne_stx {v : Nat} (h : 10 ≤ v) : Char.ofNat v ≠ STX := by
  intro e
  have := congrArg Char.toNat e
  unfold Char.ofNat at this
  split at this
  · simp only [Char.toNat, Char.ofNatAux] at this
    have h2 : STX.val.toNat = 2 := by decide
    simp [h2] at this
    omega
  · revert this; decide

theorem isNZ_decimal {c : Char} (h : isNZ c = true) : isDecimal c = true := by
  have hd := isNZ_digit h
  unfold isDecimal
  have : c.toNat < 128 := by
    simp only [isAsciiDigit, Bool.and_eq_true, decide_eq_true_eq, Char.le_def, UInt32.le_iff_toNat_le] at hd
    have h2 : ('9' : Char).val.toNat = 57 := by decide
    rw [h2] at hd
    have e : c.toNat = c.val.toNat := rfl
    omega
  rw [if_pos this]; exact hd

theorem digit_decimal {c : Char} (hd : isAsciiDigit c = true) : isDecimal c = true := by
  unfold isDecimal
  have : c.toNat < 128 := by
    simp only [isAsciiDigit, Bool.and_eq_true, decide_eq_true_eq, Char.le_def, UInt32.le_iff_toNat_le] at hd
    have h2 : ('9' : Char).val.toNat = 57 := by decide
    rw [h2] at hd
    have e : c.toNat = c.val.toNat := rfl
    omega
  rw [if_pos this]; exact hd

theorem not_decimal_letter {c : Char} (h : gl c = true) : isDecimal c = false := by
  rcases gl_iff.1 h with rfl | rfl | rfl | rfl <;> decide

/-- **`UnescapeTreeprocessor.unescape`** on a text with the invariant: afterwards no STX is followed by `a` -/
theorem unescapeText_SQ2 : ∀ (s : Str) (k : Nat) (r : Str), SOkA (s.drop k) = true →
    TreeProc.unescapeText k s = some r → SQ2 r = true := by
  intro s
  induction s with
  | nil => intro k r _ h; cases k <;> (simp only [TreeProc.unescapeText, Option.some.injEq] at h; subst h; rfl)
  | cons c s ih =>
    intro k r hs h
    cases k with
    | succ k => rw [TreeProc.unescapeText] at h; exact ih k r (by simpa using hs) h
    | zero =>
      simp only [List.drop_zero] at hs
      rw [SOkA_cons, Bool.and_eq_true] at hs
      rw [TreeProc.unescapeText] at h
      have hcopy : ∀ r', (TreeProc.unescapeText 0 s).map (c :: ·) = some r' → SQ2 r' = true := by
        intro r' h'
        simp only [Option.map_eq_some_iff] at h'
        obtain ⟨r0, hr0, rfl⟩ := h'
        have ih0 := ih 0 r0 (by simpa using hs.2) hr0
        simp only [SQ2, Bool.and_eq_true, Bool.or_eq_true]
        refine ⟨?_, ih0⟩
        by_cases hc : c = STX
        · right
          have hf : folA s = true := by
            rcases Bool.or_eq_true_iff.1 hs.1 with h1 | h1
            · exfalso; simp [hc] at h1
            · exact h1
          cases s with
          | nil => simp only [TreeProc.unescapeText, Option.some.injEq] at hr0; subst hr0; rfl
          | cons d s' =>
            have hd : d ≠ STX := by
              rintro rfl
              simp only [folA, Bool.or_eq_true, Bool.and_eq_true] at hf
              rcases hf with h' | h'
              · revert h'; decide
              · exact absurd h'.1 (by decide)
            have hd' : d ≠ TreeProc.STX := hd
            rw [TreeProc.unescapeText, if_neg hd'] at hr0
            simp only [Option.map_eq_some_iff] at hr0
            obtain ⟨r1, _, rfl⟩ := hr0
            simp only [folA, Bool.or_eq_true, Bool.and_eq_true] at hf
            simp only [folB, Bool.or_eq_true]
            rcases hf with h' | h'
            · exact Or.inl h'
            · exact Or.inr (isNZ_digit h'.1)
        · left; simpa using hc
      split at h
      · rename_i hc
        dsimp only at h
        split at h
        · rename_i hm
          -- a token: its code has at least two digits
          split at h
          · simp only [Option.map_eq_some_iff] at h
            obtain ⟨r0, hr0, rfl⟩ := h
            have ih0 := ih _ r0 (SOkA_drop hs.2 _) hr0
            have hf : folA s = true := by
              rcases Bool.or_eq_true_iff.1 hs.1 with h1 | h1
              · exfalso; simp [hc] at h1; exact h1 rfl
              · exact h1
            simp only [Bool.and_eq_true, decide_eq_true_eq, beq_iff_eq] at hm
            have hv : 10 ≤ decToNat (s.take (spanLen isDecimal s)) := by
              cases s with
              | nil => simp [spanLen] at hm
              | cons d1 s1 =>
                simp only [folA, Bool.or_eq_true, Bool.and_eq_true] at hf
                rcases hf with h' | h'
                · have := not_decimal_letter h'
                  simp [spanLen, this] at hm
                · cases s1 with
                  | nil =>
                    have := isNZ_decimal h'.1
                    simp [spanLen, this] at hm
                  | cons d2 s2 =>
                    simp only [digit2A] at h'
                    have e1 := isNZ_decimal h'.1
                    have e2 := digit_decimal h'.2
                    simp only [spanLen, e1, e2, if_true, List.take_succ_cons]
                    exact decToNat_two h'.1
            simp only [SQ2, Bool.and_eq_true, Bool.or_eq_true, bne_iff_ne]
            exact ⟨Or.inl (ofNat_ne_stx hv), ih0⟩
          · cases h
        · exact hcopy r h
      · exact hcopy r h

/-- no STX is followed by `a`, in the text, the tail and the attribute values -/
def NodeQ (n : Node) : Prop :=
  SQ (n.text.getD []) = true ∧ SQ (n.tail.getD []) = true ∧ ∀ kv ∈ n.attrs, SQ kv.2 = true

theorem unescapeText_SQ {s r : Str} (hs : SOkA s = true) (h : TreeProc.unescapeText 0 s = some r) : SQ r = true :=
  SQ_of_SQ2 (unescapeText_SQ2 s 0 r (by simpa using hs) h)

theorem unescAttrs_SQ : ∀ (a a' : List (Str × Str)), (∀ kv ∈ a, SOkA kv.2 = true) →
    TreeProc.unescAttrs a = some a' → ∀ kv ∈ a', SQ kv.2 = true := by
  intro a
  induction a with
  | nil => intro a' _ h; simp only [TreeProc.unescAttrs, Option.some.injEq] at h; subst h; simp
  | cons x r ih =>
    intro a' ha h
    obtain ⟨k, v⟩ := x
    simp only [TreeProc.unescAttrs] at h
    split at h
    · rename_i v' r' hv hr
      simp only [Option.some.injEq] at h; subst h
      intro kv hkv
      rcases List.mem_cons.1 hkv with rfl | hkv
      · exact unescapeText_SQ (ha (k, v) List.mem_cons_self) hv
      · exact ih r' (fun x hx => ha x (List.mem_cons_of_mem _ hx)) hr kv hkv
    · cases h

mutual
theorem unescapeTree_Q : (n u : Node) → TreeProc.unescapeTree n = some u → n.Forall NodeS → u.Forall NodeQ
  | ⟨tag, attrs, text, ta, children, tail, tla⟩, u, hu, h => by
    simp only [Node.Forall] at h
    obtain ⟨⟨h1, h2, h3⟩, hk⟩ := h
    simp only at h1 h2 h3
    simp only [TreeProc.unescapeTree] at hu
    split at hu
    · rename_i t tl a ks e1 e2 e3 e4
      simp only [Option.some.injEq] at hu; subst hu
      simp only [Node.Forall]
      refine ⟨⟨?_, ?_, unescAttrs_SQ _ _ h3 e3⟩, unescapeKids_Q children ks e4 hk⟩
      · simp only
        split at e1
        · simp only [Option.map_eq_some_iff] at e1
          obtain ⟨r, hr, rfl⟩ := e1
          exact unescapeText_SQ (SOkA_of_SOk h1) hr
        · simp only [Option.some.injEq] at e1; subst e1
          exact SQ_of_SOkA (SOkA_of_SOk h1)
      · simp only
        split at e2
        · simp only [Option.map_eq_some_iff] at e2
          obtain ⟨r, hr, rfl⟩ := e2
          exact unescapeText_SQ (SOkA_of_SOk h2) hr
        · simp only [Option.some.injEq] at e2; subst e2
          exact SQ_of_SOkA (SOkA_of_SOk h2)
    · cases hu
theorem unescapeKids_Q : (l l' : List Node) → TreeProc.unescapeKids l = some l' → Node.ForallL NodeS l →
    Node.ForallL NodeQ l'
  | [], l', hu, _ => by
    simp only [TreeProc.unescapeKids, Option.some.injEq] at hu; subst hu; simp [Node.ForallL]
  | c :: r, l', hu, h => by
    simp only [Node.ForallL] at h
    simp only [TreeProc.unescapeKids] at hu
    split at hu
    · rename_i c' r' e1 e2
      simp only [Option.some.injEq] at hu; subst hu
      simp only [Node.ForallL]
      exact ⟨unescapeTree_Q c c' e1 h.1, unescapeKids_Q r r' e2 h.2⟩
    · cases hu
end

section Serializer
open Ser Vocab2

/-! ### the serializer -/

/-- what may stand behind an escaped string: no `STX a` inside, and it does not start with `a` -/
def Tl (Y : Str) : Prop := SQ Y = true ∧ Y.head? ≠ some 'a'

theorem tl_nil : Tl [] := ⟨rfl, by simp⟩

theorem SQ_noSTX_append {a : Str} (ha : STX ∉ a) (b : Str) : SQ (a ++ b) = SQ b := by
  induction a with
  | nil => rfl
  | cons c r ih =>
    have hc : c ≠ STX := fun e => ha (by rw [e]; exact List.mem_cons_self)
    rw [List.cons_append, SQ_cons_ne hc]
    exact ih (fun hm => ha (List.mem_cons_of_mem _ hm))

/-- markup: no STX, does not start with `a` -/
theorem tl_markup {M : Str} (hM : STX ∉ M) {c : Char} {r : Str} (he : M = c :: r) (hc : c ≠ 'a') {Z : Str}
    (hZ : SQ Z = true) : Tl (M ++ Z) := by
  refine ⟨by rw [SQ_noSTX_append hM]; exact hZ, ?_⟩
  subst he
  simpa using hc

theorem esc1_head (q nl : Bool) (d : Char) (r : Str) :
    (esc1 q nl (d :: r)).head? = some '&' ∨ (esc1 q nl (d :: r)).head? = some d := by
  unfold esc1
  split
  · rename_i h; subst h
    split <;> simp
  · split
    · left; rfl
    · split
      · left; rfl
      · split
        · left; rfl
        · split
          · left; rfl
          · right; rfl

/-- an escaped string in front of markup -/
theorem SQ_esc1 (q nl : Bool) {Y : Str} (hY : Tl Y) : ∀ (s : Str), SQ s = true → SQ (esc1 q nl s ++ Y) = true := by
  intro s
  induction s with
  | nil => intro _; exact hY.1
  | cons c r ih =>
    intro hs
    rw [SQ_cons, Bool.and_eq_true] at hs
    have ihr := ih hs.2
    have hent : ∀ (E : Str), STX ∉ E → SQ (E ++ esc1 q nl r ++ Y) = true := by
      intro E hE
      rw [List.append_assoc, SQ_noSTX_append hE]; exact ihr
    unfold esc1
    split
    · split
      · rw [List.cons_append, SQ_cons_ne (by decide)]; exact ihr
      · exact hent _ (by decide)
    · split
      · exact hent _ (by decide)
      · split
        · exact hent _ (by decide)
        · split
          · exact hent _ (by decide)
          · split
            · exact hent _ (by decide)
            · rw [List.cons_append, SQ_cons, Bool.and_eq_true]
              refine ⟨?_, ihr⟩
              by_cases hc : c = STX
              · subst hc
                have h1 : r.head? ≠ some 'a' := by simpa using hs.1
                simp only [Bool.or_eq_true, bne_iff_ne]
                right
                cases r with
                | nil => simpa [esc1] using hY.2
                | cons d r' =>
                  have hd : d ≠ 'a' := by simpa using h1
                  rcases esc1_head q nl d r' with h' | h'
                  · cases he : esc1 q nl (d :: r') with
                    | nil => rw [he] at h'; cases h'
                    | cons x xs =>
                      rw [he] at h'
                      simp only [List.head?_cons, Option.some.injEq] at h'
                      subst h'; simp
                  · cases he : esc1 q nl (d :: r') with
                    | nil => rw [he] at h'; cases h'
                    | cons x xs =>
                      rw [he] at h'
                      simp only [List.head?_cons, Option.some.injEq] at h'
                      subst h'; simpa using hd
              · simp [hc]

theorem SQ_escCdata {Y : Str} (hY : Tl Y) {s : Str} (hs : SQ s = true) : SQ (escCdata s ++ Y) = true := by
  rw [onepass_cdata']; exact SQ_esc1 _ _ hY s hs

theorem SQ_escAttr {Y : Str} (hY : Tl Y) {s : Str} (hs : SQ s = true) : SQ (escAttrHtml s ++ Y) = true := by
  rw [onepass_attr']; exact SQ_esc1 _ _ hY s hs

theorem SQ_textStr {Y : Str} (hY : Tl Y) {t : Option Str} (hs : SQ (t.getD []) = true) :
    SQ (textStr t ++ Y) = true := by
  unfold textStr
  split
  · exact SQ_escCdata hY hs
  · exact hY.1

/-- the attribute list in front of `>` or ` />` -/
theorem tl_writeAttrs (fmt : Fmt) : ∀ (as : List (Str × Str)), (∀ kv ∈ as, attrOk kv.1 = true) →
    (∀ kv ∈ as, SQ kv.2 = true) → ∀ (Z : Str), Tl Z → Tl (writeAttrs fmt as ++ Z) := by
  intro as
  induction as with
  | nil => intro _ _ Z hZ; exact hZ
  | cons kv r ih =>
    intro hk hv Z hZ
    obtain ⟨k, v⟩ := kv
    have hkc := (attrOk_clean (hk (k, v) List.mem_cons_self)).1
    have ihr := ih (fun x hx => hk x (List.mem_cons_of_mem _ hx)) (fun x hx => hv x (List.mem_cons_of_mem _ hx)) Z hZ
    simp only [writeAttrs]
    split
    · rename_i hb
      have hkv : k = escAttrHtml v := by simp only [Bool.and_eq_true, decide_eq_true_eq] at hb; exact hb.1
      rw [← hkv, List.append_assoc]
      exact tl_markup (M := ' ' :: k) (by
        intro hm
        rcases List.mem_cons.1 hm with hm | hm
        · revert hm; decide
        · exact hkc hm) rfl (by decide) ihr.1
    · have e1 : (' ' :: k ++ "=\"".toList ++ escAttrHtml v ++ ['"']) ++ writeAttrs fmt r ++ Z =
          (' ' :: k ++ "=\"".toList) ++ (escAttrHtml v ++ ('"' :: (writeAttrs fmt r ++ Z))) := by
        simp [List.append_assoc]
      rw [e1]
      have t1 : Tl ('"' :: (writeAttrs fmt r ++ Z)) :=
        tl_markup (M := ['"']) (by decide) rfl (by decide) ihr.1
      have t2 := SQ_escAttr t1 (hv (k, v) List.mem_cons_self)
      exact tl_markup (M := ' ' :: k ++ "=\"".toList) (by
        intro hm
        rcases List.mem_append.1 hm with hm | hm
        · rcases List.mem_cons.1 hm with hm | hm
          · revert hm; decide
          · exact hkc hm
        · revert hm; decide) rfl (by decide) t2

theorem noSTX_lt_tag {t : Str} (ht : STX ∉ t) : STX ∉ '<' :: t := by
  intro hm
  rcases List.mem_cons.1 hm with hm | hm
  · revert hm; decide
  · exact ht hm

mutual
/-- **the serialisation of a vocabulary element** whose strings have no `STX a`, in front of markup -/
theorem tl_serialize (fmt : Fmt) : (n : Node) → Good n = true → n.Forall NodeQ → ∀ (Y : Str), Tl Y →
    Tl (serialize fmt n ++ Y)
  | ⟨tag, attrs, text, ta, children, tail, tla⟩, h, hq, Y, hY => by
    unfold Good at h
    rw [goodT_mk, Bool.and_eq_true] at h
    simp only [Node.Forall] at hq
    obtain ⟨⟨q1, q2, q3⟩, qk⟩ := hq
    simp only at q1 q2 q3
    have hkids := tl_serializeList fmt children h.2 qk
    cases tag with
    | name t =>
      have h1 := h.1
      simp only [nodeOk, attrsOk, Bool.and_eq_true, Bool.or_eq_true, Bool.not_eq_true', List.all_eq_true,
        List.isEmpty_iff] at h1
      obtain ⟨⟨ht, ha, _⟩, hv⟩ := h1
      obtain ⟨_, f2, f3⟩ := vocabTag_facts ht
      have htc := vocabTag_clean ht
      have hW : ∀ Z, Tl Z → Tl (writeAttrs fmt (sortAttrs attrs) ++ Z) := fun Z hZ =>
        tl_writeAttrs fmt _ (fun kv hkv => ha kv (mem_sortAttrs attrs kv hkv))
          (fun kv hkv => q3 kv (mem_sortAttrs attrs kv hkv)) Z hZ
      have hTL : SQ ((if Node.truthy tail = true then escCdata (tail.getD []) else []) ++ Y) = true :=
        SQ_textStr (t := tail) hY q2
      simp only [serialize, element_none, f2, Bool.false_eq_true, ↓reduceIte]
      split
      · -- xhtml, void
        have e : '<' :: (t ++ (writeAttrs fmt (sortAttrs attrs) ++ " />".toList)) ++
            (if Node.truthy tail = true then escCdata (tail.getD []) else []) ++ Y =
            ('<' :: t) ++ (writeAttrs fmt (sortAttrs attrs) ++ (" />".toList ++
              ((if Node.truthy tail = true then escCdata (tail.getD []) else []) ++ Y))) := by
          simp [List.append_assoc]
        rw [e]
        exact tl_markup (noSTX_lt_tag htc) rfl (by decide)
          (hW _ (tl_markup (M := " />".toList) (by decide) rfl (by decide) hTL)).1
      · by_cases hvoid : isVoidTag t = true
        · -- html, void: no text, no children
          rcases hv with hv | ⟨hnt, hch⟩
          · rw [hv] at hvoid; cases hvoid
          · subst hch
            simp only [f3, hvoid, hnt, ↓reduceIte, serializeList, List.append_nil, Bool.false_eq_true]
            have e : '<' :: (t ++ (writeAttrs fmt (sortAttrs attrs) ++ ['>'])) ++
                (if Node.truthy tail = true then escCdata (tail.getD []) else []) ++ Y =
                ('<' :: t) ++ (writeAttrs fmt (sortAttrs attrs) ++ (['>'] ++
                  ((if Node.truthy tail = true then escCdata (tail.getD []) else []) ++ Y))) := by
              simp [List.append_assoc]
            rw [e]
            exact tl_markup (noSTX_lt_tag htc) rfl (by decide)
              (hW _ (tl_markup (M := ['>']) (by decide) rfl (by decide) hTL)).1
        · have hnv : isVoidTag t = false := by simpa using hvoid
          simp only [f3, hnv, Bool.false_eq_true, ↓reduceIte]
          have hTX : ∀ Z, Tl Z → SQ ((if Node.truthy text = true then escCdata (text.getD []) else []) ++ Z) = true :=
            fun Z hZ => SQ_textStr (t := text) hZ q1
          have e : '<' :: (t ++ (writeAttrs fmt (sortAttrs attrs) ++ '>' ::
                ((if Node.truthy text = true then escCdata (text.getD []) else []) ++
                  (serializeList fmt children ++ ("</".toList ++ t ++ ['>']))))) ++
              (if Node.truthy tail = true then escCdata (tail.getD []) else []) ++ Y =
              ('<' :: t) ++ (writeAttrs fmt (sortAttrs attrs) ++ (['>'] ++
                ((if Node.truthy text = true then escCdata (text.getD []) else []) ++
                  (serializeList fmt children ++ (("</".toList ++ t ++ ['>']) ++
                    ((if Node.truthy tail = true then escCdata (tail.getD []) else []) ++ Y)))))) := by
            simp [List.append_assoc]
          rw [e]
          have hC : Tl (("</".toList ++ t ++ ['>']) ++
              ((if Node.truthy tail = true then escCdata (tail.getD []) else []) ++ Y)) :=
            tl_markup (M := "</".toList ++ t ++ ['>']) (by
              intro hm
              rcases List.mem_append.1 hm with hm | hm
              · rcases List.mem_append.1 hm with hm | hm
                · revert hm; decide
                · exact htc hm
              · revert hm; decide) rfl (by decide) hTL
          exact tl_markup (noSTX_lt_tag htc) rfl (by decide)
            (hW _ (tl_markup (M := ['>']) (by decide) rfl (by decide) (hTX _ (hkids _ hC)))).1
    | _ => simp [nodeOk] at h
theorem tl_serializeList (fmt : Fmt) : (l : List Node) → GoodList l = true → Node.ForallL NodeQ l →
    ∀ (Y : Str), Tl Y → Tl (serializeList fmt l ++ Y)
  | [], _, _, Y, hY => by simpa [serializeList] using hY
  | c :: r, h, hq, Y, hY => by
    simp only [GoodListT, Bool.and_eq_true] at h
    simp only [Node.ForallL] at hq
    simp only [serializeList, List.append_assoc]
    exact tl_serialize fmt c h.1 hq.1 _ (tl_serializeList fmt r h.2 hq.2 Y hY)
end

/-- **no ampersand substitute in the serialisation** of a document whose strings have no `STX a` -/
theorem inner_no_amp (fmt : Fmt) (root : Node) (hd : DocOk root = true) (hq : root.Forall NodeQ) :
    contains (inner fmt root) Post.ampSubstitute = false := by
  apply no_amp_of_SQ
  simp only [DocOk, Bool.and_eq_true, beq_iff_eq, List.isEmpty_iff] at hd
  rw [Node.forall_def] at hq
  have h1 := tl_serializeList fmt root.children hd.2 hq.2 [] tl_nil
  rw [List.append_nil] at h1
  rw [inner_eq]
  exact SQ_textStr h1 hq.1.1


end Serializer

/-! ### the whole pipeline up to the serializer -/

open NoCtl in
/-- the block parser's tree and reference definitions hold no STX/ETX when the parsed text holds none -/
theorem block_tree_noctl (tab : Nat) {text : Str} (h : NoCtl text) {root : Node} {refs : Block.Refs}
    (hr : Block.parseDocument tab text = some (root, refs)) :
    TreeNoCtl root ∧ ∀ r ∈ refs, NoCtl r.2.1 ∧ NoCtl (r.2.2.getD []) := by
  have hp : Blk.AllC Blk.okc text := fun c hc => by
    have := noCtl_iff.1 h c hc
    simp [Blk.okc, this.1, this.2]
  obtain ⟨h1, h2, -⟩ := Blk.parseDocument_chars Blk.charDom_noctl tab text hp hr
  refine ⟨Node.Forall.mono ?_ root h1, fun r hr' => ⟨allC_okc (h2 r hr').1, allC_okc (h2 r hr').2⟩⟩
  rintro n ⟨b1, b2, b3, b4, b5, b6, b7⟩
  have hattrs : attrsNoCtl n.attrs := by rw [b2]; intro kv hkv; cases hkv
  refine ⟨b1, hattrs, ?_, allC_okc b4⟩
  by_cases hat : n.textAtomic = true
  · rw [if_pos hat] at b5; exact allC_okc b5
  · rw [if_neg hat] at b5; exact allC_okc b5

/-- **the tree handed to the serializer** has no STX followed by `a`, in any text, tail or attribute value -/
theorem tree_Q {cfg : Pipeline.Cfg} (hesc : EscTwo cfg.esc) {src : Str} {u : Node} {html : List Str}
    (h : Pipeline.tree cfg src = some (some (u, html))) : u.Forall NodeQ := by
  unfold Pipeline.tree at h
  split at h
  · cases h
  · rename_i root refs hb
    obtain ⟨b1, b2⟩ := block_tree_noctl cfg.tab (NoCtl.prepare_noctl cfg src) hb
    split at h
    · cases h
    · rename_i t st hr
      split at h
      · cases h
      · rename_i u' hu
        simp only [Option.some.injEq, Prod.mk.injEq] at h
        obtain ⟨e, _⟩ := h; subst e
        have hrefs : RefsS { esc := cfg.esc, refs := refs.reverse } := by
          intro r hr'
          have := b2 r (List.mem_reverse.1 hr')
          exact ⟨SOkA_of_noSTX this.1.1, SOkA_of_noSTX this.2.1⟩
        have h1 := run_S (cfg := { esc := cfg.esc, refs := refs.reverse }) hesc hrefs hr (forallS_of_noCtl b1)
        exact unescapeTree_Q _ _ hu (prettify_S h1 cfg.blockLevel)

/-- **the hypothesis `hamp` of `C05_partial2` holds for every source**: the serialised document tree does not contain
    the ampersand substitute -/
theorem tree_no_amp {cfg : Pipeline.Cfg} (hesc : EscTwo cfg.esc) {src : Str} {u : Node} {html : List Str}
    (h : Pipeline.tree cfg src = some (some (u, html))) :
    contains (Vocab2.inner cfg.fmt u) Post.ampSubstitute = false :=
  inner_no_amp cfg.fmt u (Vocab2.tree_docOk cfg src u html h) (tree_Q hesc h)

theorem escTwo_default : EscTwo Generated.escapedChars := by decide

end MdVerif.VocabXAmp.G
