/-
Helper lemmas for C10 on the extension model (`Props/C10XToc.lean`), part 2: `TocTreeprocessor.run` keeps the
invariant `FNodeX` of the tree handed from one late tree processor to the next.  Core Lean only.

3. `renderInner_noctl`: the name of a heading holds no STX/ETX — the serialised heading is made of ordinary characters
   and escape tokens (`serialize_wf`), `UnescapeTreeprocessor.unescape` removes every escape token
   (`unescapeText_wf`), the cut/strip steps take infixes, the postprocessors keep `NoCtl` (hypothesis `PostOK`).
4. `rmFnNode_serX`: `remove_fnrefs` moves tails, which are made of ordinary characters and escape tokens.
5. `heading_spec`, `walkNode_spec`: the id pass — new ids come from `slugify`/`unique` (`slugify_noctl`), the label
   and the id of a token are unescaped attribute values.
6. `buildDiv_fnodeX`: the `div.toc` has literal tags and attributes, `href = '#' + id`, texts = names.
7. `replNode_fnodeX`, `toc_run_fnodeX`.
8. `postX_noctl`: the postprocessors with an empty raw-HTML stash keep `NoCtl`.
-/
import MdVerif.Lemmas.PlaceholdersXToc

namespace MdVerif.NoCtlX
open MdVerif.NoCtl Py

/-- contract of the postprocessors run on the name of a heading -/
def PostOK (post : Str → Option Str) : Prop := ∀ s, NoCtl s → ∀ o, post s = some o → NoCtl o

/-! ## 3. the name of a heading -/

theorem renderInner_noctl {env : TocTree.Env} (hp : PostOK env.post) {el : Node} (h : el.Forall SerX) {s : Str}
    (hr : TocTree.renderInner env el = .ok s) : NoCtl s := by
  unfold TocTree.renderInner at hr
  split at hr
  · cases hr
  · next text ht =>
    have hn := unescapeText_wf (serialize_wf env.fmt h) ht
    split at hr
    · next s0 e _ _ =>
      split at hr
      · next r hr' =>
        injection hr with hr
        subst hr
        exact (hp _ ((hn.take _).drop _).strip _ hr').strip
      · cases hr
    · cases hr

/-! ## 4. `remove_fnrefs` -/

theorem serX_tail {c : Node} (h : c.Forall SerX) : WF true 0 (TocTree.orEmpty c.tail) :=
  ((Node.forall_def SerX c).1 h).1.2.2.1

mutual
theorem rmFnNode_serX : ∀ t : Node, t.Forall SerX → (TocTree.rmFnNode t).Forall SerX
  | ⟨tag, attrs, text, ta, children, tail, tla⟩, h => by
    simp only [Node.Forall] at h
    obtain ⟨⟨h1, h2, h3, h4⟩, hk⟩ := h
    have ih := rmFnKids_serX children hk
    unfold TocTree.rmFnNode
    simp only
    split
    · simp only [Node.Forall]
      exact ⟨⟨h1, h2, h3, h4⟩, ih.1⟩
    · simp only [Node.Forall]
      exact ⟨⟨h1, h2, h3, WF.append h4 ih.2⟩, ih.1⟩
theorem rmFnKids_serX : ∀ l : List Node, Node.ForallL SerX l →
    Node.ForallL SerX (TocTree.rmFnKids l).1 ∧ WF true 0 (TocTree.rmFnKids l).2
  | [], _ => by
    unfold TocTree.rmFnKids
    exact ⟨by simp [Node.ForallL], .nil⟩
  | c :: r, h => by
    simp only [Node.ForallL] at h
    have ihr := rmFnKids_serX r h.2
    unfold TocTree.rmFnKids
    simp only
    split
    · exact ⟨ihr.1, WF.append (serX_tail h.1) ihr.2⟩
    · have ihc := rmFnNode_serX c h.1
      split
      · simp only [Node.ForallL]
        exact ⟨⟨ihc, ihr.1⟩, .nil⟩
      · simp only [Node.ForallL]
        refine ⟨⟨?_, ihr.1⟩, .nil⟩
        rw [Node.forall_def] at ihc ⊢
        obtain ⟨⟨c1, c2, c3, c4⟩, ck⟩ := ihc
        exact ⟨⟨c1, c2, WF.append c3 ihr.2, c4⟩, ck⟩
end

/-! ## 5. the id pass -/

/-- a token of the table of contents: id and name without STX/ETX -/
def TokOK (t : Toc.Tok) : Prop := NoCtl t.id ∧ NoCtl t.name

def ToksOK (st : TocTree.St) : Prop := ∀ t ∈ st.toks, TokOK t

/-- `if "id" not in el.attrib: el.attrib["id"] = unique(slugify(html.unescape(name)), used_ids)` -/
def idStep (el : Node) (st : TocTree.St) (name0 : Str) : TocTree.R (List (Str × Str) × List Str) :=
  match el.getAttr TocTree.idKey with
  | some _ => .ok (el.attrs, st.used)
  | none =>
    match TocTree.htmlUnescape 0 name0 with
    | none => .ood
    | some u =>
      match TocTree.slugify u with
      | none => .ood
      | some slug =>
        let r := Toc.unique slug st.used
        .ok (el.attrs ++ [(TocTree.idKey, r.1)], r.2)

/-- `data-toc-label` -/
def nameStep (env : TocTree.Env) (name0 : Str) (attrs : List (Str × Str)) : TocTree.R (Str × List (Str × Str)) :=
  match (attrs.find? (fun kv => kv.1 = TocTree.labelKey)).map (·.2) with
  | none => .ok (name0, attrs)
  | some lbl =>
    match TreeProc.unescapeText 0 lbl with
    | none => .err
    | some u =>
      match env.post u with
      | none => .oof
      | some l => .ok (Ser.escCdata (TocTree.stripTags (strip l)), TocTree.attrDel attrs TocTree.labelKey)

def levelOf (tag : Tag) : Nat :=
  match tag with
  | .name t => (t.getLast?.map (fun c => c.toNat - 48)).getD 0
  | _ => 0

/-- `TocTree.heading` as a chain of the steps above -/
theorem heading_eq (env : TocTree.Env) (el : Node) (st : TocTree.St) :
    TocTree.heading env el st =
      match TocTree.renderInner env (TocTree.rmFnNode el) with
      | .oof => .oof | .err => .err | .ood => .ood
      | .ok inner =>
        match idStep el st (TocTree.stripTags inner) with
        | .oof => .oof | .err => .err | .ood => .ood
        | .ok (attrs, used) =>
          match nameStep env (TocTree.stripTags inner) attrs with
          | .oof => .oof | .err => .err | .ood => .ood
          | .ok (name, attrs) =>
            match TreeProc.unescapeText 0 (((attrs.find? (fun kv => kv.1 = TocTree.idKey)).map (·.2)).getD []) with
            | none => .err
            | some tid => .ok (attrs, { used := used, toks := st.toks ++ [⟨levelOf el.tag, tid, name⟩] }) := rfl

theorem idStep_spec {el : Node} {st : TocTree.St} {name0 : Str} (ha : attrsTok el.attrs)
    {attrs : List (Str × Str)} {used : List Str} (h : idStep el st name0 = .ok (attrs, used)) : attrsTok attrs := by
  unfold idStep at h
  split at h
  · injection h with h
    simp only [Prod.mk.injEq] at h
    rw [← h.1]; exact ha
  · split at h
    · cases h
    · split at h
      · cases h
      · next slug hs =>
        injection h with h
        simp only [Prod.mk.injEq] at h
        rw [← h.1]
        intro kv hkv
        rcases List.mem_append.1 hkv with hkv | hkv
        · exact ha kv hkv
        · rw [List.mem_singleton.1 hkv]
          exact ⟨(by decide : NoCtl TocTree.idKey), WF.of_noCtl (unique_noctl _ (slugify_noctl hs))⟩

/-- the id written for a heading without `id` holds no STX/ETX -/
theorem idStep_new_id {el : Node} {st : TocTree.St} {name0 : Str} (hno : el.getAttr TocTree.idKey = none)
    {attrs : List (Str × Str)} {used : List Str} (h : idStep el st name0 = .ok (attrs, used)) :
    ∃ i, attrs = el.attrs ++ [(TocTree.idKey, i)] ∧ NoCtl i := by
  unfold idStep at h
  rw [hno] at h
  simp only at h
  split at h
  · cases h
  · split at h
    · cases h
    · next slug hs =>
      injection h with h
      simp only [Prod.mk.injEq] at h
      exact ⟨_, h.1.symm, unique_noctl _ (slugify_noctl hs)⟩

theorem attrDel_tok {attrs : List (Str × Str)} (h : attrsTok attrs) (k : Str) : attrsTok (TocTree.attrDel attrs k) :=
  fun kv hkv => h kv (List.mem_filter.1 hkv).1

theorem nameStep_spec {env : TocTree.Env} (hp : PostOK env.post) {name0 : Str} (hn : NoCtl name0)
    {attrs : List (Str × Str)} (ha : attrsTok attrs) {name : Str} {attrs' : List (Str × Str)}
    (h : nameStep env name0 attrs = .ok (name, attrs')) : NoCtl name ∧ attrsTok attrs' := by
  unfold nameStep at h
  split at h
  · injection h with h
    simp only [Prod.mk.injEq] at h
    rw [← h.1, ← h.2]; exact ⟨hn, ha⟩
  · next lbl hl =>
    split at h
    · cases h
    · next u hu =>
      split at h
      · cases h
      · next l hpl =>
        injection h with h
        simp only [Prod.mk.injEq] at h
        rw [← h.1, ← h.2]
        simp only [Option.map_eq_some_iff] at hl
        obtain ⟨kv, hkv, rfl⟩ := hl
        have hw : WF true 0 kv.2 := (ha kv (List.mem_of_find?_eq_some hkv)).2
        exact ⟨escCdata_noctl (stripTags_noctl (hp _ (unescapeText_wf hw hu) _ hpl).strip), attrDel_tok ha _⟩

theorem heading_spec {env : TocTree.Env} (hp : PostOK env.post) {el : Node} (h : el.Forall FNodeX) {st : TocTree.St}
    (hst : ToksOK st) {attrs : List (Str × Str)} {st' : TocTree.St}
    (hr : TocTree.heading env el st = .ok (attrs, st')) : attrsTok attrs ∧ ToksOK st' := by
  rw [heading_eq] at hr
  have hser : (TocTree.rmFnNode el).Forall SerX := rmFnNode_serX el (Node.Forall.mono (fun _ => serX_of_fnodeX) el h)
  have hel : attrsTok el.attrs := ((Node.forall_def FNodeX el).1 h).1.2.1
  split at hr
  · cases hr
  · cases hr
  · cases hr
  · next inner hin =>
    have hname0 := stripTags_noctl (renderInner_noctl hp hser hin)
    split at hr
    · cases hr
    · cases hr
    · cases hr
    · next a1 used hid =>
      have ha1 := idStep_spec hel hid
      split at hr
      · cases hr
      · cases hr
      · cases hr
      · next name a2 hnm =>
        obtain ⟨hname, ha2⟩ := nameStep_spec hp hname0 ha1 hnm
        split at hr
        · cases hr
        · next tid htid =>
          injection hr with hr
          simp only [Prod.mk.injEq] at hr
          obtain ⟨rfl, rfl⟩ := hr
          refine ⟨ha2, ?_⟩
          have hidw : WF true 0 (((a2.find? (fun kv => kv.1 = TocTree.idKey)).map (·.2)).getD []) := by
            cases hf : a2.find? (fun kv => kv.1 = TocTree.idKey) with
            | none => exact .nil
            | some kv => exact (ha2 kv (List.mem_of_find?_eq_some hf)).2
          have htidn := unescapeText_wf hidw htid
          intro t ht
          rcases List.mem_append.1 ht with ht | ht
          · exact hst t ht
          · rw [List.mem_singleton.1 ht]; exact ⟨htidn, hname⟩

theorem nameStep_attrs {env : TocTree.Env} {name0 name : Str} {attrs attrs' : List (Str × Str)}
    (h : nameStep env name0 attrs = .ok (name, attrs')) :
    attrs' = attrs ∨ attrs' = TocTree.attrDel attrs TocTree.labelKey := by
  unfold nameStep at h
  split at h
  · injection h with h
    simp only [Prod.mk.injEq] at h
    exact .inl h.2.symm
  · split at h
    · cases h
    · split at h
      · cases h
      · injection h with h
        simp only [Prod.mk.injEq] at h
        exact .inr h.2.symm

theorem find_id_attrDel (attrs : List (Str × Str)) :
    (TocTree.attrDel attrs TocTree.labelKey).find? (fun kv => kv.1 = TocTree.idKey) =
      attrs.find? (fun kv => kv.1 = TocTree.idKey) := by
  unfold TocTree.attrDel
  rw [List.find?_filter]
  congr 1
  funext kv
  by_cases hk : kv.1 = TocTree.idKey
  · simp only [hk, decide_true]
    decide
  · simp [hk]

/-- a heading without `id` gets one, and it holds no STX/ETX — whatever the heading is -/
theorem heading_new_id {env : TocTree.Env} {el : Node} {st st' : TocTree.St} {attrs : List (Str × Str)}
    (hno : el.getAttr TocTree.idKey = none) (hr : TocTree.heading env el st = .ok (attrs, st')) :
    ∃ i, attrs.find? (fun kv => kv.1 = TocTree.idKey) = some (TocTree.idKey, i) ∧ NoCtl i := by
  rw [heading_eq] at hr
  split at hr
  · cases hr
  · cases hr
  · cases hr
  · split at hr
    · cases hr
    · cases hr
    · cases hr
    · next a1 used hid =>
      obtain ⟨i, rfl, hi⟩ := idStep_new_id hno hid
      have hfind : (el.attrs ++ [(TocTree.idKey, i)]).find? (fun kv => kv.1 = TocTree.idKey) =
          some (TocTree.idKey, i) := by
        have hn : el.attrs.find? (fun kv => kv.1 = TocTree.idKey) = none := by
          unfold Node.getAttr at hno
          simpa using hno
        rw [List.find?_append, hn]
        simp
      split at hr
      · cases hr
      · cases hr
      · cases hr
      · next name a2 hnm =>
        split at hr
        · cases hr
        · injection hr with hr
          simp only [Prod.mk.injEq] at hr
          obtain ⟨rfl, -⟩ := hr
          refine ⟨i, ?_, hi⟩
          rcases nameStep_attrs hnm with rfl | rfl
          · exact hfind
          · rw [find_id_attrDel]; exact hfind

mutual
theorem walkNode_spec {env : TocTree.Env} (hp : PostOK env.post) : ∀ (t : Node) (st : TocTree.St),
    t.Forall FNodeX → ToksOK st → ∀ {t' : Node} {st' : TocTree.St}, TocTree.walkNode env t st = .ok (t', st') →
      t'.Forall FNodeX ∧ ToksOK st'
  | ⟨tag, attrs, text, ta, children, tail, tla⟩, st, h, hst, t', st', hr => by
    have hfull := h
    simp only [Node.Forall] at h
    obtain ⟨⟨h1, h2, h3, h4, h5⟩, hk⟩ := h
    unfold TocTree.walkNode at hr
    simp only at hr
    have hhr : ∀ {a : List (Str × Str)} {s1 : TocTree.St},
        (if TocTree.isHeaderTag tag = true then
          TocTree.heading env ⟨tag, attrs, text, ta, children, tail, tla⟩ st else .ok (attrs, st)) = .ok (a, s1) →
        attrsTok a ∧ ToksOK s1 := by
      intro a s1 e
      split at e
      · exact heading_spec hp hfull hst e
      · injection e with e
        simp only [Prod.mk.injEq] at e
        rw [← e.1, ← e.2]; exact ⟨h2, hst⟩
    split at hr
    · cases hr
    · cases hr
    · cases hr
    · next a s1 e =>
      obtain ⟨ha, hs1⟩ := hhr e
      split at hr
      · cases hr
      · cases hr
      · cases hr
      · next ks s2 ek =>
        obtain ⟨hks, hs2⟩ := walkKids_spec hp children s1 hk hs1 ek
        injection hr with hr
        simp only [Prod.mk.injEq] at hr
        obtain ⟨rfl, rfl⟩ := hr
        simp only [Node.Forall]
        exact ⟨⟨⟨h1, ha, h3, h4, h5⟩, hks⟩, hs2⟩
theorem walkKids_spec {env : TocTree.Env} (hp : PostOK env.post) : ∀ (l : List Node) (st : TocTree.St),
    Node.ForallL FNodeX l → ToksOK st → ∀ {l' : List Node} {st' : TocTree.St},
      TocTree.walkKids env l st = .ok (l', st') → Node.ForallL FNodeX l' ∧ ToksOK st'
  | [], st, _, hst, l', st', hr => by
    unfold TocTree.walkKids at hr
    injection hr with hr
    simp only [Prod.mk.injEq] at hr
    obtain ⟨rfl, rfl⟩ := hr
    exact ⟨by simp [Node.ForallL], hst⟩
  | c :: r, st, h, hst, l', st', hr => by
    simp only [Node.ForallL] at h
    unfold TocTree.walkKids at hr
    split at hr
    · cases hr
    · cases hr
    · cases hr
    · next c' s1 ec =>
      obtain ⟨hc', hs1⟩ := walkNode_spec hp c st h.1 hst ec
      split at hr
      · cases hr
      · cases hr
      · cases hr
      · next r' s2 er =>
        obtain ⟨hr', hs2⟩ := walkKids_spec hp r s1 h.2 hs1 er
        injection hr with hr
        simp only [Prod.mk.injEq] at hr
        obtain ⟨rfl, rfl⟩ := hr
        simp only [Node.ForallL]
        exact ⟨⟨hc', hr'⟩, hs2⟩
end

/-! ## 6. the `div.toc` -/

private theorem fnode_lit (tag : String) (h : NoCtl tag.toList) (ks : List Node) (hk : Node.ForallL FNode ks) :
    ({ TocTree.el tag with children := ks } : Node).Forall FNode := by
  rw [Node.forall_def]
  refine ⟨⟨h, ?_, .nil, .nil, fun _ => noCtl_nil⟩, hk⟩
  intro kv hkv; cases hkv

mutual
theorem buildLi_fnode : ∀ tt : Toc.TokTree, (∀ t ∈ tt.flatten, TokOK t) → (TocTree.buildLi tt).Forall FNode
  | .mk t cs, h => by
    have ht : TokOK t := h t (by simp [Toc.TokTree.flatten])
    have hcs := buildLis_fnode cs (fun x hx => h x (by simp [Toc.TokTree.flatten, hx]))
    unfold TocTree.buildLi
    simp only
    have ha : ({ TocTree.el "a" with text := some t.name, attrs := [("href".toList, '#' :: t.id)] } : Node).Forall
        FNode := by
      rw [Node.forall_def]
      refine ⟨⟨(by decide : NoCtl "a".toList), ?_, .nil, WF.of_noCtl ht.2, fun _ => ht.2⟩,
        by simp [TocTree.el, Node.ForallL]⟩
      intro kv hkv
      rw [List.mem_singleton.1 hkv]
      exact ⟨(by decide : NoCtl "href".toList), noCtl_cons.2 ⟨by decide, ht.1⟩⟩
    apply fnode_lit "li" (by decide)
    simp only [Node.ForallL]
    refine ⟨ha, ?_⟩
    cases cs with
    | nil => simp [Node.ForallL]
    | cons c r =>
      simp only [Node.ForallL, and_true]
      exact fnode_lit "ul" (by decide) _ hcs
theorem buildLis_fnode : ∀ l : List Toc.TokTree, (∀ t ∈ Toc.flattenList l, TokOK t) →
    Node.ForallL FNode (TocTree.buildLis l)
  | [], _ => by simp [TocTree.buildLis, Node.ForallL]
  | c :: r, h => by
    unfold TocTree.buildLis
    simp only [Node.ForallL]
    exact ⟨buildLi_fnode c (fun x hx => h x (by simp [Toc.flattenList, hx])),
      buildLis_fnode r (fun x hx => h x (by simp [Toc.flattenList, hx]))⟩
end

theorem fnodeX_of_fnode' {n : Node} (h : FNode n) : FNodeX n :=
  ⟨h.1, fun kv hkv => ⟨(h.2.1 kv hkv).1, WF.of_noCtl (h.2.1 kv hkv).2⟩, h.2.2.1, h.2.2.2.1, h.2.2.2.2⟩

theorem buildDiv_fnodeX (bl : List Str) {toks : List Toc.Tok} (h : ∀ t ∈ toks, TokOK t) :
    (TocTree.buildDiv bl toks).Forall FNodeX := by
  unfold TocTree.buildDiv
  refine Node.Forall.mono (fun _ => fnodeX_of_fnode') _ (prettify_fnode ?_ bl)
  rw [Node.forall_def]
  refine ⟨⟨(by decide : NoCtl "div".toList), ?_, .nil, .nil, fun _ => noCtl_nil⟩, ?_⟩
  · intro kv hkv
    rw [List.mem_singleton.1 hkv]
    exact ⟨(by decide : NoCtl "class".toList), (by decide : NoCtl "toc".toList)⟩
  · simp only [Node.ForallL, and_true]
    unfold TocTree.buildUl
    exact fnode_lit "ul" (by decide) _ (buildLis_fnode _ (by rw [Toc.nestToc_flatten]; exact h))

/-! ## 7. the marker replacement, `run` -/

mutual
theorem replNode_fnodeX {div : Node} (hd : div.Forall FNodeX) : ∀ t : Node, t.Forall FNodeX →
    (TocTree.replNode div t).Forall FNodeX
  | ⟨tag, attrs, text, ta, children, tail, tla⟩, h => by
    simp only [Node.Forall] at h
    unfold TocTree.replNode
    simp only [Node.Forall]
    exact ⟨h.1, replKids_fnodeX hd children h.2⟩
theorem replKids_fnodeX {div : Node} (hd : div.Forall FNodeX) : ∀ l : List Node, Node.ForallL FNodeX l →
    Node.ForallL FNodeX (TocTree.replKids div l)
  | [], _ => by simp [TocTree.replKids, Node.ForallL]
  | c :: r, h => by
    simp only [Node.ForallL] at h
    have ihr := replKids_fnodeX hd r h.2
    unfold TocTree.replKids
    split
    · simp only [Node.ForallL]; exact ⟨h.1, ihr⟩
    · split
      · simp only [Node.ForallL]; exact ⟨hd, ihr⟩
      · simp only [Node.ForallL]; exact ⟨replNode_fnodeX hd c h.1, ihr⟩
end

/-- `TocTreeprocessor.run` keeps the invariant of the late tree processors: escape tokens only, none in `code` text,
    names without STX/ETX -/
theorem toc_run_fnodeX {fmt : Ser.Fmt} {post : Str → Option Str} {bl : List Str} {t t' : Node}
    (h : t.Forall FNodeX) (hr : TocTree.run { fmt := fmt, post := post } bl t = .ok t')
    (hp : ∀ s, NoCtl s → ∀ o, post s = some o → NoCtl o) : t'.Forall FNodeX := by
  unfold TocTree.run at hr
  split at hr
  · cases hr
  · next used _ =>
    split at hr
    · cases hr
    · cases hr
    · cases hr
    · next root' st hw =>
      injection hr with hr
      subst hr
      have hst0 : ToksOK { used := used, toks := [] } := fun t ht => by cases ht
      obtain ⟨hroot, hst⟩ := walkNode_spec (env := { fmt := fmt, post := post }) hp t _ h hst0 hw
      exact replNode_fnodeX (buildDiv_fnodeX bl hst) root' hroot

/-! ## 8. the postprocessors -/

/-- the postprocessors with an empty raw-HTML stash keep `NoCtl` -/
theorem postX_noctl (x : PipelineX.Exts) (cfg : Pipeline.Cfg) : PostOK (PipelineX.postX x cfg []) := by
  intro s hs o ho
  unfold PipelineX.postX at ho
  have e : Post.rawHtml cfg.blockLevel [] (Post.rawHtmlFuel []) s = some s := rfl
  rw [e] at ho
  simp only [Option.map_some, Option.some.injEq] at ho
  subst ho
  apply ampSub_noctl
  split
  · rw [noCtl_iff] at hs ⊢
    intro c hc
    rcases mem_postprocess hc with hc | hc
    · exact hs c hc
    · exact (by decide : ∀ c ∈ "&#8617;160".toList, c ≠ STX ∧ c ≠ ETX) c hc
  · exact hs

/-! ## 9. a tree with escape tokens that satisfies the hypothesis (used by the examples of `Props/C10XToc.lean`) -/

/-- `[TOC]`, a heading `a \* b` with `data-toc-label="L \_"` and `title="\#"` (attr_list), a heading with a code span -/
def exTocTree : Node :=
  { tag := .name "div".toList, children := [
      { tag := .name "p".toList, text := some "[TOC]".toList, tail := some "\n".toList },
      { tag := .name "h1".toList, text := some ("a ".toList ++ escToken 42 ++ " b".toList),
        attrs := [("data-toc-label".toList, "L ".toList ++ escToken 95), ("title".toList, escToken 35)],
        tail := some "\n".toList },
      { tag := .name "h2".toList, text := some "c ".toList,
        children := [{ tag := .name "code".toList, text := some "d".toList, textAtomic := true }] }] }

theorem exTocTree_fnodeX : exTocTree.Forall FNodeX := by
  have w42 : WF true 0 ("a ".toList ++ escToken 42 ++ " b".toList) :=
    ((WF.of_noCtl (by decide)).append (wf_escToken (by decide))).append (WF.of_noCtl (by decide))
  have w95 : WF true 0 ("L ".toList ++ escToken 95) := (WF.of_noCtl (by decide)).append (wf_escToken (by decide))
  have w35 : WF true 0 (escToken 35) := wf_escToken (by decide)
  have hno : ∀ kv ∈ ([] : List (Str × Str)), NoCtl kv.1 ∧ WF true 0 kv.2 := fun _ h => by cases h
  simp only [exTocTree, Node.Forall, Node.ForallL, and_true]
  refine ⟨⟨(by decide : NoCtl "div".toList), hno, .nil, .nil, fun _ => noCtl_nil⟩,
    ⟨(by decide : NoCtl "p".toList), hno, WF.of_noCtl (by decide : NoCtl "\n".toList),
      WF.of_noCtl (by decide : NoCtl "[TOC]".toList), fun _ => (by decide : NoCtl "[TOC]".toList)⟩,
    ⟨(by decide : NoCtl "h1".toList), ?_, WF.of_noCtl (by decide : NoCtl "\n".toList), w42, fun h => absurd h (by decide)⟩,
    ⟨(by decide : NoCtl "h2".toList), hno, .nil, WF.of_noCtl (by decide : NoCtl "c ".toList),
      fun _ => (by decide : NoCtl "c ".toList)⟩,
    ⟨(by decide : NoCtl "code".toList), hno, .nil, WF.of_noCtl (by decide : NoCtl "d".toList),
      fun _ => (by decide : NoCtl "d".toList)⟩⟩
  intro kv hkv
  simp only [List.mem_cons, List.not_mem_nil, or_false] at hkv
  rcases hkv with rfl | rfl
  · exact ⟨(by decide : NoCtl "data-toc-label".toList), w95⟩
  · exact ⟨(by decide : NoCtl "title".toList), w35⟩

/-- the answer of a tree processor shown serialised -/
def tocShow (r : TocTree.R Node) : Option Str :=
  match r with
  | .ok t => some (Ser.serialize .xhtml t)
  | _ => none

end MdVerif.NoCtlX
