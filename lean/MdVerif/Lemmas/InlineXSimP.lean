/-
A dead pattern in the inline pattern table, for an invariant `Sep Ok N` of the texts (`Lemmas/InlineXInvP*.lean`)
instead of "the character `c` does not occur" (`Lemmas/InlineXSim.lean`, whose index bookkeeping `sh`, `IdxRel` is
reused): `xc2` is `xc1` with one more entry `dead` at position `p`; `dead` finds nothing on `Ok` texts; `xc1` has
no wikilink pattern.  Then whatever `runX xc1` answers on an `Ok` tree, `runX xc2` answers (`runX_simP`).
Core Lean only.
-/
import MdVerif.Lemmas.InlineXInvP4
import MdVerif.Lemmas.InlineXSim

namespace MdVerif.InlineX
open Py Inline

variable {G : Prop} {Ok : Str → Prop} {N : Char → Prop} {xc1 xc2 : XCfg} {p : Nat}

/-- the nested `__handleInline` of the run with the longer table follows that of the run with the shorter one -/
def HISP (G : Prop) (Ok : Str → Prop) (N : Char → Prop) (p : Nat) (hi1 hi2 : HIX) : Prop :=
  ∀ d p1 p2 x r, IdxRel p p1 p2 → (G → Ok d) → (G → StashP Ok N x.st.stash) → hi1 d p1 x = some r → hi2 d p2 x = some r

theorem hiOptX_simP (hs : G → Sep Ok N) {hi1 hi2 : HIX} (hg : HISP G Ok N p hi1 hi2) (t : Option Str) (atomic : Bool) {p1 p2 : Nat}
    (hr : IdxRel p p1 p2) (x : XSt) (ht : G → OptP Ok t) (hx : G → StashP Ok N x.st.stash) {r : Option Str × XSt}
    (h : hiOptX hi1 t atomic p1 x = some r) : hiOptX hi2 t atomic p2 x = some r := by
  simp only [hiOptX] at h ⊢
  split
  · rename_i hc
    rw [if_pos hc] at h
    have hd : G → Ok (t.getD []) := by
      intro g
      cases t with
      | none => exact (hs g).nil
      | some s => exact ht g s rfl
    cases hh : hi1 (t.getD []) p1 x with
    | none => rw [hh] at h; cases h
    | some q =>
      rw [hg _ _ _ _ _ hr hd hx hh]
      rw [hh] at h
      exact h
  · rename_i hc
    rw [if_neg hc] at h
    exact h

theorem hiNodeX_simP (hs : G → Sep Ok N) {hi1 hi2 : HIX} (hg : HISP G Ok N p hi1 hi2) (hg1 : G → HIP Ok N hi1) (pi : Nat) (n : Node)
    (x : XSt) (hn : G → DeepP Ok n) (hx : G → StashP Ok N x.st.stash) {r : Node × XSt}
    (h : hiNodeX hi1 pi n x = some r) : hiNodeX hi2 (sh p pi) n x = some r := by
  simp only [hiNodeX] at h ⊢
  cases h1 : hiOptX hi1 n.text n.textAtomic (pi + 1) x with
  | none => rw [h1] at h; cases h
  | some r1 =>
    obtain ⟨t, x1⟩ := r1
    rw [h1] at h
    rw [hiOptX_simP hs hg _ _ idxRel_succ x (fun g => ((DeepP_iff n).mp (hn g)).1) hx h1]
    simp only [] at h ⊢
    have hx1 : G → StashP Ok N x1.st.stash := fun g =>
      (hiOptX_P (hs g) (hg1 g) _ _ _ _ ((DeepP_iff n).mp (hn g)).1 (hx g) h1).2.1
    cases h2 : hiOptX hi1 n.tail n.tailAtomic pi x1 with
    | none => rw [h2] at h; cases h
    | some r2 =>
      rw [h2] at h
      rw [hiOptX_simP hs hg _ _ (Or.inl rfl) x1 (fun g => ((DeepP_iff n).mp (hn g)).2.1) hx1 h2]
      exact h

theorem hiNodesX_simP (hs : G → Sep Ok N) {hi1 hi2 : HIX} (hg : HISP G Ok N p hi1 hi2) (hg1 : G → HIP Ok N hi1) (pi : Nat) :
    ∀ (l : List Node) (x : XSt), (G → ∀ n ∈ l, DeepP Ok n) → (G → StashP Ok N x.st.stash) →
      ∀ {r : List Node × XSt}, hiNodesX hi1 pi l x = some r → hiNodesX hi2 (sh p pi) l x = some r := by
  intro l
  induction l with
  | nil => intro x _ _ r h; simpa only [hiNodesX] using h
  | cons n rest ih =>
    intro x hl hx r h
    simp only [hiNodesX] at h ⊢
    cases h1 : hiNodeX hi1 pi n x with
    | none => rw [h1] at h; cases h
    | some r1 =>
      obtain ⟨n', x1⟩ := r1
      rw [h1] at h
      rw [hiNodeX_simP hs hg hg1 pi n x (fun g => hl g n List.mem_cons_self) hx h1]
      simp only [] at h ⊢
      have hx1 : G → StashP Ok N x1.st.stash := fun g =>
        (hiNodeX_P (hs g) (hg1 g) pi n x (hl g n List.mem_cons_self) (hx g) h1).2.1
      cases h2 : hiNodesX hi1 pi rest x1 with
      | none => rw [h2] at h; cases h
      | some r2 =>
        rw [h2] at h
        rw [ih x1 (fun g m hm => hl g m (List.mem_cons_of_mem _ hm)) hx1 h2]
        exact h

section sim
variable (hs : G → Sep Ok N) (hnw : ∀ k ∈ xc1.table, k ≠ PatK.wikilink)
  (htab : ∀ i, xc2.table[sh p i]? = xc1.table[i]?)
  (hfind : ∀ k data si x, findX xc1 k data si x = findX xc2 k data si x)
include hs hnw htab hfind

theorem applyPatternX_simP {hi1 hi2 : HIX} (hg : HISP G Ok N p hi1 hi2) (hg1 : G → HIP Ok N hi1) (pi : Nat) (data : Str)
    (si : Nat) (x : XSt) (hd : G → Ok data) (hx : G → StashP Ok N x.st.stash) {r : Str × Bool × Nat × XSt}
    (h : applyPatternX xc1 hi1 pi data si x = some r) : applyPatternX xc2 hi2 (sh p pi) data si x = some r := by
  simp only [applyPatternX, htab] at h ⊢
  cases hk : xc1.table[pi]? with
  | none => rw [hk] at h; exact h
  | some k =>
    rw [hk] at h
    have hkw : k ≠ PatK.wikilink := hnw k (List.mem_of_getElem? hk)
    simp only [] at h ⊢
    rw [← hfind]
    cases hf : findX xc1 k data si x with
    | none => rw [hf] at h; cases h
    | some q =>
      obtain ⟨fo, x0⟩ := q
      rw [hf] at h
      have hx0 : G → StashP Ok N x0.st.stash := fun g =>
        (findX_invP (hs g) xc1 k hkw data si x (hd g) hf).1 ▸ hx g
      cases fo with
      | none => exact h
      | some f =>
        have hF : G → FoundP Ok N f := fun g => (findX_invP (hs g) xc1 k hkw data si x (hd g) hf).2 f rfl
        simp only [] at h ⊢
        cases hnode : f.node with
        | none => rw [hnode] at h; exact h
        | str s => rw [hnode] at h; exact h
        | el n =>
          rw [hnode] at h
          have hnD : G → DeepP Ok n := fun g => by
            have := hF g
            simp only [FoundP, hnode] at this
            exact this.1
          simp only [] at h ⊢
          by_cases hat : (n.text.isSome && n.textAtomic) = true
          · simp only [hat, if_true] at h ⊢
            exact h
          · simp only [hat, Bool.false_eq_true, if_false] at h ⊢
            have hn0 : G → DeepP Ok { n with children := [] } := fun g =>
              DeepP_children [] (hnD g) (by intro k hk; cases hk)
            cases h1 : hiNodeX hi1 pi { n with children := [] } x0 with
            | none => rw [h1] at h; cases h
            | some r1 =>
              obtain ⟨n1, x1⟩ := r1
              rw [h1] at h
              rw [hiNodeX_simP hs hg hg1 pi _ x0 hn0 hx0 h1]
              simp only [] at h ⊢
              have hx1 : G → StashP Ok N x1.st.stash := fun g =>
                (hiNodeX_P (hs g) (hg1 g) pi _ x0 (hn0 g) (hx0 g) h1).2.1
              cases h2 : hiNodesX hi1 pi n.children x1 with
              | none => rw [h2] at h; cases h
              | some r2 =>
                rw [h2] at h
                rw [hiNodesX_simP hs hg hg1 pi n.children x1 (fun g => DeepP_kids (hnD g)) hx1 h2]
                exact h

omit hs hnw htab hfind in
/-- a pattern that did not match hands `startIndex = 0` on -/
theorem applyPatternX_nomatchP {xc : XCfg} {hi : HIX} {pi : Nat} {data : Str} {si : Nat} {x : XSt} {d : Str}
    {si' : Nat} {x' : XSt} (h : applyPatternX xc hi pi data si x = some (d, false, si', x')) : si' = 0 := by
  simp only [applyPatternX] at h
  split at h
  · injection h with h; injection h with _ h; injection h with _ h; injection h with h _; exact h.symm
  · split at h
    · cases h
    · injection h with h; injection h with _ h; injection h with _ h; injection h with h _; exact h.symm
    · split at h
      · injection h with h; injection h with _ h; injection h with h _; cases h
      · simp only [stashX] at h
        injection h with h; injection h with _ h; injection h with h _; cases h
      · split at h
        · cases h
        · simp only [stashX] at h
          injection h with h; injection h with _ h; injection h with h _; cases h

end sim

/-- the `while patternIndex < count` loops: `ap2` has the dead entry at `p` -/
theorem hiLoopX_simP {ap1 ap2 : Nat → Str → Nat → XSt → Option (Str × Bool × Nat × XSt)} (n : Nat) (hp : p ≤ n)
    (hap : ∀ pi data si x r, (G → Ok data) → (G → StashP Ok N x.st.stash) → ap1 pi data si x = some r →
      ap2 (sh p pi) data si x = some r)
    (hinv : ∀ pi data si x d m si' x', (G → Ok data) → (G → StashP Ok N x.st.stash) →
      ap1 pi data si x = some (d, m, si', x') → (G → Ok d) ∧ (G → StashP Ok N x'.st.stash) ∧ (m = false → si' = 0))
    (hdead : ∀ data si x, (G → Ok data) → (G → StashP Ok N x.st.stash) → ap2 p data si x = some (data, false, 0, x)) :
    ∀ (g1 g2 : Nat) (data : Str) (pi1 pi2 si : Nat) (x : XSt) (r : Str × XSt),
      (G → Ok data) → (G → StashP Ok N x.st.stash) →
      ((pi2 = sh p pi1 ∧ g1 + (if pi1 < p then 1 else 0) ≤ g2) ∨ (pi1 = p ∧ pi2 = p ∧ si = 0 ∧ g1 + 1 ≤ g2)) →
      hiLoopX n ap1 g1 data pi1 si x = some r → hiLoopX (n + 1) ap2 g2 data pi2 si x = some r := by
  intro g1
  induction g1 with
  | zero => intro g2 data pi1 pi2 si x r _ _ _ h; simp only [hiLoopX] at h; cases h
  | succ g1 ih =>
    have caseA : ∀ (g2 : Nat) (data : Str) (pi1 si : Nat) (x : XSt) (r : Str × XSt),
        (G → Ok data) → (G → StashP Ok N x.st.stash) → g1 + 1 + (if pi1 < p then 1 else 0) ≤ g2 →
        hiLoopX n ap1 (g1 + 1) data pi1 si x = some r → hiLoopX (n + 1) ap2 g2 data (sh p pi1) si x = some r := by
      intro g2 data pi1 si x r hd hx hfuel h
      cases g2 with
      | zero => omega
      | succ g2 =>
        unfold hiLoopX at h ⊢
        by_cases hlt : pi1 < n
        · have hlt2 : sh p pi1 < n + 1 := by unfold sh; split <;> omega
          rw [if_pos hlt] at h
          rw [if_pos hlt2]
          cases h1 : ap1 pi1 data si x with
          | none => rw [h1] at h; cases h
          | some q =>
            obtain ⟨d, m, si', x'⟩ := q
            rw [h1] at h
            rw [hap _ _ _ _ _ hd hx h1]
            simp only [] at h ⊢
            obtain ⟨hd', hx', hm0⟩ := hinv _ _ _ _ _ _ _ _ hd hx h1
            cases m with
            | true =>
              simp only [if_true] at h ⊢
              exact ih g2 d pi1 (sh p pi1) si' x' r hd' hx' (Or.inl ⟨rfl, by omega⟩) h
            | false =>
              simp only [Bool.false_eq_true, if_false] at h ⊢
              have hsi : si' = 0 := hm0 rfl
              apply ih g2 d (pi1 + 1) (sh p pi1 + 1) si' x' r hd' hx' ?_ h
              rcases (idxRel_succ (p := p) (i := pi1)) with hr | hr
              · left
                refine ⟨hr, ?_⟩
                unfold sh at hr
                split at hfuel <;> split <;> omega
              · right
                refine ⟨hr.1, hr.2, hsi, ?_⟩
                have : pi1 < p := by omega
                rw [if_pos this] at hfuel
                omega
        · have hlt2 : ¬ sh p pi1 < n + 1 := by unfold sh; split <;> omega
          rw [if_neg hlt] at h
          rw [if_neg hlt2]
          exact h
    intro g2 data pi1 pi2 si x r hd hx hrel h
    rcases hrel with ⟨hpi, hfuel⟩ | ⟨h1, h2, hsi, hfuel⟩
    · subst hpi
      exact caseA g2 data pi1 si x r hd hx hfuel h
    · rw [h1, hsi] at h
      rw [h2, hsi]
      cases g2 with
      | zero => omega
      | succ g2 =>
        have := caseA g2 data p 0 x r hd hx (by rw [if_neg (Nat.lt_irrefl _)]; omega) h
        unfold hiLoopX
        rw [if_pos (by omega), hdead data 0 x hd hx]
        simp only [Bool.false_eq_true, if_false]
        have hsh : sh p p = p + 1 := by unfold sh; rw [if_neg (Nat.lt_irrefl _)]
        rw [hsh] at this
        exact this

theorem loopFuelX_succP (n len : Nat) : loopFuelX n len + 1 ≤ loopFuelX (n + 1) len := by
  unfold loopFuelX
  have h1 : (n + 1) * (len + 2) * (len + 2) = n * (len + 2) * (len + 2) + (len + 2) * (len + 2) := by
    rw [Nat.add_mul, Nat.add_mul, Nat.one_mul]
  rw [h1]
  have h2 : 1 ≤ (len + 2) * (len + 2) := Nat.mul_pos (by omega) (by omega)
  omega

section sim2
variable (hs : G → Sep Ok N) (hnw : ∀ k ∈ xc1.table, k ≠ PatK.wikilink)
  (htab : ∀ i, xc2.table[sh p i]? = xc1.table[i]?)
  (hfind : ∀ k data si x, findX xc1 k data si x = findX xc2 k data si x)
  (hp : p ≤ xc1.table.length) (hlen : xc2.table.length = xc1.table.length + 1)
  {dead : PatK} (hdeadAt : xc2.table[p]? = some dead)
  (hdead : ∀ data si x, (G → Ok data) → (G → StashP Ok N x.st.stash) → findX xc2 dead data si x = some (none, x))
include hs hnw htab hfind hp hlen hdeadAt hdead

theorem handleInlineX_simP : ∀ f1 f2, f1 ≤ f2 → HISP G Ok N p (handleInlineX xc1 f1) (handleInlineX xc2 f2) := by
  intro f1
  induction f1 with
  | zero => intro f2 _ d p1 p2 x r _ _ _ h; simp only [handleInlineX] at h; cases h
  | succ f1 ih =>
    intro f2 hf d p1 p2 x r hrel hd hx h
    cases f2 with
    | zero => omega
    | succ f2 =>
      simp only [handleInlineX, hlen] at h ⊢
      have hself : G → HIP Ok N (handleInlineX xc1 f1) := fun g =>
        handleInlineX_P (hs g) xc1 hnw f1
      refine hiLoopX_simP (G := G) (Ok := Ok) (N := N) (p := p) xc1.table.length hp ?_ ?_ ?_ _ _ d p1 p2 0 x r hd hx ?_ h
      · intro pi data si x r hd hx h
        exact applyPatternX_simP hs hnw htab hfind (ih f2 (by omega)) hself pi data si x hd hx h
      · intro pi data si x d' m si' x' hd hx h
        refine ⟨fun g => ?_, fun g => ?_, ?_⟩
        · exact (applyPatternX_P (hs g) xc1 hnw (hself g) pi data si x (hd g) (hx g) h).1
        · exact (applyPatternX_P (hs g) xc1 hnw (hself g) pi data si x (hd g) (hx g) h).2
        · intro hm
          subst hm
          exact applyPatternX_nomatchP h
      · intro data si x hd hx
        simp only [applyPatternX, hdeadAt, hdead data si x hd hx]
      · have hfuel := loopFuelX_succP xc1.table.length d.length
        rcases hrel with hr | ⟨h1, h2⟩
        · left
          refine ⟨hr, ?_⟩
          split <;> omega
        · right
          exact ⟨h1, h2, rfl, hfuel⟩

theorem handleInlineTopX_simP (data : Str) (x : XSt) (hd : G → Ok data) (hx : G → StashP Ok N x.st.stash)
    {r : Str × XSt} (h : handleInlineTopX xc1 data x = some r) : handleInlineTopX xc2 data x = some r := by
  simp only [handleInlineTopX, hlen] at h ⊢
  exact handleInlineX_simP hs hnw htab hfind hp hlen hdeadAt hdead _ _ (by omega) data 0 0 x r idxRel_zero hd hx h

theorem textStageX_simP (child : Node) (x : XSt) (hch : G → DeepP Ok child) (hx : G → StashP Ok N x.st.stash)
    {r : Node × List Node × XSt} (h : textStageX xc1 child x = some r) : textStageX xc2 child x = some r := by
  simp only [textStageX] at h ⊢
  split
  · rename_i hc
    rw [if_pos hc] at h
    cases hh : handleInlineTopX xc1 (child.text.getD []) x with
    | none => rw [hh] at h; cases h
    | some q =>
      rw [handleInlineTopX_simP hs hnw htab hfind hp hlen hdeadAt hdead _ x (fun g => okP_text (hs g) (hch g)) hx hh]
      rw [hh] at h
      exact h
  · rename_i hc
    rw [if_neg hc] at h
    exact h

theorem tailStageX_simP (c1 : Node) (x1 : XSt) (hc1 : G → DeepP Ok c1) (hx1 : G → StashP Ok N x1.st.stash)
    {r : Node × List Node × XSt} (h : tailStageX xc1 c1 x1 = some r) : tailStageX xc2 c1 x1 = some r := by
  simp only [tailStageX] at h ⊢
  split
  · rename_i hc
    rw [if_pos hc] at h
    by_cases hat : c1.tailAtomic = true
    · rw [if_pos hat] at h ⊢
      exact h
    · rw [if_neg hat] at h ⊢
      cases hh : handleInlineTopX xc1 (c1.tail.getD []) x1 with
      | none => rw [hh] at h; simp only [tailFinish] at h; cases h
      | some q =>
        rw [handleInlineTopX_simP hs hnw htab hfind hp hlen hdeadAt hdead _ x1 (fun g => okP_tail (hs g) (hc1 g)) hx1 hh]
        rw [hh] at h
        exact h
  · rename_i hc
    rw [if_neg hc] at h
    exact h

theorem visitChildX_simP (child : Node) (v : VisitX) (hch : G → DeepP Ok child) (hv : G → StashP Ok N v.x.st.stash)
    {r : Node × List Node × VisitX} (h : visitChildX xc1 child v = some r) : visitChildX xc2 child v = some r := by
  rw [visitChildX_stages] at h ⊢
  cases h1 : textStageX xc1 child v.x with
  | none => rw [h1] at h; cases h
  | some r1 =>
    obtain ⟨c1, lst, x1⟩ := r1
    rw [h1] at h
    rw [textStageX_simP hs hnw htab hfind hp hlen hdeadAt hdead child v.x hch hv h1]
    simp only [] at h ⊢
    have hinv : G → DeepP Ok c1 ∧ (∀ n ∈ lst, DeepP Ok n) ∧ StashP Ok N x1.st.stash := fun g =>
      textStageX_P (hs g) xc1 hnw child v.x (hch g) (hv g) h1
    cases h2 : tailStageX xc1 c1 x1 with
    | none => rw [h2] at h; cases h
    | some r2 =>
      rw [h2] at h
      rw [tailStageX_simP hs hnw htab hfind hp hlen hdeadAt hdead c1 x1 (fun g => (hinv g).1) (fun g => (hinv g).2.2) h2]
      exact h

theorem visitLoopX_simP : ∀ (g : Nat) (todo : List (Node × Option Nat)) (v : VisitX),
    (G → ∀ t ∈ todo, DeepP Ok t.1) → (G → ∀ n ∈ v.done, DeepP Ok n) → (G → StashP Ok N v.x.st.stash) →
    ∀ {r : VisitX}, visitLoopX xc1 g todo v = some r → visitLoopX xc2 g todo v = some r := by
  intro g
  induction g with
  | zero => intro todo v _ _ _ r h; simp only [visitLoopX] at h; cases h
  | succ g ih =>
    intro todo v ht hdone hv r h
    cases todo with
    | nil => simpa only [visitLoopX] using h
    | cons hd todo =>
      obtain ⟨child, orig⟩ := hd
      simp only [visitLoopX] at h ⊢
      cases h1 : visitChildX xc1 child v with
      | none => rw [h1] at h; cases h
      | some q =>
        obtain ⟨k, tr, v1⟩ := q
        rw [h1] at h
        rw [visitChildX_simP hs hnw htab hfind hp hlen hdeadAt hdead child v
          (fun g => ht g (child, orig) List.mem_cons_self) hv h1]
        simp only [] at h ⊢
        -- the invariants of the next state: from the loop lemma of the shorter run, one step
        have hstep : G → (DeepP Ok k ∧ (∀ n ∈ tr, DeepP Ok n) ∧ StashP Ok N v1.x.st.stash) := fun g => ⟨
          (visitChildX_P (hs g) xc1 hnw child v (ht g (child, orig) List.mem_cons_self) (hv g) h1).1,
            (visitChildX_P (hs g) xc1 hnw child v (ht g (child, orig) List.mem_cons_self) (hv g) h1).2.1,
            (visitChildX_P (hs g) xc1 hnw child v (ht g (child, orig) List.mem_cons_self) (hv g) h1).2.2.1⟩
        have hd1 : v1.done = v.done := by
          rw [visitChildX_stages] at h1
          cases ht1 : textStageX xc1 child v.x with
          | none => rw [ht1] at h1; cases h1
          | some r1 =>
            obtain ⟨a, b, x1⟩ := r1
            rw [ht1] at h1
            simp only [] at h1
            cases ht2 : tailStageX xc1 a x1 with
            | none => rw [ht2] at h1; cases h1
            | some r2 =>
              obtain ⟨a2, b2, x2⟩ := r2
              rw [ht2] at h1
              injection h1 with h1
              injection h1 with _ h1
              injection h1 with _ h1
              rw [← h1]
        apply ih _ _ ?_ ?_ ?_ h
        · intro g t htm
          rcases List.mem_append.mp htm with htm | htm
          · obtain ⟨n, hn, rfl⟩ := List.mem_map.mp htm
            exact (hstep g).2.1 n hn
          · exact ht g t (List.mem_cons_of_mem _ htm)
        · intro g n hn
          rcases List.mem_cons.mp hn with hn | hn
          · exact hn ▸ (hstep g).1
          · exact hdone g n (hd1 ▸ hn)
        · exact fun g => (hstep g).2.2

theorem runLoopX_simP (g2 : Nat) : ∀ (g : Nat) (root : Node) (stack : List Path) (x : XSt),
    (G → DeepP Ok root) → (G → StashP Ok N x.st.stash) →
    ∀ {r : Node × XSt}, runLoopX xc1 g2 g root stack x = some r → runLoopX xc2 g2 g root stack x = some r := by
  intro g
  induction g with
  | zero => intro root stack x _ _ r h; simp only [runLoopX] at h; cases h
  | succ g ih =>
    intro root stack x hr hx r h
    cases stack with
    | nil => simpa only [runLoopX] using h
    | cons pth stack =>
      simp only [runLoopX] at h ⊢
      cases hg : getAt root pth with
      | none =>
        rw [hg] at h
        exact ih _ _ _ hr hx h
      | some cur =>
        rw [hg] at h
        simp only [] at h ⊢
        have hcur : G → DeepP Ok cur := fun g => getAt_deepP pth (hr g) hg
        cases hv : visitLoopX xc1 g2 (withIdx cur.children 0) { x := x } with
        | none => rw [hv] at h; cases h
        | some v =>
          rw [hv] at h
          rw [visitLoopX_simP hs hnw htab hfind hp hlen hdeadAt hdead g2 (withIdx cur.children 0) { x := x }
            (fun g => withIdx_deepP _ 0 (DeepP_kids (hcur g))) (fun _ n hn => by cases hn) hx hv]
          simp only [] at h ⊢
          have hinv : G → (∀ n ∈ v.done, DeepP Ok n) ∧ StashP Ok N v.x.st.stash := fun g =>
            visitLoopX_P (hs g) xc1 hnw g2 (withIdx cur.children 0) { x := x }
              (withIdx_deepP _ 0 (DeepP_kids (hcur g))) (by intro n hn; cases hn) (hx g) hv
          apply ih _ _ _ ?_ (fun g => (hinv g).2) h
          intro g
          apply setAt_deepP pth (hr g)
          apply DeepP_children _ (hcur g)
          intro n hn
          exact (hinv g).1 n (List.mem_reverse.mp hn)

/-- whatever the run with the shorter table answers, the run with the dead entry answers -/
theorem runX_simP (tree : Node) (html : List Str) (ht : G → DeepP Ok tree) {r : Node × XSt}
    (h : runX xc1 tree html = some r) : runX xc2 tree html = some r := by
  simp only [runX] at h ⊢
  exact runLoopX_simP hs hnw htab hfind hp hlen hdeadAt hdead _ _ tree [[]] { st := { html := html } } ht
    (fun _ it hit => by cases hit) h

end sim2

end MdVerif.InlineX
