/-
Helper lemmas for C12 (`Props/C12.lean`): a thread of the small-step model of `Model/Threads.lean` behaves, under
every schedule, like the thread on its own (`localRun`), as long as the memo cells hold `none` or `some (f k)`.
Core Lean only.
-/
import MdVerif.Model.Threads

namespace MdVerif.Threads

variable {K V Out σ : Type} [DecidableEq K]

/-! ### one step -/

section Atomic
variable (prog : σ → Action K V Out σ) (f : K → V)

theorem memoValid_setCell {sh : Shared K V} (hv : MemoValid f sh) (k : K) :
    MemoValid f { sh with memo := setCell sh.memo k (some (f k)) } := by
  intro k' v h
  simp only [setCell] at h
  split at h
  · subst_vars; exact (Option.some.inj h).symm
  · exact hv k' v h

/-- under a valid memo a step of a thread is the step of the thread on its own; `ro` does not change and the memo
    stays valid -/
theorem stepThread_spec (t : Thread σ Out) (sh : Shared K V) (hv : MemoValid f sh) :
    (stepThread prog f t sh).1 = localStep prog f sh.ro t ∧ (stepThread prog f t sh).2.ro = sh.ro ∧
      MemoValid f (stepThread prog f t sh).2 := by
  cases h : prog t.st with
  | getMemo k c =>
    cases hm : sh.memo k with
    | none =>
      simp only [stepThread, localStep, h, hm]
      exact ⟨trivial, trivial, memoValid_setCell f hv k⟩
    | some v =>
      simp only [stepThread, localStep, h, hm, hv k v hm]
      exact ⟨trivial, trivial, hv⟩
  | _ =>
    simp only [stepThread, localStep, h]
    exact ⟨trivial, trivial, hv⟩

theorem stepSys_spec (j : Nat) (sys : Sys K V σ Out) (hv : MemoValid f sys.shared) :
    (stepSys prog f j sys).shared.ro = sys.shared.ro ∧ MemoValid f (stepSys prog f j sys).shared ∧
      ∀ i, (stepSys prog f j sys).threads[i]? =
        if j = i then (sys.threads[i]?).map (localStep prog f sys.shared.ro) else sys.threads[i]? := by
  unfold stepSys
  cases h : sys.threads[j]? with
  | none =>
    refine ⟨rfl, hv, fun i => ?_⟩
    by_cases hji : j = i
    · subst hji; simp [h]
    · simp [hji]
  | some t =>
    have hs := stepThread_spec prog f t sys.shared hv
    refine ⟨hs.2.1, hs.2.2, fun i => ?_⟩
    simp only [List.getElem?_set]
    by_cases hji : j = i
    · subst hji
      obtain ⟨hlt, rfl⟩ := List.getElem?_eq_some_iff.mp h
      simp [hlt, hs.1]
    · simp [hji]

/-! ### `localRun` -/

omit [DecidableEq K] in
theorem localStep_of_done (ro : K → V) (t : Thread σ Out) (h : isDone prog t = true) :
    localStep prog f ro t = t := by
  unfold isDone at h; unfold localStep
  cases h' : prog t.st <;> simp_all

omit [DecidableEq K] in
theorem localRun_of_done (ro : K → V) (n : Nat) (t : Thread σ Out) (h : isDone prog t = true) :
    localRun prog f ro n t = t := by
  induction n with
  | zero => rfl
  | succ n ih => simp only [localRun, localStep_of_done prog f ro t h, ih]

omit [DecidableEq K] in
theorem localRun_add (ro : K → V) (a b : Nat) (t : Thread σ Out) :
    localRun prog f ro (a + b) t = localRun prog f ro b (localRun prog f ro a t) := by
  induction a generalizing t with
  | zero => simp [localRun]
  | succ a ih => rw [Nat.add_right_comm]; simp only [localRun, ih]

omit [DecidableEq K] in
/-- a finished thread stays where it is: two step counts at which the thread has finished give the same thread -/
theorem localRun_done_unique (ro : K → V) (a b : Nat) (t : Thread σ Out)
    (ha : isDone prog (localRun prog f ro a t) = true) (hb : isDone prog (localRun prog f ro b t) = true) :
    localRun prog f ro a t = localRun prog f ro b t := by
  rcases Nat.le_total a b with h | h
  · obtain ⟨c, rfl⟩ := Nat.exists_eq_add_of_le h
    rw [localRun_add, localRun_of_done prog f ro c _ ha]
  · obtain ⟨c, rfl⟩ := Nat.exists_eq_add_of_le h
    rw [localRun_add, localRun_of_done prog f ro c _ hb]

/-! ### a whole schedule -/

/-- **the key lemma.**  After any schedule `s`, thread `i` is where it is after `s.count i` steps on its own. -/
theorem run_spec (s : List Nat) (sys : Sys K V σ Out) (hv : MemoValid f sys.shared) :
    (run prog f s sys).shared.ro = sys.shared.ro ∧ MemoValid f (run prog f s sys).shared ∧
      ∀ i, (run prog f s sys).threads[i]? =
        (sys.threads[i]?).map (localRun prog f sys.shared.ro (s.count i)) := by
  induction s generalizing sys with
  | nil => exact ⟨rfl, hv, fun i => by simp [run, localRun]⟩
  | cons j s ih =>
    have h1 := stepSys_spec prog f j sys hv
    have h2 := ih (stepSys prog f j sys) h1.2.1
    simp only [run]
    refine ⟨h2.1.trans h1.1, h2.2.1, fun i => ?_⟩
    rw [h2.2.2 i, h1.2.2 i, h1.1, List.count_cons]
    by_cases hji : j = i
    · subst hji; simp [localRun, Function.comp_def]
    · simp [hji]

theorem count_sequentialOf (s : List Nat) (n i : Nat) :
    (sequentialOf s n).count i = if i < n then s.count i else 0 := by
  induction n with
  | zero => simp [sequentialOf]
  | succ n ih =>
    simp only [sequentialOf, List.count_append, ih, List.count_replicate]
    by_cases h : i < n
    · have : ¬ (n == i) = true := by simp; omega
      have h' : i < n + 1 := by omega
      simp [h, h', this]
    · by_cases h2 : i = n
      · subst h2; simp
      · have : ¬ (n == i) = true := by simp; omega
        have h' : ¬ i < n + 1 := by omega
        simp [h, h', this]

/-! ### steps of different threads commute; permuted schedules give the same system -/

/-- the memo cell that the next step of the thread asks for -/
def memoKey (t : Thread σ Out) : Option K :=
  match prog t.st with
  | .getMemo k _ => some k
  | _ => none

/-- fill a memo cell when it is empty -/
def fill (sh : Shared K V) : Option K → Shared K V
  | none => sh
  | some k =>
    match sh.memo k with
    | some _ => sh
    | none => { sh with memo := setCell sh.memo k (some (f k)) }

theorem stepThread_snd (t : Thread σ Out) (sh : Shared K V) :
    (stepThread prog f t sh).2 = fill f sh (memoKey prog t) := by
  cases h : prog t.st with
  | getMemo k c => cases hm : sh.memo k <;> simp only [stepThread, fill, memoKey, h, hm]
  | _ => simp only [stepThread, fill, memoKey, h]

theorem fill_ro (sh : Shared K V) (a : Option K) : (fill f sh a).ro = sh.ro := by
  cases a with
  | none => rfl
  | some k => simp only [fill]; cases sh.memo k <;> rfl

theorem memoValid_fill {sh : Shared K V} (hv : MemoValid f sh) (a : Option K) : MemoValid f (fill f sh a) := by
  cases a with
  | none => exact hv
  | some k =>
    simp only [fill]
    cases hm : sh.memo k with
    | none => exact memoValid_setCell f hv k
    | some v => exact hv

theorem fill_comm (sh : Shared K V) (a b : Option K) : fill f (fill f sh a) b = fill f (fill f sh b) a := by
  cases a with
  | none => rfl
  | some k1 =>
    cases b with
    | none => rfl
    | some k2 =>
      by_cases hk : k1 = k2
      · subst hk; rfl
      · have hk' : ¬ k2 = k1 := fun h => hk h.symm
        obtain ⟨ro, memo⟩ := sh
        cases h1 : memo k1 <;> cases h2 : memo k2 <;>
          simp only [fill, h1, h2, setCell, if_neg hk, if_neg hk'] <;>
          (congr 1; funext k; unfold setCell
           by_cases e1 : k = k1 <;> by_cases e2 : k = k2 <;> simp_all)

theorem stepSys_of_some (j : Nat) (sys : Sys K V σ Out) (hv : MemoValid f sys.shared) (t : Thread σ Out)
    (h : sys.threads[j]? = some t) :
    stepSys prog f j sys =
      ⟨sys.threads.set j (localStep prog f sys.shared.ro t), fill f sys.shared (memoKey prog t)⟩ := by
  simp only [stepSys, h, stepThread_snd, (stepThread_spec prog f t sys.shared hv).1]

theorem stepSys_of_none (j : Nat) (sys : Sys K V σ Out) (h : sys.threads[j]? = none) :
    stepSys prog f j sys = sys := by
  simp only [stepSys, h]

/-- steps of two different threads commute -/
theorem stepSys_comm (sys : Sys K V σ Out) (hv : MemoValid f sys.shared) (i j : Nat) (hij : i ≠ j) :
    stepSys prog f i (stepSys prog f j sys) = stepSys prog f j (stepSys prog f i sys) := by
  cases hi : sys.threads[i]? with
  | none =>
    rw [stepSys_of_none prog f i sys hi]
    cases hj : sys.threads[j]? with
    | none => rw [stepSys_of_none prog f j sys hj, stepSys_of_none prog f i sys hi]
    | some tj =>
      rw [stepSys_of_some prog f j sys hv tj hj]
      exact stepSys_of_none prog f i _ (by simp only [List.getElem?_set_ne (Ne.symm hij), hi])
  | some ti =>
    cases hj : sys.threads[j]? with
    | none =>
      rw [stepSys_of_none prog f j sys hj, stepSys_of_some prog f i sys hv ti hi]
      exact (stepSys_of_none prog f j _ (by simp only [List.getElem?_set_ne hij, hj])).symm
    | some tj =>
      rw [stepSys_of_some prog f j sys hv tj hj, stepSys_of_some prog f i sys hv ti hi]
      rw [stepSys_of_some prog f i _ (memoValid_fill f hv _) ti
            (by simp only [List.getElem?_set_ne (Ne.symm hij), hi]),
          stepSys_of_some prog f j _ (memoValid_fill f hv _) tj
            (by simp only [List.getElem?_set_ne hij, hj])]
      simp only [fill_ro]
      rw [List.set_comm _ _ (Ne.symm hij), fill_comm]

/-- schedules that are permutations of each other lead to the same system: threads *and* shared state -/
theorem run_perm {s1 s2 : List Nat} (hp : s1.Perm s2) (sys : Sys K V σ Out) (hv : MemoValid f sys.shared) :
    run prog f s1 sys = run prog f s2 sys := by
  induction hp generalizing sys with
  | nil => rfl
  | cons a _ ih => exact ih _ (stepSys_spec prog f a sys hv).2.1
  | swap a b l =>
    simp only [run]
    by_cases hab : a = b
    · subst hab; rfl
    · rw [stepSys_comm prog f sys hv a b hab]
  | trans _ _ ih1 ih2 => exact (ih1 sys hv).trans (ih2 sys hv)

theorem stepSys_length (j : Nat) (sys : Sys K V σ Out) :
    (stepSys prog f j sys).threads.length = sys.threads.length := by
  unfold stepSys
  cases sys.threads[j]? <;> simp

/-- steps of threads that do not exist can be dropped from a schedule -/
theorem run_filter (s : List Nat) (sys : Sys K V σ Out) :
    run prog f s sys = run prog f (s.filter (· < sys.threads.length)) sys := by
  induction s generalizing sys with
  | nil => rfl
  | cons j s ih =>
    by_cases hj : j < sys.threads.length
    · rw [List.filter_cons_of_pos (by simpa using hj)]
      simp only [run]
      rw [ih, stepSys_length]
    · rw [List.filter_cons_of_neg (by simpa using hj)]
      simp only [run]
      rw [stepSys_of_none prog f j sys (List.getElem?_eq_none (Nat.le_of_not_lt hj))]
      exact ih sys

/-- equal step counts of the existing threads: the schedules are permutations of each other, up to steps of
    threads that do not exist -/
theorem filter_perm_of_counts (n : Nat) (s1 s2 : List Nat) (h : ∀ i, i < n → s1.count i = s2.count i) :
    (s1.filter (· < n)).Perm (s2.filter (· < n)) := by
  rw [List.perm_iff_count]
  intro i
  by_cases hi : i < n
  · rw [List.count_filter (by simpa using hi), List.count_filter (by simpa using hi)]; exact h i hi
  · rw [List.count_eq_zero_of_not_mem (fun hm => hi (by simpa using (List.mem_filter.mp hm).2)),
      List.count_eq_zero_of_not_mem (fun hm => hi (by simpa using (List.mem_filter.mp hm).2))]

end Atomic

/-! ### the two-step memo protocol -/

section TwoStep
variable (prog : σ → Action K V Out σ) (f : K → V)

/-- a step of the two-step program is a step of the atomic program on its own, or no step at all (the pending
    write) -/
theorem stepThread2_spec (t : Thread (St2 K σ) Out) (sh : Shared K V) (hv : MemoValid f sh) :
    (absThread (stepThread2 (twoStep prog f) f t sh).1 = localStep prog f sh.ro (absThread t) ∨
      absThread (stepThread2 (twoStep prog f) f t sh).1 = absThread t) ∧
    (stepThread2 (twoStep prog f) f t sh).2.ro = sh.ro ∧ MemoValid f (stepThread2 (twoStep prog f) f t sh).2 := by
  obtain ⟨st, tr⟩ := t
  cases st with
  | pending k s =>
    simp only [stepThread2, twoStep, absThread, St2.abs]
    exact ⟨Or.inr trivial, trivial, memoValid_setCell f hv k⟩
  | «at» s =>
    cases h : prog s with
    | getMemo k c =>
      cases hm : sh.memo k with
      | none =>
        simp only [stepThread2, twoStep, localStep, absThread, St2.abs, h, hm]
        exact ⟨Or.inl trivial, trivial, hv⟩
      | some v =>
        simp only [stepThread2, twoStep, localStep, absThread, St2.abs, h, hm, hv k v hm]
        exact ⟨Or.inl trivial, trivial, hv⟩
    | _ =>
      simp only [stepThread2, twoStep, localStep, absThread, St2.abs, h]
      exact ⟨Or.inl trivial, trivial, hv⟩

theorem stepSys2_spec (j : Nat) (sys : Sys K V (St2 K σ) Out) (hv : MemoValid f sys.shared) :
    (stepSys2 (twoStep prog f) f j sys).shared.ro = sys.shared.ro ∧
    MemoValid f (stepSys2 (twoStep prog f) f j sys).shared ∧
      ∀ i, ((stepSys2 (twoStep prog f) f j sys).threads[i]?).map absThread =
          (sys.threads[i]?).map absThread ∨
        (j = i ∧ ((stepSys2 (twoStep prog f) f j sys).threads[i]?).map absThread =
          ((sys.threads[i]?).map absThread).map (localStep prog f sys.shared.ro)) := by
  unfold stepSys2
  cases h : sys.threads[j]? with
  | none => exact ⟨rfl, hv, fun i => Or.inl rfl⟩
  | some t =>
    have hs := stepThread2_spec prog f t sys.shared hv
    refine ⟨hs.2.1, hs.2.2, fun i => ?_⟩
    simp only [List.getElem?_set]
    by_cases hji : j = i
    · subst hji
      obtain ⟨hlt, rfl⟩ := List.getElem?_eq_some_iff.mp h
      rcases hs.1 with h1 | h1
      · right; simp [hlt, h1]
      · left; simp [hlt, h1]
    · left; simp [hji]

/-- after any schedule `s`, thread `i` of the two-step system stands for the atomic thread after some number
    `n ≤ s.count i` of steps on its own -/
theorem run2_spec (s : List Nat) (sys : Sys K V (St2 K σ) Out) (hv : MemoValid f sys.shared) :
    (run2 (twoStep prog f) f s sys).shared.ro = sys.shared.ro ∧
    MemoValid f (run2 (twoStep prog f) f s sys).shared ∧
      ∀ i, ∃ n, n ≤ s.count i ∧ ((run2 (twoStep prog f) f s sys).threads[i]?).map absThread =
        ((sys.threads[i]?).map absThread).map (localRun prog f sys.shared.ro n) := by
  induction s generalizing sys with
  | nil =>
    refine ⟨rfl, hv, fun i => ⟨0, Nat.zero_le _, ?_⟩⟩
    simp only [run2]
    cases sys.threads[i]? <;> simp [localRun]
  | cons j s ih =>
    have h1 := stepSys2_spec prog f j sys hv
    have h2 := ih (stepSys2 (twoStep prog f) f j sys) h1.2.1
    simp only [run2]
    refine ⟨h2.1.trans h1.1, h2.2.1, fun i => ?_⟩
    obtain ⟨n, hn, he⟩ := h2.2.2 i
    rw [h1.1] at he
    rcases h1.2.2 i with h3 | ⟨hji, h3⟩
    · refine ⟨n, ?_, by rw [he, h3]⟩
      rw [List.count_cons]; omega
    · refine ⟨n + 1, ?_, ?_⟩
      · rw [List.count_cons]; simp [hji]; omega
      · rw [he, h3]; simp [localRun, Function.comp_def]

omit [DecidableEq K] in
theorem isDone2_twoStep (t : Thread (St2 K σ) Out) (h : isDone2 (twoStep prog f) t = true) :
    isDone prog (absThread t) = true := by
  obtain ⟨st, tr⟩ := t
  cases st with
  | pending k s => simp [isDone2, twoStep] at h
  | «at» s =>
    simp only [isDone2, twoStep] at h
    simp only [isDone, absThread, St2.abs]
    cases h' : prog s <;> simp_all

end TwoStep

end MdVerif.Threads
