/-
Lemmas for C05 on the extension model: **the root of the tree of `treeX` is the wrapper `div` WITHOUT attributes, for
every flag set without admonition — attr_list included.**  `AttrListTreeprocessor` visits the root too; it finds no
attribute list because the strings it looks at (the tail of the root's last child, the root's text, the root's tail)
are `"\n"` or empty after prettify: the block parser leaves the top-level children without tails and the root without
text (`Lemmas/VocabXWFBlock2/3.lean`), the footnote `div`, the inline stage and the duplicates keep that
(`placeDiv_NT`, `runX_root_tails`, `duplicates_NT`), prettify writes `"\n"` (`prettify_rootOK`).  Core Lean only.
-/
import MdVerif.Lemmas.VocabXWFPipe3
import MdVerif.Lemmas.VocabXWFBlock3
import MdVerif.Lemmas.VocabXWFInline3
import MdVerif.Lemmas.VocabXWFTree3

namespace MdVerif.VocabXWF
open Py PipelineX VocabX
open BlockExt (NI NI_iff NI_el)

/-- the stages after the duplicates, for the attributes of the root -/
theorem lateStages_root (x : Exts) (cfg : Pipeline.Cfg) (log : Block.Refs) (html html' : List Str) {t2 u : Node}
    (h : (match (if x.toc then
              TocTree.run { fmt := cfg.fmt, post := postX x cfg html } cfg.blockLevel
                (if x.abbr then AbbrTree.run (BlockExt.abbrsOf log)
                  (if x.attrList then AttrListTree.run cfg.blockLevel (TreeProc.prettify t2 cfg.blockLevel)
                    else TreeProc.prettify t2 cfg.blockLevel)
                 else (if x.attrList then AttrListTree.run cfg.blockLevel (TreeProc.prettify t2 cfg.blockLevel)
                    else TreeProc.prettify t2 cfg.blockLevel))
            else .ok (if x.abbr then AbbrTree.run (BlockExt.abbrsOf log)
                  (if x.attrList then AttrListTree.run cfg.blockLevel (TreeProc.prettify t2 cfg.blockLevel)
                    else TreeProc.prettify t2 cfg.blockLevel)
                 else (if x.attrList then AttrListTree.run cfg.blockLevel (TreeProc.prettify t2 cfg.blockLevel)
                    else TreeProc.prettify t2 cfg.blockLevel))) with
          | .oof => TreeResult.oof
          | .err => .err
          | .ood => .ood
          | .ok t => match TreeProc.unescapeTree t with
                     | none => .err
                     | some u => .ok u html) = .ok u html')
    (hw : WF t2) (htag : t2.tag = .name "div".toList) (hat : t2.attrs = [])
    (hnt : NT t2) (htx : Node.truthy t2.text = false) (htl : Node.truthy t2.tail = false) : u.attrs = [] := by
  have h3 := prettify_WF hw cfg.blockLevel
  have hro := prettify_rootOK hnt htx htl cfg.blockLevel
  have h4 : ∀ t4, t4 = (if x.attrList then AttrListTree.run cfg.blockLevel (TreeProc.prettify t2 cfg.blockLevel)
      else TreeProc.prettify t2 cfg.blockLevel) → WF t4 ∧ t4.tag = .name "div".toList ∧ t4.attrs = [] := by
    intro t4 e
    subst e
    split
    · have := attrRun_WF cfg.blockLevel h3.1
      exact ⟨this.1, this.2.trans (h3.2.1.trans htag),
        attrRun_root_attrs cfg.blockLevel (h3.2.1.trans htag) (h3.2.2.trans hat) hro⟩
    · exact ⟨h3.1, h3.2.1.trans htag, h3.2.2.trans hat⟩
  generalize ht4 : (if x.attrList then AttrListTree.run cfg.blockLevel (TreeProc.prettify t2 cfg.blockLevel)
      else TreeProc.prettify t2 cfg.blockLevel) = t4 at h
  obtain ⟨w4, g4, a4⟩ := h4 t4 ht4.symm
  have h5 : ∀ t5, t5 = (if x.abbr then AbbrTree.run (BlockExt.abbrsOf log) t4 else t4) →
      WF t5 ∧ t5.tag = .name "div".toList ∧ t5.attrs = [] := by
    intro t5 e
    subst e
    split
    · have := abbrRun_WF (BlockExt.abbrsOf log) w4
      exact ⟨this.1, this.2.1.trans g4, this.2.2.trans a4⟩
    · exact ⟨w4, g4, a4⟩
  generalize ht5 : (if x.abbr then AbbrTree.run (BlockExt.abbrsOf log) t4 else t4) = t5 at h
  obtain ⟨w5, g5, a5⟩ := h5 t5 ht5.symm
  split at h
  · cases h
  · cases h
  · cases h
  · rename_i t6 htoc
    have h6 : WF t6 ∧ t6.attrs = [] := by
      split at htoc
      · have := tocRun_WF _ _ htoc w5
        exact ⟨this.1, (this.2.2 (by rw [g5]; decide)).trans a5⟩
      · simp only [TocTree.R.ok.injEq] at htoc; subst htoc; exact ⟨w5, a5⟩
    split at h
    · cases h
    · rename_i u' hu
      simp only [TreeResult.ok.injEq] at h
      obtain ⟨rfl, _⟩ := h
      have e1 := (unescapeTree_WF hu h6.1).2.2
      rw [h6.2] at e1
      simpa using e1

/-- **the root of `treeX` has no attributes** (admonition off; attr_list on or off) -/
theorem treeX_root_attrs (x : Exts) (hadm : x.admonition = false) (cfg : Pipeline.Cfg) (src : Str) (u : Node)
    (html : List Str) (h : treeX x cfg src = .ok u html) : u.attrs = [] := by
  unfold treeX at h
  split at h
  · cases h
  · cases h
  · rename_i text stash hprep
    split at h
    · cases h
    · rename_i root log hparse
      obtain ⟨hw0, hg0, ha0⟩ := parseDocumentXT_WF (cfg := x.blockCfg) (by rw [blockCfg_adm]; exact hadm) hparse
      have hn0 : NI noIdQ root :=
        parseDocumentXT_NI (tagsA_noId _) (tablesA_noId _) rfl cfg.tab text hparse
      have hnt0 : NT root := parseDocumentXT_tails hparse
      obtain ⟨htx0, htl0⟩ := parseDocumentXT_text hparse
      dsimp only at h
      split at h
      · cases h
      · cases h
      · rename_i root1 log1 hfs
        have hroot1 : WF root1 ∧ root1.tag = .name "div".toList ∧ root1.attrs = [] ∧ PLF' root1 ∧ NT root1 ∧
            root1.text = none ∧ root1.tail = none := by
          split at hfs
          · split at hfs
            · rename_i div log' hmk
              simp only [FootnotesTree.R.ok.injEq, Prod.mk.injEq] at hfs
              obtain ⟨rfl, _⟩ := hfs
              have hd := makeDiv_WF (fun l t s l' e => parseChunkX_WF x hadm cfg l t e) _ _ hmk
              have hp := makeDiv_PLF'
                (fun l t s l' e => parseChunkXT_tails x.tables x.blockCfg cfg.tab _ l t e)
                (fun l t s l' e => parseChunkX_noId x cfg l t e) _ _ hmk
              have := placeDiv_WF hw0 (by rw [hg0]; decide) hd
              have hnt := placeDiv_NT hnt0 (by rw [makeDiv_tail hmk]; rfl)
              exact ⟨this.1, this.2.1.trans hg0, this.2.2.trans ha0, placeDiv_PLF' hn0 hp, hnt.1,
                hnt.2.1.trans htx0, hnt.2.2.trans htl0⟩
            · simp only [FootnotesTree.R.ok.injEq, Prod.mk.injEq] at hfs
              obtain ⟨rfl, _⟩ := hfs
              exact ⟨hw0, hg0, ha0, PLF'_of_noId hn0, hnt0, htx0, htl0⟩
            · cases hfs
            · cases hfs
          · simp only [FootnotesTree.R.ok.injEq, Prod.mk.injEq] at hfs
            obtain ⟨rfl, _⟩ := hfs
            exact ⟨hw0, hg0, ha0, PLF'_of_noId hn0, hnt0, htx0, htl0⟩
        obtain ⟨hw1, hg1, ha1, hp1, hnt1, htx1, htl1⟩ := hroot1
        split at h
        · cases h
        · rename_i t xs hrun
          obtain ⟨hw2, hg2, ha2⟩ := runX_WF hrun hw1
          have hp2 := runX_PLF hrun hp1
          obtain ⟨hnt2, htx2, htl2, _⟩ := runX_root_tails hrun hnt1
          split at h
          · cases h
          · rename_i t2 hdup
            have hfin : WF t2 ∧ t2.tag = .name "div".toList ∧ t2.attrs = [] ∧ NT t2 ∧
                Node.truthy t2.text = false ∧ Node.truthy t2.tail = false := by
              split at hdup
              · obtain ⟨hw3, hg3, ha3⟩ := duplicates_WF _ hdup hw2 hp2
                obtain ⟨hnt3, htx3, htl3⟩ := duplicates_NT _ hdup hnt2
                refine ⟨hw3, hg3.trans (hg2.trans hg1), ha3.trans (ha2.trans ha1), hnt3, ?_, ?_⟩
                · rw [htx3, htx2, htx1]; rfl
                · rw [htl3, htl2, htl1]; rfl
              · simp only [Option.some.injEq] at hdup
                subst hdup
                refine ⟨hw2, hg2.trans hg1, ha2.trans ha1, hnt2, ?_, ?_⟩
                · rw [htx2, htx1]; rfl
                · rw [htl2, htl1]; rfl
            obtain ⟨hw3, hg3, ha3, hnt3, htx3, htl3⟩ := hfin
            exact lateStages_root x cfg log1 xs.st.html html h hw3 hg3 ha3 hnt3 htx3 htl3

/-- `treeX_WF` with the root's attributes for every flag set -/
theorem treeX_WF' (x : Exts) (hadm : x.admonition = false) (cfg : Pipeline.Cfg) (src : Str) (u : Node)
    (html : List Str) (h : treeX x cfg src = .ok u html) :
    WF u ∧ u.tag = .name "div".toList ∧ u.attrs = [] :=
  ⟨(treeX_WF x hadm cfg src u html h).1, (treeX_WF x hadm cfg src u html h).2.1,
    treeX_root_attrs x hadm cfg src u html h⟩

end MdVerif.VocabXWF
