/-
Lemmas for C05 (ampersand half): the raw-HTML stash of `<`-free text holds entity references only, and restoring
them keeps the output readable.  Core Lean only.

2. the substitution pass `Post.subPass` on a stash of entity references: equations (`sub_copy`, `sub_ph`, `sub_dead`),
   distribution over concatenation at markup delimiters, preservation of strict readability.
1. `entRef`: every entry that `Inline.run` adds to the HTML stash is a single entity reference accepted by `Ser.entLen`
   (pattern 12 is the only producer in the model; autolink, automail and inline html need `<`).
-/
import MdVerif.Lemmas.InlineVocab
import MdVerif.Lemmas.PlaceholdersPost

namespace MdVerif.Vocab2
open Py Inline

/-! ### 1. the entries of the HTML stash -/

def AllEnt (html : List Str) : Prop := ∀ e ∈ html, entRef e = true

theorem allEnt_nil : AllEnt [] := by intro e he; cases he

theorem allEnt_append {l : List Str} (h : AllEnt l) {e : Str} (he : entRef e = true) : AllEnt (l ++ [e]) := by
  intro x hx
  rcases List.mem_append.1 hx with hx | hx
  · exact h x hx
  · simp only [List.mem_singleton] at hx; subst hx; exact he

theorem spanLen_mono {p p' : Char → Bool} (hpp : ∀ c, p c = true → p' c = true) (hs : p' ';' = false) :
    ∀ (r : Str), r[spanLen p r]? = some ';' → spanLen p' r = spanLen p r := by
  intro r
  induction r with
  | nil => intro h; simp [spanLen] at h
  | cons c r ih =>
    intro h
    simp only [spanLen] at h ⊢
    by_cases hc : p c = true
    · simp only [hc, if_true] at h ⊢
      simp only [hpp c hc, if_true]
      rw [ih (by simpa using h)]
    · simp only [hc, Bool.false_eq_true, if_false] at h ⊢
      simp only [List.getElem?_cons_zero, Option.some.injEq] at h
      subst h
      simp [hs]

theorem runSemi_mono {p p' : Char → Bool} (hpp : ∀ c, p c = true → p' c = true) (hs : p' ';' = false) (r : Str)
    (m : Nat) (h : Inline.runSemi p r = some m) : Ser.runSemi p' r = some m := by
  unfold Inline.runSemi at h
  unfold Ser.runSemi
  simp only at h ⊢
  split at h
  · rename_i hc
    simp only [Bool.and_eq_true, decide_eq_true_eq, beq_iff_eq] at hc
    rw [spanLen_mono hpp hs r hc.2]
    simp only [Option.some.injEq] at h
    simp [hc.1, hc.2, h]
  · cases h

theorem entityBody_entLen (r : Str) (n : Nat) (h : Inline.entityBody r = some n) : Ser.entLen r = some n := by
  have d1 : ∀ c, isAsciiDigit c = true → Ser.isDig c = true := fun c h => h
  have d2 : ∀ c, isHexDigit c = true → Ser.isHexI c = true := fun c h => h
  have d3 : ∀ c, isAsciiAlnum c = true → Ser.isAlnumI c = true := by
    intro c h
    simp only [isAsciiAlnum, isAsciiAlpha, isAsciiLower, isAsciiUpper, isAsciiDigit, Bool.or_eq_true] at h
    simp only [Ser.isAlnumI, Ser.isDig, Bool.or_eq_true]
    rcases h with (h | h) | h
    · exact Or.inl (Or.inl (Or.inl (Or.inl (Or.inl (Or.inr h)))))
    · exact Or.inl (Or.inl (Or.inl (Or.inl (Or.inr h))))
    · exact Or.inl (Or.inl (Or.inl (Or.inl (Or.inl (Or.inl h)))))
  unfold Inline.entityBody at h
  unfold Ser.entLen
  split at h
  · rename_i r1
    split at h
    · rename_i m hm
      simp only [Option.some.injEq] at h; subst h
      simp [runSemi_mono d1 Ser.semi_not_class.1 r1 m hm]
    · rename_i hnone
      split at h
      · rename_i r2
        simp only [Option.map_eq_some_iff] at h
        obtain ⟨m, hm, rfl⟩ := h
        have hx := runSemi_mono d2 Ser.semi_not_class.2.1 r2 m hm
        -- the decimal alternative fails in the serializer's reading as well: `x` is no digit
        have hd : Ser.runSemi Ser.isDig ('x' :: r2) = none := by
          simp [Ser.runSemi, spanLen, Ser.isDig]
        simp [hd, hx]
      · cases h
  · rename_i hne
    have := runSemi_mono d3 Ser.semi_not_class.2.2 r n h
    split
    · rename_i r1
      exact absurd rfl (hne r1)
    · exact this

theorem entityScan_spec {suf : Str} {i s e : Nat} (h : Inline.entityScan suf i = some (s, e)) :
    ∃ k r n, s = i + k ∧ suf.drop k = '&' :: r ∧ Inline.entityBody r = some n ∧ e = s + 1 + n := by
  induction suf generalizing i with
  | nil => cases h
  | cons c r ih =>
    unfold Inline.entityScan at h
    split at h
    · next hc =>
      split at h
      · next n hn =>
        simp only [Option.some.injEq, Prod.mk.injEq] at h
        obtain ⟨rfl, rfl⟩ := h
        exact ⟨0, r, n, rfl, by rw [hc]; rfl, hn, rfl⟩
      · obtain ⟨k, r', n, rfl, hd, hb, rfl⟩ := ih h
        exact ⟨k + 1, r', n, by omega, hd, hb, rfl⟩
    · obtain ⟨k, r', n, rfl, hd, hb, rfl⟩ := ih h
      exact ⟨k + 1, r', n, by omega, hd, hb, rfl⟩

/-- the characters of an entity body -/
def entChar (c : Char) : Bool :=
  Ser.isAlnumI c || Ser.isHexI c || Ser.isDig c || c = ';' || c = '#' || c = 'x' || c = 'X'

theorem entLen_chars (r : Str) (n : Nat) (h : Ser.entLen r = some n) : ∀ c ∈ r.take n, entChar c = true := by
  unfold Ser.entLen at h
  split at h
  · rename_i r1
    split at h
    · rename_i m hm
      injection h with h; subst h
      obtain ⟨_, _, _, hcl, _⟩ := Ser.runSemi_spec Ser.isDig Ser.semi_not_class.1 r1 m hm
      intro c hc
      simp [List.take_succ_cons] at hc
      rcases hc with h1 | h1
      · subst h1; decide
      · rcases hcl c h1 with h2 | h2 <;> simp [entChar, h2]
    · rename_i hnone
      split at h
      · rename_i x r2
        split at h
        · rename_i hx
          cases hr : Ser.runSemi Ser.isHexI r2 with
          | none => simp [hr] at h
          | some m =>
            simp [hr] at h; subst h
            obtain ⟨_, _, _, hcl, _⟩ := Ser.runSemi_spec Ser.isHexI Ser.semi_not_class.2.1 r2 m hr
            intro c hc
            simp [List.take_succ_cons] at hc
            rcases hc with h1 | h1 | h1
            · subst h1; decide
            · simp at hx; rcases hx with h | h <;> subst h <;> subst h1 <;> decide
            · rcases hcl c h1 with h2 | h2 <;> simp [entChar, h2]
        · simp at h
      · simp at h
  · obtain ⟨_, _, _, hcl, _⟩ := Ser.runSemi_spec Ser.isAlnumI Ser.semi_not_class.2.2 r n h
    intro c hc
    rcases hcl c hc with h2 | h2 <;> simp [entChar, h2]

theorem entRef_of_entLen (r : Str) (n : Nat) (h : Ser.entLen r = some n) : entRef ('&' :: r.take n) = true := by
  obtain ⟨hle, _, hpre⟩ := Ser.entLen_spec r n h
  have := hpre []
  simp only [List.append_nil] at this
  simp [entRef, this, List.length_take, Nat.min_eq_left hle]

theorem entRef_noSTX {e : Str} (h : entRef e = true) : Inline.STX ∉ e := by
  unfold entRef at h
  split at h
  · rename_i b
    simp only [beq_iff_eq] at h
    have hpl := entLen_chars b b.length h
    rw [List.take_length] at hpl
    intro hm
    rcases List.mem_cons.1 hm with hm | hm
    · revert hm; decide
    · have := hpl _ hm
      revert this; decide
  · cases h

theorem entityFind_entRef {data : Str} {si s e : Nat} (h : Inline.entityFind data si = some (s, e)) :
    entRef (Inline.slice data s e) = true := by
  unfold Inline.entityFind at h
  split at h
  · cases h
  · obtain ⟨k, r, n, rfl, hd, hb, rfl⟩ := entityScan_spec h
    have e1 : Inline.slice data (si + k) (si + k + 1 + n) = '&' :: r.take n := by
      rw [List.drop_drop] at hd
      unfold Inline.slice
      rw [List.drop_take, hd, show si + k + 1 + n - (si + k) = n + 1 by omega]
      rfl
    rw [e1]
    exact entRef_of_entLen r n (entityBody_entLen r n hb)

theorem backslashUnescape_noSTX {x : Str} (h : Inline.STX ∉ x) : Inline.backslashUnescape 0 x = x := by
  induction x with
  | nil => rfl
  | cons c x ih =>
    have hc : c ≠ Inline.STX := fun e => h (by rw [e]; exact List.mem_cons_self)
    rw [Inline.backslashUnescape, if_neg hc, ih (fun hm => h (List.mem_cons_of_mem _ hm))]

/-- `findMatch` leaves the HTML stash alone or (pattern 12) appends one entity reference -/
theorem findMatch_html (cfg : Cfg) (pi : Nat) (data : Str) (si : Nat) (st st' : St) (fo : Option Found)
    (h : findMatch cfg pi data si st = some (fo, st')) :
    st'.html = st.html ∨ ∃ raw, st'.html = st.html ++ [raw] ∧ entRef raw = true := by
  unfold findMatch at h
  simp only [] at h
  split at h
  · cases h; exact Or.inl rfl
  · split at h
    case h_4 =>
      split at h
      · rename_i s e hf
        simp only [Option.some.injEq, Prod.mk.injEq] at h
        obtain ⟨_, rfl⟩ := h
        right
        have hr := entityFind_entRef hf
        refine ⟨_, rfl, ?_⟩
        rw [backslashUnescape_noSTX (entRef_noSTX hr)]; exact hr
      · cases h; exact Or.inl rfl
    all_goals (repeat (first | (cases h <;> exact Or.inl rfl) | split at h))

theorem findMatch_allEnt (cfg : Cfg) (pi : Nat) (data : Str) (si : Nat) (st st' : St) (fo : Option Found)
    (h : findMatch cfg pi data si st = some (fo, st')) (hs : AllEnt st.html) : AllEnt st'.html := by
  rcases findMatch_html cfg pi data si st st' fo h with e | ⟨raw, e, hr⟩
  · rw [e]; exact hs
  · rw [e]; exact allEnt_append hs hr

def HIent (hi : HI) : Prop := ∀ d p st d' st', hi d p st = some (d', st') → AllEnt st.html → AllEnt st'.html

theorem hiOpt_ent {hi : HI} (hhi : HIent hi) (t : Option Str) (atomic : Bool) (pi : Nat) (st : St) (t' : Option Str)
    (st' : St) (h : hiOpt hi t atomic pi st = some (t', st')) (hs : AllEnt st.html) : AllEnt st'.html := by
  unfold hiOpt at h
  split at h
  · split at h
    · rename_i d st1 hh
      simp only [Option.some.injEq, Prod.mk.injEq] at h
      obtain ⟨_, h2⟩ := h; subst h2
      exact hhi _ _ _ _ _ hh hs
    · cases h
  · simp only [Option.some.injEq, Prod.mk.injEq] at h
    obtain ⟨_, h2⟩ := h; subst h2; exact hs

theorem hiNode_ent {hi : HI} (hhi : HIent hi) (pi : Nat) (n : Node) (st : St) (n' : Node) (st' : St)
    (h : hiNode hi pi n st = some (n', st')) (hs : AllEnt st.html) : AllEnt st'.html := by
  unfold hiNode at h
  split at h
  · cases h
  · rename_i t st1 h1
    split at h
    · cases h
    · rename_i tl st2 h2
      simp only [Option.some.injEq, Prod.mk.injEq] at h
      obtain ⟨_, e2⟩ := h; subst e2
      exact hiOpt_ent hhi _ _ _ _ _ _ h2 (hiOpt_ent hhi _ _ _ _ _ _ h1 hs)

theorem hiNodes_ent {hi : HI} (hhi : HIent hi) (pi : Nat) :
    ∀ (ns : List Node) (st : St) (ns' : List Node) (st' : St), hiNodes hi pi ns st = some (ns', st') →
      AllEnt st.html → AllEnt st'.html := by
  intro ns
  induction ns with
  | nil =>
    intro st ns' st' h hs
    simp only [hiNodes, Option.some.injEq, Prod.mk.injEq] at h
    obtain ⟨_, e2⟩ := h; subst e2; exact hs
  | cons n r ih =>
    intro st ns' st' h hs
    simp only [hiNodes] at h
    split at h
    · cases h
    · rename_i n1 st1 h1
      split at h
      · cases h
      · rename_i r1 st2 h2
        simp only [Option.some.injEq, Prod.mk.injEq] at h
        obtain ⟨_, e2⟩ := h; subst e2
        exact ih _ _ _ h2 (hiNode_ent hhi _ _ _ _ _ h1 hs)

theorem elStep_ent {hi : HI} (hhi : HIent hi) (pi : Nat) (n : Node) (st : St) (n' : Node) (st' : St)
    (h : elStep hi pi n st = some (n', st')) (hs : AllEnt st.html) : AllEnt st'.html := by
  unfold elStep at h
  split at h
  · simp only [Option.some.injEq, Prod.mk.injEq] at h
    obtain ⟨_, e2⟩ := h; subst e2; exact hs
  · split at h
    · cases h
    · rename_i n1 st3 h1
      split at h
      · cases h
      · rename_i kids st4 h2
        simp only [Option.some.injEq, Prod.mk.injEq] at h
        obtain ⟨_, e2⟩ := h; subst e2
        exact hiNodes_ent hhi _ _ _ _ _ h2 (hiNode_ent hhi _ _ _ _ _ h1 hs)

def APent (ap : Nat → Str → Nat → St → Option (Str × Bool × Nat × St)) : Prop :=
  ∀ pi d si st d' m si' st', ap pi d si st = some (d', m, si', st') → AllEnt st.html → AllEnt st'.html

theorem applyPattern_ent (cfg : Cfg) {hi : HI} (hhi : HIent hi) : APent (applyPattern cfg hi) := by
  intro pi data si st d' m si' st' h hs
  rw [applyPattern_eq] at h
  split at h
  · cases h
  · rename_i st1 hf
    simp only [Option.some.injEq, Prod.mk.injEq] at h
    obtain ⟨_, _, _, e⟩ := h; subst e
    exact findMatch_allEnt _ _ _ _ _ _ _ hf hs
  · rename_i f st1 hf
    have hs1 := findMatch_allEnt _ _ _ _ _ _ _ hf hs
    split at h
    · simp only [Option.some.injEq, Prod.mk.injEq] at h
      obtain ⟨_, _, _, e⟩ := h; subst e; exact hs1
    · simp only [stashNode, Option.some.injEq, Prod.mk.injEq] at h
      obtain ⟨_, _, _, e⟩ := h; subst e; exact hs1
    · split at h
      · cases h
      · rename_i n' st2 hr
        simp only [stashNode, Option.some.injEq, Prod.mk.injEq] at h
        obtain ⟨_, _, _, e⟩ := h; subst e
        exact elStep_ent hhi _ _ _ n' st2 hr hs1

theorem hiLoop_ent {ap : Nat → Str → Nat → St → Option (Str × Bool × Nat × St)} (hap : APent ap) :
    ∀ (g : Nat) (data : Str) (pi si : Nat) (st : St) (d' : Str) (st' : St),
      hiLoop ap g data pi si st = some (d', st') → AllEnt st.html → AllEnt st'.html := by
  intro g
  induction g with
  | zero => intro data pi si st d' st' h; simp [hiLoop] at h
  | succ g ih =>
    intro data pi si st d' st' h hs
    simp only [hiLoop] at h
    split at h
    · split at h
      · cases h
      · rename_i d m si1 st1 h1
        exact ih _ _ _ _ _ _ h (hap _ _ _ _ _ _ _ _ h1 hs)
    · simp only [Option.some.injEq, Prod.mk.injEq] at h
      obtain ⟨_, e⟩ := h; subst e; exact hs

theorem handleInline_ent (cfg : Cfg) : ∀ (f : Nat), HIent (handleInline cfg f) := by
  intro f
  induction f with
  | zero => intro d p st d' st' h; simp [handleInline] at h
  | succ f ih =>
    intro d p st d' st' h hs
    simp only [handleInline] at h
    exact hiLoop_ent (applyPattern_ent cfg ih) _ _ _ _ _ _ _ h hs

theorem handleInlineTop_ent (cfg : Cfg) (data : Str) (st : St) (d' : Str) (st' : St)
    (h : handleInlineTop cfg data st = some (d', st')) (hs : AllEnt st.html) : AllEnt st'.html :=
  handleInline_ent cfg _ _ _ _ _ _ h hs

theorem visitChild_ent (cfg : Cfg) (child : Node) (v : Visit) (c : Node) (tr : List Node) (v' : Visit)
    (h : visitChild cfg child v = some (c, tr, v')) (hs : AllEnt v.st.html) : AllEnt v'.st.html := by
  unfold visitChild at h
  simp only [] at h
  split at h
  · cases h
  · rename_i c1 lst st1 hr1
    have q1 : AllEnt st1.html := by
      split at hr1
      · split at hr1
        · cases hr1
        · rename_i data st2 hh
          have hs2 := handleInlineTop_ent cfg _ _ _ _ hh hs
          split at hr1
          · cases hr1
          · simp only [Option.some.injEq, Prod.mk.injEq] at hr1
            obtain ⟨_, _, e3⟩ := hr1; subst e3; exact hs2
      · simp only [Option.some.injEq, Prod.mk.injEq] at hr1
        obtain ⟨_, _, e3⟩ := hr1; subst e3; exact hs
    split at h
    · cases h
    · rename_i c2 tr' st2 hr2
      simp only [Option.some.injEq, Prod.mk.injEq] at h
      obtain ⟨_, _, e3⟩ := h; subst e3
      have q2 : AllEnt st2.html := by
        split at hr2
        · split at hr2
          · cases hr2
          · rename_i data st3 hh
            have hs3 : AllEnt st3.html := by
              split at hh
              · simp only [Option.some.injEq, Prod.mk.injEq] at hh
                obtain ⟨_, e⟩ := hh; subst e; exact q1
              · exact handleInlineTop_ent cfg _ _ _ _ hh q1
            split at hr2
            · cases hr2
            · simp only [Option.some.injEq, Prod.mk.injEq] at hr2
              obtain ⟨_, _, e3⟩ := hr2; subst e3; exact hs3
        · simp only [Option.some.injEq, Prod.mk.injEq] at hr2
          obtain ⟨_, _, e3⟩ := hr2; subst e3; exact q1
      split <;> exact q2

theorem visitLoop_ent (cfg : Cfg) :
    ∀ (g : Nat) (todo : List (Node × Option Nat)) (v v' : Visit), visitLoop cfg g todo v = some v' →
      AllEnt v.st.html → AllEnt v'.st.html := by
  intro g
  induction g with
  | zero => intro todo v v' h; simp [visitLoop] at h
  | succ g ih =>
    intro todo v v' h hs
    cases todo with
    | nil => simp only [visitLoop, Option.some.injEq] at h; subst h; exact hs
    | cons x todo =>
      obtain ⟨child, orig⟩ := x
      simp only [visitLoop] at h
      split at h
      · cases h
      · rename_i c tr v1 hv
        exact ih _ _ _ h (visitChild_ent cfg child v c tr v1 hv hs)

theorem runLoop_ent (cfg : Cfg) (g2 : Nat) :
    ∀ (g : Nat) (root : Node) (stack : List Path) (st : St) (root' : Node) (st' : St),
      runLoop cfg g2 g root stack st = some (root', st') → AllEnt st.html → AllEnt st'.html := by
  intro g
  induction g with
  | zero => intro root stack st root' st' h; simp [runLoop] at h
  | succ g ih =>
    intro root stack st root' st' h hs
    cases stack with
    | nil =>
      simp only [runLoop, Option.some.injEq, Prod.mk.injEq] at h
      obtain ⟨_, e⟩ := h; subst e; exact hs
    | cons p stack =>
      simp only [runLoop] at h
      split at h
      · exact ih _ _ _ _ _ h hs
      · split at h
        · cases h
        · rename_i v hv
          exact ih _ _ _ _ _ h (visitLoop_ent cfg g2 _ { st := st } v hv hs)

/-- every entry of the HTML stash after the inline stage is an entity reference -/
theorem run_ent (cfg : Cfg) (root : Node) (t : Node) (st : St) (h : Inline.run cfg root [] = some (t, st)) :
    AllEnt st.html := by
  unfold Inline.run at h
  exact runLoop_ent cfg _ _ _ _ _ _ _ h allEnt_nil

theorem tree_ent (cfg : Pipeline.Cfg) (src : Str) (u : Node) (html : List Str)
    (h : Pipeline.tree cfg src = some (some (u, html))) : AllEnt html := by
  unfold Pipeline.tree at h
  split at h
  · cases h
  · split at h
    · cases h
    · rename_i t st hr
      split at h
      · cases h
      · simp only [Option.some.injEq, Prod.mk.injEq] at h
        obtain ⟨_, e⟩ := h; subst e
        exact run_ent _ _ _ _ hr

/-! ### 2. the substitution pass on a stash of entity references -/

section Restore
open NoCtl

theorem entLen_last (r : Str) (n : Nat) (h : Ser.entLen r = some n) : 0 < n ∧ r[n - 1]? = some ';' := by
  have key : ∀ (p : Char → Bool) (r : Str) (m : Nat), Ser.runSemi p r = some m → 0 < m ∧ r[m - 1]? = some ';' := by
    intro p r m hm
    unfold Ser.runSemi at hm
    simp only at hm
    split at hm
    · rename_i hc
      simp only [Bool.and_eq_true, decide_eq_true_eq, beq_iff_eq] at hc
      simp only [Option.some.injEq] at hm; subst hm
      exact ⟨by omega, by simpa using hc.2⟩
    · cases hm
  unfold Ser.entLen at h
  split at h
  · rename_i r1
    split at h
    · rename_i m hm
      injection h with h; subst h
      obtain ⟨h1, h2⟩ := key _ _ _ hm
      refine ⟨by omega, ?_⟩
      have : m + 1 - 1 = (m - 1) + 1 := by omega
      rw [this, List.getElem?_cons_succ]; exact h2
    · split at h
      · rename_i x r2
        split at h
        · simp only [Option.map_eq_some_iff] at h
          obtain ⟨m, hm, rfl⟩ := h
          obtain ⟨h1, h2⟩ := key _ _ _ hm
          refine ⟨by omega, ?_⟩
          have : m + 2 - 1 = (m - 1) + 1 + 1 := by omega
          rw [this, List.getElem?_cons_succ, List.getElem?_cons_succ]; exact h2
        · cases h
      · cases h
  · exact key _ _ _ h

theorem entRef_entityLike {e : Str} (h : entRef e = true) : entityLike e = true := by
  have hn := entRef_noSTX h
  unfold entRef at h
  split at h
  · rename_i b
    simp only [beq_iff_eq] at h
    obtain ⟨hpos, hlast⟩ := entLen_last b b.length h
    rw [entityLike_iff]
    refine ⟨rfl, ?_, hn⟩
    have hb : b ≠ [] := by intro e; subst e; simp at hpos
    rw [List.getLast?_cons_of_ne_nil hb] <;> try exact hb
    rw [List.getLast?_eq_getElem?]; exact hlast
  · cases h

theorem allEnt_like {stash : List Str} (he : AllEnt stash) : ∀ e ∈ stash, entityLike e = true :=
  fun e hm => entRef_entityLike (he e hm)

theorem stashLookup_mem' {stash : List Str} {ds html : Str} (h : Post.stashLookup stash ds = some html) :
    html ∈ stash := by
  unfold Post.stashLookup at h
  simp only at h
  split at h
  · exact List.mem_of_getElem? h
  · cases h

/-- what replaces a placeholder: an entity reference of the stash, or (number not in the stash) the placeholder -/
theorem phOut_ent {stash : List Str} (he : AllEnt stash) (ds : Str) :
    entRef (phOut stash ds) = true ∨ phOut stash ds = phStr ds := by
  unfold phOut
  cases hlk : Post.stashLookup stash ds with
  | some html => exact Or.inl (he _ (stashLookup_mem' hlk))
  | none => exact Or.inr rfl

theorem phStr_inj {ds ds' rest rest' : Str} (h1 : PhDigits ds) (h2 : PhDigits ds')
    (e : phStr ds ++ rest = phStr ds' ++ rest') : ds = ds' ∧ rest = rest' := by
  have a := htmlPhAt_phStr h1 rest
  have b := htmlPhAt_phStr h2 rest'
  rw [e, b] at a
  simp only [Option.some.injEq, Prod.mk.injEq] at a
  obtain ⟨a1, _⟩ := a
  subst a1
  exact ⟨rfl, List.append_cancel_left e⟩

variable {bl stash : List Str}

/-- a placeholder is replaced -/
theorem sub_ph (bl stash : List Str) {ds : Str} (hds : PhDigits ds) (rest : Str) :
    Post.subPass bl stash 0 (phStr ds ++ rest) = phOut stash ds ++ Post.subPass bl stash 0 rest := by
  have e0 : phStr ds ++ rest = NoCtl.STX :: ('w' :: 'z' :: 'x' :: 'h' :: 'z' :: 'd' :: 'k' :: ':' :: (ds ++ [NoCtl.ETX]) ++ rest) := by
    rw [phStr_eq]; rfl
  rcases subPass_cases bl stash NoCtl.STX ('w' :: 'z' :: 'x' :: 'h' :: 'z' :: 'd' :: 'k' :: ':' :: (ds ++ [NoCtl.ETX]) ++ rest)
    with ⟨ds', rest', _, e, _⟩ | ⟨ds', rest', hds', e, hr⟩ | ⟨hn, _⟩
  · simp at e
  · rw [← e0] at e hr
    obtain ⟨rfl, rfl⟩ := phStr_inj hds hds' e
    exact hr
  · have := hn rfl
    rw [← e0, htmlPhAt_phStr hds rest] at this
    cases this

/-- an `NoCtl.STX` that does not start a placeholder is copied -/
theorem sub_dead (bl stash : List Str) (s : Str) (h : Post.htmlPhAt (NoCtl.STX :: s) = none) :
    Post.subPass bl stash 0 (NoCtl.STX :: s) = NoCtl.STX :: Post.subPass bl stash 0 s := by
  rcases subPass_cases bl stash NoCtl.STX s with ⟨ds', rest', _, e, _⟩ | ⟨ds', rest', hds', e, hr⟩ | ⟨_, hr⟩
  · simp at e
    exact absurd e.1 (by decide)
  · rw [e, htmlPhAt_phStr hds' rest'] at h; cases h
  · exact hr

theorem pOut_ent (bl : List Str) {stash : List Str} (he : AllEnt stash) (ds : Str) :
    pOut bl stash ds = "<p>".toList ++ (phOut stash ds ++ "</p>".toList) := by
  unfold pOut phOut
  cases hlk : Post.stashLookup stash ds with
  | some html =>
    obtain ⟨e', rfl, _⟩ := entityLike_cons (allEnt_like he _ (stashLookup_mem' hlk))
    simp [isBlockLevelHtml_amp]
  | none => rfl

/-- every other character is copied (the `<p>`…`</p>` alternative of the pattern makes no difference when no entry is
    block-level) -/
theorem sub_copy (bl : List Str) {stash : List Str} (he : AllEnt stash) :
    ∀ (n : Nat) (s : Str) (c : Char), s.length ≤ n → c ≠ NoCtl.STX →
      Post.subPass bl stash 0 (c :: s) = c :: Post.subPass bl stash 0 s := by
  intro n
  induction n with
  | zero =>
    intro s c hl hc
    have : s = [] := List.length_eq_zero_iff.1 (by omega)
    subst this
    rcases subPass_cases bl stash c [] with ⟨ds', rest', _, e, _⟩ | ⟨ds', rest', _, e, _⟩ | ⟨_, hr⟩
    · have := congrArg List.length e; simp [phStr_length] at this
    · have := congrArg List.length e; simp [phStr_length] at this; omega
    · exact hr
  | succ n ih =>
    intro s c hl hc
    rcases subPass_cases bl stash c s with ⟨ds, rest, hds, e, hr⟩ | ⟨ds, rest, _, e, _⟩ | ⟨_, hr⟩
    · -- `<p>` placeholder `</p>`
      rw [hr, pOut_ent bl he]
      have e' : c = '<' ∧ s = 'p' :: '>' :: (phStr ds ++ ('<' :: '/' :: 'p' :: '>' :: rest)) := by
        simpa using e
      obtain ⟨rfl, rfl⟩ := e'
      have hlen : (phStr ds ++ ('<' :: '/' :: 'p' :: '>' :: rest)).length ≤ n - 1 := by
        simp only [List.length_cons, List.length_append] at hl ⊢; omega
      have hlr : rest.length + 4 ≤ n := by
        simp only [List.length_cons, List.length_append, phStr_length] at hl; omega
      rw [ih _ 'p' (by simp only [List.length_cons] at hl ⊢; omega) (by decide),
        ih _ '>' (by simp only [List.length_cons] at hl ⊢; omega) (by decide),
        sub_ph bl stash hds,
        ih _ '<' (by simp only [List.length_cons]; omega) (by decide),
        ih _ '/' (by simp only [List.length_cons]; omega) (by decide),
        ih _ 'p' (by simp only [List.length_cons]; omega) (by decide),
        ih _ '>' (by omega) (by decide)]
      simp
    · rw [phStr_eq] at e
      simp only [List.cons_append, List.cons.injEq] at e
      exact absurd e.1 hc
    · exact hr

theorem sub_copy' (bl : List Str) {stash : List Str} (he : AllEnt stash) (c : Char) (s : Str) (hc : c ≠ NoCtl.STX) :
    Post.subPass bl stash 0 (c :: s) = c :: Post.subPass bl stash 0 s :=
  sub_copy bl he s.length s c (Nat.le_refl _) hc

theorem sub_nil (bl stash : List Str) : Post.subPass bl stash 0 [] = [] := rfl

/-- the four shapes of a text, seen from the substitution pass -/
theorem str_cases (s : Str) :
    s = [] ∨ (∃ c r, s = c :: r ∧ c ≠ NoCtl.STX) ∨ (∃ ds rest, PhDigits ds ∧ s = phStr ds ++ rest) ∨
      (∃ r, s = NoCtl.STX :: r ∧ Post.htmlPhAt (NoCtl.STX :: r) = none) := by
  cases s with
  | nil => exact Or.inl rfl
  | cons c r =>
    by_cases hc : c = NoCtl.STX
    · subst hc
      cases h : Post.htmlPhAt (NoCtl.STX :: r) with
      | none => exact Or.inr (Or.inr (Or.inr ⟨r, rfl, h⟩))
      | some p =>
        obtain ⟨ds, l⟩ := p
        obtain ⟨hds, _, rest, e⟩ := htmlPhAt_some h
        exact Or.inr (Or.inr (Or.inl ⟨ds, rest, hds, e⟩))
    · exact Or.inr (Or.inl ⟨c, r, rfl, hc⟩)


/-- a stretch without `STX` is copied -/
theorem sub_plain (bl : List Str) {stash : List Str} (he : AllEnt stash) (M Y : Str) (hM : NoCtl.STX ∉ M) :
    Post.subPass bl stash 0 (M ++ Y) = M ++ Post.subPass bl stash 0 Y := by
  induction M with
  | nil => rfl
  | cons c r ih =>
    have hc : c ≠ NoCtl.STX := fun e => hM (by rw [e]; exact List.mem_cons_self)
    rw [List.cons_append, sub_copy' bl he c _ hc, ih (fun h => hM (List.mem_cons_of_mem _ h))]
    rfl

theorem sub_plain' (bl : List Str) {stash : List Str} (he : AllEnt stash) (M : Str) (hM : NoCtl.STX ∉ M) :
    Post.subPass bl stash 0 M = M := by
  have := sub_plain bl he M [] hM
  simpa [sub_nil] using this

/-- a character that cannot occur inside a placeholder: markup delimiters are such -/
def Dl (d : Char) : Prop :=
  d ≠ NoCtl.STX ∧ d ≠ NoCtl.ETX ∧ isAsciiDigit d = false ∧ d ∉ "wzxhzdk:".toList

/-- `Y` is empty or starts with such a character -/
def DelimStart (Y : Str) : Prop := ∀ d, Y.head? = some d → Dl d

theorem dl_not_mem_phStr {d : Char} (h : Dl d) {ds : Str} (hds : PhDigits ds) : d ∉ phStr ds := by
  obtain ⟨h1, h2, h3, h4⟩ := h
  intro hm
  rw [phStr_eq] at hm
  rcases List.mem_cons.1 hm with e | hm
  · exact h1 e
  · have : d ∈ "wzxhzdk:".toList ++ (ds ++ [NoCtl.ETX]) := hm
    rcases List.mem_append.1 this with hm | hm
    · exact h4 hm
    · rcases List.mem_append.1 hm with hm | hm
      · have := List.all_eq_true.1 hds.2 d hm
        rw [h3] at this; cases this
      · simp only [List.mem_singleton] at hm; exact h2 hm

theorem delimStart_nil : DelimStart [] := by intro d h; cases h
theorem delimStart_cons {d : Char} (h : Dl d) (r : Str) : DelimStart (d :: r) := by
  intro x hx; simp only [List.head?_cons, Option.some.injEq] at hx; subst hx; exact h

theorem dl_lt : Dl '<' := by refine ⟨by decide, by decide, by decide, by decide⟩
theorem dl_gt : Dl '>' := by refine ⟨by decide, by decide, by decide, by decide⟩
theorem dl_quot : Dl '"' := by refine ⟨by decide, by decide, by decide, by decide⟩
theorem dl_space : Dl ' ' := by refine ⟨by decide, by decide, by decide, by decide⟩

/-- no placeholder straddles the boundary in front of a delimiter -/
theorem htmlPhAt_append_delim (r Y : Str) (hY : DelimStart Y) (h : Post.htmlPhAt (NoCtl.STX :: r) = none) :
    Post.htmlPhAt (NoCtl.STX :: (r ++ Y)) = none := by
  cases hh : Post.htmlPhAt (NoCtl.STX :: (r ++ Y)) with
  | none => rfl
  | some p =>
    exfalso
    obtain ⟨ds, l⟩ := p
    obtain ⟨hds, _, rest, e⟩ := htmlPhAt_some hh
    have e' : (NoCtl.STX :: r) ++ Y = phStr ds ++ rest := e
    rcases List.append_eq_append_iff.1 e' with ⟨a', e1, e2⟩ | ⟨c', e1, _⟩
    · cases a' with
      | nil =>
        simp only [List.append_nil] at e1
        rw [← e1] at h
        have := htmlPhAt_phStr hds []
        rw [List.append_nil, h] at this; cases this
      | cons x xs =>
        have hx : Dl x := hY x (by rw [e2]; rfl)
        exact dl_not_mem_phStr hx hds (by rw [e1]; simp)
    · rw [e1, htmlPhAt_phStr hds c'] at h; cases h

/-- the pass distributes over a concatenation whose second part starts with a delimiter -/
theorem sub_append (bl : List Str) {stash : List Str} (he : AllEnt stash) (Y : Str) (hY : DelimStart Y) :
    ∀ (n : Nat) (A : Str), A.length ≤ n →
      Post.subPass bl stash 0 (A ++ Y) = Post.subPass bl stash 0 A ++ Post.subPass bl stash 0 Y := by
  intro n
  induction n with
  | zero =>
    intro A hl
    have : A = [] := List.length_eq_zero_iff.1 (by omega)
    subst this; rfl
  | succ n ih =>
    intro A hl
    rcases str_cases A with rfl | ⟨c, r, rfl, hc⟩ | ⟨ds, rest, hds, rfl⟩ | ⟨r, rfl, hn⟩
    · rfl
    · rw [List.cons_append, sub_copy' bl he c _ hc, sub_copy' bl he c _ hc,
        ih r (by simp only [List.length_cons] at hl; omega)]
      rfl
    · rw [List.append_assoc, sub_ph bl stash hds, sub_ph bl stash hds,
        ih rest (by simp only [List.length_append, phStr_length] at hl; omega), List.append_assoc]
    · rw [List.cons_append, sub_dead bl stash _ (htmlPhAt_append_delim r Y hY hn), sub_dead bl stash _ hn,
        ih r (by simp only [List.length_cons] at hl; omega)]
      rfl

theorem sub_append' (bl : List Str) {stash : List Str} (he : AllEnt stash) (A Y : Str) (hY : DelimStart Y) :
    Post.subPass bl stash 0 (A ++ Y) = Post.subPass bl stash 0 A ++ Post.subPass bl stash 0 Y :=
  sub_append bl he Y hY A.length A (Nat.le_refl _)

/-- a result without `STX` and without `&` was copied entirely -/
theorem sub_eq_plain (bl : List Str) {stash : List Str} (he : AllEnt stash) :
    ∀ (n : Nat) (X K : Str), X.length ≤ n → Post.subPass bl stash 0 X = K → NoCtl.STX ∉ K → '&' ∉ K → X = K := by
  intro n
  induction n with
  | zero =>
    intro X K hl h _ _
    have : X = [] := List.length_eq_zero_iff.1 (by omega)
    subst this; exact h
  | succ n ih =>
    intro X K hl h hs ha
    rcases str_cases X with rfl | ⟨c, r, rfl, hc⟩ | ⟨ds, rest, hds, rfl⟩ | ⟨r, rfl, hn⟩
    · exact h
    · rw [sub_copy' bl he c _ hc] at h
      cases K with
      | nil => cases h
      | cons k K' =>
        simp only [List.cons.injEq] at h
        obtain ⟨rfl, h2⟩ := h
        rw [ih r K' (by simp only [List.length_cons] at hl; omega) h2
          (fun hm => hs (List.mem_cons_of_mem _ hm)) (fun hm => ha (List.mem_cons_of_mem _ hm))]
    · exfalso
      rw [sub_ph bl stash hds] at h
      rcases phOut_ent he ds with hr | hr
      · have hlk := entityLike_cons (entRef_entityLike hr)
        obtain ⟨e', he', _⟩ := hlk
        rw [he'] at h
        exact ha (by rw [← h]; simp)
      · rw [hr, phStr_eq] at h
        exact hs (by rw [← h]; simp)
    · exfalso
      rw [sub_dead bl stash _ hn] at h
      exact hs (by rw [← h]; simp)


/-! ### strict readability is kept, and a strictly readable string is a fixed point of the escapers -/

open Ser in
theorem strict_drop (m : Mode) (k : Nat) (r : Str) (hk : k ≤ r.length) : strict m k r = strict m 0 (r.drop k) := by
  have := strict_skip m (r.take k) (r.drop k)
  rw [List.take_append_drop, List.length_take, Nat.min_eq_left hk] at this
  exact this

open Ser in
/-- characters that both readers take as themselves -/
theorem strict_inert (m : Mode) (b t : Str)
    (hb : ∀ c ∈ b, c ≠ '&' ∧ c ≠ '<' ∧ c ≠ '>' ∧ c ≠ '"') :
    strict m 0 (b ++ t) = (strict m 0 t).map (b.map Tok.ch ++ ·) := by
  induction b with
  | nil => simp
  | cons c r ih =>
    obtain ⟨h1, h2, h3, h4⟩ := hb c List.mem_cons_self
    rw [List.cons_append, strict, if_neg h1, ih (fun x hx => hb x (List.mem_cons_of_mem _ hx))]
    simp only [h2, h3, h4, decide_false, Bool.or_self, Bool.false_eq_true, ↓reduceIte, Bool.and_false]
    cases strict m 0 t <;> rfl

theorem phStr_inert (ds : Str) (hds : PhDigits ds) : ∀ c ∈ phStr ds, c ≠ '&' ∧ c ≠ '<' ∧ c ≠ '>' ∧ c ≠ '"' := by
  intro c hc
  have hne : ∀ d : Char, Dl d → c ≠ d := fun d hd e => dl_not_mem_phStr (e ▸ hd) hds hc
  exact ⟨hne _ ⟨by decide, by decide, by decide, by decide⟩, hne _ dl_lt, hne _ dl_gt, hne _ dl_quot⟩

open Ser in
/-- reading an entity reference of the stash, whatever follows -/
theorem strict_entRef (m : Mode) {e : Str} (he : entRef e = true) (X : Str) :
    ∃ tok, strict m 0 (e ++ X) = (strict m 0 X).map (tok :: ·) := by
  unfold entRef at he
  split at he
  · rename_i b
    simp only [beq_iff_eq] at he
    obtain ⟨_, _, hpre⟩ := entLen_spec b b.length he
    have h1 := hpre X
    rw [List.take_length] at h1
    refine ⟨tokOf m ((b ++ X).take (b.length - 1)), ?_⟩
    rw [List.cons_append, strict, if_pos rfl, h1]
    simp only
    rw [strict_skip]
  · cases he

open Ser in
/-- **the restore keeps a strictly readable string strictly readable** -/
theorem strict_sub (bl : List Str) {stash : List Str} (he : AllEnt stash) (m : Mode) :
    ∀ (n : Nat) (Y : Str), Y.length ≤ n → (strict m 0 Y).isSome = true →
      (strict m 0 (Post.subPass bl stash 0 Y)).isSome = true := by
  intro n
  induction n with
  | zero =>
    intro Y hl h
    have : Y = [] := List.length_eq_zero_iff.1 (by omega)
    subst this; exact h
  | succ n ih =>
    intro Y hl h
    rcases str_cases Y with rfl | ⟨c, r, rfl, hc⟩ | ⟨ds, rest, hds, rfl⟩ | ⟨r, rfl, hn⟩
    · exact h
    · rw [sub_copy' bl he c _ hc]
      have hlr : r.length ≤ n := by simp only [List.length_cons] at hl; omega
      by_cases ha : c = '&'
      · subst ha
        rw [strict, if_pos rfl] at h
        cases hk : entLen r with
        | none => rw [hk] at h; cases h
        | some k =>
          rw [hk] at h
          simp only [Option.isSome_map] at h
          obtain ⟨hkl, _, hpre⟩ := entLen_spec r k hk
          rw [strict_drop m k r hkl] at h
          have hs : NoCtl.STX ∉ r.take k := by
            intro hm
            have := entLen_chars r k hk _ hm
            revert this; decide
          have e1 : Post.subPass bl stash 0 r = r.take k ++ Post.subPass bl stash 0 (r.drop k) := by
            conv => lhs; rw [← List.take_append_drop k r]
            exact sub_plain bl he _ _ hs
          rw [strict, if_pos rfl, e1, hpre]
          simp only [Option.isSome_map]
          have hl2 : (r.take k).length = k := by rw [List.length_take, Nat.min_eq_left hkl]
          have := strict_skip m (r.take k) (Post.subPass bl stash 0 (r.drop k))
          rw [hl2] at this
          rw [this]
          exact ih _ (by rw [List.length_drop]; omega) h
      · rw [strict, if_neg ha] at h ⊢
        split at h
        · cases h
        · rename_i h1
          rw [if_neg h1]
          split at h
          · cases h
          · rename_i h2
            rw [if_neg h2]
            simp only [Option.isSome_map] at h ⊢
            exact ih r hlr h
    · rw [sub_ph bl stash hds]
      rw [strict_inert m _ _ (phStr_inert ds hds)] at h
      simp only [Option.isSome_map] at h
      have hr := ih rest (by simp only [List.length_append, phStr_length] at hl; omega) h
      rcases phOut_ent he ds with he' | he'
      · obtain ⟨tok, ht⟩ := strict_entRef m he' (Post.subPass bl stash 0 rest)
        rw [ht]; simpa using hr
      · rw [he', strict_inert m _ _ (phStr_inert ds hds)]; simpa using hr
    · rw [sub_dead bl stash _ hn]
      have hin : ∀ c ∈ [NoCtl.STX], c ≠ '&' ∧ c ≠ '<' ∧ c ≠ '>' ∧ c ≠ '"' := by
        intro c hc; simp only [List.mem_singleton] at hc; subst hc; decide
      have e1 := strict_inert m [NoCtl.STX] r hin
      have e2 := strict_inert m [NoCtl.STX] (Post.subPass bl stash 0 r) hin
      simp only [List.singleton_append] at e1 e2
      rw [e1] at h; rw [e2]
      simp only [Option.isSome_map] at h ⊢
      exact ih r (by simp only [List.length_cons] at hl; omega) h

open Ser in
/-- a strictly readable string is left alone by the escaper of its position -/
theorem esc1_fix (q : Bool) : ∀ (n : Nat) (X : Str), X.length ≤ n →
    (strict { quot := q, nl := false } 0 X).isSome = true → esc1 q false X = X := by
  intro n
  induction n with
  | zero =>
    intro X hl _
    have : X = [] := List.length_eq_zero_iff.1 (by omega)
    subst this; rfl
  | succ n ih =>
    intro X hl h
    cases X with
    | nil => rfl
    | cons c r =>
      have hlr : r.length ≤ n := by simp only [List.length_cons] at hl; omega
      by_cases ha : c = '&'
      · subst ha
        rw [strict, if_pos rfl] at h
        cases hk : entLen r with
        | none => rw [hk] at h; cases h
        | some k =>
          rw [hk] at h
          simp only [Option.isSome_map] at h
          obtain ⟨hkl, _, _⟩ := entLen_spec r k hk
          rw [strict_drop _ k r hkl] at h
          rw [esc1_entity' q false r k hk, ih _ (by rw [List.length_drop]; omega) h, List.cons_append,
            List.take_append_drop]
      · rw [strict, if_neg ha] at h
        split at h
        · cases h
        · rename_i h1
          split at h
          · cases h
          · rename_i h2
            simp only [Option.isSome_map] at h
            simp only [Bool.or_eq_true, decide_eq_true_eq, not_or] at h1
            have h3 : ¬ (q = true ∧ c = '"') := by simpa using h2
            rw [esc1, if_neg ha, if_neg h1.1, if_neg h1.2]
            have : (q && decide (c = '"')) = false := by
              cases q <;> simp_all
            simp only [this, Bool.false_eq_true, ↓reduceIte, Bool.false_and]
            rw [ih r hlr h]


/-- `RawHtmlPostprocessor.run` on a stash of entity references is one substitution pass -/
theorem rawHtml_eq (bl : List Str) {stash : List Str} (he : AllEnt stash) (text : Str) :
    Post.rawHtml bl stash (Post.rawHtmlFuel stash) text = some (Post.subPass bl stash 0 text) := by
  have hl := allEnt_like he
  have hf : Post.rawHtmlFuel stash = (stash.length + 1) + 1 + 1 := rfl
  rw [hf]
  unfold Post.rawHtml
  split
  · rename_i hemp
    have : stash = [] := by simpa using hemp
    subst this
    rw [subPass_id (hasLive_nil_stash text)]
  · simp only
    split
    · rfl
    · unfold Post.rawHtml
      split
      · rfl
      · simp only
        rw [if_pos (subPass_id (subPass_post hl text)), subPass_id (subPass_post hl text)]

/-! ### the pass does not create the ampersand substitute -/

theorem contains_cons (c : Char) (Y A : Str) :
    contains (c :: Y) A = (startsWith (c :: Y) A || contains Y A) := by
  unfold contains
  rw [find_cons]
  split
  · simp [*]
  · rename_i h
    simp only [Bool.not_eq_true] at h
    simp [h]

theorem contains_noSTX_append (W Y : Str) (hW : NoCtl.STX ∉ W) :
    contains (W ++ Y) Post.ampSubstitute = contains Y Post.ampSubstitute := by
  induction W with
  | nil => rfl
  | cons w r ih =>
    have hw : w ≠ NoCtl.STX := fun e => hW (by rw [e]; exact List.mem_cons_self)
    rw [List.cons_append, contains_cons, ih (fun h => hW (List.mem_cons_of_mem _ h))]
    have : startsWith (w :: (r ++ Y)) Post.ampSubstitute = false := by
      simp only [Post.ampSubstitute, startsWith_cons_cons, Bool.and_eq_false_imp, decide_eq_true_eq]
      intro e; exact absurd e hw
    rw [this]; rfl

theorem contains_phStr_append (ds : Str) (hds : PhDigits ds) (Y : Str) :
    contains (phStr ds ++ Y) Post.ampSubstitute = contains Y Post.ampSubstitute := by
  rw [phStr_eq, List.cons_append, contains_cons]
  have h1 : startsWith (NoCtl.STX :: (('w' :: 'z' :: 'x' :: 'h' :: 'z' :: 'd' :: 'k' :: ':' :: (ds ++ [NoCtl.ETX])) ++ Y))
      Post.ampSubstitute = false := by
    simp [Post.ampSubstitute, startsWith_cons_cons]
  rw [h1, Bool.false_or]
  apply contains_noSTX_append
  intro hm
  have : NoCtl.STX ∈ "wzxhzdk:".toList ++ (ds ++ [NoCtl.ETX]) := hm
  rcases List.mem_append.1 this with hm | hm
  · revert hm; decide
  · rcases List.mem_append.1 hm with hm | hm
    · have := List.all_eq_true.1 hds.2 _ hm
      revert this; decide
    · revert hm; decide

theorem sub_no_amp (bl : List Str) {stash : List Str} (he : AllEnt stash) :
    ∀ (n : Nat) (X : Str), X.length ≤ n → contains X Post.ampSubstitute = false →
      contains (Post.subPass bl stash 0 X) Post.ampSubstitute = false := by
  intro n
  induction n with
  | zero =>
    intro X hl h
    have : X = [] := List.length_eq_zero_iff.1 (by omega)
    subst this; exact h
  | succ n ih =>
    intro X hl h
    rcases str_cases X with rfl | ⟨c, r, rfl, hc⟩ | ⟨ds, rest, hds, rfl⟩ | ⟨r, rfl, hn⟩
    · exact h
    · rw [sub_copy' bl he c _ hc]
      rw [contains_cons, Bool.or_eq_false_iff] at h
      rw [contains_cons, ih r (by simp only [List.length_cons] at hl; omega) h.2, Bool.or_false]
      simp only [Post.ampSubstitute, startsWith_cons_cons, Bool.and_eq_false_imp, decide_eq_true_eq]
      intro e; exact absurd e hc
    · rw [sub_ph bl stash hds]
      rw [contains_phStr_append ds hds] at h
      have hr := ih rest (by simp only [List.length_append, phStr_length] at hl; omega) h
      rcases phOut_ent he ds with he' | he'
      · rw [contains_noSTX_append _ _ (entRef_noSTX he')]; exact hr
      · rw [he', contains_phStr_append ds hds]; exact hr
    · rw [sub_dead bl stash _ hn]
      rw [contains_cons, Bool.or_eq_false_iff] at h
      rw [contains_cons, ih r (by simp only [List.length_cons] at hl; omega) h.2, Bool.or_false]
      cases hsw : startsWith (NoCtl.STX :: Post.subPass bl stash 0 r) Post.ampSubstitute with
      | false => rfl
      | true =>
        exfalso
        have h1 : startsWith (Post.subPass bl stash 0 r) ('a' :: 'm' :: 'p' :: [Post.ETX]) = true := by
          simp only [Post.ampSubstitute, startsWith_cons_cons, Bool.and_eq_true] at hsw
          exact hsw.2
        have h2 := startsWith_subPass (allEnt_like he) _ r h1 (by decide)
        have : startsWith (NoCtl.STX :: r) Post.ampSubstitute = true := by
          simp only [Post.ampSubstitute, startsWith_cons_cons, Bool.and_eq_true]
          exact ⟨by decide, h2⟩
        rw [this] at h; cases h.1

end Restore

/-! ### 3. the pass on a serialised vocabulary tree is the serialisation of a tree -/

section Tree
open Ser

/-- what the restore does to a text (after escaping) -/
def subC (bl stash : List Str) (s : Str) : Str := Post.subPass bl stash 0 (escCdata s)
/-- … and to an attribute value -/
def subA (bl stash : List Str) (v : Str) : Str := Post.subPass bl stash 0 (escAttrHtml v)

mutual
/-- the tree whose serialisation is the restored serialisation of the argument -/
def subTree (fc fa : Str → Str) : Node → Node
  | ⟨tag, attrs, text, ta, children, tail, tla⟩ =>
    ⟨tag, attrs.map (fun kv => (kv.1, fa kv.2)), trimOpt fc text, ta, subKids fc fa children, trimOpt fc tail, tla⟩
def subKids (fc fa : Str → Str) : List Node → List Node
  | [] => []
  | c :: r => subTree fc fa c :: subKids fc fa r
end

theorem escCdata_subC (bl : List Str) {stash : List Str} (he : AllEnt stash) (s : Str) :
    escCdata (subC bl stash s) = subC bl stash s := by
  rw [onepass_cdata']
  apply esc1_fix false _ _ (Nat.le_refl _)
  apply strict_sub bl he cdata _ _ (Nat.le_refl _)
  rw [onepass_cdata']
  have := strict_esc1' cdata s
  rw [show esc1 cdata.quot cdata.nl s = esc1 false false s from rfl] at this
  rw [this]; rfl

theorem escAttr_subA (bl : List Str) {stash : List Str} (he : AllEnt stash) (v : Str) :
    escAttrHtml (subA bl stash v) = subA bl stash v := by
  rw [onepass_attr']
  apply esc1_fix true _ _ (Nat.le_refl _)
  apply strict_sub bl he attr _ _ (Nat.le_refl _)
  rw [onepass_attr']
  have h2 := strict_esc1' attr v
  rw [show esc1 attr.quot attr.nl v = esc1 true false v from rfl] at h2
  rw [h2]; rfl

theorem textStr_sub (bl : List Str) {stash : List Str} (he : AllEnt stash) (t : Option Str) :
    textStr (trimOpt (subC bl stash) t) = Post.subPass bl stash 0 (textStr t) := by
  rw [textStr_trimOpt]
  unfold textStr
  by_cases ht : Node.truthy t = true
  · simp only [ht, ↓reduceIte, escCdata_subC bl he]
    split
    · rename_i h; exact h.symm
    · rfl
  · simp only [ht, Bool.false_eq_true, ↓reduceIte]; rfl


theorem insAttr_map (f : Str → Str) (kv : Str × Str) (l : List (Str × Str)) :
    insAttr (kv.1, f kv.2) (l.map (fun x => (x.1, f x.2))) = (insAttr kv l).map (fun x => (x.1, f x.2)) := by
  induction l with
  | nil => rfl
  | cons x xs ih =>
    simp only [List.map_cons, insAttr]
    split
    · rfl
    · simp only [List.map_cons, ih]

theorem sortAttrs_map (f : Str → Str) (l : List (Str × Str)) :
    sortAttrs (l.map (fun x => (x.1, f x.2))) = (sortAttrs l).map (fun x => (x.1, f x.2)) := by
  induction l with
  | nil => rfl
  | cons x xs ih =>
    simp only [sortAttrs, List.map_cons, List.foldr_cons] at ih ⊢
    rw [ih, insAttr_map]

theorem attrOk_clean {k : Str} (h : attrOk k = true) : NoCtl.STX ∉ k ∧ '&' ∉ k := by
  simp only [attrOk, attrNames, List.any_cons, List.any_nil, Bool.or_false, Bool.or_eq_true,
    decide_eq_true_eq] at h
  rcases h with h | h | h | h <;> subst h <;> decide

theorem vocabTag_clean {t : Str} (h : hasTag vocabTags t = true) : NoCtl.STX ∉ t := by
  simp only [hasTag, vocabTags, List.any_cons, List.any_nil, Bool.or_false, Bool.or_eq_true,
    decide_eq_true_eq] at h
  rcases h with h | h | h | h | h | h | h | h | h | h | h | h | h | h | h | h | h | h | h <;> subst h <;> decide

/-- the attributes -/
theorem sub_writeAttrs (bl : List Str) {stash : List Str} (he : AllEnt stash) (fmt : Fmt) :
    ∀ (as : List (Str × Str)), (∀ kv ∈ as, attrOk kv.1 = true) → ∀ (Z : Str), DelimStart Z →
      Post.subPass bl stash 0 (writeAttrs fmt as ++ Z) =
        writeAttrs fmt (as.map (fun x => (x.1, subA bl stash x.2))) ++ Post.subPass bl stash 0 Z := by
  intro as
  induction as with
  | nil => intro _ Z _; rfl
  | cons kv r ih =>
    intro hk Z hZ
    obtain ⟨k, v⟩ := kv
    have hkc := attrOk_clean (hk (k, v) List.mem_cons_self)
    have ihr := ih (fun x hx => hk x (List.mem_cons_of_mem _ hx)) Z hZ
    simp only [writeAttrs, List.map_cons, escAttr_subA bl he]
    by_cases hb : (decide (k = escAttrHtml v) && decide (fmt = .html)) = true
    · -- minimised boolean attribute: the value is the key, nothing to restore
      have hkv : k = escAttrHtml v := by simp only [Bool.and_eq_true, decide_eq_true_eq] at hb; exact hb.1
      have hsub : subA bl stash v = k := by
        unfold subA; rw [← hkv]; exact sub_plain' bl he k hkc.1
      rw [if_pos hb, hsub, ← hkv]
      have hb' : (decide (k = k) && decide (fmt = .html)) = true := by
        simp only [Bool.and_eq_true, decide_eq_true_eq] at hb ⊢; exact ⟨trivial, hb.2⟩
      rw [if_pos hb', List.append_assoc, List.cons_append,
        sub_copy' bl he ' ' _ (by decide), sub_plain bl he k _ hkc.1, ihr]
      simp
    · rw [if_neg hb]
      have hb' : ¬ (decide (k = subA bl stash v) && decide (fmt = .html)) = true := by
        intro h
        simp only [Bool.and_eq_true, decide_eq_true_eq] at h hb
        apply hb
        refine ⟨?_, h.2⟩
        have := sub_eq_plain bl he _ (escAttrHtml v) k (Nat.le_refl _) h.1.symm hkc.1 hkc.2
        exact this.symm
      rw [if_neg hb']
      have e1 : (' ' :: k ++ "=\"".toList ++ escAttrHtml v ++ ['"']) ++ writeAttrs fmt r ++ Z =
          (' ' :: k ++ "=\"".toList) ++ (escAttrHtml v ++ ('"' :: (writeAttrs fmt r ++ Z))) := by
        simp [List.append_assoc]
      rw [e1, sub_plain bl he _ _ (by
          intro hm
          rcases List.mem_append.1 hm with hm | hm
          · rcases List.mem_cons.1 hm with hm | hm
            · revert hm; decide
            · exact hkc.1 hm
          · revert hm; decide),
        sub_append' bl he _ _ (delimStart_cons dl_quot _), sub_copy' bl he '"' _ (by decide), ihr]
      simp [List.append_assoc, subA]

mutual
theorem subTree_good {ts : List String} (fc fa : Str → Str) : (n : Node) → GoodT ts n = true →
    GoodT ts (subTree fc fa n) = true
  | ⟨tag, attrs, text, ta, children, tail, tla⟩, h => by
    rw [goodT_mk, Bool.and_eq_true] at h
    have hk := subKids_good fc fa children h.2
    simp only [subTree]
    rw [goodT_mk, Bool.and_eq_true]
    refine ⟨nodeOk_attrs (nodeOk_mono h.1 ?_ (fun _ e => hk.2 e)) (by simp [List.map_map, Function.comp_def]), hk.1⟩
    intro hf
    unfold trimOpt; rw [hf]; exact hf
theorem subKids_good {ts : List String} (fc fa : Str → Str) : (l : List Node) → GoodListT ts l = true →
    GoodListT ts (subKids fc fa l) = true ∧ (l = [] → subKids fc fa l = [])
  | [], _ => by simp [subKids, GoodListT]
  | c :: r, h => by
    simp only [GoodListT, Bool.and_eq_true] at h
    refine ⟨?_, fun e => by cases e⟩
    simp only [subKids, GoodListT, Bool.and_eq_true]
    exact ⟨subTree_good fc fa c h.1, (subKids_good fc fa r h.2).1⟩
end


/-- one element without content (`<t attrs />`, `<t attrs>`), its tail, and what follows -/
theorem sub_void_shape (bl : List Str) {stash : List Str} (he : AllEnt stash) (t W W' M TL TL' Y : Str) (d : Char)
    (ht : NoCtl.STX ∉ t) (hW : ∀ Z, DelimStart Z → Post.subPass bl stash 0 (W ++ Z) = W' ++ Post.subPass bl stash 0 Z)
    (hM : NoCtl.STX ∉ d :: M) (hd : Dl d) (hTL : Post.subPass bl stash 0 TL = TL') (hY : DelimStart Y) :
    Post.subPass bl stash 0 ('<' :: (t ++ (W ++ d :: M)) ++ TL ++ Y) =
      '<' :: (t ++ (W' ++ d :: M)) ++ TL' ++ Post.subPass bl stash 0 Y := by
  have e1 : '<' :: (t ++ (W ++ d :: M)) ++ TL ++ Y = ('<' :: t) ++ (W ++ (d :: M ++ (TL ++ Y))) := by
    simp [List.append_assoc]
  have h1 : NoCtl.STX ∉ '<' :: t := by
    intro hm
    rcases List.mem_cons.1 hm with hm | hm
    · revert hm; decide
    · exact ht hm
  rw [e1, sub_plain bl he _ _ h1,
    hW ((d :: M) ++ (TL ++ Y)) (by rw [List.cons_append]; exact delimStart_cons hd _),
    sub_plain bl he _ _ hM, sub_append' bl he TL Y hY, hTL]
  simp [List.append_assoc]

/-- one element with content, its tail, and what follows -/
theorem sub_elem_shape (bl : List Str) {stash : List Str} (he : AllEnt stash) (t W W' TX TX' K K' TL TL' Y : Str)
    (ht : NoCtl.STX ∉ t) (hW : ∀ Z, DelimStart Z → Post.subPass bl stash 0 (W ++ Z) = W' ++ Post.subPass bl stash 0 Z)
    (hTX : Post.subPass bl stash 0 TX = TX')
    (hK : ∀ Z, DelimStart Z → Post.subPass bl stash 0 (K ++ Z) = K' ++ Post.subPass bl stash 0 Z)
    (hKd : ∀ R, DelimStart (K ++ '<' :: R))
    (hTL : Post.subPass bl stash 0 TL = TL') (hY : DelimStart Y) :
    Post.subPass bl stash 0 ('<' :: (t ++ (W ++ '>' :: (TX ++ (K ++ ("</".toList ++ t ++ ['>']))))) ++ TL ++ Y) =
      '<' :: (t ++ (W' ++ '>' :: (TX' ++ (K' ++ ("</".toList ++ t ++ ['>']))))) ++ TL' ++
        Post.subPass bl stash 0 Y := by
  have e1 : '<' :: (t ++ (W ++ '>' :: (TX ++ (K ++ ("</".toList ++ t ++ ['>']))))) ++ TL ++ Y =
      ('<' :: t) ++ (W ++ ('>' :: (TX ++ (K ++ ('<' :: (('/' :: t ++ ['>']) ++ (TL ++ Y))))))) := by
    simp [List.append_assoc]
  have h1 : NoCtl.STX ∉ '<' :: t := by
    intro hm
    rcases List.mem_cons.1 hm with hm | hm
    · revert hm; decide
    · exact ht hm
  have h2 : NoCtl.STX ∉ '/' :: t ++ ['>'] := by
    intro hm
    rcases List.mem_append.1 hm with hm | hm
    · rcases List.mem_cons.1 hm with hm | hm
      · revert hm; decide
      · exact ht hm
    · revert hm; decide
  rw [e1, sub_plain bl he _ _ h1, hW _ (delimStart_cons dl_gt _), sub_copy' bl he '>' _ (by decide),
    sub_append' bl he TX _ (hKd _), hTX, hK _ (delimStart_cons dl_lt _), sub_copy' bl he '<' _ (by decide),
    sub_plain bl he _ _ h2, sub_append' bl he TL Y hY, hTL]
  simp [List.append_assoc]

theorem serialize_head_lt (fmt : Fmt) (n : Node) (h : Good n = true) (R : Str) :
    DelimStart (serialize fmt n ++ R) := by
  obtain ⟨E, hE⟩ := serialize_good_shape fmt n h
  rw [hE]
  exact delimStart_cons dl_lt _

theorem serializeList_delim (fmt : Fmt) (l : List Node) (h : GoodList l = true) (R : Str) :
    DelimStart (serializeList fmt l ++ '<' :: R) := by
  cases l with
  | nil => exact delimStart_cons dl_lt _
  | cons c r =>
    simp only [GoodListT, Bool.and_eq_true] at h
    simp only [serializeList, List.append_assoc]
    exact serialize_head_lt fmt c h.1 _

mutual
/-- **the restore commutes with the serializer** on vocabulary trees -/
theorem sub_serialize (bl : List Str) {stash : List Str} (he : AllEnt stash) (fmt : Fmt) :
    (n : Node) → Good n = true → ∀ (Y : Str), DelimStart Y →
      Post.subPass bl stash 0 (serialize fmt n ++ Y) =
        serialize fmt (subTree (subC bl stash) (subA bl stash) n) ++ Post.subPass bl stash 0 Y
  | ⟨tag, attrs, text, ta, children, tail, tla⟩, h, Y, hY => by
    unfold Good at h
    rw [goodT_mk, Bool.and_eq_true] at h
    have hkids := sub_serializeList bl he fmt children h.2
    cases tag with
    | name t =>
      have h1 := h.1
      simp only [nodeOk, attrsOk, Bool.and_eq_true, Bool.or_eq_true, Bool.not_eq_true', List.all_eq_true,
        List.isEmpty_iff] at h1
      obtain ⟨⟨ht, ha, _⟩, hv⟩ := h1
      obtain ⟨_, f2, f3⟩ := vocabTag_facts ht
      have htc := vocabTag_clean ht
      have hW : ∀ Z, DelimStart Z → Post.subPass bl stash 0 (writeAttrs fmt (sortAttrs attrs) ++ Z) =
          writeAttrs fmt (sortAttrs (attrs.map (fun x => (x.1, subA bl stash x.2)))) ++
            Post.subPass bl stash 0 Z := by
        intro Z hZ
        rw [sortAttrs_map]
        exact sub_writeAttrs bl he fmt _ (fun kv hkv => ha kv (mem_sortAttrs attrs kv hkv)) Z hZ
      have hTL := textStr_sub bl he tail
      have hTX := textStr_sub bl he text
      unfold textStr at hTL hTX
      simp only [serialize, subTree, element_none, f2, Bool.false_eq_true, ↓reduceIte]
      split
      · -- xhtml, void
        exact sub_void_shape bl he t _ _ "/>".toList _ _ Y ' ' htc hW (by decide) dl_space hTL.symm hY
      · by_cases hvoid : isVoidTag t = true
        · -- html, void: no text, no children
          rcases hv with hv | ⟨hnt, hch⟩
          · rw [hv] at hvoid; cases hvoid
          · subst hch
            have hnt' : Node.truthy (trimOpt (subC bl stash) text) = false := by
              unfold trimOpt; rw [hnt]; exact hnt
            simp only [f3, hvoid, hnt, hnt', ↓reduceIte, serializeList, subKids, List.append_nil,
              Bool.false_eq_true]
            exact sub_void_shape bl he t _ _ [] _ _ Y '>' htc hW (by decide) dl_gt hTL.symm hY
        · have hnv : isVoidTag t = false := by simpa using hvoid
          simp only [f3, hnv, Bool.false_eq_true, ↓reduceIte]
          exact sub_elem_shape bl he t _ _ _ _ _ _ _ _ Y htc hW hTX.symm hkids
            (serializeList_delim fmt children h.2) hTL.symm hY
    | _ => simp [nodeOk] at h
theorem sub_serializeList (bl : List Str) {stash : List Str} (he : AllEnt stash) (fmt : Fmt) :
    (l : List Node) → GoodList l = true → ∀ (Y : Str), DelimStart Y →
      Post.subPass bl stash 0 (serializeList fmt l ++ Y) =
        serializeList fmt (subKids (subC bl stash) (subA bl stash) l) ++ Post.subPass bl stash 0 Y
  | [], _, Y, _ => by simp [serializeList, subKids]
  | c :: r, h, Y, hY => by
    simp only [GoodListT, Bool.and_eq_true] at h
    have ih := sub_serializeList bl he fmt r h.2 Y hY
    have hd : DelimStart (serializeList fmt r ++ Y) := by
      cases r with
      | nil => simpa [serializeList] using hY
      | cons c2 r2 =>
        simp only [GoodListT, Bool.and_eq_true] at h
        simp only [serializeList, List.append_assoc]
        exact serialize_head_lt fmt c2 h.2.1 _
    have h1 := sub_serialize bl he fmt c h.1 _ hd
    simp only [serializeList, subKids, List.append_assoc]
    rw [h1, ih]
end


/-- the document after the restore -/
def subRoot (bl stash : List Str) (root : Node) : Node :=
  { root with text := trimOpt (subC bl stash) root.text,
              children := subKids (subC bl stash) (subA bl stash) root.children }

theorem serializeList_delimStart (fmt : Fmt) (l : List Node) (h : GoodList l = true) :
    DelimStart (serializeList fmt l) := by
  cases l with
  | nil => exact delimStart_nil
  | cons c r =>
    simp only [GoodListT, Bool.and_eq_true] at h
    simp only [serializeList]
    exact serialize_head_lt fmt c h.1 _

/-- the restore on the content of the wrapper -/
theorem sub_inner (bl : List Str) {stash : List Str} (he : AllEnt stash) (fmt : Fmt) (root : Node)
    (hd : DocOk root = true) :
    Post.subPass bl stash 0 (inner fmt root) = inner fmt (subRoot bl stash root) ∧
      DocOk (subRoot bl stash root) = true := by
  simp only [DocOk, Bool.and_eq_true, beq_iff_eq, List.isEmpty_iff] at hd
  obtain ⟨⟨htag, hattrs⟩, hk⟩ := hd
  refine ⟨?_, ?_⟩
  · rw [inner_eq, inner_eq, sub_append' bl he _ _ (serializeList_delimStart fmt _ hk)]
    have := sub_serializeList bl he fmt root.children hk [] delimStart_nil
    simp only [List.append_nil, sub_nil] at this
    rw [this]
    show _ = textStr (trimOpt (subC bl stash) root.text) ++ _
    rw [textStr_sub bl he]
    rfl
  · simp only [DocOk, subRoot, Bool.and_eq_true, beq_iff_eq, List.isEmpty_iff]
    exact ⟨⟨htag, hattrs⟩, (subKids_good _ _ _ hk).1⟩

/-- **the end of `convert` on a document tree**: with a stash of entity references and no ampersand substitute in
    the serialisation, the result exists, is accepted by the strict reader and lies in the vocabulary -/
theorem finish_reads (bl : List Str) {stash : List Str} (he : AllEnt stash) (fmt : Fmt) (u : Node)
    (hd : DocOk u = true) (hamp : contains (inner fmt u) Post.ampSubstitute = false) :
    ∃ out forest, Post.finish bl stash (serialize fmt u) = some (some out) ∧
      readForest fmt out = some forest ∧ RGoodList forest = true := by
  obtain ⟨e1, hd1⟩ := strip_inner fmt u hd
  obtain ⟨e2, hd2⟩ := sub_inner bl he fmt _ hd1
  have ha0 : contains (strip (inner fmt u)) Post.ampSubstitute = false := contains_infix hamp (strip_infix _)
  have ha1 := sub_no_amp bl he _ _ (Nat.le_refl _) ha0
  have h2 : Post.ampSub (Post.subPass bl stash 0 (strip (inner fmt u))) =
      Post.subPass bl stash 0 (strip (inner fmt u)) := replace_id_of_not_contains _ ha1
  refine ⟨strip (inner fmt (subRoot bl stash (trimRoot u))), _, ?_, strip_inner_reads fmt _ hd2⟩
  unfold Post.finish
  rw [topLevelStrip_doc fmt u hd]
  simp only [Post.post, rawHtml_eq bl he, Option.map_some, h2]
  rw [e1, e2]

/-- `Markdown.convert` on a text without `<` -/
theorem convert_reads (cfg : Pipeline.Cfg) (src out : Str) (hlt : src.contains '<' = false)
    (hamp : ∀ u html, Pipeline.tree cfg src = some (some (u, html)) →
      contains (inner cfg.fmt u) Post.ampSubstitute = false)
    (hc : Pipeline.convert cfg src = .ok out) :
    ∃ forest, readForest cfg.fmt out = some forest ∧ RGoodList forest = true := by
  unfold Pipeline.convert at hc
  simp only [hlt, Bool.false_eq_true, ↓reduceIte] at hc
  split at hc
  · injection hc with e; subst e
    exact ⟨[], readForest_nil _, rfl⟩
  · split at hc
    · cases hc
    · cases hc
    · rename_i u html ht
      obtain ⟨out', forest, h1, h2, h3⟩ :=
        finish_reads cfg.blockLevel (tree_ent cfg src u html ht) cfg.fmt u (tree_docOk cfg src u html ht)
          (hamp u html ht)
      rw [h1] at hc
      injection hc with e; subst e
      exact ⟨forest, h2, h3⟩


/-- without any hypothesis on the ampersand substitute: the output is `AndSubstitutePostprocessor` + `strip` applied to
    a well-formed fragment of the vocabulary -/
theorem finish_shape (bl : List Str) {stash : List Str} (he : AllEnt stash) (fmt : Fmt) (u : Node)
    (hd : DocOk u = true) :
    ∃ X forest, Post.finish bl stash (serialize fmt u) = some (some (strip (Post.ampSub X))) ∧
      readForest fmt X = some forest ∧ RGoodList forest = true := by
  obtain ⟨e1, hd1⟩ := strip_inner fmt u hd
  obtain ⟨e2, hd2⟩ := sub_inner bl he fmt _ hd1
  refine ⟨inner fmt (subRoot bl stash (trimRoot u)), _, ?_, inner_reads fmt _ hd2⟩
  unfold Post.finish
  rw [topLevelStrip_doc fmt u hd]
  simp only [Post.post, rawHtml_eq bl he, Option.map_some]
  rw [e1, e2]

theorem convert_shape (cfg : Pipeline.Cfg) (src out : Str) (hlt : src.contains '<' = false)
    (hc : Pipeline.convert cfg src = .ok out) :
    ∃ X forest, out = strip (Post.ampSub X) ∧ readForest cfg.fmt X = some forest ∧ RGoodList forest = true := by
  unfold Pipeline.convert at hc
  simp only [hlt, Bool.false_eq_true, ↓reduceIte] at hc
  split at hc
  · injection hc with e; subst e
    exact ⟨[], [], by decide, readForest_nil _, rfl⟩
  · split at hc
    · cases hc
    · cases hc
    · rename_i u html ht
      obtain ⟨X, forest, h1, h2, h3⟩ :=
        finish_shape cfg.blockLevel (tree_ent cfg src u html ht) cfg.fmt u (tree_docOk cfg src u html ht)
      rw [h1] at hc
      injection hc with e; subst e
      exact ⟨X, forest, rfl, h2, h3⟩

end Tree

end MdVerif.Vocab2
