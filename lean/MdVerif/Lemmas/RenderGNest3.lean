/-
Helper lemmas for `Props/C16RenderG.lean`, part 27: a nested admonition — `convertX` end to end.

Core Lean only.
-/
import MdVerif.Lemmas.RenderGNest2

namespace MdVerif.RenderG
open Py Block BlockExt MdVerif.RenderX

theorem quietTree_admDivG (kl : Str) (ttl : Option Str) (b : Para) (httl : ∀ c ∈ ttl.getD [], DocSpec.isAlnumSp c = true)
    (hb : ParaOK b) : quietTree false (admDivG kl ttl [pText b]) = true := by
  have hq0 := quietKids_admDoc kl ttl [b] [] httl (by intro p hp; simp at hp; subst hp; exact hb) (by intro p hp; cases hp)
  simpa only [List.map_cons, List.map_nil, pNodes, rootOf, quietKids, Bool.and_true] using hq0

theorem noFnDiv_admDivG (kl : Str) (ttl : Option Str) (texts : List Str) : noFnDiv (admDivG kl ttl texts) = true := by
  have h0 := noFnDiv_admDoc kl ttl texts []
  simp only [pNodes, List.map_nil, rootOf, Node.el, noFnDiv, noFnDivKids, Bool.and_true, Bool.and_eq_true] at h0
  exact h0.2

theorem safeLine_indent' (tab : Nat) (l : Str) (h : SafeLine l) (hne : l ≠ []) : SafeLine (CodeLaw.indentLine tab l) := by
  obtain ⟨a, t, rfl⟩ : ∃ a t, l = a :: t := by cases l <;> simp_all
  have e : CodeLaw.indentLine tab (a :: t) = spaces tab ++ (a :: t) := by simp [CodeLaw.indentLine]
  rw [e]
  have hs := h.safe
  simp only [DocParse.lineSafe, Bool.and_eq_true, List.all_eq_true, Bool.or_eq_true, bne_iff_ne, ne_eq,
    List.any_eq_true] at hs
  refine ⟨?_, ?_⟩
  · simp only [DocParse.lineSafe, Bool.and_eq_true, List.all_eq_true, Bool.or_eq_true, bne_iff_ne, ne_eq,
      List.any_eq_true]
    refine ⟨?_, Or.inr ?_⟩
    · intro c hc
      rcases List.mem_append.1 hc with h' | h'
      · have : c = ' ' := by simpa [spaces] using (List.mem_replicate.1 h').2
        subst this; decide
      · exact hs.1 c h'
    · rcases hs.2 with h' | ⟨c, hc, hcn⟩
      · simp at h'
      · exact ⟨c, List.mem_append_right _ hc, hcn⟩
  · intro c hc
    rcases List.mem_append.1 hc with h' | h'
    · have : c = ' ' := by simpa [spaces] using (List.mem_replicate.1 h').2
      subst this; decide
    · exact h.ascii c h'

theorem convertX_nest (x : PipelineX.Exts) (hadm : x.admonition = true) (hnl : x.nl2br = false)
    (hf : x.fencedCode = false) (htb : x.tables = false) (hal : x.attrList = false) (htoc : x.toc = false)
    (cfg : Pipeline.Cfg) (hbl : cfg.blockLevel = TreeProc.defaultBlockLevel) (htab : 0 < cfg.tab)
    (k1 : Str) (t1 s1 : Option Str) (b1 : Para) (k2 : Str) (t2 s2 : Option Str) (b2 : Para)
    (hk1 : PlainFacts k1) (ht1 : ∀ t, t1 = some t → ∀ c ∈ t, DocSpec.isAlnumSp c = true)
    (hs1 : ∀ c ∈ s1.getD [], DocSpec.isAlnumSp c = true) (hb1 : ParaOK b1) (hc1 : admClassTitle k1 t1 = (k1, s1))
    (hk2 : PlainFacts k2) (ht2 : ∀ t, t2 = some t → ∀ c ∈ t, DocSpec.isAlnumSp c = true)
    (hs2 : ∀ c ∈ s2.getD [], DocSpec.isAlnumSp c = true) (hb2 : ParaOK b2) (hc2 : admClassTitle k2 t2 = (k2, s2)) :
    PipelineX.convertX x cfg (nestSrc cfg.tab k1 t1 b1 k2 t2 b2) =
      .ok (nestOut k1 s1 (pText b1) k2 s2 (pText b2)) := by
  have q : ∀ (t : Option Str), (∀ u, t = some u → ∀ c ∈ u, DocSpec.isAlnumSp c = true) →
      ∀ u, t = some u → ∀ c ∈ u, c ≠ '\n' ∧ c ≠ '"' := by
    intro t h u hu c hc
    have f := alnumSp_quiet (h u hu c hc)
    exact ⟨f.2.1, f.2.2.2.2.2.2.1⟩
  -- the front
  have hblocks : ∀ bl ∈ [admHeader k1 t1 :: CodeLaw.indentLines cfg.tab (pLines b1), nestLines cfg.tab k2 t2 b2],
      bl ≠ [] := by
    intro bl hbl'
    simp only [List.mem_cons, List.mem_nil_iff, or_false] at hbl'
    rcases hbl' with rfl | rfl <;> simp [nestLines, CodeLaw.indentLines]
  have hsrc : nestSrc cfg.tab k1 t1 b1 k2 t2 b2 = joinLines (chunkLines
      [admHeader k1 t1 :: CodeLaw.indentLines cfg.tab (pLines b1), nestLines cfg.tab k2 t2 b2]) := by
    rw [← joinChunks_joinLines _ hblocks]; rfl
  obtain ⟨s1', s2', s3, s4, s5⟩ := front_lines cfg.tab (chunkLines
      [admHeader k1 t1 :: CodeLaw.indentLines cfg.tab (pLines b1), nestLines cfg.tab k2 t2 b2])
    (chunkLines_ne _ _ (by simp))
    (by
      intro l hl
      rcases mem_chunkLines _ l hl with rfl | ⟨bl, hbl', hlb⟩
      · exact safeLine_nil
      · simp only [List.mem_cons, List.mem_nil_iff, or_false] at hbl'
        rcases hbl' with rfl | rfl
        · rcases List.mem_cons.1 hlb with rfl | hlb
          · exact safeLine_header k1 t1 hk1 ht1
          · obtain ⟨y, hy, rfl⟩ := List.mem_map.1 hlb
            exact safeLine_indent cfg.tab y (hb1 y hy)
        · obtain ⟨y, hy, rfl⟩ := List.mem_map.1 hlb
          rcases List.mem_cons.1 hy with rfl | hy
          · exact safeLine_indent' cfg.tab _ (safeLine_header k2 t2 hk2 ht2) (admHeader_ne k2 t2)
          · obtain ⟨z, hz, rfl⟩ := List.mem_map.1 hy
            exact safeLine_indent' cfg.tab _ (safeLine_indent cfg.tab z (hb2 z hz)) (indentLine_facts cfg.tab z (hb2 z hz)).1)
    ⟨'!', by
      rw [← hsrc]
      show '!' ∈ DocParse.joinChunks [admSrc cfg.tab k1 t1 (pLines b1), nestBlock cfg.tab k2 t2 b2]
      simp only [DocParse.joinChunks]
      rw [show admSrc cfg.tab k1 t1 (pLines b1) = admSrc cfg.tab k1 t1 (b1.1 :: b1.2) from rfl, admSrc_eq]
      simp [admHeader], by decide⟩
  rw [← hsrc] at s1' s2' s3 s4 s5
  -- the block stage
  have hblk := parseDocumentXT_nest x.blockCfg (by simpa [PipelineX.Exts.blockCfg] using hadm) cfg.tab htab k1 t1 s1 b1
    k2 t2 s2 b2 hk1 (q t1 ht1) hb1 hc1 hk2 (q t2 ht2) hb2 hc2
  -- the inline stage
  have hq2 := quietTree_admDivG k2 s2 b2 hs2 hb2
  have hq1 := quietTree_admDivG k1 s1 b1 hs1 hb1
  have hquiet : quietKids false (rootOf [nestDiv k1 s1 (pText b1) (admDivG k2 s2 [pText b2])]).children = true := by
    have hk1' : quietKids false (titleKids s1 ++ [mkText "p" (pText b1)]) = true := by
      have : quietTree false (admDivG k1 s1 [pText b1]) =
          quietKids false (titleKids s1 ++ [mkText "p" (pText b1)]) := by
        rw [admDivG_eq]
        simp [quietTree, Node.truthy]
      rw [← this]; exact hq1
    have hD : quietTree false (nestDiv k1 s1 (pText b1) (admDivG k2 s2 [pText b2])) = true := by
      have : quietTree false (nestDiv k1 s1 (pText b1) (admDivG k2 s2 [pText b2])) =
          quietKids false ((titleKids s1 ++ [mkText "p" (pText b1)]) ++ [admDivG k2 s2 [pText b2]]) := by
        simp [nestDiv, quietTree, Node.truthy]
      rw [this]
      exact MdVerif.RenderG.quietKids_append _ _ hk1' (by simp only [quietKids, hq2, Bool.and_self])
    simp only [rootOf, quietKids, hD, Bool.and_self]
  have hrun := fun (ic : Inline.Cfg) (keys : List Str) =>
    runX_quiet { cfg := ic, table := InlineX.table x.footnotes x.wikilinks false, fnKeys := keys } false
      (fun hm => nl_mem_table _ _ false hm) (Nat.le_trans (by decide) (table_length _ _ false)) _ [] hquiet
  -- the tree stages
  have hpre := prettify_nest k1 s1 (pText b1) k2 s2 (pText b2)
  have stxk : ∀ (k : Str), PlainFacts k → TreeProc.STX ∉ k := fun k hk hm => (alnumSp_quiet (hk.chars _ hm)).2.2.1 rfl
  have stxs : ∀ (s : Option Str), (∀ c ∈ s.getD [], DocSpec.isAlnumSp c = true) → TreeProc.STX ∉ s.getD [] :=
    fun s hs hm => (alnumSp_quiet (hs _ hm)).2.2.1 rfl
  have hbt1 := pText_facts b1 hb1
  have hbt2 := pText_facts b2 hb2
  have hun := unescapeTree_nest k1 s1 (pText b1) k2 s2 (pText b2) (stxk k1 hk1) (stxs s1 hs1) hbt1.1 (stxk k2 hk2)
    (stxs s2 hs2) hbt2.1
  have attrk : ∀ (k : Str), PlainFacts k → ∀ c ∈ k, c ≠ '&' ∧ c ≠ '<' ∧ c ≠ '>' ∧ c ≠ '"' :=
    fun k hk c hc => let f := alnumSp_quiet (hk.chars c hc); ⟨f.2.2.2.1, f.2.2.2.2.1, f.2.2.2.2.2.1, f.2.2.2.2.2.2.1⟩
  have escs : ∀ (s : Option Str), (∀ c ∈ s.getD [], DocSpec.isAlnumSp c = true) → Ser.escCdata (s.getD []) = s.getD [] :=
    fun s hs => CodeLaw.escCdata_plain _ (fun c hc => let f := alnumSp_quiet (hs c hc); ⟨f.2.2.2.1, f.2.2.2.2.1, f.2.2.2.2.2.1⟩)
  have hser := serialize_nest cfg.fmt k1 s1 (pText b1) k2 s2 (pText b2) (attrk k1 hk1) (escs s1 hs1) hbt1.2.1
    (attrk k2 hk2) (escs s2 hs2) hbt2.2.1
  have hJ : Post.STX ∉ nestOut k1 s1 (pText b1) k2 s2 (pText b2) := by
    have h2 := stx_admOutG k2 s2 [pText b2] [] (stxk k2 hk2) (stxs s2 hs2)
      (by intro t h; simp at h; subst h; exact hbt2.2.2) (by intro t h; cases h)
    have e : admOutG k2 s2 [pText b2] [] = admHtml k2 s2 [pText b2] := by simp [admOutG, psHtmlAfter]
    rw [e] at h2
    have hT : Post.STX ∉ titleHtml s1 := by
      unfold titleHtml
      split
      · exact stx_app (stx_app (stx_app (by decide +kernel) (stxs s1 hs1)) (by decide +kernel)) (by decide)
      · simp
    unfold nestOut
    exact stx_app (stx_app (stx_app (stx_app (stx_app (stx_app (by decide +kernel) (stxk k1 hk1)) (by decide +kernel)) hT)
      (stx_psHtml [pText b1] (by intro t h; simp at h; subst h; exact hbt1.2.2))) (stx_app h2 (by decide)))
      (by decide +kernel)
  have hends : (nestOut k1 s1 (pText b1) k2 s2 (pText b2)).head? = some '<' ∧
      (nestOut k1 s1 (pText b1) k2 s2 (pText b2)).getLast? = some '>' := by
    have h1 : ∃ r, lV1 = '<' :: r := ⟨"div class=\"admonition ".toList, by decide +kernel⟩
    have h2 : ∃ r, lV3 = r ++ ['>'] := ⟨"</div".toList, by decide +kernel⟩
    obtain ⟨r1, e1⟩ := h1
    obtain ⟨r2, e2⟩ := h2
    unfold nestOut
    rw [e1, e2]
    constructor
    · simp
    · rw [← List.append_assoc, List.getLast?_append]; simp
  have hfin := finishX_wrapped' x cfg (nestOut k1 s1 (pText b1) k2 s2 (pText b2)) hJ
    (fun c hc => by rw [hends.1] at hc; cases hc; decide)
    (fun c hc => by rw [hends.2] at hc; cases hc; decide)
  have hfo : BlockExt.footnotesOf [] = [] := rfl
  have hab : BlockExt.abbrsOf [] = [] := rfl
  have hmk : ∀ p fc, FootnotesTree.makeDiv p fc [] [] = .ok (none, []) := fun _ _ => rfl
  have habbr : ∀ t, AbbrTree.run [] t = t := fun _ => rfl
  have hnofn : noFnDiv (rootOf [nestDiv k1 s1 (pText b1) (admDivG k2 s2 [pText b2])]) = true := by
    have hn1 := noFnDiv_admDivG k1 s1 [pText b1]
    have hn2 := noFnDiv_admDivG k2 s2 [pText b2]
    rw [admDivG_eq] at hn1
    simp only [noFnDiv, Bool.and_eq_true] at hn1
    have hkids : noFnDivKids ((titleKids s1 ++ [mkText "p" (pText b1)]) ++ [admDivG k2 s2 [pText b2]]) = true := by
      rw [noFnKids_append]
      simp only [List.map_cons, List.map_nil] at hn1
      simp [hn1.2, noFnDivKids, hn2]
    simp only [rootOf, Node.el, noFnDiv, noFnDivKids, nestDiv, hkids, hn1.1, Bool.and_true, Bool.and_self]
    simp
  have hdup := fun fn => duplicates_noFn fn _ hnofn
  simp only [PipelineX.convertX, s1', s2', PipelineX.Exts.unsupported, Bool.false_eq_true, if_false,
    PipelineX.treeX, PipelineX.prepareX, s3, s4, s5, Bool.and_false, hf, htb, hblk, hfo, hmk, hnl, hal, htoc]
  cases hfn : x.footnotes <;> cases hab' : x.abbr <;>
    simp only [hfn, hab', Bool.false_eq_true, if_false, if_true, List.map_nil, PipelineX.refsX, Bool.or_self,
      Bool.or_true, Bool.or_false, Bool.true_or, BlockExt.refsOf, List.filter_nil, PipelineX.escX, htb, Bool.false_and] <;>
    (rw [hfn] at hrun; rw [hrun]; simp only [hdup, hbl, hpre, hab, habbr, hun, hser]; exact hfin)

end MdVerif.RenderG
