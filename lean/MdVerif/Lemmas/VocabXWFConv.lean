/-
Lemmas for C05 on the extension model, output level, part 5: `convertX` end to end, without fenced_code and
attr_list.  The HTML stash that `treeX` returns holds entity references only (`treeX_allEnt`); with a well-formed
tree under the plain wrapper `div` (`Lemmas/VocabXWFPipe*.lean`) the lemmas of `Lemmas/VocabXWFFinish.lean` apply.
Core Lean only.
-/
import MdVerif.Lemmas.VocabXWFFinish
import MdVerif.Lemmas.VocabXWFStash
import MdVerif.Lemmas.VocabXWFBridge

namespace MdVerif.VocabXOut
open Py Ser Vocab2 PipelineX VocabX
open BlockExt (NI NI_iff allNodes allKids)

/-- the preprocessors store nothing without fenced_code -/
theorem prepareX_stash_nil {x : Exts} (hfc : x.fencedCode = false) {cfg : Pipeline.Cfg} {src text : Str}
    {stash : List Str} (h : prepareX x cfg src = .ok (text, stash)) : stash = [] := by
  unfold prepareX at h
  simp only [hfc, Bool.false_eq_true, if_false] at h
  split at h
  · cases h
  · simp only [FootnotesTree.R.ok.injEq, Prod.mk.injEq] at h
    exact h.2.symm

/-- **without fenced_code the HTML stash of `treeX` holds entity references only** -/
theorem treeX_allEnt' (x : Exts) (cfg : Pipeline.Cfg) (src : Str)
    (hst : ∀ text stash, prepareX x cfg src = .ok (text, stash) → stash = []) (u : Node)
    (html : List Str) (h : treeX x cfg src = .ok u html) : AllEnt html := by
  unfold treeX at h
  split at h
  · cases h
  · cases h
  · rename_i text stash hprep
    have hs := hst _ _ hprep
    subst hs
    split at h
    · cases h
    · dsimp only at h
      split at h
      · cases h
      · cases h
      · split at h
        · cases h
        · rename_i t xs hrun
          have hent := Stash.runX_entRef _ hrun
          split at h
          · cases h
          · split at h
            · cases h
            · cases h
            · cases h
            · split at h
              · cases h
              · simp only [TreeResult.ok.injEq] at h
                obtain ⟨_, rfl⟩ := h
                intro e he
                rcases hent e he with h' | h'
                · cases h'
                · exact h'

theorem treeX_allEnt (x : Exts) (hfc : x.fencedCode = false) (cfg : Pipeline.Cfg) (src : Str) (u : Node)
    (html : List Str) (h : treeX x cfg src = .ok u html) : AllEnt html :=
  treeX_allEnt' x cfg src (fun _ _ e => prepareX_stash_nil hfc e) u html h

theorem allKids_of_NI {qt : Tag → List (Str × Str) → Bool} {u : Node} (h : NI qt u) : allKids qt u.children = true := by
  have := h
  unfold NI at this
  rw [BlockExt.allNodes_eq, Bool.and_eq_true] at this
  exact this.2

/-- **`convertX` on a `<`-free source**, given the well-formedness of the tree: the output reads back inside the
    vocabulary of the enabled extensions -/
theorem convertX_reads_named (x : Exts) (cfg : Pipeline.Cfg)
    (src out : Str) (hst : ∀ text stash, prepareX x cfg src = .ok (text, stash) → stash = [])
    (hnames : ∀ u html, treeX x cfg src = .ok u html → NI VocabXWF.keysNamed u)
    (hwf : ∀ u html, treeX x cfg src = .ok u html → VocabXWF.WF u ∧ u.tag = .name "div".toList ∧ u.attrs = [])
    (hamp : ∀ u html, treeX x cfg src = .ok u html → contains (inner cfg.fmt u) Post.ampSubstitute = false)
    (hc : convertX x cfg src = .ok out) :
    ∃ forest, readForest cfg.fmt out = some forest ∧ RXL (tagOkX x) (keyOkX x) forest = true := by
  unfold convertX at hc
  split at hc
  · cases hc
  · split at hc
    · cases hc
    · split at hc
      · simp only [Pipeline.Outcome.ok.injEq] at hc
        subst hc
        exact ⟨[], readForest_nil _, rfl⟩
      · split at hc
        · cases hc
        · cases hc
        · cases hc
        · rename_i u html ht
          obtain ⟨hw, htag, hattrs⟩ := hwf u html ht
          have hq := treeX_NI x cfg src u html ht
          have hn := hnames u html ht
          have hgn := VocabXWF.gn_of x u hq hn hw
          have hk : GNL u.children = true := by
            obtain ⟨tag, attrs, text, ta, children, tail, tla⟩ := u
            cases tag <;> simp only [GN, Bool.and_eq_true] at hgn
            · exact hgn.2
            all_goals exact absurd hgn.1 (by simp)
          have hqk : allKids (qtOf (tagOkX x) (keyOkX x)) u.children = true := by
            rw [← qtX_eq]; exact allKids_of_NI hq
          have hd : C14X.rootDiv u = true := by simp [C14X.rootDiv, htag, hattrs]
          obtain ⟨out', forest, h1, h2, h3⟩ :=
            finishX_reads x cfg (treeX_allEnt' x cfg src hst u html ht) u hd hk hqk (hamp u html ht)
          rw [h1] at hc
          simp only [Pipeline.Outcome.ok.injEq] at hc
          subst hc
          exact ⟨forest, h2, h3⟩

/-- the same without any hypothesis on the ampersand substitute -/
theorem convertX_shape_named (x : Exts) (cfg : Pipeline.Cfg)
    (src out : Str) (hst : ∀ text stash, prepareX x cfg src = .ok (text, stash) → stash = [])
    (hnames : ∀ u html, treeX x cfg src = .ok u html → NI VocabXWF.keysNamed u)
    (hwf : ∀ u html, treeX x cfg src = .ok u html → VocabXWF.WF u ∧ u.tag = .name "div".toList ∧ u.attrs = [])
    (hc : convertX x cfg src = .ok out) :
    ∃ X forest, out = strip (Post.ampSub X) ∧ readForest cfg.fmt X = some forest ∧
      RXL (tagOkX x) (keyOkX x) forest = true := by
  unfold convertX at hc
  split at hc
  · cases hc
  · split at hc
    · cases hc
    · split at hc
      · simp only [Pipeline.Outcome.ok.injEq] at hc
        subst hc
        exact ⟨[], [], by decide, readForest_nil _, rfl⟩
      · split at hc
        · cases hc
        · cases hc
        · cases hc
        · rename_i u html ht
          obtain ⟨hw, htag, hattrs⟩ := hwf u html ht
          have hq := treeX_NI x cfg src u html ht
          have hn := hnames u html ht
          have hgn := VocabXWF.gn_of x u hq hn hw
          have hk : GNL u.children = true := by
            obtain ⟨tag, attrs, text, ta, children, tail, tla⟩ := u
            cases tag <;> simp only [GN, Bool.and_eq_true] at hgn
            · exact hgn.2
            all_goals exact absurd hgn.1 (by simp)
          have hqk : allKids (qtOf (tagOkX x) (keyOkX x)) u.children = true := by
            rw [← qtX_eq]; exact allKids_of_NI hq
          have hd : C14X.rootDiv u = true := by simp [C14X.rootDiv, htag, hattrs]
          obtain ⟨X, forest, h1, h2, h3⟩ :=
            finishX_shape x cfg (treeX_allEnt' x cfg src hst u html ht) u hd hk hqk
          rw [h1] at hc
          simp only [Pipeline.Outcome.ok.injEq] at hc
          subst hc
          exact ⟨X, forest, rfl, h2, h3⟩

/-- without attr_list the names hypothesis holds -/
theorem convertX_reads (x : Exts) (hal : x.attrList = false) (hfc : x.fencedCode = false) (cfg : Pipeline.Cfg)
    (src out : Str)
    (hwf : ∀ u html, treeX x cfg src = .ok u html → VocabXWF.WF u ∧ u.tag = .name "div".toList ∧ u.attrs = [])
    (hamp : ∀ u html, treeX x cfg src = .ok u html → contains (inner cfg.fmt u) Post.ampSubstitute = false)
    (hc : convertX x cfg src = .ok out) :
    ∃ forest, readForest cfg.fmt out = some forest ∧ RXL (tagOkX x) (keyOkX x) forest = true :=
  convertX_reads_named x cfg src out (fun _ _ e => prepareX_stash_nil hfc e)
    (fun u html ht => VocabXWF.keysNamed_of_qtX x hal (treeX_NI x cfg src u html ht)) hwf hamp hc

theorem convertX_shape (x : Exts) (hal : x.attrList = false) (hfc : x.fencedCode = false) (cfg : Pipeline.Cfg)
    (src out : Str)
    (hwf : ∀ u html, treeX x cfg src = .ok u html → VocabXWF.WF u ∧ u.tag = .name "div".toList ∧ u.attrs = [])
    (hc : convertX x cfg src = .ok out) :
    ∃ X forest, out = strip (Post.ampSub X) ∧ readForest cfg.fmt X = some forest ∧
      RXL (tagOkX x) (keyOkX x) forest = true :=
  convertX_shape_named x cfg src out (fun _ _ e => prepareX_stash_nil hfc e)
    (fun u html ht => VocabXWF.keysNamed_of_qtX x hal (treeX_NI x cfg src u html ht)) hwf hc

end MdVerif.VocabXOut
