/-
String-level lemmas for C14: the escapers as one pass, the strict reader on escaped text.  Core Lean only.
-/
import MdVerif.Spec.Reader

namespace MdVerif.Ser
open Py

/-! ### `replace` for one-character patterns; the multi-pass escapers are one pass -/

theorem rep1_cons (a : Char) (b : Str) (c : Char) (s : Str) :
    replaceAux [a] b 0 (c :: s) = if c = a then b ++ replaceAux [a] b 0 s else c :: replaceAux [a] b 0 s := by
  simp [replaceAux, startsWith]

theorem replace1 (a : Char) (b s : Str) : replace s [a] b = replaceAux [a] b 0 s := by
  simp [replace]

theorem onepass_cdata' (s : Str) : escCdata s = esc1 false false s := by
  simp only [escCdata, replace1]
  induction s with
  | nil => rfl
  | cons c r ih =>
    simp only [ampSub, esc1]
    by_cases h1 : c = '&'
    · subst h1
      cases entLen r <;> simpa [rep1_cons] using ih
    · by_cases h2 : c = '<'
      · subst h2; simpa [rep1_cons] using ih
      · by_cases h3 : c = '>'
        · subst h3; simpa [rep1_cons] using ih
        · simpa [rep1_cons, h1, h2, h3] using ih

theorem onepass_attr' (s : Str) : escAttrHtml s = esc1 true false s := by
  simp only [escAttrHtml, replace1, onepass_cdata']
  induction s with
  | nil => rfl
  | cons c r ih =>
    simp only [esc1]
    by_cases h1 : c = '&'
    · subst h1
      cases entLen r <;> simpa [rep1_cons] using ih
    · by_cases h2 : c = '<'
      · subst h2; simpa [rep1_cons] using ih
      · by_cases h3 : c = '>'
        · subst h3; simpa [rep1_cons] using ih
        · by_cases h4 : c = '"'
          · subst h4; simpa [rep1_cons] using ih
          · simpa [rep1_cons, h1, h2, h3, h4] using ih

theorem onepass_attrib' (s : Str) : escAttrib s = esc1 true true s := by
  simp only [escAttrib, replace1, onepass_attr']
  induction s with
  | nil => rfl
  | cons c r ih =>
    simp only [esc1]
    by_cases h1 : c = '&'
    · subst h1
      cases entLen r <;> simpa [rep1_cons] using ih
    · by_cases h2 : c = '<'
      · subst h2; simpa [rep1_cons] using ih
      · by_cases h3 : c = '>'
        · subst h3; simpa [rep1_cons] using ih
        · by_cases h4 : c = '"'
          · subst h4; simpa [rep1_cons] using ih
          · by_cases h5 : c = '\n'
            · subst h5; simpa [rep1_cons] using ih
            · simpa [rep1_cons, h1, h2, h3, h4, h5] using ih

/-! ### entity bodies -/

/-- characters the escapers leave alone -/
def plain (c : Char) : Bool := !(c = '&' || c = '<' || c = '>' || c = '"' || c = '\n')

theorem esc1_body (q n : Bool) (b r : Str) (h : ∀ c ∈ b, plain c = true) : esc1 q n (b ++ r) = b ++ esc1 q n r := by
  induction b with
  | nil => rfl
  | cons c cs ih =>
    have hc := h c (by simp)
    have ih' := ih (fun c hc' => h c (by simp [hc']))
    simp [plain] at hc
    simp [esc1, hc, ih']

theorem lenient_skip (m : Mode) (b t : Str) : lenient m b.length (b ++ t) = lenient m 0 t := by
  induction b with
  | nil => rfl
  | cons c cs ih => simpa [lenient] using ih

theorem strict_skip (m : Mode) (b t : Str) : strict m b.length (b ++ t) = strict m 0 t := by
  induction b with
  | nil => rfl
  | cons c cs ih => simpa [strict] using ih

/-- facts about a class run closed by ';' -/
theorem spanLen_le (p : Char → Bool) (r : Str) : spanLen p r ≤ r.length := by
  induction r with
  | nil => simp [spanLen]
  | cons c cs ih => simp [spanLen]; split <;> omega

theorem spanLen_take_all (p : Char → Bool) (r : Str) : ∀ c ∈ r.take (spanLen p r), p c = true := by
  induction r with
  | nil => simp [spanLen]
  | cons c cs ih =>
    simp only [spanLen]
    split
    · rename_i hc
      intro x hx
      simp at hx
      rcases hx with h | h
      · subst h; exact hc
      · exact ih x h
    · simp

/-- the run, followed by ';', determines spanLen whatever comes after (since ';' is not in the class) -/
theorem spanLen_prefix (p : Char → Bool) (hp : p ';' = false) (r t : Str)
    (hsemi : r[spanLen p r]? = some ';') :
    spanLen p (r.take (spanLen p r + 1) ++ t) = spanLen p r := by
  induction r with
  | nil => simp [spanLen] at hsemi
  | cons c cs ih =>
    simp only [spanLen] at hsemi ⊢
    by_cases hc : p c
    · simp only [hc, if_true] at hsemi ⊢
      simp only [List.take_succ_cons, List.cons_append, spanLen, hc, if_true]
      simp at hsemi
      rw [ih hsemi]
    · simp only [hc] at hsemi ⊢
      simp at hsemi
      subst hsemi
      simp [spanLen, hp]

theorem runSemi_spec (p : Char → Bool) (hp : p ';' = false) (r : Str) (m : Nat)
    (h : runSemi p r = some m) :
    m = spanLen p r + 1 ∧ 0 < spanLen p r ∧ m ≤ r.length ∧
    (∀ c ∈ r.take m, p c = true ∨ c = ';') ∧ (∀ t, runSemi p (r.take m ++ t) = some m) := by
  unfold runSemi at h
  simp only at h
  split at h
  · rename_i hc
    simp at hc
    obtain ⟨hpos, hsemi⟩ := hc
    injection h with h
    subst h
    have hlt : spanLen p r < r.length := by
      have := List.getElem?_eq_some_iff.1 hsemi
      exact this.1
    refine ⟨rfl, hpos, by omega, ?_, ?_⟩
    · intro c hc
      rw [List.take_add_one] at hc
      simp at hc
      rcases hc with h1 | h1
      · exact Or.inl (spanLen_take_all p r c h1)
      · right
        rw [hsemi] at h1
        simp at h1; exact h1.symm
    · intro t
      unfold runSemi
      simp only
      have hs := spanLen_prefix p hp r t hsemi
      rw [hs]
      have : (r.take (spanLen p r + 1) ++ t)[spanLen p r]? = some ';' := by
        rw [List.getElem?_append_left (by simp; omega), List.getElem?_take_of_lt (by omega)]
        exact hsemi
      simp [hpos, this]
  · simp at h

theorem plain_of_alnum (c : Char) (h : isAlnumI c = true ∨ isHexI c = true ∨ isDig c = true ∨ c = ';' ∨ c = '#' ∨ c = 'x' ∨ c = 'X') :
    plain c = true := by
  unfold plain
  by_cases h1 : c = '&'
  · subst h1; revert h; decide
  by_cases h2 : c = '<'
  · subst h2; revert h; decide
  by_cases h3 : c = '>'
  · subst h3; revert h; decide
  by_cases h4 : c = '"'
  · subst h4; revert h; decide
  by_cases h5 : c = '\n'
  · subst h5; revert h; decide
  simp [h1, h2, h3, h4, h5]

theorem semi_not_class : isDig ';' = false ∧ isHexI ';' = false ∧ isAlnumI ';' = false := by decide

theorem entLen_spec (r : Str) (n : Nat) (h : entLen r = some n) :
    n ≤ r.length ∧ (∀ c ∈ r.take n, plain c = true) ∧ (∀ t, entLen (r.take n ++ t) = some n) := by
  unfold entLen at h
  split at h
  · -- '#' :: r1
    rename_i r1
    split at h
    · rename_i m hm
      injection h with h; subst h
      obtain ⟨_, _, hle, hcl, hpre⟩ := runSemi_spec isDig semi_not_class.1 r1 m hm
      refine ⟨by simp; omega, ?_, ?_⟩
      · intro c hc
        simp [List.take_succ_cons] at hc
        rcases hc with h1 | h1
        · exact plain_of_alnum c (by simp [h1])
        · rcases hcl c h1 with h2 | h2
          · exact plain_of_alnum c (by simp [h2])
          · exact plain_of_alnum c (by simp [h2])
      · intro t
        simp only [List.take_succ_cons, List.cons_append, entLen, hpre t]
    · rename_i hnone
      split at h
      · rename_i x r2
        split at h
        · rename_i hx
          cases hr : runSemi isHexI r2 with
          | none => simp [hr] at h
          | some m =>
            simp [hr] at h; subst h
            obtain ⟨_, _, hle, hcl, hpre⟩ := runSemi_spec isHexI semi_not_class.2.1 r2 m hr
            have hxnd : isDig x = false := by
              simp at hx; rcases hx with h | h <;> subst h <;> decide
            refine ⟨by simp; omega, ?_, ?_⟩
            · intro c hc
              simp [List.take_succ_cons] at hc
              rcases hc with h1 | h1 | h1
              · exact plain_of_alnum c (by simp [h1])
              · simp at hx; exact plain_of_alnum c (by rcases hx with h | h <;> simp [h1, h])
              · rcases hcl c h1 with h2 | h2
                · exact plain_of_alnum c (by simp [h2])
                · exact plain_of_alnum c (by simp [h2])
            · intro t
              have hd : runSemi isDig (x :: (r2.take m ++ t)) = none := by
                simp [runSemi, spanLen, hxnd]
              simp only [List.take_succ_cons, List.cons_append, entLen, hd, hx, if_true, hpre t]
              rfl
        · simp at h
      · simp at h
  · -- default branch
    rename_i hnot
    obtain ⟨hm, hpos, hle, hcl, hpre⟩ := runSemi_spec isAlnumI semi_not_class.2.2 r n h
    refine ⟨hle, ?_, ?_⟩
    · intro c hc
      rcases hcl c hc with h2 | h2
      · exact plain_of_alnum c (by simp [h2])
      · exact plain_of_alnum c (by simp [h2])
    · intro t
      -- the rebuilt string starts with the same (alnum) char, so it is not '#'
      cases r with
      | nil => simp [runSemi, spanLen] at h
      | cons c cs =>
        have hc : isAlnumI c = true := by
          simp [spanLen] at hpos
          by_cases hc : isAlnumI c <;> simp_all [spanLen]
        have hne : c ≠ '#' := by
          intro hh; subst hh; revert hc; decide
        have hn : n = (n - 1) + 1 := by omega
        rw [hn, List.take_succ_cons, List.cons_append]
        unfold entLen
        split
        · rename_i heq; injection heq with h1 _; exact absurd h1 hne
        · rw [← List.cons_append, ← List.take_succ_cons, ← hn]; exact hpre t



/-! ### the entities the escapers write -/

theorem cls_facts : isAlnumI 'a' = true ∧ isAlnumI 'm' = true ∧ isAlnumI 'p' = true ∧ isAlnumI 'l' = true ∧
    isAlnumI 't' = true ∧ isAlnumI 'g' = true ∧ isAlnumI ';' = false ∧ isAlnumI 'q' = true ∧ isAlnumI 'u' = true ∧
    isAlnumI 'o' = true ∧ isDig '1' = true ∧ isDig '0' = true ∧ isDig ';' = false := by decide
theorem entLen_amp (t : Str) : entLen ('a' :: 'm' :: 'p' :: ';' :: t) = some 4 := by
  obtain ⟨a, m, p, l, t', g, s, _⟩ := cls_facts
  simp [entLen, runSemi, spanLen, a, m, p, s]
theorem entLen_lt (t : Str) : entLen ('l' :: 't' :: ';' :: t) = some 3 := by
  obtain ⟨a, m, p, l, t', g, s, _⟩ := cls_facts
  simp [entLen, runSemi, spanLen, l, t', s]
theorem entLen_gt (t : Str) : entLen ('g' :: 't' :: ';' :: t) = some 3 := by
  obtain ⟨a, m, p, l, t', g, s, _⟩ := cls_facts
  simp [entLen, runSemi, spanLen, g, t', s]
theorem entLen_quot (t : Str) : entLen ('q' :: 'u' :: 'o' :: 't' :: ';' :: t) = some 5 := by
  obtain ⟨a, m, p, l, t', g, s, q, u, o, _⟩ := cls_facts
  simp [entLen, runSemi, spanLen, q, u, o, t', s]
theorem entLen_nl (t : Str) : entLen ('#' :: '1' :: '0' :: ';' :: t) = some 4 := by
  obtain ⟨a, m, p, l, t', g, s, q, u, o, d1, d0, ds⟩ := cls_facts
  simp [entLen, runSemi, spanLen, d1, d0, ds]

/-- an entity reference in the source is copied -/
theorem esc1_entity' (q n : Bool) (r : Str) (k : Nat) (h : entLen r = some k) :
    esc1 q n ('&' :: r) = '&' :: r.take k ++ esc1 q n (r.drop k) := by
  obtain ⟨_, hplain, _⟩ := entLen_spec r k h
  have hb := esc1_body q n (r.take k) (r.drop k) hplain
  rw [List.take_append_drop] at hb
  simp [esc1, h, hb]

/-- main: the strict reader accepts every escaped text (whatever follows) and reads what the tolerant reader reads in
    the source -/
theorem strict_esc1_append (m : Mode) (X : Str) :
    ∀ (n : Nat) (s : Str), s.length ≤ n →
      strict m 0 (esc1 m.quot m.nl s ++ X) = (strict m 0 X).map (lenient m 0 s ++ ·)
  | _, [], _ => by simp [esc1, lenient]
  | 0, _ :: _, h => by simp at h
  | n+1, c :: r, h => by
    have hr : r.length ≤ n := by simpa using h
    have ih := strict_esc1_append m X n r hr
    by_cases hamp : c = '&'
    · subst hamp
      cases he : entLen r with
      | none =>
        simp only [esc1, he, Option.isSome_none, if_true, Bool.false_eq_true, if_false, lenient]
        show strict m 0 ('&' :: 'a' :: 'm' :: 'p' :: ';' :: (esc1 m.quot m.nl r ++ X)) = _
        simp only [strict, if_true, entLen_amp]
        rw [ih]
        cases strict m 0 X <;> simp [tokOf]
      | some k =>
        obtain ⟨hle, hplain, hpre⟩ := entLen_spec r k he
        have hsplit : r = r.take k ++ r.drop k := (List.take_append_drop k r).symm
        have hlen : (r.take k).length = k := by simp; omega
        have ih' := strict_esc1_append m X n (r.drop k) (by simp; omega)
        have hl : lenient m 0 ('&' :: r) = tokOf m (r.take (k-1)) :: lenient m k r := by
          simp only [lenient, if_true, he]
        rw [esc1_entity' _ _ r k he, hl]
        simp only [List.cons_append, List.append_assoc, strict, if_true, hpre]
        have h1 : strict m k (r.take k ++ (esc1 m.quot m.nl (r.drop k) ++ X)) =
            strict m 0 (esc1 m.quot m.nl (r.drop k) ++ X) := by
          have := strict_skip m (r.take k) (esc1 m.quot m.nl (r.drop k) ++ X); rwa [hlen] at this
        have h2 : lenient m k r = lenient m 0 (r.drop k) := by
          have := lenient_skip m (r.take k) (r.drop k); rw [hlen, ← hsplit] at this; exact this
        rw [h1, ih', h2]
        have : (r.take k ++ (esc1 m.quot m.nl (r.drop k) ++ X)).take (k-1) = r.take (k-1) := by
          rw [List.take_append_of_le_length (by simp; omega), List.take_take]; congr 1; omega
        rw [this]
        cases strict m 0 X <;> simp
    · by_cases hlt : c = '<'
      · subst hlt
        simp only [esc1, lenient]
        show strict m 0 ('&' :: 'l' :: 't' :: ';' :: (esc1 m.quot m.nl r ++ X)) = _
        simp only [strict, if_true, entLen_lt]
        rw [ih]
        cases strict m 0 X <;> simp [tokOf]
      · by_cases hgt : c = '>'
        · subst hgt
          simp only [esc1, lenient]
          show strict m 0 ('&' :: 'g' :: 't' :: ';' :: (esc1 m.quot m.nl r ++ X)) = _
          simp only [strict, if_true, entLen_gt]
          rw [ih]
          cases strict m 0 X <;> simp [tokOf]
        · by_cases hq : m.quot = true ∧ c = '"'
          · obtain ⟨hq1, hq2⟩ := hq
            subst hq2
            simp only [esc1, lenient, hq1]
            show strict m 0 ('&' :: 'q' :: 'u' :: 'o' :: 't' :: ';' :: (esc1 true m.nl r ++ X)) = _
            simp only [strict, if_true, entLen_quot]
            rw [hq1] at ih
            rw [ih]
            cases strict m 0 X <;> simp [tokOf, hq1]
          · by_cases hn : m.nl = true ∧ c = '\n'
            · obtain ⟨hn1, hn2⟩ := hn
              subst hn2
              have hq' : (m.quot && decide ('\n' = '"')) = false := by simp
              simp only [esc1, lenient, hn1, hq']
              show strict m 0 ('&' :: '#' :: '1' :: '0' :: ';' :: (esc1 m.quot true r ++ X)) = _
              simp only [strict, if_true, entLen_nl]
              rw [hn1] at ih
              rw [ih]
              cases strict m 0 X <;> simp [tokOf, hn1]
            · have hq' : (m.quot && decide (c = '"')) = false := by
                cases hm : m.quot <;> simp_all
              have hn' : (m.nl && decide (c = '\n')) = false := by
                cases hm : m.nl <;> simp_all
              simp only [esc1, hamp, hlt, hgt, hq', hn', if_false, Bool.false_eq_true, List.cons_append, strict,
                lenient, ih, decide_false, Bool.or_self]
              cases strict m 0 X <;> simp

theorem strict_esc1' (m : Mode) (s : Str) : strict m 0 (esc1 m.quot m.nl s) = some (lenient m 0 s) := by
  have := strict_esc1_append m [] s.length s (Nat.le_refl _)
  simpa [strict] using this

theorem esc1_no_markup' (q n : Bool) (s : Str) :
    ∀ c ∈ esc1 q n s, c ≠ '<' ∧ c ≠ '>' ∧ (q = true → c ≠ '"') := by
  induction s with
  | nil => simp [esc1]
  | cons a r ih =>
    intro c hc
    simp only [esc1] at hc
    repeat' split at hc
    · rcases List.mem_cons.1 hc with h | h
      · subst h; simp
      · exact ih c h
    · rcases List.mem_append.1 hc with h | h
      · simp at h; rcases h with h | h | h | h | h <;> subst h <;> simp
      · exact ih c h
    · rcases List.mem_append.1 hc with h | h
      · simp at h; rcases h with h | h | h | h <;> subst h <;> simp
      · exact ih c h
    · rcases List.mem_append.1 hc with h | h
      · simp at h; rcases h with h | h | h | h <;> subst h <;> simp
      · exact ih c h
    · rcases List.mem_append.1 hc with h | h
      · simp at h; rcases h with h | h | h | h | h | h <;> subst h <;> simp
      · exact ih c h
    · rcases List.mem_append.1 hc with h | h
      · simp at h; rcases h with h | h | h | h | h <;> subst h <;> simp
      · exact ih c h
    · rename_i h1 h2 h3 h4 h5
      rcases List.mem_cons.1 hc with h | h
      · subst h
        refine ⟨h2, h3, ?_⟩
        intro hq; simpa [hq] using h4
      · exact ih c h

theorem esc1_noamp (q n : Bool) (s : Str) (h : ∀ c ∈ esc1 q n s, c ≠ '&') : esc1 q n s = s := by
  induction s with
  | nil => rfl
  | cons a r ih =>
    simp only [esc1] at h ⊢
    repeat' split at h
    all_goals try (refine absurd rfl (h '&' ?_); simp; done)
    rename_i h1 h2 h3 h4 h5
    simp only [h1, h2, h3, h4, h5, if_false, Bool.false_eq_true]
    rw [ih (fun c hc => h c (List.mem_cons_of_mem _ hc))]

theorem esc1_idem' (q n : Bool) : ∀ (k : Nat) (s : Str), s.length ≤ k → esc1 q n (esc1 q n s) = esc1 q n s
  | _, [], _ => rfl
  | 0, _ :: _, h => by simp at h
  | k+1, c :: r, h => by
    have hr : r.length ≤ k := by simpa using h
    have ih := esc1_idem' q n k r hr
    by_cases hamp : c = '&'
    · subst hamp
      cases he : entLen r with
      | none =>
        simp only [esc1, he, Option.isSome_none, Bool.false_eq_true, if_false, if_true]
        show esc1 q n ('&' :: ('a' :: 'm' :: 'p' :: ';' :: esc1 q n r)) = _
        rw [esc1_entity' q n _ 4 (entLen_amp _)]
        simp [ih]
      | some m =>
        obtain ⟨hle, hplain, hpre⟩ := entLen_spec r m he
        have ih' := esc1_idem' q n k (r.drop m) (by simp; omega)
        rw [esc1_entity' q n r m he, List.cons_append, esc1_entity' q n _ m (hpre _)]
        have hlen : (r.take m).length = m := by simp; omega
        rw [List.take_append_of_le_length (by omega), List.drop_append_of_le_length (by omega)]
        simp [List.take_take, ih']
    · by_cases hlt : c = '<'
      · subst hlt
        simp only [esc1, if_true, if_false, hamp]
        show esc1 q n ('&' :: ('l' :: 't' :: ';' :: esc1 q n r)) = _
        rw [esc1_entity' q n _ 3 (entLen_lt _)]
        simp [ih]
      · by_cases hgt : c = '>'
        · subst hgt
          simp only [esc1, if_true, if_false, hamp, hlt]
          show esc1 q n ('&' :: ('g' :: 't' :: ';' :: esc1 q n r)) = _
          rw [esc1_entity' q n _ 3 (entLen_gt _)]
          simp [ih]
        · by_cases hq : q = true ∧ c = '"'
          · obtain ⟨hq1, hq2⟩ := hq
            subst hq2; subst hq1
            simp only [esc1, if_true, if_false, hamp, hlt, hgt, Bool.true_and, decide_true]
            show esc1 true n ('&' :: ('q' :: 'u' :: 'o' :: 't' :: ';' :: esc1 true n r)) = _
            rw [esc1_entity' true n _ 5 (entLen_quot _)]
            simp [ih]
          · by_cases hn : n = true ∧ c = '\n'
            · obtain ⟨hn1, hn2⟩ := hn
              subst hn2; subst hn1
              have hq' : (q && decide ('\n' = '"')) = false := by simp
              simp only [esc1, if_true, if_false, hamp, hlt, hgt, Bool.true_and, decide_true, hq', Bool.false_eq_true]
              show esc1 q true ('&' :: ('#' :: '1' :: '0' :: ';' :: esc1 q true r)) = _
              rw [esc1_entity' q true _ 4 (entLen_nl _)]
              simp [ih]
            · have hq' : (q && decide (c = '"')) = false := by
                cases q <;> simp_all
              have hn' : (n && decide (c = '\n')) = false := by
                cases n <;> simp_all
              simp only [esc1, hamp, hlt, hgt, hq', hn', if_false, Bool.false_eq_true, ih]

theorem lenient_plain' (m : Mode) (s : Str) (h : ∀ c ∈ s, c ≠ '&') : lenient m 0 s = s.map Tok.ch := by
  induction s with
  | nil => rfl
  | cons c r ih =>
    have hc : c ≠ '&' := h c (by simp)
    simp [lenient, hc, ih (fun x hx => h x (by simp [hx]))]

/-- a non-empty text read by the strict reader has at least one token -/
theorem strict_ne_nil (m : Mode) (c : Char) (r : Str) (l : List Tok) (h : strict m 0 (c :: r) = some l) : l ≠ [] := by
  simp only [strict] at h
  repeat' split at h
  all_goals first
    | (simp at h; done)
    | (simp at h; obtain ⟨a, _, rfl⟩ := h; simp)

end MdVerif.Ser
