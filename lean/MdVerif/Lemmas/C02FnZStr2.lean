/-
String classes for "no bad token can arise in the name of a heading", part 1b (continues `Lemmas/C02FnZStr.lean`, which
has the definitions, the abstract class `Cls`, the rewriting relation `Rw` and the facts about tokens and dead
continuations): the three instances `cls3` (`Z3`/`Z3c`), `cls0` (`Z0`/`Z0c`), `clsA` (`ZA`/`ZAc`); the basic facts
(a) inclusions, (b) append / suffix / prefix / `take` / `drop` / `strip`, (c) the SAFE CUT, replacement, deletion,
rewriting; (d) `Z0 s → ¬ BadToken s`; (e) THE KEY LEMMA `unescape_Z0`.  Core Lean only.
-/
import MdVerif.Lemmas.C02FnZStr

set_option autoImplicit false

namespace MdVerif.C02Z
open Py

/-! ### the instances -/

theorem safe_iff {c : Char} : safe c = true ↔ TokG.gl c = false ∧ isDecimal c = false ∧ c ≠ '"' := by
  simp [safe, and_assoc]

theorem safe0_iff {c : Char} :
    safe0 c = true ↔ TokG.gl c = false ∧ isDecimal c = false ∧ c ≠ '"' ∧ c ≠ TreeProc.ETX := by
  simp [safe0, safe, and_assoc]

theorem safeA_iff {c : Char} :
    safeA c = true ↔ TokG.gl c = false ∧ isAsciiDigit c = false ∧ c ≠ TreeProc.ETX := by
  simp [safeA, and_assoc]

theorem not_digit_of_not_decimal {c : Char} (h : isDecimal c = false) : isAsciiDigit c = false := by
  cases hd : isAsciiDigit c with
  | false => rfl
  | true => rw [digit_decimal hd] at h; cases h

theorem safe_of_safe0 {c : Char} (h : safe0 c = true) : safe c = true := by
  simp only [safe0, Bool.and_eq_true] at h; exact h.1

theorem safeA_of_safe0 {c : Char} (h : safe0 c = true) : safeA c = true := by
  rw [safe0_iff] at h
  rw [safeA_iff]
  exact ⟨h.1, not_digit_of_not_decimal h.2.1, h.2.2.2⟩

theorem safe_stx : safe TreeProc.STX = true := by decide
theorem safe0_stx : safe0 TreeProc.STX = true := by decide
theorem safe0_lt : safe0 '<' = true := by decide
theorem safe0_gt : safe0 '>' = true := by decide
theorem safe0_amp : safe0 '&' = true := by decide
theorem safeA_quot : safeA '"' = true := by decide
theorem safeA_nl : safeA '\n' = true := by decide

theorem F3_nil : F3 [] = true := rfl
theorem F0_nil : F0 [] = true := rfl
theorem FA_nil : FA [] = true := rfl

/-- the class after `unescape` -/
def cls3 : Cls where
  F := F3
  Fc := F3c
  sf := safe
  weak := by
    intro r h
    simp only [F3c, Bool.or_eq_true] at h
    simp only [F3, Bool.or_eq_true]
    exact h.imp id dead_of_deadc
  app := by
    intro r b h
    simp only [F3c, Bool.or_eq_true] at h ⊢
    exact h.imp (fun h => hdGl_append h b) (fun h => deadc_append h b)
  pre := by
    intro r b h
    cases r with
    | nil => rfl
    | cons c r =>
      simp only [F3, Bool.or_eq_true] at h ⊢
      exact h.imp id (dead_left b)
  cut := by
    intro r c0 R h hc
    rw [safe_iff] at hc
    simp only [F3, Bool.or_eq_true] at h
    simp only [F3c, Bool.or_eq_true]
    rcases h with h | h
    · cases r with
      | nil => rw [List.nil_append, hdGl_cons, hc.1] at h; cases h
      | cons c r => exact Or.inl h
    · exact Or.inr (dead_cut h hc.2.1 hc.2.2)

/-- the class before `unescape` -/
def cls0 : Cls where
  F := F0
  Fc := F0c
  sf := safe0
  weak := by
    intro r h
    simp only [F0c, Bool.or_eq_true] at h
    simp only [F0, Bool.or_eq_true]
    exact h.imp id dead_of_deadc
  app := by
    intro r b h
    simp only [F0c, Bool.or_eq_true] at h ⊢
    exact h.imp (fun h => h.imp (fun h => hdGl_append h b) (fun h => tokS_append h b)) (fun h => deadc_append h b)
  pre := by
    intro r b h
    cases r with
    | nil => rfl
    | cons c r =>
      simp only [F0, Bool.or_eq_true] at h ⊢
      rcases h with (h | h) | h
      · exact Or.inl (Or.inl h)
      · rcases tokS_left b h with h | h
        · exact Or.inl (Or.inr h)
        · exact Or.inr (dead_of_all_digit h)
      · exact Or.inr (dead_left b h)
  cut := by
    intro r c0 R h hc
    rw [safe0_iff] at hc
    simp only [F0, Bool.or_eq_true] at h
    simp only [F0c, Bool.or_eq_true]
    rcases h with (h | h) | h
    · cases r with
      | nil => rw [List.nil_append, hdGl_cons, hc.1] at h; cases h
      | cons c r => exact Or.inl (Or.inl h)
    · exact Or.inl (Or.inr (tokS_cut h (not_digit_of_not_decimal hc.2.1) hc.2.2.2))
    · exact Or.inr (dead_cut h hc.2.1 hc.2.2.1)

theorem all_digit_left {r : Str} (b : Str) (h : (r ++ b).all isAsciiDigit = true) : r.all isAsciiDigit = true := by
  rw [List.all_append, Bool.and_eq_true] at h; exact h.1

/-- the class of attribute values -/
def clsA : Cls where
  F := FA
  Fc := FAc
  sf := safeA
  weak := by
    intro r h
    simp only [FA, Bool.or_eq_true]
    exact Or.inl (by simpa only [FAc, Bool.or_eq_true] using h)
  app := by
    intro r b h
    simp only [FAc, Bool.or_eq_true] at h ⊢
    exact h.imp (fun h => hdGl_append h b) (fun h => tokS_append h b)
  pre := by
    intro r b h
    cases r with
    | nil => rfl
    | cons c r =>
      simp only [FA, deadA, Bool.or_eq_true] at h ⊢
      rcases h with (h | h) | h
      · exact Or.inl (Or.inl h)
      · rcases tokS_left b h with h | h
        · exact Or.inl (Or.inr h)
        · exact Or.inr h
      · exact Or.inr (all_digit_left b h)
  cut := by
    intro r c0 R h hc
    rw [safeA_iff] at hc
    simp only [FA, deadA, Bool.or_eq_true] at h
    simp only [FAc, Bool.or_eq_true]
    rcases h with (h | h) | h
    · cases r with
      | nil => rw [List.nil_append, hdGl_cons, hc.1] at h; cases h
      | cons c r => exact Or.inl h
    · exact Or.inr (tokS_cut h hc.2.1 hc.2.2)
    · exfalso
      rw [List.all_append, Bool.and_eq_true, List.all_cons, Bool.and_eq_true, hc.2.1] at h
      cases h.2.1

theorem cls3_Z (s : Str) : cls3.Z s = Z3 s := (Z3_eq s).symm
theorem cls3_Zc (s : Str) : cls3.Zc s = Z3c s := (Z3c_eq s).symm
theorem cls0_Z (s : Str) : cls0.Z s = Z0 s := (Z0_eq s).symm
theorem cls0_Zc (s : Str) : cls0.Zc s = Z0c s := (Z0c_eq s).symm
theorem clsA_Z (s : Str) : clsA.Z s = ZA s := (ZA_eq s).symm
theorem clsA_Zc (s : Str) : clsA.Zc s = ZAc s := (ZAc_eq s).symm

/-! ### (a) inclusions -/

theorem Z0_of_Z0c {s : Str} (h : Z0c s = true) : Z0 s = true := by
  rw [← cls0_Z]; rw [← cls0_Zc] at h; exact cls0.Z_of_Zc h
theorem Z3_of_Z3c {s : Str} (h : Z3c s = true) : Z3 s = true := by
  rw [← cls3_Z]; rw [← cls3_Zc] at h; exact cls3.Z_of_Zc h
theorem ZA_of_ZAc {s : Str} (h : ZAc s = true) : ZA s = true := by
  rw [← clsA_Z]; rw [← clsA_Zc] at h; exact clsA.Z_of_Zc h

theorem F0_of_F3 {r : Str} (h : F3 r = true) : F0 r = true := by
  simp only [F3, Bool.or_eq_true] at h
  simp only [F0, Bool.or_eq_true]
  exact h.imp Or.inl id
theorem F0c_of_F3c {r : Str} (h : F3c r = true) : F0c r = true := by
  simp only [F3c, Bool.or_eq_true] at h
  simp only [F0c, Bool.or_eq_true]
  exact h.imp Or.inl id

theorem Z0_of_Z3 {s : Str} (h : Z3 s = true) : Z0 s = true := by
  rw [Z0_eq]; rw [Z3_eq] at h; exact ZG_mono (fun _ => F0_of_F3) h
theorem Z0c_of_Z3c {s : Str} (h : Z3c s = true) : Z0c s = true := by
  rw [Z0c_eq]; rw [Z3c_eq] at h; exact ZG_mono (fun _ => F0c_of_F3c) h

theorem F0_of_FA {r : Str} (h : FA r = true) : F0 r = true := by
  simp only [FA, deadA, Bool.or_eq_true] at h
  simp only [F0, Bool.or_eq_true]
  exact h.imp id dead_of_all_digit
theorem Z0_of_ZA {s : Str} (h : ZA s = true) : Z0 s = true := by
  rw [Z0_eq]; rw [ZA_eq] at h; exact ZG_mono (fun _ => F0_of_FA) h

theorem Z0c_of_ZAc {s : Str} (h : ZAc s = true) : Z0c s = true := by
  rw [Z0c_eq]; rw [ZAc_eq] at h
  refine ZG_mono (fun r hr => ?_) h
  simp only [FAc, Bool.or_eq_true] at hr
  simp only [F0c, Bool.or_eq_true]
  exact Or.inl hr

theorem Z_of_noSTX {s : Str} (h : TreeProc.STX ∉ s) :
    Z0c s = true ∧ Z3c s = true ∧ Z0 s = true ∧ Z3 s = true ∧ ZA s = true ∧ ZAc s = true := by
  refine ⟨?_, ?_, ?_, ?_, ?_, ?_⟩
  · rw [Z0c_eq]; exact ZG_of_noSTX _ h
  · rw [Z3c_eq]; exact ZG_of_noSTX _ h
  · rw [Z0_eq]; exact ZG_of_noSTX _ h
  · rw [Z3_eq]; exact ZG_of_noSTX _ h
  · rw [ZA_eq]; exact ZG_of_noSTX _ h
  · rw [ZAc_eq]; exact ZG_of_noSTX _ h

theorem Z0c_of_noSTX {s : Str} (h : TreeProc.STX ∉ s) : Z0c s = true := (Z_of_noSTX h).1
theorem Z3c_of_noSTX {s : Str} (h : TreeProc.STX ∉ s) : Z3c s = true := (Z_of_noSTX h).2.1

/-! ### (b) append, suffix, prefix, `take`, `drop`, `strip` -/

theorem Z0c_append {a b : Str} (ha : Z0c a = true) (hb : Z0c b = true) : Z0c (a ++ b) = true := by
  rw [← cls0_Zc] at *; exact cls0.Zc_append ha hb
theorem Z0_append {a b : Str} (ha : Z0c a = true) (hb : Z0 b = true) : Z0 (a ++ b) = true := by
  rw [← cls0_Zc] at ha; rw [← cls0_Z] at *; exact cls0.Z_append ha hb
theorem Z3c_append {a b : Str} (ha : Z3c a = true) (hb : Z3c b = true) : Z3c (a ++ b) = true := by
  rw [← cls3_Zc] at *; exact cls3.Zc_append ha hb
theorem Z3_append {a b : Str} (ha : Z3c a = true) (hb : Z3 b = true) : Z3 (a ++ b) = true := by
  rw [← cls3_Zc] at ha; rw [← cls3_Z] at *; exact cls3.Z_append ha hb

theorem Z0_right {a b : Str} (h : Z0 (a ++ b) = true) : Z0 b = true := by
  rw [← cls0_Z] at *; exact cls0.Z_right h
theorem Z0c_right {a b : Str} (h : Z0c (a ++ b) = true) : Z0c b = true := by
  rw [← cls0_Zc] at *; exact cls0.Zc_right h
theorem Z3_right {a b : Str} (h : Z3 (a ++ b) = true) : Z3 b = true := by
  rw [← cls3_Z] at *; exact cls3.Z_right h
theorem Z3c_right {a b : Str} (h : Z3c (a ++ b) = true) : Z3c b = true := by
  rw [← cls3_Zc] at *; exact cls3.Zc_right h

/-- a prefix may cut a token `STX 12|3 ETX` into `STX 12`, which is dead -/
theorem Z0_left {a b : Str} (h : Z0 (a ++ b) = true) : Z0 a = true := by
  rw [← cls0_Z] at *; exact cls0.Z_left h
theorem Z3_left {a b : Str} (h : Z3 (a ++ b) = true) : Z3 a = true := by
  rw [← cls3_Z] at *; exact cls3.Z_left h

theorem Z3_take {s : Str} (h : Z3 s = true) (n : Nat) : Z3 (s.take n) = true := by
  rw [← cls3_Z] at *; exact cls3.Z_take h n
theorem Z3_drop {s : Str} (h : Z3 s = true) (n : Nat) : Z3 (s.drop n) = true := by
  rw [← cls3_Z] at *; exact cls3.Z_drop h n
theorem Z3_infix {a s : Str} (h : Z3 s = true) (hi : a <:+: s) : Z3 a = true := by
  rw [← cls3_Z] at *; exact cls3.Z_infix h hi
theorem Z3_strip {s : Str} (h : Z3 s = true) : Z3 (strip s) = true := by
  rw [← cls3_Z] at *; exact cls3.Z_strip h
theorem Z0_take {s : Str} (h : Z0 s = true) (n : Nat) : Z0 (s.take n) = true := by
  rw [← cls0_Z] at *; exact cls0.Z_take h n
theorem Z0_drop {s : Str} (h : Z0 s = true) (n : Nat) : Z0 (s.drop n) = true := by
  rw [← cls0_Z] at *; exact cls0.Z_drop h n
theorem Z0_infix {a s : Str} (h : Z0 s = true) (hi : a <:+: s) : Z0 a = true := by
  rw [← cls0_Z] at *; exact cls0.Z_infix h hi
theorem Z0_strip {s : Str} (h : Z0 s = true) : Z0 (strip s) = true := by
  rw [← cls0_Z] at *; exact cls0.Z_strip h

/-! ### (c) the safe cut -/

theorem Z3_cut {X R : Str} {c0 : Char} (h : Z3 (X ++ c0 :: R) = true) (hc : safe c0 = true) : Z3c X = true := by
  rw [← cls3_Z] at h; rw [← cls3_Zc]; exact cls3.Z_cut h hc
theorem Z0_cut {X R : Str} {c0 : Char} (h : Z0 (X ++ c0 :: R) = true) (hc : safe0 c0 = true) : Z0c X = true := by
  rw [← cls0_Z] at h; rw [← cls0_Zc]; exact cls0.Z_cut h hc

theorem Z3_repl {X S Y E : Str} {c0 : Char} (h : Z3 (X ++ c0 :: S ++ Y) = true) (hc : safe c0 = true)
    (hE : TreeProc.STX ∉ E) : Z3 (X ++ E ++ Y) = true := by
  rw [← cls3_Z] at *; exact cls3.Z_repl h hc hE
theorem Z3c_repl {X S Y E : Str} {c0 : Char} (h : Z3c (X ++ c0 :: S ++ Y) = true) (hc : safe c0 = true)
    (hE : TreeProc.STX ∉ E) : Z3c (X ++ E ++ Y) = true := by
  rw [← cls3_Zc] at *; exact cls3.Zc_repl h hc hE
theorem Z3_del {X S Y : Str} {c0 : Char} (h : Z3 (X ++ c0 :: S ++ Y) = true) (hc : safe c0 = true) :
    Z3 (X ++ Y) = true := by
  rw [← cls3_Z] at *; exact cls3.Z_del h hc
theorem Z3c_del {X S Y : Str} {c0 : Char} (h : Z3c (X ++ c0 :: S ++ Y) = true) (hc : safe c0 = true) :
    Z3c (X ++ Y) = true := by
  rw [← cls3_Zc] at *; exact cls3.Zc_del h hc
theorem Z0_repl {X S Y E : Str} {c0 : Char} (h : Z0 (X ++ c0 :: S ++ Y) = true) (hc : safe0 c0 = true)
    (hE : TreeProc.STX ∉ E) : Z0 (X ++ E ++ Y) = true := by
  rw [← cls0_Z] at *; exact cls0.Z_repl h hc hE
theorem Z0c_repl {X S Y E : Str} {c0 : Char} (h : Z0c (X ++ c0 :: S ++ Y) = true) (hc : safe0 c0 = true)
    (hE : TreeProc.STX ∉ E) : Z0c (X ++ E ++ Y) = true := by
  rw [← cls0_Zc] at *; exact cls0.Zc_repl h hc hE

/-- closure under rewriting, for the four classes -/
theorem Z3_rw {s o : Str} (h : Rw safe s o) (hz : Z3 s = true) : Z3 o = true := by
  rw [← cls3_Z] at *; exact cls3.Z_rw h hz
theorem Z3c_rw {s o : Str} (h : Rw safe s o) (hz : Z3c s = true) : Z3c o = true := by
  rw [← cls3_Zc] at *; exact cls3.Zc_rw h hz
theorem Z0_rw {s o : Str} (h : Rw safe0 s o) (hz : Z0 s = true) : Z0 o = true := by
  rw [← cls0_Z] at *; exact cls0.Z_rw h hz
theorem Z0c_rw {s o : Str} (h : Rw safe0 s o) (hz : Z0c s = true) : Z0c o = true := by
  rw [← cls0_Zc] at *; exact cls0.Zc_rw h hz
theorem ZA_rw {s o : Str} (h : Rw safeA s o) (hz : ZA s = true) : ZA o = true := by
  rw [← clsA_Z] at *; exact clsA.Z_rw h hz
theorem ZAc_rw {s o : Str} (h : Rw safeA s o) (hz : ZAc s = true) : ZAc o = true := by
  rw [← clsA_Zc] at *; exact clsA.Zc_rw h hz

/-- an attribute value followed by the closing quote is complete -/
theorem Z0c_of_ZA_quot {x y : Str} (hx : ZA x = true) (hy : Z0c y = true) : Z0c (x ++ '"' :: y) = true := by
  rw [ZA_eq] at hx
  rw [Z0c_eq] at hy ⊢
  refine ZG_append (fun r hr => ?_) hx (ZG_cons_ne (by decide) hy)
  simp only [FA, deadA, Bool.or_eq_true] at hr
  simp only [F0c, Bool.or_eq_true]
  rcases hr with (hr | hr) | hr
  · exact Or.inl (Or.inl (hdGl_append hr _))
  · exact Or.inl (Or.inr (tokS_append hr _))
  · exact Or.inr (deadc_all_digit_quot hr _)

/-! ### (d) no bad token -/

theorem append_cons_inj {x : Char} : ∀ {a a' b b' : Str}, a ++ x :: b = a' ++ x :: b' → x ∉ a → x ∉ a' → a = a' := by
  intro a
  induction a with
  | nil =>
    intro a' b b' e _ h2
    cases a' with
    | nil => rfl
    | cons y a' =>
      simp only [List.nil_append, List.cons_append, List.cons.injEq] at e
      exact absurd (by rw [e.1]; exact List.mem_cons_self) h2
  | cons y a ih =>
    intro a' b b' e h1 h2
    cases a' with
    | nil =>
      simp only [List.nil_append, List.cons_append, List.cons.injEq] at e
      exact absurd (by rw [e.1]; exact List.mem_cons_self) h1
    | cons z a' =>
      simp only [List.cons_append, List.cons.injEq] at e
      rw [e.1, ih e.2 (fun hm => h1 (List.mem_cons_of_mem _ hm)) (fun hm => h2 (List.mem_cons_of_mem _ hm))]

theorem dead_decimal_etx {d : Str} (hd : ∀ c ∈ d, isDecimal c = true) (post : Str) :
    dead (d ++ TreeProc.ETX :: post) = false := by
  cases h : dead (d ++ TreeProc.ETX :: post) with
  | false => rfl
  | true =>
    exfalso
    have hall : d.all isDecimal = true := by rw [List.all_eq_true]; exact hd
    have hspan : spanLen isDecimal (d ++ TreeProc.ETX :: post) = d.length := by
      rw [spanLen_append_of_all hall]
      simp [spanLen, etx_not_decimal]
    apply dead_no_match h
    rw [hspan]; simp

/-- **a `Z0` string holds no bad token**: `unescape` does not fail on it -/
theorem Z0_not_bad {s : Str} (h : Z0 s = true) : ¬ C02Big.BadToken s := by
  rintro ⟨pre, d, post, rfl, hne, hdec, hbig⟩
  rw [Z0_eq] at h
  have hf := ZG_at h
  simp only [F0, Bool.or_eq_true] at hf
  have hetx : TreeProc.ETX ∉ d := by
    intro hm
    have := hdec _ hm
    rw [etx_not_decimal] at this; cases this
  rcases hf with (hf | hf) | hf
  · cases d with
    | nil => exact hne rfl
    | cons c d =>
      have := gl_not_decimal (c := c) hf
      rw [hdec c List.mem_cons_self] at this; cases this
  · obtain ⟨d', rest, e, _, h2, h3⟩ := tokS_spec hf
    have hetx' : TreeProc.ETX ∉ d' := by
      intro hm
      have := h2 _ hm
      rw [etx_not_digit] at this; cases this
    have := append_cons_inj e hetx hetx'
    subst this
    have := (chrOk_iff.1 h3).1
    omega
  · rw [dead_decimal_etx hdec] at hf; cases hf

theorem Z0_NB {s : Str} (h : Z0 s = true) : C02BigNB.NB s := Z0_not_bad h

theorem Z3_NB {s : Str} (h : Z3 s = true) : C02BigNB.NB s := Z0_not_bad (Z0_of_Z3 h)

theorem unescape_isSome_of_Z0 {s : Str} (h : Z0 s = true) : (TreeProc.unescapeText 0 s).isSome = true := by
  cases hu : TreeProc.unescapeText 0 s with
  | some r => rfl
  | none => exact absurd ((TreeProc.C02_unescape_raises_iff s).1 hu) (Z0_not_bad h)

/-! ### (e) the key lemma -/

theorem ofNat_ne_stx {v : Nat} (h : v ≠ 2) : Char.ofNat v ≠ TreeProc.STX := by
  intro e
  have := congrArg Char.toNat e
  unfold Char.ofNat at this
  split at this
  · simp only [Char.toNat, Char.ofNatAux] at this
    have h2 : TreeProc.STX.val.toNat = 2 := by decide
    simp [h2] at this
    omega
  · revert this; decide

theorem unesc_copy {c : Char} (hc : c ≠ TreeProc.STX) (s : Str) :
    TreeProc.unescapeText 0 (c :: s) = (TreeProc.unescapeText 0 s).map (c :: ·) := by
  simp only [TreeProc.unescapeText, if_neg hc]

theorem unesc_stx_nomatch {s : Str}
    (hm : (decide (spanLen isDecimal s > 0) && s[spanLen isDecimal s]? == some TreeProc.ETX) = false) :
    TreeProc.unescapeText 0 (TreeProc.STX :: s) = (TreeProc.unescapeText 0 s).map (TreeProc.STX :: ·) := by
  simp only [TreeProc.unescapeText, if_true, hm, Bool.false_eq_true, if_false]

theorem unesc_stx_match {s : Str}
    (hm : (decide (spanLen isDecimal s > 0) && s[spanLen isDecimal s]? == some TreeProc.ETX) = true)
    (hv : decToNat (s.take (spanLen isDecimal s)) < 0x110000) :
    TreeProc.unescapeText 0 (TreeProc.STX :: s) =
      (TreeProc.unescapeText 0 (s.drop (spanLen isDecimal s + 1))).map
        (Char.ofNat (decToNat (s.take (spanLen isDecimal s))) :: ·) := by
  rw [← TreeProc.unescapeText_skip]
  simp only [TreeProc.unescapeText, if_true, hm, if_pos hv]

/-- a dead continuation is copied by `unescape` -/
theorem dead_unescape {r o : Str} (h : dead r = true) (hu : TreeProc.unescapeText 0 r = some o) : dead o = true := by
  induction r generalizing o with
  | nil =>
    simp only [TreeProc.unescapeText, Option.some.injEq] at hu; subst hu; rfl
  | cons c r ih =>
    simp only [dead, Bool.or_eq_true, Bool.and_eq_true, beq_iff_eq] at h
    have hc : c ≠ TreeProc.STX := by
      rcases h with h | h
      · subst h; decide
      · exact decimal_ne_stx h.1
    rw [unesc_copy hc, Option.map_eq_some_iff] at hu
    obtain ⟨o1, h1, rfl⟩ := hu
    simp only [dead, Bool.or_eq_true, Bool.and_eq_true, beq_iff_eq]
    rcases h with h | h
    · exact Or.inl h
    · exact Or.inr ⟨h.1, ih h.2 h1⟩

theorem deadc_unescape {r o : Str} (h : deadc r = true) (hu : TreeProc.unescapeText 0 r = some o) :
    deadc o = true := by
  induction r generalizing o with
  | nil => cases h
  | cons c r ih =>
    simp only [deadc, Bool.or_eq_true, Bool.and_eq_true, beq_iff_eq] at h
    have hc : c ≠ TreeProc.STX := by
      rcases h with h | h
      · subst h; decide
      · exact decimal_ne_stx h.1
    rw [unesc_copy hc, Option.map_eq_some_iff] at hu
    obtain ⟨o1, h1, rfl⟩ := hu
    simp only [deadc, Bool.or_eq_true, Bool.and_eq_true, beq_iff_eq]
    rcases h with h | h
    · exact Or.inl h
    · exact Or.inr ⟨h.1, ih h.2 h1⟩

theorem hdGl_no_match {s : Str} (h : hdGl s = true) : spanLen isDecimal s = 0 := by
  cases s with
  | nil => rfl
  | cons c s => simp [spanLen, gl_not_decimal (c := c) h]

theorem hdGl_unescape {r o : Str} (h : hdGl r = true) (hu : TreeProc.unescapeText 0 r = some o) : hdGl o = true := by
  cases r with
  | nil => cases h
  | cons c r =>
    rw [unesc_copy (gl_ne_stx (c := c) h), Option.map_eq_some_iff] at hu
    obtain ⟨o1, _, rfl⟩ := hu
    exact h

/-- the generic form: `D` = `dead` or `deadc` -/
theorem unescape_gen (D : Str → Bool) (hD1 : ∀ r, D r = true → dead r = true)
    (hD2 : ∀ r o, D r = true → TreeProc.unescapeText 0 r = some o → D o = true) :
    ∀ (n : Nat) (s : Str), s.length ≤ n → ZG (fun r => hdGl r || tokS r || D r) s = true →
      ∃ o, TreeProc.unescapeText 0 s = some o ∧ ZG (fun r => hdGl r || D r) o = true := by
  intro n
  induction n with
  | zero =>
    intro s hl _
    have : s = [] := List.eq_nil_of_length_eq_zero (by omega)
    subst this
    exact ⟨[], rfl, rfl⟩
  | succ n ih =>
    intro s hl hz
    cases s with
    | nil => exact ⟨[], rfl, rfl⟩
    | cons c s =>
      rw [ZG_cons] at hz
      simp only [List.length_cons] at hl
      obtain ⟨o1, ho1, hz1⟩ := ih s (by omega) hz.2
      by_cases hc : c = TreeProc.STX
      · subst hc
        have hf := hz.1 rfl
        simp only [Bool.or_eq_true] at hf
        cases hm : (decide (spanLen isDecimal s > 0) && s[spanLen isDecimal s]? == some TreeProc.ETX) with
        | true =>
          have hm' := hm
          simp only [Bool.and_eq_true, decide_eq_true_eq, beq_iff_eq] at hm'
          have ht : tokS s = true := by
            rcases hf with (hf | hf) | hf
            · rw [hdGl_no_match hf] at hm'; omega
            · exact hf
            · exact absurd hm'.2 (dead_no_match (hD1 _ hf))
          obtain ⟨d, rest, e, hspan, hpos, _, htake, hdrop, hv, hv2⟩ := tokS_match ht
          have hzr : ZG (fun r => hdGl r || tokS r || D r) rest = true := by
            have h2 := hz.2
            have e' : s = (d ++ [TreeProc.ETX]) ++ rest := by rw [e]; simp
            rw [e'] at h2; exact ZG_right h2
          have hlr : rest.length ≤ n := by
            have := congrArg List.length e
            simp only [List.length_append, List.length_cons] at this
            omega
          obtain ⟨o2, ho2, hz2⟩ := ih rest hlr hzr
          refine ⟨Char.ofNat (decToNat d) :: o2, ?_, ZG_cons_ne (ofNat_ne_stx hv2) hz2⟩
          rw [unesc_stx_match hm (by rw [hspan, htake]; exact hv), hspan, htake, hdrop, ho2]
          rfl
        | false =>
          refine ⟨TreeProc.STX :: o1, by rw [unesc_stx_nomatch hm, ho1]; rfl, ZG_cons_stx ?_ hz1⟩
          simp only [Bool.or_eq_true]
          rcases hf with (hf | hf) | hf
          · exact Or.inl (hdGl_unescape hf ho1)
          · exfalso
            obtain ⟨d, rest, e, hspan, hpos, hget, _⟩ := tokS_match hf
            rw [hspan, hget] at hm
            simp only [gt_iff_lt, hpos, decide_true, beq_self_eq_true, Bool.and_self] at hm
            cases hm
          · exact Or.inr (hD2 _ _ hf ho1)
      · exact ⟨c :: o1, by rw [unesc_copy hc, ho1]; rfl, ZG_cons_ne hc hz1⟩

/-- **THE KEY LEMMA**: `unescape` succeeds on a `Z0` string and its result is `Z3` — every complete token is
    replaced by a character other than STX, nothing else changes -/
theorem unescape_Z0 {s : Str} (h : Z0 s = true) : ∃ o, TreeProc.unescapeText 0 s = some o ∧ Z3 o = true := by
  rw [Z0_eq] at h
  obtain ⟨o, h1, h2⟩ := unescape_gen dead (fun _ h => h) (fun _ _ h hu => dead_unescape h hu) s.length s (Nat.le_refl _) h
  exact ⟨o, h1, by rw [Z3_eq]; exact h2⟩

theorem unescape_Z0c {s : Str} (h : Z0c s = true) : ∃ o, TreeProc.unescapeText 0 s = some o ∧ Z3c o = true := by
  rw [Z0c_eq] at h
  obtain ⟨o, h1, h2⟩ := unescape_gen deadc (fun _ h => dead_of_deadc h) (fun _ _ h hu => deadc_unescape h hu)
    s.length s (Nat.le_refl _) h
  exact ⟨o, h1, by rw [Z3c_eq]; exact h2⟩

/-- in the other direction of use: the result of a successful `unescape` -/
theorem Z3_of_unescape {s o : Str} (h : Z0 s = true) (hu : TreeProc.unescapeText 0 s = some o) : Z3 o = true := by
  obtain ⟨o', h1, h2⟩ := unescape_Z0 h
  rw [hu, Option.some.injEq] at h1; subst h1; exact h2

theorem Z3c_of_unescape {s o : Str} (h : Z0c s = true) (hu : TreeProc.unescapeText 0 s = some o) :
    Z3c o = true := by
  obtain ⟨o', h1, h2⟩ := unescape_Z0c h
  rw [hu, Option.some.injEq] at h1; subst h1; exact h2

/-- the predicates are not trivially true -/
example : Z0 "a\x02klzz \x0242\x03 \x0212\" \x02٣4\" \x027".toList = true ∧
    Z0c "a\x02klzz \x0242\x03 \x0212\" \x02٣4\" \x027".toList = false ∧
    Z0c "a\x02klzz \x0242\x03 \x0212\" \x02٣4\"".toList = true ∧
    Z0 "\x022\x03".toList = false ∧ Z0 "\x021114112\x03".toList = false ∧ Z0 "\x02٣\x03".toList = false ∧
    Z3 "\x0242\x03".toList = false ∧ Z3 "\x0242".toList = true ∧ Z3c "\x0242".toList = false ∧
    Z3 "\x02".toList = true ∧ Z3 "\x02 ".toList = false ∧
    ZA "\x0242".toList = true ∧ ZA "\x0242\"".toList = false := by decide

end MdVerif.C02Z
