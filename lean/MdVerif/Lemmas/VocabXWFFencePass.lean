/-
Lemmas for C05 on the extension model, output level with fenced_code, part 1: the substitution pass
`Post.subPass bl stash 0` of `RawHtmlPostprocessor` on a MIXED stash — entries of `FencedBlockPreprocessor`
(`FEntry`, `Lemmas/VocabXWFFenceStash.lean`) and entity references (`Vocab2.entRef`): `MixStash`.

* equations: `f_copy` (a character other than STX and `<` is copied), `f_lt` (`<` is copied unless `<p>` placeholder
  `</p>` starts there), `f_para` (what is written there), `f_plain`, `f_app` (distribution over `A ++ Y` when `A`
  holds no `<` and `Y` starts with a delimiter), `f_agree` (two stashes that differ in their first `n` entries only
  agree on every `<`-free string without placeholder of an index `< n`: `NoF n`);
* `pOut_mix`: alternative 1 writes `<p>` + what alternative 2 writes + `</p>`, or a block-level fenced entry;
* strictly readable strings (`SOK`): `strict_transp`, `sok_append`;
* `TFrag`: strictly readable stretches separated by fenced entries; `f_text`: the pass turns a strictly readable string
  into a `TFrag`;
* `f_post`: one pass leaves no placeholder of the stash; `rawHtml_mix`: `RawHtmlPostprocessor.run` is one pass;
* `f_no_amp`: the pass creates no ampersand substitute; `f_trim`: it keeps a stripped string stripped; `f_d4`.

Core Lean only.
-/
import MdVerif.Lemmas.VocabXWFFenceStash
import MdVerif.Lemmas.VocabXWFFinish

namespace MdVerif.VocabXFence
open Py Ser Vocab2 VocabXOut
open MdVerif.NoCtl

/-! ### the stash -/

/-- fenced-code entries and entity references -/
def MixStash (stash : List Str) : Prop := ∀ e ∈ stash, FEntry e ∨ entRef e = true

theorem mixStash_append {fenced ents : List Str} (hf : ∀ e ∈ fenced, FEntry e) (he : AllEnt ents) :
    MixStash (fenced ++ ents) := by
  intro e hm
  rcases List.mem_append.1 hm with h | h
  · exact Or.inl (hf e h)
  · exact Or.inr (he e h)

theorem fentry_pre {e : Str} (h : FEntry e) : ∃ r, e = '<' :: 'p' :: 'r' :: 'e' :: r := by
  obtain ⟨⟨id, classes, lang, code, rfl⟩, _⟩ := h
  obtain ⟨r, hr⟩ := NoCtlX.blockHtmlA_pre id classes lang code
  exact ⟨r, hr⟩

theorem fentry_last {e : Str} (h : FEntry e) : e.getLast? = some '>' := by
  obtain ⟨⟨id, classes, lang, code, rfl⟩, _⟩ := h
  unfold Fenced.blockHtmlA
  rw [List.getLast?_append]
  rfl

theorem fentry_noSTX {e : Str} (h : FEntry e) : STX ∉ e := h.2.1

theorem mix_noSTX {e : Str} (h : FEntry e ∨ entRef e = true) : STX ∉ e := by
  rcases h with h | h
  · exact fentry_noSTX h
  · exact entRef_noSTX h

theorem mix_head {e : Str} (h : FEntry e ∨ entRef e = true) : ∃ c r, e = c :: r ∧ (c = '<' ∨ c = '&') := by
  rcases h with h | h
  · obtain ⟨r, rfl⟩ := fentry_pre h
    exact ⟨_, _, rfl, Or.inl rfl⟩
  · obtain ⟨e', rfl, _⟩ := entityLike_cons (entRef_entityLike h)
    exact ⟨_, _, rfl, Or.inr rfl⟩

theorem mix_last {e : Str} (h : FEntry e ∨ entRef e = true) : ∃ c, e.getLast? = some c ∧ (c = '>' ∨ c = ';') := by
  rcases h with h | h
  · exact ⟨_, fentry_last h, Or.inl rfl⟩
  · exact ⟨_, (entityLike_iff.1 (entRef_entityLike h)).2.1, Or.inr rfl⟩

theorem isBlockLevelHtml_entRef (bl : List Str) {e : Str} (h : entRef e = true) : Post.isBlockLevelHtml bl e = false := by
  obtain ⟨e', rfl, _⟩ := entityLike_cons (entRef_entityLike h)
  exact isBlockLevelHtml_amp bl e'

/-! ### equations of the pass -/

theorem f_copy (bl stash : List Str) (c : Char) (s : Str) (h1 : c ≠ STX) (h2 : c ≠ '<') :
    Post.subPass bl stash 0 (c :: s) = c :: Post.subPass bl stash 0 s := by
  rcases subPass_cases bl stash c s with ⟨ds, rest, _, e, _⟩ | ⟨ds, rest, _, e, _⟩ | ⟨_, hr⟩
  · have e' : c = '<' ∧ s = 'p' :: '>' :: (phStr ds ++ ('<' :: '/' :: 'p' :: '>' :: rest)) := by simpa using e
    exact absurd e'.1 h2
  · rw [phStr_eq] at e
    simp only [List.cons_append, List.cons.injEq] at e
    exact absurd e.1 h1
  · exact hr

theorem f_lt (bl stash : List Str) (s : Str)
    (h : ∀ ds rest, PhDigits ds → s ≠ 'p' :: '>' :: (phStr ds ++ ('<' :: '/' :: 'p' :: '>' :: rest))) :
    Post.subPass bl stash 0 ('<' :: s) = '<' :: Post.subPass bl stash 0 s := by
  rcases subPass_cases bl stash '<' s with ⟨ds, rest, hds, e, _⟩ | ⟨ds, rest, _, e, _⟩ | ⟨_, hr⟩
  · have e' : s = 'p' :: '>' :: (phStr ds ++ ('<' :: '/' :: 'p' :: '>' :: rest)) := by simpa using e
    exact absurd e' (h ds rest hds)
  · rw [phStr_eq] at e
    simp only [List.cons_append, List.cons.injEq] at e
    exact absurd e.1 (by decide)
  · exact hr

/-- a stretch without STX and `<` is copied -/
theorem f_plain (bl stash : List Str) (M Y : Str) (h1 : STX ∉ M) (h2 : '<' ∉ M) :
    Post.subPass bl stash 0 (M ++ Y) = M ++ Post.subPass bl stash 0 Y := by
  induction M with
  | nil => rfl
  | cons c r ih =>
    have hc1 : c ≠ STX := fun e => h1 (by rw [e]; exact List.mem_cons_self)
    have hc2 : c ≠ '<' := fun e => h2 (by rw [e]; exact List.mem_cons_self)
    rw [List.cons_append, f_copy bl stash c _ hc1 hc2,
      ih (fun h => h1 (List.mem_cons_of_mem _ h)) (fun h => h2 (List.mem_cons_of_mem _ h))]
    rfl

theorem f_plain' (bl stash : List Str) (M : Str) (h1 : STX ∉ M) (h2 : '<' ∉ M) :
    Post.subPass bl stash 0 M = M := by
  have := f_plain bl stash M [] h1 h2
  simpa [sub_nil] using this

/-- `<p>` placeholder `</p>`: the first alternative of the pattern -/
theorem f_para (bl stash : List Str) {ds : Str} (hds : PhDigits ds) (rest : Str) :
    Post.subPass bl stash 0 ('<' :: 'p' :: '>' :: (phStr ds ++ ('<' :: '/' :: 'p' :: '>' :: rest))) =
      pOut bl stash ds ++ Post.subPass bl stash 0 rest := by
  have hq : ∃ out len, subAlt1 bl stash '<' ('p' :: '>' :: (phStr ds ++ ('<' :: '/' :: 'p' :: '>' :: rest))) =
      some (out, len) := by
    unfold subAlt1
    have h1 : startsWith ('<' :: 'p' :: '>' :: (phStr ds ++ ('<' :: '/' :: 'p' :: '>' :: rest))) "<p>".toList = true := by
      simp [startsWith_cons_cons, startsWith]
    have h2 : ('<' :: 'p' :: '>' :: (phStr ds ++ ('<' :: '/' :: 'p' :: '>' :: rest))).drop 3 =
        phStr ds ++ ('<' :: '/' :: 'p' :: '>' :: rest) := rfl
    have h3 : ('<' :: 'p' :: '>' :: (phStr ds ++ ('<' :: '/' :: 'p' :: '>' :: rest))).drop (3 + (10 + ds.length)) =
        '<' :: '/' :: 'p' :: '>' :: rest := by
      rw [← List.drop_drop, h2, ← phStr_length, List.drop_left]
    have h4 : startsWith ('<' :: '/' :: 'p' :: '>' :: rest) "</p>".toList = true := by
      simp [startsWith_cons_cons, startsWith]
    simp only [h1, h2, htmlPhAt_phStr hds, h3, h4, decide_true, Bool.and_self, if_true]
    cases Post.stashLookup stash ds with
    | none => exact ⟨_, _, rfl⟩
    | some html => simp only; split <;> exact ⟨_, _, rfl⟩
  obtain ⟨out, len, hq⟩ := hq
  obtain ⟨ds', rest', hds', e, rfl, rfl⟩ := subAlt1_some hq
  have e' : phStr ds ++ ('<' :: '/' :: 'p' :: '>' :: rest) = phStr ds' ++ ('<' :: '/' :: 'p' :: '>' :: rest') := by
    simpa using e
  obtain ⟨rfl, e2⟩ := phStr_inj hds hds' e'
  have e3 : rest = rest' := by simpa using e2
  subst e3
  rw [subPass_zero_cons, hq]
  simp only
  rw [subPass_drop]
  congr 2
  have : 17 + ds.length - 1 = ('p' :: '>' :: (phStr ds ++ ['<', '/', 'p', '>'])).length := by
    simp [phStr_length]; omega
  rw [this]
  have e4 : 'p' :: '>' :: (phStr ds ++ ('<' :: '/' :: 'p' :: '>' :: rest)) =
      ('p' :: '>' :: (phStr ds ++ ['<', '/', 'p', '>'])) ++ rest := by simp
  rw [e4, List.drop_left]

/-! ### what is written for a placeholder -/

theorem stashLookup_mem {stash : List Str} {ds html : Str} (h : Post.stashLookup stash ds = some html) :
    html ∈ stash := NoCtlX.stashLookup_mem_stash h

/-- alternative 2: an entry (first character `<` or `&`, no STX), or the dead placeholder itself -/
theorem phOut_mix {stash : List Str} (hm : MixStash stash) (ds : Str) :
    (∃ c r, phOut stash ds = c :: r ∧ (c = '<' ∨ c = '&') ∧ STX ∉ phOut stash ds ∧
      (Post.stashLookup stash ds).isSome = true) ∨
    (phOut stash ds = phStr ds ∧ Post.stashLookup stash ds = none) := by
  unfold phOut
  cases hlk : Post.stashLookup stash ds with
  | some html =>
    left
    have hh := hm _ (stashLookup_mem hlk)
    obtain ⟨c, r, e, hc⟩ := mix_head hh
    exact ⟨c, r, e, hc, mix_noSTX hh, rfl⟩
  | none => right; exact ⟨rfl, rfl⟩

/-- alternative 1 writes `<p>` + what alternative 2 writes + `</p>`, or a block-level fenced entry -/
theorem pOut_mix (bl : List Str) {stash : List Str} (hm : MixStash stash) (ds : Str) :
    pOut bl stash ds = '<' :: 'p' :: '>' :: (phOut stash ds ++ ['<', '/', 'p', '>']) ∨
    (∃ e, FEntry e ∧ Post.stashLookup stash ds = some e ∧ pOut bl stash ds = e) := by
  unfold pOut phOut
  cases hlk : Post.stashLookup stash ds with
  | some html =>
    simp only
    by_cases hb : Post.isBlockLevelHtml bl html = true
    · right
      rcases hm _ (stashLookup_mem hlk) with h | h
      · exact ⟨html, h, rfl, by rw [if_pos hb]⟩
      · rw [isBlockLevelHtml_entRef bl h] at hb; cases hb
    · left; rw [if_neg hb]; simp
  | none => left; rfl

theorem pOut_head (bl : List Str) {stash : List Str} (hm : MixStash stash) (ds : Str) :
    ∃ r, pOut bl stash ds = '<' :: r := by
  rcases pOut_mix bl hm ds with h | ⟨e, he, _, h⟩
  · exact ⟨_, h⟩
  · obtain ⟨r, hr⟩ := fentry_pre he
    exact ⟨_, by rw [h, hr]⟩

theorem pOut_last (bl : List Str) {stash : List Str} (hm : MixStash stash) (ds : Str) :
    (pOut bl stash ds).getLast? = some '>' := by
  rcases pOut_mix bl hm ds with h | ⟨e, he, _, h⟩
  · rw [h]
    have : '<' :: 'p' :: '>' :: (phOut stash ds ++ ['<', '/', 'p', '>']) =
        ('<' :: 'p' :: '>' :: phOut stash ds) ++ ['<', '/', 'p', '>'] := by simp
    rw [this, List.getLast?_append]; rfl
  · rw [h]; exact fentry_last he

/-- alternative 1: no STX in what is written, or the dead placeholder in its paragraph -/
theorem pOut_stx (bl : List Str) {stash : List Str} (hm : MixStash stash) (ds : Str) :
    (STX ∉ pOut bl stash ds ∧ (Post.stashLookup stash ds).isSome = true) ∨
    (pOut bl stash ds = '<' :: 'p' :: '>' :: (phStr ds ++ ['<', '/', 'p', '>']) ∧ Post.stashLookup stash ds = none) := by
  rcases pOut_mix bl hm ds with h | ⟨e, he, hlk, h⟩
  · rcases phOut_mix hm ds with ⟨c, r, _, _, hn, hs⟩ | ⟨hp, hlk⟩
    · left
      refine ⟨?_, hs⟩
      rw [h]
      intro hmem
      simp only [List.mem_cons, List.mem_append, List.not_mem_nil, or_false] at hmem
      rcases hmem with h1 | h1 | h1 | h1 | h1 | h1 | h1 | h1
      · revert h1; decide
      · revert h1; decide
      · revert h1; decide
      · exact hn h1
      · revert h1; decide
      · revert h1; decide
      · revert h1; decide
      · revert h1; decide
    · right; rw [h, hp]; exact ⟨rfl, hlk⟩
  · left; rw [h]; exact ⟨fentry_noSTX he, by rw [hlk]; rfl⟩

/-! ### distribution -/

theorem noLt_cons {c : Char} {r : Str} (h : NoLt (c :: r)) : c ≠ '<' ∧ NoLt r :=
  ⟨h c List.mem_cons_self, fun x hx => h x (List.mem_cons_of_mem _ hx)⟩

theorem noLt_append {a b : Str} (ha : NoLt a) (hb : NoLt b) : NoLt (a ++ b) := by
  intro c hc
  rcases List.mem_append.1 hc with h | h
  · exact ha c h
  · exact hb c h

theorem noLt_of_append_right {a b : Str} (h : NoLt (a ++ b)) : NoLt b :=
  fun c hc => h c (List.mem_append_right _ hc)

theorem noLt_phStr {ds : Str} (hds : PhDigits ds) : NoLt (phStr ds) :=
  fun c hc => (phStr_inert ds hds c hc).2.1

/-- the pass distributes over `A ++ Y` when `A` holds no `<` and `Y` starts with a delimiter -/
theorem f_app_aux (bl stash : List Str) (Y : Str) (hY : DelimStart Y) :
    ∀ (n : Nat) (A : Str), A.length ≤ n → NoLt A →
      Post.subPass bl stash 0 (A ++ Y) = Post.subPass bl stash 0 A ++ Post.subPass bl stash 0 Y := by
  intro n
  induction n with
  | zero =>
    intro A hl _
    have : A = [] := List.length_eq_zero_iff.1 (by omega)
    subst this; rfl
  | succ n ih =>
    intro A hl hA
    rcases str_cases A with rfl | ⟨c, r, rfl, hc⟩ | ⟨ds, rest, hds, rfl⟩ | ⟨r, rfl, hn⟩
    · rfl
    · obtain ⟨hc2, hr⟩ := noLt_cons hA
      rw [List.cons_append, f_copy bl stash c _ hc hc2, f_copy bl stash c _ hc hc2,
        ih r (by simp only [List.length_cons] at hl; omega) hr]
      rfl
    · rw [List.append_assoc, sub_ph bl stash hds, sub_ph bl stash hds,
        ih rest (by simp only [List.length_append, phStr_length] at hl; omega) (noLt_of_append_right hA),
        List.append_assoc]
    · rw [List.cons_append, sub_dead bl stash _ (htmlPhAt_append_delim r Y hY hn), sub_dead bl stash _ hn,
        ih r (by simp only [List.length_cons] at hl; omega) (noLt_cons hA).2]
      rfl

theorem f_app (bl stash : List Str) (A Y : Str) (hA : NoLt A) (hY : D4 Y) :
    Post.subPass bl stash 0 (A ++ Y) = Post.subPass bl stash 0 A ++ Post.subPass bl stash 0 Y :=
  f_app_aux bl stash Y hY.delimStart A.length A (Nat.le_refl _) hA

/-- what the pass writes in front of a delimiter starts with a delimiter -/
theorem f_d4 (bl : List Str) {stash : List Str} (hm : MixStash stash) {Y : Str} (hY : D4 Y) :
    D4 (Post.subPass bl stash 0 Y) := by
  cases Y with
  | nil => exact d4_nil
  | cons d r =>
    have hd := hY d rfl
    rcases subPass_cases bl stash d r with ⟨ds, rest, _, _, hr⟩ | ⟨ds, rest, _, e, _⟩ | ⟨_, hr⟩
    · rw [hr]
      obtain ⟨q, hq⟩ := pOut_head bl hm ds
      rw [hq]; exact d4_cons (Or.inl rfl) _
    · rw [phStr_eq] at e
      simp only [List.cons_append, List.cons.injEq] at e
      rcases hd with h | h | h | h <;> rw [h] at e <;> exact absurd e.1 (by decide)
    · rw [hr]; exact d4_cons hd _

/-! ### two stashes that differ in entries that are not referred to -/

/-- no placeholder of an index `< n` occurs in `X` -/
def NoF (n : Nat) (X : Str) : Prop := ∀ i, i < n → contains X (Fenced.placeholder i) = false

theorem placeholder_eq_phStr (i : Nat) : Fenced.placeholder i = phStr (natToDec i) := by
  simp [Fenced.placeholder, phStr, Post.htmlPrefix]
  exact ⟨rfl, rfl⟩

theorem noF_suffix {n : Nat} {X Y : Str} (h : NoF n X) (hs : Y <:+: X) : NoF n Y :=
  fun i hi => contains_infix (h i hi) hs

theorem stashLookup_agree {a b ents : List Str} (hl : a.length = b.length) {ds : Str}
    (h : natToDec (decToNat ds) = ds → a.length ≤ decToNat ds) :
    Post.stashLookup (a ++ ents) ds = Post.stashLookup (b ++ ents) ds := by
  unfold Post.stashLookup
  simp only
  split
  · rename_i hc
    have := h hc
    rw [List.getElem?_append_right this, List.getElem?_append_right (by omega), hl]
  · rfl

theorem f_agree_aux (bl : List Str) {a b ents : List Str} (hl : a.length = b.length) :
    ∀ (n : Nat) (X : Str), X.length ≤ n → NoLt X → NoF a.length X →
      Post.subPass bl (a ++ ents) 0 X = Post.subPass bl (b ++ ents) 0 X := by
  intro n
  induction n with
  | zero =>
    intro X hlen _ _
    have : X = [] := List.length_eq_zero_iff.1 (by omega)
    subst this; rfl
  | succ n ih =>
    intro X hlen hX hF
    rcases str_cases X with rfl | ⟨c, r, rfl, hc⟩ | ⟨ds, rest, hds, rfl⟩ | ⟨r, rfl, hn⟩
    · rfl
    · obtain ⟨hc2, hr⟩ := noLt_cons hX
      rw [f_copy bl _ c _ hc hc2, f_copy bl _ c _ hc hc2,
        ih r (by simp only [List.length_cons] at hlen; omega) hr (noF_suffix hF ⟨[c], [], by simp⟩)]
    · rw [sub_ph bl _ hds, sub_ph bl _ hds,
        ih rest (by simp only [List.length_append, phStr_length] at hlen; omega) (noLt_of_append_right hX)
          (noF_suffix hF ⟨phStr ds, [], by simp⟩)]
      congr 1
      unfold phOut
      rw [stashLookup_agree hl]
      intro hcanon
      cases Nat.lt_or_ge (decToNat ds) a.length with
      | inr h => exact h
      | inl h =>
        exfalso
        have h1 := hF _ h
        rw [placeholder_eq_phStr, hcanon] at h1
        have h2 : contains (phStr ds ++ rest) (phStr ds) = true := contains_iff.2 ⟨[], rest, by simp⟩
        rw [h1] at h2; cases h2
    · rw [sub_dead bl _ _ hn, sub_dead bl _ _ hn,
        ih r (by simp only [List.length_cons] at hlen; omega) (noLt_cons hX).2 (noF_suffix hF ⟨[STX], [], by simp⟩)]

/-- **the first `n` entries do not matter on a `<`-free string without placeholder of an index `< n`** -/
theorem f_agree (bl : List Str) {a b ents : List Str} (hl : a.length = b.length) (X : Str) (hX : NoLt X)
    (hF : NoF a.length X) : Post.subPass bl (a ++ ents) 0 X = Post.subPass bl (b ++ ents) 0 X :=
  f_agree_aux bl hl X.length X (Nat.le_refl _) hX hF

/-! ### strictly readable strings -/

/-- the strict reader accepts `S` as a text -/
def SOK (S : Str) : Prop := (strict cdata 0 S).isSome = true

theorem sok_nil : SOK [] := rfl

/-- a strictly readable string is read the same way whatever follows -/
theorem strict_transp_aux : ∀ (n : Nat) (S : Str) (toks : List Tok), S.length ≤ n →
    strict cdata 0 S = some toks → Transp S toks := by
  intro n
  induction n with
  | zero =>
    intro S toks hl h
    have : S = [] := List.length_eq_zero_iff.1 (by omega)
    subst this
    simp only [strict, Option.some.injEq] at h
    subst h
    exact transp_nil_nil
  | succ n ih =>
    intro S toks hl h
    cases S with
    | nil =>
      simp only [strict, Option.some.injEq] at h
      subst h
      exact transp_nil_nil
    | cons c r =>
      have hlr : r.length ≤ n := by simp only [List.length_cons] at hl; omega
      by_cases ha : c = '&'
      · subst ha
        rw [strict, if_pos rfl] at h
        cases hk : entLen r with
        | none => rw [hk] at h; cases h
        | some k =>
          rw [hk] at h
          simp only [Option.map_eq_some_iff] at h
          obtain ⟨t', ht', rfl⟩ := h
          obtain ⟨hkl, _, hpre⟩ := entLen_spec r k hk
          rw [strict_drop cdata k r hkl] at ht'
          have ih' := ih (r.drop k) t' (by rw [List.length_drop]; omega) ht'
          intro Y
          have e1 : r ++ Y = r.take k ++ (r.drop k ++ Y) := by
            rw [← List.append_assoc, List.take_append_drop]
          have hk' : entLen (r ++ Y) = some k := by rw [e1]; exact hpre _
          have e2 : (r ++ Y).drop k = r.drop k ++ Y := List.drop_append_of_le_length hkl
          have e3 : (r ++ Y).take (k - 1) = r.take (k - 1) := List.take_append_of_le_length (by omega)
          rw [List.cons_append, strict, if_pos rfl, hk']
          simp only
          rw [strict_drop cdata k (r ++ Y) (by rw [List.length_append]; omega), e2, ih' Y, e3]
          cases strict cdata 0 Y <;> rfl
      · rw [strict, if_neg ha] at h
        split at h
        · cases h
        · rename_i h1
          split at h
          · cases h
          · rename_i h2
            simp only [Option.map_eq_some_iff] at h
            obtain ⟨t', ht', rfl⟩ := h
            have ih' := ih r t' hlr ht'
            intro Y
            rw [List.cons_append, strict, if_neg ha, if_neg h1, if_neg h2, ih' Y]
            cases strict cdata 0 Y <;> rfl

theorem strict_transp {S : Str} {toks : List Tok} (h : strict cdata 0 S = some toks) : Transp S toks :=
  strict_transp_aux S.length S toks (Nat.le_refl _) h

theorem sok_toks {S : Str} (h : SOK S) : ∃ toks, strict cdata 0 S = some toks := Option.isSome_iff_exists.1 h

theorem sok_append {A B : Str} (ha : SOK A) (hb : SOK B) : SOK (A ++ B) := by
  obtain ⟨ta, hta⟩ := sok_toks ha
  obtain ⟨tb, htb⟩ := sok_toks hb
  unfold SOK
  rw [strict_transp hta B, htb]; rfl

theorem sok_noLt_aux : ∀ (n : Nat) (S : Str), S.length ≤ n → SOK S → NoLt S := by
  intro n
  induction n with
  | zero =>
    intro S hl _
    have : S = [] := List.length_eq_zero_iff.1 (by omega)
    subst this; exact noLt_nil
  | succ n ih =>
    intro S hl h
    cases S with
    | nil => exact noLt_nil
    | cons c r =>
      unfold SOK at h
      by_cases ha : c = '&'
      · subst ha
        rw [strict, if_pos rfl] at h
        cases hk : entLen r with
        | none => rw [hk] at h; cases h
        | some k =>
          rw [hk] at h
          simp only [Option.isSome_map] at h
          obtain ⟨hkl, hplain, _⟩ := entLen_spec r k hk
          rw [strict_drop cdata k r hkl] at h
          have ih' := ih (r.drop k) (by rw [List.length_drop]; simp only [List.length_cons] at hl; omega) h
          intro x hx
          rcases List.mem_cons.1 hx with rfl | hx
          · decide
          · rw [← List.take_append_drop k r] at hx
            rcases List.mem_append.1 hx with hx | hx
            · intro e; subst e
              have := hplain _ hx
              revert this; decide
            · exact ih' x hx
      · rw [strict, if_neg ha] at h
        split at h
        · cases h
        · rename_i h1
          split at h
          · cases h
          · simp only [Option.isSome_map] at h
            have ih' := ih r (by simp only [List.length_cons] at hl; omega) h
            intro x hx
            rcases List.mem_cons.1 hx with rfl | hx
            · intro e; subst e; simp at h1
            · exact ih' x hx

theorem sok_noLt {S : Str} (h : SOK S) : NoLt S := sok_noLt_aux S.length S (Nat.le_refl _) h

/-- an entity reference is strictly readable -/
theorem sok_entRef {e : Str} (h : entRef e = true) : SOK e := by
  obtain ⟨tok, ht⟩ := strict_entRef cdata h []
  unfold SOK
  rw [List.append_nil] at ht
  rw [ht]; rfl

/-- characters that are no markup are strictly readable -/
theorem sok_inert {b : Str} (hb : ∀ c ∈ b, c ≠ '&' ∧ c ≠ '<' ∧ c ≠ '>' ∧ c ≠ '"') : SOK b := by
  have := strict_inert cdata b [] hb
  unfold SOK
  rw [List.append_nil] at this
  rw [this]; rfl

/-! ### strictly readable stretches separated by fenced entries -/

inductive TFrag : Str → Prop
  | txt (S : Str) : SOK S → TFrag S
  | ent (S e R : Str) : SOK S → FEntry e → TFrag R → TFrag (S ++ (e ++ R))

theorem TFrag.prepend {T R : Str} (hT : SOK T) (hR : TFrag R) : TFrag (T ++ R) := by
  cases hR with
  | txt S hS => exact TFrag.txt _ (sok_append hT hS)
  | ent S e R' hS he hR' =>
    rw [← List.append_assoc]
    exact TFrag.ent _ e R' (sok_append hT hS) he hR'

theorem TFrag.entry {e R : Str} (he : FEntry e) (hR : TFrag R) : TFrag (e ++ R) :=
  TFrag.ent [] e R sok_nil he hR

/-- **the pass turns a strictly readable string into stretches of strictly readable text and fenced entries** -/
theorem f_text_aux (bl : List Str) {stash : List Str} (hm : MixStash stash) :
    ∀ (n : Nat) (S : Str), S.length ≤ n → SOK S → TFrag (Post.subPass bl stash 0 S) := by
  intro n
  induction n with
  | zero =>
    intro S hl _
    have : S = [] := List.length_eq_zero_iff.1 (by omega)
    subst this; exact TFrag.txt _ sok_nil
  | succ n ih =>
    intro S hl h
    rcases str_cases S with rfl | ⟨c, r, rfl, hc⟩ | ⟨ds, rest, hds, rfl⟩ | ⟨r, rfl, hn⟩
    · exact TFrag.txt _ sok_nil
    · have hlr : r.length ≤ n := by simp only [List.length_cons] at hl; omega
      have hc2 : c ≠ '<' := (noLt_cons (sok_noLt h)).1
      rw [f_copy bl stash c _ hc hc2]
      unfold SOK at h
      by_cases ha : c = '&'
      · subst ha
        rw [strict, if_pos rfl] at h
        cases hk : entLen r with
        | none => rw [hk] at h; cases h
        | some k =>
          rw [hk] at h
          simp only [Option.isSome_map] at h
          obtain ⟨hkl, hplain, _⟩ := entLen_spec r k hk
          rw [strict_drop cdata k r hkl] at h
          have hs : STX ∉ r.take k := by
            intro hm'
            have := entLen_chars r k hk _ hm'
            revert this; decide
          have hlt : '<' ∉ r.take k := by
            intro hm'
            have := hplain _ hm'
            revert this; decide
          have e1 : Post.subPass bl stash 0 r = r.take k ++ Post.subPass bl stash 0 (r.drop k) := by
            conv => lhs; rw [← List.take_append_drop k r]
            exact f_plain bl stash _ _ hs hlt
          rw [e1, ← List.cons_append]
          exact TFrag.prepend (sok_entRef (entRef_of_entLen r k hk)) (ih _ (by rw [List.length_drop]; omega) h)
      · rw [strict, if_neg ha] at h
        split at h
        · cases h
        · rename_i h1
          split at h
          · cases h
          · rename_i h2
            simp only [Option.isSome_map] at h
            have hone : SOK [c] := by
              unfold SOK
              rw [strict, if_neg ha, if_neg h1, if_neg h2]; rfl
            exact TFrag.prepend (T := [c]) hone (ih r hlr h)
    · rw [sub_ph bl stash hds]
      unfold SOK at h
      rw [strict_inert cdata _ _ (phStr_inert ds hds)] at h
      simp only [Option.isSome_map] at h
      have hr := ih rest (by simp only [List.length_append, phStr_length] at hl; omega) h
      unfold phOut
      cases hlk : Post.stashLookup stash ds with
      | some html =>
        rcases hm _ (stashLookup_mem hlk) with he | he
        · exact TFrag.entry he hr
        · exact TFrag.prepend (sok_entRef he) hr
      | none => exact TFrag.prepend (sok_inert (phStr_inert ds hds)) hr
    · rw [sub_dead bl stash _ hn]
      have hin : ∀ c ∈ [STX], c ≠ '&' ∧ c ≠ '<' ∧ c ≠ '>' ∧ c ≠ '"' := by
        intro c hc; simp only [List.mem_singleton] at hc; subst hc; decide
      unfold SOK at h
      have e1 := strict_inert cdata [STX] r hin
      simp only [List.singleton_append] at e1
      rw [e1] at h
      simp only [Option.isSome_map] at h
      exact TFrag.prepend (T := [STX]) (sok_inert hin) (ih r (by simp only [List.length_cons] at hl; omega) h)

theorem f_text (bl : List Str) {stash : List Str} (hm : MixStash stash) (S : Str) (h : SOK S) :
    TFrag (Post.subPass bl stash 0 S) := f_text_aux bl hm S.length S (Nat.le_refl _) h

/-! ### one pass leaves no placeholder of the stash -/

/-- a prefix of the output made of characters that no replacement starts with was copied -/
theorem startsWith_f (bl : List Str) {stash : List Str} (hm : MixStash stash) : ∀ (q s : Str),
    startsWith (Post.subPass bl stash 0 s) q = true → (∀ x ∈ q, x ≠ '&' ∧ x ≠ '<' ∧ x ≠ STX) →
    startsWith s q = true
  | [], s, _, _ => startsWith_nil s
  | x :: q, [], h, _ => by simp [Post.subPass] at h
  | x :: q, c :: s, h, hq => by
    have hx := hq x (by simp)
    rcases subPass_cases bl stash c s with ⟨ds, rest, hds, e, hr⟩ | ⟨ds, rest, hds, e, hr⟩ | ⟨_, hr⟩
    · exfalso
      rw [hr] at h
      obtain ⟨r', hp⟩ := pOut_head bl hm ds
      rw [hp] at h
      simp only [List.cons_append, startsWith_cons_cons, Bool.and_eq_true, decide_eq_true_eq] at h
      exact hx.2.1 h.1.symm
    · exfalso
      rw [hr] at h
      rcases phOut_mix hm ds with ⟨c', r', hp, hc', _, _⟩ | ⟨hp, _⟩ <;> rw [hp] at h
      · simp only [List.cons_append, startsWith_cons_cons, Bool.and_eq_true, decide_eq_true_eq] at h
        rcases hc' with rfl | rfl
        · exact hx.2.1 h.1.symm
        · exact hx.1 h.1.symm
      · simp only [phStr_eq, List.cons_append, startsWith_cons_cons, Bool.and_eq_true, decide_eq_true_eq] at h
        exact hx.2.2 h.1.symm
    · rw [hr] at h
      simp only [startsWith_cons_cons, Bool.and_eq_true, decide_eq_true_eq] at h ⊢
      exact ⟨h.1, startsWith_f bl hm q s h.2 (fun y hy => hq y (List.mem_cons_of_mem _ hy))⟩

theorem phBody_chars' {ds : Str} (hds : PhDigits ds) :
    ∀ x ∈ ('w' :: 'z' :: 'x' :: 'h' :: 'z' :: 'd' :: 'k' :: ':' :: (ds ++ [ETX]) : Str), x ≠ '&' ∧ x ≠ '<' ∧ x ≠ STX := by
  intro x hx
  simp only [List.mem_cons, List.mem_append, List.not_mem_nil, or_false] at hx
  have hdig : ∀ y, isAsciiDigit y = true → y ≠ '&' ∧ y ≠ '<' ∧ y ≠ STX := by
    intro y hy
    refine ⟨?_, ?_, ?_⟩ <;> rintro rfl <;> revert hy <;> decide
  rcases hx with rfl | rfl | rfl | rfl | rfl | rfl | rfl | rfl | hx | rfl
  all_goals first | decide | exact hdig _ (List.all_eq_true.1 hds.2 _ hx)

theorem f_post_aux (bl : List Str) {stash : List Str} (hm : MixStash stash) (n : Nat) :
    ∀ t : Str, t.length ≤ n → hasLiveHtmlPh stash (Post.subPass bl stash 0 t) = false := by
  induction n with
  | zero =>
    intro t hl
    have : t = [] := List.length_eq_zero_iff.1 (by omega)
    subst this; rfl
  | succ n ih =>
    intro t hl
    cases t with
    | nil => rfl
    | cons c s =>
      rcases subPass_cases bl stash c s with ⟨ds, rest, hds, e, hr⟩ | ⟨ds, rest, hds, e, hr⟩ | ⟨hno, hr⟩
      · have hl' : rest.length ≤ n := by
          have := congrArg List.length e
          simp [phStr_length] at this hl; omega
        rw [hr]
        rcases pOut_stx bl hm ds with ⟨hn, _⟩ | ⟨hp, hlk⟩
        · rw [hasLive_append_noSTX hn]; exact ih rest hl'
        · rw [hp]
          have := hasLive_p_phStr (stash := stash) hds (Post.subPass bl stash 0 rest)
          rw [hlk, ih rest hl'] at this
          have e2 : '<' :: 'p' :: '>' :: (phStr ds ++ ['<', '/', 'p', '>']) ++ Post.subPass bl stash 0 rest =
              "<p>".toList ++ (phStr ds ++ ("</p>".toList ++ Post.subPass bl stash 0 rest)) := by
            simp only [List.cons_append, List.append_assoc]; rfl
          rw [e2, this]; rfl
      · have hl' : rest.length ≤ n := by
          have := congrArg List.length e
          simp [phStr_length] at this hl; omega
        rw [hr]
        rcases phOut_mix hm ds with ⟨_, _, _, _, hn, _⟩ | ⟨hp, hlk⟩
        · rw [hasLive_append_noSTX hn]; exact ih rest hl'
        · rw [hp, hasLive_phStr hds, hlk, ih rest hl']; rfl
      · rw [hr, hasLive_cons, ih s (by simp at hl; omega), Bool.or_false]
        cases hq : liveHtmlPhAt stash (c :: Post.subPass bl stash 0 s) with
        | false => rfl
        | true =>
          exfalso
          obtain ⟨ds, rest, hds, e, _⟩ := liveHtmlPhAt_some hq
          rw [phStr_eq, List.cons_append, List.cons.injEq] at e
          obtain ⟨hc, e⟩ := e
          have hsw : startsWith (Post.subPass bl stash 0 s)
              ('w' :: 'z' :: 'x' :: 'h' :: 'z' :: 'd' :: 'k' :: ':' :: (ds ++ [ETX])) = true := by
            rw [e]; exact startsWith_append _ _
          have hs := startsWith_f bl hm _ s hsw (phBody_chars' hds)
          obtain ⟨rest', e'⟩ := startsWith_iff_prefix.1 hs
          have : Post.htmlPhAt (c :: s) = some (ds, 10 + ds.length) := by
            rw [hc, e']
            exact htmlPhAt_phStr hds rest'
          rw [hno hc] at this; cases this

/-- one pass removes every placeholder of the stash: no entry holds STX, and no entry starts with a character of a
    placeholder -/
theorem f_post (bl : List Str) {stash : List Str} (hm : MixStash stash) (t : Str) :
    hasLiveHtmlPh stash (Post.subPass bl stash 0 t) = false := f_post_aux bl hm t.length t (Nat.le_refl _)

/-- **`RawHtmlPostprocessor.run` on a mixed stash is one substitution pass** (the second finds nothing) -/
theorem rawHtml_mix (bl : List Str) {stash : List Str} (hm : MixStash stash) (text : Str) :
    Post.rawHtml bl stash (Post.rawHtmlFuel stash) text = some (Post.subPass bl stash 0 text) := by
  have hf : Post.rawHtmlFuel stash = (stash.length + 1) + 1 + 1 := rfl
  rw [hf]
  unfold Post.rawHtml
  split
  · rename_i hemp
    have : stash = [] := by simpa using hemp
    subst this
    rw [subPass_id (hasLive_nil_stash text)]
  · simp only
    split
    · rfl
    · unfold Post.rawHtml
      split
      · rfl
      · simp only
        rw [if_pos (subPass_id (f_post bl hm text)), subPass_id (f_post bl hm text)]

/-! ### the pass creates no ampersand substitute -/

theorem f_no_amp (bl : List Str) {stash : List Str} (hm : MixStash stash) :
    ∀ (n : Nat) (X : Str), X.length ≤ n → contains X Post.ampSubstitute = false →
      contains (Post.subPass bl stash 0 X) Post.ampSubstitute = false := by
  intro n
  induction n with
  | zero =>
    intro X hl h
    have : X = [] := List.length_eq_zero_iff.1 (by omega)
    subst this; exact h
  | succ n ih =>
    intro X hl h
    cases X with
    | nil => exact h
    | cons c s =>
      rcases subPass_cases bl stash c s with ⟨ds, rest, hds, e, hr⟩ | ⟨ds, rest, hds, e, hr⟩ | ⟨hno, hr⟩
      · have hl' : rest.length ≤ n := by
          have := congrArg List.length e
          simp [phStr_length] at this hl; omega
        have hrest : contains rest Post.ampSubstitute = false :=
          contains_infix h ⟨"<p>".toList ++ (phStr ds ++ "</p>".toList), [], by rw [e]; simp⟩
        have hr' := ih rest hl' hrest
        rw [hr]
        rcases pOut_stx bl hm ds with ⟨hn, _⟩ | ⟨hp, _⟩
        · rw [contains_noSTX_append _ _ hn]; exact hr'
        · rw [hp]
          have e2 : '<' :: 'p' :: '>' :: (phStr ds ++ ['<', '/', 'p', '>']) ++ Post.subPass bl stash 0 rest =
              ['<', 'p', '>'] ++ (phStr ds ++ (['<', '/', 'p', '>'] ++ Post.subPass bl stash 0 rest)) := by
            simp
          rw [e2, contains_noSTX_append _ _ (by decide), contains_phStr_append ds hds,
            contains_noSTX_append _ _ (by decide)]
          exact hr'
      · have hl' : rest.length ≤ n := by
          have := congrArg List.length e
          simp [phStr_length] at this hl; omega
        rw [e, contains_phStr_append ds hds] at h
        have hr' := ih rest hl' h
        rw [hr]
        rcases phOut_mix hm ds with ⟨_, _, _, _, hn, _⟩ | ⟨hp, _⟩
        · rw [contains_noSTX_append _ _ hn]; exact hr'
        · rw [hp, contains_phStr_append ds hds]; exact hr'
      · rw [hr]
        rw [contains_cons, Bool.or_eq_false_iff] at h
        rw [contains_cons, ih s (by simp only [List.length_cons] at hl; omega) h.2, Bool.or_false]
        cases hsw : startsWith (c :: Post.subPass bl stash 0 s) Post.ampSubstitute with
        | false => rfl
        | true =>
          exfalso
          simp only [Post.ampSubstitute, startsWith_cons_cons, Bool.and_eq_true, decide_eq_true_eq] at hsw
          have h1 : startsWith (Post.subPass bl stash 0 s) ('a' :: 'm' :: 'p' :: [Post.ETX]) = true := hsw.2
          have h2 := startsWith_f bl hm _ s h1 (by decide)
          have : startsWith (c :: s) Post.ampSubstitute = true := by
            simp only [Post.ampSubstitute, startsWith_cons_cons, Bool.and_eq_true, decide_eq_true_eq]
            exact ⟨hsw.1, h2⟩
          rw [this] at h; cases h.1

/-! ### a token substitution keeps a stripped string stripped -/

/-- neither end is white space -/
def Trimmed (X : Str) : Prop :=
  (∀ c, X.head? = some c → isSpace c = false) ∧ (∀ c, X.getLast? = some c → isSpace c = false)

theorem trimmed_strip (s : Str) : Trimmed (strip s) := ⟨fun _ h => strip_head h, fun _ h => strip_getLast h⟩

theorem Trimmed.strip_eq {X : Str} (h : Trimmed X) : strip X = X := strip_eq_self h.1 h.2

/-- a left-to-right substitution of tokens by non-empty words whose two ends are not white space -/
structure TokSub (g : Str → Str) : Prop where
  nil : g [] = []
  step : ∀ c s, g (c :: s) = c :: g s ∨
    ∃ out rest, g (c :: s) = out ++ g rest ∧ rest <:+ s ∧
      (∃ a, out.head? = some a ∧ isSpace a = false) ∧ (∃ b, out.getLast? = some b ∧ isSpace b = false)

theorem TokSub.ne_nil {g : Str → Str} (hg : TokSub g) {X : Str} (h : g X = []) : X = [] := by
  cases X with
  | nil => rfl
  | cons c s =>
    rcases hg.step c s with e | ⟨out, rest, e, _, ⟨a, ha, _⟩, _⟩
    · rw [e] at h; cases h
    · rw [e] at h
      cases out with
      | nil => cases ha
      | cons x xs => cases h

theorem TokSub.last {g : Str → Str} (hg : TokSub g) : ∀ (n : Nat) (X : Str), X.length ≤ n →
    ∀ c, (g X).getLast? = some c → isSpace c = true → X.getLast? = some c := by
  intro n
  induction n with
  | zero =>
    intro X hl c hc _
    have : X = [] := List.length_eq_zero_iff.1 (by omega)
    subst this
    rw [hg.nil] at hc; cases hc
  | succ n ih =>
    intro X hl c hc hsp
    cases X with
    | nil => rw [hg.nil] at hc; cases hc
    | cons c0 s =>
      have hls : s.length ≤ n := by simp only [List.length_cons] at hl; omega
      rcases hg.step c0 s with e | ⟨out, rest, e, hsuf, _, ⟨b, hb, hbs⟩⟩
      · rw [e] at hc
        cases hgs : g s with
        | nil =>
          have : s = [] := hg.ne_nil hgs
          subst this
          rw [hgs] at hc
          exact hc
        | cons y ys =>
          rw [hgs, List.getLast?_cons_cons, ← hgs] at hc
          have hs := ih s hls c hc hsp
          cases s with
          | nil => cases hs
          | cons z zs => rw [List.getLast?_cons_cons]; exact hs
      · rw [e, List.getLast?_append] at hc
        cases hgr : (g rest).getLast? with
        | none =>
          rw [hgr] at hc
          simp only [Option.none_or] at hc
          rw [hb] at hc
          injection hc with hc
          subst hc
          rw [hbs] at hsp; cases hsp
        | some y =>
          rw [hgr] at hc
          simp only [Option.some_or, Option.some.injEq] at hc
          subst hc
          obtain ⟨t, ht⟩ := hsuf
          have hlr : rest.length ≤ n := by
            have := congrArg List.length ht
            simp only [List.length_append] at this
            omega
          have hr := ih rest hlr y hgr hsp
          rw [← ht, ← List.cons_append, List.getLast?_append, hr]
          rfl

/-- **a token substitution keeps a stripped string stripped** -/
theorem TokSub.trimmed {g : Str → Str} (hg : TokSub g) {X : Str} (h : Trimmed X) : Trimmed (g X) := by
  constructor
  · intro c hc
    cases X with
    | nil => rw [hg.nil] at hc; cases hc
    | cons c0 s =>
      rcases hg.step c0 s with e | ⟨out, rest, e, _, ⟨a, ha, has⟩, _⟩
      · rw [e] at hc
        simp only [List.head?_cons, Option.some.injEq] at hc
        subst hc
        exact h.1 _ rfl
      · rw [e] at hc
        cases out with
        | nil => cases ha
        | cons x xs =>
          simp only [List.cons_append, List.head?_cons, Option.some.injEq] at hc ha
          subst hc; subst ha; exact has
  · intro c hc
    cases hsp : isSpace c with
    | false => rfl
    | true =>
      have := hg.last X.length X (Nat.le_refl _) c hc hsp
      rw [h.2 c this] at hsp; cases hsp

theorem not_space_facts : isSpace '<' = false ∧ isSpace '>' = false ∧ isSpace '&' = false ∧ isSpace ';' = false ∧
    isSpace STX = false ∧ isSpace ETX = false := by decide

/-- the substitution pass on a mixed stash is such a substitution -/
theorem tokSub_f (bl : List Str) {stash : List Str} (hm : MixStash stash) : TokSub (Post.subPass bl stash 0) where
  nil := rfl
  step := by
    intro c s
    rcases subPass_cases bl stash c s with ⟨ds, rest, hds, e, hr⟩ | ⟨ds, rest, hds, e, hr⟩ | ⟨_, hr⟩
    · right
      refine ⟨pOut bl stash ds, rest, hr, ?_, ?_, ?_⟩
      · have e' : c = '<' ∧ s = 'p' :: '>' :: (phStr ds ++ ('<' :: '/' :: 'p' :: '>' :: rest)) := by simpa using e
        exact ⟨'p' :: '>' :: (phStr ds ++ ['<', '/', 'p', '>']), by rw [e'.2]; simp⟩
      · obtain ⟨r, hr'⟩ := pOut_head bl hm ds
        exact ⟨'<', by rw [hr']; rfl, not_space_facts.1⟩
      · exact ⟨'>', pOut_last bl hm ds, not_space_facts.2.1⟩
    · right
      refine ⟨phOut stash ds, rest, hr, ?_, ?_, ?_⟩
      · rw [phStr_eq] at e
        simp only [List.cons_append, List.cons.injEq] at e
        exact ⟨'w' :: 'z' :: 'x' :: 'h' :: 'z' :: 'd' :: 'k' :: ':' :: (ds ++ [ETX]), by rw [e.2]; simp⟩
      · unfold phOut
        cases hlk : Post.stashLookup stash ds with
        | some html =>
          obtain ⟨a, r, e1, ha⟩ := mix_head (hm _ (stashLookup_mem hlk))
          refine ⟨a, by rw [e1]; rfl, ?_⟩
          rcases ha with rfl | rfl
          · exact not_space_facts.1
          · exact not_space_facts.2.2.1
        | none => exact ⟨STX, rfl, not_space_facts.2.2.2.2.1⟩
      · unfold phOut
        cases hlk : Post.stashLookup stash ds with
        | some html =>
          obtain ⟨b, e1, hb⟩ := mix_last (hm _ (stashLookup_mem hlk))
          refine ⟨b, e1, ?_⟩
          rcases hb with rfl | rfl
          · exact not_space_facts.2.1
          · exact not_space_facts.2.2.2.1
        | none =>
          refine ⟨ETX, ?_, not_space_facts.2.2.2.2.2⟩
          simp only [phStr]
          rw [List.getLast?_append]; rfl
    · left; exact hr

/-- … and so is `str.replace` of an `STX…` token by an entity reference -/
theorem tokSub_replace {pat by' : Str} (h : RepOK pat by') : TokSub (fun s => replace s pat by') where
  nil := by simp
  step := by
    intro c s
    cases hs : startsWith (c :: s) pat with
    | true =>
      right
      have hpos : 0 < pat.length := List.length_pos_iff.2 h.ne
      refine ⟨by', (c :: s).drop pat.length, replace_of_startsWith h.ne hs, ?_, ?_, ?_⟩
      · have : (c :: s).drop pat.length = s.drop (pat.length - 1) := by
          cases hp : pat.length with
          | zero => omega
          | succ k => rfl
        rw [this]; exact List.drop_suffix _ _
      · obtain ⟨e', he', _⟩ := entityLike_cons (entRef_entityLike h.ent)
        exact ⟨'&', by rw [he']; rfl, not_space_facts.2.2.1⟩
      · exact ⟨';', (entityLike_iff.1 (entRef_entityLike h.ent)).2.1, not_space_facts.2.2.2.1⟩
    | false => left; exact replace_cons_of_not_startsWith hs

end MdVerif.VocabXFence
