/-
Helper lemmas for `Props/C02Fn.lean`, part 8: the extension pipeline WITH TOC — abbr and attr_list off, `STX` not among
`ESCAPED_CHARS` — never answers `err`, for EVERY source (no hypothesis on the headings), and the combined statement.

* `treeXBig_ne_err_tocZ`   — the tree handed to `TocTreeprocessor` is `prettify` of a tree with the STX-token invariant
                             `TokH.NodeS` and clean names; `C02TocZ.run_Z`;
* `convertXBig_ne_err_full`, `convertXBig_ok_full` — every flag set: toc off (`Lemmas/C02FnAll.lean`); toc on without
                             abbr/attr_list (here); toc on with abbr or attr_list under `tocClean`
                             (`Lemmas/C02FnTocAll.lean`).
Core Lean only.
-/
import MdVerif.Lemmas.C02FnTocZ
import MdVerif.Lemmas.C02FnTocAll
import MdVerif.Lemmas.C02FnHAttr
import MdVerif.Lemmas.C02FnHAbbr

namespace MdVerif.C02TocZ
open Py Pipeline PipelineX NoCtl C02BigSh C02BigNB C02BigX C02Fn C02Toc C02Names C02Z

mutual
theorem forall_and {P Q : Node → Prop} : (t : Node) → t.Forall P → t.Forall Q → t.Forall (fun n => P n ∧ Q n)
  | ⟨tag, attrs, text, ta, children, tail, tla⟩, h1, h2 => by
    simp only [Node.Forall] at h1 h2 ⊢
    exact ⟨⟨h1.1, h2.1⟩, forallL_and children h1.2 h2.2⟩
theorem forallL_and {P Q : Node → Prop} : (l : List Node) → Node.ForallL P l → Node.ForallL Q l →
    Node.ForallL (fun n => P n ∧ Q n) l
  | [], _, _ => by simp [Node.ForallL]
  | c :: r, h1, h2 => by
    simp only [Node.ForallL] at h1 h2 ⊢
    exact ⟨forall_and c h1.1 h2.1, forallL_and r h1.2 h2.2⟩
end

/-- no abbreviation of the table starts with a character that may follow an STX (a digit, `k`, `w`, `q`, `z`) -/
def AbbrHeads (abbrs : List (Str × Str)) : Prop :=
  ∀ kv ∈ abbrs, ∀ c, kv.1.head? = some c → TokH.cutOk c = true

instance (abbrs : List (Str × Str)) : Decidable (AbbrHeads abbrs) := by unfold AbbrHeads; infer_instance

/-- prettify, then attr_list, then abbr: the STX-token invariant and the clean names are kept — `AttrListTreeprocessor`
    cuts texts in front of blanks, line feeds and braces, its values are complete pieces, its names sanitised; a class
    is appended behind a blank to a `class` value that is a literal of the block parser or of a pattern;
    `AbbrTreeprocessor` cuts in front of the first character of an abbreviation, which by `AbbrHeads` continues no STX -/
theorem late3_H {x : Exts} (cfg : Cfg) {log : Block.Refs} (hlog : LogOk log)
    (hab : x.abbr = true → AbbrHeads (BlockExt.abbrsOf log)) {t : Node}
    (hS : t.Forall TokH.NodeS) (hN : t.Forall NamesC) : (late3 x cfg log t).Forall NodeH := by
  have hp := TokH.prettify_S hS cfg.blockLevel
  have hn : (TreeProc.prettify t cfg.blockLevel).Forall NamesC :=
    forall_of_NI _ (FnDocNI.prettify_NI _ cfg.blockLevel (NI_of_forall _ hN))
  have h2 : (if x.attrList then AttrListTree.run cfg.blockLevel (TreeProc.prettify t cfg.blockLevel)
      else TreeProc.prettify t cfg.blockLevel).Forall NodeH := by
    split
    · have hsc : (TreeProc.prettify t cfg.blockLevel).Forall C02FnHAttr.NodeSC :=
        Node.Forall.mono (fun n hn => ⟨hn.1, fun kv hkv hk => TokH.SOk_of_noSTX (hn.2.2 kv hkv hk)⟩) _
          (forall_and _ hp hn)
      exact forallH_of _ (C02FnHAttr.attrRun_S_of_SC cfg.blockLevel hsc)
        (C02FnHAttr.attrRun_names cfg.blockLevel (Node.Forall.mono (fun _ h => h.1) _ hn))
    · exact forallH_of _ hp (Node.Forall.mono (fun _ h => h.1) _ hn)
  unfold late3
  simp only
  split
  · next habbr =>
    have hd := BlkX.abbrsOf_c hlog
    have hS2 : ∀ {u : Node}, u.Forall NodeH → u.Forall TokH.NodeS := fun h => Node.Forall.mono (fun _ h => h.1) _ h
    have hN2 : ∀ {u : Node}, u.Forall NodeH → u.Forall NamesOk := fun h => Node.Forall.mono (fun _ h => h.2) _ h
    exact forallH_of _
      (C02FnHAbbr.abbrRun_S _ (hab habbr) (fun kv hkv => (allC_okc (hd kv hkv).1).1)
        (fun kv hkv => TokH.SOkA_of_noSTX (allC_okc (hd kv hkv).2).1) (hS2 h2))
      (C02FnHAbbr.abbrRun_names _ (hN2 h2))
  · exact h2

/-- the abbreviation table of the document (the log of the block stage) -/
def abbrTable (x : Exts) (cfg : Cfg) (src : Str) : List (Str × Str) :=
  match blockStageX x cfg src with
  | .ok (_, log, _) => BlockExt.abbrsOf log
  | _ => []

/-- **no tree processor raises with toc** (STX not escapable; with abbr: no abbreviation starts with a digit or
    `k`, `w`, `q`, `z`), every source -/
theorem treeXBig_ne_err_tocZ {x : Exts} (htoc : x.toc = true)
    (cfg : Cfg) (hesc : cfg.esc.contains Inline.STX = false) (src : Str)
    (hab : x.abbr = true → AbbrHeads (abbrTable x cfg src))
    (htab : x.fencedCode = true → 0 < cfg.tab) : treeXBig x cfg src ≠ .err := by
  unfold treeXBig
  cases hb : blockStageX x cfg src with
  | oof => intro h; cases h
  | ood => intro h; cases h
  | ok r =>
    obtain ⟨root, log, stash⟩ := r
    obtain ⟨hS0, hlog⟩ := C02FnH.blockStageX_tokH htab hb
    have hN0 := blockStageX_names htab hb
    simp only
    cases hr : runXBig (inlineCfgX x cfg log) root stash with
    | none => intro h; cases h
    | some ts =>
      obtain ⟨t, xs⟩ := ts
      simp only
      have hS : t.Forall TokH.NodeS :=
        TokH.runLoopX_S (C02FnH.xokH_inlineCfgX x cfg hesc hlog) _ _ _ _ _ _ _ hr hS0 TokH.stashS_nil
      rw [lateStageX_toc htoc]
      cases hd : dupStage x t xs.fn with
      | none => exact absurd hd (dupOk x cfg src root log stash t xs hb hr)
      | some t1 =>
        simp only
        have hab' : x.abbr = true → AbbrHeads (BlockExt.abbrsOf log) := by
          intro h
          have := hab h
          simp only [abbrTable, hb] at this
          exact this
        have h1 : (late3 x cfg log t1).Forall NodeH :=
          late3_H cfg hlog hab' (C02FnH.dupStage_S hS hd) (names_dup hN0 hr hd)
        have hhtml := html_noSTX hb hr
        rcases run_Z (env := { fmt := cfg.fmt, post := postX x cfg xs.st.html })
            (fun s o ho h3 => Z3_postX x cfg ho hhtml h3) cfg.blockLevel _ h1 with h | h | ⟨t6, h, h6⟩
        · rw [h]; intro e; cases e
        · rw [h]; intro e; cases e
        · rw [h]
          simp only
          have hu := unescapeTree_NB h6
          cases hun : TreeProc.unescapeTree t6 with
          | none => exact absurd hun hu
          | some u => intro e; cases e

/-- when is the toc stage covered: STX not escapable and (with abbr) no abbreviation starting with a digit or
    `k`, `w`, `q`, `z` — or `tocClean` -/
def TocHyp (x : Exts) (cfg : Cfg) (src : Str) : Prop :=
  (cfg.esc.contains Inline.STX = false ∧ (x.abbr = true → AbbrHeads (abbrTable x cfg src))) ∨
    tocClean x cfg src = true

instance (x : Exts) (cfg : Cfg) (src : Str) : Decidable (TocHyp x cfg src) := by unfold TocHyp; infer_instance

/-- **`Markdown.convert` does not raise** — every flag set -/
theorem convertXBig_ne_err_full {x : Exts} (cfg : Cfg) (src : Str) (htab : x.fencedCode = true → 0 < cfg.tab)
    (hcl : x.toc = true → TocHyp x cfg src) : convertXBig x cfg src ≠ .err := by
  intro h
  rcases convertXBig_err_cases h with ht | ⟨u, html, ht, hs⟩
  · cases htoc : x.toc with
    | false => exact treeXBig_ne_err_fn htoc cfg src htab (dupOk x cfg src) ht
    | true =>
      rcases hcl htoc with ⟨hesc, hab⟩ | hc
      · exact treeXBig_ne_err_tocZ htoc cfg hesc src hab htab ht
      · exact treeXBig_ne_err_toc htoc cfg src htab hc ht
  · rw [C14X.topLevelStrip_div _ u (treeXBig_rootDiv_all ht)] at hs
    cases hs

/-- **C02: `convertXBig` returns a string** — every flag set -/
theorem convertXBig_ok_full {x : Exts} (cfg : Cfg) (src : Str) (hlt : '<' ∉ src)
    (htab : x.admonition = true ∨ x.fencedCode = true → 0 < cfg.tab) (hd : treeOod x cfg src = false)
    (hw : x.wikilinks = true → WikiSrc cfg src) (hcl : x.toc = true → TocHyp x cfg src) :
    ∃ out, convertXBig x cfg src = .ok out := by
  have h1 := convertXBig_ne_oof_any (x := x) cfg src htab hw
  have h2 := convertXBig_ne_err_full (x := x) cfg src (fun h => htab (.inr h)) hcl
  have h3 := convertXBig_ne_ood_all hlt hd
  cases hc : convertXBig x cfg src with
  | ok out => exact ⟨out, rfl⟩
  | oof => exact absurd hc h1
  | err => exact absurd hc h2
  | ood => exact absurd hc h3

end MdVerif.C02TocZ
