/-
attr_list end to end (`convertX_attrList`).  Core Lean only.
-/
import MdVerif.Lemmas.PipelineXInertAttr2

namespace MdVerif.PipelineX
open Py Pipeline BlockExt InlineX

theorem blockSafe_brace : BlockSafeC '{' where
  nl := by decide
  none_ := by decide
  ent := by decide
  lower := by
    intro d hd
    by_cases hc : d.toNat < 128
    · exact RefDef.char_of_ascii (fun d => d ≠ '{' → '{' ∉ lowerChar d) (by decide +kernel) d hc hd
    · simp only [lowerChar, hc, if_false]
      cases hf : Generated.Chars.lowerNonAscii.find? (fun p => p.1 = d.toNat) with
      | none => simp [hd.symm]
      | some p =>
        have hp := List.mem_of_find?_eq_some hf
        have hall : Generated.Chars.lowerNonAscii.all (fun p => p.2.all (fun n => Char.ofNat n != '{')) = true := by
          decide +kernel
        have := List.all_eq_true.mp hall p hp
        simp only [List.all_eq_true, bne_iff_ne, ne_eq] at this
        simp only [List.mem_map, not_exists, not_and]
        intro n hn he
        exact this n hn he
  upper := by
    intro d hd
    have : ∀ n, n < 128 → isAsciiLower (Char.ofNat n) = true → Char.ofNat (n - 32) ≠ '{' := by decide +kernel
    have hlt : d.toNat < 128 := by
      simp only [isAsciiLower, Bool.and_eq_true, decide_eq_true_eq, Char.le_def, UInt32.le_iff_toNat_le] at hd
      have h2 : ('z' : Char).val.toNat = 122 := by decide
      have : d.toNat = d.val.toNat := rfl
      omega
    have := this d.toNat hlt (by rwa [Char.ofNat_toNat])
    exact this
  fn1 := by decide
  fn2 := by decide

theorem safe_brace : SafeC '{' where
  stx := by decide
  etx := by decide
  digit := by decide
  ph := by decide
  ent := by decide

/-- the inline stage keeps a `c`-free tree `c`-free -/
theorem runX_deep {c : Char} (hs : SafeC c) (xc : InlineX.XCfg) (tree : Node) (html : List Str) (ht : DeepC c tree)
    {r : Node} {x' : InlineX.XSt} (h : InlineX.runX xc tree html = some (r, x')) : DeepC c r :=
  ((runX_rel (xc1 := xc) (xc2 := xc) hs rfl (fun _ _ _ _ _ _ => rfl) tree html ht).2 r x' h).1

/-- the inline configuration of `lateX` -/
def xcOf (x : Exts) (cfg : Cfg) (log : Block.Refs) : InlineX.XCfg :=
  { cfg := { esc := escX x cfg, refs := (refsX x log).reverse }
    table := InlineX.table x.footnotes x.wikilinks x.nl2br
    fnKeys := (footnotesOf log).map (·.1) }

/-- the stages after the inline stage -/
def afterInline (x : Exts) (cfg : Cfg) (log : Block.Refs) (t : Node) (xs : InlineX.XSt) : TreeResult :=
  match (if x.footnotes then FootnotesTree.duplicates xs.fn t else some t) with
  | none => .err
  | some t =>
    let t := TreeProc.prettify t cfg.blockLevel
    let t := if x.attrList then AttrListTree.run cfg.blockLevel t else t
    let t := if x.abbr then AbbrTree.run (abbrsOf log) t else t
    let tocStage : TocTree.R Node :=
      if x.toc then TocTree.run { fmt := cfg.fmt, post := postX x cfg xs.st.html } cfg.blockLevel t
      else .ok t
    match tocStage with
    | .oof => .oof
    | .err => .err
    | .ood => .ood
    | .ok t =>
      match TreeProc.unescapeTree t with
      | none => .err
      | some u => .ok u xs.st.html

theorem lateX_eq (x : Exts) (cfg : Cfg) (stash : List Str) (root : Node) (log : Block.Refs) :
    lateX x cfg stash root log =
      match InlineX.runX (xcOf x cfg log) root stash with
      | none => .oof
      | some (t, xs) => afterInline x cfg log t xs := rfl

theorem convertX_attrList (x : Exts) (hx : x.attrList = false) (cfg : Cfg) (src : Str)
    (h : OkAttr (Normalize.normalize cfg.tab src)) :
    convertX { x with attrList := true } cfg src = convertX x cfg src := by
  have hc : Closed (NoC '{') := closed_noC '{' (by decide)
  have hp : PrepClosed (NoC '{') := prep_noC '{' (by decide) (by decide)
  apply convertX_of_stages
  · -- the preprocessors: no fenced block carries options
    simp only [prepareX, hx]
    cases hf : x.fencedCode with
    | false => rfl
    | true =>
      simp only [if_true, Bool.true_and, Bool.false_and, Bool.false_eq_true, if_false]
      obtain ⟨_, h2, h3⟩ := Fenced.C16_fencedRunA_total (Normalize.normalize cfg.tab src)
        ((Normalize.normalize cfg.tab src).length + 1) (Nat.le_refl _)
      cases hr : Fenced.fencedRunA (Normalize.normalize cfg.tab src) with
      | fuel => exact absurd hr h2
      | ood => exact absurd hr h3
      | ok t' st' =>
        have := fencedHasConfig_false _ _ 0 [] h (by simpa [Fenced.fencedRunA] using hr)
        simp only [List.length_nil] at this
        rw [this]
        rfl
  · intro _ _ _; rfl
  · intro text stash root log hprep hb
    have htext : NoC '{' text := prepareX_ok hc hp x cfg src hprep h.1
    have hroot : DeepC '{' root := blockStage_tree blockSafe_brace _ _ _ cfg htext hb
    rw [lateX_eq, lateX_eq]
    have hxc : xcOf { x with attrList := true } cfg log = xcOf x cfg log := rfl
    rw [hxc]
    cases hrun : InlineX.runX (xcOf x cfg log) root stash with
    | none => rfl
    | some r =>
      obtain ⟨t, xs⟩ := r
      have ht : DeepC '{' t := runX_deep safe_brace _ root stash hroot hrun
      simp only [afterInline]
      cases hd : (if x.footnotes = true then FootnotesTree.duplicates xs.fn t else some t) with
      | none => rfl
      | some t2 =>
        have ht2 : DeepC '{' t2 := by
          split at hd
          · exact duplicates_deep xs.fn t ht hd
          · injection hd with hd; exact hd ▸ ht
        have e := attrListRun_id cfg.blockLevel _ (prettify_deep (c := '{') (by decide) cfg.blockLevel t2 ht2)
        simp only [e, hx, if_true, Bool.false_eq_true, if_false]
        rfl
  · intro _ _; rfl

end MdVerif.PipelineX
