/-
Helper lemmas for `Props/C15Text.lean`, part 10: from the source to the output — the document `docOf before line after`
whose paragraph is a line with mixed content around and inside reference-style links.  Core Lean only.
-/
import MdVerif.Lemmas.RefTextBack
import MdVerif.Lemmas.RefTextDoc

namespace MdVerif.RefText
open Py Inline Escape CodeLaw DocParse DocParse2

/-! ### no STX in the output -/

theorem stx_not_mem_aOpen (url : Str) (title : Option Str) (hu : Post.STX ∉ url)
    (ht : ∀ t, title = some t → Post.STX ∉ t) : Post.STX ∉ aOpen url title := by
  have h := InlineRef.stx_not_mem_linkHtml url title [] hu ht (by simp)
  intro hm
  apply h
  unfold InlineRef.linkHtml
  unfold aOpen at hm
  simp only [List.mem_append] at hm ⊢
  rcases hm with (((hm | hm) | hm) | hm) | hm <;> simp only [hm, true_or, or_true]

theorem stx_not_mem_chunkOut {esc : List Char} (c : Chunk) (h : ChunkOK esc c) : Post.STX ∉ c.out := by
  intro hm
  simp only [Chunk.out, List.mem_append] at hm
  rcases hm with hm | hm
  · exact stx_not_mem_escCdata _ (chunkOK_pp h).1 hm
  · exact stx_not_mem_outM c.segs (chunkOK_pp h).2 hm

theorem stx_not_mem_usOut {cfg : Inline.Cfg} : ∀ (us : List RUse), (∀ u ∈ us, UseOK cfg u) →
    (∀ u ∈ us, UseAttrOK u) → Post.STX ∉ usOut us
  | [], _, _ => by rw [usOut_nil]; simp
  | u :: r, hus, ha => by
    have hu := hus u List.mem_cons_self
    have hr := stx_not_mem_usOut r (fun x hx => hus x (List.mem_cons_of_mem _ hx))
      (fun x hx => ha x (List.mem_cons_of_mem _ hx))
    have h1 := stx_not_mem_aOpen u.url u.title (ha u List.mem_cons_self).1 (ha u List.mem_cons_self).2
    have h2 := stx_not_mem_chunkOut u.T hu.text
    have h3 := stx_not_mem_chunkOut u.C hu.after
    have h4 : Post.STX ∉ aClose := by decide
    rw [usOut_cons]
    intro hm
    simp only [useOut, List.mem_append] at hm
    rcases hm with (hm | hm | hm | hm) | hm
    · exact h1 hm
    · exact h2 hm
    · exact h4 hm
    · exact h3 hm
    · exact hr hm

/-! ### the front end on the line -/

/-- the first character of the line is one with which no block construct starts -/
def startPlain (s : Str) : Bool :=
  match s with
  | c :: _ => Block.plainCh c && !isSpace c
  | [] => false

/-- ordinary document characters, no line break -/
def lineCh (c : Char) : Bool := InlineRef.docCh c && c != '\n'

theorem paraOK_line (para : Str) (hs : startPlain para = true) (hc : para.all lineCh = true)
    (hr : Block.refMatchAt para 0 = none) : InlineRef.ParaOK para := by
  refine ⟨?_, ?_, ?_, hr⟩
  · cases para with
    | nil => simp [startPlain] at hs
    | cons c r =>
      simp only [startPlain, Bool.and_eq_true, Bool.not_eq_true'] at hs
      exact ⟨c, r, rfl, hs.1, hs.2⟩
  · intro hm
    have := List.all_eq_true.mp hc _ hm
    simp [lineCh] at this
  · rw [List.all_eq_true] at hc ⊢
    intro x hx
    have := hc x hx
    simp only [lineCh, Bool.and_eq_true] at this
    exact this.1

/-- **From the source to the output.**  Definitions, a paragraph that is a line of mixed content with uses of
    defined labels, definitions: the paragraph is rendered with the mixed content as elements and every use as an
    `<a>` element around its rendered text. -/
theorem convert_line (cfg : Pipeline.Cfg) (hfmt : cfg.fmt = .xhtml) (hbl : cfg.blockLevel = TreeProc.defaultBlockLevel)
    (htab : 0 < cfg.tab) (hE : EscOK cfg.esc) (hrb : ']' ∈ cfg.esc)
    (before after : List InlineRef.DefSpec) (hb : ∀ d ∈ before, d.ok cfg.tab = true)
    (ha : ∀ d ∈ after, d.ok cfg.tab = true) (C0 : Chunk) (us : List RUse) (hne : us ≠ [])
    (h0 : ChunkOK cfg.esc C0)
    (hus : ∀ u ∈ us, UseOK { esc := cfg.esc, refs := ((before ++ after).map InlineRef.DefSpec.entry).reverse } u)
    (hvis : ∀ u ∈ us, u.T.Vis) (hattr : ∀ u ∈ us, UseAttrOK u)
    (hstart : startPlain (lineRaw cfg.esc C0 us) = true) (hchars : (lineRaw cfg.esc C0 us).all lineCh = true)
    (hnoref : Block.refMatchAt (lineRaw cfg.esc C0 us) 0 = none) :
    Pipeline.convert cfg (InlineRef.docOf before (lineRaw cfg.esc C0 us) after) =
      .ok ("<p>".toList ++ (C0.out ++ usOut us) ++ "</p>".toList) := by
  have hp := paraOK_line _ hstart hchars hnoref
  have hrun := run_line { esc := cfg.esc, refs := ((before ++ after).map InlineRef.DefSpec.entry).reverse } hE hrb C0 us
    h0 hus hvis hne
  have hser := ser_pFin (cfg := { esc := cfg.esc, refs := ((before ++ after).map InlineRef.DefSpec.entry).reverse })
    C0 us h0 hus
  rw [← hfmt] at hser
  refine convert_one cfg hbl htab before after hb ha hp (pMid cfg.esc C0 us) (pPretty cfg.esc C0 us) (pFin C0 us)
    (C0.out ++ usOut us) _ hrun rfl (by show TreeProc.isBlockLevel TreeProc.defaultBlockLevel (.name "p".toList) = true; decide)
    (pretty_pMid cfg.esc C0 us)
    (unesc_pPretty (cfg := { esc := cfg.esc, refs := ((before ++ after).map InlineRef.DefSpec.entry).reverse })
      C0 us h0 hus hattr) hser ?_
  intro hm
  rcases List.mem_append.1 hm with hm | hm
  · exact stx_not_mem_chunkOut C0 h0 hm
  · exact stx_not_mem_usOut us hus hattr hm

/-! ### the hypotheses in terms of the definitions of the document -/

theorem vis_ne {c : Chunk} (h : c.Vis) : c.t0 ≠ [] ∨ c.segs ≠ [] := by
  rcases h with ⟨ch, hch, _⟩ | h
  · left; intro e; rw [e] at hch; cases hch
  · exact Or.inr h

/-- what the theorem asks of a use, with the label looked up among the definitions of the document -/
structure UseSpec (esc : List Char) (defs : List InlineRef.DefSpec) (u : RUse) : Prop where
  text : ChunkOK esc u.T
  vis : u.T.Vis
  after : ChunkOK esc u.C
  sp : u.sp = [] ∨ u.sp = [' ']
  label : u.label.all labelCh = true
  labelNe : u.label ≠ []
  look : Block.lookupRef (defs.map InlineRef.DefSpec.entry) (RefDef.normUse u.label) = some (u.url, u.title)

theorem useOK_of_spec {esc : List Char} {defs : List InlineRef.DefSpec} {u : RUse} (h : UseSpec esc defs u) :
    UseOK { esc := esc, refs := (defs.map InlineRef.DefSpec.entry).reverse } u :=
  ⟨h.text, vis_ne h.vis, h.after, h.sp, h.label, h.labelNe, InlineRef.lookup_find h.look⟩

theorem useAttrOK_of_spec {esc : List Char} {tab : Nat} {defs : List InlineRef.DefSpec}
    (hd : ∀ d ∈ defs, d.ok tab = true) {u : RUse} (h : UseSpec esc defs u) : UseAttrOK u := by
  obtain ⟨h1, h2⟩ := InlineRef.lookup_docCh hd h.look
  exact ⟨InlineRef.docCh_ne_stx h1, fun t ht => InlineRef.docCh_ne_stx (h2 t ht)⟩

/-- **From the source to the output**, the labels looked up among the definitions of the document -/
theorem convert_line_defs (cfg : Pipeline.Cfg) (hfmt : cfg.fmt = .xhtml)
    (hbl : cfg.blockLevel = TreeProc.defaultBlockLevel) (htab : 0 < cfg.tab) (hE : EscOK cfg.esc) (hrb : ']' ∈ cfg.esc)
    (before after : List InlineRef.DefSpec) (hb : ∀ d ∈ before, d.ok cfg.tab = true)
    (ha : ∀ d ∈ after, d.ok cfg.tab = true) (C0 : Chunk) (us : List RUse) (hne : us ≠ [])
    (h0 : ChunkOK cfg.esc C0) (hus : ∀ u ∈ us, UseSpec cfg.esc (before ++ after) u)
    (hstart : startPlain (lineRaw cfg.esc C0 us) = true) (hchars : (lineRaw cfg.esc C0 us).all lineCh = true)
    (hnoref : Block.refMatchAt (lineRaw cfg.esc C0 us) 0 = none) :
    Pipeline.convert cfg (InlineRef.docOf before (lineRaw cfg.esc C0 us) after) =
      .ok ("<p>".toList ++ (C0.out ++ usOut us) ++ "</p>".toList) := by
  have hd : ∀ d ∈ before ++ after, d.ok cfg.tab = true := by
    intro d hd
    rcases List.mem_append.1 hd with h | h
    · exact hb d h
    · exact ha d h
  exact convert_line cfg hfmt hbl htab hE hrb before after hb ha C0 us hne h0
    (fun u hu => useOK_of_spec (hus u hu)) (fun u hu => (hus u hu).vis)
    (fun u hu => useAttrOK_of_spec hd (hus u hu)) hstart hchars hnoref

end MdVerif.RefText
