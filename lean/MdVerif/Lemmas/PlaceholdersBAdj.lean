/-
Helper lemmas for C10b: adjacencies (`NoPair`, `Adj3`).  Core Lean only.
-/
import MdVerif.Lemmas.PlaceholdersBBt

namespace MdVerif.NoCtl
open Py Inline

theorem noPair_iff {a b : Char} {s : Str} : NoPair a b s ↔ ∀ x y, s ≠ x ++ a :: b :: y := by
  unfold NoPair
  rw [contains_eq_false_iff]
  constructor
  · intro h x y e; exact h x y (by rw [e]; simp)
  · intro h x y e; exact h x y (by rw [e]; simp)

theorem NoPair.infix {a b : Char} {s t : Str} (h : NoPair a b s) (ht : t <:+: s) : NoPair a b t := by
  rw [noPair_iff] at h ⊢
  obtain ⟨u, v, rfl⟩ := ht
  intro x y e
  exact h (u ++ x) (y ++ v) (by rw [e]; simp)

theorem noPair_nil (a b : Char) : NoPair a b [] := by
  rw [noPair_iff]; intro x y e
  have := congrArg List.length e; simp at this

theorem noPair_of_not_mem_left {a b : Char} {s : Str} (h : a ∉ s) : NoPair a b s := by
  rw [noPair_iff]; intro x y e; exact h (by rw [e]; simp)

theorem noPair_of_not_mem_right {a b : Char} {s : Str} (h : b ∉ s) : NoPair a b s := by
  rw [noPair_iff]; intro x y e; exact h (by rw [e]; simp)

theorem noPair_append {a b : Char} {s t : Str} (hs : NoPair a b s) (ht : NoPair a b t)
    (h : s.getLast? ≠ some a ∨ t.head? ≠ some b) : NoPair a b (s ++ t) := by
  rw [noPair_iff] at hs ht ⊢
  intro x y e
  rcases List.append_eq_append_iff.1 e with ⟨w, hw1, hw2⟩ | ⟨w, hw1, hw2⟩
  · -- x = s ++ w, t = w ++ a :: b :: y
    exact ht w y hw2
  · -- s = x ++ w, a :: b :: y = w ++ t
    cases w with
    | nil =>
      simp only [List.nil_append] at hw2
      exact ht [] y (by simp [← hw2])
    | cons c w' =>
      simp only [List.cons_append, List.cons.injEq] at hw2
      obtain ⟨rfl, hw2⟩ := hw2
      cases w' with
      | nil =>
        simp only [List.nil_append] at hw2
        rcases h with h | h
        · exact h (by rw [hw1]; simp)
        · exact h (by rw [← hw2]; simp)
      | cons d w'' =>
        simp only [List.cons_append, List.cons.injEq] at hw2
        obtain ⟨rfl, hw2⟩ := hw2
        exact hs x w'' hw1

/-- replacing a stretch by a string that neither starts with `b` nor ends with `a` and has no pair itself -/
theorem noPair_replace {a b : Char} {X M Y T : Str} (h : NoPair a b (X ++ M ++ Y)) (hT : NoPair a b T)
    (hh : T.head? ≠ some b) (hl : T.getLast? ≠ some a) (hne : T ≠ []) : NoPair a b (X ++ T ++ Y) := by
  have hX : NoPair a b X := h.infix ⟨[], M ++ Y, by simp⟩
  have hY : NoPair a b Y := h.infix ⟨X ++ M, [], by simp⟩
  have h1 : NoPair a b (X ++ T) := noPair_append hX hT (.inr hh)
  refine noPair_append h1 hY (.inl ?_)
  rw [List.getLast?_append]
  cases hg : T.getLast? with
  | none =>
    have : T = [] := by cases T with
      | nil => rfl
      | cons c r => simp at hg
    exact absurd this hne
  | some c => simpa [hg] using hl

theorem noPair_joinNl {a b : Char} (ha : a ≠ '\n') (hb : b ≠ '\n') {s t : Str} (hs : NoPair a b s) (ht : NoPair a b t) :
    NoPair a b (s ++ '\n' :: t) := by
  have h1 : NoPair a b ('\n' :: t) := by
    have : '\n' :: t = ['\n'] ++ t := rfl
    rw [this]
    refine noPair_append (noPair_of_not_mem_left ?_) ht (.inl ?_)
    · simp only [List.mem_singleton]; exact ha
    · simp only [List.getLast?_singleton, ne_eq, Option.some.injEq]; exact fun e => ha e.symm
  refine noPair_append hs h1 (.inr ?_)
  simp only [List.head?_cons, ne_eq, Option.some.injEq]; exact fun e => hb e.symm


/-! ### the three adjacencies together -/

theorem noAdj_eq_noPair (s : Str) : NoAdj s = NoPair '\\' '`' s := rfl

theorem adj3_nil : Adj3 [] := ⟨noPair_nil _ _, noPair_nil _ _, noPair_nil _ _⟩

theorem Adj3.infix {s t : Str} (h : Adj3 s) (ht : t <:+: s) : Adj3 t :=
  ⟨NoPair.infix (a := '\\') (b := '`') h.1 ht, h.2.1.infix ht, h.2.2.infix ht⟩

theorem sepOK3_noPair {T : Str} (h : SepOK3 T) :
    NoPair '\\' '`' T ∧ NoPair '!' '[' T ∧ NoPair ']' '(' T :=
  ⟨noPair_of_not_mem_left h.1.2.2, noPair_of_not_mem_left h.2.1, noPair_of_not_mem_left h.2.2.2.1⟩

theorem not_head_of_not_mem {T : Str} {c : Char} (h : c ∉ T) : T.head? ≠ some c :=
  fun e => h (List.mem_of_mem_head? e)

theorem not_last_of_not_mem {T : Str} {c : Char} (h : c ∉ T) : T.getLast? ≠ some c :=
  fun e => h (List.mem_of_mem_getLast? e)

theorem adj3_replace {X M Y T : Str} (h : Adj3 (X ++ M ++ Y)) (hT : SepOK3 T) : Adj3 (X ++ T ++ Y) := by
  obtain ⟨p1, p2, p3⟩ := sepOK3_noPair hT
  exact ⟨noPair_replace (a := '\\') (b := '`') h.1 p1 (not_head_of_not_mem hT.1.2.1) (not_last_of_not_mem hT.1.2.2) hT.1.1,
    noPair_replace h.2.1 p2 (not_head_of_not_mem hT.2.2.1) (not_last_of_not_mem hT.2.1) hT.1.1,
    noPair_replace h.2.2 p3 (not_head_of_not_mem hT.2.2.2.2) (not_last_of_not_mem hT.2.2.2.1) hT.1.1⟩

theorem adj3_joinNl {s t : Str} (hs : Adj3 s) (ht : Adj3 t) : Adj3 (s ++ '\n' :: t) :=
  ⟨noPair_joinNl (a := '\\') (b := '`') (by decide) (by decide) hs.1 ht.1,
    noPair_joinNl (by decide) (by decide) hs.2.1 ht.2.1, noPair_joinNl (by decide) (by decide) hs.2.2 ht.2.2⟩

/-- without brackets only the first adjacency matters -/
theorem adj3_of_no_bracket {s : Str} (h : NoAdj s) (h1 : '[' ∉ s) (h2 : ']' ∉ s) : Adj3 s :=
  ⟨h, noPair_of_not_mem_right h1, noPair_of_not_mem_left h2⟩

end MdVerif.NoCtl
