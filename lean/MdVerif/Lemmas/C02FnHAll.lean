/-
Helper lemmas for `Props/C02Fn.lean`: the first half of `Lemmas/C02FnAll.lean` over the STRONGER STX-token invariant
`MdVerif.TokH` of `Lemmas/C02FnH{Str,Pat,Run,Tree,XTok,Fn}.lean` (a complete escape token has a value below 0x110000 AND
different from 2, so that `UnescapeTreeprocessor.unescape` never WRITES an STX).

* `parseChunkX_S`, `fnStageX_S` — the footnote stage keeps the invariant;
* `blockStageX_tokH`   — the tree handed to the inline stage has the invariant, footnotes on or off, fenced_code on or off
                         (the fenced case by `NoCtlXF.XT.block_stage_own_sH` of `Lemmas/C02FnHFTok.lean`);
* `xokH_inlineCfgX`    — the configuration of the inline stage, when STX is no escapable character (`hesc`);
* `dupStage_S`         — `FootnotePostTreeprocessor`;
* `tokH_implies_tokG`  — the stronger invariant implies the weaker one of `Lemmas/C02FnStr.lean`.
Core Lean only.
-/
import MdVerif.Lemmas.C02FnHFn
import MdVerif.Lemmas.C02FnHFTok
import MdVerif.Lemmas.C02FnAll

namespace MdVerif.C02FnH
open Py Pipeline PipelineX NoCtl C02BigSh C02BigNB C02BigX
open MdVerif.C02Fn (LogOk dupStage)

/-! ### the stronger invariant implies the weaker -/

theorem tokTail_of_H : ∀ (r : Str) (v : Nat), TokH.tokTail v r = true → TokG.tokTail v r = true := by
  intro r
  induction r with
  | nil => intro v h; cases h
  | cons c r ih =>
    intro v h
    simp only [TokH.tokTail] at h
    simp only [TokG.tokTail]
    split
    · next hc => rw [if_pos hc] at h; exact ih _ h
    · next hc =>
      rw [if_neg hc] at h
      simp only [Bool.and_eq_true] at h ⊢
      exact ⟨h.1, by simpa using TokH.chrOk_lt h.2⟩

theorem tok_of_H {r : Str} (h : TokH.tok r = true) : TokG.tok r = true := by
  cases r with
  | nil => cases h
  | cons c r =>
    simp only [TokH.tok, Bool.and_eq_true] at h
    simp only [TokG.tok, Bool.and_eq_true]
    exact ⟨h.1, tokTail_of_H _ _ h.2⟩

theorem gl_eq (c : Char) : TokH.gl c = TokG.gl c := rfl

theorem fol_of_H {r : Str} (h : TokH.fol r = true) : TokG.fol r = true := by
  cases r with
  | nil => cases h
  | cons c r =>
    rw [TokH.fol_cons] at h
    rw [TokG.fol_cons]
    simp only [Bool.or_eq_true] at h ⊢
    rcases h with h | h
    · exact Or.inl h
    · exact Or.inr (tok_of_H h)

theorem folA_of_H {r : Str} (h : TokH.folA r = true) : TokG.folA r = true := by
  cases r with
  | nil => rfl
  | cons c r =>
    rw [TokH.folA_cons] at h
    rw [TokG.folA_cons]
    simp only [Bool.or_eq_true] at h ⊢
    rcases h with (h | h) | h
    · exact Or.inl (Or.inl h)
    · exact Or.inl (Or.inr (tok_of_H h))
    · exact Or.inr h

theorem SOk_of_H {s : Str} (h : TokH.SOk s = true) : TokG.SOk s = true := by
  induction s with
  | nil => rfl
  | cons c r ih =>
    simp only [TokH.SOk, Bool.and_eq_true, Bool.or_eq_true] at h
    simp only [TokG.SOk, Bool.and_eq_true, Bool.or_eq_true]
    refine ⟨?_, ih h.2⟩
    rcases h.1 with h1 | h1
    · exact Or.inl h1
    · exact Or.inr (fol_of_H h1)

theorem SOkA_of_H {s : Str} (h : TokH.SOkA s = true) : TokG.SOkA s = true := by
  induction s with
  | nil => rfl
  | cons c r ih =>
    simp only [TokH.SOkA, Bool.and_eq_true, Bool.or_eq_true] at h
    simp only [TokG.SOkA, Bool.and_eq_true, Bool.or_eq_true]
    refine ⟨?_, ih h.2⟩
    rcases h.1 with h1 | h1
    · exact Or.inl h1
    · exact Or.inr (folA_of_H h1)

theorem nodeS_of_H {n : Node} (h : TokH.NodeS n) : TokG.NodeS n :=
  ⟨SOk_of_H h.1, SOk_of_H h.2.1, fun kv hkv => SOkA_of_H (h.2.2 kv hkv)⟩

/-- **the stronger STX-token invariant implies the weaker one** -/
theorem tokH_implies_tokG {t : Node} (h : t.Forall TokH.NodeS) : t.Forall TokG.NodeS :=
  Node.Forall.mono (fun _ hn => nodeS_of_H hn) t h

/-! ### the block stage -/

/-- the block parser on a footnote body (no STX/ETX): a tree without STX/ETX -/
theorem parseChunkX_S (x : Exts) (cfg : Cfg) (log : Block.Refs) (text : Str) (sur : Node) (log' : Block.Refs)
    (hl : LogOk log) (ht : Blk.AllC Blk.okc text) (h : parseChunkX x cfg log text = some (sur, log')) :
    sur.Forall TokH.NodeS ∧ LogOk log' := by
  obtain ⟨h1, h2⟩ := BlkX.parseChunkXT_strs strDomX_okc x.tables x.blockCfg cfg.tab _ log hl text ht h
  exact ⟨TokH.forallS_of_noCtl (Node.Forall.mono (fun _ hn => nodeNoCtl_of_bnodeXP hn) sur h1), h2⟩

/-- **`FootnoteTreeprocessor` keeps the invariant** -/
theorem fnStageX_S {x : Exts} {cfg : Cfg} {root0 root : Node} {log0 log : Block.Refs}
    (hr0 : root0.Forall TokH.NodeS) (hl0 : LogOk log0) (h : fnStageX x cfg root0 log0 = .ok (root, log)) :
    root.Forall TokH.NodeS ∧ LogOk log := by
  unfold fnStageX at h
  split at h
  · cases hm : FootnotesTree.makeDiv (parseChunkX x cfg) fnCount (BlockExt.footnotesOf log0) log0 with
    | oof => rw [hm] at h; cases h
    | ood => rw [hm] at h; cases h
    | ok r =>
      obtain ⟨div, log1⟩ := r
      rw [hm] at h
      have hf : ∀ kv ∈ BlockExt.footnotesOf log0, TokH.STX ∉ kv.1 ∧ Blk.AllC Blk.okc kv.2 := fun kv hkv =>
        ⟨(allC_okc (BlkX.footnotesOf_c hl0 kv hkv).1).1, (BlkX.footnotesOf_c hl0 kv hkv).2⟩
      obtain ⟨hd, hl1⟩ := TokH.makeDiv_S (L := LogOk) (T := Blk.AllC Blk.okc) fnCount (parseChunkX_S x cfg) hf hl0 hm
      cases div with
      | none =>
        simp only [FootnotesTree.R.ok.injEq, Prod.mk.injEq] at h
        obtain ⟨rfl, rfl⟩ := h
        exact ⟨hr0, hl1⟩
      | some d =>
        simp only [FootnotesTree.R.ok.injEq, Prod.mk.injEq] at h
        obtain ⟨rfl, rfl⟩ := h
        exact ⟨TokH.placeDiv_S hr0 (hd d rfl), hl1⟩
  · simp only [FootnotesTree.R.ok.injEq, Prod.mk.injEq] at h
    obtain ⟨rfl, rfl⟩ := h
    exact ⟨hr0, hl0⟩

/-- **the tree and the log of the block stage are in the domain of the stronger STX-token invariant** — every flag set
    (`tab_length ≥ 1` with fenced_code), footnotes on or off -/
theorem blockStageX_tokH {x : Exts} {cfg : Cfg} {src : Str} (htab : x.fencedCode = true → 0 < cfg.tab)
    {root : Node} {log : Block.Refs} {stash : List Str} (h : blockStageX x cfg src = .ok (root, log, stash)) :
    root.Forall TokH.NodeS ∧ LogOk log := by
  simp only [blockStageX] at h
  split at h
  · cases h
  · cases h
  · next text stash' hp =>
    split at h
    · cases h
    · next root0 log0 hpd =>
      have h0 : root0.Forall TokH.NodeS ∧ LogOk log0 := by
        cases hf : x.fencedCode with
        | true =>
          obtain ⟨hown, _, _⟩ := prepareX_fenced hf hp
          letI : NoCtlF.HtmlBound := ⟨stash'.length, false, false⟩
          obtain ⟨hroot0, hlog0⟩ := NoCtlXF.XT.block_stage_own_sH x.tables x.blockCfg (htab hf) hown hpd
          exact ⟨Node.Forall.mono (fun _ hn => nodeSH_of_xinv hn) root0 hroot0, hlog0⟩
        | false =>
          obtain ⟨e1, _⟩ := prepareX_nofence hf hp
          subst e1
          have hok : Blk.AllC Blk.okc (Pipeline.prepare cfg src) := fun c hc => by
            have := noCtl_iff.1 (prepare_noctl cfg src) c hc
            simp [Blk.okc, this.1, this.2]
          obtain ⟨h1, h2⟩ := BlkX.parseDocumentXT_strs strDomX_okc x.tables x.blockCfg cfg.tab _ hok hpd
          exact ⟨TokH.forallS_of_noCtl (Node.Forall.mono (fun _ hn => nodeNoCtl_of_bnodeXP hn) _ h1), h2⟩
      split at h
      · cases h
      · cases h
      · next root1 log1 hfn =>
        simp only [FootnotesTree.R.ok.injEq, Prod.mk.injEq] at h
        obtain ⟨rfl, rfl, rfl⟩ := h
        exact fnStageX_S h0.1 h0.2 hfn

/-- `md.ESCAPED_CHARS` with the `|` of the tables extension: STX is not among them when it is not in the base set -/
theorem escX_stx (x : Exts) (cfg : Cfg) (hesc : cfg.esc.contains Inline.STX = false) :
    (escX x cfg).contains Inline.STX = false := by
  unfold escX
  split
  · cases hc : (cfg.esc ++ ['|']).contains Inline.STX with
    | false => rfl
    | true =>
      exfalso
      rw [List.contains_iff_mem] at hc
      rcases List.mem_append.1 hc with hm | hm
      · have : cfg.esc.contains Inline.STX = true := List.contains_iff_mem.2 hm
        rw [hesc] at this; cases this
      · revert hm; decide
  · exact hesc

/-- the configuration of the inline stage: reference definitions and footnote ids without STX, STX not escapable -/
theorem xokH_inlineCfgX (x : Exts) (cfg : Cfg) (hesc : cfg.esc.contains Inline.STX = false) {log : Block.Refs}
    (hlog : LogOk log) : TokH.XOK (inlineCfgX x cfg log) where
  refs := by
    refine ⟨?_, escX_stx x cfg hesc⟩
    intro r hr
    simp only [inlineCfgX, List.mem_reverse] at hr
    have hmem : r ∈ log := by
      unfold refsX at hr
      split at hr
      · exact (List.mem_filter.1 hr).1
      · exact hr
    have := hlog r hmem
    exact ⟨TokH.SOkA_of_noSTX (allC_okc this.2.1).1, TokH.SOkA_of_noSTX (allC_okc this.2.2.1).1⟩
  keys := by
    intro id hid
    simp only [inlineCfgX, List.mem_map] at hid
    obtain ⟨kv, hkv, rfl⟩ := hid
    exact allC_okc (BlkX.footnotesOf_c hlog kv hkv).1

/-! ### `FootnotePostTreeprocessor` -/

theorem dupStage_S {x : Exts} {t t1 : Node} {fn : Footnotes.State} (hS : t.Forall TokH.NodeS)
    (h : dupStage x t fn = some t1) : t1.Forall TokH.NodeS := by
  unfold C02Fn.dupStage at h
  split at h
  · exact TokH.duplicates_S t t1 hS h
  · simp only [Option.some.injEq] at h; subst h; exact hS

end MdVerif.C02FnH
