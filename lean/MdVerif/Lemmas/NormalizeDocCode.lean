/-
Helper lemmas for C09 at the level of whole conversions, second part: trailing blank lines behind a document that
ends in a code block.  The fillers that the empty-block processor appends to the code text are removed by
`prettify`'s `rstrip`; in between the inline processor must be shown not to look at them.

1. what the block parser leaves at the top level: the tag of the parent is kept, and every `pre` child of the root is
   a code block `pre[code(atomic text)]` without text, tail and further children (`TopShape`);
2. `Inline.run` in lockstep on two roots that differ in the text of a trailing code block;
3. `prettify` maps them to the same tree.
Core Lean only.
-/
import MdVerif.Lemmas.NormalizeDoc
import MdVerif.Lemmas.InlineLocal.Run

namespace MdVerif.NormDoc
open Py Normalize Block

/-! ### 1a. the block loop keeps the tag of the parent -/

def PBTag (pb : PB) : Prop := ∀ st refs p bs q r, pb st refs p bs = some (q, r) → q.tag = p.tag

theorem setLast_tag (p c : Node) : (p.setLast c).tag = p.tag := rfl
theorem append_tag (p c : Node) : (p.append c).tag = p.tag := rfl
theorem setCodeText_tag (p sib code : Node) (t : Str) : (setCodeText p sib code t).tag = p.tag := rfl

theorem emptyP_tag (refs p b rest) : (emptyP refs p b rest).1.tag = p.tag := by
  simp only [emptyP]
  (repeat' split) <;> rfl

theorem codeP_tag (tab refs p b rest) : (codeP tab refs p b rest).1.tag = p.tag := by
  simp only [codeP]
  (repeat' split) <;> rfl

theorem setextP_tag (refs p b rest) : (setextP refs p b rest).1.tag = p.tag := rfl

theorem referenceP_tag (refs p b rest m) : (referenceP refs p b rest m).1.tag = p.tag := by
  obtain ⟨s, e, i, l, t5, t6⟩ := m; rfl

theorem paraP_tag (st refs p b rest) : (paraP st refs p b rest).1.tag = p.tag := by
  simp only [paraP]
  (repeat' split) <;> rfl

theorem hashP_tag {pb : PB} (h : PBTag pb) {tab st refs p b rest m q r bl}
    (e : hashP tab pb st refs p b rest m = some (q, r, bl)) : q.tag = p.tag := by
  obtain ⟨s, en, lv, hd⟩ := m
  simp only [hashP] at e
  split at e
  · cases e
  · rename_i p' r' hp
    injection e with e; injection e with e1 _; subst e1
    rw [append_tag]
    split at hp
    · injection hp with hp; injection hp with hp _; subst hp; rfl
    · exact h _ _ _ _ _ _ hp

theorem hrP_tag {pb : PB} (h : PBTag pb) {st refs p b rest m q r bl}
    (e : hrP pb st refs p b rest m = some (q, r, bl)) : q.tag = p.tag := by
  obtain ⟨s, en⟩ := m
  simp only [hrP] at e
  split at e
  · cases e
  · rename_i p' r' hp
    injection e with e; injection e with e1 _; subst e1
    rw [append_tag]
    split at hp
    · injection hp with hp; injection hp with hp _; subst hp; rfl
    · exact h _ _ _ _ _ _ hp

theorem listItems_tag {pb : PB} (h : PBTag pb) {tab st2} : ∀ {items refs lst q r},
    listItems tab pb st2 refs lst items = some (q, r) → q.tag = lst.tag
  | [], refs, lst, q, r, e => by
    simp only [listItems] at e; injection e with e; injection e with e _; subst e; rfl
  | item :: items, refs, lst, q, r, e => by
    simp only [listItems] at e
    split at e
    · split at e
      · split at e
        · exact (listItems_tag h e).trans (setLast_tag _ _)
        · cases e
      · exact listItems_tag h e
    · split at e
      · exact (listItems_tag h e).trans (append_tag _ _)
      · cases e

theorem listP_tag {pb : PB} (h : PBTag pb) {tab st refs p b rest tag q r bl}
    (e : listP tab pb st refs p b rest tag = some (q, r, bl)) : q.tag = p.tag := by
  simp only [listP] at e
  split at e
  · split at e
    · cases e
    · split at e
      · injection e with e; injection e with e _; subst e; rfl
      · cases e
  · split at e
    · split at e
      · rename_i hl
        injection e with e; injection e with e _; subst e
        exact listItems_tag h hl
      · cases e
    · split at e
      · injection e with e; injection e with e _; subst e; rfl
      · cases e

theorem quoteP_tag {pb : PB} (h : PBTag pb) {st refs p b rest n q r bl}
    (e : quoteP pb st refs p b rest n = some (q, r, bl)) : q.tag = p.tag := by
  simp only [quoteP] at e
  split at e
  · cases e
  · rename_i p' r' hp
    have hp' := h _ _ _ _ _ _ hp
    split at e
    · split at e
      · injection e with e; injection e with e _; subst e; exact hp'
      · cases e
    · split at e
      · injection e with e; injection e with e _; subst e; exact hp'
      · cases e

theorem updPath_tag' (g : Node → Node) : ∀ (k : Nat) (p : Node),
    (k = 0 → (g p).tag = p.tag) → (updPath g k p).tag = p.tag
  | 0, p, ht => ht rfl
  | k + 1, p, _ => by
    simp only [updPath]
    cases hl : p.last? with
    | none => rfl
    | some l => rfl

theorem nodeAt_zero (p : Node) : nodeAt 0 p = p := rfl

theorem indentP_tag {pb : PB} (h : PBTag pb) {tab st refs p b rest q r bl}
    (e : indentP tab pb st refs p b rest = some (q, r, bl)) : q.tag = p.tag := by
  simp only [indentP] at e
  split at e
  · split at e
    · split at e
      · injection e with e; injection e with e _; subst e; rfl
      · cases e
    · split at e
      · rename_i hp
        injection e with e; injection e with e _; subst e
        exact h _ _ _ _ _ _ hp
      · cases e
  · split at e
    · split at e
      · rename_i sub r' hp
        injection e with e; injection e with e _; subst e
        apply updPath_tag'
        intro hk
        have := h _ _ _ _ _ _ hp
        rw [hk, nodeAt_zero] at this
        exact this
      · cases e
    · split at e
      · split at e
        · injection e with e; injection e with e _; subst e
          exact updPath_tag' _ _ _ (fun _ => rfl)
        · cases e
      · split at e
        · injection e with e; injection e with e _; subst e
          exact updPath_tag' _ _ _ (fun _ => rfl)
        · cases e

theorem dispatch_tag {pb : PB} (h : PBTag pb) {tab st refs p b rest q r bl}
    (e : dispatch tab pb st refs p b rest = some (q, r, bl)) : q.tag = p.tag := by
  rw [dispatch_eq] at e
  split at e
  · injection e with e; have := emptyP_tag refs p b rest; rw [e] at this; exact this
  · split at e
    · exact indentP_tag h e
    · split at e
      · injection e with e; have := codeP_tag tab refs p b rest; rw [e] at this; exact this
      · split at e
        · exact hashP_tag h e
        · split at e
          · injection e with e; have := setextP_tag refs p b rest; rw [e] at this; exact this
          · split at e
            · exact hrP_tag h e
            · split at e
              · exact listP_tag h e
              · split at e
                · exact listP_tag h e
                · split at e
                  · exact quoteP_tag h e
                  · split at e
                    · rename_i m _; injection e with e; have := referenceP_tag refs p b rest m; rw [e] at this; exact this
                    · injection e with e; have := paraP_tag st refs p b rest; rw [e] at this; exact this

theorem parseBlocks_tag (tab : Nat) : ∀ f, PBTag (parseBlocks tab f)
  | 0 => by
    intro st refs p bs q r e
    cases bs with
    | nil => simp [parseBlocks] at e; rw [← e.1]
    | cons b rest => simp [parseBlocks] at e
  | f + 1 => by
    have ih := parseBlocks_tag tab f
    intro st refs p bs
    induction bs generalizing refs p with
    | nil => intro q r e; simp [parseBlocks] at e; rw [← e.1]
    | cons b rest _ =>
      intro q r e
      rw [parseBlocks] at e
      split at e
      · rename_i p' r' bl hd
        exact (ih _ _ _ _ _ _ e).trans (dispatch_tag ih hd)
      · cases e

/-! ### 1b. every `pre` child of the root is a code block -/

/-- the code block element as `CodeBlockProcessor` builds it -/
def cpre (t : Str) : Node :=
  { Node.el "pre" with children := [{ Node.el "code" with text := some t, textAtomic := true }] }

def preTag : Tag := .name "pre".toList

/-- a child that is a `pre` is a code block -/
def PreOK (c : Node) : Prop := c.tag = preTag → ∃ t, c = cpre t

/-- every `pre` child of `p` is a code block -/
def TopShape (p : Node) : Prop := ∀ c ∈ p.children, PreOK c

theorem PreOK.of_ne {c : Node} (h : c.tag ≠ preTag) : PreOK c := fun e => absurd e h
theorem PreOK.cpre (t : Str) : PreOK (cpre t) := fun _ => ⟨t, rfl⟩

theorem TopShape.append {p c : Node} (h : TopShape p) (hc : PreOK c) : TopShape (p.append c) := by
  intro x hx
  simp only [Node.append, List.mem_append, List.mem_singleton] at hx
  rcases hx with hx | rfl
  · exact h x hx
  · exact hc

theorem TopShape.setLast {p c : Node} (h : TopShape p) (hc : PreOK c) : TopShape (p.setLast c) := by
  intro x hx
  simp only [Node.setLast, List.mem_append, List.mem_singleton] at hx
  rcases hx with hx | rfl
  · exact h x (List.dropLast_subset _ hx)
  · exact hc

theorem isTag_eq {n : Node} {t : String} (h : n.isTag t = true) : n.tag = .name t.toList := by
  simpa [Node.isTag] using h

theorem ne_pre_of_isListTag {n : Node} (h : isListTag n = true) : n.tag ≠ preTag := by
  simp only [isListTag, Bool.or_eq_true] at h
  rcases h with h | h <;> rw [isTag_eq h] <;> decide

theorem ne_pre_of_isItemTag {n : Node} (h : isItemTag n = true) : n.tag ≠ preTag := by
  rw [isItemTag] at h; rw [isTag_eq h]; decide

theorem mem_of_last? {p sib : Node} (h : p.last? = some sib) : sib ∈ p.children :=
  List.mem_of_getLast? h

/-- the filler / the next code lines go into a code block of the expected shape, and leave one -/
theorem setCodeText_shape {p sib code : Node} (hs : TopShape p) (hl : p.last? = some sib)
    (hp : preCode sib = some code) (t' : Str) :
    ∃ t0, sib = cpre t0 ∧ code.text = some t0 ∧ setCodeText p sib code t' = p.setLast (cpre t') := by
  have htag : sib.tag = preTag := by
    unfold preCode at hp
    split at hp
    · rename_i h; exact isTag_eq h
    · cases hp
  obtain ⟨t0, rfl⟩ := hs sib (mem_of_last? hl) htag
  have : code = { Node.el "code" with text := some t0, textAtomic := true } := by
    have : preCode (cpre t0) = some { Node.el "code" with text := some t0, textAtomic := true } := rfl
    rw [this] at hp; exact (Option.some.inj hp).symm
  subst this
  exact ⟨t0, rfl, rfl, rfl⟩

def PBTop (pb : PB) : Prop :=
  ∀ st refs p bs q r, pb st refs p bs = some (q, r) → isstate st .list = false → isListTag p = false →
    TopShape p → TopShape q

theorem emptyP_top {refs p b rest} (hs : TopShape p) : TopShape (emptyP refs p b rest).1 := by
  simp only [emptyP]
  split
  · rename_i sib hl
    split
    · rename_i code hp
      obtain ⟨t0, _, _, e⟩ := setCodeText_shape hs hl hp (fmtOpt code.text ++ if b.isEmpty then ['\n', '\n'] else ['\n'])
      simp only [e]
      exact hs.setLast (PreOK.cpre _)
    · exact hs
  · exact hs

theorem codeP_top {tab refs p b rest} (hs : TopShape p) : TopShape (codeP tab refs p b rest).1 := by
  simp only [codeP]
  have hfresh : ∀ esc : Str, TopShape (p.append { Node.el "pre" with
      children := [{ Node.el "code" with text := some (esc ++ ['\n']), textAtomic := true }] }) :=
    fun esc => hs.append (PreOK.cpre (esc ++ ['\n']))
  split
  · rename_i sib hl
    split
    · rename_i code hp
      obtain ⟨t0, _, _, e⟩ := setCodeText_shape hs hl hp
        (fmtOpt code.text ++ '\n' :: codeEscape (rstrip (detab tab b).1) ++ ['\n'])
      simp only [e]
      exact hs.setLast (PreOK.cpre _)
    · exact hfresh _
  · exact hfresh _

theorem hTag_ne_pre (lv : Nat) : (hTag lv).tag ≠ preTag := by
  simp [hTag, preTag]

theorem hashP_top {pb : PB} (h : PBTop pb) {tab st refs p b rest m q r bl}
    (hst : isstate st .list = false) (hlp : isListTag p = false) (hs : TopShape p)
    (e : hashP tab pb st refs p b rest m = some (q, r, bl)) : TopShape q := by
  obtain ⟨s, en, lv, hd⟩ := m
  simp only [hashP] at e
  split at e
  · cases e
  · rename_i p' r' hp
    injection e with e; injection e with e1 _; subst e1
    refine TopShape.append ?_ (PreOK.of_ne (hTag_ne_pre lv))
    split at hp
    · injection hp with hp; injection hp with hp _; subst hp; exact hs
    · exact h _ _ _ _ _ _ hp hst hlp hs

theorem setextP_top {refs p b rest} (hs : TopShape p) : TopShape (setextP refs p b rest).1 := by
  simp only [setextP]
  exact hs.append (PreOK.of_ne (hTag_ne_pre _))

theorem hrP_top {pb : PB} (h : PBTop pb) {st refs p b rest m q r bl}
    (hst : isstate st .list = false) (hlp : isListTag p = false) (hs : TopShape p)
    (e : hrP pb st refs p b rest m = some (q, r, bl)) : TopShape q := by
  obtain ⟨s, en⟩ := m
  simp only [hrP] at e
  split at e
  · cases e
  · rename_i p' r' hp
    injection e with e; injection e with e1 _; subst e1
    refine TopShape.append ?_ (PreOK.of_ne (by decide))
    split at hp
    · injection hp with hp; injection hp with hp _; subst hp; exact hs
    · exact h _ _ _ _ _ _ hp hst hlp hs

theorem listP_top {pb : PB} (ht : PBTag pb) {tab st refs p b rest tag q r bl}
    (htag : (Node.el tag).tag ≠ preTag) (hlp : isListTag p = false) (hs : TopShape p)
    (e : listP tab pb st refs p b rest tag = some (q, r, bl)) : TopShape q := by
  simp only [listP] at e
  split at e
  · rename_i lst hlst
    split at e
    · cases e
    · split at e
      · rename_i lst' r' hl
        injection e with e; injection e with e _; subst e
        refine hs.setLast (PreOK.of_ne ?_)
        have h1 := listItems_tag ht hl
        -- the list that is continued is the last child, a list element
        have hlist : isListTag lst = true := by
          split at hlst
          · rename_i sib _
            split at hlst
            · rename_i hh; injection hlst with hlst; subst hlst; exact hh
            · cases hlst
          · cases hlst
        have h2 : lst'.tag = lst.tag := by
          rw [h1, append_tag]
          split <;> rfl
        rw [h2]; exact ne_pre_of_isListTag hlist
      · cases e
  · split at e
    · rename_i hp; rw [hlp] at hp; cases hp
    · split at e
      · rename_i lst r' hl
        injection e with e; injection e with e _; subst e
        refine hs.append (PreOK.of_ne ?_)
        rw [listItems_tag ht hl]; exact htag
      · cases e

theorem parseChunk_tag {pb : PB} (ht : PBTag pb) {st refs p text q r}
    (e : parseChunk pb st refs p text = some (q, r)) : q.tag = p.tag := ht _ _ _ _ _ _ e

theorem quoteP_top {pb : PB} (h : PBTop pb) (ht : PBTag pb) {st refs p b rest n q r bl}
    (hst : isstate st .list = false) (hlp : isListTag p = false) (hs : TopShape p)
    (e : quoteP pb st refs p b rest n = some (q, r, bl)) : TopShape q := by
  simp only [quoteP] at e
  split at e
  · cases e
  · rename_i p' r' hp
    have hs' := h _ _ _ _ _ _ hp hst hlp hs
    split at e
    · rename_i sib hsib
      split at e
      · rename_i quote r2 hq
        injection e with e; injection e with e _; subst e
        refine hs'.setLast (PreOK.of_ne ?_)
        rw [parseChunk_tag ht hq]
        split at hsib
        · split at hsib
          · rename_i hh; injection hsib with hsib; subst hsib; rw [isTag_eq hh]; decide
          · cases hsib
        · cases hsib
      · cases e
    · split at e
      · rename_i quote r2 hq
        injection e with e; injection e with e _; subst e
        refine hs'.append (PreOK.of_ne ?_)
        rw [parseChunk_tag ht hq]; decide
      · cases e

theorem paraP_top {st refs p b rest} (hst : isstate st .list = false) (hs : TopShape p) :
    TopShape (paraP st refs p b rest).1 := by
  simp only [paraP, hst]
  split
  · exact hs
  · exact hs.append (PreOK.of_ne (show Tag.name "p".toList ≠ preTag by decide))

theorem isstate_snoc_detabbed_list (st : List BState) : isstate (st ++ [.detabbed]) .list = false := by
  simp [isstate]

/-- a positive number of steps of `get_level` starts at a last child that is a list or an item -/
theorem getLevelKids_pos (il : Nat) : ∀ (level : Nat) (kids : List Node), 0 < (getLevelKids il level kids).2 →
    ∃ c, kids.getLast? = some c ∧ (isListTag c || isItemTag c) = true
  | level, [], h => by simp [getLevelKids] at h
  | level, [c], h => by
    rw [getLevelKids] at h
    split at h
    · rename_i hc
      simp only [Bool.and_eq_true] at hc
      exact ⟨c, rfl, hc.2⟩
    · simp at h
  | level, c :: d :: r, h => by
    rw [getLevelKids] at h
    obtain ⟨x, hx, hx'⟩ := getLevelKids_pos il level (d :: r) h
    exact ⟨x, by rw [List.getLast?_cons_cons]; exact hx, hx'⟩

theorem getLevel_pos {tab st p b} (h : 0 < (getLevel tab st p b).2) :
    ∃ c, p.last? = some c ∧ c.tag ≠ preTag := by
  unfold getLevel at h
  cases p with
  | mk tag attrs text ta children tail tla =>
    rw [getLevelNode] at h
    obtain ⟨c, hc, hc'⟩ := getLevelKids_pos _ _ _ h
    refine ⟨c, hc, ?_⟩
    simp only [Bool.or_eq_true] at hc'
    rcases hc' with h1 | h1
    · exact ne_pre_of_isListTag h1
    · exact ne_pre_of_isItemTag h1

/-- a change below the last child, which is not a `pre` and keeps its tag -/
theorem updPath_succ_top {p : Node} (hs : TopShape p) (g : Node → Node) (k : Nat)
    (h : ∀ c, p.last? = some c → c.tag ≠ preTag ∧ (updPath g k c).tag = c.tag) :
    TopShape (updPath g (k + 1) p) := by
  simp only [updPath]
  cases hl : p.last? with
  | none => exact hs
  | some c =>
    obtain ⟨h1, h2⟩ := h c hl
    exact hs.setLast (PreOK.of_ne (by rw [h2]; exact h1))

theorem nodeAt_succ_of_last {p c : Node} (h : p.last? = some c) (k : Nat) : nodeAt (k + 1) p = nodeAt k c := by
  simp only [nodeAt, h]

theorem textToP_tag' (li : Node) : (textToP li).tag = li.tag := by
  unfold textToP; split <;> rfl

theorem indentP_top {pb : PB} (h : PBTop pb) (ht : PBTag pb) {tab st refs p b rest q r bl}
    (hst : isstate st .list = false) (hlp : isListTag p = false) (hs : TopShape p)
    (e : indentP tab pb st refs p b rest = some (q, r, bl)) : TopShape q := by
  have hst2 := isstate_snoc_detabbed_list st
  have _ := hst
  simp only [indentP] at e
  split at e
  · -- the parent is an item
    split at e
    · rename_i c hc
      split at e
      · rename_i sub r' hp
        injection e with e; injection e with e _; subst e
        refine hs.setLast (PreOK.of_ne ?_)
        rw [ht _ _ _ _ _ _ hp]
        split at hc
        · split at hc
          · rename_i hh; injection hc with hc; subst hc; exact ne_pre_of_isListTag hh
          · cases hc
        · cases hc
      · cases e
    · split at e
      · rename_i p' r' hp
        injection e with e; injection e with e _; subst e
        exact h _ _ _ _ _ _ hp hst2 hlp hs
      · cases e
  · generalize hgl : getLevel tab st p b = gl at e
    obtain ⟨level, steps⟩ := gl
    simp only at e
    -- the node that is changed sits `steps` last-child links below the parent
    have key : ∀ (g : Node → Node), (steps = 0 → TopShape (g p)) →
        (∀ c, p.last? = some c → ∀ k, steps = k + 1 → (updPath g k c).tag = c.tag) →
        TopShape (updPath g steps p) := by
      intro g h0 h1
      cases steps with
      | zero => exact h0 rfl
      | succ k =>
        apply updPath_succ_top hs
        intro c hc
        obtain ⟨c', hc', hne⟩ := getLevel_pos (tab := tab) (st := st) (p := p) (b := b) (by rw [hgl]; simp)
        rw [hc] at hc'; injection hc' with hc'; subst hc'
        exact ⟨hne, h1 c hc k rfl⟩
    split at e
    · split at e
      · rename_i sub r' hp
        injection e with e; injection e with e _; subst e
        apply key
        · intro h0
          subst h0
          exact h _ _ _ _ _ _ hp hst2 hlp hs
        · intro c hc k hk
          subst hk
          apply updPath_tag'
          intro hk0
          have := ht _ _ _ _ _ _ hp
          rw [nodeAt_succ_of_last hc, hk0, nodeAt_zero] at this
          exact this
      · cases e
    · split at e
      · rename_i li hli
        split at e
        · rename_i li' r' hq
          injection e with e; injection e with e _; subst e
          apply key
          · intro _
            refine hs.setLast (PreOK.of_ne ?_)
            rw [parseChunk_tag ht hq, textToP_tag']
            split at hli
            · split at hli
              · rename_i hh; injection hli with hli; subst hli; exact ne_pre_of_isItemTag hh
              · cases hli
            · cases hli
          · intro c hc k hk
            exact updPath_tag' _ _ _ (fun _ => rfl)
        · cases e
      · split at e
        · rename_i li r' hq
          injection e with e; injection e with e _; subst e
          apply key
          · intro _
            refine hs.append (PreOK.of_ne ?_)
            rw [ht _ _ _ _ _ _ hq]; decide
          · intro c hc k hk
            exact updPath_tag' _ _ _ (fun _ => rfl)
        · cases e

theorem dispatch_top {pb : PB} (h : PBTop pb) (ht : PBTag pb) {tab st refs p b rest q r bl}
    (hst : isstate st .list = false) (hlp : isListTag p = false) (hs : TopShape p)
    (e : dispatch tab pb st refs p b rest = some (q, r, bl)) : TopShape q := by
  rw [dispatch_eq] at e
  split at e
  · injection e with e; have := emptyP_top (refs := refs) (b := b) (rest := rest) hs; rw [e] at this; exact this
  · split at e
    · exact indentP_top h ht hst hlp hs e
    · split at e
      · injection e with e
        have := codeP_top (tab := tab) (refs := refs) (b := b) (rest := rest) hs; rw [e] at this; exact this
      · split at e
        · exact hashP_top h hst hlp hs e
        · split at e
          · injection e with e
            have := setextP_top (refs := refs) (b := b) (rest := rest) hs; rw [e] at this; exact this
          · split at e
            · exact hrP_top h hst hlp hs e
            · split at e
              · exact listP_top ht (by decide) hlp hs e
              · split at e
                · exact listP_top ht (by decide) hlp hs e
                · split at e
                  · exact quoteP_top h ht hst hlp hs e
                  · split at e
                    · rename_i m _
                      injection e with e
                      have : (referenceP refs p b rest m).1 = p := by obtain ⟨s, e', i, l, t5, t6⟩ := m; rfl
                      rw [e] at this; simp only at this; rw [this]; exact hs
                    · injection e with e
                      have := paraP_top (refs := refs) (b := b) (rest := rest) hst hs; rw [e] at this; exact this

theorem isListTag_congr {a b : Node} (h : a.tag = b.tag) : isListTag a = isListTag b := by
  simp only [isListTag, Node.isTag, h]

theorem parseBlocks_top (tab : Nat) : ∀ f, PBTop (parseBlocks tab f)
  | 0 => by
    intro st refs p bs q r e _ _ hs
    cases bs with
    | nil => simp [parseBlocks] at e; rw [← e.1]; exact hs
    | cons b rest => simp [parseBlocks] at e
  | f + 1 => by
    have ih := parseBlocks_top tab f
    have iht := parseBlocks_tag tab f
    intro st refs p bs
    induction bs generalizing refs p with
    | nil => intro q r e _ _ hs; simp [parseBlocks] at e; rw [← e.1]; exact hs
    | cons b rest _ =>
      intro q r e hst hlp hs
      rw [parseBlocks] at e
      split at e
      · rename_i p' r' bl hd
        have h1 := dispatch_top ih iht hst hlp hs hd
        have h2 : isListTag p' = false := by rw [isListTag_congr (dispatch_tag iht hd)]; exact hlp
        exact ih _ _ _ _ _ _ e hst h2 h1
      · cases e

/-- **every `pre` child of the root of a parsed document is a code block**, and the root is a `div` -/
theorem parseDocument_top {tab : Nat} {text : Str} {root : Node} {refs : Refs}
    (h : parseDocument tab text = some (root, refs)) : TopShape root ∧ root.tag = .name "div".toList := by
  simp only [parseDocument, parseDocumentWith, parseChunk] at h
  refine ⟨parseBlocks_top tab _ _ _ _ _ _ _ h (by decide) (by decide) ?_, parseBlocks_tag tab _ _ _ _ _ _ _ h⟩
  intro c hc; simp [Node.el] at hc

/-! ### 2. the inline processor in lockstep on two roots that differ in the text of a trailing code block -/

section Lock
open Inline InlineLocal

/-- the `code` element of a code block -/
def leaf (t : Str) : Node := { Node.el "code" with text := some t, textAtomic := true }

theorem cpre_eq (t : Str) : cpre t = { Node.el "pre" with children := [leaf t] } := rfl

/-- the `code` element is skipped: atomic text, no tail, no children -/
theorem visitChild_leaf (cfg : Cfg) (t : Str) (v : Visit) : visitChild cfg (leaf t) v = some (leaf t, [], v) := by
  cases v
  simp [visitChild, leaf, Node.el, Node.truthy]

/-- the `pre` element is only pushed on the stack -/
theorem visitChild_cpre (cfg : Cfg) (t : Str) (v : Visit) :
    visitChild cfg (cpre t) v = some (cpre t, [], { v with pushes := [v.done.length] :: v.pushes }) := by
  cases v
  simp [visitChild, cpre, Node.el, Node.truthy]

/-- the visit record after a last child that is only pushed -/
def fin (v1 : Visit) (x : Node) (o : Option Nat) : Visit :=
  { done := x :: v1.done
    posmap := match o with | some o => (o, v1.done.length) :: v1.posmap | none => v1.posmap
    pushes := [v1.done.length] :: v1.pushes
    st := v1.st }

/-- a child loop whose last element is a code block: the loop over the others, then the code block; the same with
    any other code block in its place, with the same fuel -/
theorem visitLoop_last (cfg : Cfg) (t : Str) (o : Option Nat) : ∀ (g : Nat) (todo : List (Node × Option Nat))
    (v0 v : Visit), visitLoop cfg g (todo ++ [(cpre t, o)]) v0 = some v →
    ∃ v1, visitLoop cfg g todo v0 = some v1 ∧ v = fin v1 (cpre t) o ∧
      ∀ t', visitLoop cfg g (todo ++ [(cpre t', o)]) v0 = some (fin v1 (cpre t') o) := by
  intro g
  induction g with
  | zero => intro todo v0 v h; simp [visitLoop] at h
  | succ g ih =>
    intro todo v0 v h
    cases todo with
    | nil =>
      simp only [List.nil_append, visitLoop, visitChild_cpre, List.map_nil] at h
      cases g with
      | zero => simp [visitLoop] at h
      | succ g =>
        simp only [visitLoop, Option.some.injEq] at h
        refine ⟨v0, by simp [visitLoop], ?_, fun t' => ?_⟩
        · rw [← h]; cases o <;> rfl
        · simp only [List.nil_append, visitLoop, visitChild_cpre, List.map_nil]
          cases o <;> rfl
    | cons co todo' =>
      obtain ⟨c, oc⟩ := co
      simp only [List.cons_append, visitLoop] at h ⊢
      cases hvc : visitChild cfg c v0 with
      | none => simp [hvc] at h
      | some res =>
        obtain ⟨c', tr, v'⟩ := res
        simp only [hvc] at h ⊢
        rw [← List.append_assoc] at h
        obtain ⟨v1, h1, h2, h3⟩ := ih _ _ _ h
        refine ⟨v1, h1, h2, fun t' => ?_⟩
        rw [← List.append_assoc]
        exact h3 t'

theorem getF_left (A : List Node) (x : Node) {j : Nat} (hj : j < A.length) (q : Path) :
    getF (A ++ [x]) j q = getF A j q := by
  have := getF_mid [] A [x] hj q
  simpa using this

theorem setF_left (A : List Node) (x : Node) {j : Nat} (hj : j < A.length) (q : Path) (new : Node) :
    setF (A ++ [x]) j q new = setF A j q new ++ [x] := by
  have := setF_mid [] A [x] hj q new
  simpa using this

theorem getF_last (A : List Node) (x : Node) : getF (A ++ [x]) A.length [] = some x := by
  simp [getF, getAt]

theorem setF_last (A : List Node) (x new : Node) : setF (A ++ [x]) A.length [] new = A ++ [new] := by
  simp [setF, setAt]

/-- paths that are not below `p` are not re-addressed -/
theorem remap_of_head_ne {i j : Nat} (h : j ≠ i) (p : Path) (pm : List (Nat × Nat)) (q : Path) :
    remap (i :: p) pm (j :: q) = j :: q := by
  simp [remap, remap.startsWithPath, h]

theorem remap_singleton_self (m : Nat) (pm : List (Nat × Nat)) : remap [m] pm [m] = [m] := by
  simp [remap, remap.startsWithPath]

/-- the stack of the lockstep: the path of the trailing code block, or a path into the children in front of it -/
def StackOK (m : Nat) (stack : List Path) : Prop := ∀ p ∈ stack, p = [m] ∨ hdLt m p

theorem remap_stackOK_pre {m : Nat} {stack : List Path} (h : StackOK m stack) (pm : List (Nat × Nat)) :
    stack.map (remap [m] pm) = stack := by
  induction stack with
  | nil => rfl
  | cons p stack ih =>
    rw [List.map_cons, ih (fun q hq => h q (List.mem_cons_of_mem _ hq))]
    congr 1
    rcases h p List.mem_cons_self with rfl | hp
    · exact remap_singleton_self m pm
    · cases p with
      | nil => exact hp.elim
      | cons j q =>
        simp only [hdLt_cons] at hp
        exact remap_of_head_ne (by omega) [] pm q

theorem stackOK_step {m j : Nat} {q : Path} (hj : j < m) {stack : List Path} (h : StackOK m stack)
    (pushes : List Path) (pm : List (Nat × Nat)) :
    StackOK m (pushes.map ((j :: q) ++ ·) ++ stack.map (remap (j :: q) pm)) := by
  intro p hp
  simp only [List.mem_append, List.mem_map] at hp
  rcases hp with ⟨x, _, rfl⟩ | ⟨x, hx, rfl⟩
  · exact Or.inr (by simpa using hj)
  · rcases h x hx with rfl | hx'
    · exact Or.inl (remap_of_head_ne (by omega) q pm [])
    · exact Or.inr (remap_hdLt (by simp) pm hx')

theorem runLoop_cons (cfg : Cfg) (g2 g : Nat) (root : Node) (p : Path) (stack : List Path) (st : St) :
    runLoop cfg g2 (g + 1) root (p :: stack) st =
      match getAt root p with
      | none => runLoop cfg g2 g root stack st
      | some cur =>
        match visitLoop cfg g2 (withIdx cur.children 0) { st := st } with
        | none => none
        | some v =>
          runLoop cfg g2 g (setAt root p { cur with children := v.done.reverse })
            (v.pushes.map (p ++ ·) ++ stack.map (remap p v.posmap)) v.st := rfl

/-- the child loop of a code block -/
theorem visitLoop_cpre_kids (cfg : Cfg) (g2 : Nat) (t : Str) (st : St) :
    visitLoop cfg g2 (withIdx (cpre t).children 0) { st := st } =
      if g2 < 2 then none else some { done := [leaf t], posmap := [(0, 0)], pushes := [], st := st } := by
  have : withIdx (cpre t).children 0 = [(leaf t, some 0)] := rfl
  rw [this]
  cases g2 with
  | zero => rfl
  | succ g2 =>
    cases g2 with
    | zero => simp [visitLoop, visitChild_leaf]
    | succ g2 => simp [visitLoop, visitChild_leaf]

/-- **lockstep of the stack loop.**  Root `hdr[A ++ [cpre t]]`, stack of paths into `A` or at the code block: the
    run does not read `t`; with any other text `t'` it makes the same steps with the same fuels. -/
theorem runLoop_lock (cfg : Cfg) (g2 : Nat) (hdr : Node) (t t' : Str) : ∀ (g : Nat) (A : List Node)
    (stack : List Path) (st : St) (r : Node) (s : St), StackOK A.length stack →
    runLoop cfg g2 g (mk hdr (A ++ [cpre t])) stack st = some (r, s) →
    ∃ A', r = mk hdr (A' ++ [cpre t]) ∧
      runLoop cfg g2 g (mk hdr (A ++ [cpre t'])) stack st = some (mk hdr (A' ++ [cpre t']), s) := by
  intro g
  induction g with
  | zero => intro A stack st r s _ h; simp [runLoop] at h
  | succ g ih =>
    intro A stack st r s hok h
    cases stack with
    | nil =>
      simp only [runLoop, Option.some.injEq, Prod.mk.injEq] at h
      obtain ⟨rfl, rfl⟩ := h
      exact ⟨A, rfl, by simp [runLoop]⟩
    | cons p stack =>
      have hok' : StackOK A.length stack := fun q hq => hok q (List.mem_cons_of_mem _ hq)
      rw [runLoop_cons] at h ⊢
      rcases hok p List.mem_cons_self with rfl | hp
      · -- the code block itself
        rw [getAt_cons, mk_children, getF_last] at h ⊢
        simp only [visitLoop_cpre_kids] at h ⊢
        by_cases hg2 : g2 < 2
        · simp [hg2] at h
        · simp only [hg2, if_false, List.reverse_cons, List.reverse_nil, List.nil_append, List.map_nil,
            setAt_cons, mk_children, setF_last, mk_mk] at h ⊢
          rw [remap_stackOK_pre hok'] at h ⊢
          have e1 : ({ cpre t with children := [leaf t] } : Node) = cpre t := rfl
          have e2 : ({ cpre t' with children := [leaf t'] } : Node) = cpre t' := rfl
          rw [e1] at h; rw [e2]
          exact ih A stack st r s hok' h
      · cases p with
        | nil => exact hp.elim
        | cons j q =>
          simp only [hdLt_cons] at hp
          rw [getAt_cons, mk_children, getF_left A _ hp] at h ⊢
          cases hget : getF A j q with
          | none =>
            simp only [hget] at h ⊢
            exact ih A stack st r s hok' h
          | some cur =>
            simp only [hget] at h ⊢
            cases hv : visitLoop cfg g2 (withIdx cur.children 0) { st := st } with
            | none => simp [hv] at h
            | some v =>
              simp only [hv, setAt_cons, mk_children, setF_left A _ hp, mk_mk] at h ⊢
              have hlen : (setF A j q { cur with children := v.done.reverse }).length = A.length := setF_length ..
              have hok1 : StackOK (setF A j q { cur with children := v.done.reverse }).length
                  (v.pushes.map ((j :: q) ++ ·) ++ stack.map (remap (j :: q) v.posmap)) := by
                rw [hlen]; exact stackOK_step hp hok' _ _
              exact ih _ _ _ r s hok1 h

theorem mk_hdr_self (hdr : Node) (ks : List Node) : ({ mk hdr ks with children := ks } : Node) = mk hdr ks := rfl

/-- … from the start of `InlineProcessor.run`: the root is popped first -/
theorem runLoop_root_lock (cfg : Cfg) (g2 g : Nat) (hdr : Node) (A : List Node) (t t' : Str) (st : St) (r : Node)
    (s : St) (h : runLoop cfg g2 g (mk hdr (A ++ [cpre t])) [[]] st = some (r, s)) :
    ∃ A', r = mk hdr (A' ++ [cpre t]) ∧
      runLoop cfg g2 g (mk hdr (A ++ [cpre t'])) [[]] st = some (mk hdr (A' ++ [cpre t']), s) := by
  cases g with
  | zero => simp [runLoop] at h
  | succ g =>
    rw [runLoop_cons] at h ⊢
    simp only [getAt, mk_children, withIdx_append] at h ⊢
    have hw : ∀ x : Node, withIdx [x] (0 + A.length) = [(x, some A.length)] := by
      intro x; simp [withIdx]
    rw [hw] at h; rw [hw]
    cases hv : visitLoop cfg g2 (withIdx A 0 ++ [(cpre t, some A.length)]) { st := st } with
    | none => simp [hv] at h
    | some v =>
      obtain ⟨v1, h1, h2, h3⟩ := visitLoop_last cfg t (some A.length) g2 _ _ _ hv
      simp only [hv] at h
      rw [h3 t']
      subst h2
      simp only [fin, List.reverse_cons, setAt, List.map_cons, List.map_nil, List.append_nil, List.nil_append] at h ⊢
      have hpush : ∀ p ∈ v1.pushes, hdLt v1.done.length p := visitLoop_pushes_hdLt h1
      have hok : StackOK v1.done.reverse.length ([v1.done.length] :: v1.pushes.map ([] ++ ·)) := by
        intro p hp
        rw [List.length_reverse]
        rcases List.mem_cons.1 hp with rfl | hp
        · exact Or.inl rfl
        · simp only [List.nil_append, List.map_id'] at hp
          exact Or.inr (hpush p hp)
      exact runLoop_lock cfg g2 hdr t t' g v1.done.reverse _ _ r s hok h

theorem sizeList_append (a b : List Node) : sizeList (a ++ b) = sizeList a + sizeList b := by
  induction a with
  | nil => simp [sizeList]
  | cons x a ih => simp only [List.cons_append, sizeList, ih]; omega

theorem size_mk (hdr : Node) (ks : List Node) :
    size (mk hdr ks) = 1 + (hdr.text.getD []).length + (hdr.tail.getD []).length + sizeList ks := by
  cases hdr; rfl

theorem size_cpre (t : Str) : size (cpre t) = 2 + t.length := by
  simp [cpre, Node.el, size, sizeList]; omega

/-- **`InlineProcessor.run` does not read the text of a trailing code block**: if it answers on the root with the
    shorter text, it answers on the root with the longer text, with the same children in front, the same code block
    behind, and the same stashes -/
theorem run_lock (cfg : Cfg) (hdr : Node) (A : List Node) (t t' : Str) (hlen : t.length ≤ t'.length)
    (html : List Str) (r : Node) (s : St)
    (h : Inline.run cfg (mk hdr (A ++ [cpre t])) html = some (r, s)) :
    ∃ A', r = mk hdr (A' ++ [cpre t]) ∧
      Inline.run cfg (mk hdr (A ++ [cpre t'])) html = some (mk hdr (A' ++ [cpre t']), s) := by
  unfold Inline.run at h ⊢
  obtain ⟨A', hr, h'⟩ := runLoop_root_lock cfg _ _ hdr A t t' _ r s h
  refine ⟨A', hr, ?_⟩
  have hf : runFuel (mk hdr (A ++ [cpre t])) ≤ runFuel (mk hdr (A ++ [cpre t'])) := by
    simp only [runFuel, size_mk, sizeList_append, sizeList, size_cpre]; omega
  exact runLoop_mono cfg hf _ _ _ _ _ _ hf h'

end Lock

/-! ### 3. `prettify` removes the fillers -/

section Pretty
open TreeProc InlineLocal

/-- a code block with a tail -/
def cpreT (τ : Option Str) (t : Str) : Node := { cpre t with tail := τ }

theorem cpreT_none (t : Str) : cpreT none t = cpre t := rfl

theorem prettifyKids_append (bl : List Str) (a b : List Node) :
    prettifyKids bl (a ++ b) = prettifyKids bl a ++ prettifyKids bl b := by
  induction a with
  | nil => rfl
  | cons x a ih => simp only [List.cons_append, prettifyKids, ih]

theorem mapKids_append (f : Node → Node) (a b : List Node) : mapKids f (a ++ b) = mapKids f a ++ mapKids f b := by
  induction a with
  | nil => rfl
  | cons x a ih => simp only [List.cons_append, mapKids, ih]

/-- is the first child of `hdr[A ++ [cpre _]]` block-level? -/
def headBlock (bl : List Str) (A : List Node) : Bool :=
  match A with
  | [] => isBlockLevel bl preTag
  | a :: _ => isBlockLevel bl a.tag

theorem prettifyETree_cpre_self (bl : List Str) (t : Str) : prettifyETree bl (cpre t) = cpreT (some ['\n']) t := by
  simp [prettifyETree, cpre, cpreT, Node.el, blankOrNone, Node.truthy]

theorem prettifyKids_cpre (bl : List Str) (t : Str) :
    prettifyKids bl [cpre t] = [cpreT (if isBlockLevel bl preTag then some ['\n'] else none) t] := by
  have e : (cpre t).tag = preTag := rfl
  simp only [prettifyKids, e]
  split
  · rw [prettifyETree_cpre_self]
  · rfl

/-- `_prettifyETree` on a root whose last child is a code block: the same header, the same children in front, and
    the code block with a tail that does not depend on its text -/
theorem prettifyETree_cpre (bl : List Str) (hdr : Node) (A : List Node) :
    ∃ (hdr1 : Node) (A1 : List Node) (τ : Option Str), hdr1.tag = hdr.tag ∧
      ∀ t, prettifyETree bl (mk hdr (A ++ [cpre t])) = mk hdr1 (A1 ++ [cpreT τ t]) := by
  cases hdr with
  | mk tag attrs text ta children tail tla =>
    by_cases hb : (isBlockLevel bl tag && !(tag == .name "code".toList) && !(tag == .name "pre".toList)) = true
    · -- a block-level root: the children are prettified
      refine ⟨⟨tag, attrs,
          if (blankOrNone text && headBlock bl A) then some ['\n'] else text,
          if (blankOrNone text && headBlock bl A) then false else ta,
          [], if blankOrNone tail then some ['\n'] else tail, if blankOrNone tail then false else tla⟩,
        prettifyKids bl A, if isBlockLevel bl preTag then some ['\n'] else none, rfl, fun t => ?_⟩
      cases A with
      | nil =>
        have e : (cpre t).tag = preTag := rfl
        simp only [mk, List.nil_append, prettifyETree, hb, Bool.true_and, if_true, prettifyKids_cpre, headBlock, e]
        rfl
      | cons a A' =>
        simp only [mk, List.cons_append, prettifyETree, hb, Bool.true_and, if_true, headBlock]
        rw [← List.cons_append, prettifyKids_append, prettifyKids_cpre]
        rfl
    · have hb' : (isBlockLevel bl tag && !(tag == .name "code".toList) && !(tag == .name "pre".toList)) = false := by
        simpa using hb
      refine ⟨⟨tag, attrs, text, ta, [], if blankOrNone tail then some ['\n'] else tail,
          if blankOrNone tail then false else tla⟩, A, none, rfl, fun t => ?_⟩
      simp only [mk, prettifyETree, hb', Bool.false_and, Bool.false_eq_true, if_false, cpreT_none]

theorem tagIs_mk_div {hdr : Node} (h : hdr.tag = .name "div".toList) (ks : List Node) (s : String)
    (hs : s.toList ≠ "div".toList) : tagIs (mk hdr ks) s = false := by
  simp only [tagIs, mk, h, beq_eq_false_iff_ne, ne_eq, Tag.name.injEq]
  exact fun e => hs e.symm

theorem mapTree_mk (f : Node → Node) (hdr : Node) (ks : List Node) :
    mapTree f (mk hdr ks) = f (mk hdr (mapKids f ks)) := by
  cases hdr; rfl

theorem brRule_of_not_br {n : Node} (h : tagIs n "br" = false) : brRule n = n := by
  simp [brRule, h]

theorem preRule_of_not_pre {n : Node} (h : tagIs n "pre" = false) : preRule n = n := by
  simp [preRule, h]

theorem mapTree_brRule_cpreT (τ : Option Str) (t : Str) : mapTree brRule (cpreT τ t) = cpreT τ t := rfl

theorem mapTree_preRule_cpreT (τ : Option Str) (t : Str) :
    mapTree preRule (cpreT τ t) = cpreT τ (rstrip t ++ ['\n']) := rfl

/-- **`prettify` removes the fillers**: two roots (a `div`) that differ only in the text of a trailing code block,
    by trailing white space, are prettified to the same tree -/
theorem prettify_cpre (bl : List Str) (hdr : Node) (hdiv : hdr.tag = .name "div".toList) (A : List Node)
    (t t' : Str) (hr : rstrip t = rstrip t') :
    prettify (mk hdr (A ++ [cpre t])) bl = prettify (mk hdr (A ++ [cpre t'])) bl := by
  obtain ⟨hdr1, A1, τ, htag, H⟩ := prettifyETree_cpre bl hdr A
  have hd1 : hdr1.tag = .name "div".toList := htag.trans hdiv
  have key : ∀ x, prettify (mk hdr (A ++ [cpre x])) bl =
      mk hdr1 (mapKids preRule (mapKids brRule A1) ++ [cpreT τ (rstrip x ++ ['\n'])]) := by
    intro x
    unfold prettify
    rw [H x, mapTree_mk, brRule_of_not_br (tagIs_mk_div hd1 _ _ (by decide)), mapKids_append]
    simp only [mapKids, mapTree_brRule_cpreT]
    rw [mapTree_mk, preRule_of_not_pre (tagIs_mk_div hd1 _ _ (by decide)), mapKids_append]
    simp only [mapKids, mapTree_preRule_cpreT]
  rw [key t, key t', hr]

end Pretty

/-! ### 4. blank lines behind a document that ends in a code block -/

section Glue
open InlineLocal Pipeline

/-- the stages of `convert` behind the block parser -/
def stages (cfg : Cfg) (root : Node) (refs : Block.Refs) : Outcome :=
  match Inline.run { esc := cfg.esc, refs := refs.reverse } root with
  | none => .oof
  | some (t, st) =>
    match TreeProc.unescapeTree (TreeProc.prettify t cfg.blockLevel) with
    | none => .err
    | some u =>
      match Post.finish cfg.blockLevel st.html (Ser.serialize cfg.fmt u) with
      | none => .oof
      | some none => .err
      | some (some out) => .ok out

theorem convert_eq_stages (cfg : Cfg) (src : Str) :
    convert cfg src =
      if src.contains '<' then .ood
      else if isBlankDoc src then .ok []
      else match parseDocument cfg.tab (prepare cfg src) with
           | none => .oof
           | some (root, refs) => stages cfg root refs := by
  unfold convert tree stages
  split
  · rfl
  · split
    · rfl
    · cases parseDocument cfg.tab (prepare cfg src) with
      | none => rfl
      | some rr =>
        obtain ⟨root, refs⟩ := rr
        simp only
        cases Inline.run { esc := cfg.esc, refs := refs.reverse } root with
        | none => rfl
        | some ts =>
          obtain ⟨t, st⟩ := ts
          simp only
          cases TreeProc.unescapeTree (TreeProc.prettify t cfg.blockLevel) <;> rfl

/-- the stages behind the block parser do not see the fillers of a trailing code block -/
theorem stages_cpre (cfg : Cfg) (hdr : Node) (hdiv : hdr.tag = .name "div".toList) (A : List Node) (t t' : Str)
    (refs : Block.Refs) (hlen : t.length ≤ t'.length) (hr : rstrip t = rstrip t')
    (h : stages cfg (mk hdr (A ++ [cpre t])) refs ≠ .oof) :
    stages cfg (mk hdr (A ++ [cpre t'])) refs = stages cfg (mk hdr (A ++ [cpre t])) refs := by
  unfold stages at h ⊢
  cases hrun : Inline.run { esc := cfg.esc, refs := refs.reverse } (mk hdr (A ++ [cpre t])) with
  | none => rw [hrun] at h; exact absurd rfl h
  | some rs =>
    obtain ⟨r, s⟩ := rs
    obtain ⟨A', hr', hrun'⟩ := run_lock _ hdr A t t' hlen [] r s hrun
    rw [hrun']
    subst hr'
    simp only
    rw [prettify_cpre cfg.blockLevel hdr hdiv A' t' t hr.symm]

theorem setLast_eq_mk (p c : Node) : p.setLast c = mk p (p.children.dropLast ++ [c]) := rfl

theorem setLast_setLast (p a b : Node) : (p.setLast a).setLast b = p.setLast b := by
  simp [Node.setLast]

theorem dropLast_append_of_getLast? {α : Type} : ∀ (l : List α) (c : α), l.getLast? = some c → l.dropLast ++ [c] = l
  | [], c, h => by simp at h
  | [a], c, h => by
    have : a = c := by simpa using h
    simp [this]
  | a :: b :: l, c, h => by
    rw [List.getLast?_cons_cons] at h
    have := dropLast_append_of_getLast? (b :: l) c h
    simp only [List.dropLast_cons_cons, List.cons_append, this]

theorem setLast_self {p c : Node} (h : p.last? = some c) : p.setLast c = p := by
  have : p.children.dropLast ++ [c] = p.children := dropLast_append_of_getLast? _ c h
  cases p
  simp only [Node.setLast] at this ⊢
  rw [this]

theorem fill1_cpre {p : Node} {t0 : Str} (h : p.last? = some (cpre t0)) (x : Str) :
    fill1 p x = p.setLast (cpre (t0 ++ x)) := by
  have hp : preCode (cpre t0) = some (leaf t0) := rfl
  simp only [fill1, h, hp]
  rfl

/-- the text the fillers of a list of empty blocks add up to -/
def fillText (E : List Str) : Str := (E.map filler).flatten

theorem fills_cpre : ∀ (E : List Str) {p : Node} {t0 : Str}, p.last? = some (cpre t0) →
    fills p E = p.setLast (cpre (t0 ++ fillText E))
  | [], p, t0, h => by simp [fills, fillText, setLast_self h]
  | b :: E, p, t0, h => by
    have := fills_cpre E (p := p.setLast (cpre (t0 ++ filler b))) (t0 := t0 ++ filler b) (setLast_last? _ _)
    simp only [fills, List.foldl_cons] at this ⊢
    rw [fill1_cpre h, this, setLast_setLast]
    simp [fillText]

theorem fillText_blank (E : List Str) : (fillText E).all isSpace = true := by
  induction E with
  | nil => rfl
  | cons b E ih =>
    have hb : (filler b).all isSpace = true := by unfold filler; split <;> decide
    simp only [fillText, List.map_cons, List.flatten_cons, List.all_append] at ih ⊢
    rw [hb, ih]; rfl

/-- **the trees of a document, without and with more line feeds behind it, give the same answer** (when the answer
    of the one whose trailing code block got the shorter filler is not "out of fuel") -/
theorem stages_trailing (cfg : Cfg) (O : Str) (j : Nat) :
    ∃ root root' refs, parseDocument cfg.tab (O ++ nn) = some (root, refs) ∧
      parseDocument cfg.tab (O ++ nn ++ List.replicate j '\n') = some (root', refs) ∧
      (stages cfg root refs ≠ .oof → stages cfg root' refs ≠ .oof → stages cfg root' refs = stages cfg root refs) := by
  obtain ⟨p1, r1, E0, E1, _, _, _, _, ⟨bs, f, hrun⟩, h0, h1⟩ := parseDocument_trailing cfg.tab O j
  refine ⟨_, _, _, h0, h1, ?_⟩
  by_cases hn : noCodeLast p1
  · intro _ _; rw [fills_of_noCode hn, fills_of_noCode hn]
  · -- the last child of `p1` is a code block
    have hs : TopShape p1 := parseBlocks_top cfg.tab f _ _ _ _ _ _ hrun (by decide) (by decide)
      (by intro c hc; simp [Node.el] at hc)
    have htag : p1.tag = .name "div".toList := parseBlocks_tag cfg.tab f _ _ _ _ _ _ hrun
    obtain ⟨sib, hl, hp⟩ : ∃ sib, p1.last? = some sib ∧ preCode sib ≠ none := by
      unfold noCodeLast at hn
      cases hl : p1.last? with
      | none => exact absurd (fun sib h => by rw [hl] at h; cases h) hn
      | some sib =>
        refine ⟨sib, rfl, fun hp => hn (fun sib' h => ?_)⟩
        rw [hl] at h; injection h with h; subst h; exact hp
    obtain ⟨code, hcode⟩ : ∃ code, preCode sib = some code := by
      cases hc : preCode sib with
      | none => exact absurd hc hp
      | some code => exact ⟨code, rfl⟩
    obtain ⟨t0, rfl, _, _⟩ := setCodeText_shape hs hl hcode []
    rw [fills_cpre E0 hl, fills_cpre E1 hl, setLast_eq_mk, setLast_eq_mk]
    have hr : rstrip (t0 ++ fillText E0) = rstrip (t0 ++ fillText E1) := by
      unfold rstrip
      rw [rstripP_append_of_all (fillText_blank E0), rstripP_append_of_all (fillText_blank E1)]
    intro g0 g1
    rcases Nat.le_total (t0 ++ fillText E0).length (t0 ++ fillText E1).length with hle | hle
    · exact stages_cpre cfg p1 htag _ _ _ r1 hle hr g0
    · exact (stages_cpre cfg p1 htag _ _ _ r1 hle hr.symm g1).symm

/-- **blank lines behind any document**: the same conversion, unless one of the two runs out of the model's fuel -/
theorem convert_trailing (cfg : Cfg) (s : Str) (m : Nat) (h0 : convert cfg s ≠ .oof)
    (h1 : convert cfg (s ++ List.replicate m '\n') ≠ .oof) :
    convert cfg (s ++ List.replicate m '\n') = convert cfg s := by
  obtain ⟨O, j, hO, hOj⟩ := prepare_trailing cfg s m
  obtain ⟨root, root', refs, hp, hp', H⟩ := stages_trailing cfg O j
  rw [convert_eq_stages] at h0 h1 ⊢
  rw [convert_eq_stages cfg s]
  simp only [trailing_contains, trailing_isBlankDoc, hO, hOj, hp, hp'] at h0 h1 ⊢
  split
  · rfl
  · split
    · rfl
    · rename_i hc hb
      simp only [hc, hb, Bool.false_eq_true, if_false] at h0 h1
      exact H h0 h1

end Glue

end MdVerif.NormDoc
