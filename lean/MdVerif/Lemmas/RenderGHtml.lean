/-
Helper lemmas for `Props/C16RenderG.lean`, part 8: the serializer on the document with footnotes — the HTML of the
references, of the back-links, of the list items, of the whole document; any number of references and footnotes.

Core Lean only.
-/
import MdVerif.Lemmas.RenderGSer

namespace MdVerif.RenderG
open Py Block BlockExt MdVerif.RenderX Inline InlineX
open MdVerif.Footnotes.Spec (refName)

/-! ### the HTML -/

/-- a reference: `<sup id="REFID"><a class="footnote-ref" href="#fn:ID">NUM</a></sup>` -/
def supHtmlG (refId id num : Str) : Str :=
  "<sup id=\"".toList ++ refId ++ "\"><a class=\"footnote-ref\" href=\"#fn:".toList ++ id ++ "\">".toList ++ num ++
    "</a></sup>".toList

/-- the references with the texts after them; `hist` = the labels referenced before -/
def refsHtml (keys : List Str) : List (Str × Str) → List Str → Str
  | [], _ => []
  | s :: r, hist =>
    supHtmlG (refName s.1 (hist.count s.1)) s.1 (natToDec (indexOf keys s.1 + 1)) ++ s.2 ++ refsHtml keys r (s.1 :: hist)

def lA1 : Str := "<a class=\"footnote-backref\" href=\"".toList
def lA2 : Str := "\" title=\"".toList
def lA3 : Str := "\">".toList
def lA4 : Str := "</a>".toList

/-- the start tag of a back-link of footnote number `index` -/
def backPre (index : Nat) (href : Str) : Str := lA1 ++ href ++ lA2 ++ titleOf index ++ lA3

/-- a back-link of footnote number `index`; `bl` = the text of the link -/
def backHtml (index : Nat) (bl href : Str) : Str := backPre index href ++ bl ++ lA4

def backsHtml (index : Nat) (bl : Str) : List Str → Str
  | [] => []
  | h :: r => backHtml index bl h ++ backsHtml index bl r

def lL1 : Str := "<li id=\"fn:".toList
def lL2 : Str := "\">\n<p>".toList
def lL3 : Str := "</p>\n</li>\n".toList

def liPre (id note : Str) : Str := lL1 ++ id ++ lL2 ++ note

/-- a footnote: `nb` = the no-break space between the note and the back-links -/
def liHtml (id note : Str) (index c : Nat) (nb bl : Str) : Str :=
  liPre id note ++ nb ++ backsHtml index bl (backHrefs id c) ++ lL3

def lisHtml (cnt : Str → Nat) (nb bl : Str) : List (Str × Str) → Nat → Str
  | [], _ => []
  | d :: r, i => liHtml d.1 d.2 i (cnt d.1) nb bl ++ lisHtml cnt nb bl r (i + 1)

def lD1 : Str := "<p>".toList
def lD2 : Str := "</p>\n<div class=\"footnote\">\n".toList
def lD3 : Str := "\n<ol>\n".toList
def lD4 : Str := "</ol>\n</div>".toList

def docPre (fmt : Ser.Fmt) (t refs : Str) : Str := lD1 ++ t ++ refs ++ lD2 ++ hrTag fmt ++ lD3

/-- the document: the paragraph, then `div.footnote > hr, ol` -/
def fnOutG (fmt : Ser.Fmt) (t refs lis : Str) : Str := docPre fmt t refs ++ lis ++ lD4

/-! ### closed facts -/

theorem et_a : Ser.isEmptyTag "a".toList = false ∧ Ser.isRawTextTag "a".toList = false := by decide +kernel
theorem et_sup : Ser.isEmptyTag "sup".toList = false ∧ Ser.isRawTextTag "sup".toList = false := by decide +kernel
theorem et_li : Ser.isEmptyTag "li".toList = false ∧ Ser.isRawTextTag "li".toList = false := by decide +kernel
theorem et_p : Ser.isEmptyTag "p".toList = false ∧ Ser.isRawTextTag "p".toList = false := by decide +kernel
theorem et_ol : Ser.isEmptyTag "ol".toList = false ∧ Ser.isRawTextTag "ol".toList = false := by decide +kernel
theorem et_div : Ser.isEmptyTag "div".toList = false ∧ Ser.isRawTextTag "div".toList = false := by decide +kernel
theorem ea_ref : Ser.escAttrHtml "footnote-ref".toList = "footnote-ref".toList := by decide +kernel
theorem ea_backref : Ser.escAttrHtml "footnote-backref".toList = "footnote-backref".toList := by decide +kernel
theorem ea_footnote : Ser.escAttrHtml "footnote".toList = "footnote".toList := by decide +kernel
theorem ec_bl : Ser.escCdata FootnotesTree.fnBacklinkText = FootnotesTree.fnBacklinkText := by decide +kernel
theorem ec_nl : Ser.escCdata ['\n'] = ['\n'] := by decide +kernel
theorem truthy_bl : Node.truthy (some FootnotesTree.fnBacklinkText) = true := by decide +kernel
theorem kv_class_ref : "class".toList ≠ "footnote-ref".toList := by decide +kernel
theorem kv_class_backref : "class".toList ≠ "footnote-backref".toList := by decide +kernel
theorem kv_class_footnote : "class".toList ≠ "footnote".toList := by decide +kernel
theorem nbsp_markup : ∀ x ∈ FootnotesTree.nbspPlaceholder, x ≠ '&' ∧ x ≠ '<' ∧ x ≠ '>' := by decide +kernel

/-! ### the serializer -/

theorem head_ne {a b : Str} (h : a.head? ≠ b.head?) : a ≠ b := fun e => h (e ▸ rfl)

theorem ifText_some (s : Str) (h : Ser.escCdata s = s) :
    (if Node.truthy (some s) = true then Ser.escCdata ((some s).getD []) else []) = s := by
  cases s with
  | nil => simp [Node.truthy]
  | cons a b => simp [Node.truthy, h]

theorem ifText_none :
    (if Node.truthy (none : Option Str) = true then Ser.escCdata ((none : Option Str).getD []) else []) = [] := by
  simp [Node.truthy]

theorem title_ne (index : Nat) : "title".toList ≠ titleOf index := by
  have h1 : "title".toList = 't' :: "itle".toList := by decide +kernel
  have h2 : "Jump back to footnote ".toList = 'J' :: "ump back to footnote ".toList := by decide +kernel
  unfold titleOf
  rw [h1, h2]
  intro e
  simp only [List.cons_append, List.cons.injEq] at e
  exact absurd e.1 (by decide)

theorem href_ne_hash (X : Str) : "href".toList ≠ '#' :: X := by
  have h1 : "href".toList = 'h' :: "ref".toList := by decide +kernel
  rw [h1]
  intro e
  simp only [List.cons.injEq] at e
  exact absurd e.1 (by decide)

theorem id_ne_fn (X : Str) : "id".toList ≠ 'f' :: X := by
  have h1 : "id".toList = 'i' :: "d".toList := by decide +kernel
  rw [h1]
  intro e
  simp only [List.cons.injEq] at e
  exact absurd e.1 (by decide)

theorem serialize_refA (fmt : Ser.Fmt) (id num : Str) (h2 : WordFacts id) (h3 : ∀ c ∈ num, AttrCh c) :
    Ser.serialize fmt (⟨.name "a".toList,
      [("href".toList, '#' :: Footnotes.footnoteId id), ("class".toList, "footnote-ref".toList)], some num, false, [], none,
      false⟩ : Node) = "<a class=\"footnote-ref\" href=\"#fn:".toList ++ id ++ "\">".toList ++ num ++ "</a>".toList := by
  have v2 : Ser.escAttrHtml ('#' :: Footnotes.footnoteId id) = '#' :: Footnotes.footnoteId id :=
    escAttr_of_attrCh (attrCh_cons (Or.inr (Or.inr (Or.inl rfl))) (attrCh_fnId id h2))
  rw [serialize_elA fmt "a".toList [("href".toList, '#' :: Footnotes.footnoteId id), ("class".toList, "footnote-ref".toList)]
    [("class".toList, "footnote-ref".toList), ("href".toList, '#' :: Footnotes.footnoteId id)]
    _ _ _ _ _ (by simp [Ser.sortAttrs, Ser.insAttr, Ser.strLt]) et_a.1 et_a.2
    (by
      intro kv hkv
      simp only [List.mem_cons, List.mem_nil_iff, or_false] at hkv
      rcases hkv with rfl | rfl
      · exact ⟨kv_class_ref, ea_ref⟩
      · exact ⟨href_ne_hash _, v2⟩)]
  rw [ifText_some num (escCdata_of_attrCh h3), ifText_none]
  unfold Footnotes.footnoteId
  simp only [attrStr, Ser.serializeList]
  simp only [String.reduceToList]
  simp only [List.cons_append, List.append_assoc, List.nil_append, List.append_nil]

theorem serialize_supT (fmt : Ser.Fmt) (refId id num : Str) (tail : Option Str) (tla : Bool)
    (h1 : ∀ c ∈ refId, AttrCh c) (h2 : WordFacts id) (h3 : ∀ c ∈ num, AttrCh c) (hne : "id".toList ≠ refId) :
    Ser.serialize fmt (⟨.name "sup".toList, [("id".toList, refId)], none, false,
      [⟨.name "a".toList, [("href".toList, '#' :: Footnotes.footnoteId id), ("class".toList, "footnote-ref".toList)],
        some num, false, [], none, false⟩], tail, tla⟩ : Node) =
      supHtmlG refId id num ++ (if Node.truthy tail = true then Ser.escCdata (tail.getD []) else []) := by
  rw [serialize_elA fmt "sup".toList [("id".toList, refId)] [("id".toList, refId)] _ _ _ _ _ (by simp [Ser.sortAttrs, Ser.insAttr])
    et_sup.1 et_sup.2 (by intro kv hkv; simp at hkv; subst hkv; exact ⟨hne, escAttr_of_attrCh h1⟩)]
  rw [ifText_none]
  simp only [Ser.serializeList, serialize_refA fmt id num h2 h3]
  generalize (if Node.truthy tail = true then Ser.escCdata (tail.getD []) else []) = T
  unfold supHtmlG
  simp only [attrStr]
  simp only [String.reduceToList]
  simp only [List.cons_append, List.append_assoc, List.nil_append, List.append_nil]

theorem serialize_sup (fmt : Ser.Fmt) (refId id num u : Str) (h1 : ∀ c ∈ refId, AttrCh c) (h2 : WordFacts id)
    (h3 : ∀ c ∈ num, AttrCh c) (h4 : ∀ c ∈ u, AttrCh c) (hne : "id".toList ≠ refId) :
    Ser.serialize fmt (withTail (supG refId id num) u) = supHtmlG refId id num ++ u := by
  unfold withTail
  split
  · rename_i hu
    have : u = [] := by simpa using hu
    subst this
    rw [show supG refId id num = ⟨.name "sup".toList, [("id".toList, refId)], none, false,
      [⟨.name "a".toList, [("href".toList, '#' :: Footnotes.footnoteId id), ("class".toList, "footnote-ref".toList)],
        some num, false, [], none, false⟩], none, false⟩ from rfl, serialize_supT fmt refId id num none false h1 h2 h3 hne,
      ifText_none]
  · rw [show ({ supG refId id num with tail := some u, tailAtomic := false } : Node) =
      ⟨.name "sup".toList, [("id".toList, refId)], none, false,
      [⟨.name "a".toList, [("href".toList, '#' :: Footnotes.footnoteId id), ("class".toList, "footnote-ref".toList)],
        some num, false, [], none, false⟩], some u, false⟩ from rfl, serialize_supT fmt refId id num (some u) false h1 h2 h3 hne,
      ifText_some u (escCdata_of_attrCh h4)]

theorem serializeList_sups (fmt : Ser.Fmt) (keys : List Str) : ∀ (segs : List (Str × Str)) (hist : List Str),
    SegsOK segs → Ser.serializeList fmt (supKids (refItemsE keys segs hist)) = refsHtml keys segs hist := by
  intro segs
  induction segs with
  | nil => intro hist _; rfl
  | cons s r ih =>
    intro hist hs
    have hid := hs.ids s List.mem_cons_self
    have := ih (s.1 :: hist) hs.tail
    simp only [supKids] at this
    simp only [refItemsE, supKids, List.map_cons, Ser.serializeList, refsHtml, this]
    rw [serialize_sup fmt _ _ _ _ (attrCh_refName s.1 hid _) hid (attrCh_digits _)
      (fun c hc => Or.inl (hs.tails s List.mem_cons_self c hc)) (id_ne_refName _ _)]

theorem serialize_back (fmt : Ser.Fmt) (index : Nat) (href : Str) (h : ∀ c ∈ href, AttrCh c)
    (hne : "href".toList ≠ href) :
    Ser.serialize fmt (backN index href) = backHtml index FootnotesTree.fnBacklinkText href := by
  unfold backN
  rw [serialize_elA fmt "a".toList
    [("href".toList, href), ("class".toList, "footnote-backref".toList), ("title".toList, titleOf index)]
    [("class".toList, "footnote-backref".toList), ("href".toList, href), ("title".toList, titleOf index)]
    _ _ _ _ _ (by simp [Ser.sortAttrs, Ser.insAttr, Ser.strLt]) et_a.1 et_a.2
    (by
      intro kv hkv
      simp only [List.mem_cons, List.mem_nil_iff, or_false] at hkv
      rcases hkv with rfl | rfl | rfl
      · exact ⟨kv_class_backref, ea_backref⟩
      · exact ⟨hne, escAttr_of_attrCh h⟩
      · exact ⟨title_ne index, escAttr_of_attrCh (attrCh_title index)⟩)]
  rw [ifText_some _ ec_bl, ifText_none]
  unfold backHtml backPre lA1 lA2 lA3 lA4
  generalize FootnotesTree.fnBacklinkText = BL
  generalize titleOf index = TT
  simp only [attrStr, Ser.serializeList]
  simp only [String.reduceToList]
  simp only [List.cons_append, List.append_assoc, List.nil_append, List.append_nil]

theorem href_ne_back (id : Str) (c : Nat) : ∀ h ∈ backHrefs id c, "href".toList ≠ h := by
  intro h hh
  simp only [backHrefs, List.mem_cons, List.mem_map] at hh
  rcases hh with rfl | ⟨i, _, rfl⟩
  · exact href_ne_hash _
  · exact href_ne_hash _

theorem serializeList_backs (fmt : Ser.Fmt) (index : Nat) : ∀ (hs : List Str), (∀ h ∈ hs, ∀ c ∈ h, AttrCh c) →
    (∀ h ∈ hs, "href".toList ≠ h) →
    Ser.serializeList fmt (hs.map (backN index)) = backsHtml index FootnotesTree.fnBacklinkText hs := by
  intro hs
  induction hs with
  | nil => intro _ _; rfl
  | cons h r ih =>
    intro h1 h2
    simp only [List.map_cons, Ser.serializeList, backsHtml,
      serialize_back fmt index h (h1 h List.mem_cons_self) (h2 h List.mem_cons_self),
      ih (fun x hx => h1 x (List.mem_cons_of_mem _ hx)) (fun x hx => h2 x (List.mem_cons_of_mem _ hx))]

theorem serialize_li (fmt : Ser.Fmt) (id note : Str) (index c : Nat) (hid : WordFacts id) (hn : PlainFacts note) :
    Ser.serialize fmt (liFin id note index c) =
      liHtml id note index c FootnotesTree.nbspPlaceholder FootnotesTree.fnBacklinkText := by
  have enote : Ser.escCdata (note ++ FootnotesTree.nbspPlaceholder) = note ++ FootnotesTree.nbspPlaceholder := by
    apply CodeLaw.escCdata_plain
    intro c hc
    rcases List.mem_append.1 hc with h | h
    · exact hn.noMarkup c h
    · exact nbsp_markup c h
  unfold liFin
  rw [serialize_elA fmt "li".toList [("id".toList, Footnotes.footnoteId id)] [("id".toList, Footnotes.footnoteId id)] _ _ _ _ _
    (by simp [Ser.sortAttrs, Ser.insAttr])
    et_li.1 et_li.2 (by intro kv hkv; simp at hkv; subst hkv; exact ⟨id_ne_fn _, escAttr_of_attrCh (attrCh_fnId id hid)⟩)]
  simp only [Ser.serializeList]
  rw [CodeLaw.serialize_plain fmt _ _ _ _ _ _ et_p.1 et_p.2,
    serializeList_backs fmt index _ (attrCh_backHrefs id hid c) (href_ne_back id c)]
  simp only [ifText_some _ enote, ifText_some _ ec_nl]
  unfold liHtml liPre lL1 lL2 lL3 Footnotes.footnoteId
  generalize backsHtml index FootnotesTree.fnBacklinkText (backHrefs id c) = BK
  generalize FootnotesTree.nbspPlaceholder = NB
  simp only [attrStr]
  simp only [String.reduceToList]
  simp only [List.cons_append, List.append_assoc, List.nil_append, List.append_nil]

theorem serializeList_lis (fmt : Ser.Fmt) (cnt : Str → Nat) : ∀ (defs : List (Str × Str)) (i : Nat), DefsOK defs →
    Ser.serializeList fmt (lisFin cnt defs i) =
      lisHtml cnt FootnotesTree.nbspPlaceholder FootnotesTree.fnBacklinkText defs i := by
  intro defs
  induction defs with
  | nil => intro i _; rfl
  | cons d r ih =>
    intro i hd
    simp only [lisFin, Ser.serializeList, lisHtml, serialize_li fmt d.1 d.2 i (cnt d.1) (hd.ids d List.mem_cons_self)
      (hd.notes d List.mem_cons_self), ih (i + 1) hd.tail]

theorem serialize_hrG (fmt : Ser.Fmt) :
    Ser.serialize fmt (⟨.name "hr".toList, [], none, false, [], some ['\n'], false⟩ : Node) = hrTag fmt ++ ['\n'] :=
  serialize_hr fmt

theorem serialize_fnG (fmt : Ser.Fmt) (t : Str) (sups lis : List Node) (ht : PlainFacts t) :
    Ser.serialize fmt (fnFinG t sups lis) =
      "<div>".toList ++ ('\n' :: fnOutG fmt t (Ser.serializeList fmt sups) (Ser.serializeList fmt lis) ++ ['\n']) ++
        "</div>\n".toList := by
  have et : Ser.escCdata t = t := CodeLaw.escCdata_plain _ ht.noMarkup
  unfold fnFinG
  rw [CodeLaw.serialize_plain fmt _ _ _ _ _ _ et_div.1 et_div.2]
  simp only [Ser.serializeList]
  rw [CodeLaw.serialize_plain fmt _ _ _ _ _ _ et_p.1 et_p.2]
  rw [serialize_elA fmt "div".toList [("class".toList, "footnote".toList)] [("class".toList, "footnote".toList)] _ _ _ _ _
    (by simp [Ser.sortAttrs, Ser.insAttr])
    et_div.1 et_div.2 (by intro kv hkv; simp at hkv; subst hkv; exact ⟨kv_class_footnote, ea_footnote⟩)]
  simp only [Ser.serializeList]
  rw [serialize_hrG fmt, CodeLaw.serialize_plain fmt _ _ _ _ _ _ et_ol.1 et_ol.2]
  simp only [ifText_some _ ec_nl, ifText_some _ et]
  unfold fnOutG docPre lD1 lD2 lD3 lD4
  generalize Ser.serializeList fmt sups = S1
  generalize Ser.serializeList fmt lis = S2
  generalize hrTag fmt = HR
  simp only [attrStr]
  simp only [String.reduceToList]
  simp only [List.cons_append, List.append_assoc, List.nil_append, List.append_nil]

end MdVerif.RenderG
