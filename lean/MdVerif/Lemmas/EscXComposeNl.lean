/-
Helper lemmas for `Props/C07X.lean`: the stages of `PipelineX.convertX` composed on a fully escaped text WITH line
feeds when `nl2br` is on (every line feed becomes `<br />` + line feed).  Core Lean only.
-/
import MdVerif.Lemmas.EscXCompose
import MdVerif.Lemmas.EscXNlTree

namespace MdVerif.EscX
open Py Escape PipelineX Pipeline

theorem treeX_escaped_nl (x : Exts) (cfg : Cfg) (htab : cfg.tab > 0)
    (hbl : cfg.blockLevel = TreeProc.defaultBlockLevel) (hnl : '\n' ∉ escX x cfg) (hsp : ' ' ∉ escX x cfg)
    (m0 : '\\' ∈ escX x cfg) (mt : '`' ∈ escX x cfg) (m1 : '#' ∈ escX x cfg) (m2 : '-' ∈ escX x cfg)
    (m3 : '_' ∈ escX x cfg) (m4 : '*' ∈ escX x cfg) (m5 : '+' ∈ escX x cfg) (m6 : '.' ∈ escX x cfg)
    (m7 : '>' ∈ escX x cfg) (m8 : '[' ∈ escX x cfg) (m9 : '!' ∈ escX x cfg) (mb : '{' ∈ escX x cfg)
    (t : Str) (h : EscDomainFull t = true)
    (hf : x.fencedCode = true → noTildeFence t = true)
    (hdl : x.defList = true → defFreeNl t = true)
    (hnb : x.nl2br = true) (hink : nlInk t = true) :
    treeX x cfg (escAll (escX x cfg) t) = .ok (prettyDocNl id t) [] := by
  obtain ⟨hd, hne, hlt, hamp, hstx, hbr⟩ := domainFull_facts t h
  have hdom := hd
  simp only [EscDomain, Bool.and_eq_true] at hdom
  have hv : startsVisible t = true := hdom.1.2
  have h3 := prepareX_escaped x cfg (escX x cfg) hnl mt m9 t hd hamp hf
  have h4 := blockXT_single_paragraph hnl hsp m0 mt m1 m2 m3 m4 m5 m6 m7 m8 m9 x.tables
    (fun ht => pipe_mem_escX ht) x.blockCfg cfg.tab htab t (blockDomain_of_domain t hd) hdl
  have h5 := runX_paragraph_nl x.footnotes x.wikilinks { esc := escX x cfg, refs := (refsX x []).reverse }
    ((BlockExt.footnotesOf []).map (·.1)) t hv hnl m0 mt m8 m9 m4 m3 hamp hbr hstx
  dsimp only at h5
  have h6 := unescapeTree_prettyDocNl (escX x cfg) t hv hstx
  have hal := attrList_prettyDocNl (coded (escX x cfg)) (fun s => brace_not_mem_coded mb s) t
  have htoc := fun env => toc_prettyDocNl env TreeProc.defaultBlockLevel (coded (escX x cfg)) t
    (strip_coded_ne_marker m8 _)
  have hmk := makeDiv_nil (parseChunkX x cfg) fnCount
  have hdup := fun fn => duplicates_paragraph_nl fn (escX x cfg) t
  have hab := fun n => abbr_nil n
  have hpr := prettify_paragraph_nl (escX x cfg) t hink
  simp only [treeX, h3, h4, hnb]
  cases hfn : x.footnotes <;> cases hat : x.attrList <;> cases hb : x.abbr <;> cases htc : x.toc <;>
    rw [hfn] at h5 <;>
    simp only [if_true, if_false, Bool.false_eq_true, hmk, h5, hdup, hbl, hpr,
      hal, hab, htoc, h6]

/-- **`Markdown.convert` with `nl2br`** (and any other extensions) on a fully escaped text of the domain -/
theorem convertX_escaped_nl (x : Exts) (cfg : Cfg) (htab : cfg.tab > 0)
    (hbl : cfg.blockLevel = TreeProc.defaultBlockLevel) (hnl : '\n' ∉ escX x cfg) (hsp : ' ' ∉ escX x cfg)
    (m0 : '\\' ∈ escX x cfg) (mt : '`' ∈ escX x cfg) (m1 : '#' ∈ escX x cfg) (m2 : '-' ∈ escX x cfg)
    (m3 : '_' ∈ escX x cfg) (m4 : '*' ∈ escX x cfg) (m5 : '+' ∈ escX x cfg) (m6 : '.' ∈ escX x cfg)
    (m7 : '>' ∈ escX x cfg) (m8 : '[' ∈ escX x cfg) (m9 : '!' ∈ escX x cfg) (mb : '{' ∈ escX x cfg)
    (t : Str) (h : EscDomainFull t = true)
    (hf : x.fencedCode = true → noTildeFence t = true)
    (hdl : x.defList = true → defFreeNl t = true)
    (hnb : x.nl2br = true) (hink : nlInk t = true) :
    convertX x cfg (escAll (escX x cfg) t) =
      .ok ("<p>".toList ++ brText (brTag cfg.fmt) (Ser.escCdata t) ++ "</p>".toList) := by
  obtain ⟨hd, hne, hlt, hamp, hstx, hbr⟩ := domainFull_facts t h
  have hdom := hd
  simp only [EscDomain, Bool.and_eq_true] at hdom
  have h1 : (escAll (escX x cfg) t).contains '<' = false := by
    cases hc : (escAll (escX x cfg) t).contains '<' with
    | false => rfl
    | true =>
      rcases mem_escAll (List.contains_iff_mem.1 hc) with e | hm
      · exact absurd e (by decide)
      · exact absurd hm hlt
  have hvis := startsVisible_escAll (esc := escX x cfg) t hdom.1.2
  have h2 : Normalize.isBlankDoc (escAll (escX x cfg) t) = false := by
    rw [Normalize.isBlankDoc_eq_all]
    exact isBlank_of_visible hvis
  have h3 := treeX_escaped_nl x cfg htab hbl hnl hsp m0 mt m1 m2 m3 m4 m5 m6 m7 m8 m9 mb t h hf hdl hnb hink
  simp only [convertX, h1, h2, Exts.unsupported, Bool.false_eq_true, if_false, h3,
    serialize_prettyDocNl cfg.fmt t hdom.1.2 hamp]
  apply finishX_general
  apply stx_not_mem_brText
  · unfold brTag; split <;> decide
  · rw [Ser.onepass_cdata']; exact stx_not_mem_esc1 _ _ t hstx

end MdVerif.EscX
