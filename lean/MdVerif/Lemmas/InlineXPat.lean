/-
The hypothesis `PatOk` of `Lemmas/InlineXNodes.lean` for the pattern table of `Model/InlineX.lean`: the sixteen core
patterns create elements of the inline vocabulary only (`Vocab2.findMatch_ok` of `Lemmas/InlineVocab.lean`), the
footnote pattern the `sup` of `fnRefNode`, the wikilink pattern the `a` of `wikiNode`, nl2br a `br`.  Core Lean only.
-/
import MdVerif.Lemmas.InlineXNodes
import MdVerif.Lemmas.InlineVocab
import MdVerif.Lemmas.FnTreeDoc

namespace MdVerif.InlineXNodes
open MdVerif.Py MdVerif.Inline MdVerif.InlineX MdVerif.Vocab2
open MdVerif.BlockExt (NI NI_iff allNodes allKids)

variable {qt : Tag → List (Str × Str) → Bool}

mutual
theorem good_NI {ts : List String}
    (hq : ∀ t attrs, hasTag ts t = true → attrsOk attrs = true → qt (.name t) attrs = true) :
    (n : Node) → GoodT ts n = true → NI qt n
  | ⟨tag, attrs, text, ta, children, tail, tla⟩, h => by
    simp only [GoodT, Bool.and_eq_true] at h
    unfold NI
    simp only [allNodes, Bool.and_eq_true]
    refine ⟨?_, goodList_NI hq children h.2⟩
    cases tag with
    | name t =>
      simp only [nodeOk, Bool.and_eq_true] at h
      exact hq t attrs h.1.1.1 h.1.1.2
    | _ => simp [nodeOk] at h
theorem goodList_NI {ts : List String}
    (hq : ∀ t attrs, hasTag ts t = true → attrsOk attrs = true → qt (.name t) attrs = true) :
    (l : List Node) → GoodListT ts l = true → allKids qt l = true
  | [], _ => rfl
  | c :: r, h => by
    simp only [GoodListT, Bool.and_eq_true] at h
    simp only [allKids, Bool.and_eq_true]
    exact ⟨good_NI hq c h.1, goodList_NI hq r h.2⟩
end

/-- `PatOk` for the table of `InlineX`: it is enough that `qt` accepts the inline vocabulary (tags `code em strong a
    img br`, attribute names `href title src alt`), the `sup` of a reference to a defined footnote, the `a` of a
    wikilink and `br` -/
theorem patOk_table (xc : XCfg)
    (hcore : ∀ t attrs, hasTag inlineTags t = true → attrsOk attrs = true → qt (.name t) attrs = true)
    (hfn : ∀ id ∈ xc.fnKeys, ∀ refId, NI qt (fnRefNode xc.fnKeys id refId))
    (hwiki : ∀ g n, wikiNode g = .el n → NI qt n)
    (hbr : NI qt (mkEl "br")) : PatOk qt xc := by
  intro k data si x f x' h
  cases k with
  | core i =>
    simp only [findX] at h
    split at h
    · cases h
    · rename_i f' st' hm
      simp only [Option.some.injEq, Prod.mk.injEq] at h
      obtain ⟨e1, e2⟩ := h; subst e1; subst e2
      cases f' with
      | none => exact ⟨findMatch_none_stash _ _ _ _ _ _ hm, by intro ff n e; cases e⟩
      | some ff =>
        have q := findMatch_ok _ _ _ _ _ _ _ hm
        refine ⟨q.1, ?_⟩
        intro ff' n e hn
        cases e
        exact good_NI hcore n (q.2 n hn).good
  | footnote =>
    cases f with
    | none =>
      simp only [findX] at h
      split at h
      · simp only [Option.some.injEq, Prod.mk.injEq] at h; rw [← h.2]; exact ⟨rfl, by intro ff n e; cases e⟩
      · split at h
        · simp at h
        · simp only [Option.some.injEq, Prod.mk.injEq] at h; rw [← h.2]; exact ⟨rfl, by intro ff n e; cases e⟩
    | some ff =>
      obtain ⟨id, hid, hnode, -, hst⟩ := FnTreeDoc.findX_footnote_spec xc data si x x' ff h
      refine ⟨by rw [hst], ?_⟩
      intro ff' n e hn
      cases e
      rw [hnode] at hn
      cases hn
      exact hfn id hid _
  | wikilink =>
    simp only [findX] at h
    split at h
    · simp only [Option.some.injEq, Prod.mk.injEq] at h; rw [← h.1, ← h.2]; exact ⟨rfl, by intro ff n e; cases e⟩
    · split at h
      · rename_i g s e hs
        simp only [Option.some.injEq, Prod.mk.injEq] at h
        rw [← h.1, ← h.2]
        refine ⟨rfl, ?_⟩
        intro ff n e hn
        cases e
        exact hwiki g n hn
      · simp only [Option.some.injEq, Prod.mk.injEq] at h; rw [← h.1, ← h.2]; exact ⟨rfl, by intro ff n e; cases e⟩
  | nl =>
    simp only [findX] at h
    split at h
    · simp only [Option.some.injEq, Prod.mk.injEq] at h; rw [← h.1, ← h.2]; exact ⟨rfl, by intro ff n e; cases e⟩
    · split at h
      · simp only [Option.some.injEq, Prod.mk.injEq] at h
        rw [← h.1, ← h.2]
        refine ⟨rfl, ?_⟩
        intro ff n e hn
        cases e
        cases hn
        exact hbr
      · simp only [Option.some.injEq, Prod.mk.injEq] at h; rw [← h.1, ← h.2]; exact ⟨rfl, by intro ff n e; cases e⟩

end MdVerif.InlineXNodes
