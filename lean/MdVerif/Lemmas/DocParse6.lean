/-
Helper lemmas for C01 with inline images (`Props/C01i.lean`): the paragraph that is one line of words, escapes, code
spans, emphasised words and inline images `![alt](dest "title")` as a piece of a document (`Piece2` of
`Lemmas/DocParse2.lean`), from the pattern loop (`Lemmas/DocParse6Loop.lean`), the stages after it
(`Lemmas/DocParse6Back.lean`) and the printed form (`Lemmas/DocParse6Print.lean`); the blocks of `ImgDoc`; the
document.  Core Lean only.
-/
import MdVerif.Lemmas.DocParse6Loop
import MdVerif.Lemmas.DocParse6Back
import MdVerif.Lemmas.DocParse6Print

namespace MdVerif.DocImg
open Py Inline Escape DocSpec CodeLaw DocParse Block DocParse2 RefText DocLink

/-! ### the paragraph as a piece -/

def iPiece (g : List Str) (tg : Str) (C0 : Chunk) (is : List MUse) : Piece2 :=
  ⟨chunkB g { tag := .name tg, text := some (imgRaw ESC C0 is) }, iElem tg ESC C0 is, iElem tg ESC C0 is⟩

theorem imgsW_ne {ls : List ImgIt} {is : List MUse} (hL : ImgsW ls is) (hne : ls ≠ []) : is ≠ [] := by
  intro e
  have := imgsW_length ls is hL
  rw [e] at this
  cases ls with
  | nil => exact hne rfl
  | cons _ _ => simp at this

theorem iElem_ok' (tg : Str) (htg : tg ∈ ["p", "h1", "h2", "h3", "h4", "h5", "h6"].map String.toList) (A : List DocSpec.Inline) (ls : List ImgIt) (C0 : Chunk)
    (is : List MUse) (hW : ChunkW A C0) (hL : ImgsW ls is) (hne : ls ≠ []) (refs : List (Str × Str × Option Str)) :
    ElemOK { esc := ESC, refs := refs } (iElem tg ESC C0 is) := by
  have hus : ∀ u ∈ is, MUseOK ESC u := fun u hu => by
    obtain ⟨l, _, hw⟩ := imgsW_mem ls is hL u hu; exact museOK_of hw
  exact iElem_ok { esc := ESC, refs := refs } escOK_generated rbr_ESC tg htg C0 is hW.ok hus (imgsW_ne hL hne)
    (loopOK_imgs { esc := ESC, refs := refs } escOK_generated rbr_ESC C0 is hW.ok hus)

theorem iPara_ok (A : List DocSpec.Inline) (ls : List ImgIt) (C0 : Chunk) (is : List MUse) (hW : ChunkW A C0)
    (hL : ImgsW ls is) (hne : ls ≠ []) (hst : startsOk (joinImgs A ls) = true) (hlt : '<' ∉ imgRaw ESC C0 is)
    (i : Nat) (hi : i < 4) :
    Piece2OK {} (iPiece [spaces i ++ imgRaw ESC C0 is] "p".toList C0 is) := by
  obtain ⟨hch, hrefs, hstart, hol⟩ := img_line_facts A ls C0 is hW hL hne hst hlt
  have hnl : '\n' ∉ imgRaw ESC C0 is := fun hm => (hch _ hm).1 rfl
  obtain ⟨c0, tl, hX, hcs, _⟩ := hstart
  have hprod : Produces 4 (spaces i ++ imgRaw ESC C0 is)
      { tag := .name "p".toList, text := some (imgRaw ESC C0 is) } := by
    have := produces_para_multi i (by omega) [imgRaw ESC C0 is] (by simp)
      (fun l hl => by
        have : l = imgRaw ESC C0 is := by simpa using hl
        subst this; exact ⟨⟨c0, tl, hX, hcs, by assumption⟩, hnl⟩) (by rw [joinLines_single]; exact hol)
    rwa [joinLines_single] at this
  have hline : ∀ x ∈ spaces i ++ imgRaw ESC C0 is, DocParse2.okCh x := by
    intro x hx
    rcases List.mem_append.1 hx with hx | hx
    · exact (okCh_spaces i x hx).1
    · exact hch x hx
  have hc0 : c0 ∈ spaces i ++ imgRaw ESC C0 is := by rw [hX]; simp
  have hsafe := safe_of_okCh _ hline ⟨c0, hc0, by intro e; subst e; exact absurd hcs (by decide)⟩
  have hrefsL : refsClosed (spaces i ++ imgRaw ESC C0 is) = true :=
    refsClosed_noamp_append _ _ (fun hm => (okCh_spaces i _ hm).2 rfl) hrefs
  have hok := iElem_ok' "p".toList (by decide) A ls C0 is hW hL hne
  refine ⟨chunkB_ok 4 _ _ (by simp) ?_ ?_ ?_ ?_, ?_, ?_, rfl, rfl, hok, hok, rfl⟩
  · simp only [joinLines, join_singleton]
    apply nel_line _ _ (fun hm => by
      rcases List.mem_append.1 hm with hm | hm
      · exact absurd (List.eq_of_mem_replicate hm) (by decide)
      · exact hnl hm)
    rw [hX]; simp
  · simpa [joinLines] using hprod
  · simp [Node.el, isListTag, Node.isTag]
  · simp [Node.el, preCode, Node.isTag]
  · intro l hl
    have : l = spaces i ++ imgRaw ESC C0 is := by simpa [iPiece, chunkB] using hl
    subst this; exact ⟨hsafe.1, hsafe.2, hrefsL⟩
  · exact ⟨c0, by simpa [iPiece, chunkB, joinLines] using hc0, hcs⟩

/-! ### the paragraph, the blocks, the document -/

/-- **a paragraph with inline images** -/
theorem blockPrints_img (c : List DocSpec.Inline) (hp : imgRun c = true)
    (hw : wfInlines false .none true c = true) (hl : (imgSplit c).2 ≠ []) : BlockPrints (.para c) := by
  simp only [imgRun, Bool.and_eq_true, List.all_eq_true] at hp
  simp only [wfInlines, wfRun, Bool.and_eq_true] at hw
  obtain ⟨⟨⟨⟨hst, _⟩, hadj⟩, _⟩, hlist⟩ := hw
  obtain ⟨hitems, hnb⟩ := hp
  have hit : ∀ x ∈ c, ItemOKM x := fun x hx => itemOKM_of_wf x true (hitems x hx) (wfInlineList_mem hlist x hx)
  obtain ⟨hA, hls⟩ := split_factsM c hit hadj hnb
  intro st
  obtain ⟨s, st', extra, hpr, hd, hgood⟩ := printImgs_rel (imgSplit c).2 (imgSplit c).1 (draw st).2 hA hls
  rw [joinImgs_split] at hpr
  refine ⟨indentTop true (draw st).1 (splitC '\n' s), st', extra, ?_, by rw [hd, draw_defs], ?_⟩
  · rw [printBlock_para]; simp only [printContent, hpr]
  · intro hex hlt
    have hlts : '<' ∉ s := by
      intro hm
      have hj : '<' ∈ joinLines (splitC '\n' s) := by
        have := splitC_join '\n' s
        rw [joinLines, this]; exact hm
      rcases DocParse.mem_joinLines hj with e | ⟨l, hl', hc⟩
      · exact absurd e (by decide)
      · cases hsp : splitC '\n' s with
        | nil => rw [hsp] at hl'; cases hl'
        | cons a r =>
          rw [hsp] at hl'
          rcases List.mem_cons.1 hl' with rfl | hl'
          · exact hlt (rep ((draw st).1 % 4) ' ' ++ l) (by simp [indentTop, indentFirst, hsp]) (by simp [hc])
          · exact hlt l (by simp [indentTop, indentFirst, hsp, hl']) hc
    obtain ⟨C0, is, hs, hW, hL⟩ := hgood hex hlts
    have hs0 : s = imgRaw ESC C0 is := hs 0 0
    have hst' : startsOk (joinImgs (imgSplit c).1 (imgSplit c).2) = true := by rw [joinImgs_split]; exact hst
    have hltr : '<' ∉ imgRaw ESC C0 is := by rw [← hs0]; exact hlts
    obtain ⟨hch, _, _, _⟩ := img_line_facts _ _ C0 is hW hL hl hst' hltr
    have hnl : '\n' ∉ s := by rw [hs0]; exact fun hm => (hch _ hm).1 rfl
    refine ⟨iPiece [spaces ((draw st).1 % 4) ++ imgRaw ESC C0 is] "p".toList C0 is, ?_,
      iPara_ok _ _ C0 is hW hL hl hst' hltr _ (Nat.mod_lt _ (by omega)), ?_, rfl⟩
    · rw [splitC_noNl _ (notNl_of_not_mem hnl), hs0]
      simp [iPiece, chunkB, indentTop, indentFirst, rep, spaces]
    · have := imOut_spec _ _ hL _ _ hW
      rw [joinImgs_split] at this
      show iOut "p".toList C0 is = specBlock (.para c)
      rw [specBlock_para, ← this]
      simp only [iOut, S]
      rfl

theorem blockPrints_imgBlock (b : DocSpec.Block) (hf : isImgBlock b = true) (hw : wfBlock none b = true) :
    BlockPrints b := by
  cases b with
  | para c =>
    by_cases hlb : isLinkBlock (.para c) = true
    · exact blockPrints_linkBlock _ hlb hw
    · have hir : imgRun c = true := by
        simp only [isImgBlock, isLinkBlock, Bool.or_eq_true] at hf hlb
        rcases hf with hf | hf
        · exact absurd hf hlb
        · exact hf
      have hnbr : ¬ brRun c = true := fun h => hlb (by simp [isLinkBlock, h])
      by_cases hl : (imgSplit c).2 = []
      · exfalso
        apply hnbr
        have hno := noImgs_of_split c hl
        simp only [imgRun, Bool.and_eq_true, List.all_eq_true] at hir
        simp only [brRun, Bool.and_eq_true, List.all_eq_true]
        exact ⟨fun x hx => brItem_of_imgItem x (hir.1 x hx) (hno x hx), hir.2⟩
      · simp only [wfBlock] at hw
        exact blockPrints_img c hir hw hl
  | rule => exact blockPrints_linkBlock _ rfl hw
  | code ls => exact blockPrints_linkBlock _ hf hw
  | atx l c => exact blockPrints_linkBlock _ hf hw
  | setext l c => exact blockPrints_linkBlock _ hf hw
  | quote _ => simp [isImgBlock, isDeep2Block] at hf
  | ulist _ _ => simp [isImgBlock, isDeep2Block] at hf
  | olist _ _ => simp [isImgBlock, isDeep2Block] at hf

/-- the document from the blocks (as `DocLink.convert_linkDoc`) -/
theorem convert_of_blockPrints (d : Doc) (sp : Spelling) (hwf : WF d = true)
    (hB : ∀ b ∈ d, wfBlock none b = true → BlockPrints b) (hsp : DocSpec.inlineStyle d sp = true) :
    Pipeline.convert {} (print d sp) = .ok (spec d) := by
  simp only [WF, Bool.and_eq_true, Bool.not_eq_true', List.isEmpty_eq_false_iff] at hwf
  obtain ⟨⟨⟨hne, hnx⟩, hbl⟩, _⟩ := hwf
  obtain ⟨L, st', extra, hps, hdefs, hgood⟩ :=
    printBlocks_gen2 d hne (fun b hb => hB b hb (wfBlockList_mem hbl b hb)) hnx ⟨sp.choices, 1, []⟩
  simp only [DocSpec.inlineStyle, Bool.and_eq_true, List.all_eq_true, bne_iff_ne, ne_eq, hps,
    List.isEmpty_iff] at hsp
  obtain ⟨hlt, hde⟩ := hsp
  have hprint : print d sp = joinLines L := by
    simp only [print, hps]
    simp [hde, joinLines]
  have hex : extra = [] := by
    rw [hde] at hdefs
    simpa using hdefs.symm
  obtain ⟨ps, hL, hpsne, hoks, houts, hadj, _⟩ := hgood hex (fun l hl hm =>
    hlt '<' (by rw [hprint]; exact mem_joinLines_of_mem' hm hl) rfl)
  rw [hprint, hL, spec, ← houts]
  exact convert_pieces2 {} rfl rfl ps hpsne hoks hadj

/-- **C01 on documents with inline images** -/
theorem convert_imgDoc (d : Doc) (sp : Spelling) (hwf : WF d = true) (hs : DocSpec.ImgDoc d = true)
    (hsp : DocSpec.inlineStyle d sp = true) : Pipeline.convert {} (print d sp) = .ok (spec d) :=
  convert_of_blockPrints d sp hwf
    (fun b hb hw => blockPrints_imgBlock b (by
      have : ∀ b ∈ d, isImgBlock b = true := by simpa [DocSpec.ImgDoc, List.all_eq_true] using hs
      exact this b hb) hw) hsp

end MdVerif.DocImg
