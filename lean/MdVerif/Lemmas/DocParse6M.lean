/-
Helper lemmas for C01 with inline links AND inline images in one line (`Props/C01i.lean`, last part): the paragraph /
ATX heading / Setext heading as a piece of a document, from the pattern loop (`Lemmas/DocParse6MLoop.lean`), the stages
after it (`Lemmas/DocParse6MBack.lean`) and the printed form (`Lemmas/DocParse6MPrint.lean`); the blocks of `MixedDoc`;
the document.  Core Lean only.
-/
import MdVerif.Lemmas.DocParse6MLoop
import MdVerif.Lemmas.DocParse6MBack
import MdVerif.Lemmas.DocParse6MPrint
import MdVerif.Lemmas.DocParse6All

namespace MdVerif.DocMix
open Py Inline Escape DocSpec CodeLaw DocParse Block DocParse2 RefText DocLink DocImg DocLinkH

/-! ### the pieces -/

def gPiece (g : List Str) (tg : Str) (C0 : Chunk) (gs : List GUse) : Piece2 :=
  ⟨chunkB g { tag := .name tg, text := some (gRaw ESC C0 gs) }, gElem tg ESC C0 gs, gElem tg ESC C0 gs⟩

theorem gsW_ne {ls : List GIt} {gs : List GUse} (hL : GsW ls gs) (hne : ls ≠ []) : gs ≠ [] := by
  intro e
  have := gsW_length ls gs hL
  rw [e] at this
  cases ls with
  | nil => exact hne rfl
  | cons _ _ => simp at this

theorem gElem_ok' (tg : Str) (htg : tg ∈ ["p", "h1", "h2", "h3", "h4", "h5", "h6"].map String.toList)
    (A : List DocSpec.Inline) (ls : List GIt) (C0 : Chunk) (gs : List GUse) (hW : ChunkW A C0) (hL : GsW ls gs)
    (hne : ls ≠ []) (refs : List (Str × Str × Option Str)) :
    ElemOK { esc := ESC, refs := refs } (gElem tg ESC C0 gs) := by
  have hgs : ∀ g ∈ gs, GUseOK ESC g := fun g hg => by
    obtain ⟨l, _, hw⟩ := gsW_mem ls gs hL g hg; exact gUseOK_of hw
  exact gElem_ok { esc := ESC, refs := refs } escOK_generated rbr_ESC tg htg C0 gs hW.ok hgs (gVis_of hL)
    (gsW_ne hL hne) (loopOK_mixed { esc := ESC, refs := refs } escOK_generated rbr_ESC C0 gs hW.ok hgs)

theorem gPara_ok (A : List DocSpec.Inline) (ls : List GIt) (C0 : Chunk) (gs : List GUse) (hW : ChunkW A C0)
    (hL : GsW ls gs) (hne : ls ≠ []) (hst : startsOk (joinG A ls) = true)
    (hfirst : firstLinkOK (joinG A ls) = true) (hlt : '<' ∉ gRaw ESC C0 gs) (i : Nat) (hi : i < 4) :
    Piece2OK {} (gPiece [spaces i ++ gRaw ESC C0 gs] "p".toList C0 gs) := by
  obtain ⟨hch, hrefs, hstart, hol⟩ := g_line_facts A ls C0 gs hW hL hne hst hfirst hlt
  have hnl : '\n' ∉ gRaw ESC C0 gs := fun hm => (hch _ hm).1 rfl
  obtain ⟨c0, tl, hX, hcs⟩ : ∃ c0 tl, gRaw ESC C0 gs = c0 :: tl ∧ isSpace c0 = false := by
    rcases hstart with ⟨c0, tl, e, hcs, _⟩ | ⟨T, R, e, _⟩
    · exact ⟨c0, tl, e, hcs⟩
    · exact ⟨'[', _, e, by decide⟩
  have hprod : Produces 4 (spaces i ++ gRaw ESC C0 gs)
      { tag := .name "p".toList, text := some (gRaw ESC C0 gs) } := by
    rcases hstart with hs | ⟨T, R, e, hT⟩
    · have := produces_para_multi i (by omega) [gRaw ESC C0 gs] (by simp)
        (fun l hl => by
          have : l = gRaw ESC C0 gs := by simpa using hl
          subst this; exact ⟨hs, hnl⟩) (by rw [joinLines_single]; exact hol)
      rwa [joinLines_single] at this
    · rw [e] at hnl hol ⊢
      exact produces_para_bracket i (by omega) T R hT hnl hol
  have hline : ∀ x ∈ spaces i ++ gRaw ESC C0 gs, DocParse2.okCh x := by
    intro x hx
    rcases List.mem_append.1 hx with hx | hx
    · exact (okCh_spaces i x hx).1
    · exact hch x hx
  have hc0 : c0 ∈ spaces i ++ gRaw ESC C0 gs := by rw [hX]; simp
  have hsafe := safe_of_okCh _ hline ⟨c0, hc0, by intro e; subst e; exact absurd hcs (by decide)⟩
  have hrefsL : refsClosed (spaces i ++ gRaw ESC C0 gs) = true :=
    refsClosed_noamp_append _ _ (fun hm => (okCh_spaces i _ hm).2 rfl) hrefs
  have hok := gElem_ok' "p".toList (by decide) A ls C0 gs hW hL hne
  refine ⟨chunkB_ok 4 _ _ (by simp) ?_ ?_ ?_ ?_, ?_, ?_, rfl, rfl, hok, hok, rfl⟩
  · simp only [joinLines, join_singleton]
    apply nel_line _ _ (fun hm => by
      rcases List.mem_append.1 hm with hm | hm
      · exact absurd (List.eq_of_mem_replicate hm) (by decide)
      · exact hnl hm)
    rw [hX]; simp
  · simpa [joinLines] using hprod
  · simp [Node.el, isListTag, Node.isTag]
  · simp [Node.el, preCode, Node.isTag]
  · intro l hl
    have : l = spaces i ++ gRaw ESC C0 gs := by simpa [gPiece, chunkB] using hl
    subst this; exact ⟨hsafe.1, hsafe.2, hrefsL⟩
  · exact ⟨c0, by simpa [gPiece, chunkB, joinLines] using hc0, hcs⟩

/-- a Setext heading with inline links and images -/
theorem gSetext_ok (C0 : Chunk) (gs : List GUse) (hch : ∀ ch ∈ gRaw ESC C0 gs, DocParse2.okCh ch)
    (hrefs : refsClosed (gRaw ESC C0 gs) = true) (hraw : RawH (gRaw ESC C0 gs))
    (i : Nat) (hi : i < 4) (lv k : Nat) (hlv : lv = 1 ∨ lv = 2)
    (hok : ∀ refs, ElemOK { esc := ESC, refs := refs } (gElem ('h' :: natToDec lv) ESC C0 gs)) :
    Piece2OK {} (gPiece [spaces i ++ gRaw ESC C0 gs,
      List.replicate (k + 1) (if lv = 1 then '=' else '-')] ('h' :: natToDec lv) C0 gs) := by
  have hT := hTagOK lv (by omega) (by omega)
  have hprod := produces_setext_rawH 4 i hi _ hraw lv k hlv
  obtain ⟨c0, tl, hX, hcs, _⟩ := hraw.shape
  have hnl := hraw.nl
  generalize hu : (if lv = 1 then '=' else '-') = ch at *
  have hch2 : ch = '=' ∨ ch = '-' := by rw [← hu]; split <;> simp
  have hunl : '\n' ∉ List.replicate (k + 1) ch := by
    intro hm; have := List.eq_of_mem_replicate hm
    rcases hch2 with h' | h' <;> rw [h'] at this <;> exact absurd this (by decide)
  have hjoin : joinLines [spaces i ++ gRaw ESC C0 gs, List.replicate (k + 1) ch] =
      spaces i ++ gRaw ESC C0 gs ++ '\n' :: List.replicate (k + 1) ch := by
    simp [joinLines, join]
  have hline : ∀ x ∈ spaces i ++ gRaw ESC C0 gs, DocParse2.okCh x := by
    intro x hx
    rcases List.mem_append.1 hx with hx | hx
    · exact (okCh_spaces i x hx).1
    · exact hch x hx
  have hc0 : c0 ∈ spaces i ++ gRaw ESC C0 gs := by rw [hX]; simp
  have hsafe := safe_of_okCh _ hline ⟨c0, hc0, by intro e; subst e; exact absurd hcs (by decide)⟩
  have hrefsL : refsClosed (spaces i ++ gRaw ESC C0 gs) = true :=
    refsClosed_noamp_append _ _ (fun hm => (okCh_spaces i _ hm).2 rfl) hrefs
  have hl1nl : '\n' ∉ spaces i ++ gRaw ESC C0 gs := fun hm => (hline _ hm).1 rfl
  have hlne : spaces i ++ gRaw ESC C0 gs ≠ [] := by
    intro e; rw [e] at hc0; simp at hc0
  refine ⟨chunkB_ok 4 _ _ (by simp) ?_ ?_ (hSrc_clean _ hT _).1 (hSrc_clean _ hT _).2, ?_, ?_, rfl, rfl, hok, hok, rfl⟩
  · rw [hjoin]
    exact nel_two_lines _ _ hlne (by simp [List.replicate_succ]) hl1nl hunl
  · rw [hjoin]; exact hprod
  · intro l hl
    simp only [gPiece, chunkB, List.mem_cons, List.not_mem_nil, or_false] at hl
    rcases hl with rfl | rfl
    · exact ⟨hsafe.1, hsafe.2, hrefsL⟩
    · have hall : ∀ x ∈ List.replicate (k + 1) ch, DocParse2.okCh x ∧ x ≠ '&' := by
        intro x hx; rw [List.eq_of_mem_replicate hx]
        rcases hch2 with h' | h' <;> rw [h'] <;>
          exact ⟨⟨by decide, by decide, by decide, by decide, by decide, by decide⟩, by decide⟩
      have := safe_of_okCh _ (fun x hx => (hall x hx).1)
        ⟨ch, by simp [List.replicate_succ], by rcases hch2 with h' | h' <;> rw [h'] <;> decide⟩
      exact ⟨this.1, this.2, refsClosed_of_no_amp _ (fun hm => (hall _ hm).2 rfl)⟩
  · refine ⟨c0, ?_, hcs⟩
    show c0 ∈ joinLines [spaces i ++ gRaw ESC C0 gs, List.replicate (k + 1) ch]
    rw [hjoin]; exact List.mem_append_left _ hc0

/-- an ATX heading with inline links and images -/
theorem gAtx_ok (C0 : Chunk) (gs : List GUse) (hch : ∀ ch ∈ gRaw ESC C0 gs, DocParse2.okCh ch)
    (hrefs : refsClosed (gRaw ESC C0 gs) = true) (hraw : RawH (gRaw ESC C0 gs))
    (lv : Nat) (h1 : 1 ≤ lv) (h6 : lv ≤ 6) (Y : Str) (hY : Y = [] ∨ ∃ m, Y = ' ' :: List.replicate m '#')
    (hok : ∀ refs, ElemOK { esc := ESC, refs := refs } (gElem ('h' :: natToDec lv) ESC C0 gs)) :
    Piece2OK {} (gPiece [List.replicate lv '#' ++ ' ' :: (gRaw ESC C0 gs ++ Y)] ('h' :: natToDec lv) C0 gs) := by
  have hT := hTagOK lv h1 h6
  have hprod := produces_atx_rawH 4 (by omega) _ hraw lv h1 h6 Y hY
  obtain ⟨c0, tl, hX, hcs, _⟩ := hraw.shape
  have hhash : DocParse2.okCh '#' ∧ ('#' : Char) ≠ '&' :=
    ⟨⟨by decide, by decide, by decide, by decide, by decide, by decide⟩, by decide⟩
  have hQ : ∀ x ∈ Y, DocParse2.okCh x ∧ x ≠ '&' := by
    intro x hx
    rcases hY with rfl | ⟨m, rfl⟩
    · simp at hx
    · rcases List.mem_cons.1 hx with hx | hx
      · rw [hx]; exact DocParse2.okCh_space
      · rw [List.eq_of_mem_replicate hx]; exact hhash
  have hline : ∀ x ∈ List.replicate lv '#' ++ ' ' :: (gRaw ESC C0 gs ++ Y), DocParse2.okCh x := by
    intro x hx
    simp only [List.mem_append, List.mem_cons] at hx
    rcases hx with hx | hx | hx | hx
    · rw [List.eq_of_mem_replicate hx]; exact hhash.1
    · rw [hx]; exact DocParse2.okCh_space.1
    · exact hch x hx
    · exact (hQ x hx).1
  have hc0 : c0 ∈ List.replicate lv '#' ++ ' ' :: (gRaw ESC C0 gs ++ Y) := by rw [hX]; simp
  have hsafe := safe_of_okCh _ hline ⟨c0, hc0, by intro e; subst e; exact absurd hcs (by decide)⟩
  have hrefsY : refsClosed (gRaw ESC C0 gs ++ Y) = true := by
    rcases hY with rfl | ⟨m, rfl⟩
    · simpa using hrefs
    · exact refsClosed_append _ ' ' _ (by decide) hrefs (refsClosed_of_no_amp _ (fun hm => by
        rcases List.mem_cons.1 hm with hm | hm
        · exact absurd hm (by decide)
        · exact absurd (List.eq_of_mem_replicate hm) (by decide)))
  have hrefsL : refsClosed (List.replicate lv '#' ++ ' ' :: (gRaw ESC C0 gs ++ Y)) = true := by
    have : List.replicate lv '#' ++ ' ' :: (gRaw ESC C0 gs ++ Y) =
        (List.replicate lv '#' ++ [' ']) ++ (gRaw ESC C0 gs ++ Y) := by simp
    rw [this]
    apply refsClosed_noamp_append _ _ _ hrefsY
    intro hm
    rcases List.mem_append.1 hm with hm | hm
    · exact absurd (List.eq_of_mem_replicate hm) (by decide)
    · simp at hm
  have hnl : '\n' ∉ List.replicate lv '#' ++ ' ' :: (gRaw ESC C0 gs ++ Y) := fun hm => (hline _ hm).1 rfl
  have hlne : List.replicate lv '#' ++ ' ' :: (gRaw ESC C0 gs ++ Y) ≠ [] := by simp
  refine ⟨chunkB_ok 4 _ _ (by simp) ?_ ?_ (hSrc_clean _ hT _).1 (hSrc_clean _ hT _).2, ?_, ?_, rfl, rfl, hok, hok, rfl⟩
  · simp only [joinLines, join_singleton]
    exact nel_line _ hlne hnl
  · simp only [joinLines, join_singleton]; exact hprod
  · intro l hl
    have : l = List.replicate lv '#' ++ ' ' :: (gRaw ESC C0 gs ++ Y) := by simpa [gPiece, chunkB] using hl
    subst this; exact ⟨hsafe.1, hsafe.2, hrefsL⟩
  · exact ⟨c0, by simpa [gPiece, chunkB, joinLines] using hc0, hcs⟩

/-! ### the content of a paragraph or heading -/

/-- what the printed content is, when no definition is added and no `<` is printed -/
structure GoodG (c : List DocSpec.Inline) (s : Str) (A : List DocSpec.Inline) (ls : List GIt) (C0 : Chunk)
    (gs : List GUse) : Prop where
  eq : s = gRaw ESC C0 gs
  join : joinG A ls = c
  ne : ls ≠ []
  W : ChunkW A C0
  L : GsW ls gs
  out : C0.out ++ gOutS gs = specInlines c

theorem content_g (c : List DocSpec.Inline) (brOk : Bool) (hitems : ∀ x ∈ c, isLinkImgItem x = true)
    (hnb : noBsBeforeCode c = true) (hadj : okAdjacents c = true) (hlist : wfInlineList false .none brOk c = true)
    (hl : (gSplit c).2 ≠ []) (st : PSt) :
    ∃ (s : Str) (st' : PSt) (extra : List Str), printInlines none true true c st = (s, st') ∧
      st'.defs = st.defs ++ extra ∧ (extra = [] → '<' ∉ s → ∃ A ls C0 gs, GoodG c s A ls C0 gs) := by
  have hit : ∀ x ∈ c, ItemOKG x := fun x hx => itemOKG_of_wf x brOk (hitems x hx) (wfInlineList_mem hlist x hx)
  obtain ⟨hA, hls⟩ := split_factsG c hit hadj hnb
  obtain ⟨s, st', extra, hpr, hd, hgood⟩ := printG_rel (gSplit c).2 (gSplit c).1 st hA hls
  rw [joinG_split] at hpr
  refine ⟨s, st', extra, hpr, hd, ?_⟩
  intro hex hlts
  obtain ⟨C0, gs, hs, hW, hL⟩ := hgood hex hlts
  have hout := gOut_spec _ _ hL _ _ hW
  rw [joinG_split] at hout
  exact ⟨(gSplit c).1, (gSplit c).2, C0, gs, hs 0 0, joinG_split c, hl, hW, hL, hout⟩

theorem gOut_specH (l : Nat) (c : List DocSpec.Inline) (C0 : Chunk) (gs : List GUse)
    (h : C0.out ++ gOutS gs = specInlines c) :
    gOut ('h' :: natToDec l) C0 gs =
      S "<h" ++ natToDec l ++ S ">" ++ specInlines c ++ S "</h" ++ natToDec l ++ S ">" := by
  rw [← h]
  have e1 : S "<h" = ['<', 'h'] := by decide
  have e2 : S ">" = ['>'] := by decide
  have e3 : S "</h" = ['<', '/', 'h'] := by decide
  rw [e1, e2, e3]
  simp [gOut, List.append_assoc]

/-! ### the blocks -/

/-- **a paragraph with inline links and images** -/
theorem blockPrints_mixedPara (c : List DocSpec.Inline) (hp : mixedRun c = true)
    (hw : wfInlines false .none true c = true) (hl : (gSplit c).2 ≠ []) : BlockPrints (.para c) := by
  simp only [mixedRun, Bool.and_eq_true, List.all_eq_true] at hp
  simp only [wfInlines, wfRun, Bool.and_eq_true] at hw
  obtain ⟨⟨⟨⟨hst, _⟩, hadj⟩, _⟩, hlist⟩ := hw
  obtain ⟨⟨hitems, hnb⟩, hfirst⟩ := hp
  intro st
  obtain ⟨s, st', extra, hpr, hd, hgood⟩ := content_g c true hitems hnb hadj hlist hl (draw st).2
  refine ⟨indentTop true (draw st).1 (splitC '\n' s), st', extra, ?_, by rw [hd, draw_defs], ?_⟩
  · rw [printBlock_para]; simp only [printContent, hpr]
  · intro hex hlt
    have hlts : '<' ∉ s := by
      intro hm
      obtain ⟨x, hx, hc⟩ := lt_of_join hm
      cases hsp : splitC '\n' s with
      | nil => rw [hsp] at hx; cases hx
      | cons a r =>
        rw [hsp] at hx
        rcases List.mem_cons.1 hx with rfl | hx
        · exact hlt (rep ((draw st).1 % 4) ' ' ++ x) (by simp [indentTop, indentFirst, hsp]) (by simp [hc])
        · exact hlt x (by simp [indentTop, indentFirst, hsp, hx]) hc
    obtain ⟨A, ls, C0, gs, hG⟩ := hgood hex hlts
    have hst' : startsOk (joinG A ls) = true := by rw [hG.join]; exact hst
    have hfirst' : firstLinkOK (joinG A ls) = true := by rw [hG.join]; exact hfirst
    have hltr : '<' ∉ gRaw ESC C0 gs := by rw [← hG.eq]; exact hlts
    obtain ⟨hch, _, _, _⟩ := g_line_facts _ _ C0 gs hG.W hG.L hG.ne hst' hfirst' hltr
    have hnl : '\n' ∉ s := by rw [hG.eq]; exact fun hm => (hch _ hm).1 rfl
    refine ⟨gPiece [spaces ((draw st).1 % 4) ++ gRaw ESC C0 gs] "p".toList C0 gs, ?_,
      gPara_ok _ _ C0 gs hG.W hG.L hG.ne hst' hfirst' hltr _ (Nat.mod_lt _ (by omega)), ?_, rfl⟩
    · rw [splitC_noNl _ (notNl_of_not_mem hnl), hG.eq]
      simp [gPiece, chunkB, indentTop, indentFirst, rep, spaces]
    · show gOut "p".toList C0 gs = specBlock (.para c)
      rw [specBlock_para, ← hG.out]
      simp only [gOut, S]
      rfl

/-- what the heading lemmas need of the printed content -/
theorem head_facts {c : List DocSpec.Inline} {s : Str} {A : List DocSpec.Inline} {ls : List GIt} {C0 : Chunk}
    {gs : List GUse} (hG : GoodG c s A ls C0 gs) (hst : startsOk c = true) (hen : endsOk c = true)
    (hlts : '<' ∉ s) :
    (∀ ch ∈ gRaw ESC C0 gs, DocParse2.okCh ch) ∧ refsClosed (gRaw ESC C0 gs) = true ∧ RawH (gRaw ESC C0 gs) := by
  have hst' : startsOk (joinG A ls) = true := by rw [hG.join]; exact hst
  have hen' : endsOk (joinG A ls) = true := by rw [hG.join]; exact hen
  have hltr : '<' ∉ gRaw ESC C0 gs := by rw [← hG.eq]; exact hlts
  have hraw := g_rawH A ls C0 gs hG.W hG.L hG.ne hst' hen' hltr
  obtain ⟨g1, g2⟩ := g_chars ls gs hG.L 0 0
  have hltu : '<' ∉ gStage ESC 0 false 0 0 gs := fun hm => hltr (by simp [gRaw, hm])
  refine ⟨?_, hG.W.refs _ g2, hraw⟩
  intro ch hch
  rcases List.mem_append.1 hch with hch | hch
  · exact hG.W.chars ch hch
  · exact g1 hltu ch hch

/-- **an ATX heading with inline links and images** -/
theorem blockPrints_mixedAtx (l : Nat) (c : List DocSpec.Inline) (hp : mixedRunH c = true)
    (hw : wfBlock none (.atx l c) = true) (hl : (gSplit c).2 ≠ []) : BlockPrints (.atx l c) := by
  simp only [wfBlock, Bool.and_eq_true, decide_eq_true_eq] at hw
  simp only [mixedRunH, Bool.and_eq_true, List.all_eq_true] at hp
  have hwi := hw.2
  simp only [wfInlines, wfRun, Bool.and_eq_true] at hwi
  obtain ⟨⟨⟨⟨hst, hen⟩, hadj⟩, _⟩, hlist⟩ := hwi
  intro st
  obtain ⟨s, st', extra, hpr, hd, hgood⟩ := content_g c false hp.1 hp.2 hadj hlist hl (draw st).2
  have hjoin : join ['\n'] (splitC '\n' s) = s := splitC_join '\n' s
  refine ⟨[rep l '#' ++ [' '] ++ s ++ atxClosing (draw st).1 l], st', extra, ?_, by rw [hd, draw_defs], ?_⟩
  · rw [printBlock_atx]; simp only [printContent, hpr, atxLine, hjoin]
  · intro hex hlt
    have hlts : '<' ∉ s := fun hm =>
      hlt (rep l '#' ++ [' '] ++ s ++ atxClosing (draw st).1 l) List.mem_cons_self (by simp [hm])
    obtain ⟨A, ls, C0, gs, hG⟩ := hgood hex hlts
    obtain ⟨hch, hrefs, hraw⟩ := head_facts hG hst hen hlts
    have hY : atxClosing (draw st).1 l = [] ∨ ∃ m, atxClosing (draw st).1 l = ' ' :: List.replicate m '#' := by
      unfold atxClosing
      split
      · exact Or.inl rfl
      · split
        · exact Or.inr ⟨1, rfl⟩
        · exact Or.inr ⟨l, rfl⟩
    refine ⟨gPiece [List.replicate l '#' ++ ' ' :: (gRaw ESC C0 gs ++ atxClosing (draw st).1 l)]
        ('h' :: natToDec l) C0 gs, ?_,
      gAtx_ok C0 gs hch hrefs hraw l hw.1.1 hw.1.2 _ hY
        (gElem_ok' _ (tg_header l hw.1.1 hw.1.2) A ls C0 gs hG.W hG.L hG.ne), ?_, rfl⟩
    · rw [hG.eq]
      simp [gPiece, chunkB, rep, List.append_assoc]
    · show gOut ('h' :: natToDec l) C0 gs = specBlock (.atx l c)
      rw [specBlock_atx, gOut_specH l c C0 gs hG.out]

/-- **a Setext heading with inline links and images** -/
theorem blockPrints_mixedSetext (l : Nat) (c : List DocSpec.Inline) (hp : mixedRunH c = true)
    (hw : wfBlock none (.setext l c) = true) (hl : (gSplit c).2 ≠ []) : BlockPrints (.setext l c) := by
  simp only [wfBlock, Bool.and_eq_true, Bool.or_eq_true, decide_eq_true_eq] at hw
  simp only [mixedRunH, Bool.and_eq_true, List.all_eq_true] at hp
  have hwi := hw.2
  simp only [wfInlines, wfRun, Bool.and_eq_true] at hwi
  obtain ⟨⟨⟨⟨hst, hen⟩, hadj⟩, _⟩, hlist⟩ := hwi
  intro st
  obtain ⟨s, st', extra, hpr, hd, hgood⟩ := content_g c false hp.1 hp.2 hadj hlist hl (draw (draw st).2).2
  refine ⟨indentTop true (draw st).1 (splitC '\n' s) ++ [setextUnderline l (draw (draw st).2).1], st', extra, ?_,
    by rw [hd]; simp [draw_defs], ?_⟩
  · rw [printBlock_setext]; simp only [printContent, hpr]
  · intro hex hlt
    have hlts : '<' ∉ s := by
      intro hm
      obtain ⟨x, hx, hc⟩ := lt_of_join hm
      cases hsp : splitC '\n' s with
      | nil => rw [hsp] at hx; cases hx
      | cons a r =>
        rw [hsp] at hx
        rcases List.mem_cons.1 hx with rfl | hx
        · exact hlt (rep ((draw st).1 % 4) ' ' ++ x) (by simp [indentTop, indentFirst, hsp]) (by simp [hc])
        · exact hlt x (by simp [indentTop, indentFirst, hsp, hx]) hc
    obtain ⟨A, ls, C0, gs, hG⟩ := hgood hex hlts
    obtain ⟨hch, hrefs, hraw⟩ := head_facts hG hst hen hlts
    have hnl : '\n' ∉ s := by rw [hG.eq]; exact hraw.nl
    have h16 : 1 ≤ l ∧ l ≤ 6 := by rcases hw.1 with h | h <;> omega
    refine ⟨gPiece [spaces ((draw st).1 % 4) ++ gRaw ESC C0 gs,
          List.replicate ((draw (draw st).2).1 % 8 + 1) (if l = 1 then '=' else '-')] ('h' :: natToDec l) C0 gs, ?_,
      gSetext_ok C0 gs hch hrefs hraw _ (Nat.mod_lt _ (by omega)) l _ hw.1
        (gElem_ok' _ (tg_header l h16.1 h16.2) A ls C0 gs hG.W hG.L hG.ne), ?_, rfl⟩
    · rw [splitC_noNl _ (notNl_of_not_mem hnl), hG.eq]
      simp [gPiece, chunkB, indentTop, indentFirst, rep, spaces, setextUnderline]
    · show gOut ('h' :: natToDec l) C0 gs = specBlock (.setext l c)
      rw [specBlock_setext, gOut_specH l c C0 gs hG.out]

theorem brRun_of_noUses (c : List DocSpec.Inline) (hi : ∀ x ∈ c, isLinkImgItem x = true)
    (hnb : noBsBeforeCode c = true) (hl : (gSplit c).2 = []) : brRun c = true := by
  have hno := noUses_of_split c hl
  simp only [brRun, Bool.and_eq_true, List.all_eq_true]
  exact ⟨fun x hx => brItem_of_gItem x (hi x hx) (hno x hx), hnb⟩

theorem deep2Run_of_noUses (c : List DocSpec.Inline) (hi : ∀ x ∈ c, isLinkImgItem x = true)
    (hnb : noBsBeforeCode c = true) (hl : (gSplit c).2 = []) : deep2Run c = true := by
  have hno := noUses_of_split c hl
  simp only [deep2Run, Bool.and_eq_true, List.all_eq_true]
  refine ⟨fun x hx => ?_, hnb⟩
  have hb := brItem_of_gItem x (hi x hx) (hno x hx)
  have hx' := hi x hx
  cases x with
  | br => simp [isLinkImgItem, isMixItem] at hx'
  | _ => exact hb

theorem blockPrints_mixedBlock (b : DocSpec.Block) (hf : isMixedBlock b = true) (hw : wfBlock none b = true) :
    BlockPrints b := by
  cases b with
  | para c =>
    simp only [isMixedBlock, Bool.or_eq_true] at hf
    by_cases hbr : brRun c = true
    · exact blockPrints_of _ (fun st => printBlock_br (.para c) hbr hw st)
    · have hmr : mixedRun c = true := by
        rcases hf with h | h
        · exact absurd h hbr
        · exact h
      have hmr' := hmr
      simp only [mixedRun, Bool.and_eq_true, List.all_eq_true] at hmr'
      by_cases hl : (gSplit c).2 = []
      · exact absurd (brRun_of_noUses c hmr'.1.1 hmr'.1.2 hl) hbr
      · simp only [wfBlock] at hw
        exact blockPrints_mixedPara c hmr hw hl
  | rule => exact blockPrints_of _ (fun st => printBlock_br .rule rfl hw st)
  | code ls => exact blockPrints_of _ (fun st => printBlock_br (.code ls) hf hw st)
  | atx l c =>
    simp only [isMixedBlock, Bool.or_eq_true] at hf
    by_cases hd : deep2Run c = true
    · exact blockPrints_of _ (fun st => printBlock_br (.atx l c) hd hw st)
    · have hmr : mixedRunH c = true := by
        rcases hf with h | h
        · exact absurd h hd
        · exact h
      have hmr' := hmr
      simp only [mixedRunH, Bool.and_eq_true, List.all_eq_true] at hmr'
      by_cases hl : (gSplit c).2 = []
      · exact absurd (deep2Run_of_noUses c hmr'.1 hmr'.2 hl) hd
      · exact blockPrints_mixedAtx l c hmr hw hl
  | setext l c =>
    simp only [isMixedBlock, Bool.or_eq_true] at hf
    by_cases hd : deep2Run c = true
    · exact blockPrints_of _ (fun st => printBlock_br (.setext l c) hd hw st)
    · have hmr : mixedRunH c = true := by
        rcases hf with h | h
        · exact absurd h hd
        · exact h
      have hmr' := hmr
      simp only [mixedRunH, Bool.and_eq_true, List.all_eq_true] at hmr'
      by_cases hl : (gSplit c).2 = []
      · exact absurd (deep2Run_of_noUses c hmr'.1 hmr'.2 hl) hd
      · exact blockPrints_mixedSetext l c hmr hw hl
  | quote _ => simp [isMixedBlock, isDeep2Block] at hf
  | ulist _ _ => simp [isMixedBlock, isDeep2Block] at hf
  | olist _ _ => simp [isMixedBlock, isDeep2Block] at hf

/-- **C01 on flat documents with inline links and inline images, also in the same line** -/
theorem convert_mixedDoc (d : Doc) (sp : Spelling) (hwf : WF d = true) (hs : DocSpec.MixedDoc d = true)
    (hsp : DocSpec.inlineStyle d sp = true) : Pipeline.convert {} (print d sp) = .ok (spec d) :=
  convert_of_blockPrints d sp hwf
    (fun b hb hw => blockPrints_mixedBlock b (by
      have : ∀ b ∈ d, isMixedBlock b = true := by simpa [DocSpec.MixedDoc, List.all_eq_true] using hs
      exact this b hb) hw) hsp

/-! ### `MixedDoc` contains the smaller sub-grammars -/

theorem mixedItem_of_linkItem (x : DocSpec.Inline) (h : isLinkItem x = true) : isLinkImgItem x = true := by
  cases x <;> simp_all [isLinkItem, isLinkImgItem, isMixItem]

theorem mixedItem_of_imgItem (x : DocSpec.Inline) (h : isImgItem x = true) : isLinkImgItem x = true := by
  cases x <;> simp_all [isImgItem, isLinkImgItem, isMixItem]

theorem mixedRunH_of_linkRunH (c : List DocSpec.Inline) (h : linkRunH c = true) : mixedRunH c = true := by
  simp only [linkRunH, mixedRunH, Bool.and_eq_true, List.all_eq_true] at h ⊢
  exact ⟨fun x hx => mixedItem_of_linkItem x (h.1 x hx), h.2⟩

theorem mixedRunH_of_imgRun (c : List DocSpec.Inline) (h : imgRun c = true) : mixedRunH c = true := by
  simp only [imgRun, mixedRunH, Bool.and_eq_true, List.all_eq_true] at h ⊢
  exact ⟨fun x hx => mixedItem_of_imgItem x (h.1 x hx), h.2⟩

theorem mixedRun_of_linkRun (c : List DocSpec.Inline) (h : linkRun c = true) : mixedRun c = true := by
  simp only [linkRun, mixedRun, Bool.and_eq_true, List.all_eq_true] at h ⊢
  exact ⟨⟨fun x hx => mixedItem_of_linkItem x (h.1.1 x hx), h.1.2⟩, h.2⟩

theorem mixedRun_of_imgRun (c : List DocSpec.Inline) (h : imgRun c = true) : mixedRun c = true := by
  have h' := h
  simp only [imgRun, Bool.and_eq_true, List.all_eq_true] at h'
  simp only [mixedRun, Bool.and_eq_true]
  refine ⟨by simpa [mixedRunH, Bool.and_eq_true] using mixedRunH_of_imgRun c h, ?_⟩
  cases c with
  | nil => rfl
  | cons x r =>
    have := h'.1 x List.mem_cons_self
    cases x <;> first | rfl | simp [isImgItem, isMixItem] at this

end MdVerif.DocMix
