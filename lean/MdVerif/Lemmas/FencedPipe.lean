/-
Helper lemmas for C03 on fenced code blocks, end to end (`Props/C03Fenced.lean`): fenced blocks through
`PipelineX.convertX` with `fencedCode := true`.  Core Lean only.

A. `convertX` with only `fenced_code` enabled = `Fenced.fencedRunA`, the core block parser, then `Probe.render`
B. vocabulary of the statements (`fenceBlock`, `docSource`, `docHtml`, `codeHtml`, …)
C. the fenced-block preprocessor on one block (`openCands_lang`, `fenceAt_block_lang`, `fencedRunA_block`)
D. domains (`bodyOk`, `isParaLine`, `FencedDoc`); `NormalizeWhitespace` on the document
E. the preprocessors on the document            F. the block parser on one-line paragraphs (`parseDocument_paras`)
G. the inline processor on inert paragraphs     H. prettify, unescape, serializer on lists of paragraphs
I. the stashed HTML; the end of `convert`       J. `convert_fencedDoc_core`, `convert_fencedDoc`
K. the output read back by `Ser.readForest`     L. any body: `normBody`, `normalize_doc`, `convert_fencedDoc_any`
M. documents of paragraphs and any number of fenced blocks (`Item`, `fencedLoopA_items`, `parseDocument_items`,
   `subPass_items`, `convert_items`)
N. other extensions enabled at the same time (`dispatchXT_line`, `parseDocumentXT_items`, `runX_parasTree`,
   the extension tree processors, `fencedHasConfig_items`, `convert_items_flags`)
-/
import MdVerif.Lemmas.PipelineX
import MdVerif.Lemmas.FencedCodeAttrs
import MdVerif.Lemmas.CodePipe
import MdVerif.Lemmas.StashAtomic
import MdVerif.Lemmas.SerializerTree
import MdVerif.Lemmas.BlockExtFlags

namespace MdVerif.FencedPipe
open Py Pipeline PipelineX

/-! ### A. the pipeline with only `fenced_code` -/

/-- with only `fenced_code` enabled, `convertX` is: normalise, run the fenced-block preprocessor, re-assemble through
    the raw-HTML extractor, parse the blocks with the core parser, and hand the tree with the preprocessor's stash to
    the stages after the block parser (`Probe.render`) -/
theorem convertX_fenced (cfg : Cfg) (src : Str) :
    convertX { fencedCode := true } cfg src =
      if src.contains '<' then .ood
      else if Normalize.isBlankDoc src then .ok []
      else
        match Fenced.fencedRunA (Normalize.normalize cfg.tab src) with
        | .ok t' stash =>
          match Block.parseDocument cfg.tab (Extract.extract t') with
          | none => .oof
          | some (root, refs) => Probe.render cfg refs.reverse root stash
        | _ => .oof := by
  simp only [convertX, Exts.unsupported]
  split
  · rfl
  · simp only [Bool.false_eq_true, if_false]
    split
    · rfl
    · simp only [treeX, prepareX, Exts.blockCfg, BlockExt.parseDocumentXT, Block.parseDocument,
        Block.parseDocumentWith, BlockExt.parseBlocksXT_false, BlockExt.fuelForX, Block.fuelFor, refsX, escX]
      have hcore : ({ admonition := false, defList := false, footnotes := false, abbr := false, saneLists := false } :
          BlockExt.XCfg) = BlockExt.XCfg.core := rfl
      simp only [Bool.false_eq_true, if_false, Bool.or_self, Bool.false_and, if_true, hcore,
        BlockExt.parseBlocksX_core]
      cases Fenced.fencedRunA (Normalize.normalize cfg.tab src) with
      | ood => rfl
      | fuel => rfl
      | ok t' stash =>
        simp only
        cases Block.parseChunk (Block.parseBlocks cfg.tab (2 * (Extract.extract t').length + 10))
            [] [] (Node.el "div") (Extract.extract t') with
        | none => rfl
        | some r =>
          obtain ⟨root, refs⟩ := r
          simp only [table_core, Probe.render]
          have hx := InlineX.runX_core { esc := cfg.esc, refs := refs.reverse }
            (List.map (fun x => x.fst) (BlockExt.footnotesOf refs)) root stash
          simp only [InlineX.xcCore] at hx
          rw [hx]
          cases Inline.run { esc := cfg.esc, refs := refs.reverse } root stash with
          | none => rfl
          | some q =>
            obtain ⟨t, st⟩ := q
            simp only [Option.map_some, InlineX.lift]
            cases TreeProc.unescapeTree (TreeProc.prettify t cfg.blockLevel) with
            | none => rfl
            | some u =>
              simp only [finishX, postX, Post.finish, Post.post]
              cases Post.topLevelStrip (Ser.serialize cfg.fmt u) with
              | none => rfl
              | some out =>
                simp only [Bool.false_eq_true, if_false]
                cases Post.rawHtml cfg.blockLevel st.html (Post.rawHtmlFuel st.html) out with
                | none => rfl
                | some r => rfl

/-! ### B. vocabulary of the statements -/

/-- the placeholder of the first stashed block -/
def PH : Str := Fenced.placeholder 0

theorem PH_lit : PH = [Char.ofNat 2, 'w', 'z', 'x', 'h', 'z', 'd', 'k', ':', '0', Char.ofNat 3] := by decide

theorem PH_eq : PH = Probe.htmlPlaceholder 0 := by decide

/-- a fenced block as typed: fence of `n` characters `ch`, language, line feed, body, line feed, the same fence -/
def fenceBlock (n : Nat) (ch : Char) (lang b : Str) : Str :=
  List.replicate n ch ++ lang ++ '\n' :: (b ++ '\n' :: List.replicate n ch)

/-- blocks each followed by a blank line -/
def paras : List Str → Str
  | [] => []
  | p :: r => p ++ '\n' :: '\n' :: paras r

/-- blocks separated by blank lines: `"\n\n".join(blocks)` -/
def docSource (pre : List Str) (blk : Str) (post : List Str) : Str := join ['\n', '\n'] (pre ++ blk :: post)

/-- `<p>…</p>` -/
def par (p : Str) : Str := "<p>".toList ++ p ++ "</p>".toList

/-- the expected output: the paragraphs before, the block, the paragraphs after, one per line -/
def docHtml (pre : List Str) (html : Str) (post : List Str) : Str :=
  pre.flatMap (fun p => par p ++ ['\n']) ++ html ++ post.flatMap (fun q => '\n' :: par q)

/-- the `class` attribute written for a language -/
def langAttr (lang : Str) : Str :=
  if lang.isEmpty then [] else " class=\"language-".toList ++ lang ++ ['"']

/-- the HTML of the block: `<pre><code>`, the escaped body, a line feed, `</code></pre>` -/
def codeHtml (lang b : Str) : Str :=
  "<pre><code".toList ++ langAttr lang ++ ['>'] ++ Code.fenceEscape b ++ "\n</code></pre>".toList

theorem paras_append (a b : List Str) : paras (a ++ b) = paras a ++ paras b := by
  induction a with
  | nil => rfl
  | cons p r ih => simp [paras, ih]

theorem join_nl2 (l : List Str) (hne : l ≠ []) : join ['\n', '\n'] l ++ ['\n', '\n'] = paras l := by
  induction l with
  | nil => exact absurd rfl hne
  | cons p r ih =>
    cases r with
    | nil => simp [join, paras]
    | cons q r =>
      rw [join_cons_of_ne_nil _ _ (by simp), List.append_assoc, List.append_assoc, ih (by simp)]
      simp [paras]

theorem docSource_nl2 (pre : List Str) (blk : Str) (post : List Str) :
    docSource pre blk post ++ ['\n', '\n'] = paras pre ++ (blk ++ '\n' :: '\n' :: paras post) := by
  unfold docSource
  rw [join_nl2 _ (by simp), paras_append]
  simp [paras]

/-! ### C. the fenced-block preprocessor on the block -/

open Fenced

theorem descTo_cons (n : Nat) : ∃ t, descTo n = n :: t := by
  cases n with
  | zero => exact ⟨[], rfl⟩
  | succ k => exact ⟨descTo k, rfl⟩

/-- a language name: characters of `[\w#.+-]`, not starting with a dot (which `\.?` would swallow) -/
def isLang (lang : Str) : Bool := lang.all isLangChar && lang.head? != some '.'

theorem spanLen_lang (lang r : Str) (h : lang.all isLangChar = true) :
    spanLen isLangChar (lang ++ '\n' :: r) = lang.length := by
  rw [spanLen_append_of_all h]
  simp [spanLen_cons, isLangChar_nl]

theorem isLangChar_ne {c d : Char} (h : isLangChar c = true) (hd : isLangChar d = false) : c ≠ d := by
  intro e; subst e; rw [h] at hd; cases hd

theorem head_lang (lang r : Str) (h : lang.all isLangChar = true) :
    ∃ c t, lang ++ '\n' :: r = c :: t ∧ c ≠ ' ' ∧ c ≠ '{' ∧ c ≠ '`' ∧ c ≠ '~' ∧ (c = '\n' ∨ isLangChar c = true) := by
  cases lang with
  | nil => exact ⟨'\n', r, rfl, by decide, by decide, by decide, by decide, Or.inl rfl⟩
  | cons c t =>
    have hc : isLangChar c = true := by simp at h; exact h.1
    exact ⟨c, t ++ '\n' :: r, rfl, isLangChar_ne hc (by decide), isLangChar_ne hc (by decide),
      isLangChar_ne hc (by decide), isLangChar_ne hc (by decide), Or.inr hc⟩

/-- the first way the backtracking engine matches an opening line that is a bare language name -/
theorem openCands_lang (lang r : Str) (h : isLang lang = true) :
    ∃ rest, openCands (lang ++ '\n' :: r) = ⟨none, some lang, none, lang.length⟩ :: rest := by
  simp only [isLang, Bool.and_eq_true, bne_iff_ne, ne_eq] at h
  obtain ⟨hall, hdot⟩ := h
  obtain ⟨c, t, hct, hsp, hbr, _, _, _⟩ := head_lang lang r hall
  have h3 : spanLen isSp (lang ++ '\n' :: r) = 0 := by
    rw [hct]; simp [spanLen_cons, isSp, hsp]
  have h4 : attrCands (lang ++ '\n' :: r) 0 = [] := by
    rw [hct]
    unfold attrCands
    split
    · rename_i heq; simp at heq; exact absurd heq.1 hbr
    · rfl
  have h5 : startsWith (lang ++ '\n' :: r) ['.'] = false := by
    cases lang with
    | nil => simp
    | cons d t' =>
      have : d ≠ '.' := by simpa using hdot
      simp [this]
  obtain ⟨tl, htl⟩ := descTo_cons lang.length
  have h6 : spanLen isSp ('\n' :: r) = 0 := by simp [spanLen_cons, isSp]
  have h7 : (lang ++ '\n' :: r).drop lang.length = '\n' :: r := by simp
  have h8 : (lang ++ '\n' :: r).take lang.length = lang := by simp
  unfold openCands
  rw [h3]
  simp only [descTo, List.flatMap_cons, List.flatMap_nil, List.drop_zero, h4, List.nil_append, List.append_nil]
  unfold langCands
  rw [h5]
  simp only [Bool.false_eq_true, if_false, List.flatMap_cons, List.flatMap_nil, List.drop_zero, List.append_nil,
    spanLen_lang lang r hall, htl, Nat.zero_add, h6, descTo, h7, hlCands_nl, List.map_cons, List.map_nil, h8,
    Nat.add_zero, List.cons_append, List.nil_append]
  exact ⟨_, rfl⟩

theorem fenceRun_fence_lang (n : Nat) (ch : Char) (lang r : Str) (hch : ch = '~' ∨ ch = '`') (hn : 1 ≤ n)
    (h : lang.all isLangChar = true) : fenceRun (List.replicate n ch ++ (lang ++ '\n' :: r)) = n := by
  obtain ⟨c, t, hct, _, _, h1, h2, _⟩ := head_lang lang r h
  obtain ⟨k, rfl⟩ : ∃ k, n = k + 1 := ⟨n - 1, by omega⟩
  rw [hct]
  rcases hch with rfl | rfl
  · have := spanLen_replicate (· = '~') (k + 1) '~' c t (by decide) (by simpa using h2)
    simpa [fenceRun, List.replicate_succ] using this
  · have := spanLen_replicate (· = '`') (k + 1) '`' c t (by decide) (by simpa using h1)
    simpa [fenceRun, List.replicate_succ] using this

/-- the pattern at the start of a block with a language -/
theorem fenceAt_block_lang (n : Nat) (ch : Char) (lang b post : Str) (hch : ch = '~' ∨ ch = '`') (hn : 3 ≤ n)
    (hl : isLang lang = true) (hb : ∀ l ∈ lines b, isClose (List.replicate n ch) l = false) :
    fenceAt (List.replicate n ch ++ (lang ++ '\n' :: (b ++ '\n' :: (List.replicate n ch ++ '\n' :: post)))) =
      some ⟨0, n + lang.length + 1 + (b.length + 1) + n, List.replicate n ch, none, some lang, none, b ++ ['\n']⟩ := by
  have hall : lang.all isLangChar = true := by
    simp only [isLang, Bool.and_eq_true] at hl; exact hl.1
  have hrun := fenceRun_fence_lang n ch lang (b ++ '\n' :: (List.replicate n ch ++ '\n' :: post)) hch (by omega) hall
  have hlines : lines (b ++ '\n' :: (List.replicate n ch ++ '\n' :: post)) =
      lines b ++ (List.replicate n ch :: lines post) := by
    simp only [lines]
    rw [splitC_append, splitC_append, splitC_no_sep _ _ (mem_replicate_ne_nl n ch hch)]
    rfl
  obtain ⟨rest, hoc⟩ := openCands_lang lang (b ++ '\n' :: (List.replicate n ch ++ '\n' :: post)) hl
  unfold fenceAt
  simp only [hrun]
  rw [if_neg (by omega)]
  have hdrop : (List.replicate n ch ++ (lang ++ '\n' :: (b ++ '\n' :: (List.replicate n ch ++ '\n' :: post)))).drop n =
      lang ++ '\n' :: (b ++ '\n' :: (List.replicate n ch ++ '\n' :: post)) := by
    rw [List.drop_append_of_le_length (by simp)]; simp
  have htake : (List.replicate n ch ++ (lang ++ '\n' :: (b ++ '\n' :: (List.replicate n ch ++ '\n' :: post)))).take n =
      List.replicate n ch := by
    rw [List.take_append_of_le_length (by simp)]; simp
  have hd2 : (lang ++ '\n' :: (b ++ '\n' :: (List.replicate n ch ++ '\n' :: post))).drop lang.length =
      '\n' :: (b ++ '\n' :: (List.replicate n ch ++ '\n' :: post)) := by simp
  rw [hdrop, htake, hoc]
  simp only [List.findSome?_cons, tryCand, hd2, hlines]
  rw [closeLines_skip _ _ _ _ hb]
  simp only [closeLines, isClose_self, if_true, lines, total_splitC, List.length_replicate, Nat.zero_add,
    take_body]

theorem lines_nl_cons (s : Str) : lines ('\n' :: s) = [] :: lines s := by
  cases h : splitC '\n' s with
  | nil => exact absurd h (Py.splitC_ne_nil _ _)
  | cons p ps => simp [lines, splitC, h]

/-- **the preprocessor on one block** followed by text without an opening fence: the block is replaced by the first
    placeholder between line feeds, its HTML is stashed, the rest is left alone -/
theorem fencedRunA_block (n : Nat) (ch : Char) (lang b post : Str) (hch : ch = '~' ∨ ch = '`') (hn : 3 ≤ n)
    (hl : isLang lang = true) (hb : ∀ l ∈ lines b, isClose (List.replicate n ch) l = false)
    (hpost : noFenceLine post = true) :
    fencedRunA (fenceBlock n ch lang b ++ '\n' :: '\n' :: post) =
      .ok ('\n' :: (PH ++ '\n' :: '\n' :: '\n' :: post)) [blockHtmlA [] [] lang (b ++ ['\n'])] := by
  have e : fenceBlock n ch lang b ++ '\n' :: '\n' :: post =
      List.replicate n ch ++ (lang ++ '\n' :: (b ++ '\n' :: (List.replicate n ch ++ '\n' :: ('\n' :: post)))) := by
    simp [fenceBlock]
  have hat := fenceAt_block_lang n ch lang b ('\n' :: post) hch hn hl hb
  have hf := fenceScan_at _ 0 _ hat
  have hfind : fenceFindFrom (fenceBlock n ch lang b ++ '\n' :: '\n' :: post) 0 =
      some ⟨0, n + lang.length + 1 + (b.length + 1) + n, List.replicate n ch, none, some lang, none, b ++ ['\n']⟩ := by
    rw [e]
    simp only [fenceFindFrom, List.drop_zero]
    simpa using hf
  have hdrop : (fenceBlock n ch lang b ++ '\n' :: '\n' :: post).drop (n + lang.length + 1 + (b.length + 1) + n) =
      '\n' :: '\n' :: post := by
    apply List.drop_left'
    simp [fenceBlock]; omega
  obtain ⟨k, hk⟩ : ∃ k, (fenceBlock n ch lang b ++ '\n' :: '\n' :: post).length = k + 1 := ⟨_, by simp; rfl⟩
  have hnone : fenceFindFrom ('\n' :: (PH ++ '\n' :: '\n' :: '\n' :: post)) (0 + 1 + PH.length) = none := by
    rw [PH_lit]
    simp only [fenceFindFrom]
    have hbol : (decide (0 + 1 + [Char.ofNat 2, 'w', 'z', 'x', 'h', 'z', 'd', 'k', ':', '0', Char.ofNat 3].length = 0) ||
        decide (('\n' :: ([Char.ofNat 2, 'w', 'z', 'x', 'h', 'z', 'd', 'k', ':', '0', Char.ofNat 3] ++
          '\n' :: '\n' :: '\n' :: post))[0 + 1 +
            [Char.ofNat 2, 'w', 'z', 'x', 'h', 'z', 'd', 'k', ':', '0', Char.ofNat 3].length - 1]? = some '\n')) = false := by
      simp
    rw [hbol]
    apply fenceScan_none_of_lines
    simp only [List.length_cons, List.length_nil, Bool.false_eq_true, if_false]
    show ((lines ('\n' :: '\n' :: '\n' :: post)).drop 1).all plainLine = true
    rw [lines_nl_cons, lines_nl_cons, lines_nl_cons]
    simpa [noFenceLine, plainLine, startsWith] using hpost
  unfold fencedRunA
  rw [hk, fencedLoopA, hfind]
  simp only [Option.getD_none, List.isEmpty_nil, if_true, List.take_zero, List.nil_append, hdrop, List.length_nil,
    Option.getD_some]
  show fencedLoopA (k + 1) ('\n' :: (PH ++ '\n' :: '\n' :: '\n' :: post)) (0 + 1 + PH.length) _ = _
  rw [fencedLoopA, hnone]

/-! ### D. domains; `NormalizeWhitespace` on the document -/

open CodeLaw

/-- a line of the body of a fenced block: allowed characters (`isCodeChar`: anything but `<`, line feed, CR, tab, STX,
    ETX), and not made of spaces only (such a line is emptied by `NormalizeWhitespace`) -/
def isBodyLine (l : Str) : Bool := l.all isCodeChar && (l.isEmpty || l.any (· != ' '))

/-- a body for the fence `n × ch`: every line is a body line and none is the closing fence -/
def bodyOk (n : Nat) (ch : Char) (b : Str) : Bool :=
  (lines b).all (fun l => isBodyLine l && !isClose (List.replicate n ch) l)

/-- a paragraph of the surrounding document: a line of ASCII letters and spaces that starts with a letter -/
def isParaLine (p : Str) : Bool := isSpanContext p && !p.isEmpty

theorem bodyOk_spec {n : Nat} {ch : Char} {b : Str} (h : bodyOk n ch b = true) :
    (∀ l ∈ lines b, isClose (List.replicate n ch) l = false) ∧
    (∀ l ∈ lines b, '\n' ∉ l ∧ (l = [] ∨ l.any (· != ' ') = true)) ∧
    (∀ c ∈ b, c ≠ '<' ∧ c ≠ '\r' ∧ c ≠ '\t' ∧ c ≠ Char.ofNat 2 ∧ c ≠ Char.ofNat 3) := by
  simp only [bodyOk, List.all_eq_true, Bool.and_eq_true, Bool.not_eq_true', isBodyLine, Bool.or_eq_true] at h
  refine ⟨fun l hl => (h l hl).2, fun l hl => ⟨not_mem_of_mem_splitC hl, ?_⟩, ?_⟩
  · rcases (h l hl).1.2 with h1 | h1
    · left; cases l <;> simp_all
    · right; simpa using h1
  · intro c hc
    rw [← lines_joinLines b] at hc
    rcases mem_joinLines hc with rfl | ⟨l, hl, hcl⟩
    · decide
    · obtain ⟨a1, _, a3, a4, a5, a6⟩ := isCodeChar_spec ((h l hl).1.1 c hcl)
      exact ⟨a1, a3, a4, a5, a6⟩

theorem isParaLine_spec {p : Str} (h : isParaLine p = true) :
    ∃ c0 r0, p = c0 :: r0 ∧ isAsciiAlpha c0 = true ∧ ∀ c ∈ p, isWordSp c = true := by
  simp only [isParaLine, isSpanContext, Bool.and_eq_true, bne_iff_ne, ne_eq, Bool.not_eq_true',
    List.all_eq_true] at h
  obtain ⟨⟨hw, hh⟩, hne⟩ := h
  cases p with
  | nil => simp at hne
  | cons c0 r0 =>
    refine ⟨c0, r0, rfl, ?_, hw⟩
    rcases wordSp_cases (hw c0 List.mem_cons_self) with h | h
    · exact h
    · exact absurd (by simp [h]) hh

theorem mem_paras {l : List Str} {c : Char} (h : c ∈ paras l) : c = '\n' ∨ ∃ p ∈ l, c ∈ p := by
  induction l with
  | nil => simp [paras] at h
  | cons a l ih =>
    simp only [paras, List.mem_append, List.mem_cons] at h
    rcases h with h | h | h | h
    · exact Or.inr ⟨a, List.mem_cons_self, h⟩
    · exact Or.inl h
    · exact Or.inl h
    · rcases ih h with h | ⟨p, hp, hc⟩
      · exact Or.inl h
      · exact Or.inr ⟨p, List.mem_cons_of_mem _ hp, hc⟩

open Normalize in
theorem ws_joinLines (ls : List Str) (hne : ls ≠ []) (h : ∀ l ∈ ls, '\n' ∉ l ∧ (l = [] ∨ l.any (· != ' ') = true))
    (y : Str) :
    wsLinesAux (some 0) (joinLines ls ++ '\n' :: y) = joinLines ls ++ '\n' :: wsLinesAux (some 0) y := by
  induction ls with
  | nil => exact absurd rfl hne
  | cons a r ih =>
    have ha := h a List.mem_cons_self
    cases r with
    | nil =>
      simp only [joinLines, join_singleton]
      exact ws_some_line a y ha.1 ha.2
    | cons b r =>
      have ih' := ih (by simp) (fun l hl => h l (List.mem_cons_of_mem _ hl))
      simp only [joinLines, join_cons_cons, List.append_assoc, List.cons_append, List.nil_append] at ih' ⊢
      rw [ws_some_line a _ ha.1 ha.2, ih']

open Normalize in
theorem ws_paras (l : List Str) (h : ∀ p ∈ l, isParaLine p = true) (y : Str) :
    wsLinesAux (some 0) (paras l ++ y) = paras l ++ wsLinesAux (some 0) y := by
  induction l with
  | nil => rfl
  | cons p r ih =>
    obtain ⟨c0, r0, rfl, hc0, hw⟩ := isParaLine_spec (h p List.mem_cons_self)
    have hnl : '\n' ∉ c0 :: r0 := fun hm => wordSp_ne (hw _ hm) (by decide) rfl
    have h1 := ws_some_line_of_head c0 r0 ('\n' :: (paras r ++ y)) hnl (alpha_not_space hc0)
    simp only [paras, List.append_assoc, List.cons_append] at h1 ⊢
    rw [h1, wsLinesAux_nl, ih (fun q hq => h q (List.mem_cons_of_mem _ hq))]

/-- the hypotheses of the end-to-end statements -/
structure FencedDoc (n : Nat) (ch : Char) (lang b : Str) (pre post : List Str) : Prop where
  hch : ch = '~' ∨ ch = '`'
  hn : 3 ≤ n
  hlang : isLang lang = true
  hbody : bodyOk n ch b = true
  hpre : ∀ p ∈ pre, isParaLine p = true
  hpost : ∀ p ∈ post, isParaLine p = true

theorem isLangChar_clean {c : Char} (h : isLangChar c = true) :
    c ≠ '<' ∧ c ≠ '\r' ∧ c ≠ '\t' ∧ c ≠ Char.ofNat 2 ∧ c ≠ Char.ofNat 3 ∧ c ≠ '\n' ∧ c ≠ '&' ∧ c ≠ '>' ∧ c ≠ '"' ∧
      c ≠ ' ' :=
  ⟨isLangChar_ne h (by decide), isLangChar_ne h (by decide), isLangChar_ne h (by decide), isLangChar_ne h (by decide),
   isLangChar_ne h (by decide), isLangChar_ne h (by decide), isLangChar_ne h (by decide), isLangChar_ne h (by decide),
   isLangChar_ne h (by decide), isLangChar_ne h (by decide)⟩

theorem wordSp_clean {c : Char} (h : isWordSp c = true) :
    c ≠ '<' ∧ c ≠ '\r' ∧ c ≠ '\t' ∧ c ≠ Char.ofNat 2 ∧ c ≠ Char.ofNat 3 ∧ c ≠ '\n' ∧ c ≠ '&' ∧ c ≠ '>' :=
  ⟨wordSp_ne h (by decide), wordSp_ne h (by decide), wordSp_ne h (by decide), wordSp_ne h (by decide),
   wordSp_ne h (by decide), wordSp_ne h (by decide), wordSp_ne h (by decide), wordSp_ne h (by decide)⟩

theorem mem_fenceBlock {n : Nat} {ch : Char} {lang b : Str} {c : Char} (h : c ∈ fenceBlock n ch lang b) :
    c = ch ∨ c ∈ lang ∨ c = '\n' ∨ c ∈ b := by
  simp only [fenceBlock, List.mem_append, List.mem_cons] at h
  rcases h with (h | h) | h | h | h | h
  · exact Or.inl (List.eq_of_mem_replicate h)
  · exact Or.inr (Or.inl h)
  · exact Or.inr (Or.inr (Or.inl h))
  · exact Or.inr (Or.inr (Or.inr h))
  · exact Or.inr (Or.inr (Or.inl h))
  · exact Or.inl (List.eq_of_mem_replicate h)

/-- the characters of the source: none that a preprocessor would rewrite -/
theorem FencedDoc.chars {n : Nat} {ch : Char} {lang b : Str} {pre post : List Str} (h : FencedDoc n ch lang b pre post) :
    ∀ c ∈ docSource pre (fenceBlock n ch lang b) post,
      c ≠ '<' ∧ c ≠ '\r' ∧ c ≠ '\t' ∧ c ≠ Char.ofNat 2 ∧ c ≠ Char.ofNat 3 := by
  intro c hc
  have hc' : c ∈ paras (pre ++ fenceBlock n ch lang b :: post) := by
    rw [← join_nl2 _ (by simp)]
    exact List.mem_append_left _ hc
  have hall : lang.all isLangChar = true := by
    have := h.hlang; simp only [isLang, Bool.and_eq_true] at this; exact this.1
  rcases mem_paras hc' with rfl | ⟨p, hp, hcp⟩
  · decide
  · rcases List.mem_append.1 hp with hp | hp
    · obtain ⟨_, _, _, _, hw⟩ := isParaLine_spec (h.hpre p hp)
      obtain ⟨a1, a2, a3, a4, a5, _⟩ := wordSp_clean (hw c hcp)
      exact ⟨a1, a2, a3, a4, a5⟩
    · rcases List.mem_cons.1 hp with rfl | hp
      · rcases mem_fenceBlock hcp with rfl | hl | rfl | hb
        · rcases h.hch with rfl | rfl <;> decide
        · obtain ⟨a1, a2, a3, a4, a5, _⟩ := isLangChar_clean (List.all_eq_true.1 hall c hl)
          exact ⟨a1, a2, a3, a4, a5⟩
        · decide
        · exact (bodyOk_spec h.hbody).2.2 c hb
      · obtain ⟨_, _, _, _, hw⟩ := isParaLine_spec (h.hpost p hp)
        obtain ⟨a1, a2, a3, a4, a5, _⟩ := wordSp_clean (hw c hcp)
        exact ⟨a1, a2, a3, a4, a5⟩

/-- `NormalizeWhitespace` only appends the two line feeds -/
theorem FencedDoc.normalize {n : Nat} {ch : Char} {lang b : Str} {pre post : List Str}
    (h : FencedDoc n ch lang b pre post) (tab : Nat) :
    Normalize.normalize tab (docSource pre (fenceBlock n ch lang b) post) =
      paras pre ++ (fenceBlock n ch lang b ++ '\n' :: '\n' :: paras post) := by
  have hall : lang.all isLangChar = true := by
    have := h.hlang; simp only [isLang, Bool.and_eq_true] at this; exact this.1
  rw [← docSource_nl2]
  apply normalize_of_clean tab _ (fun c hc => by
    obtain ⟨_, a2, a3, a4, a5⟩ := h.chars c hc; exact ⟨a4, a5, a2, a3⟩)
  rw [docSource_nl2, ws_paras pre h.hpre]
  congr 1
  -- the opening line
  have hopen : '\n' ∉ List.replicate n ch ++ lang := by
    intro hm
    rcases List.mem_append.1 hm with hm | hm
    · have := List.eq_of_mem_replicate hm
      rcases h.hch with rfl | rfl <;> simp at this
    · exact (isLangChar_clean (List.all_eq_true.1 hall _ hm)).2.2.2.2.2.1 rfl
  have hink : (List.replicate n ch ++ lang).any (· != ' ') = true := by
    obtain ⟨k, hk⟩ : ∃ k, n = k + 1 := ⟨n - 1, by have := h.hn; omega⟩
    have : ch ≠ ' ' := by rcases h.hch with rfl | rfl <;> decide
    simp [hk, List.replicate_succ, this]
  have hclose : '\n' ∉ List.replicate n ch := by
    intro hm
    have := List.eq_of_mem_replicate hm
    rcases h.hch with rfl | rfl <;> simp at this
  have hink2 : (List.replicate n ch).any (· != ' ') = true := by
    obtain ⟨k, hk⟩ : ∃ k, n = k + 1 := ⟨n - 1, by have := h.hn; omega⟩
    have : ch ≠ ' ' := by rcases h.hch with rfl | rfl <;> decide
    simp [hk, List.replicate_succ, this]
  have e : fenceBlock n ch lang b ++ '\n' :: '\n' :: paras post =
      (List.replicate n ch ++ lang) ++ '\n' :: (joinLines (lines b) ++ '\n' :: (List.replicate n ch ++ '\n' ::
        ('\n' :: paras post))) := by
    simp [fenceBlock, lines_joinLines]
  rw [e, ws_some_line _ _ hopen (Or.inr hink),
    ws_joinLines (lines b) (Py.splitC_ne_nil _ _) (bodyOk_spec h.hbody).2.1,
    ws_some_line _ _ hclose (Or.inr hink2), Normalize.wsLinesAux_nl]
  have hp := ws_paras post h.hpost []
  simp only [List.append_nil, Normalize.wsLinesAux, List.replicate_zero] at hp
  rw [hp]

theorem FencedDoc.noLt {n : Nat} {ch : Char} {lang b : Str} {pre post : List Str} (h : FencedDoc n ch lang b pre post) :
    (docSource pre (fenceBlock n ch lang b) post).contains '<' = false := by
  rw [Bool.eq_false_iff]; intro hc
  exact (h.chars '<' (by simpa using hc)).1 rfl

theorem FencedDoc.notBlank {n : Nat} {ch : Char} {lang b : Str} {pre post : List Str}
    (h : FencedDoc n ch lang b pre post) :
    Normalize.isBlankDoc (docSource pre (fenceBlock n ch lang b) post) = false := by
  rw [Normalize.isBlankDoc_eq_all, Bool.eq_false_iff]
  intro ha
  have hmem : ch ∈ docSource pre (fenceBlock n ch lang b) post := by
    obtain ⟨k, hk⟩ : ∃ k, n = k + 1 := ⟨n - 1, by have := h.hn; omega⟩
    have h1 : ch ∈ docSource pre (fenceBlock n ch lang b) post ++ ['\n', '\n'] := by
      rw [docSource_nl2]
      apply List.mem_append_right
      apply List.mem_append_left
      simp [fenceBlock, hk, List.replicate_succ]
    rcases List.mem_append.1 h1 with h1 | h1
    · exact h1
    · have : ch = '\n' := by simpa using h1
      rcases h.hch with rfl | rfl <;> simp at this
  have := List.all_eq_true.1 ha ch hmem
  rcases h.hch with rfl | rfl <;> revert this <;> decide

/-! ### E. the preprocessors on the document -/

theorem plainLine_para {p : Str} (h : isParaLine p = true) : plainLine p = true := by
  obtain ⟨c0, r0, rfl, hc0, _⟩ := isParaLine_spec h
  have h1 : c0 ≠ '`' := alpha_ne hc0 (by decide)
  have h2 : c0 ≠ '~' := alpha_ne hc0 (by decide)
  simp [plainLine, h1, h2]

theorem para_no_nl {p : Str} (h : isParaLine p = true) : '\n' ∉ p := by
  obtain ⟨c0, r0, rfl, _, hw⟩ := isParaLine_spec h
  exact fun hm => wordSp_ne (hw _ hm) (by decide) rfl

theorem lines_paras_cons (q : Str) (r : List Str) (hq : '\n' ∉ q) :
    lines (paras (q :: r)) = q :: [] :: lines (paras r) := by
  simp only [paras, lines]
  rw [Fenced.splitC_append, Fenced.splitC_no_sep _ _ (fun c hc e => hq (by subst e; exact hc))]
  have := lines_nl_cons (paras r)
  simp only [lines] at this
  rw [this]
  rfl

theorem noFenceLine_paras (l : List Str) (h : ∀ p ∈ l, isParaLine p = true) : noFenceLine (paras l) = true := by
  induction l with
  | nil => decide
  | cons q r ih =>
    have ih' := ih (fun p hp => h p (List.mem_cons_of_mem _ hp))
    simp only [noFenceLine] at ih' ⊢
    rw [lines_paras_cons q r (para_no_nl (h q List.mem_cons_self))]
    simp only [List.all_cons, ih', plainLine_para (h q List.mem_cons_self), Bool.and_true, Bool.true_and]
    decide

theorem fencedRunA_paras (l : List Str) (h : ∀ p ∈ l, isParaLine p = true) (t : Str) :
    fencedRunA (paras l ++ t) = prepend (paras l) (fencedRunA t) := by
  induction l with
  | nil => cases h : fencedRunA t <;> simp [paras, prepend, h]
  | cons q r ih =>
    have hq := h q List.mem_cons_self
    have e : paras (q :: r) ++ t = (q ++ ['\n', '\n']) ++ (paras r ++ t) := by simp [paras]
    have hp : plainPrefix (q ++ ['\n', '\n']) := by
      refine Or.inr ⟨q ++ ['\n'], by simp, ?_⟩
      simp only [noFenceLine, lines]
      rw [show q ++ ['\n'] = q ++ '\n' :: [] from rfl, Fenced.splitC_append,
        Fenced.splitC_no_sep _ _ (fun c hc e => para_no_nl hq (by subst e; exact hc))]
      simp only [splitC, List.cons_append, List.nil_append, List.all_cons, plainLine_para hq, List.all_nil, Bool.and_true,
        Bool.true_and]
      decide
    rw [e, fencedRunA_prefix _ _ hp, ih (fun p hp => h p (List.mem_cons_of_mem _ hp))]
    cases fencedRunA t <;> simp [prepend, paras]

/-- **`FencedBlockPreprocessor.run` on the document**: the paragraphs are copied, the block becomes the first
    placeholder between line feeds, its HTML is the only entry of the stash -/
theorem fencedRun_doc (n : Nat) (ch : Char) (lang b : Str) (pre post : List Str)
    (hch : ch = '~' ∨ ch = '`') (hn : 3 ≤ n) (hlang : isLang lang = true)
    (hclose : ∀ l ∈ lines b, isClose (List.replicate n ch) l = false)
    (hpre : ∀ p ∈ pre, isParaLine p = true) (hpost : ∀ p ∈ post, isParaLine p = true) :
    fencedRunA (paras pre ++ (fenceBlock n ch lang b ++ '\n' :: '\n' :: paras post)) =
      .ok (paras pre ++ ('\n' :: PH) ++ '\n' :: '\n' :: ('\n' :: paras post)) [blockHtmlA [] [] lang (b ++ ['\n'])] := by
  rw [fencedRunA_paras pre hpre,
    fencedRunA_block n ch lang b (paras post) hch hn hlang hclose (noFenceLine_paras post hpost)]
  simp [prepend]

theorem mem_PH {c : Char} (h : c ∈ PH) : c ≠ '&' ∧ c ≠ '\n' ∧ c ≠ '<' ∧ c ≠ '>' := by
  rw [PH_lit] at h
  simp only [List.mem_cons, List.not_mem_nil, or_false] at h
  rcases h with rfl | rfl | rfl | rfl | rfl | rfl | rfl | rfl | rfl | rfl | rfl <;> decide

/-- the raw-HTML preprocessor has nothing to re-spell in the result: it contains no `&` -/
theorem extract_doc (pre post : List Str) (hpre : ∀ p ∈ pre, isParaLine p = true)
    (hpost : ∀ p ∈ post, isParaLine p = true) :
    Extract.extract (paras pre ++ ('\n' :: PH) ++ '\n' :: '\n' :: ('\n' :: paras post)) =
      paras pre ++ ('\n' :: PH) ++ '\n' :: '\n' :: ('\n' :: paras post) := by
  apply extract_id
  apply refsClosed_of_no_amp
  intro hm
  have hpar : ∀ l : List Str, (∀ p ∈ l, isParaLine p = true) → '&' ∉ paras l := by
    intro l hl hm
    rcases mem_paras hm with e | ⟨p, hp, hc⟩
    · revert e; decide
    · obtain ⟨_, _, _, _, hw⟩ := isParaLine_spec (hl p hp)
      exact (wordSp_clean (hw _ hc)).2.2.2.2.2.2.1 rfl
  simp only [List.mem_append, List.mem_cons] at hm
  rcases hm with (hm | hm | hm) | hm | hm | hm | hm
  · exact hpar pre hpre hm
  · revert hm; decide
  · exact (mem_PH hm).1 rfl
  · revert hm; decide
  · revert hm; decide
  · revert hm; decide
  · exact hpar post hpost hm

/-! ### F. the block parser on paragraphs -/

open Block Escape

/-- a one-line block that `ParagraphProcessor` takes: no line feed, first character not white space, not a digit and
    none of the characters that start a block construct -/
def ParaLine (l : Str) : Prop :=
  ∃ c r, l = c :: r ∧ '\n' ∉ c :: r ∧ isSpace c = false ∧ c ∉ lineEsc ∧ isDecimal c = false

theorem paraLine_PH : ParaLine PH := by
  rw [PH_lit]
  exact ⟨_, _, rfl, by decide, by decide, by decide, by decide⟩

theorem paraLine_para {p : Str} (h : isParaLine p = true) : ParaLine p := by
  have hnl := para_no_nl h
  obtain ⟨c0, r0, rfl, hc0, _⟩ := isParaLine_spec h
  refine ⟨c0, r0, rfl, hnl, alpha_not_space hc0, ?_, alpha_not_decimal hc0⟩
  intro hm
  simp only [lineEsc, List.mem_cons, List.not_mem_nil, or_false] at hm
  rcases hm with rfl | rfl | rfl | rfl | rfl | rfl | rfl <;> exact absurd hc0 (by decide)

/-- a block: the line, possibly after a line feed (what `text.split("\n\n")` leaves of three line feeds) -/
def blkOf (it : Bool × Str) : Str := if it.1 then '\n' :: it.2 else it.2

theorem preCode_p (t : Str) : preCode (mkText "p" t) = none := by
  have : (mkText "p" t).isTag "pre" = false := by
    simp only [mkText, Node.isTag, Node.el]; decide
  simp [preCode, this]

theorem emptyP_plain (refs : Refs) (parent : Node) (b : Str) (rest : List Str)
    (hl : ∀ sib, parent.last? = some sib → preCode sib = none) :
    emptyP refs parent b rest = (parent, refs, if (b.drop 1).isEmpty then rest else b.drop 1 :: rest) := by
  unfold emptyP
  cases hs : parent.last? with
  | none => rfl
  | some sib => simp [hl sib hs]

theorem parse_paras (tab : Nat) (htab : 0 < tab) (refs : Refs) (t : Str) (ht : t = [] ∨ t = ['\n']) :
    ∀ (items : List (Bool × Str)) (parent : Node), (∀ sib, parent.last? = some sib → preCode sib = none) →
      (∀ it ∈ items, ParaLine it.2) →
      ∃ f, parseBlocks tab f [] refs parent (items.map blkOf ++ [t]) =
        some (items.foldl (fun n it => n.append (mkText "p" it.2)) parent, refs) := by
  intro items
  induction items with
  | nil =>
    intro parent hl _
    refine ⟨1, ?_⟩
    simp only [List.map_nil, List.nil_append, List.foldl_nil]
    rw [parseBlocks_step]
    rcases ht with rfl | rfl
    · rw [dispatch_nil, emptyP_plain _ _ _ _ hl]; rfl
    · rw [dispatch_nl, emptyP_plain _ _ _ _ hl]; rfl
  | cons it items ih =>
    intro parent hl hit
    obtain ⟨c, r, hcr, hnl, hc0, hc2, hc3⟩ := hit it List.mem_cons_self
    have hc1 : c ≠ ' ' := by intro e; subst e; revert hc0; decide
    have hv : startsVisible (c :: r) = true := by simpa [startsVisible] using hc0
    obtain ⟨f, hf⟩ := ih (parent.append (mkText "p" (c :: r)))
      (fun sib hs => by rw [last_append] at hs; cases hs; exact preCode_p _)
      (fun x hx => hit x (List.mem_cons_of_mem _ hx))
    obtain ⟨b0, l0⟩ := it
    simp only at hcr
    subst hcr
    have step : parseBlocks tab (f + 1) [] refs parent ((c :: r) :: (items.map blkOf ++ [t])) =
        some (items.foldl (fun n it => n.append (mkText "p" it.2)) (parent.append (mkText "p" (c :: r))), refs) := by
      rw [parseBlocks_step, dispatch_line tab htab _ refs _ c r _ hnl hc1 hc2 hc3, paraP_visible _ _ _ _ hv]
      exact hf
    cases b0 with
    | false => exact ⟨f + 1, by simpa [blkOf] using step⟩
    | true =>
      refine ⟨f + 2, ?_⟩
      simp only [List.map_cons, blkOf, if_true, List.cons_append, List.foldl_cons]
      rw [parseBlocks_step, dispatch_nl, emptyP_plain _ _ _ _ hl]
      simpa using step

theorem foldl_append_children (f : (Bool × Str) → Node) (items : List (Bool × Str)) (parent : Node) :
    items.foldl (fun n it => n.append (f it)) parent = { parent with children := parent.children ++ items.map f } := by
  induction items generalizing parent with
  | nil => cases parent; simp
  | cons it items ih => rw [List.foldl_cons, ih]; simp [Node.append]

/-- the tree of a document made of one-line paragraphs -/
def parasTree (ps : List Str) : Node := { Node.el "div" with children := ps.map (mkText "p") }

theorem splitAux_paras (l : List Str) (h : ∀ p ∈ l, ParaLine p) (y : Str) :
    splitAux ['\n', '\n'] 0 (paras l ++ y) = l ++ splitAux ['\n', '\n'] 0 y := by
  induction l with
  | nil => rfl
  | cons p r ih =>
    obtain ⟨c, r0, rfl, hnl, _⟩ := h p List.mem_cons_self
    simp only [paras, List.append_assoc, List.cons_append]
    have := splitAux_tight true (c :: r0) (noEmptyLine_of_no_nl c r0 hnl) (paras r ++ y)
    simp only [List.cons_append] at this
    rw [this, ih (fun q hq => h q (List.mem_cons_of_mem _ hq))]

/-- the blocks after the placeholder's block -/
def postItems : List Str → List (Bool × Str)
  | [] => []
  | q :: r => (true, q) :: r.map (fun x => (false, x))

theorem splitAux_post (post : List Str) (h : ∀ p ∈ post, ParaLine p) :
    splitAux ['\n', '\n'] 0 ('\n' :: paras post) =
      (postItems post).map blkOf ++ [if post.isEmpty then ['\n'] else []] := by
  cases post with
  | nil => simp [paras, postItems, splitAux, startsWith]
  | cons q r =>
    obtain ⟨c, r0, rfl, hnl, _⟩ := h _ List.mem_cons_self
    have h1 : noEmptyLineFrom false ('\n' :: c :: r0) = true := by
      simp only [noEmptyLineFrom, if_true, Bool.not_false, Bool.true_and]
      exact noEmptyLine_of_no_nl c r0 hnl
    have := splitAux_tight false ('\n' :: c :: r0) h1 (paras r)
    simp only [List.cons_append] at this
    have h2 := splitAux_paras r (fun q hq => h q (List.mem_cons_of_mem _ hq)) []
    simp only [List.append_nil] at h2
    simp only [paras, List.cons_append, this, h2, postItems, List.map_cons, blkOf, if_true, List.map_map,
      List.isEmpty_cons, Bool.false_eq_true, if_false]
    simp [splitAux, Function.comp_def, blkOf]

/-- **the block parser on the document after the preprocessors**: one paragraph per line, the placeholder's among
    them -/
theorem parseDocument_paras (tab : Nat) (htab : 0 < tab) (pre post : List Str) (x : Str)
    (hpre : ∀ p ∈ pre, ParaLine p) (hx : ParaLine x) (hpost : ∀ p ∈ post, ParaLine p) :
    parseDocument tab (paras pre ++ ('\n' :: x) ++ '\n' :: '\n' :: ('\n' :: paras post)) =
      some (parasTree (pre ++ x :: post), []) := by
  obtain ⟨c, r, rfl, hnl, hxs⟩ := hx
  have hsplit : splitS ['\n', '\n'] (paras pre ++ ('\n' :: c :: r) ++ '\n' :: '\n' :: ('\n' :: paras post)) =
      (pre.map (fun p => (false, p)) ++ (true, c :: r) :: postItems post).map blkOf ++
        [if post.isEmpty then ['\n'] else []] := by
    have h1 : noEmptyLineFrom false ('\n' :: c :: r) = true := by
      simp only [noEmptyLineFrom, if_true, Bool.not_false, Bool.true_and]
      exact noEmptyLine_of_no_nl c r hnl
    have h2 := splitAux_tight false ('\n' :: c :: r) h1 ('\n' :: paras post)
    simp only [splitS, List.append_assoc]
    rw [splitAux_paras pre hpre, h2, splitAux_post post hpost]
    simp [blkOf, Function.comp_def]
  have hitems : ∀ it ∈ pre.map (fun p => (false, p)) ++ (true, c :: r) :: postItems post, ParaLine it.2 := by
    intro it hit
    rcases List.mem_append.1 hit with hit | hit
    · obtain ⟨p, hp, rfl⟩ := List.mem_map.1 hit
      exact hpre p hp
    · rcases List.mem_cons.1 hit with rfl | hit
      · exact ⟨c, r, rfl, hnl, hxs⟩
      · cases post with
        | nil => simp [postItems] at hit
        | cons q qs =>
          simp only [postItems, List.mem_cons, List.mem_map] at hit
          rcases hit with rfl | ⟨p, hp, rfl⟩
          · exact hpost q List.mem_cons_self
          · exact hpost p (List.mem_cons_of_mem _ hp)
  obtain ⟨f, hf⟩ := parse_paras tab htab [] (if post.isEmpty then ['\n'] else [])
    (by cases post <;> simp) _ (Node.el "div") (fun sib hs => by simp [Node.last?, Node.el] at hs) hitems
  have htree : (pre.map (fun p => (false, p)) ++ (true, c :: r) :: postItems post).foldl
      (fun n it => n.append (mkText "p" it.2)) (Node.el "div") = parasTree (pre ++ (c :: r) :: post) := by
    rw [foldl_append_children (fun it => mkText "p" it.2)]
    cases post with
    | nil => simp [parasTree, Node.el, postItems, Function.comp_def]
    | cons q qs => simp [parasTree, Node.el, postItems, Function.comp_def]
  rw [htree] at hf
  obtain ⟨res, hr⟩ := Option.isSome_iff_exists.1
    (parseDocument_total tab (paras pre ++ ('\n' :: c :: r) ++ '\n' :: '\n' :: ('\n' :: paras post)))
  rw [hr]
  simp only [parseDocument, parseDocumentWith, parseChunk] at hr
  rw [hsplit] at hr
  have a1 := parseBlocks_fuel_mono (fuelFor (paras pre ++ ('\n' :: c :: r) ++ '\n' :: '\n' :: ('\n' :: paras post)).length) hf
  have a2 := parseBlocks_fuel_mono f hr
  rw [Nat.add_comm] at a2
  rw [a2] at a1
  exact a1

/-! ### G. the inline processor on paragraphs it has nothing to do on -/

open Inline

/-- the text of a paragraph on which no inline pattern matches and in which no inline placeholder starts -/
def InlineInert (p : Str) : Prop := p ≠ [] ∧ Quiet p ∧ find phPrefix p = none

theorem inert_PH : InlineInert PH := by
  refine ⟨by rw [PH_lit]; simp, ?_, by rw [PH_lit]; decide⟩
  intro c hc
  rw [PH_lit] at hc
  simp only [List.mem_cons, List.not_mem_nil, or_false] at hc
  rcases hc with rfl | rfl | rfl | rfl | rfl | rfl | rfl | rfl | rfl | rfl | rfl <;> decide

theorem inert_para {p : Str} (h : isParaLine p = true) : InlineInert p := by
  obtain ⟨c0, r0, rfl, _, hw⟩ := isParaLine_spec h
  refine ⟨by simp, quiet_wordSp _ (List.all_eq_true.2 hw), find_phPrefix_none _ ?_⟩
  exact fun hm => wordSp_ne (hw _ hm) (by decide) rfl

/-- `__processPlaceholders` on text in which no inline placeholder starts: the text is put back -/
theorem ppTop_nofind (st : St) (data : Str) (parent : Node) (hne : data ≠ []) (hf : find phPrefix data = none)
    (hp1 : parent.text = none) (hp2 : parent.textAtomic = false) :
    ppTop st data false parent true = some ([], { parent with text := some data }) := by
  obtain ⟨c, r, rfl⟩ : ∃ c r, data = c :: r := by cases data <;> simp_all
  unfold ppTop
  rw [show st.stash.length + 2 = (st.stash.length + 1) + 1 from rfl]
  unfold processPlaceholders
  simp only [List.isEmpty_cons, Bool.false_eq_true, if_false, List.length_cons]
  rw [show r.length + 1 + 2 = (r.length + 2) + 1 from rfl]
  unfold ppLoop
  simp only [List.drop_zero, hf]
  cases parent
  simp_all [linkText, Node.truthy]

theorem visitChild_inertP (cfg : Inline.Cfg) (data : Str) (v : Visit) (h : InlineInert data) :
    visitChild cfg (mkText "p" data) v = some (mkText "p" data, [], v) := by
  obtain ⟨hne, hq, hf⟩ := h
  obtain ⟨c, r, rfl⟩ : ∃ c r, data = c :: r := by cases data <;> simp_all
  unfold visitChild
  have h1 : Node.truthy (mkText "p" (c :: r)).text = true := rfl
  simp only [h1, show (mkText "p" (c :: r)).textAtomic = false from rfl, Bool.not_false, Bool.and_self, if_true]
  rw [show (mkText "p" (c :: r)).text.getD [] = c :: r from rfl, handleInlineTop_quiet cfg _ _ hq]
  simp only
  rw [ppTop_nofind v.st (c :: r) _ (by simp) hf rfl rfl]
  cases v
  simp [mkText, Node.el, Node.truthy]

theorem visitLoop_inert (cfg : Inline.Cfg) (ps : List Str) (h : ∀ p ∈ ps, InlineInert p) :
    ∀ (i : Nat) (v : Visit) (g : Nat), ps.length + 1 ≤ g →
      ∃ v', visitLoop cfg g (withIdx (ps.map (mkText "p")) i) v = some v' ∧
        v'.done = (ps.map (mkText "p")).reverse ++ v.done ∧ v'.pushes = v.pushes ∧ v'.st = v.st := by
  induction ps with
  | nil =>
    intro i v g hg
    obtain ⟨g', rfl⟩ : ∃ g', g = g' + 1 := ⟨g - 1, by simp at hg; omega⟩
    exact ⟨v, rfl, by simp, rfl, rfl⟩
  | cons p r ih =>
    intro i v g hg
    obtain ⟨g', rfl⟩ : ∃ g', g = g' + 1 := ⟨g - 1, by simp at hg; omega⟩
    simp only [List.map_cons, withIdx, visitLoop, visitChild_inertP cfg p v (h p List.mem_cons_self), List.map_nil,
      List.nil_append]
    obtain ⟨v', h1, h2, h3, h4⟩ := ih (fun q hq => h q (List.mem_cons_of_mem _ hq)) (i + 1)
      { v with done := mkText "p" p :: v.done, posmap := (i, v.done.length) :: v.posmap } g'
      (by simp at hg ⊢; omega)
    exact ⟨v', h1, by simp [h2], h3, h4⟩

/-- **the inline processor leaves such a document alone**, whatever is in the HTML stash -/
theorem run_parasTree (cfg : Inline.Cfg) (ps : List Str) (html : List Str) (h : ∀ p ∈ ps, InlineInert p) :
    Inline.run cfg (parasTree ps) html = some (parasTree ps, { html := html }) := by
  unfold Inline.run
  have hsz : ps.length + 1 ≤ Inline.runFuel (parasTree ps) := by
    have := length_le_sizeList (ps.map (mkText "p"))
    simp only [List.length_map] at this
    simp only [Inline.runFuel, parasTree, Node.el, Inline.size]
    omega
  generalize hf : Inline.runFuel (parasTree ps) = f at hsz
  obtain ⟨g, rfl⟩ : ∃ g, f = g + 2 := ⟨f - 2, by simp [Inline.runFuel] at hf; omega⟩
  obtain ⟨v', h1, h2, h3, h4⟩ := visitLoop_inert cfg ps h 0 { st := { html := html } } (g + 2) hsz
  have hc : (parasTree ps).children = ps.map (mkText "p") := rfl
  simp only [Inline.runLoop, Inline.getAt, hc, h1, h2, h3, h4, List.reverse_append, List.reverse_nil, List.nil_append,
    List.reverse_reverse, List.map_nil, Inline.setAt]
  rfl

/-! ### H. prettify, unescape, serializer -/

open TreeProc in
/-- the tree after `PrettifyTreeprocessor` -/
def parasTreeP (ps : List Str) : Node :=
  { Node.el "div" with
    text := some nl1
    tail := some nl1
    children := ps.map (fun p => { mkText "p" p with tail := some nl1 }) }

theorem mapKids_leaves (f : Node → Node) (g : Str → Node) (hg : ∀ p, TreeProc.mapTree f (g p) = g p) (ps : List Str) :
    TreeProc.mapKids f (ps.map g) = ps.map g := by
  induction ps with
  | nil => rfl
  | cons p r ih => simp [TreeProc.mapKids, hg, ih]

theorem prettifyKids_paras (ps : List Str) :
    TreeProc.prettifyKids TreeProc.defaultBlockLevel (ps.map (mkText "p")) =
      ps.map (fun p => { mkText "p" p with tail := some nl1 }) := by
  induction ps with
  | nil => rfl
  | cons p r ih =>
    simp only [List.map_cons, TreeProc.prettifyKids, ih]
    simp [mkText, Node.el, bl_p, TreeProc.prettifyETree, TreeProc.prettifyKids, TreeProc.blankOrNone, Node.truthy, nl1]

theorem prettify_parasTree (p : Str) (ps : List Str) :
    TreeProc.prettify (parasTree (p :: ps)) = parasTreeP (p :: ps) := by
  have hk := prettifyKids_paras (p :: ps)
  have h1 : TreeProc.prettifyETree TreeProc.defaultBlockLevel (parasTree (p :: ps)) = parasTreeP (p :: ps) := by
    simp only [parasTree, Node.el, TreeProc.prettifyETree, hk]
    simp [bl_div, bl_p, mkText, Node.el, TreeProc.blankOrNone, Node.truthy, parasTreeP, nl1]
  have hleaf : ∀ (f : Node → Node), (∀ q : Str, f { mkText "p" q with tail := some nl1 } = { mkText "p" q with tail := some nl1 }) →
      ∀ q : Str, TreeProc.mapTree f { mkText "p" q with tail := some nl1 } = { mkText "p" q with tail := some nl1 } := by
    intro f hf q
    have := hf q
    simp only [mkText, Node.el] at this ⊢
    simp only [TreeProc.mapTree, TreeProc.mapKids]
    exact this
  have hbr : ∀ q : Str, TreeProc.brRule { mkText "p" q with tail := some nl1 } = { mkText "p" q with tail := some nl1 } := by
    intro q; simp [TreeProc.brRule, TreeProc.tagIs, mkText, Node.el]
  have hpre : ∀ q : Str, TreeProc.preRule { mkText "p" q with tail := some nl1 } = { mkText "p" q with tail := some nl1 } := by
    intro q; simp [TreeProc.preRule, TreeProc.tagIs, mkText, Node.el]
  have h2 : ∀ f : Node → Node, (∀ q : Str, f { mkText "p" q with tail := some nl1 } = { mkText "p" q with tail := some nl1 }) →
      f (parasTreeP (p :: ps)) = parasTreeP (p :: ps) → TreeProc.mapTree f (parasTreeP (p :: ps)) = parasTreeP (p :: ps) := by
    intro f hf hroot
    have hm := mapKids_leaves f (fun q => { mkText "p" q with tail := some nl1 }) (hleaf f hf) (p :: ps)
    have : TreeProc.mapTree f (parasTreeP (p :: ps)) =
        f { parasTreeP (p :: ps) with children := TreeProc.mapKids f (parasTreeP (p :: ps)).children } := by
      simp only [parasTreeP, Node.el, TreeProc.mapTree]
    rw [this]
    have hc : (parasTreeP (p :: ps)).children = (p :: ps).map (fun q => { mkText "p" q with tail := some nl1 }) := rfl
    rw [hc, hm]
    exact hroot
  unfold TreeProc.prettify
  rw [h1, h2 TreeProc.brRule hbr (by simp [TreeProc.brRule, TreeProc.tagIs, parasTreeP, Node.el]),
    h2 TreeProc.preRule hpre (by simp [TreeProc.preRule, TreeProc.tagIs, parasTreeP, Node.el])]

theorem unescapeKids_paras (ps : List Str) (h : ∀ p ∈ ps, TreeProc.unescapeText 0 p = some p) :
    TreeProc.unescapeKids (ps.map (fun p => { mkText "p" p with tail := some nl1 })) =
      some (ps.map (fun p => { mkText "p" p with tail := some nl1 })) := by
  have t3 : TreeProc.unescapeText 0 ['\n'] = some ['\n'] := by decide
  induction ps with
  | nil => rfl
  | cons p r ih =>
    have hp := h p List.mem_cons_self
    have h1 : (if Node.truthy (some p) = true then (TreeProc.unescapeText 0 p).map some else some (some p)) =
        some (some p) := by
      cases p with
      | nil => rfl
      | cons c r => simp [Node.truthy, hp]
    simp only [List.map_cons, TreeProc.unescapeKids, ih (fun q hq => h q (List.mem_cons_of_mem _ hq))]
    have t1 : Node.truthy (some ['\n']) = true := rfl
    have t2 : Node.truthy none = false := rfl
    simp [mkText, Node.el, TreeProc.unescapeTree, TreeProc.unescapeKids, TreeProc.unescAttrs, nl1, h1, t1, t3]

theorem unescape_parasTreeP (ps : List Str) (h : ∀ p ∈ ps, TreeProc.unescapeText 0 p = some p) :
    TreeProc.unescapeTree (parasTreeP ps) = some (parasTreeP ps) := by
  have t3 : TreeProc.unescapeText 0 ['\n'] = some ['\n'] := by decide
  have hk := unescapeKids_paras ps h
  simp only [parasTreeP, Node.el, TreeProc.unescapeTree, hk]
  simp [TreeProc.unescAttrs, nl1, t3, Node.truthy]

theorem serializeList_paras (fmt : Ser.Fmt) (ps : List Str) (h : ∀ p ∈ ps, p ≠ []) :
    Ser.serializeList fmt (ps.map (fun p => { mkText "p" p with tail := some nl1 })) =
      ps.flatMap (fun p => par (Ser.escCdata p) ++ ['\n']) := by
  have e7 : Ser.escCdata ['\n'] = ['\n'] := by decide
  induction ps with
  | nil => rfl
  | cons p r ih =>
    obtain ⟨c, t, rfl⟩ : ∃ c t, p = c :: t := by
      have := h p List.mem_cons_self
      cases p <;> simp_all
    simp only [List.map_cons, Ser.serializeList, List.flatMap_cons, ih (fun q hq => h q (List.mem_cons_of_mem _ hq))]
    congr 1
    simp only [mkText, Node.el]
    rw [serialize_plain fmt _ _ _ _ _ _ (by decide) (by decide)]
    simp [Ser.serializeList, Node.truthy, nl1, e7, par]

theorem serialize_parasTreeP (fmt : Ser.Fmt) (ps : List Str) (h : ∀ p ∈ ps, p ≠ []) :
    Ser.serialize fmt (parasTreeP ps) =
      "<div>".toList ++ ('\n' :: ps.flatMap (fun p => par (Ser.escCdata p) ++ ['\n'])) ++ "</div>\n".toList := by
  have e7 : Ser.escCdata ['\n'] = ['\n'] := by decide
  simp only [parasTreeP, Node.el]
  rw [serialize_plain fmt _ _ _ _ _ _ (by decide) (by decide), serializeList_paras fmt ps h]
  simp [Node.truthy, nl1, e7]

/-! ### I. the stashed HTML; the end of `convert` -/

open Probe StashAtomic

theorem fenceEscape1_append (a b : Str) : Code.fenceEscape1 (a ++ b) = Code.fenceEscape1 a ++ Code.fenceEscape1 b := by
  induction a with
  | nil => rfl
  | cons c r ih => simp [Code.fenceEscape1, ih]

theorem mem_fenceEscape {s : Str} {c : Char} (h : c ∈ Code.fenceEscape s) : c ∈ s ∨ c ∈ "&amp;lt;gt;quot;".toList := by
  rw [Code.fenceEscape_onepass] at h
  induction s with
  | nil => simp [Code.fenceEscape1] at h
  | cons d r ih =>
    simp only [Code.fenceEscape1, List.mem_append] at h
    rcases h with h | h
    · unfold Code.fesc1Char at h
      split at h
      · exact Or.inr (by revert h; simp; intro h; rcases h with h | h | h | h | h <;> simp [h])
      · split at h
        · exact Or.inr (by revert h; simp; intro h; rcases h with h | h | h | h <;> simp [h])
        · split at h
          · exact Or.inr (by revert h; simp; intro h; rcases h with h | h | h | h <;> simp [h])
          · split at h
            · exact Or.inr (by revert h; simp; intro h; rcases h with h | h | h | h | h | h <;> simp [h])
            · simp at h; exact Or.inl (by simp [h])
    · rcases ih h with h | h
      · exact Or.inl (List.mem_cons_of_mem _ h)
      · exact Or.inr h

theorem escAttrHtml_lang (lang : Str) (h : lang.all isLangChar = true) : Ser.escAttrHtml lang = lang := by
  have hc : ∀ c ∈ lang, c ≠ '&' ∧ c ≠ '<' ∧ c ≠ '>' := fun c hc =>
    have := isLangChar_clean (List.all_eq_true.1 h c hc)
    ⟨this.2.2.2.2.2.2.1, this.1, this.2.2.2.2.2.2.2.1⟩
  unfold Ser.escAttrHtml
  rw [escCdata_plain lang hc]
  apply replace_id_of_not_contains
  rw [contains_eq_false_iff]
  rintro a b rfl
  exact (isLangChar_clean (List.all_eq_true.1 h '"' (by simp))).2.2.2.2.2.2.2.2.1 rfl

/-- what the preprocessor stashes for the block is the HTML of the statements -/
theorem blockHtmlA_eq (lang b : Str) (h : lang.all isLangChar = true) :
    blockHtmlA [] [] lang (b ++ ['\n']) = codeHtml lang b := by
  have e : Code.fenceEscape (b ++ ['\n']) = Code.fenceEscape b ++ ['\n'] := by
    rw [Code.fenceEscape_onepass, Code.fenceEscape_onepass, fenceEscape1_append]; rfl
  have e2 : "\n</code></pre>".toList = '\n' :: "</code></pre>".toList := by decide
  rw [blockHtmlA_plain]
  unfold blockHtml codeHtml langAttr
  rw [e, escAttrHtml_lang lang h, e2]
  simp only [List.append_assoc, List.cons_append, List.nil_append]

theorem pre_open_split : "<pre><code".toList = "<pre>".toList ++ "<code".toList := by decide
theorem pre_close_split : "\n</code></pre>".toList = "\n</code></pre".toList ++ ['>'] := by decide

theorem codeHtml_shape (lang b : Str) : ∃ rest, codeHtml lang b = "<pre>".toList ++ rest ∧ ∃ r2, rest = r2 ++ ['>'] := by
  refine ⟨"<code".toList ++ langAttr lang ++ ['>'] ++ Code.fenceEscape b ++ "\n</code></pre>".toList, ?_,
    "<code".toList ++ langAttr lang ++ ['>'] ++ Code.fenceEscape b ++ "\n</code></pre".toList, ?_⟩
  · unfold codeHtml
    rw [pre_open_split]
    simp only [List.append_assoc]
  · rw [pre_close_split]
    simp only [List.append_assoc]

theorem blockLevelGroup_pre (rest : Str) :
    Post.blockLevelGroup ('<' :: 'p' :: 'r' :: 'e' :: '>' :: rest) = some ['p', 'r', 'e'] := rfl

theorem isBlockLevelHtml_pre (rest : Str) :
    Post.isBlockLevelHtml TreeProc.defaultBlockLevel ("<pre>".toList ++ rest) = true := by
  have h1 : "<pre>".toList ++ rest = '<' :: 'p' :: 'r' :: 'e' :: '>' :: rest := rfl
  rw [h1]
  unfold Post.isBlockLevelHtml
  rw [blockLevelGroup_pre]
  exact CodeLaw.bl_pre

theorem stx_not_mem_codeHtml (lang b : Str) (hl : lang.all isLangChar = true) (hb : Post.STX ∉ b) :
    Post.STX ∉ codeHtml lang b := by
  intro hm
  unfold codeHtml at hm
  rcases List.mem_append.1 hm with hm | hm
  · rcases List.mem_append.1 hm with hm | hm
    · rcases List.mem_append.1 hm with hm | hm
      · rcases List.mem_append.1 hm with hm | hm
        · revert hm; decide
        · unfold langAttr at hm
          split at hm
          · simp at hm
          · rcases List.mem_append.1 hm with hm | hm
            · rcases List.mem_append.1 hm with hm | hm
              · revert hm; decide
              · exact (isLangChar_clean (List.all_eq_true.1 hl _ hm)).2.2.2.1 rfl
            · revert hm; decide
      · revert hm; decide
    · rcases mem_fenceEscape hm with hm | hm
      · exact hb hm
      · revert hm; decide
  · revert hm; decide

theorem flatMap_congr' {α : Type} (l : List α) (f g : α → Str) (h : ∀ x ∈ l, f x = g x) : l.flatMap f = l.flatMap g := by
  induction l with
  | nil => rfl
  | cons a r ih => simp [h a List.mem_cons_self, ih (fun x hx => h x (List.mem_cons_of_mem _ hx))]

theorem flatMap_shift (l : List Str) :
    '\n' :: l.flatMap (fun q => par q ++ ['\n']) = l.flatMap (fun q => '\n' :: par q) ++ ['\n'] := by
  induction l with
  | nil => rfl
  | cons q r ih =>
    simp only [List.flatMap_cons, List.cons_append, List.append_assoc]
    rw [← ih]
    simp

theorem stx_not_mem_par {p : Str} (h : Post.STX ∉ p) : Post.STX ∉ par p := by
  intro hm
  simp only [par, List.mem_append] at hm
  rcases hm with (hm | hm) | hm
  · revert hm; decide
  · exact h hm
  · revert hm; decide

theorem stx_not_mem_flatMap (l : List Str) (f : Str → Str) (h : ∀ p ∈ l, Post.STX ∉ f p) : Post.STX ∉ l.flatMap f := by
  intro hm
  obtain ⟨p, hp, hc⟩ := List.mem_flatMap.1 hm
  exact h p hp hc

theorem getLast?_append_snoc (a b : Str) (c : Char) : (a ++ (b ++ [c])).getLast? = some c := by
  rw [← List.append_assoc]; simp

/-- a document of the shape "lines each starting with `<` and ending with `>`" is its own strip -/
theorem strip_docHtml (pre post : List Str) (x : Str) (hx : ∃ r, x = '<' :: r ∧ ∃ r2, r = r2 ++ ['>']) :
    strip (docHtml pre x post) = docHtml pre x post := by
  obtain ⟨r, rfl, r2, rfl⟩ := hx
  apply strip_eq_self
  · intro c hc
    have : c = '<' := by
      cases pre with
      | nil => simpa [docHtml] using hc.symm
      | cons p ps => simpa [docHtml, par] using hc.symm
    subst this; decide
  · intro c hc
    have : c = '>' := by
      rcases List.eq_nil_or_concat post with rfl | ⟨init, q, hq⟩
      · have e : docHtml pre ('<' :: (r2 ++ ['>'])) [] =
            pre.flatMap (fun p => par p ++ ['\n']) ++ (('<' :: r2) ++ ['>']) := by
          simp [docHtml]
        rw [e, getLast?_append_snoc] at hc
        exact (Option.some.inj hc).symm
      · rw [List.concat_eq_append] at hq
        subst hq
        have e : docHtml pre ('<' :: (r2 ++ ['>'])) (init ++ [q]) =
            (pre.flatMap (fun p => par p ++ ['\n']) ++ ('<' :: (r2 ++ ['>'])) ++
              init.flatMap (fun q => '\n' :: par q)) ++ (('\n' :: "<p>".toList ++ q ++ "</p".toList) ++ ['>']) := by
          have e3 : "</p>".toList = "</p".toList ++ ['>'] := by decide
          simp only [docHtml, List.flatMap_append, List.flatMap_cons, List.flatMap_nil, List.append_nil, par, e3,
            List.append_assoc, List.cons_append]
        rw [e, getLast?_append_snoc] at hc
        exact (Option.some.inj hc).symm
    subst this; decide

/-- **the stages after the block parser**: the paragraphs come out as `<p>…</p>` lines, the placeholder's paragraph
    is replaced — `<p>` wrapper and all — by the stashed HTML of the block -/
theorem render_paras (tab : Nat) (fmt : Ser.Fmt) (refs : List (Str × Str × Option Str)) (pre post : List Str)
    (lang b : Str) (hpre : ∀ p ∈ pre, isParaLine p = true) (hpost : ∀ p ∈ post, isParaLine p = true)
    (hl : lang.all isLangChar = true) (hb : Post.STX ∉ b) :
    render { tab := tab, fmt := fmt } refs (parasTree (pre ++ PH :: post)) [codeHtml lang b] =
      .ok (docHtml pre (codeHtml lang b) post) := by
  have hstxp : ∀ p : Str, isParaLine p = true → Post.STX ∉ p := by
    intro p hp hm
    obtain ⟨_, _, _, _, hw⟩ := isParaLine_spec hp
    exact wordSp_ne (hw _ hm) (by decide) rfl
  have hall : ∀ p ∈ pre ++ PH :: post, p = PH ∨ isParaLine p = true := by
    intro p hp
    rcases List.mem_append.1 hp with hp | hp
    · exact Or.inr (hpre p hp)
    · rcases List.mem_cons.1 hp with rfl | hp
      · exact Or.inl rfl
      · exact Or.inr (hpost p hp)
  have hinert : ∀ p ∈ pre ++ PH :: post, InlineInert p := by
    intro p hp
    rcases hall p hp with rfl | h
    · exact inert_PH
    · exact inert_para h
  have hunesc : ∀ p ∈ pre ++ PH :: post, TreeProc.unescapeText 0 p = some p := by
    intro p hp
    rcases hall p hp with rfl | h
    · rw [PH_eq]; simpa using unescapeText_ph 0 [] [] (by simp) (by simp)
    · exact unescapeText_id p (hstxp p h)
  have hne : ∀ p ∈ pre ++ PH :: post, p ≠ [] := fun p hp => (hinert p hp).1
  have hesc : ∀ p ∈ pre ++ PH :: post, par (Ser.escCdata p) ++ ['\n'] = par p ++ ['\n'] := by
    intro p hp
    rcases hall p hp with rfl | h
    · have := escCdata_ph 0 [] []
      have n0 : Ser.escCdata [] = [] := by decide
      rw [PH_eq]
      simp only [List.nil_append, List.append_nil, n0] at this
      rw [this]
    · obtain ⟨_, _, _, _, hw⟩ := isParaLine_spec h
      rw [escCdata_plain p (fun c hc => by
        have := wordSp_clean (hw c hc); exact ⟨this.2.2.2.2.2.2.1, this.1, this.2.2.2.2.2.2.2⟩)]
  obtain ⟨p0, ps0, hps⟩ : ∃ p0 ps0, pre ++ PH :: post = p0 :: ps0 := by
    cases pre with
    | nil => exact ⟨_, _, rfl⟩
    | cons a r => exact ⟨_, _, rfl⟩
  -- the text handed to the postprocessors
  have hA : Post.STX ∉ pre.flatMap (fun p => par p ++ ['\n']) := by
    apply stx_not_mem_flatMap
    intro p hp hm
    rcases List.mem_append.1 hm with hm | hm
    · exact stx_not_mem_par (hstxp p (hpre p hp)) hm
    · revert hm; decide
  have hB : Post.STX ∉ post.flatMap (fun q => '\n' :: par q) := by
    apply stx_not_mem_flatMap
    intro p hp hm
    rcases List.mem_cons.1 hm with hm | hm
    · revert hm; decide
    · exact stx_not_mem_par (hstxp p (hpost p hp)) hm
  have hH := stx_not_mem_codeHtml lang b hl hb
  obtain ⟨rest, hshape, r2, hr2⟩ := codeHtml_shape lang b
  have hblock : Post.isBlockLevelHtml TreeProc.defaultBlockLevel (codeHtml lang b) = true := by
    rw [hshape]; exact isBlockLevelHtml_pre rest
  have hbody : '\n' :: (pre ++ PH :: post).flatMap (fun p => par p ++ ['\n']) =
      ['\n'] ++ (pre.flatMap (fun p => par p ++ ['\n']) ++ (pOpen ++ (htmlPlaceholder 0 ++ (pClose ++
        post.flatMap (fun q => '\n' :: par q))))) ++ ['\n'] := by
    have := flatMap_shift post
    simp only [List.flatMap_append, List.flatMap_cons, par, pOpen, pClose, ← PH_eq, List.append_assoc,
      List.cons_append, List.nil_append] at this ⊢
    rw [this]
  have hsub : Post.subPass TreeProc.defaultBlockLevel [codeHtml lang b] 0
      (pre.flatMap (fun p => par p ++ ['\n']) ++ (pOpen ++ (htmlPlaceholder 0 ++ (pClose ++
        post.flatMap (fun q => '\n' :: par q))))) = docHtml pre (codeHtml lang b) post := by
    rw [subPass_wrapped _ _ 0 (codeHtml lang b) _ _ rfl hA, hblock, subPass_fix _ _ _ (no_prefix_of_no_stx hB)]
    simp only [docHtml, if_true, List.append_assoc]
  have hdoc : Post.STX ∉ docHtml pre (codeHtml lang b) post := by
    intro hm
    simp only [docHtml, List.mem_append] at hm
    rcases hm with (hm | hm) | hm
    · exact hA hm
    · exact hH hm
    · exact hB hm
  have hraw := rawHtml_of_fix TreeProc.defaultBlockLevel [codeHtml lang b] 2 _ _ (by simp) hsub
    (no_prefix_of_no_stx hdoc)
  have hstrip1 : strip (pre.flatMap (fun p => par p ++ ['\n']) ++ (pOpen ++ (htmlPlaceholder 0 ++ (pClose ++
      post.flatMap (fun q => '\n' :: par q))))) = pre.flatMap (fun p => par p ++ ['\n']) ++ (pOpen ++
        (htmlPlaceholder 0 ++ (pClose ++ post.flatMap (fun q => '\n' :: par q)))) := by
    have e3 : pClose = "</p".toList ++ ['>'] := by decide
    have e4 : pOpen = '<' :: "p>".toList := by decide
    have := strip_docHtml pre post (pOpen ++ (htmlPlaceholder 0 ++ pClose))
      ⟨"p>".toList ++ (htmlPlaceholder 0 ++ pClose), by rw [e4]; rfl,
        "p>".toList ++ (htmlPlaceholder 0 ++ "</p".toList), by rw [e3]; simp only [List.append_assoc]⟩
    simpa only [docHtml, List.append_assoc] using this
  have hstrip2 := strip_docHtml pre post (codeHtml lang b) ⟨"pre>".toList ++ rest, by rw [hshape]; rfl, "pre>".toList ++ r2, by rw [hr2]; simp only [List.append_assoc]⟩
  unfold render
  rw [run_parasTree _ _ _ hinert]
  simp only
  rw [hps, prettify_parasTree, ← hps, unescape_parasTreeP _ hunesc]
  simp only
  rw [serialize_parasTreeP _ _ hne, flatMap_congr' _ _ _ hesc, hbody]
  unfold Post.finish
  rw [CodeLaw.topLevelStrip_div, strip_append_of_blank (by decide) (by decide), hstrip1]
  simp only [Post.post, Post.rawHtmlFuel, List.length_cons, List.length_nil]
  rw [hraw]
  simp only [Option.map_some]
  rw [ampSub_of_no_stx hdoc, hstrip2]

/-! ### the vocabulary spelt out (lemmas free of string literals; the literals are supplied by `decide`) -/

theorem docHtml_single (x : Str) : docHtml [] x [] = x := by simp [docHtml]

theorem docSource_single (x : Str) : docSource [] x [] = x := rfl

theorem codeHtml_nolang_of (b A : Str) (hA : "<pre><code".toList ++ langAttr [] ++ ['>'] = A) :
    codeHtml [] b = A ++ Code.fenceEscape b ++ "\n</code></pre>".toList := by
  subst hA; rfl

theorem codeHtml_lang_of (lang b Q1 Q2 : Str) (hne : lang ≠ [])
    (h1 : "<pre><code".toList ++ " class=\"language-".toList = Q1) (h2 : ['"'] ++ ['>'] = Q2) :
    codeHtml lang b = Q1 ++ lang ++ Q2 ++ Code.fenceEscape b ++ "\n</code></pre>".toList := by
  subst h1 h2
  have h3 : langAttr lang = " class=\"language-".toList ++ lang ++ ['"'] := by
    cases lang with
    | nil => exact absurd rfl hne
    | cons c r => rfl
  unfold codeHtml
  rw [h3]
  simp only [List.append_assoc]

theorem fenceBlock_of (n : Nat) (ch : Char) (lang b NL : Str) (h : ['\n'] = NL) :
    fenceBlock n ch lang b = List.replicate n ch ++ lang ++ NL ++ b ++ NL ++ List.replicate n ch := by
  subst h
  simp only [fenceBlock, List.append_assoc, List.cons_append, List.nil_append]

theorem docSource_after_of (p blk S : Str) (h : ['\n', '\n'] = S) : docSource [p] blk [] = p ++ S ++ blk := by
  subst h; simp only [docSource, List.cons_append, List.nil_append, join]

theorem docSource_before_of (q blk S : Str) (h : ['\n', '\n'] = S) : docSource [] blk [q] = blk ++ S ++ q := by
  subst h; simp only [docSource, List.nil_append, join]

theorem docSource_between_of (p q blk S : Str) (h : ['\n', '\n'] = S) :
    docSource [p] blk [q] = p ++ S ++ blk ++ S ++ q := by
  subst h; simp only [docSource, List.cons_append, List.nil_append, join, List.append_assoc]

theorem docHtml_after_of (p x O C : Str) (h1 : "<p>".toList = O) (h2 : "</p>".toList ++ ['\n'] = C) :
    docHtml [p] x [] = O ++ p ++ C ++ x := by
  subst h1 h2
  simp only [docHtml, par, List.flatMap_cons, List.flatMap_nil, List.append_nil, List.append_assoc]

theorem docHtml_before_of (q x O C : Str) (h1 : '\n' :: "<p>".toList = O) (h2 : "</p>".toList = C) :
    docHtml [] x [q] = x ++ O ++ q ++ C := by
  subst h1 h2
  simp only [docHtml, par, List.flatMap_cons, List.flatMap_nil, List.append_nil, List.nil_append,
    List.append_assoc, List.cons_append]

theorem docHtml_between_of (p q x O1 C1 O2 C2 : Str) (h1 : "<p>".toList = O1) (h2 : "</p>".toList ++ ['\n'] = C1)
    (h3 : '\n' :: "<p>".toList = O2) (h4 : "</p>".toList = C2) :
    docHtml [p] x [q] = O1 ++ p ++ C1 ++ x ++ O2 ++ q ++ C2 := by
  subst h1 h2 h3 h4
  simp only [docHtml, par, List.flatMap_cons, List.flatMap_nil, List.append_nil, List.nil_append,
    List.append_assoc, List.cons_append]

/-! ### J. `convertX` on the document -/

/-- the pipeline after `NormalizeWhitespace`: whatever the source is, when its normalised text is the paragraphs and
    the block with body `b'` -/
theorem convert_fencedDoc_core (tab : Nat) (htab : 0 < tab) (fmt : Ser.Fmt) (n : Nat) (ch : Char) (lang b' : Str)
    (pre post : List Str) (src : Str) (hch : ch = '~' ∨ ch = '`') (hn : 3 ≤ n) (hlang : isLang lang = true)
    (hpre : ∀ p ∈ pre, isParaLine p = true) (hpost : ∀ p ∈ post, isParaLine p = true)
    (hlt : src.contains '<' = false) (hblank : Normalize.isBlankDoc src = false)
    (hnorm : Normalize.normalize tab src = paras pre ++ (fenceBlock n ch lang b' ++ '\n' :: '\n' :: paras post))
    (hclose : ∀ l ∈ lines b', isClose (List.replicate n ch) l = false) (hstx : Post.STX ∉ b') :
    convertX { fencedCode := true } { tab := tab, fmt := fmt } src = .ok (docHtml pre (codeHtml lang b') post) := by
  have hall : lang.all isLangChar = true := by
    simp only [isLang, Bool.and_eq_true] at hlang; exact hlang.1
  rw [convertX_fenced, hlt, hblank]
  simp only [Bool.false_eq_true, if_false]
  rw [hnorm, fencedRun_doc n ch lang b' pre post hch hn hlang hclose hpre hpost]
  simp only
  rw [extract_doc pre post hpre hpost,
    parseDocument_paras tab htab pre post PH (fun p hp => paraLine_para (hpre p hp)) paraLine_PH
      (fun p hp => paraLine_para (hpost p hp))]
  simp only [List.reverse_nil]
  rw [blockHtmlA_eq lang b' hall]
  exact render_paras tab fmt [] pre post lang b' hpre hpost hall hstx

/-- **`Markdown.convert` with `fenced_code` on a fenced block among paragraphs** -/
theorem convert_fencedDoc (tab : Nat) (htab : 0 < tab) (fmt : Ser.Fmt) (n : Nat) (ch : Char) (lang b : Str)
    (pre post : List Str) (h : FencedDoc n ch lang b pre post) :
    convertX { fencedCode := true } { tab := tab, fmt := fmt } (docSource pre (fenceBlock n ch lang b) post) =
      .ok (docHtml pre (codeHtml lang b) post) :=
  convert_fencedDoc_core tab htab fmt n ch lang b pre post _ h.hch h.hn h.hlang h.hpre h.hpost h.noLt h.notBlank
    (h.normalize tab) (bodyOk_spec h.hbody).1 (fun hm => ((bodyOk_spec h.hbody).2.2 _ hm).2.2.2.1 rfl)

/-! ### K. the output read back by the strict reader -/

open Ser Code

/-- one character of a fenced body as the reader of text content sees it in the output: `"` was written as the
    reference `&quot;` (which `_escape_cdata` never writes, so the text reader keeps it as a reference), every other
    character — `&`, `<`, `>` included — is read as itself -/
def bodyTok (c : Char) : Tok := if c = '"' then .ent "quot".toList else .ch c

theorem ampSub_quot (t : Str) : Ser.ampSub ("&quot;".toList ++ t) = "&quot;".toList ++ Ser.ampSub t := by
  simp [Ser.ampSub, entLen, Ser.runSemi, spanLen, isAlnumI, isDig]

theorem ampSub_fenceEscape1 (s : Str) : Ser.ampSub (fenceEscape1 s) = fenceEscape1 s := by
  induction s with
  | nil => rfl
  | cons c r ih =>
    simp only [fenceEscape1, fesc1Char]
    split
    · rw [ampSub_amp, ih]
    · split
      · rw [ampSub_lt, ih]
      · split
        · rw [ampSub_gt, ih]
        · split
          · rw [ampSub_quot, ih]
          · rename_i h _ _ _
            simp [Ser.ampSub, h, ih]

theorem escCdata_fenceEscape1 (s : Str) : escCdata (fenceEscape1 s) = fenceEscape1 s := by
  unfold escCdata
  rw [ampSub_fenceEscape1, Code.replace_single, Code.replace_single,
    flatMap_sub1_id _ _ _ (fun c hc => (mem_fenceEscape1 s c hc).1),
    flatMap_sub1_id _ _ _ (fun c hc => (mem_fenceEscape1 s c hc).2.1)]

theorem lenient_quot_cdata (t : Str) :
    lenient cdata 0 ("&quot;".toList ++ t) = Tok.ent "quot".toList :: lenient cdata 0 t := by
  simp [lenient, entLen, Ser.runSemi, spanLen, isAlnumI, isDig, tokOf, cdata]

theorem lenient_cdata_fenceEscape1 (s : Str) : lenient cdata 0 (fenceEscape1 s) = s.map bodyTok := by
  induction s with
  | nil => rfl
  | cons c r ih =>
    simp only [fenceEscape1, fesc1Char]
    split
    · rename_i h; rw [lenient_amp, ih, h]; rfl
    · split
      · rename_i h; rw [lenient_lt, ih, h]; rfl
      · split
        · rename_i h; rw [lenient_gt, ih, h]; rfl
        · split
          · rename_i h; rw [lenient_quot_cdata, ih, h]; rfl
          · rename_i h _ _ h4
            simp [lenient, h, ih, bodyTok, h4]

/-- the attributes of the `code` element -/
def langAttrs (lang : Str) : List (Str × Str) :=
  if lang.isEmpty then [] else [("class".toList, "language-".toList ++ lang)]

/-- … as the reader returns them -/
def langToks (lang : Str) : List (Str × List Tok) :=
  if lang.isEmpty then [] else [("class".toList, ("language-".toList ++ lang).map Tok.ch)]

/-- the element the output denotes: `pre` > `code` (with the language class) > the escaped text -/
def codeTree (lang T : Str) : Node :=
  ⟨.name "pre".toList, [], none, false,
    [⟨.name "code".toList, langAttrs lang, some T, true, [], none, false⟩], none, false⟩

theorem langName_plain (lang : Str) (h : lang.all isLangChar = true) :
    ∀ c ∈ "language-".toList ++ lang, c ≠ '&' ∧ c ≠ '<' ∧ c ≠ '>' ∧ c ≠ '"' := by
  intro c hc
  rcases List.mem_append.1 hc with hc | hc
  · have h0 : ∀ c ∈ "language-".toList, c ≠ '&' ∧ c ≠ '<' ∧ c ≠ '>' ∧ c ≠ '"' := by decide
    exact h0 c hc
  · have := isLangChar_clean (List.all_eq_true.1 h c hc)
    exact ⟨this.2.2.2.2.2.2.1, this.1, this.2.2.2.2.2.2.2.1, this.2.2.2.2.2.2.2.2.1⟩

theorem escAttrHtml_plain (s : Str) (h : ∀ c ∈ s, c ≠ '&' ∧ c ≠ '<' ∧ c ≠ '>' ∧ c ≠ '"') : escAttrHtml s = s := by
  unfold escAttrHtml
  rw [escCdata_plain s (fun c hc => ⟨(h c hc).1, (h c hc).2.1, (h c hc).2.2.1⟩)]
  apply replace_id_of_not_contains
  rw [contains_eq_false_iff]
  rintro a b rfl
  exact (h '"' (by simp)).2.2.2 rfl

theorem serialize_codeTree_eq (fmt : Fmt) (lang b : Str) (h : lang.all isLangChar = true) :
    serialize fmt (codeTree lang (fenceEscape (b ++ ['\n']))) = codeHtml lang b := by
  have e : fenceEscape (b ++ ['\n']) = fenceEscape b ++ ['\n'] := by
    rw [fenceEscape_onepass, fenceEscape_onepass, fenceEscape1_append]; rfl
  have hesc : escCdata (fenceEscape (b ++ ['\n'])) = fenceEscape b ++ ['\n'] := by
    rw [fenceEscape_onepass, escCdata_fenceEscape1, ← fenceEscape_onepass, e]
  have e1 : isEmptyTag "pre".toList = false := by decide
  have e2 : isEmptyTag "code".toList = false := by decide
  have r1 : isRawTextTag "pre".toList = false := by decide
  have r2 : isRawTextTag "code".toList = false := by decide
  have hne : fenceEscape (b ++ ['\n']) ≠ [] := by rw [e]; simp
  have htr : Node.truthy (some (fenceEscape (b ++ ['\n']))) = true := by
    cases hf : fenceEscape (b ++ ['\n']) with
    | nil => exact absurd hf hne
    | cons c r => rfl
  have hw : writeAttrs fmt (sortAttrs (langAttrs lang)) = langAttr lang := by
    unfold langAttrs langAttr
    split
    · rfl
    · have hv := escAttrHtml_plain _ (langName_plain lang h)
      have hk : ("class".toList = "language-".toList ++ lang) = False := by
        simp
      simp only [sortAttrs, List.foldr_cons, List.foldr_nil, insAttr, writeAttrs, hv, hk, decide_false,
        Bool.false_and, Bool.false_eq_true, if_false, List.append_nil]
      have q1 : (' ' :: "class".toList ++ "=\"".toList) = " class=\"language-".toList.take 8 := by decide
      have q2 : " class=\"language-".toList = ' ' :: "class".toList ++ "=\"".toList ++ "language-".toList := by decide
      rw [q2]
      simp only [List.append_assoc, List.cons_append]
  have e3 : "\n</code></pre>".toList = ['\n'] ++ "</code>".toList ++ "</pre>".toList := by decide
  have e4 : "<pre><code".toList = '<' :: "pre".toList ++ ['>'] ++ ('<' :: "code".toList) := by decide
  have hs0 : sortAttrs ([] : List (Str × Str)) = [] := rfl
  have t0 : Node.truthy (none : Option Str) = false := rfl
  have e5 : "</".toList ++ "code".toList ++ ['>'] = "</code>".toList := by decide
  have e6 : "</".toList ++ "pre".toList ++ ['>'] = "</pre>".toList := by decide
  unfold codeTree codeHtml
  rw [e3, e4, ← e5, ← e6]
  simp only [serialize, element, serializeList, e1, e2, r1, r2, htr, t0, hesc, hw, hs0, writeAttrs,
    Bool.and_false, Bool.false_eq_true, if_false, if_true, Option.getD_some, List.append_nil, List.append_assoc,
    List.cons_append, List.nil_append]

theorem wf_codeTree (lang T : Str) : WFTree (codeTree lang T) = true := by
  have n1 : isName ['p', 'r', 'e'] = true := by decide
  have n2 : isName ['c', 'o', 'd', 'e'] = true := by decide
  have n3 : isName ['c', 'l', 'a', 's', 's'] = true := by decide
  have e1 : isEmptyTag ['p', 'r', 'e'] = false := by decide
  have e2 : isEmptyTag ['c', 'o', 'd', 'e'] = false := by decide
  have r1 : isRawTextTag ['p', 'r', 'e'] = false := by decide
  have r2 : isRawTextTag ['c', 'o', 'd', 'e'] = false := by decide
  unfold codeTree langAttrs
  split <;> simp [WFTree, WFList, keysNodup, n1, n2, n3, e1, e2, r1, r2]

theorem canon_codeTree (lang b : Str) (h : lang.all isLangChar = true) :
    canon (codeTree lang (fenceEscape (b ++ ['\n']))) =
      [.elem "pre".toList [] [.elem "code".toList (langToks lang) [.text ((b ++ ['\n']).map bodyTok)]]] := by
  have hl : lenient cdata 0 (fenceEscape (b ++ ['\n'])) = (b ++ ['\n']).map bodyTok := by
    rw [fenceEscape_onepass, lenient_cdata_fenceEscape1]
  have hne : fenceEscape (b ++ ['\n']) ≠ [] := by
    rw [fenceEscape_onepass, fenceEscape1_append]; simp [fenceEscape1, fesc1Char]
  have htr : Node.truthy (some (fenceEscape (b ++ ['\n']))) = true := by
    cases hf : fenceEscape (b ++ ['\n']) with
    | nil => exact absurd hf hne
    | cons c r => rfl
  have e1 : isEmptyTag "pre".toList = false := by decide
  have e2 : isEmptyTag "code".toList = false := by decide
  have r1 : isRawTextTag "pre".toList = false := by decide
  have r2 : isRawTextTag "code".toList = false := by decide
  have hattrs : (sortAttrs (langAttrs lang)).map (fun kv => (kv.1, lenient attr 0 kv.2)) = langToks lang := by
    unfold langAttrs langToks
    split
    · rfl
    · simp only [sortAttrs, List.foldr_cons, List.foldr_nil, insAttr, List.map_cons, List.map_nil]
      rw [lenient_plain attr _ (fun c hc => (langName_plain lang h c hc).1)]
  have hmap : (b ++ ['\n']).map bodyTok ≠ [] := by simp
  have hs0 : sortAttrs ([] : List (Str × Str)) = [] := rfl
  have t0 : Node.truthy (none : Option Str) = false := rfl
  unfold canon codeTree
  simp only [canonItems, canonList, textItem, e1, e2, r1, r2, htr, t0, hl, hattrs, hs0, Bool.false_eq_true, if_false,
    if_true, Option.getD_some, List.append_nil, List.nil_append, List.map_nil]
  cases hm : (b ++ ['\n']).map bodyTok with
  | nil => exact absurd hm hmap
  | cons t ts => simp [mergeTexts]

/-- **the HTML of the block, read by the strict reader of the serializer's output**, is a `pre` holding a `code`
    (with the language class) holding one text: the body and its final line feed, one token per character -/
theorem readForest_codeHtml (fmt : Fmt) (lang b : Str) (h : lang.all isLangChar = true) :
    readForest fmt (codeHtml lang b) =
      some [.elem "pre".toList [] [.elem "code".toList (langToks lang) [.text ((b ++ ['\n']).map bodyTok)]]] := by
  rw [← serialize_codeTree_eq fmt lang b h, roundtrip' fmt _ (wf_codeTree _ _), canon_codeTree lang b h]

/-! ### L. any body: what `NormalizeWhitespace` makes of it is what comes out -/

open Normalize

/-- what `NormalizeWhitespace` makes of the lines of a body (the body and the line feed that ends it): STX/ETX
    removed, CRLF and CR turned into LF, tabs expanded from column 0 of each line, lines of spaces emptied -/
def normLines (tab : Nat) (b : Str) : Str :=
  wsLinesAux (some 0) (expandtabsAux tab 0 (nlAux false (stripCtl b ++ ['\n'])))

/-- the normalised body: `normLines` without the final line feed -/
def normBody (tab : Nat) (b : Str) : Str := (normLines tab b).dropLast

theorem wsLinesAux_snoc_nl (st : Option Nat) (x : Str) : ∃ r, wsLinesAux st (x ++ ['\n']) = r ++ ['\n'] := by
  induction x generalizing st with
  | nil => exact ⟨[], by cases st <;> simp [wsLinesAux]⟩
  | cons c x ih =>
    cases st with
    | none =>
      by_cases hc : c = '\n'
      · obtain ⟨r, hr⟩ := ih (some 0)
        exact ⟨'\n' :: r, by simp [wsLinesAux, hc, hr]⟩
      · obtain ⟨r, hr⟩ := ih none
        exact ⟨c :: r, by simp [wsLinesAux, hc, hr]⟩
    | some k =>
      by_cases hs : c = ' '
      · obtain ⟨r, hr⟩ := ih (some (k + 1))
        exact ⟨r, by simp [wsLinesAux, hs, hr]⟩
      · by_cases hc : c = '\n'
        · obtain ⟨r, hr⟩ := ih (some 0)
          exact ⟨'\n' :: r, by simp [wsLinesAux, hc, hr]⟩
        · obtain ⟨r, hr⟩ := ih none
          exact ⟨List.replicate k ' ' ++ c :: r, by simp [wsLinesAux, hs, hc, hr]⟩

theorem normLines_eq (tab : Nat) (b : Str) : normLines tab b = normBody tab b ++ ['\n'] := by
  obtain ⟨q, hq⟩ := nlAux_snoc_nl false (stripCtl b) (Or.inl rfl)
  obtain ⟨r, hr⟩ := wsLinesAux_snoc_nl (some 0) (expandtabsAux tab 0 q)
  have : normLines tab b = r ++ ['\n'] := by
    unfold normLines
    rw [hq, expandtabsAux_snoc_nl, hr]
  unfold normBody
  rw [this]
  simp

theorem mem_normLines {tab : Nat} {b : Str} {c : Char} (h : c ∈ normLines tab b) :
    c ≠ Char.ofNat 2 ∧ c ≠ Char.ofNat 3 ∧ (c = ' ' ∨ c = '\n' ∨ c ∈ b) := by
  have h1 : c = ' ' ∨ c = '\n' ∨ (c ∈ b ∧ c ≠ Normalize.STX ∧ c ≠ Normalize.ETX) := by
    rcases mem_wsLinesAux h with h | h
    · exact Or.inl h
    · rcases (mem_expandtabsAux h).1 with h | h
      · exact Or.inl h
      · rcases (mem_nlAux h).1 with h | h
        · exact Or.inr (Or.inl h)
        · rcases List.mem_append.1 h with h | h
          · exact Or.inr (Or.inr (mem_stripCtl.1 h))
          · exact Or.inr (Or.inl (by simpa using h))
  rcases h1 with rfl | rfl | ⟨hb, h2, h3⟩
  · exact ⟨by decide, by decide, Or.inl rfl⟩
  · exact ⟨by decide, by decide, Or.inr (Or.inl rfl)⟩
  · exact ⟨h2, h3, Or.inr (Or.inr hb)⟩

theorem docSource_eq (pre : List Str) (blk : Str) (post : List Str) :
    docSource pre blk post = paras pre ++ (blk ++ post.flatMap (fun q => '\n' :: '\n' :: q)) := by
  have hpost : ∀ post : List Str, join ['\n', '\n'] (blk :: post) = blk ++ post.flatMap (fun q => '\n' :: '\n' :: q) := by
    intro post
    induction post generalizing blk with
    | nil => simp [join]
    | cons q r ih =>
      rw [join_cons_of_ne_nil _ _ (by simp), ih]
      simp
  unfold docSource
  induction pre with
  | nil => simpa [paras] using hpost post
  | cons p r ih =>
    rw [List.cons_append, join_cons_of_ne_nil _ _ (by simp), ih]
    simp [paras]

theorem flatMap_nl2 (post : List Str) :
    post.flatMap (fun q => '\n' :: '\n' :: q) ++ ['\n', '\n'] = '\n' :: '\n' :: paras post := by
  induction post with
  | nil => rfl
  | cons q r ih =>
    simp only [List.flatMap_cons, List.append_assoc, ih, paras, List.cons_append]

theorem clean_paras (l : List Str) (h : ∀ p ∈ l, isParaLine p = true) :
    ∀ c ∈ paras l, c ≠ Normalize.STX ∧ c ≠ Normalize.ETX ∧ c ≠ '\r' ∧ c ≠ '\t' := by
  intro c hc
  rcases mem_paras hc with rfl | ⟨p, hp, hcp⟩
  · decide
  · obtain ⟨_, _, _, _, hw⟩ := isParaLine_spec (h p hp)
    have := wordSp_clean (hw c hcp)
    exact ⟨this.2.2.2.1, this.2.2.2.2.1, this.2.1, this.2.2.1⟩

theorem stripCtl_clean (s : Str) (h : ∀ c ∈ s, c ≠ Normalize.STX ∧ c ≠ Normalize.ETX) : stripCtl s = s := by
  rw [stripCtl_eq_filter, List.filter_eq_self]
  intro c hc
  simp [notCtl, (h c hc).1, (h c hc).2]

theorem expandtabs_three (tab : Nat) (P1 q Y1 : Str) (hP : ∀ c ∈ P1, c ≠ '\t') (hcol : colAfter tab 0 P1 = 0)
    (hY : ∀ c ∈ Y1, c ≠ '\t') :
    expandtabsAux tab 0 (P1 ++ ((q ++ ['\n']) ++ Y1)) = P1 ++ ((expandtabsAux tab 0 q ++ ['\n']) ++ Y1) := by
  rw [Normalize.expandtabsAux_append, expandtabsAux_id _ _ _ hP, hcol, Normalize.expandtabsAux_append,
    colAfter_append_nl, expandtabsAux_snoc_nl, expandtabsAux_id _ _ _ hY]

/-- **`NormalizeWhitespace` on the document, any body**: the paragraphs, the fences and the language are left
    alone, the body is replaced by its normal form, two line feeds are appended -/
theorem normalize_doc (tab : Nat) (n : Nat) (ch : Char) (lang b : Str) (pre post : List Str)
    (hch : ch = '~' ∨ ch = '`') (hn : 3 ≤ n) (hlang : isLang lang = true)
    (hpre : ∀ p ∈ pre, isParaLine p = true) (hpost : ∀ p ∈ post, isParaLine p = true) :
    Normalize.normalize tab (docSource pre (fenceBlock n ch lang b) post) =
      paras pre ++ (fenceBlock n ch lang (normBody tab b) ++ '\n' :: '\n' :: paras post) := by
  have hall : lang.all isLangChar = true := by
    simp only [isLang, Bool.and_eq_true] at hlang; exact hlang.1
  -- the pieces around the body
  have hfence : ∀ c ∈ List.replicate n ch, c ≠ Normalize.STX ∧ c ≠ Normalize.ETX ∧ c ≠ '\r' ∧ c ≠ '\t' ∧ c ≠ '\n' ∧ c ≠ ' ' := by
    intro c hc
    have := List.eq_of_mem_replicate hc
    subst this
    rcases hch with rfl | rfl <;> decide
  have hP : ∀ c ∈ paras pre ++ (List.replicate n ch ++ lang),
      c ≠ Normalize.STX ∧ c ≠ Normalize.ETX ∧ c ≠ '\r' ∧ c ≠ '\t' := by
    intro c hc
    rcases List.mem_append.1 hc with hc | hc
    · exact clean_paras pre hpre c hc
    · rcases List.mem_append.1 hc with hc | hc
      · have := hfence c hc; exact ⟨this.1, this.2.1, this.2.2.1, this.2.2.2.1⟩
      · have := isLangChar_clean (List.all_eq_true.1 hall c hc)
        exact ⟨this.2.2.2.1, this.2.2.2.2.1, this.2.1, this.2.2.1⟩
  have hY : ∀ c ∈ List.replicate n ch ++ post.flatMap (fun q => '\n' :: '\n' :: q),
      c ≠ Normalize.STX ∧ c ≠ Normalize.ETX ∧ c ≠ '\r' ∧ c ≠ '\t' := by
    intro c hc
    rcases List.mem_append.1 hc with hc | hc
    · have := hfence c hc; exact ⟨this.1, this.2.1, this.2.2.1, this.2.2.2.1⟩
    · have hc' : c ∈ '\n' :: '\n' :: paras post := by
        rw [← flatMap_nl2]; exact List.mem_append_left _ hc
      rcases List.mem_cons.1 hc' with rfl | hc'
      · decide
      · rcases List.mem_cons.1 hc' with rfl | hc'
        · decide
        · exact clean_paras post hpost c hc'
  -- the source, split around the body
  have esrc : docSource pre (fenceBlock n ch lang b) post =
      ((paras pre ++ (List.replicate n ch ++ lang)) ++ ['\n']) ++ ((b ++ ['\n']) ++
        (List.replicate n ch ++ post.flatMap (fun q => '\n' :: '\n' :: q))) := by
    rw [docSource_eq]; simp [fenceBlock]
  have hP1 : ∀ c ∈ (paras pre ++ (List.replicate n ch ++ lang)) ++ ['\n'],
      c ≠ Normalize.STX ∧ c ≠ Normalize.ETX ∧ c ≠ '\r' ∧ c ≠ '\t' := by
    intro c hc
    rcases List.mem_append.1 hc with hc | hc
    · exact hP c hc
    · have : c = '\n' := by simpa using hc
      subst this; decide
  -- stage 1: STX/ETX
  have h1 : stripCtl (docSource pre (fenceBlock n ch lang b) post) =
      ((paras pre ++ (List.replicate n ch ++ lang)) ++ ['\n']) ++ ((stripCtl b ++ ['\n']) ++
        (List.replicate n ch ++ post.flatMap (fun q => '\n' :: '\n' :: q))) := by
    rw [esrc, stripCtl_append (paras pre ++ (List.replicate n ch ++ lang) ++ ['\n']),
      stripCtl_append (b ++ ['\n']), stripCtl_append b,
      stripCtl_clean _ (fun c hc => ⟨(hP1 c hc).1, (hP1 c hc).2.1⟩),
      stripCtl_clean _ (fun c hc => ⟨(hY c hc).1, (hY c hc).2.1⟩),
      stripCtl_clean ['\n'] (by decide)]
  -- stage 2: line ends
  obtain ⟨q, hq⟩ := nlAux_snoc_nl false (stripCtl b) (Or.inl rfl)
  have h2 : nlAux false (stripCtl (docSource pre (fenceBlock n ch lang b) post)) =
      ((paras pre ++ (List.replicate n ch ++ lang)) ++ ['\n']) ++ ((q ++ ['\n']) ++
        (List.replicate n ch ++ post.flatMap (fun q => '\n' :: '\n' :: q))) := by
    rw [h1, nlAux_append, endCR_append_singleton, nlAux_id _ (fun c hc => (hP1 c hc).2.2.1), nlAux_append,
      endCR_append_singleton]
    simp only [show decide ('\n' = '\r') = false from by decide]
    rw [hq, nlAux_id _ (fun c hc => (hY c hc).2.2.1)]
  -- stage 3: tabs
  have hY1 : ∀ c ∈ List.replicate n ch ++ post.flatMap (fun q => '\n' :: '\n' :: q) ++ ['\n', '\n'], c ≠ '\t' := by
    intro c hc
    rcases List.mem_append.1 hc with hc | hc
    · exact (hY c hc).2.2.2
    · have : c = '\n' := by simpa using hc
      subst this; decide
  have h3 : expandtabsAux tab 0 (nlAux false (stripCtl (docSource pre (fenceBlock n ch lang b) post)) ++ ['\n', '\n']) =
      ((paras pre ++ (List.replicate n ch ++ lang)) ++ ['\n']) ++ ((expandtabsAux tab 0 q ++ ['\n']) ++
        (List.replicate n ch ++ post.flatMap (fun q => '\n' :: '\n' :: q) ++ ['\n', '\n'])) := by
    rw [h2]
    have e : ((paras pre ++ (List.replicate n ch ++ lang)) ++ ['\n']) ++ ((q ++ ['\n']) ++
        (List.replicate n ch ++ post.flatMap (fun q => '\n' :: '\n' :: q))) ++ ['\n', '\n'] =
        ((paras pre ++ (List.replicate n ch ++ lang)) ++ ['\n']) ++ ((q ++ ['\n']) ++
          (List.replicate n ch ++ post.flatMap (fun q => '\n' :: '\n' :: q) ++ ['\n', '\n'])) := by
      simp only [List.append_assoc]
    rw [e]
    exact expandtabs_three tab _ q _ (fun c hc => (hP1 c hc).2.2.2) (colAfter_append_nl _ _ _) hY1
  -- stage 4: lines of spaces
  obtain ⟨r, hr⟩ := wsLinesAux_snoc_nl (some 0) (expandtabsAux tab 0 q)
  have hnl : normLines tab b = r ++ ['\n'] := by
    unfold normLines; rw [hq, expandtabsAux_snoc_nl, hr]
  have hnb : normBody tab b = r := by
    unfold normBody; rw [hnl]; simp
  have hopen : '\n' ∉ List.replicate n ch ++ lang := by
    intro hm
    rcases List.mem_append.1 hm with hm | hm
    · exact (hfence _ hm).2.2.2.2.1 rfl
    · exact (isLangChar_clean (List.all_eq_true.1 hall _ hm)).2.2.2.2.2.1 rfl
  have hink : (List.replicate n ch ++ lang).any (· != ' ') = true := by
    obtain ⟨k, hk⟩ : ∃ k, n = k + 1 := ⟨n - 1, by omega⟩
    have : ch ≠ ' ' := by rcases hch with rfl | rfl <;> decide
    simp [hk, List.replicate_succ, this]
  have hclose : '\n' ∉ List.replicate n ch := fun hm => (hfence _ hm).2.2.2.2.1 rfl
  have hink2 : (List.replicate n ch).any (· != ' ') = true := by
    obtain ⟨k, hk⟩ : ∃ k, n = k + 1 := ⟨n - 1, by omega⟩
    have : ch ≠ ' ' := by rcases hch with rfl | rfl <;> decide
    simp [hk, List.replicate_succ, this]
  have hpostws := ws_paras post hpost []
  simp only [List.append_nil, Normalize.wsLinesAux, List.replicate_zero] at hpostws
  rw [normalize_eq, h3]
  have e4 : ((paras pre ++ (List.replicate n ch ++ lang)) ++ ['\n']) ++ ((expandtabsAux tab 0 q ++ ['\n']) ++
      (List.replicate n ch ++ post.flatMap (fun q => '\n' :: '\n' :: q) ++ ['\n', '\n'])) =
      paras pre ++ ((List.replicate n ch ++ lang) ++ '\n' :: (expandtabsAux tab 0 q ++ '\n' ::
        (List.replicate n ch ++ '\n' :: ('\n' :: paras post)))) := by
    rw [List.append_assoc (List.replicate n ch), flatMap_nl2]
    simp only [List.append_assoc, List.cons_append, List.nil_append]
  rw [e4, ws_paras pre hpre, ws_some_line _ _ hopen (Or.inr hink), wsLinesAux_split, hr,
    ws_some_line _ _ hclose (Or.inr hink2), Normalize.wsLinesAux_nl, hpostws, hnb]
  simp only [fenceBlock, List.append_assoc, List.cons_append, List.nil_append]

/-- **`Markdown.convert` with `fenced_code`, any body without `<`**: the code of the output is the normalised body;
    the closing-fence condition is on the normalised body (a tab after a fence becomes spaces) -/
theorem convert_fencedDoc_any (tab : Nat) (htab : 0 < tab) (fmt : Ser.Fmt) (n : Nat) (ch : Char) (lang b : Str)
    (pre post : List Str) (hch : ch = '~' ∨ ch = '`') (hn : 3 ≤ n) (hlang : isLang lang = true)
    (hlt : '<' ∉ b) (hclose : noCloseLine (List.replicate n ch) (normBody tab b) = true)
    (hpre : ∀ p ∈ pre, isParaLine p = true) (hpost : ∀ p ∈ post, isParaLine p = true) :
    convertX { fencedCode := true } { tab := tab, fmt := fmt } (docSource pre (fenceBlock n ch lang b) post) =
      .ok (docHtml pre (codeHtml lang (normBody tab b)) post) := by
  have hall : lang.all isLangChar = true := by
    simp only [isLang, Bool.and_eq_true] at hlang; exact hlang.1
  have hmem : ∀ c ∈ docSource pre (fenceBlock n ch lang b) post, c ≠ '<' := by
    intro c hc
    have hc' : c ∈ paras (pre ++ fenceBlock n ch lang b :: post) := by
      rw [← join_nl2 _ (by simp)]
      exact List.mem_append_left _ hc
    rcases mem_paras hc' with rfl | ⟨p, hp, hcp⟩
    · decide
    · rcases List.mem_append.1 hp with hp | hp
      · obtain ⟨_, _, _, _, hw⟩ := isParaLine_spec (hpre p hp)
        exact (wordSp_clean (hw c hcp)).1
      · rcases List.mem_cons.1 hp with rfl | hp
        · rcases mem_fenceBlock hcp with rfl | hl | rfl | hb
          · rcases hch with rfl | rfl <;> decide
          · exact (isLangChar_clean (List.all_eq_true.1 hall c hl)).1
          · decide
          · exact fun e => hlt (e ▸ hb)
        · obtain ⟨_, _, _, _, hw⟩ := isParaLine_spec (hpost p hp)
          exact (wordSp_clean (hw c hcp)).1
  have hnolt : (docSource pre (fenceBlock n ch lang b) post).contains '<' = false := by
    rw [Bool.eq_false_iff]; intro hc
    exact hmem '<' (by simpa using hc) rfl
  have hblank : Normalize.isBlankDoc (docSource pre (fenceBlock n ch lang b) post) = false := by
    rw [Normalize.isBlankDoc_eq_all, Bool.eq_false_iff]
    intro ha
    have hm : ch ∈ docSource pre (fenceBlock n ch lang b) post := by
      obtain ⟨k, hk⟩ : ∃ k, n = k + 1 := ⟨n - 1, by omega⟩
      rw [docSource_eq]
      apply List.mem_append_right
      apply List.mem_append_left
      simp [fenceBlock, hk, List.replicate_succ]
    have := List.all_eq_true.1 ha ch hm
    rcases hch with rfl | rfl <;> revert this <;> decide
  refine convert_fencedDoc_core tab htab fmt n ch lang (normBody tab b) pre post _ hch hn hlang hpre hpost hnolt hblank
    (normalize_doc tab n ch lang b pre post hch hn hlang hpre hpost) (by simpa [noCloseLine] using hclose) ?_
  intro hm
  have : Post.STX ∈ normLines tab b := by rw [normLines_eq]; exact List.mem_append_left _ hm
  exact (mem_normLines this).1 rfl

/-- on the domain `bodyOk` the normaliser leaves the body alone -/
theorem normBody_of_bodyOk (tab n : Nat) (ch : Char) (b : Str) (h : bodyOk n ch b = true) : normBody tab b = b := by
  obtain ⟨_, h2, h3⟩ := bodyOk_spec h
  have e1 : stripCtl b = b := stripCtl_clean b (fun c hc => ⟨(h3 c hc).2.2.2.1, (h3 c hc).2.2.2.2⟩)
  have hbn : ∀ c ∈ b ++ ['\n'], c ≠ '\r' ∧ c ≠ '\t' := by
    intro c hc
    rcases List.mem_append.1 hc with hc | hc
    · exact ⟨(h3 c hc).2.1, (h3 c hc).2.2.1⟩
    · have : c = '\n' := by simpa using hc
      subst this; decide
  have e4 : wsLinesAux (some 0) (b ++ ['\n']) = b ++ ['\n'] := by
    have := ws_joinLines (lines b) (Py.splitC_ne_nil _ _) h2 []
    rw [lines_joinLines] at this
    simpa [wsLinesAux] using this
  unfold normBody normLines
  rw [e1, nlAux_id _ (fun c hc => (hbn c hc).1), expandtabsAux_id _ _ _ (fun c hc => (hbn c hc).2), e4]
  simp

/-! ### M. documents of paragraphs and several fenced blocks -/

/-- an item of a document: a one-line paragraph or a fenced block -/
inductive Item
  | para (p : Str)
  | fence (n : Nat) (ch : Char) (lang b : Str)

/-- the item as typed -/
def Item.src : Item → Str
  | .para p => p
  | .fence n ch lang b => fenceBlock n ch lang b

/-- the item as it must come out -/
def Item.html : Item → Str
  | .para p => par p
  | .fence _ _ lang b => codeHtml lang b

/-- the domain: paragraphs as before; fenced blocks with a fence of at least three backticks or tildes, a language
    name (possibly empty) and a body of the domain `bodyOk` -/
def Item.ok : Item → Bool
  | .para p => isParaLine p
  | .fence n ch lang b => (ch = '~' || ch = '`') && decide (3 ≤ n) && isLang lang && bodyOk n ch b

/-- the items separated by blank lines -/
def itemsSource (items : List Item) : Str := join ['\n', '\n'] (items.map Item.src)

/-- the expected output: one item per line -/
def itemsHtml (items : List Item) : Str := join ['\n'] (items.map Item.html)

theorem Item.ok_fence {n : Nat} {ch : Char} {lang b : Str} (h : (Item.fence n ch lang b).ok = true) :
    (ch = '~' ∨ ch = '`') ∧ 3 ≤ n ∧ isLang lang = true ∧ bodyOk n ch b = true := by
  have : (((ch = '~' ∨ ch = '`') ∧ 3 ≤ n) ∧ isLang lang = true) ∧ bodyOk n ch b = true := by
    simpa [Item.ok] using h
  exact ⟨this.1.1.1, this.1.1.2, this.1.2, this.2⟩

/-! #### the placeholder of the `k`-th block -/

theorem placeholder_eq (k : Nat) : Fenced.placeholder k = Probe.htmlPlaceholder k := by
  simp [Fenced.placeholder, Probe.htmlPlaceholder, Post.htmlPrefix, Post.STX, Post.ETX]

theorem placeholder_shape (k : Nat) :
    Fenced.placeholder k = (Char.ofNat 2 :: ("wzxhzdk:".toList ++ natToDec k)) ++ [Char.ofNat 3] := by
  simp [Fenced.placeholder]

theorem mem_placeholder {k : Nat} {c : Char} (h : c ∈ Fenced.placeholder k) :
    c ∈ [Char.ofNat 2, 'w', 'z', 'x', 'h', 'd', 'k', ':', Char.ofNat 3] ∨ isAsciiDigit c = true := by
  rw [placeholder_shape] at h
  simp only [List.mem_append, List.mem_cons, List.not_mem_nil, or_false] at h
  rcases h with (rfl | h | h) | rfl
  · exact Or.inl (by decide)
  · left
    have h0 : ∀ c ∈ "wzxhzdk:".toList, c ∈ [Char.ofNat 2, 'w', 'z', 'x', 'h', 'd', 'k', ':', Char.ofNat 3] := by decide
    exact h0 c h
  · exact Or.inr (natToDec_digits k c h)
  · exact Or.inl (by decide)

/-- a character that is no digit and none of the fixed characters of a placeholder does not occur in one -/
theorem ne_of_mem_placeholder {k : Nat} {c d : Char} (h : c ∈ Fenced.placeholder k)
    (h1 : d ∉ [Char.ofNat 2, 'w', 'z', 'x', 'h', 'd', 'k', ':', Char.ofNat 3]) (h2 : isAsciiDigit d = false) :
    c ≠ d := by
  intro e; subst e
  rcases mem_placeholder h with h | h
  · exact h1 h
  · rw [h] at h2; cases h2

theorem placeholder_head (k : Nat) : ∃ r, Fenced.placeholder k = Char.ofNat 2 :: r := ⟨_, rfl⟩

theorem paraLine_placeholder (k : Nat) : ParaLine (Fenced.placeholder k) := by
  obtain ⟨r, hr⟩ := placeholder_head k
  refine ⟨_, r, hr, ?_, by decide, by decide, by decide⟩
  rw [← hr]
  intro hm
  exact ne_of_mem_placeholder hm (by decide) (by decide) rfl

theorem inert_placeholder (k : Nat) : InlineInert (Fenced.placeholder k) := by
  obtain ⟨r, hr⟩ := placeholder_head k
  refine ⟨by rw [hr]; simp, ?_, ?_⟩
  · intro c hc
    exact ⟨ne_of_mem_placeholder hc (by decide) (by decide), ne_of_mem_placeholder hc (by decide) (by decide),
      ne_of_mem_placeholder hc (by decide) (by decide), ne_of_mem_placeholder hc (by decide) (by decide),
      ne_of_mem_placeholder hc (by decide) (by decide), ne_of_mem_placeholder hc (by decide) (by decide),
      ne_of_mem_placeholder hc (by decide) (by decide)⟩
  · -- the inline placeholder prefix is `STX klzzwxh:`; after the only STX comes `w`
    rw [hr, find_cons]
    have h1 : startsWith (Char.ofNat 2 :: r) phPrefix = false := by
      have : r = "wzxhzdk:".toList ++ natToDec k ++ [Char.ofNat 3] := by
        have := hr; simp [Fenced.placeholder] at this; exact this.symm
      rw [this]; rfl
    rw [h1]
    simp only [Bool.false_eq_true, if_false]
    have h2 : find phPrefix r = none := by
      apply find_phPrefix_none
      intro hm
      have hr' : r = "wzxhzdk:".toList ++ natToDec k ++ [Char.ofNat 3] := by
        have := hr; simp [Fenced.placeholder] at this; exact this.symm
      rw [hr'] at hm
      simp only [List.mem_append, List.mem_cons, List.not_mem_nil, or_false] at hm
      rcases hm with (hm | hm) | hm
      · revert hm; decide
      · have := natToDec_digits k _ hm; revert this; decide
      · revert hm; decide
    rw [h2]; rfl

/-! #### `NormalizeWhitespace` -/

open Normalize in
theorem ws_fenceBlock (n : Nat) (ch : Char) (lang b : Str) (hch : ch = '~' ∨ ch = '`') (hn : 3 ≤ n)
    (hlang : isLang lang = true) (hbody : bodyOk n ch b = true) (y : Str) :
    wsLinesAux (some 0) (fenceBlock n ch lang b ++ '\n' :: y) = fenceBlock n ch lang b ++ '\n' :: wsLinesAux (some 0) y := by
  have hall : lang.all isLangChar = true := by
    simp only [isLang, Bool.and_eq_true] at hlang; exact hlang.1
  have hopen : '\n' ∉ List.replicate n ch ++ lang := by
    intro hm
    rcases List.mem_append.1 hm with hm | hm
    · have := List.eq_of_mem_replicate hm
      rcases hch with rfl | rfl <;> simp at this
    · exact (isLangChar_clean (List.all_eq_true.1 hall _ hm)).2.2.2.2.2.1 rfl
  have hink : (List.replicate n ch ++ lang).any (· != ' ') = true := by
    obtain ⟨k, hk⟩ : ∃ k, n = k + 1 := ⟨n - 1, by omega⟩
    have : ch ≠ ' ' := by rcases hch with rfl | rfl <;> decide
    simp [hk, List.replicate_succ, this]
  have hclose : '\n' ∉ List.replicate n ch := by
    intro hm
    have := List.eq_of_mem_replicate hm
    rcases hch with rfl | rfl <;> simp at this
  have hink2 : (List.replicate n ch).any (· != ' ') = true := by
    obtain ⟨k, hk⟩ : ∃ k, n = k + 1 := ⟨n - 1, by omega⟩
    have : ch ≠ ' ' := by rcases hch with rfl | rfl <;> decide
    simp [hk, List.replicate_succ, this]
  have e : fenceBlock n ch lang b ++ '\n' :: y =
      (List.replicate n ch ++ lang) ++ '\n' :: (joinLines (lines b) ++ '\n' :: (List.replicate n ch ++ '\n' :: y)) := by
    simp [fenceBlock, lines_joinLines]
  rw [e, ws_some_line _ _ hopen (Or.inr hink),
    ws_joinLines (lines b) (Py.splitC_ne_nil _ _) (bodyOk_spec hbody).2.1,
    ws_some_line _ _ hclose (Or.inr hink2)]
  simp [fenceBlock, lines_joinLines]

open Normalize in
theorem ws_items (items : List Item) (h : ∀ it ∈ items, it.ok = true) (y : Str) :
    wsLinesAux (some 0) (paras (items.map Item.src) ++ y) = paras (items.map Item.src) ++ wsLinesAux (some 0) y := by
  induction items with
  | nil => rfl
  | cons it r ih =>
    have ih' := ih (fun x hx => h x (List.mem_cons_of_mem _ hx))
    have hit := h it List.mem_cons_self
    cases it with
    | para p =>
      have := ws_paras [p] (by simpa [Item.ok] using hit) (paras (r.map Item.src) ++ y)
      simp only [paras, List.append_assoc, List.cons_append, List.nil_append] at this
      simp only [List.map_cons, Item.src, paras, List.append_assoc, List.cons_append]
      rw [this, ih']
    | fence n ch lang b =>
      obtain ⟨hch, hn, hl, hb⟩ := Item.ok_fence hit
      simp only [List.map_cons, Item.src, paras, List.append_assoc, List.cons_append]
      rw [ws_fenceBlock n ch lang b hch hn hl hb, wsLinesAux_nl, ih']

theorem item_chars {it : Item} (h : it.ok = true) :
    ∀ c ∈ it.src, c ≠ '<' ∧ c ≠ '\r' ∧ c ≠ '\t' ∧ c ≠ Char.ofNat 2 ∧ c ≠ Char.ofNat 3 := by
  intro c hc
  cases it with
  | para p =>
    obtain ⟨_, _, _, _, hw⟩ := isParaLine_spec (by simpa [Item.ok] using h : isParaLine p = true)
    obtain ⟨a1, a2, a3, a4, a5, _⟩ := wordSp_clean (hw c hc)
    exact ⟨a1, a2, a3, a4, a5⟩
  | fence n ch lang b =>
    obtain ⟨hch, hn, hl, hb⟩ := Item.ok_fence h
    have hall : lang.all isLangChar = true := by
      simp only [isLang, Bool.and_eq_true] at hl; exact hl.1
    rcases mem_fenceBlock hc with rfl | hl' | rfl | hb'
    · rcases hch with rfl | rfl <;> decide
    · obtain ⟨a1, a2, a3, a4, a5, _⟩ := isLangChar_clean (List.all_eq_true.1 hall c hl')
      exact ⟨a1, a2, a3, a4, a5⟩
    · decide
    · exact (bodyOk_spec hb).2.2 c hb'

theorem items_chars (items : List Item) (hne : items ≠ []) (h : ∀ it ∈ items, it.ok = true) :
    ∀ c ∈ itemsSource items, c ≠ '<' ∧ c ≠ '\r' ∧ c ≠ '\t' ∧ c ≠ Char.ofNat 2 ∧ c ≠ Char.ofNat 3 := by
  intro c hc
  have hc' : c ∈ paras (items.map Item.src) := by
    rw [← join_nl2 _ (by simpa using hne)]
    exact List.mem_append_left _ hc
  rcases mem_paras hc' with rfl | ⟨p, hp, hcp⟩
  · decide
  · obtain ⟨it, hit, rfl⟩ := List.mem_map.1 hp
    exact item_chars (h it hit) c hcp

theorem normalize_items (tab : Nat) (items : List Item) (hne : items ≠ []) (h : ∀ it ∈ items, it.ok = true) :
    Normalize.normalize tab (itemsSource items) = paras (items.map Item.src) := by
  have e : itemsSource items ++ ['\n', '\n'] = paras (items.map Item.src) := join_nl2 _ (by simpa using hne)
  rw [← e]
  apply normalize_of_clean tab _ (fun c hc => by
    obtain ⟨_, a2, a3, a4, a5⟩ := items_chars items hne h c hc; exact ⟨a4, a5, a2, a3⟩)
  rw [e]
  have := ws_items items h []
  simpa [Normalize.wsLinesAux] using this

/-! #### the fenced-block preprocessor, block after block -/

/-- the text after the preprocessor: paragraphs copied, the block met when `k` blocks have been stashed replaced by
    the placeholder `k` between line feeds -/
def itemsText : List Item → Nat → Str
  | [], _ => []
  | .para p :: r, k => p ++ '\n' :: '\n' :: itemsText r k
  | .fence _ _ _ _ :: r, k => '\n' :: (Fenced.placeholder k ++ '\n' :: '\n' :: '\n' :: itemsText r (k + 1))

/-- the stash after the preprocessor: the HTML of the blocks in order -/
def itemsStash : List Item → List Str
  | [] => []
  | .para _ :: r => itemsStash r
  | .fence _ _ lang b :: r => blockHtmlA [] [] lang (b ++ ['\n']) :: itemsStash r

/-- the loop on a text behind any prefix, started at a position inside the text that is not its first -/
theorem fencedLoopA_shift (pre : Str) (fuel : Nat) (t : Str) (i : Nat) (st : List Str) (hi : 1 ≤ i) :
    fencedLoopA fuel (pre ++ t) (pre.length + i) st = prepend pre (fencedLoopA fuel t i st) := by
  induction fuel generalizing t i st with
  | zero => rfl
  | succ k ih =>
    have hfind : fenceFindFrom (pre ++ t) (pre.length + i) = (fenceFindFrom t i).map (shift pre.length) :=
      fenceFindFrom_prefix pre t i hi
    simp only [fencedLoopA, hfind]
    cases fenceFindFrom t i with
    | none => rfl
    | some m =>
      have htext : ∀ ph : Str, (pre ++ t).take (pre.length + m.start) ++ '\n' :: (ph ++ '\n' ::
          (pre ++ t).drop (pre.length + m.stop)) = pre ++ (t.take m.start ++ '\n' :: (ph ++ '\n' :: t.drop m.stop)) := by
        intro ph
        rw [take_prefix, drop_prefix, List.append_assoc]
      have hidx : ∀ n : Nat, pre.length + m.start + 1 + n = pre.length + (m.start + 1 + n) := fun n => by omega
      simp only [Option.map_some, shift, htext]
      split
      · rw [hidx]; exact ih _ _ _ (by omega)
      · split
        · have := attrsEnd_shift pre t m (m.attrs.getD [])
          simp only [shift] at this
          rw [this]
          exact ih _ _ _ (attrsEnd_ge _ _ _)
        · rw [hidx]; exact ih _ _ _ (by omega)

/-- … started anywhere, when the first search finds what a search of the text alone finds -/
theorem fencedLoopA_first (pre : Str) (fuel : Nat) (t : Str) (j : Nat) (st : List Str)
    (hfind : fenceFindFrom (pre ++ t) j = (fenceFindFrom t 0).map (shift pre.length)) :
    fencedLoopA fuel (pre ++ t) j st = prepend pre (fencedLoopA fuel t 0 st) := by
  cases fuel with
  | zero => rfl
  | succ k =>
    simp only [fencedLoopA, hfind]
    cases fenceFindFrom t 0 with
    | none => rfl
    | some m =>
      have htext : ∀ ph : Str, (pre ++ t).take (pre.length + m.start) ++ '\n' :: (ph ++ '\n' ::
          (pre ++ t).drop (pre.length + m.stop)) = pre ++ (t.take m.start ++ '\n' :: (ph ++ '\n' :: t.drop m.stop)) := by
        intro ph
        rw [take_prefix, drop_prefix, List.append_assoc]
      have hidx : ∀ n : Nat, pre.length + m.start + 1 + n = pre.length + (m.start + 1 + n) := fun n => by omega
      simp only [Option.map_some, shift, htext]
      split
      · rw [hidx]; exact fencedLoopA_shift pre _ _ _ _ (by omega)
      · split
        · have := attrsEnd_shift pre t m (m.attrs.getD [])
          simp only [shift] at this
          rw [this]
          exact fencedLoopA_shift pre _ _ _ _ (attrsEnd_ge _ _ _)
        · rw [hidx]; exact fencedLoopA_shift pre _ _ _ _ (by omega)

/-- a search started inside a prefix whose rest is plain lines finds what a search of the text behind it finds -/
theorem fenceFindFrom_mid (A t : Str) (j : Nat) (q : Str) (hj : j ≤ A.length) (hq : A.drop j = q ++ ['\n'])
    (hplain : ((lines q).drop 1).all plainLine = true)
    (hbol : (decide (j = 0) || decide ((A ++ t)[j - 1]? = some '\n')) = false) :
    fenceFindFrom (A ++ t) j = (fenceFindFrom t 0).map (shift A.length) := by
  have hd : (A ++ t).drop j = q ++ '\n' :: t := by
    rw [List.drop_append_of_le_length hj, hq]; simp
  have hlen : j + q.length + 1 = A.length := by
    have := congrArg List.length hq
    simp at this; omega
  unfold fenceFindFrom
  rw [hbol, hd, fenceScan_through false j q t (by simpa using hplain), hlen]
  have h0 : (decide (0 = 0) || decide (t[0 - 1]? = some '\n')) = true := by simp
  rw [h0, List.drop_zero, ← fenceScan_shift]
  rfl

theorem length_paras_ge (l : List Str) : l.length ≤ (paras l).length := by
  induction l with
  | nil => simp [paras]
  | cons p r ih => simp [paras]; omega

/-- **the loop on a document of paragraphs and fenced blocks** -/
theorem fencedLoopA_items (items : List Item) (h : ∀ it ∈ items, it.ok = true) :
    ∀ (st : List Str) (fuel : Nat), items.length + 1 ≤ fuel →
      fencedLoopA fuel (paras (items.map Item.src)) 0 st =
        .ok (itemsText items st.length) (st ++ itemsStash items) := by
  induction items with
  | nil =>
    intro st fuel hf
    obtain ⟨f, rfl⟩ : ∃ f, fuel = f + 1 := ⟨fuel - 1, by simp at hf; omega⟩
    simp [fencedLoopA, fenceFindFrom, fenceScan, paras, itemsText, itemsStash]
  | cons it r ih =>
    intro st fuel hf
    have ih' := ih (fun x hx => h x (List.mem_cons_of_mem _ hx))
    have hit := h it List.mem_cons_self
    cases it with
    | para p =>
      have hp : isParaLine p = true := by simpa [Item.ok] using hit
      have e : paras ((Item.para p :: r).map Item.src) = (p ++ ['\n', '\n']) ++ paras (r.map Item.src) := by
        simp [paras, Item.src]
      have hpp : plainPrefix (p ++ ['\n', '\n']) := by
        refine Or.inr ⟨p ++ ['\n'], by simp, ?_⟩
        simp only [noFenceLine, lines]
        rw [show p ++ ['\n'] = p ++ '\n' :: [] from rfl, Fenced.splitC_append,
          Fenced.splitC_no_sep _ _ (fun c hc e => para_no_nl hp (by subst e; exact hc))]
        simp only [splitC, List.cons_append, List.nil_append, List.all_cons, plainLine_para hp, List.all_nil,
          Bool.and_true, Bool.true_and]
        decide
      rw [e, fencedLoopA_prefix _ hpp fuel _ 0 0 st (Or.inr ⟨rfl, rfl⟩), ih' st fuel (by simp at hf ⊢; omega)]
      simp [prepend, itemsText, itemsStash]
    | fence n ch lang b =>
      obtain ⟨hch, hn, hl, hb⟩ := Item.ok_fence hit
      obtain ⟨f, rfl⟩ : ∃ f, fuel = f + 1 := ⟨fuel - 1, by simp at hf; omega⟩
      have e : paras ((Item.fence n ch lang b :: r).map Item.src) =
          fenceBlock n ch lang b ++ '\n' :: '\n' :: paras (r.map Item.src) := by
        simp [paras, Item.src]
      have e2 : fenceBlock n ch lang b ++ '\n' :: '\n' :: paras (r.map Item.src) =
          List.replicate n ch ++ (lang ++ '\n' :: (b ++ '\n' :: (List.replicate n ch ++ '\n' ::
            ('\n' :: paras (r.map Item.src))))) := by
        simp [fenceBlock]
      have hat := fenceAt_block_lang n ch lang b ('\n' :: paras (r.map Item.src)) hch hn hl (bodyOk_spec hb).1
      have hf0 := fenceScan_at _ 0 _ hat
      have hfind : fenceFindFrom (fenceBlock n ch lang b ++ '\n' :: '\n' :: paras (r.map Item.src)) 0 =
          some ⟨0, n + lang.length + 1 + (b.length + 1) + n, List.replicate n ch, none, some lang, none, b ++ ['\n']⟩ := by
        rw [e2]
        simp only [fenceFindFrom, List.drop_zero]
        simpa using hf0
      have hdrop : (fenceBlock n ch lang b ++ '\n' :: '\n' :: paras (r.map Item.src)).drop
          (n + lang.length + 1 + (b.length + 1) + n) = '\n' :: '\n' :: paras (r.map Item.src) := by
        apply List.drop_left'
        simp [fenceBlock]; omega
      -- the text after the replacement, split behind the three line feeds
      have eA : '\n' :: (Fenced.placeholder st.length ++ '\n' :: '\n' :: '\n' :: paras (r.map Item.src)) =
          ('\n' :: (Fenced.placeholder st.length ++ ['\n', '\n', '\n'])) ++ paras (r.map Item.src) := by simp
      have hmid : fenceFindFrom (('\n' :: (Fenced.placeholder st.length ++ ['\n', '\n', '\n'])) ++ paras (r.map Item.src))
          (0 + 1 + (Fenced.placeholder st.length).length) =
          (fenceFindFrom (paras (r.map Item.src)) 0).map
            (shift ('\n' :: (Fenced.placeholder st.length ++ ['\n', '\n', '\n'])).length) := by
        apply fenceFindFrom_mid _ _ _ ['\n', '\n']
        · simp; omega
        · have : 0 + 1 + (Fenced.placeholder st.length).length = ('\n' :: Fenced.placeholder st.length).length := by
            simp; omega
          rw [this, show '\n' :: (Fenced.placeholder st.length ++ ['\n', '\n', '\n']) =
            ('\n' :: Fenced.placeholder st.length) ++ ['\n', '\n', '\n'] from rfl, List.drop_left]
          rfl
        · decide
        · rw [placeholder_shape]
          have hl2 : 0 + 1 + ((Char.ofNat 2 :: ("wzxhzdk:".toList ++ natToDec st.length)) ++ [Char.ofNat 3]).length - 1 =
              ('\n' :: Char.ofNat 2 :: ("wzxhzdk:".toList ++ natToDec st.length)).length := by
            simp
          rw [hl2]
          have e3 : ('\n' :: (((Char.ofNat 2 :: ("wzxhzdk:".toList ++ natToDec st.length)) ++ [Char.ofNat 3]) ++
              ['\n', '\n', '\n'])) ++ paras (r.map Item.src) =
              ('\n' :: Char.ofNat 2 :: ("wzxhzdk:".toList ++ natToDec st.length)) ++
                (Char.ofNat 3 :: ('\n' :: '\n' :: '\n' :: paras (r.map Item.src))) := by simp
          rw [e3, List.getElem?_append_right (Nat.le_refl _)]
          simp
      rw [e, fencedLoopA, hfind]
      simp only [Option.getD_none, List.isEmpty_nil, if_true, List.take_zero, List.nil_append, hdrop,
        Option.getD_some]
      rw [eA, fencedLoopA_first _ f _ _ _ hmid, ih' (st ++ [blockHtmlA [] [] lang (b ++ ['\n'])]) f
        (by simp at hf ⊢; omega)]
      simp [prepend, itemsText, itemsStash]

/-- **`FencedBlockPreprocessor.run` on the document** -/
theorem fencedRunA_items (items : List Item) (h : ∀ it ∈ items, it.ok = true) :
    fencedRunA (paras (items.map Item.src)) = .ok (itemsText items 0) (itemsStash items) := by
  have := fencedLoopA_items items h [] ((paras (items.map Item.src)).length + 1) (by
    have := length_paras_ge (items.map Item.src)
    simp only [List.length_map] at this
    omega)
  simpa [fencedRunA] using this

/-! #### the raw-HTML preprocessor and the block parser -/

/-- the texts of the paragraphs the block parser builds: the paragraphs and the placeholders in order -/
def itemTexts : List Item → Nat → List Str
  | [], _ => []
  | .para p :: r, k => p :: itemTexts r k
  | .fence _ _ _ _ :: r, k => Fenced.placeholder k :: itemTexts r (k + 1)

theorem itemTexts_spec (items : List Item) (h : ∀ it ∈ items, it.ok = true) :
    ∀ k, ∀ t ∈ itemTexts items k, (∃ j, t = Fenced.placeholder j) ∨ isParaLine t = true := by
  induction items with
  | nil => intro k t ht; simp [itemTexts] at ht
  | cons it r ih =>
    intro k t ht
    have ih' := ih (fun x hx => h x (List.mem_cons_of_mem _ hx))
    cases it with
    | para p =>
      simp only [itemTexts, List.mem_cons] at ht
      rcases ht with rfl | ht
      · exact Or.inr (by simpa [Item.ok] using h _ List.mem_cons_self)
      · exact ih' k t ht
    | fence n ch lang b =>
      simp only [itemTexts, List.mem_cons] at ht
      rcases ht with rfl | ht
      · exact Or.inl ⟨k, rfl⟩
      · exact ih' (k + 1) t ht

theorem mem_itemsText {items : List Item} {k : Nat} {c : Char} (h : c ∈ itemsText items k) :
    c = '\n' ∨ ∃ t ∈ itemTexts items k, c ∈ t := by
  induction items generalizing k with
  | nil => simp [itemsText] at h
  | cons it r ih =>
    cases it with
    | para p =>
      simp only [itemsText, List.mem_append, List.mem_cons] at h
      rcases h with h | h | h | h
      · exact Or.inr ⟨p, by simp [itemTexts], h⟩
      · exact Or.inl h
      · exact Or.inl h
      · rcases ih h with h | ⟨t, ht, hc⟩
        · exact Or.inl h
        · exact Or.inr ⟨t, by simp [itemTexts, ht], hc⟩
    | fence n ch lang b =>
      simp only [itemsText, List.mem_append, List.mem_cons] at h
      rcases h with h | h | h | h | h | h
      · exact Or.inl h
      · exact Or.inr ⟨_, by simp [itemTexts], h⟩
      · exact Or.inl h
      · exact Or.inl h
      · exact Or.inl h
      · rcases ih h with h | ⟨t, ht, hc⟩
        · exact Or.inl h
        · exact Or.inr ⟨t, by simp [itemTexts, ht], hc⟩

theorem extract_items (items : List Item) (h : ∀ it ∈ items, it.ok = true) (k : Nat) :
    Extract.extract (itemsText items k) = itemsText items k := by
  apply extract_id
  apply refsClosed_of_no_amp
  intro hm
  rcases mem_itemsText hm with e | ⟨t, ht, hc⟩
  · revert e; decide
  · rcases itemTexts_spec items h k t ht with ⟨j, rfl⟩ | hp
    · exact ne_of_mem_placeholder hc (by decide) (by decide) rfl
    · obtain ⟨_, _, _, _, hw⟩ := isParaLine_spec hp
      exact (wordSp_clean (hw _ hc)).2.2.2.2.2.2.1 rfl

/-- a block of `text.split("\n\n")`: a one-line paragraph or nothing, possibly behind a line feed -/
inductive Blk
  | nop (nl : Bool)
  | par (nl : Bool) (l : Str)

def Blk.str : Blk → Str
  | .nop false => []
  | .nop true => ['\n']
  | .par false l => l
  | .par true l => '\n' :: l

def blkTexts : List Blk → List Str
  | [] => []
  | .nop _ :: r => blkTexts r
  | .par _ l :: r => l :: blkTexts r

theorem parse_blks (tab : Nat) (htab : 0 < tab) (refs : Refs) :
    ∀ (bs : List Blk) (parent : Node), (∀ sib, parent.last? = some sib → preCode sib = none) →
      (∀ nl l, Blk.par nl l ∈ bs → ParaLine l) →
      ∃ f, parseBlocks tab f [] refs parent (bs.map Blk.str) =
        some ((blkTexts bs).foldl (fun n l => n.append (mkText "p" l)) parent, refs) := by
  intro bs
  induction bs with
  | nil => intro parent _ _; exact ⟨0, rfl⟩
  | cons bk bs ih =>
    intro parent hl hpar
    cases bk with
    | nop nl =>
      obtain ⟨f, hf⟩ := ih parent hl (fun nl l hm => hpar nl l (List.mem_cons_of_mem _ hm))
      refine ⟨f + 1, ?_⟩
      simp only [List.map_cons, blkTexts]
      rw [parseBlocks_step]
      cases nl with
      | false =>
        simp only [Blk.str]
        rw [dispatch_nil, emptyP_plain _ _ _ _ hl]
        exact hf
      | true =>
        simp only [Blk.str]
        rw [dispatch_nl, emptyP_plain _ _ _ _ hl]
        exact hf
    | par nl l =>
      obtain ⟨c, r, rfl, hnl, hc0, hc2, hc3⟩ := hpar nl l List.mem_cons_self
      have hc1 : c ≠ ' ' := by intro e; subst e; revert hc0; decide
      have hv : startsVisible (c :: r) = true := by simpa [startsVisible] using hc0
      obtain ⟨f, hf⟩ := ih (parent.append (mkText "p" (c :: r)))
        (fun sib hs => by rw [last_append] at hs; cases hs; exact preCode_p _)
        (fun nl l hm => hpar nl l (List.mem_cons_of_mem _ hm))
      have step : parseBlocks tab (f + 1) [] refs parent ((c :: r) :: bs.map Blk.str) =
          some ((blkTexts bs).foldl (fun n l => n.append (mkText "p" l)) (parent.append (mkText "p" (c :: r))), refs) := by
        rw [parseBlocks_step, dispatch_line tab htab _ refs _ c r _ hnl hc1 hc2 hc3, paraP_visible _ _ _ _ hv]
        exact hf
      cases nl with
      | false => exact ⟨f + 1, by simpa [Blk.str, blkTexts] using step⟩
      | true =>
        refine ⟨f + 2, ?_⟩
        simp only [List.map_cons, Blk.str, blkTexts, List.foldl_cons]
        rw [parseBlocks_step, dispatch_nl, emptyP_plain _ _ _ _ hl]
        simpa using step

/-- the blocks of the text after the preprocessors; `nl`: a line feed left over from the previous block is pending -/
def itemsBlocks : List Item → Bool → Nat → List Blk
  | [], nl, _ => [.nop nl]
  | .para p :: r, nl, k => .par nl p :: itemsBlocks r false k
  | .fence _ _ _ _ :: r, false, k => .par true (Fenced.placeholder k) :: itemsBlocks r true (k + 1)
  | .fence _ _ _ _ :: r, true, k => .nop false :: .par false (Fenced.placeholder k) :: itemsBlocks r true (k + 1)

theorem blkTexts_itemsBlocks (items : List Item) : ∀ nl k, blkTexts (itemsBlocks items nl k) = itemTexts items k := by
  induction items with
  | nil => intro nl k; rfl
  | cons it r ih =>
    intro nl k
    cases it with
    | para p => simp [itemsBlocks, blkTexts, itemTexts, ih]
    | fence n ch lang b => cases nl <;> simp [itemsBlocks, blkTexts, itemTexts, ih]

theorem itemsBlocks_par (items : List Item) (h : ∀ it ∈ items, it.ok = true) :
    ∀ nl k nl' l, Blk.par nl' l ∈ itemsBlocks items nl k → ParaLine l := by
  induction items with
  | nil => intro nl k nl' l hm; simp [itemsBlocks] at hm
  | cons it r ih =>
    intro nl k nl' l hm
    have ih' := ih (fun x hx => h x (List.mem_cons_of_mem _ hx))
    cases it with
    | para p =>
      simp only [itemsBlocks, List.mem_cons, Blk.par.injEq] at hm
      rcases hm with ⟨_, rfl⟩ | hm
      · exact paraLine_para (by simpa [Item.ok] using h _ List.mem_cons_self)
      · exact ih' _ _ _ _ hm
    | fence n ch lang b =>
      cases nl with
      | false =>
        simp only [itemsBlocks, List.mem_cons, Blk.par.injEq] at hm
        rcases hm with ⟨_, rfl⟩ | hm
        · exact paraLine_placeholder k
        · exact ih' _ _ _ _ hm
      | true =>
        simp only [itemsBlocks, List.mem_cons, Blk.par.injEq, reduceCtorEq, false_or] at hm
        rcases hm with ⟨_, rfl⟩ | hm
        · exact paraLine_placeholder k
        · exact ih' _ _ _ _ hm

theorem splitAux_items (items : List Item) (h : ∀ it ∈ items, it.ok = true) :
    ∀ nl k, splitAux ['\n', '\n'] 0 ((if nl then ['\n'] else []) ++ itemsText items k) =
      (itemsBlocks items nl k).map Blk.str := by
  induction items with
  | nil =>
    intro nl k
    cases nl <;> simp [itemsText, itemsBlocks, Blk.str, splitAux, startsWith]
  | cons it r ih =>
    intro nl k
    have ih' := ih (fun x hx => h x (List.mem_cons_of_mem _ hx))
    cases it with
    | para p =>
      obtain ⟨c, r0, rfl, hnl, _⟩ := paraLine_para (by simpa [Item.ok] using h _ List.mem_cons_self : isParaLine p = true)
      have ihf := ih' false k
      simp only [Bool.false_eq_true, if_false, List.nil_append] at ihf
      cases nl with
      | false =>
        have := splitAux_tight true (c :: r0) (noEmptyLine_of_no_nl c r0 hnl) (itemsText r k)
        simp only [List.cons_append] at this
        simp only [Bool.false_eq_true, if_false, List.nil_append, itemsText, itemsBlocks, List.map_cons, Blk.str,
          List.cons_append, this, ihf]
      | true =>
        have h1 : noEmptyLineFrom false ('\n' :: c :: r0) = true := by
          simp only [noEmptyLineFrom, if_true, Bool.not_false, Bool.true_and]
          exact noEmptyLine_of_no_nl c r0 hnl
        have := splitAux_tight false ('\n' :: c :: r0) h1 (itemsText r k)
        simp only [List.cons_append] at this
        simp only [if_true, itemsText, itemsBlocks, List.map_cons, Blk.str, List.cons_append, List.nil_append,
          this, ihf]
    | fence n ch lang b =>
      obtain ⟨c, r0, hcr, hnl, _⟩ := paraLine_placeholder k
      have iht := ih' true (k + 1)
      simp only [if_true, List.cons_append, List.nil_append] at iht
      cases nl with
      | false =>
        have h1 : noEmptyLineFrom false ('\n' :: c :: r0) = true := by
          simp only [noEmptyLineFrom, if_true, Bool.not_false, Bool.true_and]
          exact noEmptyLine_of_no_nl c r0 hnl
        have := splitAux_tight false ('\n' :: c :: r0) h1 ('\n' :: itemsText r (k + 1))
        simp only [List.cons_append] at this
        simp only [Bool.false_eq_true, if_false, List.nil_append, itemsText, itemsBlocks, List.map_cons, Blk.str,
          hcr, List.cons_append, this, iht]
      | true =>
        have h0 : noEmptyLineFrom false [] = true := rfl
        have t0 := splitAux_tight false [] h0 (c :: r0 ++ '\n' :: '\n' :: '\n' :: itemsText r (k + 1))
        have t1 := splitAux_tight true (c :: r0) (noEmptyLine_of_no_nl c r0 hnl) ('\n' :: itemsText r (k + 1))
        simp only [List.cons_append, List.nil_append] at t0 t1
        simp only [if_true, itemsText, itemsBlocks, List.map_cons, Blk.str, hcr, List.cons_append, List.nil_append,
          t0, t1, iht]

/-- **the block parser on the document after the preprocessors** -/
theorem parseDocument_items (tab : Nat) (htab : 0 < tab) (items : List Item) (h : ∀ it ∈ items, it.ok = true) :
    parseDocument tab (itemsText items 0) = some (parasTree (itemTexts items 0), []) := by
  have hsplit := splitAux_items items h false 0
  simp only [Bool.false_eq_true, if_false, List.nil_append] at hsplit
  obtain ⟨f, hf⟩ := parse_blks tab htab [] (itemsBlocks items false 0) (Node.el "div")
    (fun sib hs => by simp [Node.last?, Node.el] at hs) (fun nl l hm => itemsBlocks_par items h _ _ nl l hm)
  have htree : (blkTexts (itemsBlocks items false 0)).foldl (fun n l => n.append (mkText "p" l)) (Node.el "div") =
      parasTree (itemTexts items 0) := by
    rw [blkTexts_itemsBlocks]
    generalize itemTexts items 0 = ts
    have : ∀ (ts : List Str) (parent : Node),
        ts.foldl (fun n l => n.append (mkText "p" l)) parent =
          { parent with children := parent.children ++ ts.map (mkText "p") } := by
      intro ts
      induction ts with
      | nil => intro parent; cases parent; simp
      | cons t ts ih => intro parent; rw [List.foldl_cons, ih]; simp [Node.append]
    rw [this]
    simp [parasTree, Node.el]
  rw [htree] at hf
  obtain ⟨res, hr⟩ := Option.isSome_iff_exists.1 (parseDocument_total tab (itemsText items 0))
  rw [hr]
  simp only [parseDocument, parseDocumentWith, parseChunk, splitS] at hr
  rw [hsplit] at hr
  have a1 := parseBlocks_fuel_mono (fuelFor (itemsText items 0).length) hf
  have a2 := parseBlocks_fuel_mono f hr
  rw [Nat.add_comm] at a2
  rw [a2] at a1
  exact a1

/-! #### the stages after the block parser -/

/-- a paragraph text that every stage between the block parser and the serializer leaves alone -/
def TextInert (p : Str) : Prop :=
  InlineInert p ∧ TreeProc.unescapeText 0 p = some p ∧ Ser.escCdata p = p

theorem textInert_placeholder (k : Nat) : TextInert (Fenced.placeholder k) := by
  refine ⟨inert_placeholder k, ?_, ?_⟩
  · rw [placeholder_eq]; simpa using unescapeText_ph k [] [] (by simp) (by simp)
  · have := escCdata_ph k [] []
    have n0 : Ser.escCdata [] = [] := by decide
    rw [placeholder_eq]
    simpa [n0] using this

theorem textInert_para {p : Str} (h : isParaLine p = true) : TextInert p := by
  obtain ⟨_, _, _, _, hw⟩ := isParaLine_spec h
  refine ⟨inert_para h, unescapeText_id p (fun hm => wordSp_ne (hw _ hm) (by decide) rfl), ?_⟩
  exact escCdata_plain p (fun c hc => by
    have := wordSp_clean (hw c hc); exact ⟨this.2.2.2.2.2.2.1, this.1, this.2.2.2.2.2.2.2⟩)

/-- inline patterns, prettify, unescape and the serializer on a document of inert paragraphs: what is handed to the
    end of `convert` is the paragraphs, one per line, in the `div` wrapper — with the stash untouched -/
theorem render_texts (tab : Nat) (fmt : Ser.Fmt) (refs : List (Str × Str × Option Str)) (t0 : Str) (ts : List Str)
    (stash : List Str) (h : ∀ p ∈ t0 :: ts, TextInert p) :
    render { tab := tab, fmt := fmt } refs (parasTree (t0 :: ts)) stash =
      match Post.finish TreeProc.defaultBlockLevel stash
        ("<div>".toList ++ ('\n' :: (t0 :: ts).flatMap (fun p => par p ++ ['\n'])) ++ "</div>\n".toList) with
      | none => .oof
      | some none => .err
      | some (some out) => .ok out := by
  unfold render
  rw [run_parasTree _ _ _ (fun p hp => (h p hp).1)]
  simp only
  rw [prettify_parasTree, unescape_parasTreeP _ (fun p hp => (h p hp).2.1)]
  simp only
  rw [serialize_parasTreeP _ _ (fun p hp => (h p hp).1.1),
    flatMap_congr' _ _ _ (fun p hp => by rw [(h p hp).2.2])]
  rfl

/-- the paragraphs of the text handed to the raw-HTML postprocessor, each behind a line feed -/
def itemsU (items : List Item) (k : Nat) : Str := (itemTexts items k).flatMap (fun t => '\n' :: par t)

/-- the expected output, each item behind a line feed -/
def itemsH (items : List Item) : Str := items.flatMap (fun it => '\n' :: it.html)

/-- the stash with the HTML spelt as in the statements -/
def itemsStashH : List Item → List Str
  | [] => []
  | .para _ :: r => itemsStashH r
  | .fence _ _ lang b :: r => codeHtml lang b :: itemsStashH r

theorem itemsStash_eq (items : List Item) (h : ∀ it ∈ items, it.ok = true) : itemsStash items = itemsStashH items := by
  induction items with
  | nil => rfl
  | cons it r ih =>
    have ih' := ih (fun x hx => h x (List.mem_cons_of_mem _ hx))
    cases it with
    | para p => simpa [itemsStash, itemsStashH] using ih'
    | fence n ch lang b =>
      obtain ⟨_, _, hl, _⟩ := Item.ok_fence (h _ List.mem_cons_self)
      have hall : lang.all isLangChar = true := by
        simp only [isLang, Bool.and_eq_true] at hl; exact hl.1
      simp [itemsStash, itemsStashH, ih', blockHtmlA_eq lang b hall]

theorem stx_not_mem_item_html {it : Item} (h : it.ok = true) : Post.STX ∉ it.html := by
  cases it with
  | para p =>
    obtain ⟨_, _, _, _, hw⟩ := isParaLine_spec (by simpa [Item.ok] using h : isParaLine p = true)
    exact stx_not_mem_par (fun hm => wordSp_ne (hw _ hm) (by decide) rfl)
  | fence n ch lang b =>
    obtain ⟨_, _, hl, hb⟩ := Item.ok_fence h
    have hall : lang.all isLangChar = true := by
      simp only [isLang, Bool.and_eq_true] at hl; exact hl.1
    exact stx_not_mem_codeHtml lang b hall (fun hm => ((bodyOk_spec hb).2.2 _ hm).2.2.2.1 rfl)

theorem stx_not_mem_itemsH (items : List Item) (h : ∀ it ∈ items, it.ok = true) : Post.STX ∉ itemsH items := by
  intro hm0
  obtain ⟨it, hit, hm⟩ := List.mem_flatMap.1 hm0
  rcases List.mem_cons.1 hm with hm | hm
  · revert hm; decide
  · exact stx_not_mem_item_html (h it hit) hm

/-- **one pass of the raw-HTML restore over the document**: every placeholder paragraph is replaced, wrapper and
    all, by the HTML of its block; the paragraphs are copied -/
theorem subPass_items (items : List Item) (h : ∀ it ∈ items, it.ok = true) :
    ∀ (st0 : List Str) (acc : Str), Post.STX ∉ acc →
      Post.subPass TreeProc.defaultBlockLevel (st0 ++ itemsStashH items) 0 (acc ++ itemsU items st0.length) =
        acc ++ itemsH items := by
  induction items with
  | nil =>
    intro st0 acc hacc
    simp only [itemsU, itemTexts, List.flatMap_nil, List.append_nil, itemsH]
    exact subPass_fix _ _ _ (no_prefix_of_no_stx hacc)
  | cons it r ih =>
    intro st0 acc hacc
    have ih' := ih (fun x hx => h x (List.mem_cons_of_mem _ hx))
    have hit := h it List.mem_cons_self
    cases it with
    | para p =>
      have hp : Post.STX ∉ acc ++ '\n' :: par p := by
        intro hm
        rcases List.mem_append.1 hm with hm | hm
        · exact hacc hm
        · rcases List.mem_cons.1 hm with hm | hm
          · revert hm; decide
          · exact stx_not_mem_item_html hit hm
      have := ih' st0 (acc ++ '\n' :: par p) hp
      simp only [itemsU, itemTexts, List.flatMap_cons, itemsStashH, itemsH, Item.html, List.append_assoc,
        List.cons_append] at this ⊢
      exact this
    | fence n ch lang b =>
      obtain ⟨rest, hshape, _⟩ := codeHtml_shape lang b
      have hblock : Post.isBlockLevelHtml TreeProc.defaultBlockLevel (codeHtml lang b) = true := by
        rw [hshape]; exact isBlockLevelHtml_pre rest
      have hi : (st0 ++ itemsStashH (Item.fence n ch lang b :: r))[st0.length]? = some (codeHtml lang b) := by
        simp [itemsStashH]
      have hpre : Post.STX ∉ acc ++ ['\n'] := by
        intro hm
        rcases List.mem_append.1 hm with hm | hm
        · exact hacc hm
        · revert hm; decide
      have e1 : acc ++ itemsU (Item.fence n ch lang b :: r) st0.length =
          (acc ++ ['\n']) ++ (pOpen ++ (htmlPlaceholder st0.length ++ (pClose ++ itemsU r (st0.length + 1)))) := by
        simp only [itemsU, itemTexts, List.flatMap_cons, par, pOpen, pClose, placeholder_eq, List.append_assoc,
          List.cons_append, List.nil_append]
      have e2 : st0 ++ itemsStashH (Item.fence n ch lang b :: r) = (st0 ++ [codeHtml lang b]) ++ itemsStashH r := by
        simp [itemsStashH]
      have ih2 := ih' (st0 ++ [codeHtml lang b]) [] (by simp)
      simp only [List.nil_append, List.length_append, List.length_cons, List.length_nil, Nat.zero_add] at ih2
      rw [e1, subPass_wrapped _ _ st0.length (codeHtml lang b) _ _ hi hpre, hblock, e2, ih2]
      simp only [if_true, itemsH, List.flatMap_cons, Item.html, List.append_assoc, List.cons_append, List.nil_append]

theorem flatMap_shift' (l : List Str) :
    '\n' :: l.flatMap (fun q => par q ++ ['\n']) = l.flatMap (fun q => '\n' :: par q) ++ ['\n'] := flatMap_shift l

theorem itemsH_tail (it : Item) (r : List Item) :
    (itemsH (it :: r)).tail = itemsHtml (it :: r) := by
  have : ∀ (r : List Item) (x : Item), join ['\n'] ((x :: r).map Item.html) = x.html ++ itemsH r := by
    intro r
    induction r with
    | nil => intro x; simp [itemsH]
    | cons y r ih =>
      intro x
      rw [List.map_cons, List.map_cons, join_cons_cons, ← List.map_cons, ih y]
      simp [itemsH]
  simp only [itemsHtml, this, itemsH, List.flatMap_cons]
  rfl

/-- lines that start with `<` and end with `>`, joined by line feeds, are their own strip -/
theorem strip_lines (x : Str) (xs : List Str) (hx : ∀ y ∈ x :: xs, ∃ r2, y = '<' :: r2 ++ ['>']) :
    strip (x ++ xs.flatMap (fun y => '\n' :: y)) = x ++ xs.flatMap (fun y => '\n' :: y) := by
  apply strip_eq_self
  · intro c hc
    obtain ⟨r2, rfl⟩ := hx x List.mem_cons_self
    have : c = '<' := by simpa using hc.symm
    subst this; decide
  · intro c hc
    have : c = '>' := by
      rcases List.eq_nil_or_concat xs with rfl | ⟨init, q, hq⟩
      · obtain ⟨r2, rfl⟩ := hx x List.mem_cons_self
        simp only [List.flatMap_nil, List.append_nil] at hc
        have e : '<' :: r2 ++ ['>'] = [] ++ (('<' :: r2) ++ ['>']) := rfl
        rw [e, getLast?_append_snoc] at hc
        exact (Option.some.inj hc).symm
      · rw [List.concat_eq_append] at hq
        subst hq
        obtain ⟨r2, rfl⟩ := hx q (by simp)
        have e : x ++ (init ++ ['<' :: r2 ++ ['>']]).flatMap (fun y => '\n' :: y) =
            (x ++ init.flatMap (fun y => '\n' :: y)) ++ (('\n' :: '<' :: r2) ++ ['>']) := by
          simp only [List.flatMap_append, List.flatMap_cons, List.flatMap_nil, List.append_nil, List.append_assoc,
            List.cons_append]
        rw [e, getLast?_append_snoc] at hc
        exact (Option.some.inj hc).symm
    subst this; decide

theorem par_shape (p : Str) : ∃ r2, par p = '<' :: r2 ++ ['>'] := by
  have e3 : "</p>".toList = "</p".toList ++ ['>'] := by decide
  have e4 : "<p>".toList = '<' :: "p>".toList := by decide
  refine ⟨"p>".toList ++ p ++ "</p".toList, ?_⟩
  unfold par
  rw [e3, e4]
  simp only [List.append_assoc, List.cons_append]

theorem item_html_shape (it : Item) : ∃ r2, it.html = '<' :: r2 ++ ['>'] := by
  cases it with
  | para p => exact par_shape p
  | fence n ch lang b =>
    obtain ⟨rest, hshape, r2, hr2⟩ := codeHtml_shape lang b
    have e4 : "<pre>".toList = '<' :: "pre>".toList := by decide
    refine ⟨"pre>".toList ++ r2, ?_⟩
    simp only [Item.html]
    rw [hshape, hr2, e4]
    simp only [List.append_assoc, List.cons_append]

theorem itemsU_eq_itemsH_of_no_fence (items : List Item) (h : itemsStashH items = []) (k : Nat) :
    itemsU items k = itemsH items := by
  induction items with
  | nil => rfl
  | cons it r ih =>
    cases it with
    | para p =>
      have := ih (by simpa [itemsStashH] using h)
      simp only [itemsU, itemTexts, List.flatMap_cons, itemsH, Item.html] at this ⊢
      rw [this]
    | fence n ch lang b => simp [itemsStashH] at h

/-- the end of `convert` on the serialized document, stage by stage: the strip of the wrapper, the raw-HTML restore
    (every block put back), and the facts the remaining postprocessors need -/
theorem finish_items_parts (it : Item) (r : List Item) (h : ∀ x ∈ it :: r, x.ok = true) :
    ∃ Z, Post.topLevelStrip ("<div>".toList ++ ('\n' :: (itemTexts (it :: r) 0).flatMap (fun p => par p ++ ['\n'])) ++
        "</div>\n".toList) = some Z ∧
      Post.rawHtml TreeProc.defaultBlockLevel (itemsStashH (it :: r)) (Post.rawHtmlFuel (itemsStashH (it :: r))) Z =
        some (itemsHtml (it :: r)) ∧
      Post.STX ∉ itemsHtml (it :: r) ∧ strip (itemsHtml (it :: r)) = itemsHtml (it :: r) := by
  -- the shape of the output
  have hout_stx : Post.STX ∉ itemsHtml (it :: r) := by
    rw [← itemsH_tail]
    intro hm
    exact stx_not_mem_itemsH _ h (List.mem_of_mem_tail hm)
  have hjoin : itemsHtml (it :: r) = it.html ++ (r.map Item.html).flatMap (fun y => '\n' :: y) := by
    rw [← itemsH_tail]
    simp [itemsH, List.flatMap_map]
  have hstrip_out : strip (itemsHtml (it :: r)) = itemsHtml (it :: r) := by
    rw [hjoin]
    apply strip_lines
    intro y hy
    rcases List.mem_cons.1 hy with rfl | hy
    · exact item_html_shape it
    · obtain ⟨x, _, rfl⟩ := List.mem_map.1 hy
      exact item_html_shape x
  -- the text after the strip of the wrapper
  obtain ⟨t0, ts, hts⟩ : ∃ t0 ts, itemTexts (it :: r) 0 = t0 :: ts := by
    cases it <;> exact ⟨_, _, rfl⟩
  have hZ : '\n' :: (itemTexts (it :: r) 0).flatMap (fun p => par p ++ ['\n']) =
      ['\n'] ++ (itemsU (it :: r) 0).tail ++ ['\n'] := by
    rw [flatMap_shift, itemsU, hts]
    simp
  have hsub0 := subPass_items (it :: r) h [] [] (by simp)
  simp only [List.nil_append, List.length_nil] at hsub0
  have hU : itemsU (it :: r) 0 = '\n' :: (itemsU (it :: r) 0).tail := by
    rw [itemsU, hts]; simp
  have hsub : Post.subPass TreeProc.defaultBlockLevel (itemsStashH (it :: r)) 0 (itemsU (it :: r) 0).tail =
      itemsHtml (it :: r) := by
    rw [hU, subPass_cons_of_ne _ _ _ _ (by decide) (by simp [pOpen])] at hsub0
    have := congrArg List.tail hsub0
    simpa [itemsH_tail] using this
  have hstrip_in : strip ((itemsU (it :: r) 0).tail) = (itemsU (it :: r) 0).tail := by
    have e : (itemsU (it :: r) 0).tail = par t0 ++ (ts.map par).flatMap (fun y => '\n' :: y) := by
      rw [itemsU, hts]; simp [List.flatMap_map]
    rw [e]
    apply strip_lines
    intro y hy
    rcases List.mem_cons.1 hy with rfl | hy
    · exact par_shape t0
    · obtain ⟨x, _, rfl⟩ := List.mem_map.1 hy
      exact par_shape x
  have hraw : Post.rawHtml TreeProc.defaultBlockLevel (itemsStashH (it :: r)) (Post.rawHtmlFuel (itemsStashH (it :: r)))
      (itemsU (it :: r) 0).tail = some (itemsHtml (it :: r)) := by
    cases hs : itemsStashH (it :: r) with
    | nil =>
      have hz : (itemsU (it :: r) 0).tail = itemsHtml (it :: r) := by
        rw [itemsU_eq_itemsH_of_no_fence _ hs, itemsH_tail]
      simp [Post.rawHtml, Post.rawHtmlFuel, hz]
    | cons x xs =>
      rw [hs] at hsub
      have := rawHtml_of_fix TreeProc.defaultBlockLevel (x :: xs) (xs.length + 2) _ _ (by simp) hsub
        (no_prefix_of_no_stx hout_stx)
      simpa [Post.rawHtmlFuel] using this
  refine ⟨(itemsU (it :: r) 0).tail, ?_, hraw, hout_stx, hstrip_out⟩
  rw [hZ, CodeLaw.topLevelStrip_div, strip_append_of_blank (by decide) (by decide), hstrip_in]

/-- **the end of `convert`** on the serialized document: the raw-HTML restore puts every block back -/
theorem finish_items (it : Item) (r : List Item) (h : ∀ x ∈ it :: r, x.ok = true) :
    Post.finish TreeProc.defaultBlockLevel (itemsStashH (it :: r))
      ("<div>".toList ++ ('\n' :: (itemTexts (it :: r) 0).flatMap (fun p => par p ++ ['\n'])) ++ "</div>\n".toList) =
      some (some (itemsHtml (it :: r))) := by
  obtain ⟨Z, h1, h2, h3, h4⟩ := finish_items_parts it r h
  unfold Post.finish
  rw [h1]
  simp only [Post.post, h2, Option.map_some]
  rw [ampSub_of_no_stx h3, h4]

/-- **`Markdown.convert` with `fenced_code` on a document of paragraphs and any number of fenced blocks** -/
theorem convert_items (tab : Nat) (htab : 0 < tab) (fmt : Ser.Fmt) (items : List Item) (hne : items ≠ [])
    (h : ∀ it ∈ items, it.ok = true) :
    convertX { fencedCode := true } { tab := tab, fmt := fmt } (itemsSource items) = .ok (itemsHtml items) := by
  obtain ⟨it, r, rfl⟩ : ∃ it r, items = it :: r := by
    cases items with
    | nil => exact absurd rfl hne
    | cons it r => exact ⟨it, r, rfl⟩
  have hlt : (itemsSource (it :: r)).contains '<' = false := by
    rw [Bool.eq_false_iff]; intro hc
    exact (items_chars _ hne h '<' (by simpa using hc)).1 rfl
  have hblank : Normalize.isBlankDoc (itemsSource (it :: r)) = false := by
    rw [Normalize.isBlankDoc_eq_all, Bool.eq_false_iff]
    intro ha
    -- the first character of the first item is not white space
    obtain ⟨c, hc, hsp⟩ : ∃ c, c ∈ it.src ∧ isSpace c = false := by
      cases it with
      | para p =>
        obtain ⟨c0, r0, rfl, hc0, _⟩ := isParaLine_spec (by simpa [Item.ok] using h _ List.mem_cons_self : isParaLine p = true)
        exact ⟨c0, by simp [Item.src], alpha_not_space hc0⟩
      | fence n ch lang b =>
        obtain ⟨hch, hn, _, _⟩ := Item.ok_fence (h _ List.mem_cons_self)
        obtain ⟨k, hk⟩ : ∃ k, n = k + 1 := ⟨n - 1, by omega⟩
        refine ⟨ch, by simp [Item.src, fenceBlock, hk, List.replicate_succ], ?_⟩
        rcases hch with rfl | rfl <;> decide
    have hm : c ∈ itemsSource (it :: r) := by
      have h1 : c ∈ itemsSource (it :: r) ++ ['\n', '\n'] := by
        rw [itemsSource, join_nl2 _ (by simp)]
        simp only [List.map_cons, paras]
        exact List.mem_append_left _ hc
      rcases List.mem_append.1 h1 with h1 | h1
      · exact h1
      · have : c = '\n' := by simpa using h1
        subst this
        exact absurd hsp (by decide)
    have := List.all_eq_true.1 ha c hm
    rw [this] at hsp; cases hsp
  have htexts : ∀ p ∈ itemTexts (it :: r) 0, TextInert p := by
    intro p hp
    rcases itemTexts_spec _ h 0 p hp with ⟨j, rfl⟩ | hp
    · exact textInert_placeholder j
    · exact textInert_para hp
  obtain ⟨t0, ts, hts⟩ : ∃ t0 ts, itemTexts (it :: r) 0 = t0 :: ts := by
    cases it <;> exact ⟨_, _, rfl⟩
  rw [convertX_fenced, hlt, hblank]
  simp only [Bool.false_eq_true, if_false]
  rw [normalize_items tab _ hne h, fencedRunA_items _ h]
  simp only
  rw [extract_items _ h, parseDocument_items tab htab _ h]
  simp only [List.reverse_nil]
  rw [itemsStash_eq _ h, hts, render_texts tab fmt [] t0 ts _ (by rw [← hts]; exact htexts), ← hts,
    finish_items it r h]

/-! ### N. other extensions enabled at the same time -/

section flags
open BlockExt

theorem contains_false_of_missing {l pat : Str} {d : Char} (hd : d ∈ pat) (hl : d ∉ l) : contains l pat = false := by
  rw [contains_eq_false_iff]
  rintro a b rfl
  exact hl (by simp [hd])

/-- none of the triggers of the block-level extensions occurs in the text -/
def NoTrig (l : Str) : Prop :=
  contains l trigAdmonition = false ∧ contains l trigDefList = false ∧ contains l trigFootnote = false ∧
    contains l trigAbbr = false

theorem noTrig_para {p : Str} (h : isParaLine p = true) : NoTrig p := by
  obtain ⟨_, _, _, _, hw⟩ := isParaLine_spec h
  have hno : ∀ d : Char, isWordSp d = false → d ∉ p := fun d hd hm => wordSp_ne (hw _ hm) hd rfl
  exact ⟨contains_false_of_missing (d := '!') (by decide) (hno _ (by decide)),
    contains_false_of_missing (d := ':') (by decide) (hno _ (by decide)),
    contains_false_of_missing (d := '[') (by decide) (hno _ (by decide)),
    contains_false_of_missing (d := '*') (by decide) (hno _ (by decide))⟩

theorem noTrig_placeholder (k : Nat) : NoTrig (Fenced.placeholder k) := by
  have hno : ∀ d : Char, d ∉ [Char.ofNat 2, 'w', 'z', 'x', 'h', 'd', 'k', ':', Char.ofNat 3] → isAsciiDigit d = false →
      d ∉ Fenced.placeholder k := fun d h1 h2 hm => ne_of_mem_placeholder hm h1 h2 rfl
  exact ⟨contains_false_of_missing (d := '!') (by decide) (hno _ (by decide) (by decide)),
    contains_false_of_missing (d := ' ') (by decide) (hno _ (by decide) (by decide)),
    contains_false_of_missing (d := '[') (by decide) (hno _ (by decide) (by decide)),
    contains_false_of_missing (d := '*') (by decide) (hno _ (by decide) (by decide))⟩

theorem admTest_none' {tab : Nat} {parent : Node} {b : Str} (hb : contains b trigAdmonition = false)
    (hp : ∀ sib, parent.last? = some sib → isAdmDiv sib = false) : admTest tab parent b = none := by
  simp only [admTest, admSearch_none hb, admContent]
  cases hl : parent.last? with
  | none => rfl
  | some sib => simp [hp sib hl]

theorem isAdmDiv_p (t : Str) : isAdmDiv (mkText "p" t) = false := by
  simp [isAdmDiv, Node.isTag, mkText, Node.el]

theorem tableTest_line (l : Str) (h : '\n' ∉ l) : Tables.tableTest l = none := by
  unfold Tables.tableTest
  rw [splitC_of_no_sep h]
  rfl

/-- a one-line block in which no processor of the core or of an extension finds its syntax is a paragraph, whatever
    extensions are enabled -/
theorem dispatchXT_line (tables : Bool) (cfg : XCfg) (tab : Nat) (htab : 0 < tab) (pb : PB) (refs : Refs) (parent : Node)
    (c : Char) (r : Str) (rest : List Str) (hnl : '\n' ∉ c :: r) (hc1 : c ≠ ' ') (hc2 : c ∉ lineEsc)
    (hc3 : isDecimal c = false) (htr : NoTrig (c :: r))
    (hadm : ∀ sib, parent.last? = some sib → isAdmDiv sib = false) :
    dispatchXT tables cfg tab pb [] refs parent (c :: r) rest = some (paraP [] refs parent (c :: r) rest) := by
  have hl : LineStartsOk lineEsc (c :: r) = true := by
    simp only [LineStartsOk, startOk_of_head c r hc1 hc2, startsOkNl_of_no_nl _ _ hnl, Bool.and_self]
  have hcn : c ≠ '\n' := fun e => hnl (by simp [e])
  obtain ⟨n, rfl⟩ : ∃ n, tab = n + 1 := ⟨tab - 1, by omega⟩
  have e1 : ((c :: r).isEmpty || startsWith (c :: r) ['\n']) = false := by simp [startsWith, hcn]
  have e2 : startsWith (c :: r) (spaces (n + 1)) = false := by
    simp [spaces, List.replicate_succ, hc1]
  have e3 : setextMatch (c :: r) = false := by
    have : find ['\n'] (c :: r) = none := by
      rw [find_none_iff]; intro pre post e; apply hnl; rw [e]; simp
    simp [setextMatch, this]
  have hmem : ∀ d ∈ lineEsc, c ≠ d := fun d hd e => hc2 (e ▸ hd)
  have e4 : ∀ ol ul, listItemMatch (n + 1) ol ul (c :: r) = none := by
    intro ol ul
    have h0 : countPrefix ' ' (some (n + 1 - 1)) (c :: r) = 0 := countPrefix_eq_zero (by simpa using hc1) _
    have ho : olMarker (c :: r) = none := by simp [olMarker, spanLen, hc3]
    have hu : ulMarker (c :: r) = none := by
      simp [ulMarker, hmem '*' (by decide), hmem '+' (by decide), hmem '-' (by decide)]
    simp only [listItemMatch, h0, List.drop_zero, ho, hu]
    cases ol <;> cases ul <;> rfl
  have hA : (if cfg.admonition then admTest (n + 1) parent (c :: r) else none) = none := by
    split
    · exact admTest_none' htr.1 hadm
    · rfl
  have hT : (if tables then Tables.tableTest (c :: r) else none) = none := by
    split
    · exact tableTest_line _ hnl
    · rfl
  have hab : abbrP refs (c :: r) rest = .declined := by
    simp only [abbrP, abbrSearch_none htr.2.2.2]
  unfold dispatchXT
  rw [hA]
  simp only [tailEmptyT, e1, e2, indentTestX, hT, e3, tailList, e4, tailDef, defSearch_none htr.2.1, tailQuote,
    tailFootnote, footnoteP_none htr.2.2.1, tailAbbr, hab, tailRef, Bool.false_eq_true, if_false, Bool.false_and,
    Bool.and_false, Option.isSome_none, ite_self,
    hashSearch_eq_none (esc := lineEsc) (by decide) _ hl,
    hrSearch_eq_none (esc := lineEsc) (by decide) (by decide) (by decide) _ hl,
    quoteSearch_eq_none (esc := lineEsc) (by decide) _ hl, refSearch_eq_none (esc := lineEsc) (by decide) _ hl]

theorem dispatchXT_nop (tables : Bool) (cfg : XCfg) (tab : Nat) (pb : PB) (refs : Refs) (parent : Node) (b : Str)
    (rest : List Str) (hb : b.isEmpty = true ∨ startsWith b ['\n'] = true) (htr : contains b trigAdmonition = false)
    (hadm : ∀ sib, parent.last? = some sib → isAdmDiv sib = false) :
    dispatchXT tables cfg tab pb [] refs parent b rest = some (emptyP refs parent b rest) := by
  have hA : (if cfg.admonition then admTest tab parent b else none) = none := by
    split
    · exact admTest_none' htr hadm
    · rfl
  have e1 : (b.isEmpty || startsWith b ['\n']) = true := by
    rcases hb with h | h <;> simp [h]
  unfold dispatchXT
  rw [hA]
  simp only [tailEmptyT, e1, if_true]

theorem parseBlocksXT_step (tables : Bool) (cfg : XCfg) (tab f : Nat) (state : List BState) (refs : Refs)
    (parent : Node) (b : Str) (rest : List Str) :
    parseBlocksXT tables cfg tab (f + 1) state refs parent (b :: rest) =
      match dispatchXT tables cfg tab (parseBlocksXT tables cfg tab f) state refs parent b rest with
      | some (parent, refs, blocks) => parseBlocksXT tables cfg tab f state refs parent blocks
      | none => none := rfl

/-- a line of a paragraph or a placeholder: `ParaLine` and free of extension triggers -/
def XLine (l : Str) : Prop := ParaLine l ∧ NoTrig l

theorem contains_nl_cons {l pat : Str} (hp : '\n' ∉ pat) (hne : pat ≠ []) (h : contains l pat = false) :
    contains ('\n' :: l) pat = false := by
  rw [contains_eq_false_iff] at h ⊢
  intro a b e
  cases a with
  | nil =>
    cases pat with
    | nil => exact hne rfl
    | cons d pat' =>
      simp at e
      exact hp (by simp [← e.1])
  | cons x a' =>
    simp at e
    exact h a' b (by rw [e.2]; simp)

theorem parse_blksXT (tables : Bool) (cfg : XCfg) (tab : Nat) (htab : 0 < tab) (refs : Refs) :
    ∀ (bs : List Blk) (parent : Node),
      (∀ sib, parent.last? = some sib → preCode sib = none ∧ isAdmDiv sib = false) →
      (∀ nl l, Blk.par nl l ∈ bs → XLine l) →
      ∀ fuel, 2 * bs.length ≤ fuel →
        parseBlocksXT tables cfg tab fuel [] refs parent (bs.map Blk.str) =
          some ((blkTexts bs).foldl (fun n l => n.append (mkText "p" l)) parent, refs) := by
  intro bs
  induction bs with
  | nil => intro parent _ _ fuel _; cases fuel <;> rfl
  | cons bk bs ih =>
    intro parent hl hpar fuel hfuel
    have hl1 : ∀ sib, parent.last? = some sib → preCode sib = none := fun sib hs => (hl sib hs).1
    have hl2 : ∀ sib, parent.last? = some sib → isAdmDiv sib = false := fun sib hs => (hl sib hs).2
    obtain ⟨f, rfl⟩ : ∃ f, fuel = f + 2 := ⟨fuel - 2, by simp at hfuel; omega⟩
    have hf2 : 2 * bs.length ≤ f := by simp at hfuel; omega
    cases bk with
    | nop nl =>
      have hf := ih parent hl (fun nl l hm => hpar nl l (List.mem_cons_of_mem _ hm)) (f + 1) (by omega)
      simp only [List.map_cons, blkTexts]
      rw [parseBlocksXT_step]
      cases nl with
      | false =>
        simp only [Blk.str]
        rw [dispatchXT_nop _ _ _ _ _ _ _ _ (Or.inl rfl) (by decide) hl2, emptyP_plain _ _ _ _ hl1]
        exact hf
      | true =>
        simp only [Blk.str]
        rw [dispatchXT_nop _ _ _ _ _ _ _ _ (Or.inr rfl) (by decide) hl2, emptyP_plain _ _ _ _ hl1]
        exact hf
    | par nl l =>
      obtain ⟨⟨c, r, rfl, hnl, hc0, hc2, hc3⟩, htr⟩ := hpar nl l List.mem_cons_self
      have hc1 : c ≠ ' ' := by intro e; subst e; revert hc0; decide
      have hv : startsVisible (c :: r) = true := by simpa [startsVisible] using hc0
      have hih := ih (parent.append (mkText "p" (c :: r)))
        (fun sib hs => by rw [last_append] at hs; cases hs; exact ⟨preCode_p _, isAdmDiv_p _⟩)
        (fun nl l hm => hpar nl l (List.mem_cons_of_mem _ hm))
      have step : ∀ g, 2 * bs.length ≤ g →
          parseBlocksXT tables cfg tab (g + 1) [] refs parent ((c :: r) :: bs.map Blk.str) =
          some ((blkTexts bs).foldl (fun n l => n.append (mkText "p" l)) (parent.append (mkText "p" (c :: r))), refs) := by
        intro g hg
        rw [parseBlocksXT_step, dispatchXT_line tables cfg tab htab _ refs _ c r _ hnl hc1 hc2 hc3 htr hl2,
          paraP_visible _ _ _ _ hv]
        exact hih g hg
      cases nl with
      | false => simpa [Blk.str, blkTexts] using step (f + 1) (by omega)
      | true =>
        simp only [List.map_cons, Blk.str, blkTexts, List.foldl_cons]
        rw [parseBlocksXT_step,
          dispatchXT_nop _ _ _ _ _ _ _ _ (Or.inr rfl) (contains_nl_cons (by decide) (by decide) htr.1) hl2,
          emptyP_plain _ _ _ _ hl1]
        simpa using step f hf2

theorem itemsBlocks_length (items : List Item) : ∀ nl k, (itemsBlocks items nl k).length ≤ 2 * items.length + 1 := by
  induction items with
  | nil => intro nl k; simp [itemsBlocks]
  | cons it r ih =>
    intro nl k
    cases it with
    | para p => have := ih false k; simp [itemsBlocks]; omega
    | fence n ch lang b =>
      cases nl with
      | false => have := ih true (k + 1); simp [itemsBlocks]; omega
      | true => have := ih true (k + 1); simp [itemsBlocks]; omega

theorem itemsText_length (items : List Item) : ∀ k, 2 * items.length ≤ (itemsText items k).length := by
  induction items with
  | nil => intro k; simp
  | cons it r ih =>
    intro k
    cases it with
    | para p => have := ih k; simp [itemsText]; omega
    | fence n ch lang b => have := ih (k + 1); simp [itemsText]; omega

theorem itemsBlocks_xline (items : List Item) (h : ∀ it ∈ items, it.ok = true) :
    ∀ nl k nl' l, Blk.par nl' l ∈ itemsBlocks items nl k → XLine l := by
  induction items with
  | nil => intro nl k nl' l hm; simp [itemsBlocks] at hm
  | cons it r ih =>
    intro nl k nl' l hm
    have ih' := ih (fun x hx => h x (List.mem_cons_of_mem _ hx))
    cases it with
    | para p =>
      simp only [itemsBlocks, List.mem_cons, Blk.par.injEq] at hm
      rcases hm with ⟨_, rfl⟩ | hm
      · have hp : isParaLine l = true := by simpa [Item.ok] using h _ List.mem_cons_self
        exact ⟨paraLine_para hp, noTrig_para hp⟩
      · exact ih' _ _ _ _ hm
    | fence n ch lang b =>
      cases nl with
      | false =>
        simp only [itemsBlocks, List.mem_cons, Blk.par.injEq] at hm
        rcases hm with ⟨_, rfl⟩ | hm
        · exact ⟨paraLine_placeholder k, noTrig_placeholder k⟩
        · exact ih' _ _ _ _ hm
      | true =>
        simp only [itemsBlocks, List.mem_cons, Blk.par.injEq, reduceCtorEq, false_or] at hm
        rcases hm with ⟨_, rfl⟩ | hm
        · exact ⟨paraLine_placeholder k, noTrig_placeholder k⟩
        · exact ih' _ _ _ _ hm

/-- **the extended block parser on the document after the preprocessors**, whatever extensions are enabled: the
    same tree as the core parser, nothing written to the log -/
theorem parseDocumentXT_items (tables : Bool) (cfg : XCfg) (tab : Nat) (htab : 0 < tab) (items : List Item)
    (h : ∀ it ∈ items, it.ok = true) :
    parseDocumentXT tables cfg tab (itemsText items 0) = some (parasTree (itemTexts items 0), []) := by
  have hsplit := splitAux_items items h false 0
  simp only [Bool.false_eq_true, if_false, List.nil_append] at hsplit
  have hlen : 2 * (itemsBlocks items false 0).length ≤ fuelForX (itemsText items 0).length := by
    have h1 := itemsBlocks_length items false 0
    have h2 := itemsText_length items 0
    unfold fuelForX; omega
  have hf := parse_blksXT tables cfg tab htab [] (itemsBlocks items false 0) (Node.el "div")
    (fun sib hs => by simp [Node.last?, Node.el] at hs) (fun nl l hm => itemsBlocks_xline items h _ _ nl l hm) _ hlen
  have htree : (blkTexts (itemsBlocks items false 0)).foldl (fun n l => n.append (mkText "p" l)) (Node.el "div") =
      parasTree (itemTexts items 0) := by
    rw [blkTexts_itemsBlocks]
    generalize itemTexts items 0 = ts
    have : ∀ (ts : List Str) (parent : Node),
        ts.foldl (fun n l => n.append (mkText "p" l)) parent =
          { parent with children := parent.children ++ ts.map (mkText "p") } := by
      intro ts
      induction ts with
      | nil => intro parent; cases parent; simp
      | cons t ts ih => intro parent; rw [List.foldl_cons, ih]; simp [Node.append]
    rw [this]
    simp [parasTree, Node.el]
  rw [htree] at hf
  unfold parseDocumentXT parseChunk splitS
  rw [hsplit]
  exact hf

/-! #### the inline processor over the extended pattern table -/

open InlineX in
theorem fnRefScan_none (keys : List Str) (s : Str) (h : '[' ∉ s) : ∀ i, fnRefScan keys 0 s i = none := by
  induction s with
  | nil => intro i; rfl
  | cons c r ih =>
    intro i
    have hc : c ≠ '[' := fun e => h (by simp [e])
    have : fnRefAt (c :: r) = none := by
      unfold fnRefAt
      split
      · rename_i heq; simp at heq; exact absurd heq.1 hc
      · rfl
    simp only [fnRefScan, this]
    exact ih (fun e => h (List.mem_cons_of_mem _ e)) _

open InlineX in
theorem wikiScan_none (s : Str) (h : '[' ∉ s) : ∀ i, wikiScan s i = none := by
  induction s with
  | nil => intro i; rfl
  | cons c r ih =>
    intro i
    have hc : c ≠ '[' := fun e => h (by simp [e])
    have : wikiAt (c :: r) = none := by
      unfold wikiAt
      split
      · rename_i heq; simp at heq; exact absurd heq.1 hc
      · rfl
    simp only [wikiScan, this]
    exact ih (fun e => h (List.mem_cons_of_mem _ e)) _

open InlineX in
/-- on quiet text no pattern of the table matches -/
theorem findX_quiet (xc : InlineX.XCfg) (k : PatK) (data : Str) (x : InlineX.XSt) (hq : Quiet data) :
    findX xc k data 0 x = some (none, x) := by
  have hbr : '[' ∉ data := fun hm => (hq _ hm).2.2.1 rfl
  have hnl : find ['\n'] data = none := by
    rw [find_none_iff]; intro pre post e
    exact (hq '\n' (by rw [e]; simp)).2.2.2.1 rfl
  cases k with
  | core i =>
    simp only [findX, findMatch_quiet xc.cfg i data x.st hq]
  | footnote =>
    simp only [findX, show ¬ (0 > data.length) by omega, if_false, List.drop_zero, fnRefScan_none _ _ hbr]
  | wikilink =>
    simp only [findX, show ¬ (0 > data.length) by omega, if_false, List.drop_zero, wikiScan_none _ hbr]
  | nl =>
    simp only [findX, show ¬ (0 > data.length) by omega, if_false, List.drop_zero, hnl]

open InlineX in
theorem applyPatternX_quiet (xc : InlineX.XCfg) (hi : HIX) (pi : Nat) (data : Str) (x : InlineX.XSt) (hq : Quiet data) :
    applyPatternX xc hi pi data 0 x = some (data, false, 0, x) := by
  unfold applyPatternX
  cases xc.table[pi]? with
  | none => rfl
  | some k => simp only [findX_quiet xc k data x hq]

open InlineX in
theorem hiLoopX_quiet (count : Nat) (ap : Nat → Str → Nat → InlineX.XSt → Option (Str × Bool × Nat × InlineX.XSt)) (data : Str)
    (x : InlineX.XSt) (hq : ∀ pi, ap pi data 0 x = some (data, false, 0, x)) :
    ∀ (n pi g : Nat), pi + n = count → n + 1 ≤ g → hiLoopX count ap g data pi 0 x = some (data, x) := by
  intro n
  induction n with
  | zero =>
    intro pi g hpi hg
    obtain ⟨g', rfl⟩ : ∃ g', g = g' + 1 := ⟨g - 1, by omega⟩
    have : ¬ pi < count := by omega
    simp [hiLoopX, this]
  | succ n ih =>
    intro pi g hpi hg
    obtain ⟨g', rfl⟩ : ∃ g', g = g' + 1 := ⟨g - 1, by omega⟩
    have : pi < count := by omega
    simp only [hiLoopX, this, if_true, hq, Bool.false_eq_true, if_false]
    exact ih (pi + 1) g' (by omega) (by omega)

open InlineX in
theorem handleInlineTopX_quiet (xc : InlineX.XCfg) (data : Str) (x : InlineX.XSt) (hq : Quiet data) (hcount : 1 ≤ xc.table.length) :
    handleInlineTopX xc data x = some (data, x) := by
  unfold handleInlineTopX
  rw [show data.length + xc.table.length + 4 = (data.length + xc.table.length + 3) + 1 from rfl]
  unfold handleInlineX
  apply hiLoopX_quiet _ _ _ _ (fun pi => applyPatternX_quiet xc _ pi data x hq) xc.table.length 0 _ (by omega)
  unfold loopFuelX
  have h1 : xc.table.length * 4 ≤ xc.table.length * (data.length + 2) * (data.length + 2) := by
    have : 4 ≤ (data.length + 2) * (data.length + 2) := by
      have : 2 ≤ data.length + 2 := by omega
      calc 4 = 2 * 2 := rfl
        _ ≤ (data.length + 2) * (data.length + 2) := Nat.mul_le_mul this this
    rw [Nat.mul_assoc]
    exact Nat.mul_le_mul_left _ this
  omega

open InlineX in
theorem visitChildX_inertP (xc : InlineX.XCfg) (data : Str) (v : VisitX) (h : InlineInert data) (hcount : 1 ≤ xc.table.length) :
    visitChildX xc (mkText "p" data) v = some (mkText "p" data, [], v) := by
  obtain ⟨hne, hq, hf⟩ := h
  obtain ⟨c, r, rfl⟩ : ∃ c r, data = c :: r := by cases data <;> simp_all
  unfold visitChildX
  have h1 : Node.truthy (mkText "p" (c :: r)).text = true := rfl
  simp only [h1, show (mkText "p" (c :: r)).textAtomic = false from rfl, Bool.not_false, Bool.and_self, if_true]
  rw [show (mkText "p" (c :: r)).text.getD [] = c :: r from rfl, handleInlineTopX_quiet xc _ _ hq hcount]
  simp only
  rw [ppTop_nofind v.x.st (c :: r) _ (by simp) hf rfl rfl]
  cases v
  simp [mkText, Node.el, Node.truthy]

open InlineX in
theorem visitLoopX_inert (xc : InlineX.XCfg) (hcount : 1 ≤ xc.table.length) (ps : List Str) (h : ∀ p ∈ ps, InlineInert p) :
    ∀ (i : Nat) (v : VisitX) (g : Nat), ps.length + 1 ≤ g →
      ∃ v', visitLoopX xc g (withIdx (ps.map (mkText "p")) i) v = some v' ∧
        v'.done = (ps.map (mkText "p")).reverse ++ v.done ∧ v'.pushes = v.pushes ∧ v'.x = v.x := by
  induction ps with
  | nil =>
    intro i v g hg
    obtain ⟨g', rfl⟩ : ∃ g', g = g' + 1 := ⟨g - 1, by simp at hg; omega⟩
    exact ⟨v, rfl, by simp, rfl, rfl⟩
  | cons p r ih =>
    intro i v g hg
    obtain ⟨g', rfl⟩ : ∃ g', g = g' + 1 := ⟨g - 1, by simp at hg; omega⟩
    simp only [List.map_cons, withIdx, visitLoopX, visitChildX_inertP xc p v (h p List.mem_cons_self) hcount,
      List.map_nil, List.nil_append]
    obtain ⟨v', h1, h2, h3, h4⟩ := ih (fun q hq => h q (List.mem_cons_of_mem _ hq)) (i + 1)
      { v with done := mkText "p" p :: v.done, posmap := (i, v.done.length) :: v.posmap } g'
      (by simp at hg ⊢; omega)
    exact ⟨v', h1, by simp [h2], h3, h4⟩

open InlineX in
/-- **the inline processor with the extension patterns leaves such a document alone** -/
theorem runX_parasTree (xc : InlineX.XCfg) (hcount : 1 ≤ xc.table.length) (ps : List Str) (html : List Str)
    (h : ∀ p ∈ ps, InlineInert p) :
    runX xc (parasTree ps) html = some (parasTree ps, { st := { html := html } }) := by
  unfold runX
  have hsz : ps.length + 1 ≤ Inline.runFuel (parasTree ps) := by
    have := length_le_sizeList (ps.map (mkText "p"))
    simp only [List.length_map] at this
    simp only [Inline.runFuel, parasTree, Node.el, Inline.size]
    omega
  generalize hf : Inline.runFuel (parasTree ps) = f at hsz
  obtain ⟨g, rfl⟩ : ∃ g, f = g + 2 := ⟨f - 2, by simp [Inline.runFuel] at hf; omega⟩
  obtain ⟨v', h1, h2, h3, h4⟩ := visitLoopX_inert xc hcount ps h 0 { x := { st := { html := html } } } (g + 2) hsz
  have hc : (parasTree ps).children = ps.map (mkText "p") := rfl
  simp only [runLoopX, Inline.getAt, hc, h1, h2, h3, h4, List.reverse_append, List.reverse_nil, List.nil_append,
    List.reverse_reverse, List.map_nil, Inline.setAt]
  rfl

/-! #### the tree processors and postprocessors of the extensions -/

theorem duplicatesKids_paras (fn : Footnotes.State) (ps : List Str) :
    FootnotesTree.duplicatesKids fn (ps.map (mkText "p")) = some (ps.map (mkText "p")) := by
  induction ps with
  | nil => rfl
  | cons p r ih =>
    simp only [List.map_cons, FootnotesTree.duplicatesKids, ih]
    simp [mkText, Node.el, FootnotesTree.duplicates, FootnotesTree.duplicatesKids]

theorem duplicates_parasTree (fn : Footnotes.State) (ps : List Str) :
    FootnotesTree.duplicates fn (parasTree ps) = some (parasTree ps) := by
  have hk := duplicatesKids_paras fn ps
  simp only [parasTree, Node.el, FootnotesTree.duplicates, hk]
  simp

theorem blockSearch_none (t : Str) (h : '\n' ∉ t) : AttrList.blockSearch t = none := by
  induction t with
  | nil => rfl
  | cons c r ih =>
    have hc : c ≠ '\n' := fun e => h (by simp [e])
    simp [AttrList.blockSearch, hc, ih (fun e => h (List.mem_cons_of_mem _ e))]

theorem blockApply_none (a : AttrList.Attrs) (text : Str) (h : AttrList.blockSearch text = none) :
    AttrList.blockApply false false a text = (a, text) := by
  unfold AttrList.blockApply
  simp only [Bool.false_eq_true, if_false, h]

/-- a paragraph of the prettified tree -/
def pNode (p : Str) : Node := ⟨.name ['p'], [], some p, false, [], some ['\n'], false⟩

theorem parasTreeP_eq (ps : List Str) :
    parasTreeP ps = ⟨.name ['d', 'i', 'v'], [], some ['\n'], false, ps.map pNode, some ['\n'], false⟩ := rfl

theorem attrNode_pNode (p : Str) (hne : p ≠ []) (hnl : '\n' ∉ p) :
    AttrListTree.attrNode TreeProc.defaultBlockLevel none (pNode p) = pNode p := by
  obtain ⟨c, t, rfl⟩ : ∃ c t, p = c :: t := by cases p <;> simp_all
  have hbs := blockSearch_none (c :: t) hnl
  have hbl : TreeProc.isBlockLevel TreeProc.defaultBlockLevel (.name ['p']) = true := CodeLaw.bl_p
  have hba := blockApply_none [] (c :: t) hbs
  have hh : AttrListTree.isCellTag (.name ['p']) = false := by decide
  have hh2 : AttrListTree.isHeaderTag (.name ['p']) = false := by decide
  simp only [pNode, AttrListTree.attrNode, hbl, if_true, AttrListTree.blockRule, List.isEmpty_nil, Bool.not_true,
    Bool.false_and, Bool.false_eq_true, if_false, Node.truthy, hh, hh2, Bool.or_self, hba, AttrListTree.attrKids,
    Option.getD_some]

theorem attrKids_paras (ps : List Str) (h : ∀ p ∈ ps, p ≠ [] ∧ '\n' ∉ p) :
    ∀ i, AttrListTree.attrKids TreeProc.defaultBlockLevel none i (ps.map pNode) = ps.map pNode := by
  induction ps with
  | nil => intro i; rfl
  | cons p r ih =>
    intro i
    simp only [List.map_cons, AttrListTree.attrKids, ih (fun q hq => h q (List.mem_cons_of_mem _ hq)),
      attrNode_pNode p (h p List.mem_cons_self).1 (h p List.mem_cons_self).2]

theorem attrList_parasTreeP (p0 : Str) (ps : List Str) (h : ∀ p ∈ p0 :: ps, p ≠ [] ∧ '\n' ∉ p) :
    AttrListTree.run TreeProc.defaultBlockLevel (parasTreeP (p0 :: ps)) = parasTreeP (p0 :: ps) := by
  have hk := attrKids_paras (p0 :: ps) h 0
  have hbs : AttrList.blockSearch ['\n'] = none := by decide
  have hbl : TreeProc.isBlockLevel TreeProc.defaultBlockLevel (.name ['d', 'i', 'v']) = true := CodeLaw.bl_div
  have hlast : (((p0 :: ps).map pNode).getLast?).bind (·.tail) = some ['\n'] := by
    rw [List.getLast?_map]
    cases hl : (p0 :: ps).getLast? with
    | none => simp at hl
    | some q => rfl
  have hne : ((p0 :: ps).map pNode).isEmpty = false := rfl
  rw [parasTreeP_eq]
  unfold AttrListTree.run
  have hba := blockApply_none [] ['\n'] hbs
  have hh : AttrListTree.isCellTag (.name ['d', 'i', 'v']) = false := by decide
  have hh2 : AttrListTree.isHeaderTag (.name ['d', 'i', 'v']) = false := by decide
  have hli : (Tag.name ['d', 'i', 'v'] == Tag.name "li".toList) = false := by decide
  simp only [AttrListTree.attrNode, hbl, if_true, AttrListTree.blockRule, hlast, hne, Bool.not_false, Bool.true_and,
    Node.truthy, hh, hh2, Bool.or_self, hli, hba, hk, Bool.false_eq_true, if_false, Option.getD_some]

theorem stripMarker_ne (t : Str) (h : '[' ∉ t) : (strip t == TocTree.marker) = false := by
  rw [beq_eq_false_iff_ne]
  intro e
  have : '[' ∈ strip t := by rw [e]; decide
  exact h ((strip_infix t).subset this)

theorem walkNode_pNode (env : TocTree.Env) (st : TocTree.St) (p : Str) :
    TocTree.walkNode env (pNode p) st = .ok (pNode p, st) := by
  simp [pNode, TocTree.walkNode, TocTree.walkKids, TocTree.isHeaderTag]

theorem walkKids_paras (env : TocTree.Env) (st : TocTree.St) (ps : List Str) :
    TocTree.walkKids env (ps.map pNode) st = .ok (ps.map pNode, st) := by
  induction ps with
  | nil => rfl
  | cons p r ih => simp only [List.map_cons, TocTree.walkKids, walkNode_pNode, ih]

theorem replKids_paras (div : Node) (ps : List Str) (h : ∀ p ∈ ps, '[' ∉ p) :
    TocTree.replKids div (ps.map pNode) = ps.map pNode := by
  induction ps with
  | nil => rfl
  | cons p r ih =>
    have hm := stripMarker_ne p (h p List.mem_cons_self)
    have e1 : (pNode p).tag = .name ['p'] := rfl
    have e2 : (pNode p).text = some p := rfl
    have e3 : TocTree.replNode div (pNode p) = pNode p := by simp [pNode, TocTree.replNode, TocTree.replKids]
    simp only [List.map_cons, TocTree.replKids, ih (fun q hq => h q (List.mem_cons_of_mem _ hq)), e1, e2, e3,
      Option.getD_some, hm, Bool.false_and, Bool.and_false, Bool.false_eq_true, if_false]
    simp [TocTree.isHeaderTag]

theorem toc_parasTreeP (env : TocTree.Env) (ps : List Str) (h : ∀ p ∈ ps, '[' ∉ p) :
    TocTree.run env TreeProc.defaultBlockLevel (parasTreeP ps) = .ok (parasTreeP ps) := by
  unfold TocTree.run
  have h1 : ∀ st, TocTree.walkNode env (parasTreeP ps) st = .ok (parasTreeP ps, st) := by
    intro st
    rw [parasTreeP_eq]
    simp only [TocTree.walkNode, walkKids_paras]
    simp [TocTree.isHeaderTag]
  have hids : TocTree.usedIds (TocTree.idsOf (parasTreeP ps)) = some [] := by
    have hk : ∀ l : List Str, TocTree.idsOfKids (l.map pNode) = [] := by
      intro l
      induction l with
      | nil => rfl
      | cons p r ih => simp [TocTree.idsOfKids, TocTree.idsOf, pNode, mkText, Node.el, ih]
    rw [parasTreeP_eq]
    simp [TocTree.idsOf, hk, TocTree.usedIds, Node.el]
  rw [hids]
  simp only
  rw [h1]
  simp only
  rw [parasTreeP_eq]
  simp only [TocTree.replNode, replKids_paras _ ps h]

theorem postprocess_id (r : Str) (h : Post.STX ∉ r) : FootnotesTree.postprocess r = r := by
  unfold FootnotesTree.postprocess
  have h1 : replace r FootnotesTree.fnBacklinkText "&#8617;".toList = r := by
    apply replace_id_of_not_contains
    rw [contains_eq_false_iff]
    rintro a b rfl
    exact h (by simp [FootnotesTree.fnBacklinkText, FootnotesTree.STX, Post.STX])
  rw [h1]
  apply replace_id_of_not_contains
  rw [contains_eq_false_iff]
  rintro a b rfl
  exact h (by simp [FootnotesTree.nbspPlaceholder, FootnotesTree.STX, Post.STX])

/-! #### `attr_list` together with `fenced_code`: no block of the document carries options -/

open PipelineX in
theorem fencedHasConfig_shift (pre : Str) (fuel : Nat) (t : Str) (i k : Nat) (hi : 1 ≤ i) :
    fencedHasConfig fuel (pre ++ t) (pre.length + i) k = fencedHasConfig fuel t i k := by
  induction fuel generalizing t i k with
  | zero => rfl
  | succ f ih =>
    have hfind : fenceFindFrom (pre ++ t) (pre.length + i) = (fenceFindFrom t i).map (shift pre.length) :=
      fenceFindFrom_prefix pre t i hi
    simp only [fencedHasConfig, hfind]
    cases fenceFindFrom t i with
    | none => rfl
    | some m =>
      have htext : ∀ ph : Str, (pre ++ t).take (pre.length + m.start) ++ '\n' :: (ph ++ '\n' ::
          (pre ++ t).drop (pre.length + m.stop)) = pre ++ (t.take m.start ++ '\n' :: (ph ++ '\n' :: t.drop m.stop)) := by
        intro ph
        rw [take_prefix, drop_prefix, List.append_assoc]
      have hidx : ∀ n : Nat, pre.length + m.start + 1 + n = pre.length + (m.start + 1 + n) := fun n => by omega
      have hae := attrsEnd_shift pre t m (m.attrs.getD [])
      simp only [shift] at hae
      simp only [Option.map_some, shift, htext, hidx, hae]
      rw [ih _ _ _ (by omega), ih _ _ _ (attrsEnd_ge _ _ _)]

open PipelineX in
theorem fencedHasConfig_first (pre : Str) (fuel : Nat) (t : Str) (j k : Nat)
    (hfind : fenceFindFrom (pre ++ t) j = (fenceFindFrom t 0).map (shift pre.length)) :
    fencedHasConfig fuel (pre ++ t) j k = fencedHasConfig fuel t 0 k := by
  cases fuel with
  | zero => rfl
  | succ f =>
    simp only [fencedHasConfig, hfind]
    cases fenceFindFrom t 0 with
    | none => rfl
    | some m =>
      have htext : ∀ ph : Str, (pre ++ t).take (pre.length + m.start) ++ '\n' :: (ph ++ '\n' ::
          (pre ++ t).drop (pre.length + m.stop)) = pre ++ (t.take m.start ++ '\n' :: (ph ++ '\n' :: t.drop m.stop)) := by
        intro ph
        rw [take_prefix, drop_prefix, List.append_assoc]
      have hidx : ∀ n : Nat, pre.length + m.start + 1 + n = pre.length + (m.start + 1 + n) := fun n => by omega
      have hae := attrsEnd_shift pre t m (m.attrs.getD [])
      simp only [shift] at hae
      simp only [Option.map_some, shift, htext, hidx, hae]
      rw [fencedHasConfig_shift pre _ _ _ _ (by omega), fencedHasConfig_shift pre _ _ _ _ (attrsEnd_ge _ _ _)]

/-- the search restarted behind an inserted placeholder finds what a search of the rest finds -/
theorem fenceFindFrom_after_placeholder (k : Nat) (t : Str) :
    fenceFindFrom (('\n' :: (Fenced.placeholder k ++ ['\n', '\n', '\n'])) ++ t)
        (0 + 1 + (Fenced.placeholder k).length) =
      (fenceFindFrom t 0).map (shift ('\n' :: (Fenced.placeholder k ++ ['\n', '\n', '\n'])).length) := by
  apply fenceFindFrom_mid _ _ _ ['\n', '\n']
  · simp; omega
  · have : 0 + 1 + (Fenced.placeholder k).length = ('\n' :: Fenced.placeholder k).length := by
      simp; omega
    rw [this, show '\n' :: (Fenced.placeholder k ++ ['\n', '\n', '\n']) =
      ('\n' :: Fenced.placeholder k) ++ ['\n', '\n', '\n'] from rfl, List.drop_left]
    rfl
  · decide
  · rw [placeholder_shape]
    have hl2 : 0 + 1 + ((Char.ofNat 2 :: ("wzxhzdk:".toList ++ natToDec k)) ++ [Char.ofNat 3]).length - 1 =
        ('\n' :: Char.ofNat 2 :: ("wzxhzdk:".toList ++ natToDec k)).length := by
      simp
    rw [hl2]
    have e3 : ('\n' :: (((Char.ofNat 2 :: ("wzxhzdk:".toList ++ natToDec k)) ++ [Char.ofNat 3]) ++
        ['\n', '\n', '\n'])) ++ t =
        ('\n' :: Char.ofNat 2 :: ("wzxhzdk:".toList ++ natToDec k)) ++
          (Char.ofNat 3 :: ('\n' :: '\n' :: '\n' :: t)) := by simp
    rw [e3, List.getElem?_append_right (Nat.le_refl _)]
    simp

open PipelineX in
/-- no block of the document has options: what `attr_list` would turn into attributes of `code` does not occur -/
theorem fencedHasConfig_items (items : List Item) (h : ∀ it ∈ items, it.ok = true) :
    ∀ (k fuel : Nat), items.length + 1 ≤ fuel → fencedHasConfig fuel (paras (items.map Item.src)) 0 k = false := by
  induction items with
  | nil =>
    intro k fuel hf
    obtain ⟨f, rfl⟩ : ∃ f, fuel = f + 1 := ⟨fuel - 1, by simp at hf; omega⟩
    simp [fencedHasConfig, fenceFindFrom, fenceScan, paras]
  | cons it r ih =>
    intro k fuel hf
    have ih' := ih (fun x hx => h x (List.mem_cons_of_mem _ hx))
    have hit := h it List.mem_cons_self
    cases it with
    | para p =>
      have hp : isParaLine p = true := by simpa [Item.ok] using hit
      have e : paras ((Item.para p :: r).map Item.src) = (p ++ ['\n', '\n']) ++ paras (r.map Item.src) := by
        simp [paras, Item.src]
      have hpp : plainPrefix (p ++ ['\n', '\n']) := by
        refine Or.inr ⟨p ++ ['\n'], by simp, ?_⟩
        simp only [noFenceLine, lines]
        rw [show p ++ ['\n'] = p ++ '\n' :: [] from rfl, Fenced.splitC_append,
          Fenced.splitC_no_sep _ _ (fun c hc e => para_no_nl hp (by subst e; exact hc))]
        simp only [splitC, List.cons_append, List.nil_append, List.all_cons, plainLine_para hp, List.all_nil,
          Bool.and_true, Bool.true_and]
        decide
      rw [e, fencedHasConfig_first _ fuel _ 0 k (fenceFindFrom_prefix0 _ _ hpp)]
      exact ih' k fuel (by simp at hf ⊢; omega)
    | fence n ch lang b =>
      obtain ⟨hch, hn, hl, hb⟩ := Item.ok_fence hit
      obtain ⟨f, rfl⟩ : ∃ f, fuel = f + 1 := ⟨fuel - 1, by simp at hf; omega⟩
      have e : paras ((Item.fence n ch lang b :: r).map Item.src) =
          fenceBlock n ch lang b ++ '\n' :: '\n' :: paras (r.map Item.src) := by
        simp [paras, Item.src]
      have e2 : fenceBlock n ch lang b ++ '\n' :: '\n' :: paras (r.map Item.src) =
          List.replicate n ch ++ (lang ++ '\n' :: (b ++ '\n' :: (List.replicate n ch ++ '\n' ::
            ('\n' :: paras (r.map Item.src))))) := by
        simp [fenceBlock]
      have hat := fenceAt_block_lang n ch lang b ('\n' :: paras (r.map Item.src)) hch hn hl (bodyOk_spec hb).1
      have hf0 := fenceScan_at _ 0 _ hat
      have hfind : fenceFindFrom (fenceBlock n ch lang b ++ '\n' :: '\n' :: paras (r.map Item.src)) 0 =
          some ⟨0, n + lang.length + 1 + (b.length + 1) + n, List.replicate n ch, none, some lang, none, b ++ ['\n']⟩ := by
        rw [e2]
        simp only [fenceFindFrom, List.drop_zero]
        simpa using hf0
      have hdrop : (fenceBlock n ch lang b ++ '\n' :: '\n' :: paras (r.map Item.src)).drop
          (n + lang.length + 1 + (b.length + 1) + n) = '\n' :: '\n' :: paras (r.map Item.src) := by
        apply List.drop_left'
        simp [fenceBlock]; omega
      have eA : '\n' :: (Fenced.placeholder k ++ '\n' :: '\n' :: '\n' :: paras (r.map Item.src)) =
          ('\n' :: (Fenced.placeholder k ++ ['\n', '\n', '\n'])) ++ paras (r.map Item.src) := by simp
      rw [e, fencedHasConfig, hfind]
      simp only [Option.getD_none, List.isEmpty_nil, if_true, List.take_zero, List.nil_append, hdrop, Node.truthy,
        Bool.false_eq_true, if_false]
      rw [eA, fencedHasConfig_first _ f _ _ _ (fenceFindFrom_after_placeholder k _)]
      exact ih' (k + 1) f (by simp at hf ⊢; omega)

theorem table_length (a b c : Bool) : 1 ≤ (InlineX.table a b c).length := by
  cases a <;> cases b <;> cases c <;> decide

theorem runX_parasTree' (cfg : Inline.Cfg) (a b c : Bool) (keys : List Str) (ps : List Str) (html : List Str)
    (h : ∀ p ∈ ps, InlineInert p) :
    InlineX.runX { cfg := cfg, table := InlineX.table a b c, fnKeys := keys } (parasTree ps) html =
      some (parasTree ps, { st := { html := html } }) :=
  runX_parasTree _ (table_length a b c) ps html h

/-- the tree processors between the inline stage and the serializer, extensions included, on such a document -/
theorem treeStages_parasTree (x : Exts) (tab : Nat) (fmt : Ser.Fmt) (t0 : Str) (ts : List Str) (stash : List Str)
    (h : ∀ p ∈ t0 :: ts, TextInert p) (hnl : ∀ p ∈ t0 :: ts, '\n' ∉ p ∧ '[' ∉ p) :
    (let t := TreeProc.prettify (parasTree (t0 :: ts)) ({ tab := tab, fmt := fmt } : Pipeline.Cfg).blockLevel
     let t := if x.attrList then AttrListTree.run ({ tab := tab, fmt := fmt } : Pipeline.Cfg).blockLevel t else t
     let t := if x.abbr then AbbrTree.run (BlockExt.abbrsOf []) t else t
     let tocStage : TocTree.R Node :=
       if x.toc then
         TocTree.run { fmt := ({ tab := tab, fmt := fmt } : Pipeline.Cfg).fmt, post := postX x { tab := tab, fmt := fmt } stash }
           ({ tab := tab, fmt := fmt } : Pipeline.Cfg).blockLevel t
       else .ok t
     tocStage) = .ok (parasTreeP (t0 :: ts)) := by
  have h1 : TreeProc.prettify (parasTree (t0 :: ts)) ({ tab := tab, fmt := fmt } : Pipeline.Cfg).blockLevel =
      parasTreeP (t0 :: ts) := prettify_parasTree t0 ts
  have h2 : AttrListTree.run ({ tab := tab, fmt := fmt } : Pipeline.Cfg).blockLevel (parasTreeP (t0 :: ts)) =
      parasTreeP (t0 :: ts) :=
    attrList_parasTreeP t0 ts (fun p hp => ⟨(h p hp).1.1, (hnl p hp).1⟩)
  have h3 : AbbrTree.run (BlockExt.abbrsOf []) (parasTreeP (t0 :: ts)) = parasTreeP (t0 :: ts) := rfl
  have h4 : ∀ env, TocTree.run env ({ tab := tab, fmt := fmt } : Pipeline.Cfg).blockLevel (parasTreeP (t0 :: ts)) =
      .ok (parasTreeP (t0 :: ts)) := fun env => toc_parasTreeP env _ (fun p hp => (hnl p hp).2)
  simp only [h1]
  cases x.attrList <;> cases x.abbr <;> cases x.toc <;>
    simp only [Bool.false_eq_true, if_false, if_true, h2, h3, h4]

theorem no_nl_bracket_texts (items : List Item) (h : ∀ it ∈ items, it.ok = true) (k : Nat) :
    ∀ p ∈ itemTexts items k, '\n' ∉ p ∧ '[' ∉ p := by
  intro p hp
  rcases itemTexts_spec items h k p hp with ⟨j, rfl⟩ | hpl
  · exact ⟨fun hm => ne_of_mem_placeholder hm (by decide) (by decide) rfl,
      fun hm => ne_of_mem_placeholder hm (by decide) (by decide) rfl⟩
  · obtain ⟨_, _, _, _, hw⟩ := isParaLine_spec hpl
    exact ⟨fun hm => wordSp_ne (hw _ hm) (by decide) rfl, fun hm => wordSp_ne (hw _ hm) (by decide) rfl⟩

/-- **`Markdown.convert` with `fenced_code` AND any of the other modelled extensions** (tables, admonition, def_list,
    abbr, footnotes, sane_lists, nl2br, wikilinks, attr_list, toc) on a document of paragraphs and fenced blocks:
    the result is that of `fenced_code` alone.  `hadm` excludes the one point where the model answers "outside
    the modelled domain" (admonition and `!!!` followed by a non-ASCII character somewhere in the text). -/
theorem convert_items_flags (x : Exts) (hx : x.fencedCode = true) (tab : Nat) (htab : 0 < tab) (fmt : Ser.Fmt)
    (items : List Item) (hne : items ≠ []) (h : ∀ it ∈ items, it.ok = true)
    (hadm : (x.admonition && admNonAscii (paras (items.map Item.src))) = false) :
    convertX x { tab := tab, fmt := fmt } (itemsSource items) = .ok (itemsHtml items) := by
  obtain ⟨it, r, rfl⟩ : ∃ it r, items = it :: r := by
    cases items with
    | nil => exact absurd rfl hne
    | cons it r => exact ⟨it, r, rfl⟩
  have hbase := convert_items tab htab fmt (it :: r) hne h
  -- the first two tests of `convert` do not depend on the extensions
  have hlt : (itemsSource (it :: r)).contains '<' = false := by
    rw [Bool.eq_false_iff]; intro hc
    exact (items_chars _ hne h '<' (by simpa using hc)).1 rfl
  have hblank : Normalize.isBlankDoc (itemsSource (it :: r)) = false := by
    cases hb : Normalize.isBlankDoc (itemsSource (it :: r)) with
    | false => rfl
    | true =>
      rw [convertX_fenced, hlt, hb] at hbase
      simp only [Bool.false_eq_true, if_false, if_true] at hbase
      -- the expected output is not empty
      have : itemsHtml (it :: r) = [] := by injection hbase with e; exact e.symm
      obtain ⟨r2, hr2⟩ := item_html_shape it
      rw [← itemsH_tail] at this
      simp [itemsH, hr2] at this
  have htexts : ∀ p ∈ itemTexts (it :: r) 0, TextInert p := by
    intro p hp
    rcases itemTexts_spec _ h 0 p hp with ⟨j, rfl⟩ | hp
    · exact textInert_placeholder j
    · exact textInert_para hp
  obtain ⟨t0, ts, hts⟩ : ∃ t0 ts, itemTexts (it :: r) 0 = t0 :: ts := by
    cases it <;> exact ⟨_, _, rfl⟩
  have hprep : prepareX x { tab := tab, fmt := fmt } (itemsSource (it :: r)) =
      .ok (itemsText (it :: r) 0, itemsStash (it :: r)) := by
    unfold prepareX
    simp only
    rw [normalize_items tab _ hne h, hadm, hx]
    have hcfgf : (x.attrList && fencedHasConfig ((paras ((it :: r).map Item.src)).length + 1)
        (paras ((it :: r).map Item.src)) 0 0) = false := by
      rw [fencedHasConfig_items _ h 0 _ (by
        have := length_paras_ge ((it :: r).map Item.src)
        simp only [List.length_map] at this
        omega)]
      simp
    simp only [Bool.false_eq_true, if_false, if_true, hcfgf, fencedRunA_items _ h, extract_items _ h]
  have hmk : ∀ pc : Block.Refs → Str → Option (Node × Block.Refs),
      FootnotesTree.makeDiv pc fnCount (BlockExt.footnotesOf []) [] = .ok (none, []) := fun _ => rfl
  obtain ⟨Z, hz1, hz2, hz3, hz4⟩ := finish_items_parts it r h
  unfold convertX
  rw [hlt, hblank]
  simp only [Exts.unsupported, Bool.false_eq_true, if_false]
  unfold treeX
  rw [hprep]
  simp only
  rw [parseDocumentXT_items x.tables x.blockCfg tab htab _ h]
  simp only [hmk, ite_self]
  rw [runX_parasTree' _ _ _ _ _ _ _ (fun p hp => (htexts p hp).1)]
  simp only
  have hdup : (if x.footnotes then FootnotesTree.duplicates Footnotes.State.empty (parasTree (itemTexts (it :: r) 0))
      else some (parasTree (itemTexts (it :: r) 0))) = some (parasTree (itemTexts (it :: r) 0)) := by
    split
    · exact duplicates_parasTree _ _
    · rfl
  rw [hdup]
  simp only
  have hstages := treeStages_parasTree x tab fmt t0 ts (itemsStash (it :: r)) (by rw [← hts]; exact htexts)
    (by rw [← hts]; exact no_nl_bracket_texts _ h 0)
  simp only at hstages
  rw [hts, hstages]
  simp only
  rw [unescape_parasTreeP _ (fun p hp => (htexts p (by rw [hts]; exact hp)).2.1)]
  simp only
  rw [serialize_parasTreeP _ _ (fun p hp => (htexts p (by rw [hts]; exact hp)).1.1),
    flatMap_congr' _ _ _ (fun p hp => by rw [(htexts p (by rw [hts]; exact hp)).2.2]), ← hts,
    itemsStash_eq _ h]
  unfold finishX
  rw [hz1]
  simp only [postX]
  rw [hz2]
  simp only [Option.map_some]
  have hpp : (if x.footnotes then FootnotesTree.postprocess (itemsHtml (it :: r)) else itemsHtml (it :: r)) =
      itemsHtml (it :: r) := by
    split
    · exact postprocess_id _ hz3
    · rfl
  rw [hpp, ampSub_of_no_stx hz3, hz4]

end flags

end MdVerif.FencedPipe
