/-
Helper lemmas for C17 at the tree / document level: `TocTree.run` (`Model/Ext/TocTree.lean`) on every element tree
and the toc stage of `PipelineX.treeX`.  Core Lean only.
-/
import MdVerif.Model.PipelineX
import MdVerif.Lemmas.Toc
import MdVerif.Lemmas.PyBasic

namespace MdVerif.TocTreeDoc
open MdVerif.Py MdVerif.TocTree MdVerif.Toc MdVerif.Toc.Spec

/-- `unescape` of `toc.py` = `UnescapeTreeprocessor.unescape`; `none` = `chr` raises -/
abbrev unesc (s : Str) : Option Str := TreeProc.unescapeText 0 s

abbrev STX : Char := TreeProc.STX

/-! ### observations on a tree -/

/-- the `id` attribute among the attributes of one element -/
def idOf (attrs : List (Str × Str)) : Option Str := (attrs.find? (fun kv => kv.1 = idKey)).map (·.2)

mutual
/-- the `id` attribute (or `none`) of every heading element (`[Hh][1-6]`), in document order (`doc.iter()`) -/
def hdIds : Node → List (Option Str)
  | ⟨tag, attrs, _, _, children, _, _⟩ => (if isHeaderTag tag then [idOf attrs] else []) ++ hdIdsKids children
def hdIdsKids : List Node → List (Option Str)
  | [] => []
  | c :: r => hdIds c ++ hdIdsKids r
end

/-- the level digit of a heading tag (`int(el.tag[-1])`) -/
def levelOf (tag : Tag) : Nat :=
  match tag with
  | .name t => (t.getLast?.map (fun c => c.toNat - 48)).getD 0
  | _ => 0

mutual
/-- the level of every heading element, in document order -/
def hdLevels : Node → List Nat
  | ⟨tag, _, _, _, children, _, _⟩ => (if isHeaderTag tag then [levelOf tag] else []) ++ hdLevelsKids children
def hdLevelsKids : List Node → List Nat
  | [] => []
  | c :: r => hdLevels c ++ hdLevelsKids r
end

/-- the heading ids after the walk: an explicit id stays, a missing one is taken from `gen` (in order) -/
def fillIds : List (Option Str) → List Str → List Str
  | [], _ => []
  | some i :: r, gen => i :: fillIds r gen
  | none :: r, g :: gen => g :: fillIds r gen
  | none :: r, [] => fillIds r []

/-- number of headings without an `id` -/
def missing (l : List (Option Str)) : Nat := l.count none

theorem fillIds_append (a b : List (Option Str)) (g1 g2 : List Str) (h : g1.length = missing a) :
    fillIds (a ++ b) (g1 ++ g2) = fillIds a g1 ++ fillIds b g2 := by
  induction a generalizing g1 with
  | nil =>
    have : g1 = [] := by simpa [missing] using h
    subst this; simp [fillIds]
  | cons x a ih =>
    cases x with
    | some i =>
      have h' : g1.length = missing a := by simpa [missing] using h
      simp [fillIds, ih g1 h']
    | none =>
      cases g1 with
      | nil => simp [missing] at h
      | cons g g1 =>
        have h' : g1.length = missing a := by simpa [missing] using h
        simp [fillIds, ih g1 h']

theorem missing_append (a b : List (Option Str)) : missing (a ++ b) = missing a + missing b := by
  simp [missing]

/-! ### no `STX` in a generated id -/

theorem unesc_of_no_stx (s : Str) (h : STX ∉ s) : unesc s = some s := by
  induction s with
  | nil => rfl
  | cons c r ih =>
    have hc : c ≠ TreeProc.STX := fun e => h (e ▸ List.mem_cons_self)
    simp [unesc, TreeProc.unescapeText, hc]
    exact ih (fun hh => h (List.mem_cons_of_mem _ hh))

theorem lowerChar_ascii_no_stx : ∀ n : Fin 128,
    (isWord (Char.ofNat n) || isSpace (Char.ofNat n) || Char.ofNat n = '-') = true →
      STX ∉ lowerChar (Char.ofNat n) := by decide

theorem dashRuns_mem (b : Bool) (s : Str) : ∀ c ∈ dashRuns b s, c = '-' ∨ c ∈ s := by
  induction s generalizing b with
  | nil => intro c h; simp [dashRuns] at h
  | cons x r ih =>
    intro c h
    simp only [dashRuns] at h
    split at h
    · split at h
      · rcases ih _ c h with h | h
        · exact Or.inl h
        · exact Or.inr (List.mem_cons_of_mem _ h)
      · rcases List.mem_cons.mp h with h | h
        · exact Or.inl h
        · rcases ih _ c h with h | h
          · exact Or.inl h
          · exact Or.inr (List.mem_cons_of_mem _ h)
    · rcases List.mem_cons.mp h with h | h
      · exact Or.inr (h ▸ List.mem_cons_self)
      · rcases ih _ c h with h | h
        · exact Or.inl h
        · exact Or.inr (List.mem_cons_of_mem _ h)

theorem slugify_no_stx {v slug : Str} (h : slugify v = some slug) : STX ∉ slug := by
  unfold slugify at h
  split at h
  · rename_i hall
    simp only [Option.some.injEq] at h
    subst h
    intro hm
    rcases dashRuns_mem _ _ _ hm with hd | hl
    · revert hd; decide
    · simp only [lower, List.mem_flatMap] at hl
      obtain ⟨c, hc, hcl⟩ := hl
      have hc' : c ∈ v.filter (fun c => isWord c || isSpace c || c = '-') :=
        (stripP_infix isSpace _).subset hc
      rw [List.mem_filter] at hc'
      have hlt : c.toNat < 128 := by
        have := List.all_eq_true.mp hall c hc'.1
        simpa using this
      have hcc : Char.ofNat ((⟨c.toNat, hlt⟩ : Fin 128) : Nat) = c := by simp
      have := lowerChar_ascii_no_stx ⟨c.toNat, hlt⟩ (by rw [hcc]; simpa using hc'.2)
      rw [hcc] at this
      exact this hcl
  · cases h

theorem idcountSplit_stem_subset {s stem d : Str} (h : idcountSplit s = some (stem, d)) : ∀ c ∈ stem, c ∈ s := by
  unfold idcountSplit idcountRev at h
  split at h
  · rename_i d0 ds a htw hdw
    split at h
    · cases h
    · simp only [Option.some.injEq, Prod.mk.injEq] at h
      intro c hc
      rw [← h.1] at hc
      have hc1 : c ∈ a := by simpa using hc
      have hc2 : c ∈ List.dropWhile isAsciiDigit (stripFinalNl s.reverse) := by
        rw [hdw]; exact List.mem_cons_of_mem _ hc1
      have hc3 : c ∈ stripFinalNl s.reverse := (List.dropWhile_sublist _).subset hc2
      have hc4 : c ∈ s.reverse := by
        unfold stripFinalNl at hc3
        split at hc3
        · rename_i t heq; rw [heq]; exact List.mem_cons_of_mem _ hc3
        · exact hc3
      simpa using hc4
  · cases h

theorem uniqueStep_no_stx {id : Str} (h : STX ∉ id) : STX ∉ uniqueStep id := by
  unfold uniqueStep
  split
  · rename_i stem digits heq
    intro hm
    rcases List.mem_append.mp hm with hm | hm
    · exact h (idcountSplit_stem_subset heq _ hm)
    · rcases List.mem_cons.mp hm with hm | hm
      · revert hm; decide
      · exact not_mem_natToDec (by decide) _ hm
  · intro hm
    rcases List.mem_append.mp hm with hm | hm
    · exact h hm
    · revert hm; decide

theorem uniqueLoop_no_stx (fuel : Nat) {id : Str} (ids : List Str) (h : STX ∉ id) : STX ∉ uniqueLoop fuel id ids := by
  induction fuel generalizing id with
  | zero => exact h
  | succ f ih =>
    simp only [uniqueLoop]
    split
    · exact ih (uniqueStep_no_stx h)
    · exact h

theorem unique_no_stx {id : Str} (ids : List Str) (h : STX ∉ id) : STX ∉ (unique id ids).1 :=
  uniqueLoop_no_stx _ ids h

/-! ### one heading -/

theorem find?_filter_of_imp {α} (p q : α → Bool) (hpq : ∀ x, p x = true → q x = true) (l : List α) :
    (l.filter q).find? p = l.find? p := by
  induction l with
  | nil => rfl
  | cons x r ih =>
    cases hq : q x with
    | true => simp only [List.filter, hq, List.find?, ih]
    | false =>
      have hp : p x = false := by
        cases hp : p x with
        | false => rfl
        | true => rw [hpq x hp] at hq; cases hq
      simp only [List.filter, hq, List.find?, hp, ih]

theorem idOf_attrDel (a : List (Str × Str)) : idOf (attrDel a labelKey) = idOf a := by
  unfold idOf attrDel
  rw [find?_filter_of_imp]
  intro x hx
  have : x.1 = idKey := by simpa using hx
  rw [this]; decide

theorem idOf_append_new (a : List (Str × Str)) (g : Str) (h : idOf a = none) : idOf (a ++ [(idKey, g)]) = some g := by
  simp only [idOf, Option.map_eq_none_iff] at h
  simp [idOf, List.find?_append, h]

theorem heading_spec {env : Env} {el : Node} {st : St} {attrs' : List (Str × Str)} {st' : St}
    (h : heading env el st = .ok (attrs', st')) :
    ∃ tok : Tok, ∃ i : Str, st'.toks = st.toks ++ [tok] ∧ tok.level = levelOf el.tag ∧
      idOf attrs' = some i ∧ unesc i = some tok.id ∧
      ((idOf el.attrs = some i ∧ st'.used = st.used) ∨
       (idOf el.attrs = none ∧ st'.used = i :: st.used ∧ i ∉ st.used ∧ i ≠ [] ∧ STX ∉ i)) := by
  unfold heading at h
  split at h
  · cases h
  · cases h
  · cases h
  · rename_i inner hin
    simp only [] at h
    split at h
    · cases h
    · cases h
    · cases h
    · rename_i attrs1 used1 hidr
      split at h
      · cases h
      · cases h
      · cases h
      · rename_i name attrs2 hnr
        split at h
        · cases h
        · rename_i tid htid
          have h21 : idOf attrs2 = idOf attrs1 := by
            split at hnr
            · simp only [R.ok.injEq, Prod.mk.injEq] at hnr
              rw [hnr.2]
            · split at hnr
              · cases hnr
              · split at hnr
                · cases hnr
                · simp only [R.ok.injEq, Prod.mk.injEq] at hnr
                  rw [← hnr.2, idOf_attrDel]
          have h1 : ∃ i, idOf attrs1 = some i ∧ ((idOf el.attrs = some i ∧ used1 = st.used) ∨
              (idOf el.attrs = none ∧ used1 = i :: st.used ∧ i ∉ st.used ∧ i ≠ [] ∧ STX ∉ i)) := by
            split at hidr
            · rename_i i0 hid
              simp only [R.ok.injEq, Prod.mk.injEq] at hidr
              rw [← hidr.1, ← hidr.2]
              exact ⟨i0, hid, Or.inl ⟨hid, rfl⟩⟩
            · rename_i hid
              split at hidr
              · cases hidr
              · split at hidr
                · cases hidr
                · rename_i slug hs
                  simp only [R.ok.injEq, Prod.mk.injEq] at hidr
                  rw [← hidr.1, ← hidr.2]
                  have hf := unique_fresh slug st.used
                  exact ⟨_, idOf_append_new _ _ hid, Or.inr ⟨hid, rfl, hf.1, hf.2,
                    unique_no_stx _ (slugify_no_stx hs)⟩⟩
          obtain ⟨i, hi, hcase⟩ := h1
          simp only [R.ok.injEq, Prod.mk.injEq] at h
          obtain ⟨ha, hs⟩ := h
          subst ha; subst hs
          have hi2 : idOf attrs2 = some i := h21.trans hi
          have hi2' : (Option.map (fun x => x.snd) (List.find? (fun kv => decide (kv.fst = idKey)) attrs2)) = some i := hi2
          rw [hi2'] at htid
          refine ⟨_, i, rfl, ?_, hi2, htid, hcase⟩
          simp only [levelOf]
          cases el.tag <;> rfl
/-! ### the walk -/

/-- what a stretch of the walk does: `ids`/`ids'` the `id` attributes before/after, `hd`/`hd'` the heading ids
    before/after, `lv`/`lv'` the heading levels before/after -/
structure WalkSpec (ids ids' : List Str) (hd hd' : List (Option Str)) (lv lv' : List Nat) (st st' : St) : Prop where
  ex : ∃ gen : List Str, ∃ toks : List Tok,
    st'.used = gen.reverse ++ st.used ∧ st'.toks = st.toks ++ toks ∧
    gen.Nodup ∧ (∀ g ∈ gen, g ∉ st.used ∧ g ≠ [] ∧ STX ∉ g) ∧
    gen.length = missing hd ∧ hd' = (fillIds hd gen).map some ∧
    ids'.Perm (ids ++ gen) ∧
    toks.map (fun t => some t.id) = hd'.map (·.bind unesc) ∧
    toks.map (·.level) = lv ∧ lv' = lv

theorem WalkSpec.refl (ids : List Str) (st : St) : WalkSpec ids ids [] [] [] [] st st :=
  ⟨[], [], by simp, by simp, List.nodup_nil, by simp, rfl, rfl, by simp, rfl, rfl, rfl⟩

theorem WalkSpec.append {ids1 ids1' ids2 ids2' : List Str} {hd1 hd1' hd2 hd2' : List (Option Str)}
    {lv1 lv1' lv2 lv2' : List Nat} {st st1 st2 : St}
    (h1 : WalkSpec ids1 ids1' hd1 hd1' lv1 lv1' st st1) (h2 : WalkSpec ids2 ids2' hd2 hd2' lv2 lv2' st1 st2) :
    WalkSpec (ids1 ++ ids2) (ids1' ++ ids2') (hd1 ++ hd2) (hd1' ++ hd2') (lv1 ++ lv2) (lv1' ++ lv2') st st2 := by
  obtain ⟨g1, t1, hu1, ht1, hn1, hf1, hl1, hh1, hp1, hk1, hv1, hw1⟩ := h1
  obtain ⟨g2, t2, hu2, ht2, hn2, hf2, hl2, hh2, hp2, hk2, hv2, hw2⟩ := h2
  refine ⟨g1 ++ g2, t1 ++ t2, ?_, ?_, ?_, ?_, ?_, ?_, ?_, ?_, ?_, ?_⟩
  · rw [hu2, hu1]; simp
  · rw [ht2, ht1]; simp
  · rw [List.nodup_append]
    refine ⟨hn1, hn2, ?_⟩
    intro a ha b hb hab
    subst hab
    have := (hf2 a hb).1
    rw [hu1] at this
    exact this (List.mem_append_left _ (List.mem_reverse.mpr ha))
  · intro g hg
    rcases List.mem_append.mp hg with hg | hg
    · exact hf1 g hg
    · have := hf2 g hg
      rw [hu1] at this
      exact ⟨fun hm => this.1 (List.mem_append_right _ hm), this.2⟩
  · rw [List.length_append, missing_append, hl1, hl2]
  · rw [fillIds_append _ _ _ _ hl1, List.map_append, hh1, hh2]
  · have : (ids1 ++ ids2 ++ (g1 ++ g2)).Perm ((ids1 ++ g1) ++ (ids2 ++ g2)) := by
      simp only [List.append_assoc]
      refine List.Perm.append_left _ ?_
      rw [← List.append_assoc, ← List.append_assoc]
      exact List.Perm.append_right _ List.perm_append_comm
    exact (List.Perm.append hp1 hp2).trans this.symm
  · rw [List.map_append, List.map_append, hk1, hk2]
  · rw [List.map_append, hv1, hv2]
  · rw [hw1, hw2]

theorem idsOf_eq (tag : Tag) (attrs : List (Str × Str)) (text : Option Str) (ta : Bool) (children : List Node)
    (tail : Option Str) (tla : Bool) :
    idsOf ⟨tag, attrs, text, ta, children, tail, tla⟩ = (idOf attrs).toList ++ idsOfKids children := by
  simp only [idsOf, idOf]
  cases List.find? (fun kv => decide (kv.fst = idKey)) attrs <;> rfl

mutual
theorem walkNode_spec (env : Env) : (n : Node) → ∀ (st : St) (n' : Node) (st' : St),
    walkNode env n st = .ok (n', st') →
      WalkSpec (idsOf n) (idsOf n') (hdIds n) (hdIds n') (hdLevels n) (hdLevels n') st st'
  | ⟨tag, attrs, text, ta, children, tail, tla⟩, st, n', st', h => by
    simp only [walkNode] at h
    split at h
    · cases h
    · cases h
    · cases h
    · rename_i attrs1 st1 hhr
      split at h
      · cases h
      · cases h
      · cases h
      · rename_i ks st2 hk
        simp only [R.ok.injEq, Prod.mk.injEq] at h
        obtain ⟨hn, hs⟩ := h
        subst hn; subst hs
        have hkids := walkKids_spec env children st1 ks st2 hk
        rw [idsOf_eq, idsOf_eq]
        simp only [hdIds, hdLevels]
        refine WalkSpec.append ?_ hkids
        by_cases htag : isHeaderTag tag = true
        · simp only [htag, if_true] at hhr ⊢
          obtain ⟨tok, i, htoks, hlev, hi', hun, hcase⟩ := heading_spec hhr
          rcases hcase with ⟨hi, hused⟩ | ⟨hi, hused, hfresh, hne, hstx⟩
          · simp only [] at hi
            rw [hi, hi']
            exact ⟨[], [tok], by simp [hused], htoks, List.nodup_nil, by simp, by simp [missing], by simp [fillIds],
              by simp, by simp [hun], by simp [hlev], rfl⟩
          · simp only [] at hi
            rw [hi, hi']
            exact ⟨[i], [tok], by simp [hused], htoks, by simp, by simpa using ⟨hfresh, hne, hstx⟩, by simp [missing],
              by simp [fillIds], by simp, by simp [hun], by simp [hlev], rfl⟩
        · simp only [htag, if_false, Bool.false_eq_true] at hhr ⊢
          simp only [R.ok.injEq, Prod.mk.injEq] at hhr
          rw [← hhr.1, ← hhr.2]
          exact WalkSpec.refl _ _
theorem walkKids_spec (env : Env) : (l : List Node) → ∀ (st : St) (l' : List Node) (st' : St),
    walkKids env l st = .ok (l', st') →
      WalkSpec (idsOfKids l) (idsOfKids l') (hdIdsKids l) (hdIdsKids l') (hdLevelsKids l) (hdLevelsKids l') st st'
  | [], st, l', st', h => by
    simp only [walkKids, R.ok.injEq, Prod.mk.injEq] at h
    rw [← h.1, ← h.2]
    exact WalkSpec.refl _ _
  | c :: r, st, l', st', h => by
    simp only [walkKids] at h
    split at h
    · cases h
    · cases h
    · cases h
    · rename_i c' st1 hc
      split at h
      · cases h
      · cases h
      · cases h
      · rename_i r' st2 hr
        simp only [R.ok.injEq, Prod.mk.injEq] at h
        rw [← h.1, ← h.2]
        simp only [idsOfKids, hdIdsKids, hdLevelsKids]
        exact WalkSpec.append (walkNode_spec env c st c' st1 hc) (walkKids_spec env r st1 r' st2 hr)
end

/-! ### tags and attributes in document order; `prettify` keeps them -/

mutual
/-- `(tag, attributes)` of every element, in document order -/
def shape : Node → List (Tag × List (Str × Str))
  | ⟨tag, attrs, _, _, children, _, _⟩ => (tag, attrs) :: shapeKids children
def shapeKids : List Node → List (Tag × List (Str × Str))
  | [] => []
  | c :: r => shape c ++ shapeKids r
end

theorem shape_eq (n : Node) : shape n = (n.tag, n.attrs) :: shapeKids n.children := by
  cases n; rfl

/-- the `href` attribute among the attributes of one element -/
def hrefOf (attrs : List (Str × Str)) : Option Str := (attrs.find? (fun kv => kv.1 = "href".toList)).map (·.2)

/-- every `href` attribute of the tree, in document order -/
def hrefs (n : Node) : List Str := (shape n).filterMap (fun p => hrefOf p.2)

def idsS (l : List (Tag × List (Str × Str))) : List Str := l.flatMap (fun p => (idOf p.2).toList)
def hdIdsS (l : List (Tag × List (Str × Str))) : List (Option Str) :=
  l.flatMap (fun p => if isHeaderTag p.1 then [idOf p.2] else [])

mutual
theorem idsOf_shape : (n : Node) → idsOf n = idsS (shape n)
  | ⟨tag, attrs, text, ta, children, tail, tla⟩ => by
    rw [idsOf_eq, shape, idsOfKids_shape children]
    simp [idsS]
theorem idsOfKids_shape : (l : List Node) → idsOfKids l = idsS (shapeKids l)
  | [] => rfl
  | c :: r => by
    simp only [idsOfKids, shapeKids, idsOf_shape c, idsOfKids_shape r, idsS, List.flatMap_append]
end

mutual
theorem hdIds_shape : (n : Node) → hdIds n = hdIdsS (shape n)
  | ⟨tag, attrs, text, ta, children, tail, tla⟩ => by
    rw [hdIds, shape, hdIdsKids_shape children]
    simp [hdIdsS]
theorem hdIdsKids_shape : (l : List Node) → hdIdsKids l = hdIdsS (shapeKids l)
  | [] => rfl
  | c :: r => by
    simp only [hdIdsKids, shapeKids, hdIds_shape c, hdIdsKids_shape r, hdIdsS, List.flatMap_append]
end

mutual
theorem shape_prettifyETree (bl : List Str) : (n : Node) → shape (TreeProc.prettifyETree bl n) = shape n
  | ⟨tag, attrs, text, ta, children, tail, tla⟩ => by
    simp only [TreeProc.prettifyETree, shape]
    split
    · rw [shapeKids_prettifyKids bl children]
    · rfl
theorem shapeKids_prettifyKids (bl : List Str) : (l : List Node) → shapeKids (TreeProc.prettifyKids bl l) = shapeKids l
  | [] => rfl
  | c :: r => by
    simp only [TreeProc.prettifyKids, shapeKids, shapeKids_prettifyKids bl r]
    split
    · rw [shape_prettifyETree bl c]
    · rfl
end

mutual
theorem shape_mapTree (f : Node → Node)
    (hf : ∀ m, (f m).tag = m.tag ∧ (f m).attrs = m.attrs ∧ shapeKids (f m).children = shapeKids m.children) :
    (n : Node) → shape (TreeProc.mapTree f n) = shape n
  | ⟨tag, attrs, text, ta, children, tail, tla⟩ => by
    simp only [TreeProc.mapTree]
    rw [shape_eq, (hf _).1, (hf _).2.1, (hf _).2.2]
    simp only [shape, shapeKids_mapKids f hf children]
theorem shapeKids_mapKids (f : Node → Node)
    (hf : ∀ m, (f m).tag = m.tag ∧ (f m).attrs = m.attrs ∧ shapeKids (f m).children = shapeKids m.children) :
    (l : List Node) → shapeKids (TreeProc.mapKids f l) = shapeKids l
  | [] => rfl
  | c :: r => by
    simp only [TreeProc.mapKids, shapeKids, shape_mapTree f hf c, shapeKids_mapKids f hf r]
end

theorem brRule_shape (m : Node) : (TreeProc.brRule m).tag = m.tag ∧ (TreeProc.brRule m).attrs = m.attrs ∧
    shapeKids (TreeProc.brRule m).children = shapeKids m.children := by
  unfold TreeProc.brRule
  split
  · split <;> exact ⟨rfl, rfl, rfl⟩
  · exact ⟨rfl, rfl, rfl⟩

theorem preRule_shape (m : Node) : (TreeProc.preRule m).tag = m.tag ∧ (TreeProc.preRule m).attrs = m.attrs ∧
    shapeKids (TreeProc.preRule m).children = shapeKids m.children := by
  unfold TreeProc.preRule
  split
  · split
    · rename_i code rest hch
      split
      · split
        · refine ⟨rfl, rfl, ?_⟩
          rw [hch]
          simp only [shapeKids]
          rw [shape_eq, shape_eq code]
        · exact ⟨rfl, rfl, rfl⟩
      · exact ⟨rfl, rfl, rfl⟩
    · exact ⟨rfl, rfl, rfl⟩
  · exact ⟨rfl, rfl, rfl⟩

theorem shape_prettify (n : Node) (bl : List Str) : shape (TreeProc.prettify n bl) = shape n := by
  unfold TreeProc.prettify
  rw [shape_mapTree _ preRule_shape, shape_mapTree _ brRule_shape, shape_prettifyETree]

/-! ### the toc `div` -/

mutual
theorem shape_buildLi : (t : TokTree) →
    (shape (buildLi t)).filterMap (fun p => hrefOf p.2) = t.links ∧
    ∀ p ∈ shape (buildLi t), isHeaderTag p.1 = false ∧ idOf p.2 = none
  | .mk t cs => by
    have ih := shapeKids_buildLis cs
    cases cs with
    | nil =>
      simp only [buildLi, el, shape, shapeKids, TokTree.links, tocLinks]
      refine ⟨rfl, ?_⟩
      intro p hp
      simp only [List.append_nil, List.mem_cons, List.not_mem_nil, or_false] at hp
      rcases hp with hp | hp <;> subst hp <;> exact ⟨rfl, rfl⟩
    | cons c r =>
      simp only [buildLi, el, shape, shapeKids, TokTree.links, List.append_nil]
      refine ⟨?_, ?_⟩
      · simp only [List.filterMap_cons, List.filterMap_append, List.filterMap_nil]
        rw [← ih.1]
        simp [hrefOf]
      · intro p hp
        simp only [List.mem_cons, List.mem_append, List.not_mem_nil, or_false] at hp
        rcases hp with hp | hp | hp | hp
        · subst hp; exact ⟨rfl, rfl⟩
        · subst hp; exact ⟨rfl, rfl⟩
        · subst hp; exact ⟨rfl, rfl⟩
        · exact ih.2 p hp
theorem shapeKids_buildLis : (l : List TokTree) →
    (shapeKids (buildLis l)).filterMap (fun p => hrefOf p.2) = tocLinks l ∧
    ∀ p ∈ shapeKids (buildLis l), isHeaderTag p.1 = false ∧ idOf p.2 = none
  | [] => ⟨rfl, by simp [buildLis, shapeKids]⟩
  | c :: r => by
    have h1 := shape_buildLi c
    have h2 := shapeKids_buildLis r
    simp only [buildLis, shapeKids, tocLinks, List.filterMap_append, h1.1, h2.1, true_and]
    intro p hp
    rcases List.mem_append.mp hp with hp | hp
    · exact h1.2 p hp
    · exact h2.2 p hp
end

theorem shape_buildDiv (bl : List Str) (toks : List Tok) :
    hrefs (buildDiv bl toks) = toks.map (fun t => '#' :: t.id) ∧
    ∀ p ∈ shape (buildDiv bl toks), isHeaderTag p.1 = false ∧ idOf p.2 = none := by
  have h := shapeKids_buildLis (nestToc toks)
  unfold hrefs buildDiv
  rw [shape_prettify]
  simp only [buildUl, el, shape, shapeKids, List.append_nil]
  refine ⟨?_, ?_⟩
  · simp only [List.filterMap_cons]
    rw [h.1, tocLinks_eq_flatten, nestToc_flatten]
    simp [hrefOf]
  · intro p hp
    simp only [List.mem_cons] at hp
    rcases hp with hp | hp | hp
    · subst hp; exact ⟨rfl, rfl⟩
    · subst hp; exact ⟨rfl, rfl⟩
    · exact h.2 p hp

/-! ### `replace_marker` -/

def hdLevelsS (l : List (Tag × List (Str × Str))) : List Nat :=
  l.flatMap (fun p => if isHeaderTag p.1 then [levelOf p.1] else [])

mutual
theorem hdLevels_shape : (n : Node) → hdLevels n = hdLevelsS (shape n)
  | ⟨tag, attrs, text, ta, children, tail, tla⟩ => by
    rw [hdLevels, shape, hdLevelsKids_shape children]
    simp [hdLevelsS]
theorem hdLevelsKids_shape : (l : List Node) → hdLevelsKids l = hdLevelsS (shapeKids l)
  | [] => rfl
  | c :: r => by
    simp only [hdLevelsKids, shapeKids, hdLevels_shape c, hdLevelsKids_shape r, hdLevelsS, List.flatMap_append]
end

/-- a tree without headings and ids (the toc `div`) -/
def Plain (d : Node) : Prop := ∀ p ∈ shape d, isHeaderTag p.1 = false ∧ idOf p.2 = none

theorem Plain.ids {d : Node} (h : Plain d) : idsOf d = [] := by
  rw [idsOf_shape, idsS, List.flatMap_eq_nil_iff]
  intro p hp; rw [(h p hp).2]; rfl

theorem Plain.hd {d : Node} (h : Plain d) : hdIds d = [] := by
  rw [hdIds_shape, hdIdsS, List.flatMap_eq_nil_iff]
  intro p hp; rw [(h p hp).1]; rfl

theorem Plain.lv {d : Node} (h : Plain d) : hdLevels d = [] := by
  rw [hdLevels_shape, hdLevelsS, List.flatMap_eq_nil_iff]
  intro p hp; rw [(h p hp).1]; rfl

theorem leaf_hd (c : Node) (h1 : isHeaderTag c.tag = false) (h2 : c.children = []) :
    hdIds c = [] ∧ hdLevels c = [] := by
  obtain ⟨tag, attrs, text, ta, children, tail, tla⟩ := c
  simp only [] at h1 h2
  subst h2
  simp [hdIds, hdLevels, h1, hdIdsKids, hdLevelsKids]

mutual
theorem replNode_spec (d : Node) (hd : Plain d) : (n : Node) →
    (idsOf (replNode d n)).Sublist (idsOf n) ∧ hdIds (replNode d n) = hdIds n ∧ hdLevels (replNode d n) = hdLevels n
  | ⟨tag, attrs, text, ta, children, tail, tla⟩ => by
    have ih := replKids_spec d hd children
    simp only [replNode, idsOf_eq, hdIds, hdLevels, ih.2.1, ih.2.2, and_self, and_true]
    exact List.Sublist.append (List.Sublist.refl _) ih.1
theorem replKids_spec (d : Node) (hd : Plain d) : (l : List Node) →
    (idsOfKids (replKids d l)).Sublist (idsOfKids l) ∧ hdIdsKids (replKids d l) = hdIdsKids l ∧
      hdLevelsKids (replKids d l) = hdLevelsKids l
  | [] => ⟨List.Sublist.refl _, rfl, rfl⟩
  | c :: r => by
    have ih := replKids_spec d hd r
    simp only [replKids]
    split
    · simp only [idsOfKids, hdIdsKids, hdLevelsKids, ih.2.1, ih.2.2, and_self, and_true]
      exact List.Sublist.append (List.Sublist.refl _) ih.1
    · rename_i hA
      split
      · rename_i hB
        have hh : isHeaderTag c.tag = false := by
          cases h : isHeaderTag c.tag with
          | false => rfl
          | true => simp [h] at hA
        have hc : c.children = [] := by
          have : c.children.isEmpty = true := by
            simp only [Bool.and_eq_true] at hB; exact hB.2
          simpa using this
        have hl := leaf_hd c hh hc
        simp only [idsOfKids, hdIdsKids, hdLevelsKids, ih.2.1, ih.2.2, hd.ids, hd.hd, hd.lv, hl.1, hl.2, and_self,
          and_true, List.nil_append]
        exact ih.1.trans (List.sublist_append_right _ _)
      · have ihc := replNode_spec d hd c
        simp only [idsOfKids, hdIdsKids, hdLevelsKids, ih.2.1, ih.2.2, ihc.2.1, ihc.2.2, and_self, and_true]
        exact List.Sublist.append ihc.1 ih.1
end

/-! ### `run` -/

theorem buildDiv_plain (bl : List Str) (toks : List Tok) : Plain (buildDiv bl toks) := (shape_buildDiv bl toks).2

/-- everything the C17 statements need about `TocTree.run` on an arbitrary tree -/
theorem run_spec {env : Env} {bl : List Str} {t t' : Node} (h : run env bl t = .ok t') :
    ∃ (used gen : List Str) (toks : List Tok) (w : Node),
      usedIds (idsOf t) = some used ∧ t' = replNode (buildDiv bl toks) w ∧
      gen.Nodup ∧ (∀ g ∈ gen, g ∉ used ∧ g ≠ [] ∧ STX ∉ g) ∧ gen.length = missing (hdIds t) ∧
      hdIds t' = (fillIds (hdIds t) gen).map some ∧
      (∃ l, (idsOf t').Sublist l ∧ l.Perm (idsOf t ++ gen)) ∧
      toks.map (fun k => some k.id) = (hdIds t').map (·.bind unesc) ∧
      toks.map (·.level) = hdLevels t' ∧ hdLevels t' = hdLevels t ∧
      hrefs (buildDiv bl toks) = toks.map (fun k => '#' :: k.id) := by
  unfold run at h
  split at h
  · cases h
  · rename_i used hused
    split at h
    · cases h
    · cases h
    · cases h
    · rename_i w st hw
      simp only [R.ok.injEq] at h
      obtain ⟨gen, toks, hu, ht, hn, hf, hl, hh, hp, hk, hv, hlv⟩ := walkNode_spec env t _ w st hw
      simp only [List.nil_append] at ht
      have hr := replNode_spec (buildDiv bl st.toks) (buildDiv_plain bl st.toks) w
      refine ⟨used, gen, st.toks, w, hused, h.symm, hn, hf, hl, ?_, ⟨idsOf w, ?_, hp⟩, ?_, ?_, ?_,
        (shape_buildDiv bl st.toks).1⟩
      · rw [← h, hr.2.1, hh]
      · rw [← h]; exact hr.1
      · rw [← h, hr.2.1, ht, hk]
      · rw [← h, hr.2.2, ht, hv, hlv]
      · rw [← h, hr.2.2, hlv]

/-! ### the final `unescape` tree processor -/

/-- `unescape` as a total function (the identity where `chr` would raise; never used there) -/
def ue (s : Str) : Str := (unesc s).getD s

theorem ue_of_no_stx {s : Str} (h : STX ∉ s) : ue s = s := by simp [ue, unesc_of_no_stx s h]

theorem usedIds_eq_map {l l' : List Str} (h : usedIds l = some l') : l' = l.map ue := by
  induction l generalizing l' with
  | nil => simp only [usedIds, Option.some.injEq] at h; subst h; rfl
  | cons a r ih =>
    simp only [usedIds] at h
    split at h
    · rename_i u r' hu hr
      simp only [Option.some.injEq] at h
      subst h
      simp [ue, unesc, hu, ih hr]
    · cases h

theorem usedIds_map {l : List Str} (h : ∀ s ∈ l, (unesc s).isSome = true) : usedIds l = some (l.map ue) := by
  induction l with
  | nil => rfl
  | cons a r ih =>
    have ha := h a List.mem_cons_self
    obtain ⟨u, hu⟩ := Option.isSome_iff_exists.mp ha
    have hu' : TreeProc.unescapeText 0 a = some u := hu
    simp only [usedIds, hu', ih (fun s hs => h s (List.mem_cons_of_mem _ hs))]
    simp [ue, unesc, hu']

theorem idOf_unescAttrs {a a' : List (Str × Str)} (h : TreeProc.unescAttrs a = some a') :
    idOf a' = (idOf a).map ue ∧ ∀ i, idOf a = some i → (unesc i).isSome = true := by
  induction a generalizing a' with
  | nil => simp only [TreeProc.unescAttrs, Option.some.injEq] at h; subst h; exact ⟨rfl, by simp [idOf]⟩
  | cons kv r ih =>
    obtain ⟨k, v⟩ := kv
    simp only [TreeProc.unescAttrs] at h
    split at h
    · rename_i v' r' hv hr
      simp only [Option.some.injEq] at h
      subst h
      have ih' := ih hr
      by_cases hk : k = idKey
      · subst hk
        simp [idOf, ue, unesc, hv]
      · simp only [idOf] at ih' ⊢
        simp only [List.find?, hk, decide_false]
        exact ih'
    · cases h

mutual
theorem unescapeTree_spec : (n : Node) → ∀ u, TreeProc.unescapeTree n = some u →
    idsOf u = (idsOf n).map ue ∧ hdIds u = (hdIds n).map (·.map ue) ∧ hdLevels u = hdLevels n ∧
      ∀ i ∈ idsOf n, (unesc i).isSome = true
  | ⟨tag, attrs, text, ta, children, tail, tla⟩, u, h => by
    simp only [TreeProc.unescapeTree] at h
    split at h
    · rename_i t tl a ks ht htl ha hks
      simp only [Option.some.injEq] at h
      subst h
      have ih := unescapeKids_spec children ks hks
      have hid := idOf_unescAttrs ha
      simp only [idsOf_eq, hdIds, hdLevels, ih.1, ih.2.1, ih.2.2.1, hid.1, List.map_append]
      refine ⟨?_, ?_, trivial, ?_⟩
      · cases idOf attrs <;> rfl
      · split <;> rfl
      · intro i hi
        rcases List.mem_append.mp hi with hi | hi
        · exact hid.2 i (by simpa using hi)
        · exact ih.2.2.2 i hi
    · cases h
theorem unescapeKids_spec : (l : List Node) → ∀ l', TreeProc.unescapeKids l = some l' →
    idsOfKids l' = (idsOfKids l).map ue ∧ hdIdsKids l' = (hdIdsKids l).map (·.map ue) ∧
      hdLevelsKids l' = hdLevelsKids l ∧ ∀ i ∈ idsOfKids l, (unesc i).isSome = true
  | [], l', h => by
    simp only [TreeProc.unescapeKids, Option.some.injEq] at h
    subst h
    exact ⟨rfl, rfl, rfl, by simp [idsOfKids]⟩
  | c :: r, l', h => by
    simp only [TreeProc.unescapeKids] at h
    split at h
    · rename_i c' r' hc hr
      simp only [Option.some.injEq] at h
      subst h
      have h1 := unescapeTree_spec c c' hc
      have h2 := unescapeKids_spec r r' hr
      simp only [idsOfKids, hdIdsKids, hdLevelsKids, h1.1, h1.2.1, h1.2.2.1, h2.1, h2.2.1, h2.2.2.1, List.map_append,
        true_and]
      intro i hi
      rcases List.mem_append.mp hi with hi | hi
      · exact h1.2.2.2 i hi
      · exact h2.2.2.2 i hi
    · cases h
end

theorem fillIds_map (f : Str → Str) (hd : List (Option Str)) (gen : List Str) :
    (fillIds hd gen).map f = fillIds (hd.map (·.map f)) (gen.map f) := by
  induction hd generalizing gen with
  | nil => rfl
  | cons a r ih =>
    cases a with
    | some i => simp [fillIds, ih]
    | none =>
      cases gen with
      | nil => simp [fillIds, ih]
      | cons g gen => simp [fillIds, ih]

theorem missing_map (f : Str → Str) (hd : List (Option Str)) : missing (hd.map (·.map f)) = missing hd := by
  induction hd with
  | nil => rfl
  | cons a r ih =>
    cases a <;> simp_all [missing]

/-! ### the stages of `treeX` before toc -/
open PipelineX Pipeline in
/-- `PipelineX.treeX` up to and including abbr (7): the tree handed to the toc tree processor, and the HTML stash -/
def preTocX (x : Exts) (cfg : Cfg) (src : Str) : TreeResult :=
  match prepareX x cfg src with
  | .oof => .oof
  | .ood => .ood
  | .ok (text, stash) =>
    match BlockExt.parseDocumentXT x.tables x.blockCfg cfg.tab text with
    | none => .oof
    | some (root, log) =>
      let fnStage : FootnotesTree.R (Node × Block.Refs) :=
        if x.footnotes then
          match FootnotesTree.makeDiv (parseChunkX x cfg) fnCount (BlockExt.footnotesOf log) log with
          | .ok (some div, log') => .ok (FootnotesTree.placeDiv root div, log')
          | .ok (none, log') => .ok (root, log')
          | .oof => .oof
          | .ood => .ood
        else .ok (root, log)
      match fnStage with
      | .oof => .oof
      | .ood => .ood
      | .ok (root, log) =>
        let xc : InlineX.XCfg :=
          { cfg := { esc := escX x cfg, refs := (refsX x log).reverse }
            table := InlineX.table x.footnotes x.wikilinks x.nl2br
            fnKeys := (BlockExt.footnotesOf log).map (·.1) }
        match InlineX.runX xc root stash with
        | none => .oof
        | some (t, xs) =>
          match (if x.footnotes then FootnotesTree.duplicates xs.fn t else some t) with
          | none => .err
          | some t =>
            let t := TreeProc.prettify t cfg.blockLevel
            let t := if x.attrList then AttrListTree.run cfg.blockLevel t else t
            let t := if x.abbr then AbbrTree.run (BlockExt.abbrsOf log) t else t
            .ok t xs.st.html

open PipelineX Pipeline in
/-- `treeX` = the stages before toc, then toc (if enabled), then unescape -/
theorem treeX_eq (x : Exts) (cfg : Cfg) (src : Str) :
    treeX x cfg src =
      match preTocX x cfg src with
      | .oof => .oof
      | .err => .err
      | .ood => .ood
      | .ok t html =>
        match (if x.toc then TocTree.run { fmt := cfg.fmt, post := postX x cfg html } cfg.blockLevel t else .ok t) with
        | .oof => .oof
        | .err => .err
        | .ood => .ood
        | .ok t =>
          match TreeProc.unescapeTree t with
          | none => .err
          | some u => .ok u html := by
  unfold treeX preTocX
  cases prepareX x cfg src with
  | oof => rfl
  | ood => rfl
  | ok p =>
    obtain ⟨text, stash⟩ := p
    simp only []
    cases BlockExt.parseDocumentXT x.tables x.blockCfg cfg.tab text with
    | none => rfl
    | some q =>
      obtain ⟨root, log⟩ := q
      simp only []
      generalize (if x.footnotes = true then
          match FootnotesTree.makeDiv (parseChunkX x cfg) fnCount (BlockExt.footnotesOf log) log with
          | FootnotesTree.R.ok (some div, log') => FootnotesTree.R.ok (FootnotesTree.placeDiv root div, log')
          | FootnotesTree.R.ok (none, log') => FootnotesTree.R.ok (root, log')
          | FootnotesTree.R.oof => FootnotesTree.R.oof
          | FootnotesTree.R.ood => FootnotesTree.R.ood
        else FootnotesTree.R.ok (root, log)) = fs
      cases fs with
      | oof => rfl
      | ood => rfl
      | ok r =>
        obtain ⟨root1, log1⟩ := r
        simp only []
        cases InlineX.runX _ root1 stash with
        | none => rfl
        | some w =>
          obtain ⟨t, xs⟩ := w
          simp only []
          cases (if x.footnotes = true then FootnotesTree.duplicates xs.fn t else some t) with
          | none => rfl
          | some t1 => rfl

/-! ### ids of the headings among all ids -/

/-- the ids of the headings that have one, in document order -/
def headingIds (n : Node) : List Str := (hdIds n).filterMap id

theorem headingIdsS_sublist (l : List (Tag × List (Str × Str))) : ((hdIdsS l).filterMap id).Sublist (idsS l) := by
  induction l with
  | nil => exact List.Sublist.refl _
  | cons p r ih =>
    simp only [hdIdsS, idsS, List.flatMap_cons, List.filterMap_append] at ih ⊢
    refine List.Sublist.append ?_ ih
    split
    · cases idOf p.2 <;> simp
    · simp

theorem headingIds_sublist (n : Node) : (headingIds n).Sublist (idsOf n) := by
  rw [headingIds, hdIds_shape, idsOf_shape]; exact headingIdsS_sublist _

theorem headingIds_of_all_some {n : Node} {l : List Str} (h : hdIds n = l.map some) : headingIds n = l := by
  rw [headingIds, h]; simp [List.filterMap_map]

/-! ### distinctness -/

theorem nodup_used_gen {used gen : List Str} (hu : used.Nodup) (hg : gen.Nodup) (hf : ∀ g ∈ gen, g ∉ used) :
    (used ++ gen).Nodup := by
  rw [List.nodup_append]
  exact ⟨hu, hg, fun a ha b hb hab => hf b hb (hab ▸ ha)⟩

theorem preTocX_toc (x : PipelineX.Exts) (cfg : Pipeline.Cfg) (src : Str) :
    preTocX { x with toc := false } cfg src = preTocX x cfg src := rfl

open PipelineX Pipeline in
/-- the toc stage inside `treeX` -/
theorem treeX_toc_inv {x : Exts} {cfg : Cfg} {src : Str} {u u0 : Node} {html html0 : List Str} (hx : x.toc = true)
    (h : treeX x cfg src = .ok u html) (h0 : treeX { x with toc := false } cfg src = .ok u0 html0) :
    ∃ t t', TocTree.run { fmt := cfg.fmt, post := postX x cfg html } cfg.blockLevel t = .ok t' ∧
      TreeProc.unescapeTree t' = some u ∧ TreeProc.unescapeTree t = some u0 ∧ html0 = html := by
  rw [treeX_eq] at h h0
  rw [preTocX_toc] at h0
  cases hp : preTocX x cfg src with
  | oof => rw [hp] at h; cases h
  | err => rw [hp] at h; cases h
  | ood => rw [hp] at h; cases h
  | ok t ht =>
    rw [hp] at h h0
    simp only [hx, if_true] at h
    simp only [Bool.false_eq_true, if_false] at h0
    split at h
    · cases h
    · cases h
    · cases h
    · rename_i t' hrun
      split at h
      · cases h
      · rename_i u' hu
        split at h0
        · cases h0
        · rename_i u0' hu0
          simp only [TreeResult.ok.injEq] at h h0
          obtain ⟨h1, h2⟩ := h
          obtain ⟨h3, h4⟩ := h0
          subst h1; subst h2; subst h3; subst h4
          exact ⟨t, t', hrun, hu, hu0, rfl⟩

/-- the run of toc followed by the final unescape, against the tree unescaped without toc -/
theorem run_unescape_spec {env : Env} {bl : List Str} {t t' u u0 : Node} (hrun : run env bl t = .ok t')
    (hu : TreeProc.unescapeTree t' = some u) (hu0 : TreeProc.unescapeTree t = some u0) :
    ∃ gen : List Str, gen.Nodup ∧ (∀ g ∈ gen, g ∉ idsOf u0 ∧ g ≠ [] ∧ STX ∉ g) ∧ gen.length = missing (hdIds u0) ∧
      hdIds u = (fillIds (hdIds u0) gen).map some ∧
      (∃ l, (idsOf u).Sublist l ∧ l.Perm (idsOf u0 ++ gen)) ∧ hdLevels u = hdLevels u0 := by
  obtain ⟨used, gen, toks, w, hused, -, hn, hf, hl, hh, ⟨l, hsub, hperm⟩, -, -, hlv, -⟩ := run_spec hrun
  have s1 := unescapeTree_spec t' u hu
  have s0 := unescapeTree_spec t u0 hu0
  have hused' : used = idsOf u0 := by rw [usedIds_eq_map hused, s0.1]
  have hgen : gen.map ue = gen := by
    have : ∀ g ∈ gen, ue g = id g := fun g hg => ue_of_no_stx (hf g hg).2.2
    rw [List.map_congr_left this, List.map_id]
  refine ⟨gen, hn, ?_, ?_, ?_, ⟨l.map ue, ?_, ?_⟩, ?_⟩
  · intro g hg; rw [← hused']; exact hf g hg
  · rw [s0.2.1, missing_map]; exact hl
  · rw [s1.2.1, hh, List.map_map, s0.2.1]
    have := fillIds_map ue (hdIds t) gen
    rw [hgen] at this
    rw [← this, List.map_map]
    rfl
  · rw [s1.1]; exact hsub.map ue
  · rw [s0.1]
    have := hperm.map ue
    rw [List.map_append, hgen] at this
    exact this
  · rw [s1.2.2.1, s0.2.2.1, hlv]

/-! ### positions of `fillIds` -/

theorem fillIds_explicit (hd : List (Option Str)) (gen : List Str) (h : gen.length = missing hd) (k : Nat) (i : Str)
    (hk : hd[k]? = some (some i)) : (fillIds hd gen)[k]? = some i := by
  induction hd generalizing gen k with
  | nil => simp at hk
  | cons a r ih =>
    cases a with
    | some j =>
      have h' : gen.length = missing r := by simpa [missing] using h
      cases k with
      | zero => simpa [fillIds] using hk
      | succ k => simpa [fillIds] using ih gen h' k (by simpa using hk)
    | none =>
      cases gen with
      | nil => simp [missing] at h
      | cons g gen =>
        have h' : gen.length = missing r := by simpa [missing] using h
        cases k with
        | zero => simp at hk
        | succ k => simpa [fillIds] using ih gen h' k (by simpa using hk)

theorem fillIds_generated (hd : List (Option Str)) (gen : List Str) (h : gen.length = missing hd) (k : Nat)
    (hk : hd[k]? = some none) : ∃ g ∈ gen, (fillIds hd gen)[k]? = some g := by
  induction hd generalizing gen k with
  | nil => simp at hk
  | cons a r ih =>
    cases a with
    | some j =>
      have h' : gen.length = missing r := by simpa [missing] using h
      cases k with
      | zero => simp at hk
      | succ k => simpa [fillIds] using ih gen h' k (by simpa using hk)
    | none =>
      cases gen with
      | nil => simp [missing] at h
      | cons g gen =>
        have h' : gen.length = missing r := by simpa [missing] using h
        cases k with
        | zero => exact ⟨g, List.mem_cons_self, by simp [fillIds]⟩
        | succ k =>
          obtain ⟨g', hg', hq⟩ := ih gen h' k (by simpa using hk)
          exact ⟨g', List.mem_cons_of_mem _ hg', by simpa [fillIds] using hq⟩

theorem fillIds_length (hd : List (Option Str)) (gen : List Str) (h : gen.length = missing hd) :
    (fillIds hd gen).length = hd.length := by
  induction hd generalizing gen with
  | nil => rfl
  | cons a r ih =>
    cases a with
    | some j =>
      have h' : gen.length = missing r := by simpa [missing] using h
      simp [fillIds, ih gen h']
    | none =>
      cases gen with
      | nil => simp [missing] at h
      | cons g gen =>
        have h' : gen.length = missing r := by simpa [missing] using h
        simp [fillIds, ih gen h']

open PipelineX Pipeline in
/-- the toc stage inside `treeX`, toc on -/
theorem treeX_toc_on {x : Exts} {cfg : Cfg} {src : Str} {u : Node} {html : List Str} (hx : x.toc = true)
    (h : treeX x cfg src = .ok u html) :
    ∃ t t', preTocX x cfg src = .ok t html ∧
      TocTree.run { fmt := cfg.fmt, post := postX x cfg html } cfg.blockLevel t = .ok t' ∧
      TreeProc.unescapeTree t' = some u := by
  rw [treeX_eq] at h
  cases hp : preTocX x cfg src with
  | oof => rw [hp] at h; cases h
  | err => rw [hp] at h; cases h
  | ood => rw [hp] at h; cases h
  | ok t ht =>
    rw [hp] at h
    simp only [hx, if_true] at h
    split at h
    · cases h
    · cases h
    · cases h
    · rename_i t' hrun
      split at h
      · cases h
      · rename_i u' hu
        simp only [TreeResult.ok.injEq] at h
        obtain ⟨h1, h2⟩ := h
        subst h1; subst h2
        exact ⟨t, t', rfl, hrun, hu⟩

/-- the tree after toc and the final unescape: every heading has an id -/
theorem run_unescape_all_some {env : Env} {bl : List Str} {t t' u : Node} (hrun : run env bl t = .ok t')
    (hu : TreeProc.unescapeTree t' = some u) : ∀ o ∈ hdIds u, o.isSome = true := by
  obtain ⟨used, gen, toks, w, -, -, -, -, -, hh, -, -, -, -, -⟩ := run_spec hrun
  have s1 := unescapeTree_spec t' u hu
  rw [s1.2.1, hh]
  intro o ho
  simp only [List.map_map, List.mem_map] at ho
  obtain ⟨a, -, rfl⟩ := ho
  rfl

end MdVerif.TocTreeDoc
