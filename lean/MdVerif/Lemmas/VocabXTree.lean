/-
Lemmas for C05 on the extension model (`PipelineX.treeX`), part 3: the tree processors around the inline stage —
footnote 50 (`FootnotesTree.makeDiv`, `placeDiv`), footnote-duplicate 15, prettify 10, attr_list 8, abbr 7, toc 5,
unescape 0 — keep every element inside a vocabulary `qt` on (tag, attributes).

`KeyQ qt keyOk`: `qt` depends on the attributes through their NAMES only, and every name with `keyOk` may be added
(this is what the processors that `set` attributes need: `href` for the duplicated back-links, `id` for headings, the
names `attr_list` writes).

Core Lean only.
-/
import MdVerif.Lemmas.VocabXInline
import MdVerif.Model.PipelineX

namespace MdVerif.VocabX
open Py
open BlockExt (NI NI_iff NI_fields NI_children NI_append NI_setLast NI_last allNodes allKids)

variable {qt : Tag → List (Str × Str) → Bool}

/-- `qt` looks at attribute names only; names with `keyOk` may be added to any element -/
structure KeyQ (qt : Tag → List (Str × Str) → Bool) (keyOk : Str → Bool) : Prop where
  mono : ∀ tag attrs attrs', qt tag attrs = true →
    (∀ kv ∈ attrs', kv.1 ∈ attrs.map Prod.fst ∨ keyOk kv.1 = true) → qt tag attrs' = true

theorem KeyQ.sameKeys {keyOk : Str → Bool} (hk : KeyQ qt keyOk) {tag : Tag} {a a' : List (Str × Str)}
    (h : qt tag a = true) (hkeys : a'.map Prod.fst = a.map Prod.fst) : qt tag a' = true := by
  refine hk.mono tag a a' h ?_
  intro kv hkv
  left
  rw [← hkeys]
  exact List.mem_map_of_mem (f := Prod.fst) hkv

theorem NI_mk {tag : Tag} {attrs : List (Str × Str)} {children : List Node} (h : qt tag attrs = true)
    (hk : ∀ c ∈ children, NI qt c) (text tail : Option Str) (ta tla : Bool) :
    NI qt ⟨tag, attrs, text, ta, children, tail, tla⟩ := by
  rw [NI_iff]; exact ⟨h, hk⟩

theorem allKids_iff' (l : List Node) : allKids qt l = true ↔ ∀ c ∈ l, NI qt c := BlockExt.allKids_iff l

/-! ### `PrettifyTreeprocessor` -/

section Prettify
open TreeProc

mutual
theorem prettifyETree_NI (bl : List Str) : (n : Node) → allNodes qt n = true → allNodes qt (prettifyETree bl n) = true
  | ⟨tag, attrs, text, ta, children, tail, tla⟩, h => by
    simp only [allNodes, Bool.and_eq_true] at h
    unfold prettifyETree
    simp only [allNodes, Bool.and_eq_true]
    refine ⟨h.1, ?_⟩
    split
    · exact prettifyKids_NI bl children h.2
    · exact h.2
theorem prettifyKids_NI (bl : List Str) : (l : List Node) → allKids qt l = true → allKids qt (prettifyKids bl l) = true
  | [], _ => rfl
  | c :: r, h => by
    simp only [allKids, Bool.and_eq_true] at h
    unfold prettifyKids
    simp only [allKids, Bool.and_eq_true]
    refine ⟨?_, prettifyKids_NI bl r h.2⟩
    split
    · exact prettifyETree_NI bl c h.1
    · exact h.1
end

mutual
theorem mapTree_NI {f : Node → Node} (hf : ∀ n : Node, NI qt n → NI qt (f n)) :
    (n : Node) → allNodes qt n = true → allNodes qt (mapTree f n) = true
  | ⟨tag, attrs, text, ta, children, tail, tla⟩, h => by
    simp only [allNodes, Bool.and_eq_true] at h
    unfold mapTree
    apply hf
    show allNodes qt _ = true
    simp only [allNodes, Bool.and_eq_true]
    exact ⟨h.1, mapKids_NI hf children h.2⟩
theorem mapKids_NI {f : Node → Node} (hf : ∀ n : Node, NI qt n → NI qt (f n)) :
    (l : List Node) → allKids qt l = true → allKids qt (mapKids f l) = true
  | [], _ => rfl
  | c :: r, h => by
    simp only [allKids, Bool.and_eq_true] at h
    unfold mapKids
    simp only [allKids, Bool.and_eq_true]
    exact ⟨mapTree_NI hf c h.1, mapKids_NI hf r h.2⟩
end

theorem brRule_NI {n : Node} (h : NI qt n) : NI qt (brRule n) := by
  unfold brRule
  split
  · split
    · exact NI_fields h _ _ _ _
    · exact NI_fields h _ _ _ _
  · exact h

theorem preRule_NI {n : Node} (h : NI qt n) : NI qt (preRule n) := by
  unfold preRule
  split
  · split
    · next code rest hch =>
      split
      · split
        · refine NI_children h _ ?_
          have hk := (NI_iff n).1 h |>.2
          rw [hch] at hk
          intro c hc
          rcases List.mem_cons.1 hc with rfl | hc
          · exact NI_fields (hk code List.mem_cons_self) _ _ _ _
          · exact hk c (List.mem_cons_of_mem _ hc)
        · exact h
      · exact h
    · exact h
  · exact h

theorem prettify_NI {t : Node} (h : NI qt t) (bl : List Str) : NI qt (prettify t bl) := by
  unfold prettify
  exact mapTree_NI (fun _ => preRule_NI) _ (mapTree_NI (fun _ => brRule_NI) _ (prettifyETree_NI bl t h))

end Prettify

/-! ### `UnescapeTreeprocessor` -/

section Unescape
open TreeProc

mutual
theorem unescapeTree_NI {keyOk : Str → Bool} (hk : KeyQ qt keyOk) : (n u : Node) → unescapeTree n = some u →
    allNodes qt n = true → allNodes qt u = true
  | ⟨tag, attrs, text, ta, children, tail, tla⟩, u, hu, h => by
    simp only [allNodes, Bool.and_eq_true] at h
    simp only [unescapeTree] at hu
    split at hu
    · rename_i t tl a ks e1 e2 e3 e4
      simp only [Option.some.injEq] at hu; subst hu
      simp only [allNodes, Bool.and_eq_true]
      exact ⟨hk.sameKeys h.1 (Vocab2.unescAttrs_keys _ _ e3), unescapeKids_NI hk children ks e4 h.2⟩
    · cases hu
theorem unescapeKids_NI {keyOk : Str → Bool} (hk : KeyQ qt keyOk) : (l l' : List Node) →
    unescapeKids l = some l' → allKids qt l = true → allKids qt l' = true
  | [], l', hu, _ => by simp only [unescapeKids, Option.some.injEq] at hu; subst hu; rfl
  | c :: r, l', hu, h => by
    simp only [allKids, Bool.and_eq_true] at h
    simp only [unescapeKids] at hu
    split at hu
    · rename_i c' r' e1 e2
      simp only [Option.some.injEq] at hu; subst hu
      simp only [allKids, Bool.and_eq_true]
      exact ⟨unescapeTree_NI hk c c' e1 h.1, unescapeKids_NI hk r r' e2 h.2⟩
    · cases hu
end

end Unescape

/-! ### `AbbrTreeprocessor` -/

section Abbr
open AbbrTree

theorem NI_mkAbbr (habbr : ∀ v, qt (.name "abbr".toList) [("title".toList, v)] = true) (abbrs : List (Str × Str))
    (m : Str × Str) : NI qt (mkAbbr abbrs m) := by
  rw [NI_iff]; exact ⟨habbr _, by intro c hc; cases hc⟩

mutual
theorem abbrNode_NI (habbr : ∀ v, qt (.name "abbr".toList) [("title".toList, v)] = true) (abbrs : List (Str × Str))
    (keys : List Str) (isRoot : Bool) : (n : Node) → allNodes qt n = true →
    allNodes qt (abbrNode abbrs keys isRoot n).1 = true ∧ allKids qt (abbrNode abbrs keys isRoot n).2 = true
  | ⟨tag, attrs, text, ta, children, tail, tla⟩, h => by
    simp only [allNodes, Bool.and_eq_true] at h
    have hk := abbrKids_NI habbr abbrs keys children h.2
    have hmk : ∀ l : List (Str × Str), allKids qt (l.map (mkAbbr abbrs)) = true := by
      intro l
      rw [allKids_iff']
      intro c hc
      obtain ⟨m, _, rfl⟩ := List.mem_map.1 hc
      exact NI_mkAbbr habbr abbrs m
    have hA : ∀ (c : Prop) [Decidable c] (t : Option Str) (a : Bool) (s : Str),
        allKids qt (if c then
            (if (segs keys none 0 s).2.isEmpty = true then ((t, a), ([] : List Node))
             else ((some (segs keys none 0 s).1, false), (segs keys none 0 s).2.map (mkAbbr abbrs)))
          else ((t, a), [])).2 = true := by
      intro c _ t a s
      split
      · split
        · rfl
        · exact hmk _
      · rfl
    unfold abbrNode
    dsimp only
    refine ⟨?_, hA _ _ _ _⟩
    simp only [allNodes, Bool.and_eq_true]
    refine ⟨h.1, ?_⟩
    rw [allKids_iff']
    intro c hc
    rcases List.mem_append.1 hc with hc | hc
    · exact (allKids_iff' _).1 (hA _ _ _ _) c hc
    · exact (allKids_iff' _).1 hk c hc
theorem abbrKids_NI (habbr : ∀ v, qt (.name "abbr".toList) [("title".toList, v)] = true) (abbrs : List (Str × Str))
    (keys : List Str) : (l : List Node) → allKids qt l = true → allKids qt (abbrKids abbrs keys l) = true
  | [], _ => rfl
  | c :: r, h => by
    simp only [allKids, Bool.and_eq_true] at h
    unfold abbrKids
    have h1 := abbrNode_NI habbr abbrs keys false c h.1
    have h2 := abbrKids_NI habbr abbrs keys r h.2
    dsimp only
    rw [allKids_iff'] at h2 ⊢
    intro x hx
    rcases List.mem_cons.1 hx with rfl | hx
    · exact h1.1
    · rcases List.mem_append.1 hx with hx | hx
      · exact (allKids_iff' _).1 h1.2 x hx
      · exact h2 x hx
end

theorem abbrRun_NI (habbr : ∀ v, qt (.name "abbr".toList) [("title".toList, v)] = true) (abbrs : List (Str × Str))
    {root : Node} (h : NI qt root) : NI qt (AbbrTree.run abbrs root) := by
  unfold AbbrTree.run
  split
  · exact h
  · exact (abbrNode_NI habbr abbrs _ true root h).1

end Abbr

/-! ### `setAttr` -/

theorem mem_setAttr_keys {n : Node} {k v : Str} {kv : Str × Str} (h : kv ∈ (n.setAttr k v).attrs) :
    kv.1 ∈ n.attrs.map Prod.fst ∨ kv.1 = k := by
  unfold Node.setAttr at h
  split at h
  · simp only [List.mem_map] at h
    obtain ⟨x, hx, rfl⟩ := h
    split
    · right; rfl
    · left; exact List.mem_map_of_mem (f := Prod.fst) hx
  · simp only [List.mem_append, List.mem_singleton] at h
    rcases h with h | rfl
    · left; exact List.mem_map_of_mem (f := Prod.fst) h
    · right; rfl

theorem NI_setAttr {keyOk : Str → Bool} (hk : KeyQ qt keyOk) {n : Node} (h : NI qt n) {k : Str}
    (hkey : keyOk k = true) (v : Str) : NI qt (n.setAttr k v) := by
  rw [NI_iff] at h ⊢
  rw [Vocab2.setAttr_tag, Vocab2.setAttr_children]
  refine ⟨hk.mono _ _ _ h.1 ?_, h.2⟩
  intro kv hkv
  rcases mem_setAttr_keys hkv with h' | h'
  · exact Or.inl h'
  · right; rw [h']; exact hkey

/-! ### footnotes: `makeFootnotesDiv`, the place marker -/

section Footnotes
open FootnotesTree

/-- what `qt` has to accept for the footnote `div` -/
structure FnQ (qt : Tag → List (Str × Str) → Bool) : Prop where
  div : ∀ v, qt (.name "div".toList) [("class".toList, v)] = true
  hr : qt (.name "hr".toList) [] = true
  ol : qt (.name "ol".toList) [] = true
  li : ∀ v, qt (.name "li".toList) [("id".toList, v)] = true
  p : qt (.name "p".toList) [] = true
  a : ∀ h c t, qt (.name "a".toList) [("href".toList, h), ("class".toList, c), ("title".toList, t)] = true

theorem NI_backlink (hf : FnQ qt) (id : Str) (index : Nat) : NI qt (backlink id index) := by
  rw [NI_iff]; exact ⟨hf.a _ _ _, by intro c hc; cases hc⟩

theorem addBacklink_NI (hf : FnQ qt) {li bl li' : Node} (hli : NI qt li) (hbl : NI qt bl)
    (h : addBacklink li bl = some li') : NI qt li' := by
  unfold addBacklink at h
  split at h
  · simp only [Option.some.injEq] at h; subst h; exact hli
  · rename_i node hlast
    have hnode := NI_last hli hlast
    split at h
    · split at h
      · simp only [Option.some.injEq] at h; subst h
        refine NI_setLast hli ?_
        rw [NI_iff] at hnode ⊢
        refine ⟨hnode.1, ?_⟩
        intro c hc
        simp only [List.mem_append, List.mem_singleton] at hc
        rcases hc with hc | rfl
        · exact hnode.2 c hc
        · exact hbl
      · cases h
    · simp only [Option.some.injEq] at h; subst h
      refine NI_append hli ?_
      rw [NI_iff]
      refine ⟨hf.p, ?_⟩
      intro c hc
      simp only [List.mem_singleton] at hc; subst hc; exact hbl

theorem makeLis_NI (hf : FnQ qt) {parse : Block.Refs → Str → Option (Node × Block.Refs)}
    (hparse : ∀ log text sur log', parse log text = some (sur, log') → NI qt sur) (fnCount : Block.Refs → Nat) :
    ∀ (l : List (Str × Str)) (index : Nat) (log : Block.Refs) (lis : List Node) (log' : Block.Refs),
      makeLis parse fnCount l index log = .ok (lis, log') → ∀ c ∈ lis, NI qt c := by
  intro l
  induction l with
  | nil =>
    intro index log lis log' h
    simp only [makeLis, R.ok.injEq, Prod.mk.injEq] at h
    obtain ⟨rfl, _⟩ := h; simp
  | cons x rest ih =>
    intro index log lis log' h
    obtain ⟨id, text⟩ := x
    simp only [makeLis] at h
    split at h
    · cases h
    · rename_i sur log1 hp
      split at h
      · cases h
      · split at h
        · cases h
        · rename_i li' hli'
          split at h
          · rename_i lis0 log2 hrest
            simp only [R.ok.injEq, Prod.mk.injEq] at h
            obtain ⟨rfl, _⟩ := h
            have hsur := hparse _ _ _ _ hp
            intro c hc
            rcases List.mem_cons.1 hc with rfl | hc
            · refine addBacklink_NI hf ?_ (NI_backlink hf id index) hli'
              rw [NI_iff]; exact ⟨hf.li _, ((NI_iff sur).1 hsur).2⟩
            · exact ih _ _ _ _ hrest c hc
          · cases h
          · cases h

theorem makeDiv_NI (hf : FnQ qt) {parse : Block.Refs → Str → Option (Node × Block.Refs)}
    (hparse : ∀ log text sur log', parse log text = some (sur, log') → NI qt sur) (fnCount : Block.Refs → Nat)
    (footnotes : List (Str × Str)) (log : Block.Refs) {div : Node} {log' : Block.Refs}
    (h : makeDiv parse fnCount footnotes log = .ok (some div, log')) : NI qt div := by
  unfold makeDiv at h
  split at h
  · cases h
  · split at h
    · rename_i lis log1 hl
      simp only [R.ok.injEq, Prod.mk.injEq, Option.some.injEq] at h
      obtain ⟨rfl, _⟩ := h
      rw [NI_iff]
      refine ⟨hf.div _, ?_⟩
      intro c hc
      simp only [List.mem_cons, List.not_mem_nil, or_false] at hc
      rcases hc with rfl | rfl
      · rw [NI_iff]; exact ⟨hf.hr, by intro c hc; cases hc⟩
      · rw [NI_iff]; exact ⟨hf.ol, makeLis_NI hf hparse fnCount _ _ _ _ _ hl⟩
    · cases h
    · cases h

mutual
theorem placeNode_NI {div : Node} (hd : NI qt div) : (n n' : Node) → placeNode div n = some n' →
    allNodes qt n = true → allNodes qt n' = true
  | ⟨tag, attrs, text, ta, children, tail, tla⟩, n', h, hn => by
    simp only [allNodes, Bool.and_eq_true] at hn
    simp only [placeNode] at h
    split at h
    · rename_i ks hk
      simp only [Option.some.injEq] at h; subst h
      simp only [allNodes, Bool.and_eq_true]
      exact ⟨hn.1, placeKids_NI hd children ks hk hn.2⟩
    · cases h
theorem placeKids_NI {div : Node} (hd : NI qt div) : (l l' : List Node) → placeKids div l = some l' →
    allKids qt l = true → allKids qt l' = true
  | [], l', h, _ => by simp [placeKids] at h
  | c :: r, l', h, hl => by
    simp only [allKids, Bool.and_eq_true] at hl
    simp only [placeKids] at h
    split at h
    · simp only [Option.some.injEq] at h; subst h
      simp only [allKids, Bool.and_eq_true]; exact ⟨hd, hl.2⟩
    · split at h
      · simp only [Option.some.injEq] at h; subst h
        simp only [allKids, Bool.and_eq_true]
        exact ⟨NI_fields (p := c) hl.1 _ _ _ _, hd, hl.2⟩
      · split at h
        · rename_i c' hc'
          simp only [Option.some.injEq] at h; subst h
          simp only [allKids, Bool.and_eq_true]
          exact ⟨placeNode_NI hd c c' hc' hl.1, hl.2⟩
        · split at h
          · rename_i r' hr'
            simp only [Option.some.injEq] at h; subst h
            simp only [allKids, Bool.and_eq_true]
            exact ⟨hl.1, placeKids_NI hd r r' hr' hl.2⟩
          · cases h
end

theorem placeDiv_NI {root div : Node} (hr : NI qt root) (hd : NI qt div) : NI qt (placeDiv root div) := by
  unfold placeDiv
  split
  · rename_i r hp; exact placeNode_NI hd root r hp hr
  · exact NI_append hr hd

/-! ### footnotes: the duplicated back-links -/

mutual
theorem firstBackref_NI : (n a : Node) → firstBackref n = some a → allNodes qt n = true → NI qt a
  | ⟨tag, attrs, text, ta, children, tail, tla⟩, a, h, hn => by
    simp only [firstBackref] at h
    split at h
    · simp only [Option.some.injEq] at h; subst h; exact hn
    · simp only [allNodes, Bool.and_eq_true] at hn
      exact firstBackrefKids_NI children a h hn.2
theorem firstBackrefKids_NI : (l : List Node) → (a : Node) → firstBackrefKids l = some a → allKids qt l = true →
    NI qt a
  | [], a, h, _ => by simp [firstBackrefKids] at h
  | c :: r, a, h, hl => by
    simp only [allKids, Bool.and_eq_true] at hl
    simp only [firstBackrefKids] at h
    split at h
    · rename_i a' ha'
      simp only [Option.some.injEq] at h; subst h
      exact firstBackref_NI c a' ha' hl.1
    · exact firstBackrefKids_NI r a h hl.2
end

theorem dupLi_NI {keyOk : Str → Bool} (hk : KeyQ qt keyOk) (hhref : keyOk "href".toList = true)
    (fn : Footnotes.State) {li li' : Node} (h : dupLi fn li = some li') (hli : NI qt li) : NI qt li' := by
  unfold dupLi at h
  simp only at h
  split at h
  · cases h
  · split at h
    · split at h
      · simp only [Option.some.injEq] at h; subst h; exact hli
      · rename_i link hlink
        have hl := firstBackref_NI li link hlink hli
        split at h
        · cases h
        · split at h
          · rename_i last hlast
            simp only [Option.some.injEq] at h; subst h
            have hlastNI := NI_last hli hlast
            refine NI_setLast hli ?_
            rw [NI_iff] at hlastNI ⊢
            refine ⟨hlastNI.1, ?_⟩
            intro c hc
            rcases List.mem_append.1 hc with hc | hc
            · exact hlastNI.2 c hc
            · obtain ⟨hh, _, rfl⟩ := List.mem_map.1 hc
              exact NI_setAttr hk hl hhref _
          · cases h
    · simp only [Option.some.injEq] at h; subst h; exact hli

theorem dupLis_NI {keyOk : Str → Bool} (hk : KeyQ qt keyOk) (hhref : keyOk "href".toList = true)
    (fn : Footnotes.State) : ∀ (l l' : List Node), dupLis fn l = some l' → allKids qt l = true →
    allKids qt l' = true := by
  intro l
  induction l with
  | nil => intro l' h _; simp only [dupLis, Option.some.injEq] at h; subst h; rfl
  | cons c r ih =>
    intro l' h hl
    simp only [allKids, Bool.and_eq_true] at hl
    simp only [dupLis] at h
    split at h
    · rename_i c' r' e1 e2
      simp only [Option.some.injEq] at h; subst h
      simp only [allKids, Bool.and_eq_true]
      exact ⟨dupLi_NI hk hhref fn e1 hl.1, ih r' e2 hl.2⟩
    · cases h

mutual
theorem dupFirstOl_NI {keyOk : Str → Bool} (hk : KeyQ qt keyOk) (hhref : keyOk "href".toList = true)
    (fn : Footnotes.State) : (n : Node) → (r : Node × Bool) → dupFirstOl fn n = some r → allNodes qt n = true →
    allNodes qt r.1 = true
  | ⟨tag, attrs, text, ta, children, tail, tla⟩, r, h, hn => by
    simp only [allNodes, Bool.and_eq_true] at hn
    simp only [dupFirstOl] at h
    split at h
    · split at h
      · rename_i ks hks
        simp only [Option.some.injEq] at h; subst h
        simp only [allNodes, Bool.and_eq_true]
        exact ⟨hn.1, dupLis_NI hk hhref fn _ _ hks hn.2⟩
      · cases h
    · split at h
      · rename_i ks found hks
        simp only [Option.some.injEq] at h; subst h
        simp only [allNodes, Bool.and_eq_true]
        exact ⟨hn.1, dupFirstOlKids_NI hk hhref fn children (ks, found) hks hn.2⟩
      · cases h
theorem dupFirstOlKids_NI {keyOk : Str → Bool} (hk : KeyQ qt keyOk) (hhref : keyOk "href".toList = true)
    (fn : Footnotes.State) : (l : List Node) → (r : List Node × Bool) → dupFirstOlKids fn l = some r →
    allKids qt l = true → allKids qt r.1 = true
  | [], r, h, _ => by simp only [dupFirstOlKids, Option.some.injEq] at h; subst h; rfl
  | c :: rest, r, h, hl => by
    simp only [allKids, Bool.and_eq_true] at hl
    simp only [dupFirstOlKids] at h
    split at h
    · cases h
    · rename_i c' hc'
      simp only [Option.some.injEq] at h; subst h
      simp only [allKids, Bool.and_eq_true]
      exact ⟨dupFirstOl_NI hk hhref fn c (c', true) hc' hl.1, hl.2⟩
    · rename_i c' hc'
      split at h
      · rename_i r' found hr'
        simp only [Option.some.injEq] at h; subst h
        simp only [allKids, Bool.and_eq_true]
        exact ⟨dupFirstOl_NI hk hhref fn c (c', false) hc' hl.1, dupFirstOlKids_NI hk hhref fn rest (r', found) hr' hl.2⟩
      · cases h
end

mutual
theorem duplicates_NI {keyOk : Str → Bool} (hk : KeyQ qt keyOk) (hhref : keyOk "href".toList = true)
    (fn : Footnotes.State) : (n n' : Node) → duplicates fn n = some n' → allNodes qt n = true →
    allNodes qt n' = true
  | ⟨tag, attrs, text, ta, children, tail, tla⟩, n', h, hn => by
    simp only [allNodes, Bool.and_eq_true] at hn
    simp only [duplicates] at h
    split at h
    · cases h
    · rename_i ks hks
      have hks' := duplicatesKids_NI hk hhref fn children ks hks hn.2
      have hnew : allNodes qt ⟨tag, attrs, text, ta, ks, tail, tla⟩ = true := by
        simp only [allNodes, Bool.and_eq_true]; exact ⟨hn.1, hks'⟩
      split at h
      · simp only [Option.map_eq_some_iff] at h
        obtain ⟨r, hr, rfl⟩ := h
        exact dupFirstOl_NI hk hhref fn _ r hr hnew
      · simp only [Option.some.injEq] at h; subst h; exact hnew
theorem duplicatesKids_NI {keyOk : Str → Bool} (hk : KeyQ qt keyOk) (hhref : keyOk "href".toList = true)
    (fn : Footnotes.State) : (l l' : List Node) → duplicatesKids fn l = some l' → allKids qt l = true →
    allKids qt l' = true
  | [], l', h, _ => by simp only [duplicatesKids, Option.some.injEq] at h; subst h; rfl
  | c :: r, l', h, hl => by
    simp only [allKids, Bool.and_eq_true] at hl
    simp only [duplicatesKids] at h
    split at h
    · rename_i c' r' e1 e2
      simp only [Option.some.injEq] at h; subst h
      simp only [allKids, Bool.and_eq_true]
      exact ⟨duplicates_NI hk hhref fn c c' e1 hl.1, duplicatesKids_NI hk hhref fn r r' e2 hl.2⟩
    · cases h
end

end Footnotes


/-! ### `attr_list` -/

section AttrListS
open AttrList AttrListTree

/-- the key grammar of `attr_list`: what `sanitize_name` returns (and `class`) -/
def alKey (k : Str) : Bool := k.all nameChar

theorem sanitizeAux_all : ∀ (s : Str) (b : Bool), (sanitizeAux b s).all nameChar = true := by
  intro s
  induction s with
  | nil => intro b; rfl
  | cons c s ih =>
    intro b
    simp only [sanitizeAux]
    split
    · rename_i hc; simp only [List.all_cons, hc, Bool.true_and]; exact ih _
    · split
      · exact ih _
      · simp only [List.all_cons, Bool.and_eq_true]; exact ⟨by decide, ih _⟩

theorem alKey_sanitize (k : Str) : alKey (sanitizeName k) = true := sanitizeAux_all k false

theorem alKey_class : alKey classKey = true := by decide

/-- `new` has only keys of `old` or keys of the grammar -/
def KeysLe (old new : Attrs) : Prop := ∀ kv ∈ new, kv.1 ∈ old.map Prod.fst ∨ alKey kv.1 = true

theorem keysLe_refl (a : Attrs) : KeysLe a a := fun _ h => Or.inl (List.mem_map_of_mem (f := Prod.fst) h)

theorem keysLe_trans {a b c : Attrs} (h1 : KeysLe a b) (h2 : KeysLe b c) : KeysLe a c := by
  intro kv hkv
  rcases h2 kv hkv with h | h
  · obtain ⟨x, hx, e⟩ := List.mem_map.1 h
    rcases h1 x hx with h' | h'
    · left; rw [← e]; exact h'
    · right; rw [← e]; exact h'
  · exact Or.inr h

theorem keysLe_setA (a : Attrs) {k : Str} (hk : alKey k = true) (v : Str) : KeysLe a (setA a k v) := by
  intro kv hkv
  unfold setA at hkv
  split at hkv
  · simp only [List.mem_map] at hkv
    obtain ⟨x, hx, rfl⟩ := hkv
    split
    · right; exact hk
    · left; exact List.mem_map_of_mem (f := Prod.fst) hx
  · simp only [List.mem_append, List.mem_singleton] at hkv
    rcases hkv with h | rfl
    · left; exact List.mem_map_of_mem (f := Prod.fst) h
    · right; exact hk

theorem keysLe_assignStep (a : Attrs) (p : Str × Str) : KeysLe a (assignStep a p) := by
  unfold assignStep
  split
  · split
    · exact keysLe_setA a alKey_class _
    · exact keysLe_setA a alKey_class _
  · exact keysLe_setA a (alKey_sanitize _) _

theorem keysLe_assignPairs : ∀ (pairs : List (Str × Str)) (a : Attrs), KeysLe a (assignPairs a pairs) := by
  intro pairs
  induction pairs with
  | nil => intro a; exact keysLe_refl a
  | cons p r ih =>
    intro a
    simp only [assignPairs, List.foldl_cons]
    exact keysLe_trans (keysLe_assignStep a p) (ih _)

theorem keysLe_assignAttrs (a : Attrs) (s : Str) (strict : Bool) : KeysLe a (assignAttrs a s strict).1 := by
  unfold assignAttrs
  simp only
  split
  · exact keysLe_refl a
  · exact keysLe_assignPairs _ a

theorem keysLe_blockApply (header hashes : Bool) (a : Attrs) (text : Str) :
    KeysLe a (blockApply header hashes a text).1 := by
  unfold blockApply
  split
  · exact keysLe_refl a
  · simp only
    split
    · exact keysLe_assignAttrs a _ true
    · exact keysLe_refl a

theorem keysLe_inlineApply (a : Attrs) (tail : Str) : KeysLe a (inlineApply a tail).1 := by
  unfold inlineApply
  split
  · exact keysLe_refl a
  · exact keysLe_assignAttrs a _ false

theorem keysLe_blockRule (tag : Tag) (attrs : Attrs) (text : Option Str) (children : List Node) :
    KeysLe attrs (blockRule tag attrs text children).1 := by
  have hTail : ∀ (header hashes : Bool) (tl : Str) (i : Nat),
      KeysLe attrs (if (blockApply header hashes attrs tl).2 = tl then
          ((blockApply header hashes attrs tl).1, (none : Option Str), (none : Option (Nat × Str)))
        else ((blockApply header hashes attrs tl).1, none, some (i, (blockApply header hashes attrs tl).2))).1 := by
    intro header hashes tl i
    split <;> exact keysLe_blockApply _ _ _ _
  have hText : ∀ (header hashes : Bool),
      KeysLe attrs (if Node.truthy text = true then
          (if (blockApply header hashes attrs (text.getD [])).2 = text.getD [] then
            ((blockApply header hashes attrs (text.getD [])).1, (none : Option Str), (none : Option (Nat × Str)))
           else ((blockApply header hashes attrs (text.getD [])).1, some (blockApply header hashes attrs (text.getD [])).2, none))
        else (attrs, none, none)).1 := by
    intro header hashes
    split
    · split <;> exact keysLe_blockApply _ _ _ _
    · exact keysLe_refl attrs
  unfold blockRule
  dsimp only
  split
  · split
    · split
      · exact hTail _ _ _ _
      · exact hText _ _
    · split
      · exact hTail _ _ _ _
      · exact hText _ _
  · split
    · exact hTail _ _ _ _
    · exact hText _ _

mutual
theorem attrNode_NI (hk : KeyQ qt alKey) (bl : List Str) (ov : Option Str) : (n : Node) → allNodes qt n = true →
    allNodes qt (attrNode bl ov n) = true
  | ⟨tag, attrs, text, ta, children, tail0, tla0⟩, h => by
    simp only [allNodes, Bool.and_eq_true] at h
    have hkids : ∀ o, allKids qt (attrKids bl o 0 children) = true := fun o => attrKids_NI hk bl o 0 children h.2
    cases ov with
    | none =>
      unfold attrNode
      dsimp only
      split
      · rw [BlockExt.allNodes_eq, Bool.and_eq_true]
        exact ⟨hk.mono _ _ _ h.1 (keysLe_blockRule tag attrs text children), hkids _⟩
      · split
        · split
          · rw [BlockExt.allNodes_eq, Bool.and_eq_true]
            exact ⟨hk.mono _ _ _ h.1 (keysLe_inlineApply attrs _), hkids _⟩
          · rw [BlockExt.allNodes_eq, Bool.and_eq_true]
            exact ⟨h.1, hkids _⟩
        · rw [BlockExt.allNodes_eq, Bool.and_eq_true]
          exact ⟨h.1, hkids _⟩
    | some t =>
      unfold attrNode
      dsimp only
      split
      · rw [BlockExt.allNodes_eq, Bool.and_eq_true]
        exact ⟨hk.mono _ _ _ h.1 (keysLe_blockRule tag attrs text children), hkids _⟩
      · split
        · split
          · rw [BlockExt.allNodes_eq, Bool.and_eq_true]
            exact ⟨hk.mono _ _ _ h.1 (keysLe_inlineApply attrs _), hkids _⟩
          · rw [BlockExt.allNodes_eq, Bool.and_eq_true]
            exact ⟨h.1, hkids _⟩
        · rw [BlockExt.allNodes_eq, Bool.and_eq_true]
          exact ⟨h.1, hkids _⟩
theorem attrKids_NI (hk : KeyQ qt alKey) (bl : List Str) (ov : Option (Nat × Str)) : (i : Nat) → (l : List Node) →
    allKids qt l = true → allKids qt (attrKids bl ov i l) = true
  | _, [], _ => rfl
  | i, c :: r, h => by
    simp only [allKids, Bool.and_eq_true] at h
    unfold attrKids
    simp only [allKids, Bool.and_eq_true]
    exact ⟨attrNode_NI hk bl _ c h.1, attrKids_NI hk bl ov (i + 1) r h.2⟩
end

/-- **`AttrListTreeprocessor`**: tags are untouched; the attribute names it adds satisfy `alKey` -/
theorem attrRun_NI (hk : KeyQ qt alKey) (bl : List Str) {root : Node} (h : NI qt root) :
    NI qt (AttrListTree.run bl root) := attrNode_NI hk bl none root h

end AttrListS

/-! ### `toc` -/

section TocS
open TocTree

/-- what `qt` has to accept for the table of contents -/
structure TocQ (qt : Tag → List (Str × Str) → Bool) : Prop where
  div : ∀ v, qt (.name "div".toList) [("class".toList, v)] = true
  ul : qt (.name "ul".toList) [] = true
  li : qt (.name "li".toList) [] = true
  a : ∀ h, qt (.name "a".toList) [("href".toList, h)] = true

mutual
theorem buildLi_NI (ht : TocQ qt) : (t : Toc.TokTree) → allNodes qt (buildLi t) = true
  | .mk t cs => by
    unfold buildLi
    simp only [allNodes, allKids, Bool.and_eq_true, el]
    refine ⟨ht.li, ⟨ht.a _, trivial⟩, ?_⟩
    cases cs with
    | nil => rfl
    | cons c r =>
      simp only [allKids, allNodes, Bool.and_eq_true]
      exact ⟨⟨ht.ul, buildLis_NI ht (c :: r)⟩, trivial⟩
theorem buildLis_NI (ht : TocQ qt) : (l : List Toc.TokTree) → allKids qt (buildLis l) = true
  | [] => rfl
  | c :: r => by
    unfold buildLis
    simp only [allKids, Bool.and_eq_true]
    exact ⟨buildLi_NI ht c, buildLis_NI ht r⟩
end

theorem buildDiv_NI (ht : TocQ qt) (bl : List Str) (toks : List Toc.Tok) : NI qt (buildDiv bl toks) := by
  unfold buildDiv
  apply prettify_NI
  show allNodes qt _ = true
  simp only [allNodes, allKids, Bool.and_eq_true, el, buildUl]
  exact ⟨ht.div _, ⟨ht.ul, buildLis_NI ht _⟩, trivial⟩

mutual
theorem replNode_NI {div : Node} (hd : NI qt div) : (n : Node) → allNodes qt n = true →
    allNodes qt (replNode div n) = true
  | ⟨tag, attrs, text, ta, children, tail, tla⟩, h => by
    simp only [allNodes, Bool.and_eq_true] at h
    unfold replNode
    simp only [allNodes, Bool.and_eq_true]
    exact ⟨h.1, replKids_NI hd children h.2⟩
theorem replKids_NI {div : Node} (hd : NI qt div) : (l : List Node) → allKids qt l = true →
    allKids qt (replKids div l) = true
  | [], _ => rfl
  | c :: r, h => by
    simp only [allKids, Bool.and_eq_true] at h
    unfold replKids
    split
    · simp only [allKids, Bool.and_eq_true]; exact ⟨h.1, replKids_NI hd r h.2⟩
    · split
      · simp only [allKids, Bool.and_eq_true]; exact ⟨hd, replKids_NI hd r h.2⟩
      · simp only [allKids, Bool.and_eq_true]; exact ⟨replNode_NI hd c h.1, replKids_NI hd r h.2⟩
end

/-- the attributes of a heading after `toc`: the old names and `id` -/
theorem heading_keys {env : Env} {el : Node} {st : St} {attrs : List (Str × Str)} {st' : St}
    (h : heading env el st = .ok (attrs, st')) :
    ∀ kv ∈ attrs, kv.1 ∈ el.attrs.map Prod.fst ∨ kv.1 = idKey := by
  unfold heading at h
  split at h
  · cases h
  · cases h
  · cases h
  · dsimp only at h
    split at h
    · cases h
    · cases h
    · cases h
    · rename_i attrs1 used hid
      have h1 : ∀ kv ∈ attrs1, kv.1 ∈ el.attrs.map Prod.fst ∨ kv.1 = idKey := by
        split at hid
        · simp only [R.ok.injEq, Prod.mk.injEq] at hid
          obtain ⟨rfl, _⟩ := hid
          exact fun kv hkv => Or.inl (List.mem_map_of_mem (f := Prod.fst) hkv)
        · split at hid
          · cases hid
          · split at hid
            · cases hid
            · simp only [R.ok.injEq, Prod.mk.injEq] at hid
              obtain ⟨rfl, _⟩ := hid
              intro kv hkv
              simp only [List.mem_append, List.mem_singleton] at hkv
              rcases hkv with hkv | rfl
              · exact Or.inl (List.mem_map_of_mem (f := Prod.fst) hkv)
              · exact Or.inr rfl
      split at h
      · cases h
      · cases h
      · cases h
      · rename_i name attrs2 hnr
        have h2 : ∀ kv ∈ attrs2, kv.1 ∈ el.attrs.map Prod.fst ∨ kv.1 = idKey := by
          split at hnr
          · simp only [R.ok.injEq, Prod.mk.injEq] at hnr
            obtain ⟨_, rfl⟩ := hnr; exact h1
          · split at hnr
            · cases hnr
            · split at hnr
              · cases hnr
              · simp only [R.ok.injEq, Prod.mk.injEq] at hnr
                obtain ⟨_, rfl⟩ := hnr
                intro kv hkv
                exact h1 kv (List.mem_filter.1 hkv).1
        split at h
        · cases h
        · simp only [R.ok.injEq, Prod.mk.injEq] at h
          obtain ⟨rfl, _⟩ := h; exact h2

mutual
theorem walkNode_NI {keyOk : Str → Bool} (hk : KeyQ qt keyOk) (hid : keyOk idKey = true) (env : Env) :
    (n : Node) → (st : St) → (r : Node × St) → walkNode env n st = .ok r → allNodes qt n = true →
    allNodes qt r.1 = true
  | ⟨tag, attrs, text, ta, children, tail, tla⟩, st, r, h, hn => by
    simp only [allNodes, Bool.and_eq_true] at hn
    simp only [walkNode] at h
    split at h
    · cases h
    · cases h
    · cases h
    · rename_i attrs' st1 hh
      split at h
      · cases h
      · cases h
      · cases h
      · rename_i ks st2 hks
        simp only [R.ok.injEq] at h; subst h
        simp only [allNodes, Bool.and_eq_true]
        refine ⟨?_, walkKids_NI hk hid env children st1 (ks, st2) hks hn.2⟩
        split at hh
        · refine hk.mono _ _ _ hn.1 ?_
          intro kv hkv
          rcases heading_keys hh kv hkv with h' | h'
          · exact Or.inl h'
          · right; rw [h']; exact hid
        · simp only [R.ok.injEq, Prod.mk.injEq] at hh
          obtain ⟨rfl, _⟩ := hh; exact hn.1
theorem walkKids_NI {keyOk : Str → Bool} (hk : KeyQ qt keyOk) (hid : keyOk idKey = true) (env : Env) :
    (l : List Node) → (st : St) → (r : List Node × St) → walkKids env l st = .ok r → allKids qt l = true →
    allKids qt r.1 = true
  | [], st, r, h, _ => by simp only [walkKids, R.ok.injEq] at h; subst h; rfl
  | c :: rest, st, r, h, hl => by
    simp only [allKids, Bool.and_eq_true] at hl
    simp only [walkKids] at h
    split at h
    · cases h
    · cases h
    · cases h
    · rename_i c' st1 hc'
      split at h
      · cases h
      · cases h
      · cases h
      · rename_i r' st2 hr'
        simp only [R.ok.injEq] at h; subst h
        simp only [allKids, Bool.and_eq_true]
        exact ⟨walkNode_NI hk hid env c st (c', st1) hc' hl.1, walkKids_NI hk hid env rest st1 (r', st2) hr' hl.2⟩
end

/-- **`TocTreeprocessor`** -/
theorem tocRun_NI {keyOk : Str → Bool} (hk : KeyQ qt keyOk) (hid : keyOk idKey = true) (ht : TocQ qt) (env : Env)
    (bl : List Str) {root t : Node} (h : TocTree.run env bl root = .ok t) (hr : NI qt root) : NI qt t := by
  unfold TocTree.run at h
  split at h
  · cases h
  · split at h
    · cases h
    · cases h
    · cases h
    · rename_i root' st hw
      simp only [R.ok.injEq] at h; subst h
      exact replNode_NI (buildDiv_NI ht bl _) root' (walkNode_NI hk hid env root _ (root', st) hw hr)

end TocS


end MdVerif.VocabX
