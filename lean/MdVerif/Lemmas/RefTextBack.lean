/-
Helper lemmas for `Props/C15Text.lean`, part 9: the paragraph of the line (`pMid`) through `PrettifyTreeprocessor`,
`UnescapeTreeprocessor` and the serializer (xhtml).  Core Lean only.
-/
import MdVerif.Lemmas.RefTextRun

namespace MdVerif.RefText
open Py Inline Escape CodeLaw DocParse DocParse2

/-! ### lists of children -/

theorem prettifyKids_append (bl : List Str) (a b : List Node) :
    TreeProc.prettifyKids bl (a ++ b) = TreeProc.prettifyKids bl a ++ TreeProc.prettifyKids bl b := by
  induction a with
  | nil => rfl
  | cons x r ih => simp only [List.cons_append, TreeProc.prettifyKids, ih]

theorem mapKids_append (f : Node → Node) (a b : List Node) :
    TreeProc.mapKids f (a ++ b) = TreeProc.mapKids f a ++ TreeProc.mapKids f b := by
  induction a with
  | nil => rfl
  | cons x r ih => simp only [List.cons_append, TreeProc.mapKids, ih]

theorem unescapeKids_append (a b a' b' : List Node) (ha : TreeProc.unescapeKids a = some a')
    (hb : TreeProc.unescapeKids b = some b') : TreeProc.unescapeKids (a ++ b) = some (a' ++ b') := by
  induction a generalizing a' with
  | nil => simp only [TreeProc.unescapeKids, Option.some.injEq] at ha; subst ha; simpa using hb
  | cons x r ih =>
    simp only [TreeProc.unescapeKids] at ha
    cases hx : TreeProc.unescapeTree x with
    | none => simp [hx] at ha
    | some x' =>
      cases hr : TreeProc.unescapeKids r with
      | none => simp [hx, hr] at ha
      | some r' =>
        simp only [hx, hr, Option.some.injEq] at ha
        subst ha
        simp only [List.cons_append, TreeProc.unescapeKids, hx, ih r' hr]

theorem serializeList_append (fmt : Ser.Fmt) (a b : List Node) :
    Ser.serializeList fmt (a ++ b) = Ser.serializeList fmt a ++ Ser.serializeList fmt b := by
  induction a with
  | nil => simp [Ser.serializeList]
  | cons x r ih => simp only [List.cons_append, serializeList_cons, ih, List.append_assoc]

/-! ### prettify -/

/-- the `<a>` element of a use with the text after the use as tail -/
def aKid (esc : List Char) (u : RUse) : Node :=
  { aNode esc u.url u.title u.T with tail := optStr (coded esc u.C.t0) }

theorem usKids_cons (esc : List Char) (u : RUse) (r : List RUse) :
    usKids esc (u :: r) = aKid esc u :: (u.C.segs.map (tailedM esc) ++ usKids esc r) := rfl

theorem bl_a : TreeProc.isBlockLevel TreeProc.defaultBlockLevel (.name "a".toList) = false := by decide

theorem prettifyKids_usKids (esc : List Char) (us : List RUse) :
    TreeProc.prettifyKids TreeProc.defaultBlockLevel (usKids esc us) = usKids esc us := by
  induction us with
  | nil => rfl
  | cons u r ih =>
    have : TreeProc.isBlockLevel TreeProc.defaultBlockLevel (aKid esc u).tag = false := bl_a
    rw [usKids_cons]
    simp only [TreeProc.prettifyKids, this, Bool.false_eq_true, if_false, prettifyKids_append, prettifyKids_tailedM, ih]

theorem mapTree_aKid (esc : List Char) (u : RUse) :
    TreeProc.mapTree TreeProc.preRule (TreeProc.mapTree TreeProc.brRule (aKid esc u)) = aKid esc u := by
  have hbr : (Tag.name "a".toList == Tag.name "br".toList) = false := by decide
  have hpre : (Tag.name "a".toList == Tag.name "pre".toList) = false := by decide
  simp only [aKid, aNode, TreeProc.mapTree, TreeProc.brRule, TreeProc.preRule, TreeProc.tagIs, hbr, hpre,
    Bool.false_eq_true, if_false, mapKids_tailedM]

theorem mapKids_usKids (esc : List Char) (us : List RUse) :
    TreeProc.mapKids TreeProc.preRule (TreeProc.mapKids TreeProc.brRule (usKids esc us)) = usKids esc us := by
  induction us with
  | nil => rfl
  | cons u r ih =>
    rw [usKids_cons]
    simp only [TreeProc.mapKids, mapKids_append, mapTree_aKid, mapKids_tailedM, ih]

/-- the paragraph after prettify -/
def pPretty (esc : List Char) (C0 : Chunk) (us : List RUse) : Node :=
  { tag := .name "p".toList, text := optStr (coded esc C0.t0),
    children := C0.segs.map (tailedM esc) ++ usKids esc us, tail := some ['\n'] }

theorem pretty_pMid (esc : List Char) (C0 : Chunk) (us : List RUse) :
    TreeProc.mapTree TreeProc.preRule (TreeProc.mapTree TreeProc.brRule
      (TreeProc.prettifyETree TreeProc.defaultBlockLevel (pMid esc C0 us))) = pPretty esc C0 us := by
  have hp : TreeProc.isBlockLevel TreeProc.defaultBlockLevel (.name "p".toList) = true := by decide
  have hbr : (Tag.name "p".toList == Tag.name "br".toList) = false := by decide
  have hpre : (Tag.name "p".toList == Tag.name "pre".toList) = false := by decide
  have hcode : (Tag.name "p".toList == Tag.name "code".toList) = false := by decide
  have hkids : TreeProc.prettifyKids TreeProc.defaultBlockLevel (C0.segs.map (tailedM esc) ++ usKids esc us) =
      C0.segs.map (tailedM esc) ++ usKids esc us := by
    rw [prettifyKids_append, prettifyKids_tailedM, prettifyKids_usKids]
  have hfirst : ∀ c r, C0.segs.map (tailedM esc) ++ usKids esc us = c :: r →
      TreeProc.isBlockLevel TreeProc.defaultBlockLevel c.tag = false := by
    intro c r h
    cases hs : C0.segs with
    | nil =>
      cases us with
      | nil => simp [hs, usKids] at h
      | cons u r' =>
        simp only [hs, List.map_nil, List.nil_append, usKids_cons, List.cons.injEq] at h
        rw [← h.1]; exact bl_a
    | cons s r' =>
      simp only [hs, List.map_cons, List.cons_append, List.cons.injEq] at h
      rw [← h.1]; exact bl_tailedM esc s
  have h1 : TreeProc.prettifyETree TreeProc.defaultBlockLevel (pMid esc C0 us) = pPretty esc C0 us := by
    simp only [pMid, pPretty]
    generalize hK : C0.segs.map (tailedM esc) ++ usKids esc us = K at hkids hfirst
    cases K with
    | nil => simp [TreeProc.prettifyETree, TreeProc.prettifyKids, TreeProc.blankOrNone, Node.truthy]
    | cons c r =>
      have hb := hfirst c r rfl
      simp only [TreeProc.prettifyETree, hp, hcode, hpre, Bool.not_false, Bool.and_self, if_true, hkids, hb,
        Bool.and_false, Bool.false_eq_true, if_false, TreeProc.blankOrNone, Node.truthy, Bool.true_or]
  rw [h1]
  simp only [pPretty, TreeProc.mapTree, TreeProc.brRule, TreeProc.preRule, TreeProc.tagIs, hbr, hpre,
    Bool.false_eq_true, if_false, mapKids_append, mapKids_tailedM, mapKids_usKids]

/-! ### unescape -/

/-- the `<a>` element of a use after unescape -/
def aFin (u : RUse) : Node :=
  { tag := .name "a".toList,
    attrs := ("href".toList, u.url) :: (if Node.truthy u.title then [("title".toList, u.title.getD [])] else []),
    text := optStr u.T.t0, children := u.T.segs.map tailedFinM, tail := optStr u.C.t0 }

def usKidsFin : List RUse → List Node
  | [] => []
  | u :: r => aFin u :: (u.C.segs.map tailedFinM ++ usKidsFin r)

theorem usKidsFin_nil : usKidsFin [] = [] := rfl
theorem usKidsFin_cons (u : RUse) (r : List RUse) :
    usKidsFin (u :: r) = aFin u :: (u.C.segs.map tailedFinM ++ usKidsFin r) := rfl

/-- destination and title without STX -/
def UseAttrOK (u : RUse) : Prop := Inline.STX ∉ u.url ∧ ∀ t, u.title = some t → Inline.STX ∉ t

theorem unescapeTree_aKid {cfg : Inline.Cfg} (u : RUse) (hu : UseOK cfg u) (ha : UseAttrOK u) :
    TreeProc.unescapeTree (aKid cfg.esc u) = some (aFin u) := by
  have hcode : (Tag.name "a".toList == Tag.name "code".toList) = false := by decide
  have h1 := unescOpt_coded cfg.esc u.T.t0 (chunkOK_pp hu.text).1
  have h2 := unescOpt_coded cfg.esc u.C.t0 (chunkOK_pp hu.after).1
  have hk := unescapeKids_tailedM cfg.esc u.T.segs
    (fun s hs => ⟨((chunkOK_pp hu.text).2 s hs).1, fine_of_ok s.k (hu.text.ok s hs) (hu.text.clean s hs)⟩)
  have hattr : TreeProc.unescAttrs (("href".toList, u.url) ::
      (if Node.truthy u.title then [("title".toList, u.title.getD [])] else [])) =
      some (("href".toList, u.url) :: (if Node.truthy u.title then [("title".toList, u.title.getD [])] else [])) := by
    apply InlineRef.unescAttrs_id
    intro kv hkv
    simp only [List.mem_cons] at hkv
    rcases hkv with rfl | hkv
    · exact ha.1
    · split at hkv
      · simp only [List.mem_cons, List.not_mem_nil, or_false] at hkv
        subst hkv
        cases ht : u.title with
        | none => simp [ht, Node.truthy] at *
        | some t =>
          show TreeProc.STX ∉ (some t).getD []
          exact ha.2 t ht
      · cases hkv
  simp only [aKid, aNode, aFin, TreeProc.unescapeTree, hcode, Bool.not_false, Bool.and_true, h1, h2, hk, hattr]
  by_cases ht1 : Node.truthy (optStr (coded cfg.esc u.T.t0)) = true <;>
    by_cases ht2 : Node.truthy (optStr (coded cfg.esc u.C.t0)) = true <;> simp [ht1, ht2]

theorem unescapeKids_usKids {cfg : Inline.Cfg} (us : List RUse) (hus : ∀ u ∈ us, UseOK cfg u)
    (ha : ∀ u ∈ us, UseAttrOK u) : TreeProc.unescapeKids (usKids cfg.esc us) = some (usKidsFin us) := by
  induction us with
  | nil => rfl
  | cons u r ih =>
    have hu := hus u List.mem_cons_self
    have hkC := unescapeKids_tailedM cfg.esc u.C.segs
      (fun s hs => ⟨((chunkOK_pp hu.after).2 s hs).1, fine_of_ok s.k (hu.after.ok s hs) (hu.after.clean s hs)⟩)
    have hr := ih (fun x hx => hus x (List.mem_cons_of_mem _ hx)) (fun x hx => ha x (List.mem_cons_of_mem _ hx))
    rw [usKids_cons]
    simp only [TreeProc.unescapeKids, unescapeTree_aKid u hu (ha u List.mem_cons_self),
      unescapeKids_append _ _ _ _ hkC hr, usKidsFin_cons]

/-- the paragraph after unescape -/
def pFin (C0 : Chunk) (us : List RUse) : Node :=
  { tag := .name "p".toList, text := optStr C0.t0, children := C0.segs.map tailedFinM ++ usKidsFin us,
    tail := some ['\n'] }

theorem unesc_pPretty {cfg : Inline.Cfg} (C0 : Chunk) (us : List RUse) (h0 : ChunkOK cfg.esc C0)
    (hus : ∀ u ∈ us, UseOK cfg u) (ha : ∀ u ∈ us, UseAttrOK u) :
    TreeProc.unescapeTree (pPretty cfg.esc C0 us) = some (pFin C0 us) := by
  have hcode : (Tag.name "p".toList == Tag.name "code".toList) = false := by decide
  have hnl : TreeProc.unescapeText 0 ['\n'] = some ['\n'] := by decide
  have h := unescOpt_coded cfg.esc C0.t0 (chunkOK_pp h0).1
  have hk0 := unescapeKids_tailedM cfg.esc C0.segs
    (fun s hs => ⟨((chunkOK_pp h0).2 s hs).1, fine_of_ok s.k (h0.ok s hs) (h0.clean s hs)⟩)
  have hk := unescapeKids_append _ _ _ _ hk0 (unescapeKids_usKids us hus ha)
  have t1 : Node.truthy (some ['\n']) = true := rfl
  simp only [pPretty, pFin, TreeProc.unescapeTree, hcode, Bool.not_false, Bool.and_true, h, hk, TreeProc.unescAttrs, t1,
    if_true, Option.getD_some, hnl, Option.map_some]
  by_cases ht : Node.truthy (optStr (coded cfg.esc C0.t0)) = true <;> simp [ht]

/-! ### the serializer -/

/-- the rendering of a chunk: the escaped text, then each item as an element followed by its escaped text -/
def Chunk.out (c : Chunk) : Str := Ser.escCdata c.t0 ++ outM c.segs

/-- `<a href="…" title="…">` -/
def aOpen (url : Str) (title : Option Str) : Str :=
  "<a href=\"".toList ++ Ser.escAttrHtml url ++ ['"'] ++ InlineRef.titleAttr title ++ ['>']

def aClose : Str := "</a>".toList

theorem lit_aOpen : "<a href=\"".toList = '<' :: "a".toList ++ " href=\"".toList := by decide

theorem aOpen_eq (url : Str) (title : Option Str) :
    '<' :: "a".toList ++ (" href=\"".toList ++ Ser.escAttrHtml url ++ ['"'] ++ InlineRef.titleAttr title) ++ ['>'] =
      aOpen url title := by
  unfold aOpen
  rw [lit_aOpen]
  simp only [List.append_assoc, List.cons_append]

theorem aClose_eq : "</".toList ++ "a".toList ++ ['>'] = aClose := by decide

def useOut (u : RUse) : Str := aOpen u.url u.title ++ (u.T.out ++ (aClose ++ u.C.out))

def usOut : List RUse → Str
  | [] => []
  | u :: r => useOut u ++ usOut r

theorem usOut_cons (u : RUse) (r : List RUse) : usOut (u :: r) = useOut u ++ usOut r := rfl
theorem usOut_nil : usOut [] = [] := rfl

theorem optEsc_optStr (t : Str) :
    (if Node.truthy (optStr t) = true then Ser.escCdata ((optStr t).getD []) else []) = Ser.escCdata t := by
  cases t with
  | nil => rfl
  | cons c r => simp [optStr, Node.truthy]

theorem serialize_aFin {cfg : Inline.Cfg} (u : RUse) (hu : UseOK cfg u) :
    Ser.serialize .xhtml (aFin u) = aOpen u.url u.title ++ (u.T.out ++ (aClose ++ Ser.escCdata u.C.t0)) := by
  have h2a : Ser.isEmptyTag "a".toList = false := by decide
  have h4a : Ser.isRawTextTag "a".toList = false := by decide
  have hkids := serializeList_tailedM u.T.segs
    (fun s hs => fine_of_ok s.k (hu.text.ok s hs) (hu.text.clean s hs))
  unfold aFin
  rw [InlineRef.serialize_name, InlineRef.element_xhtml _ _ _ _ h2a h4a, InlineRef.sortAttrs_link,
    InlineRef.writeAttrs_link, hkids, optEsc_optStr, optEsc_optStr, aOpen_eq, aClose_eq]
  simp only [Chunk.out, List.append_assoc]

theorem serializeList_usKidsFin {cfg : Inline.Cfg} : ∀ (us : List RUse), (∀ u ∈ us, UseOK cfg u) →
    Ser.serializeList .xhtml (usKidsFin us) = usOut us
  | [], _ => by rw [usKidsFin_nil, InlineRef.serializeList_nil, usOut_nil]
  | u :: r, hus => by
    have hu := hus u List.mem_cons_self
    have hkC := serializeList_tailedM u.C.segs
      (fun s hs => fine_of_ok s.k (hu.after.ok s hs) (hu.after.clean s hs))
    have hr := serializeList_usKidsFin r (fun x hx => hus x (List.mem_cons_of_mem _ hx))
    rw [usKidsFin_cons, serializeList_cons, serializeList_append, serialize_aFin u hu, hkC, hr, usOut_cons]
    simp only [useOut, Chunk.out, List.append_assoc]

theorem ser_pFin {cfg : Inline.Cfg} (C0 : Chunk) (us : List RUse) (h0 : ChunkOK cfg.esc C0)
    (hus : ∀ u ∈ us, UseOK cfg u) :
    Ser.serialize .xhtml (pFin C0 us) = ("<p>".toList ++ (C0.out ++ usOut us) ++ "</p>".toList) ++ ['\n'] := by
  have h2 : Ser.isEmptyTag "p".toList = false := by decide
  have h4 : Ser.isRawTextTag "p".toList = false := by decide
  have e7 : Ser.escCdata ['\n'] = ['\n'] := by decide
  have t1 : Node.truthy (some ['\n']) = true := rfl
  have hk0 := serializeList_tailedM C0.segs (fun s hs => fine_of_ok s.k (h0.ok s hs) (h0.clean s hs))
  simp only [pFin]
  rw [serialize_plain _ _ _ _ _ _ _ h2 h4, serializeList_append, hk0, serializeList_usKidsFin us hus, optEsc_optStr]
  simp [t1, e7, Chunk.out, List.append_assoc]

end MdVerif.RefText
