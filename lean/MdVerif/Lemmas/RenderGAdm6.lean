/-
Helper lemmas for `Props/C16RenderG.lean`, part 37: ordinary paragraphs, then an admonition with several body
paragraphs, then ordinary paragraphs — the tree stages, the serializer, `convertX` end to end.

Core Lean only.
-/
import MdVerif.Lemmas.RenderGAdm5

namespace MdVerif.RenderG
open Py Block BlockExt MdVerif.RenderX

def admRootFinB (pretexts : List Str) (kl : Str) (ttl : Option Str) (texts qtexts : List Str) : Node :=
  ⟨.name "div".toList, [], some ['\n'], false, pretexts.map pFin ++ admFinG kl ttl texts :: qtexts.map pFin,
    some ['\n'], false⟩

theorem prettify_admB (pretexts : List Str) (kl : Str) (ttl : Option Str) (t : Str) (r qtexts : List Str) :
    TreeProc.prettify (rootOf (pretexts.map (mkText "p") ++ admDivG kl ttl (t :: r) :: qtexts.map (mkText "p"))) =
      admRootFinB pretexts kl ttl (t :: r) qtexts := by
  have hD := prettify_set (.name "div".toList) [(strClass, strAdmonition ++ ' ' :: kl)] false
    (titleKids ttl ++ (t :: r).map (mkText "p")) false bl_divS tn_div.1 tn_div.2 (firstBlock_adm ttl t r)
  rw [prettifyKids_append, prettifyKids_title, prettifyKids_ps] at hD
  have hbD : TreeProc.isBlockLevel TreeProc.defaultBlockLevel (admDivG kl ttl (t :: r)).tag = true := bl_divS
  have hk : TreeProc.prettifyKids TreeProc.defaultBlockLevel
      (pretexts.map (mkText "p") ++ admDivG kl ttl (t :: r) :: qtexts.map (mkText "p")) =
      pretexts.map pFin ++ admFinG kl ttl (t :: r) :: qtexts.map pFin := by
    rw [prettifyKids_append, prettifyKids_ps]
    simp only [TreeProc.prettifyKids, hbD, if_true, prettifyKids_ps]
    rw [admDivG_eq, hD]
    rfl
  have hR := prettify_set (.name "div".toList) [] false
    (pretexts.map (mkText "p") ++ admDivG kl ttl (t :: r) :: qtexts.map (mkText "p")) false
    bl_divS tn_div.1 tn_div.2 (by
      cases pretexts with
      | nil =>
        simp only [firstBlock, List.map_nil, List.nil_append, List.head?_cons, Option.map_some, Option.getD_some]
        exact bl_divS
      | cons a b =>
        simp only [firstBlock, List.map_cons, List.cons_append, List.head?_cons, Option.map_some, Option.getD_some]
        exact bl_pS)
  rw [hk] at hR
  have hE : TreeProc.prettifyETree TreeProc.defaultBlockLevel
      (rootOf (pretexts.map (mkText "p") ++ admDivG kl ttl (t :: r) :: qtexts.map (mkText "p"))) =
      admRootFinB pretexts kl ttl (t :: r) qtexts := hR
  have hnb : noBP (admRootFinB pretexts kl ttl (t :: r) qtexts) = true := by
    have h1 : noBP (admFinG kl ttl (t :: r)) = true := by
      simp only [admFinG, noBP, noBPKids_append _ _ (noBP_title ttl) (noBP_ps (t :: r)), Bool.and_true]; decide
    have h2 : noBPKids (admFinG kl ttl (t :: r) :: qtexts.map pFin) = true := by
      simp only [noBPKids, h1, noBP_ps, Bool.and_true]
    simp only [admRootFinB, noBP, noBPKids_append _ _ (noBP_ps pretexts) h2, Bool.and_true]; decide
  have h1 := mapTree_noBP TreeProc.brRule brRule_fix _ hnb
  have h2 := mapTree_noBP TreeProc.preRule preRule_fix _ hnb
  unfold TreeProc.prettify
  rw [hE, h1, h2]

theorem unescapeTree_admB (pretexts : List Str) (kl : Str) (ttl : Option Str) (texts qtexts : List Str)
    (hp : ∀ t ∈ pretexts, TreeProc.STX ∉ t) (hk : TreeProc.STX ∉ kl)
    (ht : TreeProc.STX ∉ ttl.getD []) (hb : ∀ t ∈ texts, TreeProc.STX ∉ t) (hq : ∀ t ∈ qtexts, TreeProc.STX ∉ t) :
    TreeProc.unescapeTree (admRootFinB pretexts kl ttl texts qtexts) = some (admRootFinB pretexts kl ttl texts qtexts) := by
  have t3 : TreeProc.unescapeText 0 ['\n'] = some ['\n'] := by decide
  have hcls : TreeProc.STX ∉ strAdmonition ++ ' ' :: kl := by
    intro hm
    rcases List.mem_append.1 hm with h | h
    · exact stx_strAdm h
    · rcases List.mem_cons.1 h with h | h
      · exact absurd h (by decide)
      · exact hk h
  have hD : TreeProc.unescapeTree (admFinG kl ttl texts) = some (admFinG kl ttl texts) :=
    unescape_el _ _ _ _ _ (unescAttrs_id _ (by intro kv hkv; simp at hkv; subst hkv; exact hcls))
      (unescapeKids_append _ _ (unescapeKids_title ttl ht) (unescapeKids_ps texts hb))
      (fun s hs => by cases hs; exact t3) (fun s hs => by cases hs; exact t3)
  have h2 : TreeProc.unescapeKids (admFinG kl ttl texts :: qtexts.map pFin) = some (admFinG kl ttl texts :: qtexts.map pFin) := by
    simp only [TreeProc.unescapeKids, hD, unescapeKids_ps qtexts hq]
  exact unescape_el _ _ _ _ _ rfl (unescapeKids_append _ _ (unescapeKids_ps pretexts hp) h2)
    (fun s hs => by cases hs; exact t3) (fun s hs => by cases hs; exact t3)

/-- the rendering: the paragraphs before, the admonition, the paragraphs after -/
def admOutB (pretexts : List Str) (kl : Str) (ttl : Option Str) (texts qtexts : List Str) : Str :=
  psHtml pretexts ++ admOutG kl ttl texts qtexts

theorem serialize_admB (fmt : Ser.Fmt) (pretexts : List Str) (kl : Str) (ttl : Option Str) (texts qtexts : List Str)
    (hp : ∀ t ∈ pretexts, Ser.escCdata t = t)
    (hk : ∀ c ∈ kl, c ≠ '&' ∧ c ≠ '<' ∧ c ≠ '>' ∧ c ≠ '"') (ht : Ser.escCdata (ttl.getD []) = ttl.getD [])
    (hb : ∀ t ∈ texts, Ser.escCdata t = t) (hq : ∀ t ∈ qtexts, Ser.escCdata t = t) :
    Ser.serialize fmt (admRootFinB pretexts kl ttl texts qtexts) =
      "<div>".toList ++ ('\n' :: admOutB pretexts kl ttl texts qtexts ++ ['\n']) ++ "</div>\n".toList := by
  have hesc : Ser.escAttrHtml (strAdmonition ++ ' ' :: kl) = strAdmonition ++ ' ' :: kl := by
    apply escAttrHtml_plain
    intro c hc
    rcases List.mem_append.1 hc with h | h
    · have : ∀ x ∈ strAdmonition, x ≠ '&' ∧ x ≠ '<' ∧ x ≠ '>' ∧ x ≠ '"' := by decide +kernel
      exact this c h
    · rcases List.mem_cons.1 h with rfl | h
      · decide
      · exact hk c h
  have hne : strClass ≠ Ser.escAttrHtml (strAdmonition ++ ' ' :: kl) := by
    rw [hesc]
    have h1 : strClass = 'c' :: "lass".toList := by decide +kernel
    have h2 : strAdmonition = 'a' :: "dmonition".toList := by decide +kernel
    rw [h1, h2]
    intro e
    simp only [List.cons_append, List.cons.injEq] at e
    exact absurd e.1 (by decide)
  have hD : Ser.serialize fmt (admFinG kl ttl texts) = admHtml kl ttl texts ++ ['\n'] := by
    unfold admFinG
    rw [serialize_attr1 fmt "div".toList strClass _ _ _ _ _ _ et_div.1 et_div.2 hne, hesc, ifText_some _ ec_nl,
      serializeList_append, serializeList_title fmt ttl ht, serializeList_ps fmt texts hb]
    unfold admHtml lV1 lV2 lV3 strClass strAdmonition
    generalize titleHtml ttl = TT
    generalize psHtml texts = PP
    simp only [String.reduceToList]
    simp only [List.cons_append, List.append_assoc, List.nil_append, List.append_nil]
  unfold admRootFinB
  rw [CodeLaw.serialize_plain fmt _ _ _ _ _ _ et_div.1 et_div.2, ifText_some _ ec_nl]
  simp only [serializeList_append, Ser.serializeList, hD, serializeList_ps fmt qtexts hq, serializeList_ps fmt pretexts hp]
  unfold admOutB admOutG
  have hs := psHtml_shift qtexts
  generalize admHtml kl ttl texts = A at *
  generalize psHtml qtexts = P at *
  generalize psHtmlAfter qtexts = Q at *
  generalize psHtml pretexts = R at *
  simp only [String.reduceToList]
  simp only [List.cons_append, List.append_assoc, List.nil_append, List.append_nil, List.singleton_append]
  simp only [List.cons.injEq, true_and, List.append_cancel_left_eq]
  rw [show '\n' :: (P ++ ['<', '/', 'd', 'i', 'v', '>', '\n']) = ('\n' :: P) ++ ['<', '/', 'd', 'i', 'v', '>', '\n'] from rfl, hs]
  simp only [List.append_assoc, List.cons_append, List.nil_append]

theorem admOutB_ends (pretexts : List Str) (kl : Str) (ttl : Option Str) (texts qtexts : List Str) :
    (admOutB pretexts kl ttl texts qtexts).head? = some '<' ∧ (admOutB pretexts kl ttl texts qtexts).getLast? = some '>' := by
  obtain ⟨e1, e2⟩ := admOutG_ends kl ttl texts qtexts
  have h1 : ∃ r, lP1 = '<' :: r := ⟨"p>".toList, by decide +kernel⟩
  obtain ⟨r1, e3⟩ := h1
  unfold admOutB
  constructor
  · cases pretexts with
    | nil => simpa [psHtml] using e1
    | cons a b => simp [psHtml, e3]
  · rw [List.getLast?_append, e2]; rfl

theorem noFnDiv_admDocB (pre : List Para) (kl : Str) (ttl : Option Str) (texts : List Str) (qs : List Para) :
    noFnDiv (rootOf (pNodes pre ++ admDivG kl ttl texts :: pNodes qs)) = true := by
  have h0 := noFnDiv_admDoc kl ttl texts qs
  have h3 : noFnDivKids (pNodes pre) = true := by
    have := noFnKids_txt "p" (pre.map pText)
    simpa [pNodes, Function.comp_def] using this
  simp only [rootOf, Node.el, noFnDiv] at h0 ⊢
  rw [noFnKids_append, h3]
  simpa using h0

theorem mem_joinChunks_of_mem {c : Char} : ∀ (bs : List Str) (L : Str), L ∈ bs → c ∈ L → c ∈ DocParse.joinChunks bs := by
  intro bs
  induction bs with
  | nil => intro L h; cases h
  | cons b r ih =>
    intro L hL hc
    cases r with
    | nil =>
      simp only [List.mem_singleton] at hL
      subst hL
      simpa [DocParse.joinChunks] using hc
    | cons y ys =>
      rcases List.mem_cons.1 hL with rfl | hL
      · simp [DocParse.joinChunks, hc]
      · have := ih L hL hc
        show c ∈ b ++ ['\n', '\n'] ++ DocParse.joinChunks (y :: ys)
        exact List.mem_append_right _ this

/-- the blocks as lists of lines -/
def admBBlockLines (tab : Nat) (pre : List Para) (kl : Str) (title : Option Str) (b : Para) (bs qs : List Para) :
    List (List Str) := pre.map pLines ++ admBlockLines tab kl title b bs qs

theorem admSrcB_blocks (tab : Nat) (pre : List Para) (kl : Str) (title : Option Str) (b : Para) (bs qs : List Para) :
    pre.map pText ++ admSrc tab kl title (pLines b) :: (bs.map (bodyBlock tab) ++ qs.map pText) =
      (admBBlockLines tab pre kl title b bs qs).map joinLines := by
  unfold admBBlockLines
  rw [List.map_append, ← admSrcG_blocks, List.map_map]
  rfl

theorem convertX_admB (x : PipelineX.Exts) (hadm : x.admonition = true) (hnl : x.nl2br = false)
    (hf : x.fencedCode = false) (htb : x.tables = false) (hal : x.attrList = false) (htoc : x.toc = false)
    (cfg : Pipeline.Cfg) (hbl : cfg.blockLevel = TreeProc.defaultBlockLevel) (htab : 0 < cfg.tab)
    (pre : List Para) (kl : Str) (title ttl : Option Str) (b : Para) (bs qs : List Para) (hpre : ∀ p ∈ pre, ParaOK p)
    (hk : PlainFacts kl)
    (ht : ∀ t, title = some t → ∀ c ∈ t, DocSpec.isAlnumSp c = true)
    (httl : ∀ c ∈ ttl.getD [], DocSpec.isAlnumSp c = true)
    (hb : ParaOK b) (hbs : ∀ p ∈ bs, ParaOK p) (hqs : ∀ p ∈ qs, ParaOK p)
    (hcl : admClassTitle kl title = (kl, ttl)) :
    PipelineX.convertX x cfg (admSrcB cfg.tab pre kl title b bs qs) =
      .ok (admOutB (pre.map pText) kl ttl (pText b :: bs.map pText) (qs.map pText)) := by
  have ht' : ∀ t, title = some t → ∀ c ∈ t, c ≠ '\n' ∧ c ≠ '"' := by
    intro t h c hc
    have f := alnumSp_quiet (ht t h c hc)
    exact ⟨f.2.1, f.2.2.2.2.2.2.1⟩
  -- the front
  have hblocks : ∀ bl ∈ admBBlockLines cfg.tab pre kl title b bs qs, bl ≠ [] := by
    intro bl hbl'
    rcases List.mem_append.1 hbl' with hbl' | hbl'
    · obtain ⟨p, _, rfl⟩ := List.mem_map.1 hbl'
      simp [pLines]
    · simp only [admBlockLines, List.mem_cons, List.mem_append, List.mem_map] at hbl'
      rcases hbl' with rfl | ⟨p, _, rfl⟩ | ⟨p, _, rfl⟩ <;> simp [CodeLaw.indentLines, pLines]
  have hne : admBBlockLines cfg.tab pre kl title b bs qs ≠ [] := by simp [admBBlockLines, admBlockLines]
  obtain ⟨b0, br, hbb⟩ : ∃ b0 br, admBBlockLines cfg.tab pre kl title b bs qs = b0 :: br := by
    cases h : admBBlockLines cfg.tab pre kl title b bs qs with
    | nil => exact absurd h hne
    | cons a b => exact ⟨a, b, rfl⟩
  have hsrc : admSrcB cfg.tab pre kl title b bs qs =
      joinLines (chunkLines (admBBlockLines cfg.tab pre kl title b bs qs)) := by
    rw [← joinChunks_joinLines _ hblocks, ← admSrcB_blocks]; rfl
  obtain ⟨s1, s2, s3, s4, s5⟩ := front_lines cfg.tab (chunkLines (admBBlockLines cfg.tab pre kl title b bs qs))
    (by rw [hbb]; exact chunkLines_ne _ _ (hblocks b0 (by rw [hbb]; simp)))
    (by
      intro l hl
      rcases mem_chunkLines _ l hl with rfl | ⟨bl, hbl', hlb⟩
      · exact safeLine_nil
      · rcases List.mem_append.1 hbl' with hbl' | hbl'
        · obtain ⟨p, hp, rfl⟩ := List.mem_map.1 hbl'
          exact (hpre p hp l hlb).safeLine
        · simp only [admBlockLines, List.mem_cons, List.mem_append, List.mem_map] at hbl'
          rcases hbl' with rfl | ⟨p, hp, rfl⟩ | ⟨p, hp, rfl⟩
          · rcases List.mem_cons.1 hlb with rfl | hlb
            · exact safeLine_header kl title hk ht
            · obtain ⟨y, hy, rfl⟩ := List.mem_map.1 hlb
              exact safeLine_indent cfg.tab y (hb y hy)
          · obtain ⟨y, hy, rfl⟩ := List.mem_map.1 hlb
            exact safeLine_indent cfg.tab y (hbs p hp y hy)
          · exact (hqs p hp l hlb).safeLine)
    ⟨'!', by
      rw [← hsrc]
      apply mem_joinChunks_of_mem _ (admSrc cfg.tab kl title (pLines b)) (by simp)
      rw [show admSrc cfg.tab kl title (pLines b) = admSrc cfg.tab kl title (b.1 :: b.2) from rfl, admSrc_eq]
      simp [admHeader], by decide⟩
  rw [← hsrc] at s1 s2 s3 s4 s5
  -- the block stage
  have hblk := parseDocumentXT_admB x.blockCfg (by simpa [PipelineX.Exts.blockCfg] using hadm) cfg.tab htab pre kl
    title ttl b bs qs hpre hk ht' hb hbs hqs hcl
  -- the inline stage
  have hps : ∀ p ∈ b :: bs, ParaOK p := by
    intro p hp
    rcases List.mem_cons.1 hp with rfl | hp
    · exact hb
    · exact hbs p hp
  have hquiet0 := quietKids_admDoc kl ttl (b :: bs) qs httl hps hqs
  rw [show (b :: bs).map pText = pText b :: bs.map pText from rfl] at hquiet0
  have hquiet : quietKids false
      (rootOf (pNodes pre ++ admDivG kl ttl (pText b :: bs.map pText) :: pNodes qs)).children = true :=
    quietKids_append _ _ (quietKids_ps pre hpre) hquiet0
  have hrun := fun (ic : Inline.Cfg) (keys : List Str) =>
    runX_quiet { cfg := ic, table := InlineX.table x.footnotes x.wikilinks false, fnKeys := keys } false
      (fun hm => nl_mem_table _ _ false hm) (Nat.le_trans (by decide) (table_length _ _ false)) _ [] hquiet
  -- the tree stages
  have hpre' := prettify_admB (pre.map pText) kl ttl (pText b) (bs.map pText) (qs.map pText)
  rw [show (qs.map pText).map (mkText "p") = pNodes qs by simp [pNodes],
    show (pre.map pText).map (mkText "p") = pNodes pre by simp [pNodes]] at hpre'
  have hkstx : TreeProc.STX ∉ kl := fun hm => (alnumSp_quiet (hk.chars _ hm)).2.2.1 rfl
  have htstx : TreeProc.STX ∉ ttl.getD [] := fun hm => (alnumSp_quiet (httl _ hm)).2.2.1 rfl
  have hbtexts : ∀ t ∈ pText b :: bs.map pText, TreeProc.STX ∉ t ∧ Ser.escCdata t = t ∧ Post.STX ∉ t := by
    intro t htm
    rcases List.mem_cons.1 htm with rfl | htm
    · exact pText_facts b hb
    · obtain ⟨p, hp, rfl⟩ := List.mem_map.1 htm
      exact pText_facts p (hbs p hp)
  have htexts : ∀ (ps : List Para), (∀ p ∈ ps, ParaOK p) →
      ∀ t ∈ ps.map pText, TreeProc.STX ∉ t ∧ Ser.escCdata t = t ∧ Post.STX ∉ t := by
    intro ps hps t htm
    obtain ⟨p, hp, rfl⟩ := List.mem_map.1 htm
    exact pText_facts p (hps p hp)
  have hqtexts := htexts qs hqs
  have hptexts := htexts pre hpre
  have hun := unescapeTree_admB (pre.map pText) kl ttl (pText b :: bs.map pText) (qs.map pText)
    (fun t h => (hptexts t h).1) hkstx htstx (fun t h => (hbtexts t h).1) (fun t h => (hqtexts t h).1)
  have hser := serialize_admB cfg.fmt (pre.map pText) kl ttl (pText b :: bs.map pText) (qs.map pText)
    (fun t h => (hptexts t h).2.1)
    (fun c hc => let f := alnumSp_quiet (hk.chars c hc); ⟨f.2.2.2.1, f.2.2.2.2.1, f.2.2.2.2.2.1, f.2.2.2.2.2.2.1⟩)
    (CodeLaw.escCdata_plain _ (fun c hc => let f := alnumSp_quiet (httl c hc); ⟨f.2.2.2.1, f.2.2.2.2.1, f.2.2.2.2.2.1⟩))
    (fun t h => (hbtexts t h).2.1) (fun t h => (hqtexts t h).2.1)
  have hJ : Post.STX ∉ admOutB (pre.map pText) kl ttl (pText b :: bs.map pText) (qs.map pText) :=
    stx_app (stx_psHtml _ (fun t h => (hptexts t h).2.2))
      (stx_admOutG kl ttl (pText b :: bs.map pText) (qs.map pText) hkstx htstx
        (fun t h => (hbtexts t h).2.2) (fun t h => (hqtexts t h).2.2))
  obtain ⟨e1, e2⟩ := admOutB_ends (pre.map pText) kl ttl (pText b :: bs.map pText) (qs.map pText)
  have hfin := finishX_wrapped' x cfg (admOutB (pre.map pText) kl ttl (pText b :: bs.map pText) (qs.map pText)) hJ
    (fun c hc => by rw [e1] at hc; cases hc; decide)
    (fun c hc => by rw [e2] at hc; cases hc; decide)
  have hfo : BlockExt.footnotesOf [] = [] := rfl
  have hab : BlockExt.abbrsOf [] = [] := rfl
  have hmk : ∀ p fc, FootnotesTree.makeDiv p fc [] [] = .ok (none, []) := fun _ _ => rfl
  have habbr : ∀ t, AbbrTree.run [] t = t := fun _ => rfl
  have hdup := fun fn => duplicates_noFn fn _ (noFnDiv_admDocB pre kl ttl (pText b :: bs.map pText) qs)
  simp only [PipelineX.convertX, s1, s2, PipelineX.Exts.unsupported, Bool.false_eq_true, if_false,
    PipelineX.treeX, PipelineX.prepareX, s3, s4, s5, Bool.and_false, hf, htb, hblk, hfo, hmk, hnl, hal, htoc]
  cases hfn : x.footnotes <;> cases hab' : x.abbr <;>
    simp only [hfn, hab', Bool.false_eq_true, if_false, if_true, List.map_nil, PipelineX.refsX, Bool.or_self,
      Bool.or_true, Bool.or_false, Bool.true_or, BlockExt.refsOf, List.filter_nil, PipelineX.escX, htb, Bool.false_and] <;>
    (rw [hfn] at hrun; rw [hrun]; simp only [hdup, hbl, hpre', hab, habbr, hun, hser]; exact hfin)

end MdVerif.RenderG
