/-
Helper lemmas for `Props/C16RenderG.lean`, part 38: footnote definitions IN THE MIDDLE of the document — paragraphs
(with references), the definitions, more paragraphs (with references).  The tree and the table after the block stage
are those of the document with all the paragraphs first, so everything after the block stage is `RenderGMP2`–`MP6`.

Core Lean only.
-/
import MdVerif.Lemmas.RenderGMP6

namespace MdVerif.RenderG
open Py Block BlockExt InlineX MdVerif.RenderX

/-- the source: paragraph lines, the definition blocks, paragraph lines; separated by empty lines -/
def fnSrcM (p0 : FPara) (pr : List FPara) (defs : List (Str × Str)) (ps2 : List FPara) : Str :=
  DocParse.joinChunks ((p0 :: pr).map fpLine ++ (defBlocks defs ++ ps2.map fpLine))

theorem detectTabbed_line (L : Str) (R : List Str) (h : ∃ a b, L = a :: b ∧ a ≠ ' ') :
    detectTabbed (L :: R) = ([], L :: R) := by
  obtain ⟨a, b, rfl, ha⟩ := h
  simp [detectTabbed, startsWith, spaces, List.replicate, ha]

theorem detectTabbed_after (defs : List (Str × Str)) (ps2 : List FPara) (hp : ∀ p ∈ ps2, FParaOK p) :
    detectTabbed (defBlocks defs ++ (ps2.map fpLine ++ [[]])) = ([], defBlocks defs ++ (ps2.map fpLine ++ [[]])) := by
  cases defs with
  | cons d r => simp [defBlocks, detectTabbed, startsWith, spaces, List.replicate, fnLine2]
  | nil =>
    cases ps2 with
    | nil => simp [defBlocks, detectTabbed, startsWith, spaces, List.replicate]
    | cons p r =>
      have hL := paraLine_fnPara p.1 p.2 (hp p List.mem_cons_self).text (hp p List.mem_cons_self).segs
      obtain ⟨a, b, hab, _, ha⟩ := hL.head
      simp only [defBlocks, List.map_nil, List.nil_append, List.map_cons, List.cons_append]
      exact detectTabbed_line _ _ ⟨a, b, hab, ha⟩

/-- the definition blocks, then whatever follows (here: paragraph lines and the final empty block) -/
theorem parseBlocksXT_defsM (cfg : BlockExt.XCfg) (hfo : cfg.footnotes = true) (tab : Nat) (htab : tab > 0) (parent : Node)
    (ps2 : List FPara) (hp : ∀ p ∈ ps2, FParaOK p) :
    ∀ (defs : List (Str × Str)) (refs : Refs) (f : Nat), DefsOK defs →
      parseBlocksXT false cfg tab (f + defs.length) [] refs parent (defBlocks defs ++ (ps2.map fpLine ++ [[]])) =
        parseBlocksXT false cfg tab f [] (refs ++ defEntries defs) parent (ps2.map fpLine ++ [[]]) := by
  intro defs
  induction defs with
  | nil => intro refs f _; simp [defBlocks, defEntries]
  | cons d r ih =>
    intro refs f hd
    have h2 := fun pb => dispatch_def cfg hfo tab htab pb refs parent d.1 d.2 (defBlocks r ++ (ps2.map fpLine ++ [[]]))
      (detectTabbed_after r ps2 hp) (hd.ids d List.mem_cons_self) (hd.notes d List.mem_cons_self)
    have e : defBlocks (d :: r) ++ (ps2.map fpLine ++ [[]]) = fnLine2 d.1 d.2 :: (defBlocks r ++ (ps2.map fpLine ++ [[]])) := rfl
    rw [e, show f + (d :: r).length = (f + r.length) + 1 by simp; omega]
    simp only [parseBlocksXT, h2]
    rw [ih _ f hd.tail]
    simp [defEntries]

theorem length_le_sum_lines : ∀ (bs : List Str), (∀ b ∈ bs, b ≠ []) → bs.length ≤ (bs.map List.length).sum := by
  intro bs
  induction bs with
  | nil => intro _; simp
  | cons b r ih =>
    intro h
    have h1 := ih (fun x hx => h x (List.mem_cons_of_mem _ hx))
    have h2 : 1 ≤ b.length := by
      cases hb : b with
      | nil => exact absurd hb (h b List.mem_cons_self)
      | cons a c => simp
    simp only [List.map_cons, List.sum_cons, List.length_cons]
    omega

theorem parseDocumentXT_fnM (cfg : BlockExt.XCfg) (hfo : cfg.footnotes = true) (tab : Nat) (htab : tab > 0) (p0 : FPara)
    (pr : List FPara) (defs : List (Str × Str)) (ps2 : List FPara) (hp : ∀ p ∈ p0 :: pr, FParaOK p) (hd : DefsOK defs)
    (hp2 : ∀ p ∈ ps2, FParaOK p) :
    parseDocumentXT false cfg tab (fnSrcM p0 pr defs ps2 ++ ['\n', '\n']) =
      some (rootOf ((p0 :: (pr ++ ps2)).map (fun p => mkText "p" (fpLine p))), defEntries defs) := by
  have hpl : ∀ (ps : List FPara), (∀ p ∈ ps, FParaOK p) → ∀ b ∈ ps.map fpLine,
      Escape.noEmptyLineFrom true b = true ∧ b ≠ [] := by
    intro ps hps b hb
    obtain ⟨p, hpm, rfl⟩ := List.mem_map.1 hb
    have hL := paraLine_fnPara p.1 p.2 (hps p hpm).text (hps p hpm).segs
    exact ⟨DocParse.nel_line _ hL.ne hL.noNl, hL.ne⟩
  have hdl : ∀ b ∈ defBlocks defs, Escape.noEmptyLineFrom true b = true ∧ b ≠ [] := by
    intro b hb
    obtain ⟨d, hdm, rfl⟩ := List.mem_map.1 hb
    exact ⟨DocParse.nel_line _ (by simp [fnLine2]) (nl_not_mem_fnLine2 d.1 d.2 (hd.ids d hdm) (hd.notes d hdm)),
      by simp [fnLine2]⟩
  have hall : ∀ b ∈ (p0 :: pr).map fpLine ++ (defBlocks defs ++ ps2.map fpLine),
      Escape.noEmptyLineFrom true b = true ∧ b ≠ [] := by
    intro b hb
    rcases List.mem_append.1 hb with hb | hb
    · exact hpl _ hp b hb
    rcases List.mem_append.1 hb with hb | hb
    · exact hdl b hb
    · exact hpl _ hp2 b hb
  have hsplit := DocParse.splitS_chunks _ (by simp) (fun b hb => (hall b hb).1)
  have hlen : (p0 :: pr).length + defs.length + ps2.length ≤ (fnSrcM p0 pr defs ps2).length := by
    have h1 := sum_le_joinChunks ((p0 :: pr).map fpLine ++ (defBlocks defs ++ ps2.map fpLine))
    have h2 := length_le_sum_lines _ (fun b hb => (hall b hb).2)
    simp only [List.length_append, List.length_map, defBlocks] at h2
    simp only [fnSrcM, defBlocks]
    simp only [defBlocks] at h1
    omega
  obtain ⟨g, hg⟩ : ∃ g, fuelForX (fnSrcM p0 pr defs ps2 ++ ['\n', '\n']).length =
      (((g + 2) + ps2.length) + defs.length) + (p0 :: pr).length := by
    refine ⟨fuelForX (fnSrcM p0 pr defs ps2 ++ ['\n', '\n']).length - (2 + ps2.length + defs.length + (p0 :: pr).length), ?_⟩
    simp only [fuelForX, List.length_append]
    omega
  simp only [parseDocumentXT, parseChunk]
  rw [show fnSrcM p0 pr defs ps2 = DocParse.joinChunks ((p0 :: pr).map fpLine ++ (defBlocks defs ++ ps2.map fpLine)) from rfl]
    at hg ⊢
  rw [hsplit, hg, show (Node.el "div" : Node) = rootOf [] from rfl, List.append_assoc, List.append_assoc,
    parse_fparas cfg tab htab (p0 :: pr) [] [] _ _ hp,
    parseBlocksXT_defsM cfg hfo tab htab _ ps2 hp2 defs [] _ hd,
    parse_fparas cfg tab htab ps2 _ _ (g + 2) [[]] hp2,
    parse_end cfg tab htab g _ _ (by
      intro c hc
      simp only [rootOf, Node.last?, Node.el, List.nil_append] at hc
      rcases List.mem_append.1 (List.mem_of_getLast? hc) with h | h
      · obtain ⟨p, _, rfl⟩ := List.mem_map.1 h
        exact preCode_p _
      · obtain ⟨p, _, rfl⟩ := List.mem_map.1 h
        exact preCode_p _)]
  simp

/-- everything after the block stage, for ANY source with a well-behaved front whose block stage gives the paragraphs
    and the table of the definitions -/
theorem convertX_fnP_of (x : PipelineX.Exts) (hfo : x.footnotes = true)
    (hf : x.fencedCode = false) (htb : x.tables = false) (hal : x.attrList = false) (htoc : x.toc = false)
    (cfg : Pipeline.Cfg) (hbl : cfg.blockLevel = TreeProc.defaultBlockLevel) (htab : 0 < cfg.tab)
    (p0 : FPara) (pr : List FPara) (defs : List (Str × Str)) (hp : ∀ p ∈ p0 :: pr, FParaOK p) (hd : DefsOK defs)
    (hne : defs ≠ []) (hnd : (defs.map (·.1)).Nodup) (hk : ∀ p ∈ p0 :: pr, ∀ s ∈ p.2, s.1 ∈ defs.map (·.1))
    (src : Str)
    (hfront : src.contains '<' = false ∧ Normalize.isBlankDoc src = false ∧
      Normalize.normalize cfg.tab src = src ++ ['\n', '\n'] ∧
      PipelineX.admNonAscii (src ++ ['\n', '\n']) = false ∧
      Extract.extract (src ++ ['\n', '\n']) = src ++ ['\n', '\n'])
    (hblk : parseDocumentXT false x.blockCfg cfg.tab (src ++ ['\n', '\n']) =
      some (rootOf ((p0 :: pr).map (fun p => mkText "p" (fpLine p))), defEntries defs)) :
    PipelineX.convertX x cfg src = .ok (fnRenderP cfg.fmt (p0 :: pr) defs) := by
  obtain ⟨s1, s2, s3, s4, s5⟩ := hfront
  have hfoot := footnotesOf_entries defs hnd
  have hmk := makeDiv_defs x htb cfg htab defs hne (defEntries defs) hd
  have hplace := placeDiv_ps ((p0 :: pr).map fpLine) (fnDivG (lisFrom defs 1)) (by
    intro t ht
    obtain ⟨p, hpm, rfl⟩ := List.mem_map.1 ht
    exact slash_not_mem_para _ (paraLine_fnPara p.1 p.2 (hp p hpm).text (hp p hpm).segs))
  rw [List.map_map] at hplace
  -- the inline stage
  have hpk : ∀ p ∈ p0 :: pr, FParaOK p ∧ ∀ s ∈ p.2, (defs.map (·.1)).contains s.1 = true :=
    fun p hpm => ⟨hp p hpm, fun s hs => List.contains_iff_mem.2 (hk p hpm s hs)⟩
  have hrun := fun (ic : Inline.Cfg) => runX_fnP ic (InlineX.table true x.wikilinks x.nl2br) x.nl2br
    (fnTab_table x.wikilinks x.nl2br) (defs.map (·.1)) (p0 :: pr) defs hpk hd (by simp)
  obtain ⟨hE, hcnt⟩ := procPs_empty (defs.map (·.1)) (p0 :: pr)
  have hcntf : (fun id => Footnotes.lookup (Footnotes.fnref ++ ':' :: id)
      (procPs (defs.map (·.1)) (p0 :: pr) Footnotes.State.empty).2.2.foundRefs) = refCountP (p0 :: pr) := funext hcnt
  have hok := pnodeOK_procPsE (defs.map (·.1)) (p0 :: pr) [] hp
  -- the tree stages
  have hdup := duplicates_fnP (procPs (defs.map (·.1)) (p0 :: pr) Footnotes.State.empty).2.2
    (procPsE (defs.map (·.1)) (p0 :: pr) []) defs hok
  rw [hcntf] at hdup
  have hpre : TreeProc.prettify (rootOf (procPsE (defs.map (·.1)) (p0 :: pr) [] ++
      [fnDivG (lisMid (refCountP (p0 :: pr)) defs 1)])) =
      fnRootFinP (procPsE (defs.map (·.1)) (p0 :: pr) []) (lisFin (refCountP (p0 :: pr)) defs 1) :=
    prettify_fnP _ _ (refCountP (p0 :: pr)) defs hok hne
  have hun := unescapeTree_fnP (procPsE (defs.map (·.1)) (p0 :: pr) []) (refCountP (p0 :: pr)) defs hok hd
  have hser := serialize_fnP cfg.fmt (defs.map (·.1)) (p0 :: pr) (lisFin (refCountP (p0 :: pr)) defs 1) hp
  rw [serializeList_lis cfg.fmt _ defs 1 hd] at hser
  have hfin := finishX_fnP x hfo cfg (defs.map (·.1)) p0 pr (refCountP (p0 :: pr)) defs hp hd
  have habbr : ∀ u, AbbrTree.run [] u = u := fun _ => rfl
  simp only [PipelineX.convertX, s1, s2, PipelineX.Exts.unsupported, Bool.false_eq_true, if_false,
    PipelineX.treeX, PipelineX.prepareX, s3, s4, s5, Bool.and_false, hf, htb, hblk, hfo, if_true, hfoot, hmk,
    hal, htoc]
  simp only [Function.comp_def] at hplace
  simp only [hplace, PipelineX.refsX, Bool.true_or, if_true, refsOf_entries, abbrsOf_entries]
  have hxc : ∀ ic : Inline.Cfg, (InlineX.XCfg.mk ic (InlineX.table true x.wikilinks x.nl2br) (defs.map (·.1))) =
      fnXcG ic (InlineX.table true x.wikilinks x.nl2br) (defs.map (·.1)) := fun _ => rfl
  rw [hxc, hrun, hE]
  cases hab : x.abbr <;>
    simp only [hdup, hbl, hpre, habbr, Bool.false_eq_true, if_false, if_true, hun, hser] <;> exact hfin

theorem convertX_fnM (x : PipelineX.Exts) (hfo : x.footnotes = true)
    (hf : x.fencedCode = false) (htb : x.tables = false) (hal : x.attrList = false) (htoc : x.toc = false)
    (cfg : Pipeline.Cfg) (hbl : cfg.blockLevel = TreeProc.defaultBlockLevel) (htab : 0 < cfg.tab)
    (p0 : FPara) (pr : List FPara) (defs : List (Str × Str)) (ps2 : List FPara)
    (hp : ∀ p ∈ p0 :: pr, FParaOK p) (hd : DefsOK defs) (hp2 : ∀ p ∈ ps2, FParaOK p)
    (hne : defs ≠ []) (hnd : (defs.map (·.1)).Nodup) (hk : ∀ p ∈ p0 :: (pr ++ ps2), ∀ s ∈ p.2, s.1 ∈ defs.map (·.1)) :
    PipelineX.convertX x cfg (fnSrcM p0 pr defs ps2) = .ok (fnRenderP cfg.fmt (p0 :: (pr ++ ps2)) defs) := by
  have hpall : ∀ p ∈ p0 :: (pr ++ ps2), FParaOK p := by
    intro p hpm
    rcases List.mem_cons.1 hpm with rfl | hpm
    · exact hp _ List.mem_cons_self
    rcases List.mem_append.1 hpm with h | h
    · exact hp p (List.mem_cons_of_mem _ h)
    · exact hp2 p h
  -- the front
  have hbl0 : ∀ bl ∈ ((p0 :: pr).map fpLine ++ (defBlocks defs ++ ps2.map fpLine)).map (fun b => [b]), bl ≠ [] := by
    intro bl h; obtain ⟨b, _, rfl⟩ := List.mem_map.1 h; simp
  have hsrc : fnSrcM p0 pr defs ps2 =
      joinLines (chunkLines (((p0 :: pr).map fpLine ++ (defBlocks defs ++ ps2.map fpLine)).map (fun b => [b]))) := by
    rw [← joinChunks_joinLines _ hbl0, singles_join]; rfl
  have hfront := front_lines cfg.tab
    (chunkLines (((p0 :: pr).map fpLine ++ (defBlocks defs ++ ps2.map fpLine)).map (fun b => [b])))
    (by
      simp only [List.map_cons, List.cons_append]
      exact chunkLines_ne _ _ (by simp))
    (by
      intro l hl
      rcases mem_chunkLines _ l hl with rfl | ⟨bl, hbl', hlb⟩
      · exact safeLine_nil
      · obtain ⟨b, hb, rfl⟩ := List.mem_map.1 hbl'
        simp only [List.mem_singleton] at hlb
        subst hlb
        rcases List.mem_append.1 hb with h | h
        · obtain ⟨p, hpm, rfl⟩ := List.mem_map.1 h
          exact safeLine_para _ (paraLine_fnPara p.1 p.2 (hp p hpm).text (hp p hpm).segs)
        rcases List.mem_append.1 h with h | h
        · obtain ⟨d, hdm, rfl⟩ := List.mem_map.1 h
          exact safeLine_fnLine2 d.1 d.2 (hd.ids d hdm) (hd.notes d hdm)
        · obtain ⟨p, hpm, rfl⟩ := List.mem_map.1 h
          exact safeLine_para _ (paraLine_fnPara p.1 p.2 (hp2 p hpm).text (hp2 p hpm).segs))
    (by
      have hL := paraLine_fnPara p0.1 p0.2 (hp p0 List.mem_cons_self).text (hp p0 List.mem_cons_self).segs
      obtain ⟨a, b, hab, ha, hasp⟩ := hL.head
      refine ⟨a, ?_, DocParse.alnum_visible a ha hasp⟩
      rw [← hsrc]
      show a ∈ DocParse.joinChunks ((p0 :: pr).map fpLine ++ (defBlocks defs ++ ps2.map fpLine))
      simp only [List.map_cons, List.cons_append]
      have hin : ∀ (L : Str) (r : List Str), a ∈ L → a ∈ DocParse.joinChunks (L :: r) := by
        intro L r h
        cases r with
        | nil => simpa [DocParse.joinChunks] using h
        | cons y ys => simp [DocParse.joinChunks, h]
      apply hin
      rw [show fpLine p0 = fnPara p0.1 p0.2 from rfl, hab]; simp)
  rw [← hsrc] at hfront
  have hblk := parseDocumentXT_fnM x.blockCfg (by simpa [PipelineX.Exts.blockCfg] using hfo) cfg.tab htab p0 pr defs ps2
    hp hd hp2
  exact convertX_fnP_of x hfo hf htb hal htoc cfg hbl htab p0 (pr ++ ps2) defs hpall hd hne hnd hk
    (fnSrcM p0 pr defs ps2) hfront hblk

end MdVerif.RenderG
