/-
Helper lemmas for `Props/C15Text.lean`, part 8: `InlineProcessor.run` on the paragraph of the line — the children of
the `<a>` elements are visited again (their tails hold the codes `STX n ETX` of escaped characters) and stay as they
are.  Core Lean only.
-/
import MdVerif.Lemmas.RefTextStash

namespace MdVerif.RefText
open Py Inline Escape CodeLaw DocParse DocParse2

/-! ### text with the codes of escaped characters is left alone -/

/-- every STX is followed by something else than `k`: no inline placeholder starts in the string -/
def okStx : Str → Bool
  | [] => true
  | c :: r => (c != Inline.STX || r.head? != some 'k') && okStx r

theorem find_phPrefix_okStx (s : Str) (h : okStx s = true) : find phPrefix s = none := by
  induction s with
  | nil => rfl
  | cons c r ih =>
    simp only [okStx, Bool.and_eq_true, Bool.or_eq_true, bne_iff_ne, ne_eq] at h
    rw [find_cons, ih h.2]
    have : startsWith (c :: r) phPrefix = false := by
      rcases h.1 with hc | hr
      · simp [phPrefix, hc]
      · cases r with
        | nil => simp [phPrefix, startsWith]
        | cons d r' =>
          have hd : d ≠ 'k' := by simpa using hr
          simp [phPrefix, hd]
    simp [this]

theorem okStx_append (A B : Str) (hA : Inline.STX ∉ A) (hB : okStx B = true) : okStx (A ++ B) = true := by
  induction A with
  | nil => exact hB
  | cons a A ih =>
    have ha : a ≠ Inline.STX := fun e => hA (e ▸ List.mem_cons_self)
    simp only [List.cons_append, okStx, Bool.and_eq_true, Bool.or_eq_true, bne_iff_ne, ne_eq]
    exact ⟨Or.inl ha, ih (fun h => hA (List.mem_cons_of_mem _ h))⟩

theorem okStx_coded (esc : List Char) (t : Str) (ht : Inline.STX ∉ t) : okStx (coded esc t) = true := by
  induction t with
  | nil => rfl
  | cons c r ih =>
    have hr := ih (fun h => ht (List.mem_cons_of_mem _ h))
    have hc : c ≠ Inline.STX := fun e => ht (e ▸ List.mem_cons_self)
    by_cases hce : c ∈ esc
    · simp only [coded, List.contains_eq_mem, hce, decide_true, if_true, escCode, List.cons_append, List.append_assoc,
        okStx, Bool.and_eq_true, Bool.or_eq_true, bne_iff_ne, ne_eq]
      obtain ⟨d, r', hd, hdig⟩ : ∃ d r', natToDec c.toNat = d :: r' ∧ isAsciiDigit d = true := by
        cases hx : natToDec c.toNat with
        | nil => exact absurd hx (natToDec_ne_nil _)
        | cons d r' => exact ⟨d, r', rfl, natToDec_digits c.toNat d (by simp [hx])⟩
      refine ⟨Or.inr ?_, ?_⟩
      · rw [hd]
        simp only [List.cons_append, List.head?_cons, Option.some.injEq]
        intro e; subst e; exact absurd hdig (by decide)
      · apply okStx_append
        · intro hm
          have := natToDec_digits c.toNat _ hm
          exact absurd this (by decide)
        · simp only [List.singleton_append, okStx, Bool.and_eq_true, Bool.or_eq_true, bne_iff_ne, ne_eq]
          exact ⟨Or.inl (by decide), hr⟩
    · simp only [coded, List.contains_eq_mem, hce, decide_false, Bool.false_eq_true, if_false, okStx, Bool.and_eq_true,
        Bool.or_eq_true, bne_iff_ne, ne_eq]
      exact ⟨Or.inl hc, hr⟩

theorem quiet_coded {esc : List Char} (hE : EscOK esc) (t : Str) (ht : ∀ c ∈ t, c ≠ '&' ∧ c ≠ '\n') :
    CodeLaw.Quiet (coded esc t) := by
  induction t with
  | nil => intro c hc; simp [coded] at hc
  | cons a r ih =>
    have hr := ih (fun c hc => ht c (List.mem_cons_of_mem _ hc))
    intro c hc
    by_cases ha : a ∈ esc
    · simp only [coded, List.contains_eq_mem, ha, decide_true, if_true, escCode, List.cons_append, List.mem_cons,
        List.mem_append, List.not_mem_nil, or_false] at hc
      rcases hc with rfl | (hc | rfl) | hc
      · exact ⟨by decide, by decide, by decide, by decide, by decide, by decide, by decide⟩
      · have := natToDec_digits a.toNat c hc
        refine ⟨?_, ?_, ?_, ?_, ?_, ?_, ?_⟩ <;> (intro e; subst e; exact absurd this (by decide))
      · exact ⟨by decide, by decide, by decide, by decide, by decide, by decide, by decide⟩
      · exact hr c hc
    · simp only [coded, List.contains_eq_mem, ha, decide_false, Bool.false_eq_true, if_false, List.mem_cons] at hc
      rcases hc with rfl | hc
      · have := ht c List.mem_cons_self
        exact ⟨fun e => ha (e ▸ hE.tick), fun e => ha (e ▸ hE.bs), fun e => ha (e ▸ hE.lbr), this.2, this.1,
          fun e => ha (e ▸ hE.star), fun e => ha (e ▸ hE.under)⟩
      · exact hr c hc

/-- `__processPlaceholders` on a tail in which no placeholder starts: the text is put back -/
theorem ppTop_tail_noPh (st : St) (data : Str) (atomic : Bool) (hne : data ≠ []) (hs : find phPrefix data = none) :
    ppTop st data atomic (mkEl "d") false = some ([], { mkEl "d" with tail := some data, tailAtomic := atomic }) := by
  obtain ⟨c, r, rfl⟩ : ∃ c r, data = c :: r := by cases data <;> simp_all
  unfold ppTop
  rw [show st.stash.length + 2 = (st.stash.length + 1) + 1 from rfl]
  unfold processPlaceholders
  simp only [List.isEmpty_cons, Bool.false_eq_true, if_false, List.length_cons]
  rw [show r.length + 1 + 2 = (r.length + 2) + 1 from rfl]
  unfold ppLoop
  simp only [List.drop_zero, hs]
  simp [linkText, Node.truthy, mkEl]

/-- an element on which the inline processor has nothing to do: text absent, atomic or plain words; tail absent or
    text in which no pattern matches and no placeholder starts -/
def SoftNode (n : Node) : Prop :=
  (match n.text with | none => True | some s => n.textAtomic = true ∨ (CodeLaw.Quiet s ∧ Inline.STX ∉ s)) ∧
  (match n.tail with | none => True | some s => CodeLaw.Quiet s ∧ find phPrefix s = none)

theorem visitChild_soft (cfg : Inline.Cfg) (child : Node) (v : Visit) (h : SoftNode child) :
    visitChild cfg child v =
      some (child, [], { v with pushes := if child.children.isEmpty then v.pushes else [v.done.length] :: v.pushes }) := by
  obtain ⟨tag, attrs, text, ta, children, tail, tla⟩ := child
  obtain ⟨h1, h2⟩ := h
  simp only at h1 h2
  have tailFacts : ∀ s, tail = some s → s ≠ [] →
      (if tla = true then some (s, v.st) else handleInlineTop cfg s v.st) = some (s, v.st) ∧
      ppTop v.st s tla (mkEl "d") false = some ([], { mkEl "d" with tail := some s, tailAtomic := tla }) := by
    intro s hs hne
    subst hs
    refine ⟨?_, ppTop_tail_noPh v.st s tla hne h2.2⟩
    cases tla
    · simpa using handleInlineTop_quiet cfg s v.st h2.1
    · rfl
  have textFacts : ∀ s, text = some s → ta = false → s ≠ [] → ∀ (parent : Node), parent.text = none →
      parent.textAtomic = false →
      handleInlineTop cfg s v.st = some (s, v.st) ∧
      ppTop v.st s false parent true = some ([], { parent with text := some s }) := by
    intro s hs hta hne parent hp1 hp2
    subst hs; subst hta
    have hq : CodeLaw.Quiet s ∧ Inline.STX ∉ s := by
      rcases h1 with h | h
      · cases h
      · exact h
    exact ⟨handleInlineTop_quiet cfg s v.st hq.1, ppTop_plain v.st s parent hne hq.2 hp1 hp2⟩
  have t0 : Node.truthy none = false := rfl
  have tn : Node.truthy (some []) = false := rfl
  unfold visitChild
  cases text with
  | none =>
    cases tail with
    | none => simp [t0]
    | some s' =>
      by_cases hne' : s' = []
      · subst hne'; simp [t0, tn]
      · obtain ⟨f1, f2⟩ := tailFacts s' rfl hne'
        simp [t0, (truthy_some_iff s').2 hne', f1, f2]
  | some s =>
    by_cases hne : s = []
    · subst hne
      cases tail with
      | none => simp [t0, tn]
      | some s' =>
        by_cases hne' : s' = []
        · subst hne'; simp [tn]
        · obtain ⟨f1, f2⟩ := tailFacts s' rfl hne'
          simp [tn, (truthy_some_iff s').2 hne', f1, f2]
    · cases ta with
      | true =>
        cases tail with
        | none => simp [t0]
        | some s' =>
          by_cases hne' : s' = []
          · subst hne'; simp [tn]
          · obtain ⟨f1, f2⟩ := tailFacts s' rfl hne'
            simp [(truthy_some_iff s').2 hne', f1, f2]
      | false =>
        obtain ⟨g1, g2⟩ := textFacts s rfl rfl hne ⟨tag, attrs, none, false, children, tail, tla⟩ rfl rfl
        cases tail with
        | none => simp [(truthy_some_iff s).2 hne, g1, g2, t0]
        | some s' =>
          by_cases hne' : s' = []
          · subst hne'; simp [(truthy_some_iff s).2 hne, g1, g2, tn]
          · obtain ⟨f1, f2⟩ := tailFacts s' rfl hne'
            simp [(truthy_some_iff s).2 hne, (truthy_some_iff s').2 hne', g1, g2, f1, f2]

theorem visitLoop_soft (cfg : Inline.Cfg) (kids : List Node) :
    ∀ (i : Nat) (v : Visit) (g : Nat), (∀ c ∈ kids, SoftNode c) → v.done.length = i → kids.length + 1 ≤ g →
      visitLoop cfg g (withIdx kids i) v = some (vl kids i v) := by
  induction kids with
  | nil =>
    intro i v g _ _ hg
    obtain ⟨g', rfl⟩ : ∃ g', g = g' + 1 := ⟨g - 1, by simp at hg; omega⟩
    rfl
  | cons c r ih =>
    intro i v g hc hv hg
    obtain ⟨g', rfl⟩ : ∃ g', g = g' + 1 := ⟨g - 1, by simp at hg; omega⟩
    simp only [withIdx, visitLoop, visitChild_soft cfg c v (hc c List.mem_cons_self), List.map_nil, List.nil_append]
    have := ih (i + 1) (vlStep c i v) g' (fun d hd => hc d (List.mem_cons_of_mem _ hd))
      (by simp [vlStep, hv]) (by simp at hg ⊢; omega)
    simp only [vl]
    rw [← this]
    simp [vlStep, hv]

/-- the stack loop when every stacked path leads to an element whose children are soft and childless: nothing
    changes -/
theorem runLoop_soft (cfg : Inline.Cfg) (g2 : Nat) (root : Node) (st : St) :
    ∀ (stack : List Path) (g : Nat), stack.length + 1 ≤ g →
      (∀ q ∈ stack, ∃ cur, getAt root q = some cur ∧ cur.children.length + 1 ≤ g2 ∧
        ∀ c ∈ cur.children, SoftNode c ∧ c.children = []) →
      runLoop cfg g2 g root stack st = some (root, st) := by
  intro stack
  induction stack with
  | nil =>
    intro g hg _
    obtain ⟨g', rfl⟩ : ∃ g', g = g' + 1 := ⟨g - 1, by simp at hg; omega⟩
    rfl
  | cons p stack ih =>
    intro g hg hs
    obtain ⟨g', rfl⟩ : ∃ g', g = g' + 1 := ⟨g - 1, by simp at hg; omega⟩
    obtain ⟨cur, hcur, hlen, hk⟩ := hs p List.mem_cons_self
    have hvl := visitLoop_soft cfg cur.children 0 { st := st } g2 (fun c hc => (hk c hc).1) rfl hlen
    obtain ⟨v1, v2, v3, v4⟩ := vl_spec cur.children 0 { st := st }
    simp only [runLoop, hcur, hvl, v1, v2, List.append_nil, List.reverse_reverse]
    have e : (⟨cur.tag, cur.attrs, cur.text, cur.textAtomic, cur.children, cur.tail, cur.tailAtomic⟩ : Node) = cur := by
      cases cur; rfl
    rw [e, setAt_getAt root p cur hcur, v3, pushesRev_childless _ (fun c hc => (hk c hc).2)]
    have hid := v4 (by simp)
    rw [show remap p (vl cur.children 0 { st := st }).posmap = id from funext (remap_id p _ hid)]
    simp only [List.nil_append, List.map_nil, List.map_id]
    exact ih g' (by simp at hg ⊢; omega) (fun q hq => hs q (List.mem_cons_of_mem _ hq))

/-! ### the paragraph of the line -/

/-- the `<p>` element after the inline processor -/
def pMid (esc : List Char) (C0 : Chunk) (us : List RUse) : Node :=
  { tag := .name "p".toList, text := optStr (coded esc C0.t0),
    children := C0.segs.map (tailedM esc) ++ usKids esc us }

theorem chunkOK_pp {esc : List Char} {c : Chunk} (h : ChunkOK esc c) :
    Inline.STX ∉ c.t0 ∧ ∀ x ∈ c.segs, Inline.STX ∉ x.t ∧ x.k.clean :=
  ⟨fun hm => (h.plain _ (Or.inl hm)).2.2 rfl,
    fun x hx => ⟨fun hm => (h.plain _ (Or.inr ⟨x, hx, hm⟩)).2.2 rfl, h.clean x hx⟩⟩

theorem lineRaw_ne_nil (esc : List Char) (C0 : Chunk) (us : List RUse) (hne : us ≠ []) : lineRaw esc C0 us ≠ [] := by
  cases us with
  | nil => exact absurd rfl hne
  | cons u r => simp [lineRaw, usStage]

theorem lineStash_length_pos (esc : List Char) (s0 : Nat) (C0 : Chunk) (us : List RUse) (hne : us ≠ []) :
    0 < (lineStash esc s0 C0 us).length := by
  cases us with
  | nil => exact absurd rfl hne
  | cons u r =>
    simp only [lineStash, lineLinks, usLinkStash, List.length_append, List.length_cons]
    omega

/-- **the paragraph through `__handleInline` and `__processPlaceholders`** -/
theorem visitChild_line (cfg : Inline.Cfg) (hE : EscOK cfg.esc) (hrb : ']' ∈ cfg.esc) (C0 : Chunk) (us : List RUse)
    (h0 : ChunkOK cfg.esc C0) (hus : ∀ u ∈ us, UseOK cfg u) (hvis : ∀ u ∈ us, u.T.Vis) (hne : us ≠ []) (v : Visit) :
    visitChild cfg (Block.mkText "p" (lineRaw cfg.esc C0 us)) v =
      some (pMid cfg.esc C0 us, [],
        { v with pushes := ((List.range (C0.segs.map (tailedM cfg.esc) ++ usKids cfg.esc us).length).map
                    (fun k => [v.done.length, k])).reverse ++ v.pushes,
                 st := { v.st with stash := v.st.stash ++ lineStash cfg.esc v.st.stash.length C0 us } }) := by
  have h1 := handleInlineTop_line cfg hE hrb C0 us v.st h0 hus
  obtain ⟨hat0, hatU⟩ := line_at cfg.esc v.st.stash C0 us
  obtain ⟨f, hf⟩ : ∃ f, (v.st.stash ++ lineStash cfg.esc v.st.stash.length C0 us).length = f + 1 := by
    have := lineStash_length_pos cfg.esc v.st.stash.length C0 us hne
    exact ⟨(v.st.stash ++ lineStash cfg.esc v.st.stash.length C0 us).length - 1, by
      rw [List.length_append]; omega⟩
  have h2 := ppTop_line cfg.esc { v.st with stash := v.st.stash ++ lineStash cfg.esc v.st.stash.length C0 us } f hf C0 us
    hne { Block.mkText "p" (lineRaw cfg.esc C0 us) with text := none, textAtomic := false } rfl rfl
    (mStart v.st.stash.length C0 us) v.st.stash.length (lStart cfg.esc v.st.stash.length C0 us)
    (o1Start cfg.esc v.st.stash.length C0 us) (o2Start cfg.esc v.st.stash.length C0 us) hat0 hatU
    (chunkOK_pp h0).1 (chunkOK_pp h0).2
    (fun u hu => ⟨hvis u hu, (chunkOK_pp (hus u hu).text).1, (chunkOK_pp (hus u hu).text).2,
      (chunkOK_pp (hus u hu).after).1, (chunkOK_pp (hus u hu).after).2⟩)
  have hres : lineRes cfg.esc v.st.stash.length C0 us =
      C0.stage cfg.esc 3 true (mStart v.st.stash.length C0 us) v.st.stash.length
        (o1Start cfg.esc v.st.stash.length C0 us) (o2Start cfg.esc v.st.stash.length C0 us) ++
      outStage cfg.esc 3 (o1Start cfg.esc v.st.stash.length C0 us + C0.cnt 1)
        (o2Start cfg.esc v.st.stash.length C0 us + C0.cnt 2)
        (usOuter cfg.esc (mStart v.st.stash.length C0 us + C0.escs cfg.esc) (v.st.stash.length + C0.cnt 0)
          (lStart cfg.esc v.st.stash.length C0 us) us) := rfl
  rw [← hres] at h2
  have htr := truthy_some (lineRaw_ne_nil cfg.esc C0 us hne)
  simp only [visitChild, Block.mkText, Node.el, htr, Bool.not_false, Bool.and_self, if_true, Option.getD_some, h1]
    at h2 ⊢
  rw [h2]
  simp [pMid, Node.truthy]

theorem soft_tailedM {esc : List Char} (hE : EscOK esc) (s : MSeg) (hk : MKindOK s.k) (hc : s.k.clean)
    (ht : ∀ c ∈ s.t, c ≠ '&' ∧ c ≠ '\n' ∧ c ≠ Inline.STX) : SoftNode (tailedM esc s) ∧ (tailedM esc s).children = [] := by
  have htail : match (tailedM esc s).tail with
      | none => True
      | some x => CodeLaw.Quiet x ∧ find phPrefix x = none := by
    have : (tailedM esc s).tail = optStr (coded esc s.t) := by
      obtain ⟨k, t⟩ := s; cases k <;> rfl
    rw [this]
    by_cases he : (coded esc s.t).isEmpty = true
    · simp [optStr, he]
    · simp only [optStr, he, Bool.false_eq_true, if_false]
      exact ⟨quiet_coded hE s.t (fun c hc => ⟨(ht c hc).1, (ht c hc).2.1⟩),
        find_phPrefix_okStx _ (okStx_coded esc s.t (fun hm => (ht _ hm).2.2 rfl))⟩
  obtain ⟨k, t⟩ := s
  cases k with
  | code n b => exact ⟨⟨by simp [tailedM, MKind.node, codeSpan, Node.el], htail⟩, rfl⟩
  | em st d w =>
    refine ⟨⟨?_, htail⟩, rfl⟩
    show match (tailedM esc ⟨.em st d w, t⟩).text with
      | none => True
      | some x => (tailedM esc ⟨.em st d w, t⟩).textAtomic = true ∨ (CodeLaw.Quiet x ∧ Inline.STX ∉ x)
    have : (tailedM esc ⟨.em st d w, t⟩).text = some w := rfl
    rw [this]
    exact Or.inr ⟨word_quiet hk.2.1, hc⟩

theorem usKids_length (esc : List Char) (us : List RUse) (h : ∀ u ∈ us, MSegsOK u.C.segs) :
    (usKids esc us).length ≤ usCnt0 us + usLinkLen us + usOutCnt 1 us + usOutCnt 2 us := by
  induction us with
  | nil => simp [usKids]
  | cons u r ih =>
    have h1 := ih (fun x hx => h x (List.mem_cons_of_mem _ hx))
    have h2 := nodes_length u.C.segs (h u List.mem_cons_self)
    simp only [usKids, usCnt0, usLinkLen, usOutCnt, Chunk.cnt, List.length_cons, List.length_append, List.length_map]
    omega

theorem useT_length (us : List RUse) (h : ∀ u ∈ us, MSegsOK u.T.segs) :
    ∀ u ∈ us, u.T.segs.length ≤ usCnt0 us + usLinkLen us := by
  induction us with
  | nil => intro u hu; cases hu
  | cons a r ih =>
    intro u hu
    rcases List.mem_cons.1 hu with rfl | hu
    · have := nodes_length u.T.segs (h u List.mem_cons_self)
      simp only [usCnt0, usLinkLen, Chunk.cnt]; omega
    · have := ih (fun x hx => h x (List.mem_cons_of_mem _ hx)) u hu
      simp only [usCnt0, usLinkLen]; omega

theorem usKids_soft {cfg : Inline.Cfg} (hE : EscOK cfg.esc) (us : List RUse) (hus : ∀ u ∈ us, UseOK cfg u) :
    ∀ kid ∈ usKids cfg.esc us, (∀ c ∈ kid.children, SoftNode c ∧ c.children = []) ∧
      kid.children.length ≤ usCnt0 us + usLinkLen us := by
  induction us with
  | nil => intro kid hk; simp [usKids] at hk
  | cons u r ih =>
    intro kid hk
    have hu := hus u List.mem_cons_self
    simp only [usKids, List.mem_cons, List.mem_append, List.mem_map] at hk
    rcases hk with rfl | ⟨s, _, rfl⟩ | hk
    · refine ⟨?_, ?_⟩
      · intro c hc
        have hc' : c ∈ u.T.segs.map (tailedM cfg.esc) := hc
        obtain ⟨s, hs, rfl⟩ := List.mem_map.1 hc'
        exact soft_tailedM hE s (hu.text.ok s hs) (hu.text.clean s hs)
          (fun x hx => hu.text.plain x (Or.inr ⟨s, hs, hx⟩))
      · have := useT_length (u :: r) (fun x hx => (hus x hx).text.ok) u List.mem_cons_self
        simpa [aNode] using this
    · rw [tailedM_childless]
      exact ⟨fun c hc => (by cases hc), by simp⟩
    · have := ih (fun x hx => hus x (List.mem_cons_of_mem _ hx)) kid hk
      refine ⟨this.1, ?_⟩
      have := this.2
      simp only [usCnt0, usLinkLen]; omega

/-- every child of the paragraph: its own children are soft and childless -/
theorem kids_soft {cfg : Inline.Cfg} (hE : EscOK cfg.esc) (C0 : Chunk) (us : List RUse)
    (hus : ∀ u ∈ us, UseOK cfg u) :
    ∀ kid ∈ C0.segs.map (tailedM cfg.esc) ++ usKids cfg.esc us,
      (∀ c ∈ kid.children, SoftNode c ∧ c.children = []) ∧
      kid.children.length ≤ usCnt0 us + usLinkLen us := by
  intro kid hk
  rcases List.mem_append.1 hk with hk | hk
  · obtain ⟨s, _, rfl⟩ := List.mem_map.1 hk
    rw [tailedM_childless]
    exact ⟨fun c hc => (by cases hc), by simp⟩
  · exact usKids_soft hE us hus kid hk

/-- **`InlineProcessor.run`** on `<div><p>line</p></div>` -/
theorem run_line (cfg : Inline.Cfg) (hE : EscOK cfg.esc) (hrb : ']' ∈ cfg.esc) (C0 : Chunk) (us : List RUse)
    (h0 : ChunkOK cfg.esc C0) (hus : ∀ u ∈ us, UseOK cfg u) (hvis : ∀ u ∈ us, u.T.Vis) (hne : us ≠ []) :
    Inline.run cfg ((Node.el "div").append (Block.mkText "p" (lineRaw cfg.esc C0 us))) =
      some ((Node.el "div").append (pMid cfg.esc C0 us), { stash := lineStash cfg.esc 0 C0 us, html := [] }) := by
  generalize hkids : C0.segs.map (tailedM cfg.esc) ++ usKids cfg.esc us = kids
  have hv := visitChild_line cfg hE hrb C0 us h0 hus hvis hne { st := { html := [] } }
  simp only [List.length_nil, List.nil_append, List.append_nil, hkids] at hv
  -- sizes
  have hlenraw : C0.escs cfg.esc + C0.cnt 0 + C0.cnt 1 + C0.cnt 2 + (usEscs cfg.esc us + usCnt0 us + usLinkLen us +
      usOutCnt 1 us + usOutCnt 2 us) ≤ (lineRaw cfg.esc C0 us).length := by
    have h1 := chunk_raw_length cfg.esc C0 h0.ok
    have h2 := usRaw_length us hus 0 0
    rw [lineRaw, List.length_append]; omega
  have hklen : kids.length ≤ (lineRaw cfg.esc C0 us).length := by
    have h1 := usKids_length cfg.esc us (fun u hu => (hus u hu).after.ok)
    have h2 := nodes_length C0.segs h0.ok
    rw [← hkids]
    simp only [List.length_append, List.length_map, Chunk.cnt] at hlenraw ⊢
    omega
  have hsize : Inline.size ((Node.el "div").append (Block.mkText "p" (lineRaw cfg.esc C0 us))) =
      2 + (lineRaw cfg.esc C0 us).length := by
    simp [Node.append, Node.el, Block.mkText, Inline.size, Inline.sizeList]; omega
  obtain ⟨n, hn⟩ : ∃ n, runFuel ((Node.el "div").append (Block.mkText "p" (lineRaw cfg.esc C0 us))) = n + 2 :=
    ⟨runFuel ((Node.el "div").append (Block.mkText "p" (lineRaw cfg.esc C0 us))) - 2, by simp [runFuel]⟩
  have hnval : n + 2 = 16 * (2 + (lineRaw cfg.esc C0 us).length) + 64 := by rw [← hn, runFuel, hsize]
  simp only [Inline.run, hn]
  simp only [runLoop, getAt, Node.append, Node.el, List.nil_append, withIdx, visitLoop]
  rw [hv]
  simp only [List.map_nil, List.nil_append, visitLoop, List.reverse_cons, List.reverse_nil, setAt, List.map_map]
  have hroot : ({ tag := .name "div".toList, children := [pMid cfg.esc C0 us] } : Node) =
      (Node.el "div").append (pMid cfg.esc C0 us) := rfl
  have := runLoop_soft cfg (n + 2) ((Node.el "div").append (pMid cfg.esc C0 us))
    { stash := lineStash cfg.esc 0 C0 us, html := [] }
    (((List.range kids.length).map (fun k => [0, k])).reverse) (n + 1)
    (by simp only [List.length_reverse, List.length_map, List.length_range]; omega)
    (by
      intro q hq
      simp only [List.mem_reverse, List.mem_map, List.mem_range] at hq
      obtain ⟨k, hk, rfl⟩ := hq
      obtain ⟨kid, hkid⟩ : ∃ kid, kids[k]? = some kid := by
        cases hx : kids[k]? with
        | none => rw [List.getElem?_eq_none_iff] at hx; omega
        | some kid => exact ⟨kid, rfl⟩
      have hmem : kid ∈ C0.segs.map (tailedM cfg.esc) ++ usKids cfg.esc us := by
        rw [hkids]; exact List.mem_of_getElem? hkid
      obtain ⟨hs1, hs2⟩ := kids_soft hE C0 us hus kid hmem
      refine ⟨kid, ?_, ?_, hs1⟩
      · simp [getAt, Node.append, Node.el, pMid, hkids, hkid]
      · omega)
  simpa [Node.append, Node.el, Function.comp_def] using this

end MdVerif.RefText
