/-
Lemmas for C05 on the extension model (`PipelineX.treeX`), well-formedness part 3: the tree processors around the
inline stage — footnote 50 (`FootnotesTree.makeDiv`, `placeDiv`), footnote-duplicate 15, prettify 10, attr_list 8,
abbr 7, toc 5, unescape 0 — preserve the invariant `WF` of `Lemmas/VocabXWFDefs.lean` (attribute names pairwise
distinct; a void element has neither text nor children).

Same walk as `Lemmas/VocabXTree.lean` (which does it for the vocabulary invariant `NI qt`); what is new is
(a) `Ser.keysNodup` of every attribute list that is built or changed and (b) wherever children are added or a text
is set, the element is known to be non-void.

Core Lean only.
-/
import MdVerif.Lemmas.VocabXWFDefs2
import MdVerif.Lemmas.VocabXTree

namespace MdVerif.VocabXWF
open Py

/-! ### generic helpers -/

theorem WF_cons {c : Node} {r : List Node} (hc : WF c) (hr : ∀ x ∈ r, WF x) : ∀ x ∈ c :: r, WF x := by
  intro x hx
  rcases List.mem_cons.1 hx with rfl | hx
  · exact hc
  · exact hr x hx

theorem WF_app {a b : List Node} (ha : ∀ x ∈ a, WF x) (hb : ∀ x ∈ b, WF x) : ∀ x ∈ a ++ b, WF x := by
  intro x hx
  rcases List.mem_append.1 hx with hx | hx
  · exact ha x hx
  · exact hb x hx

theorem WF_nil : ∀ x ∈ ([] : List Node), WF x := by intro x hx; cases hx

theorem voidT_false_of_ne {tag : Tag} (h : voidT tag = false) : voidT tag = true → False := by
  intro hv; rw [h] at hv; cases hv

/-! ### `PrettifyTreeprocessor` -/

section Prettify
open TreeProc

mutual
theorem prettifyETree_WF (bl : List Str) : (n : Node) → WF n →
    WF (prettifyETree bl n) ∧ (prettifyETree bl n).tag = n.tag ∧ (prettifyETree bl n).attrs = n.attrs
  | ⟨tag, attrs, text, ta, children, tail, tla⟩, h => by
    rw [WF_iff] at h
    unfold prettifyETree
    refine ⟨?_, rfl, rfl⟩
    cases children with
    | nil =>
      refine WF_mk h.1.1 ?_ ?_
      · intro hv
        refine ⟨?_, ?_⟩
        · simp only [Bool.and_false, Bool.false_eq_true, if_false]
          exact (h.1.2 hv).1
        · simp only [prettifyKids, ite_self]
      · simp only [prettifyKids, ite_self]; exact WF_nil
    | cons c r =>
      have hnv : voidT tag = false := WF.nv_of_child (p := ⟨tag, attrs, text, ta, c :: r, tail, tla⟩) ((WF_iff _).2 h)
        List.mem_cons_self
      refine WF_mk h.1.1 (fun hv => (voidT_false_of_ne hnv hv).elim) ?_
      split
      · exact prettifyKids_WF bl (c :: r) h.2
      · exact h.2
theorem prettifyKids_WF (bl : List Str) : (l : List Node) → (∀ c ∈ l, WF c) → ∀ c ∈ prettifyKids bl l, WF c
  | [], _ => by unfold prettifyKids; exact WF_nil
  | c :: r, h => by
    unfold prettifyKids
    refine WF_cons ?_ (prettifyKids_WF bl r (fun x hx => h x (List.mem_cons_of_mem _ hx)))
    split
    · exact (prettifyETree_WF bl c (h c List.mem_cons_self)).1
    · exact h c List.mem_cons_self
end

mutual
theorem mapTree_WF {f : Node → Node} (hf : ∀ n : Node, WF n → WF (f n) ∧ (f n).tag = n.tag ∧ (f n).attrs = n.attrs) :
    (n : Node) → WF n → WF (mapTree f n) ∧ (mapTree f n).tag = n.tag ∧ (mapTree f n).attrs = n.attrs
  | ⟨tag, attrs, text, ta, children, tail, tla⟩, h => by
    rw [WF_iff] at h
    unfold mapTree
    apply hf ⟨tag, attrs, text, ta, mapKids f children, tail, tla⟩
    refine WF_mk h.1.1 ?_ (mapKids_WF hf children h.2).1
    intro hv
    have := h.1.2 hv
    refine ⟨this.1, ?_⟩
    have h2 : children = [] := this.2
    subst h2; rfl
theorem mapKids_WF {f : Node → Node} (hf : ∀ n : Node, WF n → WF (f n) ∧ (f n).tag = n.tag ∧ (f n).attrs = n.attrs) :
    (l : List Node) → (∀ c ∈ l, WF c) → (∀ c ∈ mapKids f l, WF c) ∧ (l = [] → mapKids f l = [])
  | [], _ => by unfold mapKids; exact ⟨WF_nil, fun _ => rfl⟩
  | c :: r, h => by
    unfold mapKids
    refine ⟨WF_cons (mapTree_WF hf c (h c List.mem_cons_self)).1
      (mapKids_WF hf r (fun x hx => h x (List.mem_cons_of_mem _ hx))).1, fun e => by cases e⟩
end

theorem brRule_WF (n : Node) (h : WF n) : WF (brRule n) ∧ (brRule n).tag = n.tag ∧ (brRule n).attrs = n.attrs := by
  unfold brRule
  split
  · split
    · exact ⟨WF_tail h n.textAtomic _ _, rfl, rfl⟩
    · exact ⟨WF_tail h n.textAtomic _ _, rfl, rfl⟩
  · exact ⟨h, rfl, rfl⟩

theorem voidT_tagIs {n : Node} {t : String} (h : tagIs n t = true) (ht : Ser.isEmptyTag t.toList = false) :
    voidT n.tag = false := by
  have : n.tag = .name t.toList := by simpa [tagIs] using h
  rw [this]; exact ht

theorem preRule_WF (n : Node) (h : WF n) : WF (preRule n) ∧ (preRule n).tag = n.tag ∧ (preRule n).attrs = n.attrs := by
  unfold preRule
  split
  · split
    · next code rest hch =>
      split
      · next hcode =>
        split
        · refine ⟨?_, rfl, rfl⟩
          have hk := h.kids
          rw [hch] at hk
          refine WF_children h (h.nv_of_child (c := code) (by rw [hch]; exact List.mem_cons_self)) _ ?_
          refine WF_cons ?_ (fun x hx => hk x (List.mem_cons_of_mem _ hx))
          have hc := hk code List.mem_cons_self
          simp only [Bool.and_eq_true] at hcode
          exact WF_fields hc (voidT_tagIs hcode.1 (by decide)) _ _ code.tail code.tailAtomic
        · exact ⟨h, rfl, rfl⟩
      · exact ⟨h, rfl, rfl⟩
    · exact ⟨h, rfl, rfl⟩
  · exact ⟨h, rfl, rfl⟩

/-- **`PrettifyTreeprocessor`** -/
theorem prettify_WF {t : Node} (h : WF t) (bl : List Str) :
    WF (prettify t bl) ∧ (prettify t bl).tag = t.tag ∧ (prettify t bl).attrs = t.attrs := by
  unfold prettify
  have h1 := prettifyETree_WF bl t h
  have h2 := mapTree_WF brRule_WF _ h1.1
  have h3 := mapTree_WF preRule_WF _ h2.1
  exact ⟨h3.1, h3.2.1.trans (h2.2.1.trans h1.2.1), h3.2.2.trans (h2.2.2.trans h1.2.2)⟩

end Prettify

/-! ### `UnescapeTreeprocessor` -/

section Unescape
open TreeProc

mutual
theorem unescapeTree_WF' : (n u : Node) → unescapeTree n = some u → WF n →
    WF u ∧ u.tag = n.tag ∧ u.attrs.map Prod.fst = n.attrs.map Prod.fst
  | ⟨tag, attrs, text, ta, children, tail, tla⟩, u, hu, h => by
    rw [WF_iff] at h
    simp only [unescapeTree] at hu
    split at hu
    · rename_i t tl a ks e1 e2 e3 e4
      simp only [Option.some.injEq] at hu; subst hu
      have hkeys := Vocab2.unescAttrs_keys _ _ e3
      have hks := unescapeKids_WF' children ks e4 h.2
      refine ⟨WF_mk (keysNodup_sameKeys hkeys h.1.1) ?_ hks.1, rfl, hkeys⟩
      intro hv
      have hh := h.1.2 hv
      refine ⟨?_, hks.2 hh.2⟩
      have ht : Node.truthy text = false := hh.1
      rw [ht] at e1
      simp only [Bool.false_and, Bool.false_eq_true, if_false, Option.some.injEq] at e1
      rw [← e1]; exact ht
    · cases hu
theorem unescapeKids_WF' : (l l' : List Node) → unescapeKids l = some l' → (∀ c ∈ l, WF c) →
    (∀ c ∈ l', WF c) ∧ (l = [] → l' = [])
  | [], l', hu, _ => by
    simp only [unescapeKids, Option.some.injEq] at hu; subst hu; exact ⟨WF_nil, fun _ => rfl⟩
  | c :: r, l', hu, h => by
    simp only [unescapeKids] at hu
    split at hu
    · rename_i c' r' e1 e2
      simp only [Option.some.injEq] at hu; subst hu
      exact ⟨WF_cons (unescapeTree_WF' c c' e1 (h c List.mem_cons_self)).1
        (unescapeKids_WF' r r' e2 (fun x hx => h x (List.mem_cons_of_mem _ hx))).1, fun e => by cases e⟩
    · cases hu
end

/-- **`UnescapeTreeprocessor`**: attribute values change, names do not -/
theorem unescapeTree_WF {t u : Node} (h : unescapeTree t = some u) (hw : WF t) :
    WF u ∧ u.tag = t.tag ∧ u.attrs.map Prod.fst = t.attrs.map Prod.fst := unescapeTree_WF' t u h hw

end Unescape

/-! ### `AbbrTreeprocessor` -/

section Abbr
open AbbrTree

theorem WF_mkAbbr (abbrs : List (Str × Str)) (m : Str × Str) : WF (mkAbbr abbrs m) :=
  WF_mk (keysNodup_single _) (fun hv => by cases hv) WF_nil

theorem WF_mkAbbrs (abbrs : List (Str × Str)) (l : List (Str × Str)) : ∀ c ∈ l.map (mkAbbr abbrs), WF c := by
  intro c hc
  obtain ⟨m, _, rfl⟩ := List.mem_map.1 hc
  exact WF_mkAbbr abbrs m

/-- the shape of the `tx` / `tl` parts of `abbrNode` -/
theorem abbr_part (abbrs : List (Str × Str)) (keys : List Str) (c : Bool) (t : Option Str) (a : Bool) (s : Str) :
    (∀ x ∈ (if c = true then
            (if (segs keys none 0 s).2.isEmpty = true then ((t, a), ([] : List Node))
             else ((some (segs keys none 0 s).1, false), (segs keys none 0 s).2.map (mkAbbr abbrs)))
          else ((t, a), [])).2, WF x) ∧
    (c = false → (if c = true then
            (if (segs keys none 0 s).2.isEmpty = true then ((t, a), ([] : List Node))
             else ((some (segs keys none 0 s).1, false), (segs keys none 0 s).2.map (mkAbbr abbrs)))
          else ((t, a), [])) = ((t, a), [])) := by
  refine ⟨?_, fun hc => by rw [hc]; rfl⟩
  split
  · split
    · exact WF_nil
    · exact WF_mkAbbrs abbrs _
  · exact WF_nil

mutual
theorem abbrNode_WF (abbrs : List (Str × Str)) (keys : List Str) (isRoot : Bool) : (n : Node) → WF n →
    WF (abbrNode abbrs keys isRoot n).1 ∧ (abbrNode abbrs keys isRoot n).1.tag = n.tag ∧
      (abbrNode abbrs keys isRoot n).1.attrs = n.attrs ∧ ∀ c ∈ (abbrNode abbrs keys isRoot n).2, WF c
  | ⟨tag, attrs, text, ta, children, tail, tla⟩, h => by
    rw [WF_iff] at h
    have hk := abbrKids_WF abbrs keys children h.2
    unfold abbrNode
    dsimp only
    refine ⟨?_, rfl, rfl, (abbr_part abbrs keys _ _ _ _).1⟩
    cases hv : voidT tag with
    | true =>
      have hh := h.1.2 hv
      have ht : Node.truthy text = false := hh.1
      have hc : children = [] := hh.2
      have e := (abbr_part abbrs keys (Node.truthy text && !ta) text ta (text.getD [])).2 (by rw [ht]; rfl)
      rw [e, hk.2 hc]
      exact WF_mk h.1.1 (fun _ => ⟨ht, rfl⟩) WF_nil
    | false =>
      exact WF_mk h.1.1 (fun hv' => (voidT_false_of_ne hv hv').elim)
        (WF_app (abbr_part abbrs keys _ _ _ _).1 hk.1)
theorem abbrKids_WF (abbrs : List (Str × Str)) (keys : List Str) : (l : List Node) → (∀ c ∈ l, WF c) →
    (∀ c ∈ abbrKids abbrs keys l, WF c) ∧ (l = [] → abbrKids abbrs keys l = [])
  | [], _ => by unfold abbrKids; exact ⟨WF_nil, fun _ => rfl⟩
  | c :: r, h => by
    unfold abbrKids
    have h1 := abbrNode_WF abbrs keys false c (h c List.mem_cons_self)
    have h2 := abbrKids_WF abbrs keys r (fun x hx => h x (List.mem_cons_of_mem _ hx))
    dsimp only
    exact ⟨WF_cons h1.1 (WF_app h1.2.2.2 h2.1), fun e => by cases e⟩
end

/-- **`AbbrTreeprocessor`** -/
theorem abbrRun_WF (abbrs : List (Str × Str)) {t : Node} (h : WF t) :
    WF (AbbrTree.run abbrs t) ∧ (AbbrTree.run abbrs t).tag = t.tag ∧ (AbbrTree.run abbrs t).attrs = t.attrs := by
  unfold AbbrTree.run
  split
  · exact ⟨h, rfl, rfl⟩
  · have := abbrNode_WF abbrs (sortKeys (abbrs.map (·.1))) true t h
    exact ⟨this.1, this.2.1, this.2.2.1⟩

end Abbr

/-! ### `toc` -/

section TocS
open TocTree

theorem keysNodup_filter (p : Str × Str → Bool) {a : List (Str × Str)} (h : Ser.keysNodup a = true) :
    Ser.keysNodup (a.filter p) = true := by
  rw [keysNodup_iff] at h ⊢
  exact List.Nodup.sublist (List.Sublist.map _ List.filter_sublist) h

/-- `el.attrib[k] = v` when `k not in el.attrib` -/
theorem keysNodup_snoc {a : List (Str × Str)} (h : Ser.keysNodup a = true) {k : Str}
    (hk : a.find? (fun kv => kv.1 = k) = none) (v : Str) : Ser.keysNodup (a ++ [(k, v)]) = true := by
  rw [keysNodup_iff] at h ⊢
  simp only [List.map_append, List.map_cons, List.map_nil]
  rw [List.nodup_append]
  refine ⟨h, by simp, ?_⟩
  intro x hx y hy
  simp only [List.mem_singleton] at hy
  subst hy
  intro e; subst e
  obtain ⟨z, hz, e⟩ := List.mem_map.1 hx
  have := List.find?_eq_none.1 hk z hz
  simp [e] at this

mutual
theorem buildLi_WF : (t : Toc.TokTree) → WF (buildLi t)
  | .mk t cs => by
    unfold buildLi
    refine WF_mk rfl (fun hv => by cases hv) ?_
    refine WF_cons (WF_mk (keysNodup_single _) (fun hv => by cases hv) WF_nil) ?_
    cases cs with
    | nil => exact WF_nil
    | cons c r =>
      exact WF_cons (WF_mk rfl (fun hv => by cases hv) (buildLis_WF (c :: r))) WF_nil
theorem buildLis_WF : (l : List Toc.TokTree) → ∀ c ∈ buildLis l, WF c
  | [] => by unfold buildLis; exact WF_nil
  | c :: r => by
    unfold buildLis
    exact WF_cons (buildLi_WF c) (buildLis_WF r)
end

theorem buildDiv_WF (bl : List Str) (toks : List Toc.Tok) : WF (buildDiv bl toks) := by
  unfold buildDiv
  refine (prettify_WF ?_ bl).1
  refine WF_mk (keysNodup_single _) (fun hv => by cases hv) ?_
  exact WF_cons (WF_mk rfl (fun hv => by cases hv) (buildLis_WF _)) WF_nil

mutual
theorem replNode_WF {div : Node} (hd : WF div) : (n : Node) → WF n →
    WF (replNode div n) ∧ (replNode div n).tag = n.tag ∧ (replNode div n).attrs = n.attrs
  | ⟨tag, attrs, text, ta, children, tail, tla⟩, h => by
    rw [WF_iff] at h
    unfold replNode
    have hk := replKids_WF hd children h.2
    refine ⟨WF_mk h.1.1 ?_ hk.1, rfl, rfl⟩
    intro hv
    have hh := h.1.2 hv
    exact ⟨hh.1, hk.2 hh.2⟩
theorem replKids_WF {div : Node} (hd : WF div) : (l : List Node) → (∀ c ∈ l, WF c) →
    (∀ c ∈ replKids div l, WF c) ∧ (l = [] → replKids div l = [])
  | [], _ => by unfold replKids; exact ⟨WF_nil, fun _ => rfl⟩
  | c :: r, h => by
    have hr := (replKids_WF hd r (fun x hx => h x (List.mem_cons_of_mem _ hx))).1
    refine ⟨?_, fun e => by cases e⟩
    unfold replKids
    split
    · exact WF_cons (h c List.mem_cons_self) hr
    · split
      · exact WF_cons hd hr
      · exact WF_cons (replNode_WF hd c (h c List.mem_cons_self)).1 hr
end

/-- the attributes of a heading after `toc`: the names stay pairwise distinct -/
theorem heading_nodup {env : Env} {el : Node} {st : St} {attrs : List (Str × Str)} {st' : St}
    (h : heading env el st = .ok (attrs, st')) (hn : Ser.keysNodup el.attrs = true) :
    Ser.keysNodup attrs = true := by
  unfold heading at h
  split at h
  · cases h
  · cases h
  · cases h
  · dsimp only at h
    split at h
    · cases h
    · cases h
    · cases h
    · rename_i attrs1 used hid
      have h1 : Ser.keysNodup attrs1 = true := by
        split at hid
        · simp only [R.ok.injEq, Prod.mk.injEq] at hid
          obtain ⟨rfl, _⟩ := hid
          exact hn
        · rename_i hget
          split at hid
          · cases hid
          · split at hid
            · cases hid
            · simp only [R.ok.injEq, Prod.mk.injEq] at hid
              obtain ⟨rfl, _⟩ := hid
              refine keysNodup_snoc hn ?_ _
              simpa [Node.getAttr] using hget
      split at h
      · cases h
      · cases h
      · cases h
      · rename_i name attrs2 hnr
        have h2 : Ser.keysNodup attrs2 = true := by
          split at hnr
          · simp only [R.ok.injEq, Prod.mk.injEq] at hnr
            obtain ⟨_, rfl⟩ := hnr; exact h1
          · split at hnr
            · cases hnr
            · split at hnr
              · cases hnr
              · simp only [R.ok.injEq, Prod.mk.injEq] at hnr
                obtain ⟨_, rfl⟩ := hnr
                exact keysNodup_filter _ h1
        split at h
        · cases h
        · simp only [R.ok.injEq, Prod.mk.injEq] at h
          obtain ⟨rfl, _⟩ := h; exact h2

mutual
theorem walkNode_WF (env : Env) : (n : Node) → (st : St) → (r : Node × St) → walkNode env n st = .ok r → WF n →
    WF r.1 ∧ r.1.tag = n.tag ∧ (isHeaderTag n.tag = false → r.1.attrs = n.attrs)
  | ⟨tag, attrs, text, ta, children, tail, tla⟩, st, r, h, hn => by
    rw [WF_iff] at hn
    simp only [walkNode] at h
    split at h
    · cases h
    · cases h
    · cases h
    · rename_i attrs' st1 hh
      split at h
      · cases h
      · cases h
      · cases h
      · rename_i ks st2 hks
        simp only [R.ok.injEq] at h; subst h
        have hk := walkKids_WF env children st1 (ks, st2) hks hn.2
        refine ⟨WF_mk ?_ ?_ hk.1, rfl, ?_⟩
        · split at hh
          · exact heading_nodup hh hn.1.1
          · simp only [R.ok.injEq, Prod.mk.injEq] at hh
            obtain ⟨rfl, _⟩ := hh; exact hn.1.1
        · intro hv
          have hh' := hn.1.2 hv
          exact ⟨hh'.1, hk.2 hh'.2⟩
        · intro hhd
          have hhd' : isHeaderTag tag = false := hhd
          rw [hhd'] at hh
          simp only [Bool.false_eq_true, if_false, R.ok.injEq, Prod.mk.injEq] at hh
          exact hh.1.symm
theorem walkKids_WF (env : Env) : (l : List Node) → (st : St) → (r : List Node × St) → walkKids env l st = .ok r →
    (∀ c ∈ l, WF c) → (∀ c ∈ r.1, WF c) ∧ (l = [] → r.1 = [])
  | [], st, r, h, _ => by simp only [walkKids, R.ok.injEq] at h; subst h; exact ⟨WF_nil, fun _ => rfl⟩
  | c :: rest, st, r, h, hl => by
    simp only [walkKids] at h
    split at h
    · cases h
    · cases h
    · cases h
    · rename_i c' st1 hc'
      split at h
      · cases h
      · cases h
      · cases h
      · rename_i r' st2 hr'
        simp only [R.ok.injEq] at h; subst h
        exact ⟨WF_cons (walkNode_WF env c st (c', st1) hc' (hl c List.mem_cons_self)).1
          (walkKids_WF env rest st1 (r', st2) hr' (fun x hx => hl x (List.mem_cons_of_mem _ hx))).1,
          fun e => by cases e⟩
end

/-- **`TocTreeprocessor`**.  The attributes of the root are unchanged when the root is not a heading (the model
    walks `doc.iter()`, root included; the root of a document is the `div` of `Markdown.parser.parseDocument`). -/
theorem tocRun_WF (env : TocTree.Env) (bl : List Str) {t t' : Node} (h : TocTree.run env bl t = .ok t') (hw : WF t) :
    WF t' ∧ t'.tag = t.tag ∧ (isHeaderTag t.tag = false → t'.attrs = t.attrs) := by
  unfold TocTree.run at h
  split at h
  · cases h
  · split at h
    · cases h
    · cases h
    · cases h
    · rename_i root' st hwk
      simp only [R.ok.injEq] at h; subst h
      have h1 := walkNode_WF env t _ (root', st) hwk hw
      have h2 := replNode_WF (buildDiv_WF bl st.toks) root' h1.1
      exact ⟨h2.1, h2.2.1.trans h1.2.1, fun hh => h2.2.2.trans (h1.2.2 hh)⟩

/-- the last conjunct of `tocRun_WF` cannot be `t'.attrs = t.attrs`: a root that is itself a heading gets its `id` -/
example : (match TocTree.run { fmt := .html, post := fun s => some s } []
      { tag := .name "h1".toList, text := some "a".toList } with
    | .ok t => t.attrs == [("id".toList, "a".toList)]
    | _ => false) = true := by decide

end TocS

/-! ### footnotes: `makeFootnotesDiv` -/

section Footnotes
open FootnotesTree
open BlockExt (NI NI_iff)

theorem PLF_mk_noId {n : Node} (hid : hasId n = false) (hk : ∀ c ∈ n.children, PLF c) : PLF n := by
  rw [PLF_iff]
  refine ⟨?_, hk⟩
  intro h; rw [hid] at h; cases h

theorem NI_noId_hasId {n : Node} (h : NI noIdQ n) : hasId n = false := by
  have := ((NI_iff n).1 h).1
  simpa [noIdQ, hasId] using this

theorem getLast?_setLast (p c : Node) : (p.setLast c).last? = some c := by
  simp [Node.setLast, Node.last?]

theorem getLast?_append (p c : Node) : (p.append c).last? = some c := by
  simp [Node.append, Node.last?]

theorem WF_backlink (id : Str) (index : Nat) : WF (backlink id index) := by
  refine WF_mk ?_ (fun hv => by cases hv) WF_nil
  rw [keysNodup_iff]
  simp only [List.map_cons, List.map_nil]
  decide

theorem PLF_backlink (id : Str) (index : Nat) : PLF (backlink id index) :=
  PLF_mk_noId rfl (by intro c hc; cases hc)

theorem addBacklink_WF {li bl li' : Node} (hli : WF li) (hnv : voidT li.tag = false) (hbl : WF bl)
    (h : addBacklink li bl = some li') : WF li' ∧ li'.tag = li.tag ∧ li'.attrs = li.attrs := by
  unfold addBacklink at h
  split at h
  · simp only [Option.some.injEq] at h; subst h; exact ⟨hli, rfl, rfl⟩
  · rename_i node hlast
    have hnode := hli.last hlast
    split at h
    · rename_i hp
      split at h
      · simp only [Option.some.injEq] at h; subst h
        refine ⟨WF_setLast hli hlast ?_, rfl, rfl⟩
        have hpn := voidT_isTag hp (by decide)
        rw [WF_iff] at hnode ⊢
        exact ⟨⟨hnode.1.1, fun hv => (voidT_false_of_ne hpn hv).elim⟩, WF_app hnode.2 (WF_cons hbl WF_nil)⟩
      · cases h
    · simp only [Option.some.injEq] at h; subst h
      exact ⟨WF_append hli hnv (WF_mk rfl (fun hv => by cases hv) (WF_cons hbl WF_nil)), rfl, rfl⟩

/-- the `li` of a footnote after `addBacklink`: `PLF`, when no element of the parsed text has an `id` and no child
    of the surrogate has a truthy tail -/
theorem addBacklink_PLF {li bl li' : Node} (hk : ∀ c ∈ li.children, NI noIdQ c ∧ Node.truthy c.tail = false)
    (hbl : PLF bl) (h : addBacklink li bl = some li') : PLF li' := by
  have hkP : ∀ c ∈ li.children, PLF c := fun c hc => PLF_of_noId c (hk c hc).1
  unfold addBacklink at h
  split at h
  · rename_i hlast
    simp only [Option.some.injEq] at h; subst h
    rw [PLF_iff]
    refine ⟨?_, hkP⟩
    intro _ l hl; rw [hlast] at hl; cases hl
  · rename_i node hlast
    have hmem : node ∈ li.children := List.mem_of_getLast? hlast
    split at h
    · rename_i hp
      split at h
      · simp only [Option.some.injEq] at h; subst h
        rw [PLF_iff]
        constructor
        · intro _ l hl
          rw [getLast?_setLast] at hl
          simp only [Option.some.injEq] at hl; subst hl
          exact ⟨voidT_isTag hp (by decide), (hk node hmem).2⟩
        · intro c hc
          simp only [Node.setLast, List.mem_append, List.mem_singleton] at hc
          rcases hc with hc | rfl
          · exact hkP c ((List.dropLast_prefix _).subset hc)
          · refine PLF_mk_noId (NI_noId_hasId (n := node) (hk node hmem).1) ?_
            intro c hc
            simp only [List.mem_append, List.mem_singleton] at hc
            rcases hc with hc | rfl
            · exact (hkP node hmem).kids c hc
            · exact hbl
      · cases h
    · simp only [Option.some.injEq] at h; subst h
      rw [PLF_iff]
      constructor
      · intro _ l hl
        rw [getLast?_append] at hl
        simp only [Option.some.injEq] at hl; subst hl
        exact ⟨rfl, rfl⟩
      · intro c hc
        simp only [Node.append, List.mem_append, List.mem_singleton] at hc
        rcases hc with hc | rfl
        · exact hkP c hc
        · refine PLF_mk_noId rfl ?_
          intro c hc
          simp only [List.mem_singleton] at hc
          subst hc; exact hbl

theorem makeLis_WF {parse : Block.Refs → Str → Option (Node × Block.Refs)}
    (hparse : ∀ l t s l', parse l t = some (s, l') → WF s) (fnCount : Block.Refs → Nat) :
    ∀ (l : List (Str × Str)) (index : Nat) (log : Block.Refs) (lis : List Node) (log' : Block.Refs),
      makeLis parse fnCount l index log = .ok (lis, log') → ∀ c ∈ lis, WF c := by
  intro l
  induction l with
  | nil =>
    intro index log lis log' h
    simp only [makeLis, R.ok.injEq, Prod.mk.injEq] at h
    obtain ⟨rfl, _⟩ := h; exact WF_nil
  | cons x rest ih =>
    intro index log lis log' h
    obtain ⟨id, text⟩ := x
    simp only [makeLis] at h
    split at h
    · cases h
    · rename_i sur log1 hp
      split at h
      · cases h
      · split at h
        · cases h
        · rename_i li' hli'
          split at h
          · rename_i lis0 log2 hrest
            simp only [R.ok.injEq, Prod.mk.injEq] at h
            obtain ⟨rfl, _⟩ := h
            have hsur := hparse _ _ _ _ hp
            refine WF_cons ?_ (ih _ _ _ _ hrest)
            refine (addBacklink_WF ?_ rfl (WF_backlink id index) hli').1
            exact WF_mk (keysNodup_single _) (fun hv => by cases hv) hsur.kids
          · cases h
          · cases h

theorem makeLis_PLF {parse : Block.Refs → Str → Option (Node × Block.Refs)}
    (hparse : ∀ l t s l', parse l t = some (s, l') → ∀ c ∈ s.children, Node.truthy c.tail = false)
    (hnoid : ∀ l t s l', parse l t = some (s, l') → NI noIdQ s) (fnCount : Block.Refs → Nat) :
    ∀ (l : List (Str × Str)) (index : Nat) (log : Block.Refs) (lis : List Node) (log' : Block.Refs),
      makeLis parse fnCount l index log = .ok (lis, log') → ∀ c ∈ lis, PLF c := by
  intro l
  induction l with
  | nil =>
    intro index log lis log' h
    simp only [makeLis, R.ok.injEq, Prod.mk.injEq] at h
    obtain ⟨rfl, _⟩ := h; intro c hc; cases hc
  | cons x rest ih =>
    intro index log lis log' h
    obtain ⟨id, text⟩ := x
    simp only [makeLis] at h
    split at h
    · cases h
    · rename_i sur log1 hp
      split at h
      · cases h
      · split at h
        · cases h
        · rename_i li' hli'
          split at h
          · rename_i lis0 log2 hrest
            simp only [R.ok.injEq, Prod.mk.injEq] at h
            obtain ⟨rfl, _⟩ := h
            intro c hc
            rcases List.mem_cons.1 hc with rfl | hc
            · refine addBacklink_PLF ?_ (PLF_backlink id index) hli'
              intro c hc
              exact ⟨((NI_iff sur).1 (hnoid _ _ _ _ hp)).2 c hc, hparse _ _ _ _ hp c hc⟩
            · exact ih _ _ _ _ hrest c hc
          · cases h
          · cases h

/-- **`makeFootnotesDiv`** -/
theorem makeDiv_WF {parse : Block.Refs → Str → Option (Node × Block.Refs)} {fnCount : Block.Refs → Nat}
    (hparse : ∀ l t s l', parse l t = some (s, l') → WF s)
    (fns : List (Str × Str)) (log : Block.Refs) {div : Node} {log' : Block.Refs}
    (h : makeDiv parse fnCount fns log = .ok (some div, log')) : WF div := by
  unfold makeDiv at h
  split at h
  · cases h
  · split at h
    · rename_i lis log1 hl
      simp only [R.ok.injEq, Prod.mk.injEq, Option.some.injEq] at h
      obtain ⟨rfl, _⟩ := h
      refine WF_mk (keysNodup_single _) (fun hv => by cases hv) ?_
      refine WF_cons (WF_el "hr") (WF_cons ?_ WF_nil)
      exact WF_mk rfl (fun hv => by cases hv) (makeLis_WF hparse fnCount _ _ _ _ _ hl)
    · cases h
    · cases h

/-- the footnote `div` satisfies `PLF`: the only elements with an `id` are the `li`s, whose last child (if any) is,
    after `addBacklink`, the last `p` of the footnote text (tail falsy by `hparse`) or a fresh `p` -/
theorem makeDiv_PLF {parse : Block.Refs → Str → Option (Node × Block.Refs)} {fnCount : Block.Refs → Nat}
    (hparse : ∀ l t s l', parse l t = some (s, l') → ∀ c ∈ s.children, Node.truthy c.tail = false)
    (hnoid : ∀ l t s l', parse l t = some (s, l') → NI noIdQ s)
    (fns : List (Str × Str)) (log : Block.Refs) {div : Node} {log' : Block.Refs}
    (h : makeDiv parse fnCount fns log = .ok (some div, log')) : PLF div := by
  unfold makeDiv at h
  split at h
  · cases h
  · split at h
    · rename_i lis log1 hl
      simp only [R.ok.injEq, Prod.mk.injEq, Option.some.injEq] at h
      obtain ⟨rfl, _⟩ := h
      refine PLF_mk_noId rfl ?_
      intro c hc
      simp only [List.mem_cons, List.not_mem_nil, or_false] at hc
      rcases hc with rfl | rfl
      · exact PLF_mk_noId rfl (by intro c hc; cases hc)
      · exact PLF_mk_noId rfl (makeLis_PLF hparse hnoid fnCount _ _ _ _ _ hl)
    · cases h
    · cases h

/-- `makeDiv_WF` and `makeDiv_PLF` with the hypotheses on `parser.parseChunk` in one piece -/
theorem makeDiv_WF_PLF {parse : Block.Refs → Str → Option (Node × Block.Refs)} {fnCount : Block.Refs → Nat}
    (hparse : ∀ l t s l', parse l t = some (s, l') → WF s ∧ ∀ c ∈ s.children, Node.truthy c.tail = false)
    (hnoid : ∀ l t s l', parse l t = some (s, l') → NI noIdQ s)
    (fns : List (Str × Str)) (log : Block.Refs) {div : Node} {log' : Block.Refs}
    (h : makeDiv parse fnCount fns log = .ok (some div, log')) : WF div ∧ PLF div :=
  ⟨makeDiv_WF (fun l t s l' e => (hparse l t s l' e).1) fns log h,
   makeDiv_PLF (fun l t s l' e => (hparse l t s l' e).2) hnoid fns log h⟩

/-! ### footnotes: the place marker -/

mutual
theorem placeNode_WF {div : Node} (hd : WF div) : (n n' : Node) → placeNode div n = some n' → WF n →
    WF n' ∧ n'.tag = n.tag ∧ n'.attrs = n.attrs
  | ⟨tag, attrs, text, ta, children, tail, tla⟩, n', h, hn => by
    simp only [placeNode] at h
    split at h
    · rename_i ks hk
      simp only [Option.some.injEq] at h; subst h
      cases children with
      | nil => simp [placeKids] at hk
      | cons c r =>
        have hnv : voidT tag = false := hn.nv_of_child (c := c) List.mem_cons_self
        rw [WF_iff] at hn
        exact ⟨WF_mk hn.1.1 (fun hv => (voidT_false_of_ne hnv hv).elim) (placeKids_WF hd (c :: r) ks hk hn.2), rfl, rfl⟩
    · cases h
theorem placeKids_WF {div : Node} (hd : WF div) : (l l' : List Node) → placeKids div l = some l' →
    (∀ c ∈ l, WF c) → ∀ c ∈ l', WF c
  | [], l', h, _ => by simp [placeKids] at h
  | c :: r, l', h, hl => by
    have hc := hl c List.mem_cons_self
    have hr : ∀ x ∈ r, WF x := fun x hx => hl x (List.mem_cons_of_mem _ hx)
    simp only [placeKids] at h
    split at h
    · simp only [Option.some.injEq] at h; subst h
      exact WF_cons hd hr
    · split at h
      · simp only [Option.some.injEq] at h; subst h
        exact WF_cons (WF_tail hc c.textAtomic _ _) (WF_cons hd hr)
      · split at h
        · rename_i c' hc'
          simp only [Option.some.injEq] at h; subst h
          exact WF_cons (placeNode_WF hd c c' hc' hc).1 hr
        · split at h
          · rename_i r' hr'
            simp only [Option.some.injEq] at h; subst h
            exact WF_cons hc (placeKids_WF hd r r' hr' hr)
          · cases h
end

/-- **`FootnoteTreeprocessor.run`** given the `div` -/
theorem placeDiv_WF {root div : Node} (hr : WF root) (hnv : voidT root.tag = false) (hd : WF div) :
    WF (placeDiv root div) ∧ (placeDiv root div).tag = root.tag ∧ (placeDiv root div).attrs = root.attrs := by
  unfold placeDiv
  split
  · rename_i r hp; exact placeNode_WF hd root r hp hr
  · exact ⟨WF_append hr hnv hd, rfl, rfl⟩

mutual
theorem placeNode_PLF {div : Node} (hd : PLF div) : (n n' : Node) → placeNode div n = some n' → NI noIdQ n →
    PLF n'
  | ⟨tag, attrs, text, ta, children, tail, tla⟩, n', h, hn => by
    simp only [placeNode] at h
    split at h
    · rename_i ks hk
      simp only [Option.some.injEq] at h; subst h
      have hid := NI_noId_hasId hn
      rw [NI_iff] at hn
      exact PLF_mk_noId hid (placeKids_PLF hd children ks hk hn.2)
    · cases h
theorem placeKids_PLF {div : Node} (hd : PLF div) : (l l' : List Node) → placeKids div l = some l' →
    (∀ c ∈ l, NI noIdQ c) → ∀ c ∈ l', PLF c
  | [], l', h, _ => by simp [placeKids] at h
  | c :: r, l', h, hl => by
    have hc := hl c List.mem_cons_self
    have hr : ∀ x ∈ r, PLF x := fun x hx => PLF_of_noId x (hl x (List.mem_cons_of_mem _ hx))
    have cons : ∀ {a : Node} {l : List Node}, PLF a → (∀ x ∈ l, PLF x) → ∀ x ∈ a :: l, PLF x := by
      intro a l ha hl x hx
      rcases List.mem_cons.1 hx with rfl | hx
      · exact ha
      · exact hl x hx
    simp only [placeKids] at h
    split at h
    · simp only [Option.some.injEq] at h; subst h
      exact cons hd hr
    · split at h
      · simp only [Option.some.injEq] at h; subst h
        refine cons ?_ (cons hd hr)
        exact PLF_of_noId _ (BlockExt.NI_fields hc c.text c.textAtomic none false)
      · split at h
        · rename_i c' hc'
          simp only [Option.some.injEq] at h; subst h
          exact cons (placeNode_PLF hd c c' hc' hc) hr
        · split at h
          · rename_i r' hr'
            simp only [Option.some.injEq] at h; subst h
            exact cons (PLF_of_noId c hc)
              (placeKids_PLF hd r r' hr' (fun x hx => hl x (List.mem_cons_of_mem _ hx)))
          · cases h
end

theorem placeDiv_PLF {root div : Node} (hr : NI noIdQ root) (hd : PLF div) : PLF (placeDiv root div) := by
  unfold placeDiv
  split
  · rename_i r hp; exact placeNode_PLF hd root r hp hr
  · refine PLF_mk_noId (NI_noId_hasId (n := root) hr) ?_
    intro c hc
    simp only [Node.append, List.mem_append, List.mem_singleton] at hc
    rcases hc with hc | rfl
    · exact PLF_of_noId c (((NI_iff root).1 hr).2 c hc)
    · exact hd

end Footnotes

/-! ### footnotes: the duplicated back-links

`FootnotePostTreeprocessor` runs over every `div.footnote`, the nested ones first, so the invariant it needs has to
be preserved: `PLw` (the last child of an element with an `id` is not void — `PL` without the condition on the tail,
which a copied back-link need not satisfy). -/

section Dup
open FootnotesTree

/-- the last element of the list, if any, is not void -/
def nvLast (l : List Node) : Prop := ∀ x, l.getLast? = some x → voidT x.tag = false

/-- an element with an `id` attribute: its last child (if any) is not void -/
def PLw (n : Node) : Prop := hasId n = true → nvLast n.children

/-- `WF` and `PLw` at every element -/
def G (n : Node) : Prop := n.Forall (fun m => W m ∧ PLw m)

theorem G_iff (n : Node) : G n ↔ (W n ∧ PLw n) ∧ ∀ c ∈ n.children, G c := Node.forall_iff _ n

mutual
theorem G_of : (n : Node) → WF n → PLF n → G n
  | ⟨tag, attrs, text, ta, children, tail, tla⟩, hw, hp => by
    rw [WF_iff] at hw
    rw [PLF_iff] at hp
    rw [G_iff]
    refine ⟨⟨hw.1, fun hid x hx => (hp.1 hid x hx).1⟩, G_ofL children hw.2 hp.2⟩
theorem G_ofL : (l : List Node) → (∀ c ∈ l, WF c) → (∀ c ∈ l, PLF c) → ∀ c ∈ l, G c
  | [], _, _ => by intro c hc; cases hc
  | a :: r, hw, hp => by
    intro x hx
    rcases List.mem_cons.1 hx with e | hx
    · rw [e]; exact G_of a (hw _ List.mem_cons_self) (hp _ List.mem_cons_self)
    · exact G_ofL r (fun y hy => hw y (List.mem_cons_of_mem _ hy)) (fun y hy => hp y (List.mem_cons_of_mem _ hy)) x hx
end

mutual
theorem G_WF : (n : Node) → G n → WF n
  | ⟨tag, attrs, text, ta, children, tail, tla⟩, h => by
    rw [G_iff] at h
    rw [WF_iff]
    exact ⟨h.1.1, G_WFL children h.2⟩
theorem G_WFL : (l : List Node) → (∀ c ∈ l, G c) → ∀ c ∈ l, WF c
  | [], _ => by intro c hc; cases hc
  | a :: r, h => by
    intro x hx
    rcases List.mem_cons.1 hx with e | hx
    · rw [e]; exact G_WF a (h _ List.mem_cons_self)
    · exact G_WFL r (fun y hy => h y (List.mem_cons_of_mem _ hy)) x hx
end

theorem G_cons {c : Node} {r : List Node} (hc : G c) (hr : ∀ x ∈ r, G x) : ∀ x ∈ c :: r, G x := by
  intro x hx
  rcases List.mem_cons.1 hx with rfl | hx
  · exact hc
  · exact hr x hx

theorem nvLast_tags {l l' : List Node} (ht : l'.map Node.tag = l.map Node.tag) (h : nvLast l) : nvLast l' := by
  intro x hx
  have h1 : (l'.map Node.tag).getLast? = some x.tag := by rw [List.getLast?_map, hx]; rfl
  rw [ht, List.getLast?_map] at h1
  cases hl : l.getLast? with
  | none => rw [hl] at h1; cases h1
  | some y =>
    rw [hl] at h1
    simp only [Option.map_some, Option.some.injEq] at h1
    rw [← h1]; exact h y hl

/-- new children with the same tags, one by one -/
theorem G_node {tag : Tag} {attrs : List (Str × Str)} {text : Option Str} {ta : Bool} {children : List Node}
    {tail : Option Str} {tla : Bool} {ks : List Node} (h : G ⟨tag, attrs, text, ta, children, tail, tla⟩)
    (hk : ∀ c ∈ ks, G c) (ht : ks.map Node.tag = children.map Node.tag) : G ⟨tag, attrs, text, ta, ks, tail, tla⟩ := by
  rw [G_iff] at h ⊢
  refine ⟨⟨⟨h.1.1.1, ?_⟩, ?_⟩, hk⟩
  · intro hv
    have hh := h.1.1.2 hv
    refine ⟨hh.1, ?_⟩
    have hc : children = [] := hh.2
    rw [hc] at ht
    simpa using ht
  · intro hid
    exact nvLast_tags ht (h.1.2 hid)

mutual
theorem firstBackref_G : (n a : Node) → firstBackref n = some a → G n → G a ∧ a.tag = .name "a".toList
  | ⟨tag, attrs, text, ta, children, tail, tla⟩, a, h, hn => by
    simp only [firstBackref] at h
    split at h
    · rename_i hc
      simp only [Option.some.injEq] at h; subst h
      simp only [Bool.and_eq_true, beq_iff_eq] at hc
      exact ⟨hn, hc.1⟩
    · rw [G_iff] at hn
      exact firstBackrefKids_G children a h hn.2
theorem firstBackrefKids_G : (l : List Node) → (a : Node) → firstBackrefKids l = some a → (∀ c ∈ l, G c) →
    G a ∧ a.tag = .name "a".toList
  | [], a, h, _ => by simp [firstBackrefKids] at h
  | c :: r, a, h, hl => by
    simp only [firstBackrefKids] at h
    split at h
    · rename_i a' ha'
      simp only [Option.some.injEq] at h; subst h
      exact firstBackref_G c a' ha' (hl c List.mem_cons_self)
    · exact firstBackrefKids_G r a h (fun x hx => hl x (List.mem_cons_of_mem _ hx))
end

theorem any_setAttr (n : Node) {k i : Str} (hk : k ≠ i) (v : Str) :
    (n.setAttr k v).attrs.any (fun kv => kv.1 = i) = n.attrs.any (fun kv => kv.1 = i) := by
  unfold Node.setAttr
  split
  · simp only [List.any_map]
    congr 1
    funext kv
    simp only [Function.comp]
    split
    · rename_i e
      subst e
      rfl
    · rfl
  · simp only [List.any_append, List.any_cons, List.any_nil, Bool.or_false]
    rw [decide_eq_false hk, Bool.or_false]

theorem hasId_setAttr_ne (n : Node) {k : Str} (hk : k ≠ "id".toList) (v : Str) : hasId (n.setAttr k v) = hasId n :=
  any_setAttr n hk v

theorem G_setAttr {n : Node} (h : G n) {k : Str} (hk : k ≠ "id".toList) (v : Str) : G (n.setAttr k v) := by
  obtain ⟨e1, e2, e3⟩ := setAttr_tag n k v
  rw [G_iff] at h ⊢
  refine ⟨⟨⟨keysNodup_setAttr h.1.1.1 k v, ?_⟩, ?_⟩, by rw [e3]; exact h.2⟩
  · rw [e1, e2, e3]; exact h.1.1.2
  · unfold PLw; rw [hasId_setAttr_ne n hk v, e3]; exact h.1.2

/-- the `li` has an `id` attribute when `split(':')` of its value succeeds -/
theorem hasId_of_split {li : Node} {p : Str × Str}
    (h : Footnotes.splitFirst ':' ((li.getAttr "id".toList).getD []) = some p) : hasId li = true := by
  cases hid : hasId li with
  | true => rfl
  | false =>
    have hf : li.attrs.find? (fun kv => kv.1 = "id".toList) = none := by
      rw [List.find?_eq_none]
      intro x hx hxe
      have : hasId li = true := List.any_eq_true.2 ⟨x, hx, hxe⟩
      rw [hid] at this; cases this
    simp only [Node.getAttr, hf, Option.map_none, Option.getD_none, Footnotes.splitFirst] at h
    cases h

theorem dupLi_G (fn : Footnotes.State) {li li' : Node} (h : dupLi fn li = some li') (hli : G li) :
    G li' ∧ li'.tag = li.tag := by
  unfold dupLi at h
  simp only at h
  split at h
  · cases h
  · rename_i p hsplit
    split at h
    · split at h
      · simp only [Option.some.injEq] at h; subst h; exact ⟨hli, rfl⟩
      · rename_i link hlink
        have hl := firstBackref_G li link hlink hli
        split at h
        · cases h
        · split at h
          · rename_i last hlast
            simp only [Option.some.injEq] at h; subst h
            refine ⟨?_, rfl⟩
            have hid := hasId_of_split hsplit
            have hmem : last ∈ li.children := List.mem_of_getLast? hlast
            have hli' := (G_iff li).1 hli
            have hnv : voidT last.tag = false := hli'.1.2 hid last hlast
            have hlastG := hli'.2 last hmem
            have hlinks : ∀ c ∈ (Footnotes.duplicateLinks (Footnotes.numDuplicates ((li.getAttr "id".toList).getD []) fn)
                [(link.getAttr "href".toList).getD []]).map (fun h => link.setAttr "href".toList h),
                G c ∧ c.tag = .name "a".toList := by
              intro c hc
              obtain ⟨hh, _, rfl⟩ := List.mem_map.1 hc
              exact ⟨G_setAttr hl.1 (by decide) _, (setAttr_tag link _ _).1.trans hl.2⟩
            -- the new last child
            have hlast' : G { last with children := last.children ++
                (Footnotes.duplicateLinks (Footnotes.numDuplicates ((li.getAttr "id".toList).getD []) fn)
                  [(link.getAttr "href".toList).getD []]).map (fun h => link.setAttr "href".toList h) } := by
              have hl0 := (G_iff last).1 hlastG
              rw [G_iff]
              refine ⟨⟨⟨hl0.1.1.1, fun hv => (voidT_false_of_ne hnv hv).elim⟩, ?_⟩, ?_⟩
              · intro hid' x hx
                rw [List.getLast?_append] at hx
                cases hlk : ((Footnotes.duplicateLinks (Footnotes.numDuplicates ((li.getAttr "id".toList).getD []) fn)
                  [(link.getAttr "href".toList).getD []]).map (fun h => link.setAttr "href".toList h)).getLast? with
                | none =>
                  rw [hlk] at hx
                  simp only [Option.none_or] at hx
                  exact hl0.1.2 hid' x hx
                | some y =>
                  rw [hlk] at hx
                  simp only [Option.some_or, Option.some.injEq] at hx
                  subst hx
                  rw [(hlinks y (List.mem_of_getLast? hlk)).2]; rfl
              · intro c hc
                rcases List.mem_append.1 hc with hc | hc
                · exact hl0.2 c hc
                · exact (hlinks c hc).1
            rw [G_iff]
            refine ⟨⟨⟨hli'.1.1.1, fun hv => (voidT_false_of_ne (WF.nv_of_child (G_WF li hli) hmem) hv).elim⟩, ?_⟩, ?_⟩
            · intro _ x hx
              have : (li.setLast _).last? = some x := hx
              rw [getLast?_setLast] at this
              simp only [Option.some.injEq] at this
              rw [← this]; exact hnv
            · intro c hc
              simp only [Node.setLast, List.mem_append, List.mem_singleton] at hc
              rcases hc with hc | rfl
              · exact hli'.2 c ((List.dropLast_prefix _).subset hc)
              · exact hlast'
          · cases h
    · simp only [Option.some.injEq] at h; subst h; exact ⟨hli, rfl⟩

theorem dupLis_G (fn : Footnotes.State) : ∀ (l l' : List Node), dupLis fn l = some l' → (∀ c ∈ l, G c) →
    (∀ c ∈ l', G c) ∧ l'.map Node.tag = l.map Node.tag := by
  intro l
  induction l with
  | nil =>
    intro l' h _
    simp only [dupLis, Option.some.injEq] at h; subst h
    exact ⟨(by intro c hc; cases hc), rfl⟩
  | cons c r ih =>
    intro l' h hl
    simp only [dupLis] at h
    split at h
    · rename_i c' r' e1 e2
      simp only [Option.some.injEq] at h; subst h
      have h1 := dupLi_G fn e1 (hl c List.mem_cons_self)
      have h2 := ih r' e2 (fun x hx => hl x (List.mem_cons_of_mem _ hx))
      exact ⟨G_cons h1.1 h2.1, by simp only [List.map_cons, h1.2, h2.2]⟩
    · cases h

mutual
theorem dupFirstOl_G (fn : Footnotes.State) : (n : Node) → (r : Node × Bool) → dupFirstOl fn n = some r → G n →
    G r.1 ∧ r.1.tag = n.tag ∧ r.1.attrs = n.attrs
  | ⟨tag, attrs, text, ta, children, tail, tla⟩, r, h, hn => by
    have hkids := ((G_iff _).1 hn).2
    simp only [dupFirstOl] at h
    split at h
    · split at h
      · rename_i ks hks
        simp only [Option.some.injEq] at h; subst h
        have := dupLis_G fn _ _ hks hkids
        exact ⟨G_node hn this.1 this.2, rfl, rfl⟩
      · cases h
    · split at h
      · rename_i ks found hks
        simp only [Option.some.injEq] at h; subst h
        have := dupFirstOlKids_G fn children (ks, found) hks hkids
        exact ⟨G_node hn this.1 this.2, rfl, rfl⟩
      · cases h
theorem dupFirstOlKids_G (fn : Footnotes.State) : (l : List Node) → (r : List Node × Bool) →
    dupFirstOlKids fn l = some r → (∀ c ∈ l, G c) → (∀ c ∈ r.1, G c) ∧ r.1.map Node.tag = l.map Node.tag
  | [], r, h, _ => by
    simp only [dupFirstOlKids, Option.some.injEq] at h; subst h
    exact ⟨(by intro c hc; cases hc), rfl⟩
  | c :: rest, r, h, hl => by
    have hc := hl c List.mem_cons_self
    have hr : ∀ x ∈ rest, G x := fun x hx => hl x (List.mem_cons_of_mem _ hx)
    simp only [dupFirstOlKids] at h
    split at h
    · cases h
    · rename_i c' hc'
      simp only [Option.some.injEq] at h; subst h
      have h1 := dupFirstOl_G fn c (c', true) hc' hc
      have e : c'.tag = c.tag := h1.2.1
      exact ⟨G_cons h1.1 hr, by simp only [List.map_cons, e]⟩
    · rename_i c' hc'
      split at h
      · rename_i r' found hr'
        simp only [Option.some.injEq] at h; subst h
        have h1 := dupFirstOl_G fn c (c', false) hc' hc
        have h2 := dupFirstOlKids_G fn rest (r', found) hr' hr
        have e : c'.tag = c.tag := h1.2.1
        have e2 : r'.map Node.tag = rest.map Node.tag := h2.2
        exact ⟨G_cons h1.1 h2.1, by simp only [List.map_cons, e, e2]⟩
      · cases h
end

mutual
theorem duplicates_G (fn : Footnotes.State) : (n n' : Node) → duplicates fn n = some n' → G n →
    G n' ∧ n'.tag = n.tag ∧ n'.attrs = n.attrs
  | ⟨tag, attrs, text, ta, children, tail, tla⟩, n', h, hn => by
    have hkids := ((G_iff _).1 hn).2
    simp only [duplicates] at h
    split at h
    · cases h
    · rename_i ks hks
      have hks' := duplicatesKids_G fn children ks hks hkids
      have hnew : G ⟨tag, attrs, text, ta, ks, tail, tla⟩ := G_node hn hks'.1 hks'.2
      split at h
      · simp only [Option.map_eq_some_iff] at h
        obtain ⟨r, hr, rfl⟩ := h
        exact dupFirstOl_G fn ⟨tag, attrs, text, ta, ks, tail, tla⟩ r hr hnew
      · simp only [Option.some.injEq] at h; subst h; exact ⟨hnew, rfl, rfl⟩
theorem duplicatesKids_G (fn : Footnotes.State) : (l l' : List Node) → duplicatesKids fn l = some l' →
    (∀ c ∈ l, G c) → (∀ c ∈ l', G c) ∧ l'.map Node.tag = l.map Node.tag
  | [], l', h, _ => by
    simp only [duplicatesKids, Option.some.injEq] at h; subst h
    exact ⟨(by intro c hc; cases hc), rfl⟩
  | c :: r, l', h, hl => by
    simp only [duplicatesKids] at h
    split at h
    · rename_i c' r' e1 e2
      simp only [Option.some.injEq] at h; subst h
      have h1 := duplicates_G fn c c' e1 (hl c List.mem_cons_self)
      have h2 := duplicatesKids_G fn r r' e2 (fun x hx => hl x (List.mem_cons_of_mem _ hx))
      exact ⟨G_cons h1.1 h2.1, by simp only [List.map_cons, h1.2.1, h2.2]⟩
    · cases h
end

/-- **`FootnotePostTreeprocessor`** -/
theorem duplicates_WF (fn : Footnotes.State) {t t' : Node} (h : duplicates fn t = some t') (hw : WF t) (hp : PLF t) :
    WF t' ∧ t'.tag = t.tag ∧ t'.attrs = t.attrs := by
  have := duplicates_G fn t t' h (G_of t hw hp)
  exact ⟨G_WF t' this.1, this.2⟩

end Dup

/-! ### `attr_list` -/

section AttrListS
open AttrList AttrListTree

/-- `elem.set(k, v)` on the attribute list -/
theorem keysNodup_setA {a : Attrs} (h : Ser.keysNodup a = true) (k v : Str) : Ser.keysNodup (setA a k v) = true := by
  unfold setA
  split
  · refine keysNodup_sameKeys ?_ h
    simp only [List.map_map]
    apply List.map_congr_left
    intro kv _
    simp only [Function.comp]
    split
    · rename_i e; exact e.symm
    · rfl
  · rename_i hany
    rw [keysNodup_iff] at h ⊢
    simp only [List.map_append, List.map_cons, List.map_nil]
    rw [List.nodup_append]
    refine ⟨h, by simp, ?_⟩
    intro x hx y hy
    simp only [List.mem_singleton] at hy
    subst hy
    intro e; subst e
    obtain ⟨z, hz, e⟩ := List.mem_map.1 hx
    exact hany (List.any_eq_true.2 ⟨z, hz, by simp [e]⟩)

theorem keysNodup_assignStep {a : Attrs} (h : Ser.keysNodup a = true) (p : Str × Str) :
    Ser.keysNodup (assignStep a p) = true := by
  unfold assignStep
  split
  · split
    · exact keysNodup_setA h _ _
    · exact keysNodup_setA h _ _
  · exact keysNodup_setA h _ _

theorem keysNodup_assignPairs : ∀ (pairs : List (Str × Str)) {a : Attrs}, Ser.keysNodup a = true →
    Ser.keysNodup (assignPairs a pairs) = true := by
  intro pairs
  induction pairs with
  | nil => intro a h; exact h
  | cons p r ih =>
    intro a h
    simp only [assignPairs, List.foldl_cons]
    exact ih (keysNodup_assignStep h p)

theorem keysNodup_assignAttrs {a : Attrs} (h : Ser.keysNodup a = true) (s : Str) (strict : Bool) :
    Ser.keysNodup (assignAttrs a s strict).1 = true := by
  unfold assignAttrs
  simp only
  split
  · exact h
  · exact keysNodup_assignPairs _ h

theorem keysNodup_blockApply (header hashes : Bool) {a : Attrs} (h : Ser.keysNodup a = true) (text : Str) :
    Ser.keysNodup (blockApply header hashes a text).1 = true := by
  unfold blockApply
  split
  · exact h
  · simp only
    split
    · exact keysNodup_assignAttrs h _ true
    · exact h

theorem keysNodup_inlineApply {a : Attrs} (h : Ser.keysNodup a = true) (tail : Str) :
    Ser.keysNodup (inlineApply a tail).1 = true := by
  unfold inlineApply
  split
  · exact h
  · exact keysNodup_assignAttrs h _ false

/-- what the walk needs of `blockRule`: distinct names; the text is replaced only when it was truthy -/
def BRok (text : Option Str) (p : Attrs × Option Str × Option (Nat × Str)) : Prop :=
  Ser.keysNodup p.1 = true ∧ (Node.truthy text = false → p.2.1 = none)

theorem blockRule_ok (tag : Tag) {attrs : Attrs} (hn : Ser.keysNodup attrs = true) (text : Option Str)
    (children : List Node) : BRok text (blockRule tag attrs text children) := by
  have hTail : ∀ (header hashes : Bool) (tl : Str) (i : Nat),
      BRok text (if (blockApply header hashes attrs tl).2 = tl then
          ((blockApply header hashes attrs tl).1, (none : Option Str), (none : Option (Nat × Str)))
        else ((blockApply header hashes attrs tl).1, none, some (i, (blockApply header hashes attrs tl).2))) := by
    intro header hashes tl i
    split <;> exact ⟨keysNodup_blockApply _ _ hn _, fun _ => rfl⟩
  have hText : ∀ (header hashes : Bool),
      BRok text (if Node.truthy text = true then
          (if (blockApply header hashes attrs (text.getD [])).2 = text.getD [] then
            ((blockApply header hashes attrs (text.getD [])).1, (none : Option Str), (none : Option (Nat × Str)))
           else ((blockApply header hashes attrs (text.getD [])).1, some (blockApply header hashes attrs (text.getD [])).2, none))
        else (attrs, none, none)) := by
    intro header hashes
    split
    · rename_i ht
      split
      · exact ⟨keysNodup_blockApply _ _ hn _, fun _ => rfl⟩
      · exact ⟨keysNodup_blockApply _ _ hn _, fun hf => by rw [ht] at hf; cases hf⟩
    · exact ⟨hn, fun _ => rfl⟩
  unfold blockRule
  dsimp only
  split
  · split
    · split
      · exact hTail _ _ _ _
      · exact hText _ _
    · split
      · exact hTail _ _ _ _
      · exact hText _ _
  · split
    · exact hTail _ _ _ _
    · exact hText _ _

mutual
theorem attrNode_WF (bl : List Str) (ov : Option Str) : (n : Node) → WF n →
    WF (attrNode bl ov n) ∧ (attrNode bl ov n).tag = n.tag
  | ⟨tag, attrs, text, ta, children, tail0, tla0⟩, h => by
    rw [WF_iff] at h
    have hkids : ∀ o, (∀ c ∈ attrKids bl o 0 children, WF c) ∧ (children = [] → attrKids bl o 0 children = []) :=
      fun o => attrKids_WF bl o 0 children h.2
    have hvoid : ∀ o, voidT tag = true → Node.truthy text = false ∧ attrKids bl o 0 children = [] := by
      intro o hv
      have hh := h.1.2 hv
      exact ⟨hh.1, (hkids o).2 hh.2⟩
    have hbr := blockRule_ok tag h.1.1 text children
    have hblock : ∀ (tl : Option Str) (tla : Bool),
        WF ⟨tag, (blockRule tag attrs text children).1,
          (match (blockRule tag attrs text children).2.1 with | some t => some t | none => text),
          (match (blockRule tag attrs text children).2.1 with | some _ => false | none => ta),
          attrKids bl (blockRule tag attrs text children).2.2 0 children, tl, tla⟩ := by
      intro tl tla
      refine WF_mk hbr.1 ?_ (hkids _).1
      intro hv
      have hh := hvoid (blockRule tag attrs text children).2.2 hv
      refine ⟨?_, hh.2⟩
      rw [hbr.2 hh.1]; exact hh.1
    cases ov with
    | none =>
      unfold attrNode
      dsimp only
      split
      · exact ⟨hblock _ _, rfl⟩
      · split
        · split
          · exact ⟨WF_mk (keysNodup_inlineApply h.1.1 _) (hvoid _) (hkids _).1, rfl⟩
          · exact ⟨WF_mk h.1.1 (hvoid _) (hkids _).1, rfl⟩
        · exact ⟨WF_mk h.1.1 (hvoid _) (hkids _).1, rfl⟩
    | some t =>
      unfold attrNode
      dsimp only
      split
      · exact ⟨hblock _ _, rfl⟩
      · split
        · split
          · exact ⟨WF_mk (keysNodup_inlineApply h.1.1 _) (hvoid _) (hkids _).1, rfl⟩
          · exact ⟨WF_mk h.1.1 (hvoid _) (hkids _).1, rfl⟩
        · exact ⟨WF_mk h.1.1 (hvoid _) (hkids _).1, rfl⟩
theorem attrKids_WF (bl : List Str) (ov : Option (Nat × Str)) : (i : Nat) → (l : List Node) → (∀ c ∈ l, WF c) →
    (∀ c ∈ attrKids bl ov i l, WF c) ∧ (l = [] → attrKids bl ov i l = [])
  | _, [], _ => by unfold attrKids; exact ⟨WF_nil, fun _ => rfl⟩
  | i, c :: r, h => by
    unfold attrKids
    exact ⟨WF_cons (attrNode_WF bl _ c (h c List.mem_cons_self)).1
      (attrKids_WF bl ov (i + 1) r (fun x hx => h x (List.mem_cons_of_mem _ hx))).1, fun e => by cases e⟩
end

/-- **`AttrListTreeprocessor`**: tags are untouched, attribute names stay pairwise distinct (`elem.set`), a text is
    replaced only when it was truthy -/
theorem attrRun_WF (bl : List Str) {t : Node} (h : WF t) :
    WF (AttrListTree.run bl t) ∧ (AttrListTree.run bl t).tag = t.tag := attrNode_WF bl none t h

end AttrListS

end MdVerif.VocabXWF
