/-
Lemmas for `Props/C02Big.lean`, section 6: the two loops of `InlineX.runX` (the inline tree processor over a pattern
table) terminate — the live loop over the children within the model's fuel, the stack loop within `bigFuel`.

Transcription of `Lemmas/InlineFuelRun.lean` (the contract `VisitOK`, `visitLoop_total`, `runLoop_total`) and of the first
half of `Lemmas/InlineFuelVisit.lean` (`textStep_acc`, `tailStep_acc`, `visitOK_inline`, `run_total_big`) to the functions of
`Model/InlineX.lean`, with the potential of `Lemmas/C02BigNPot.lean` (which also counts `\n` and `^`).  The table must
not contain the wikilink pattern (`TableOK`, see `Lemmas/C02BigNHI.lean`).  Core Lean only.
-/
import MdVerif.Lemmas.C02BigNPP
import MdVerif.Lemmas.InlineFuelVisit

namespace MdVerif.InlineN
open MdVerif.Inline
open Py
open NoCtl hiding STX ETX
open InlineX

/-! ### one visit of a child -/

/-- the text half of `visitChildX` -/
def textStepX (xc : XCfg) (child : Node) (x : XSt) : Option (Node × List Node × XSt) :=
  if Node.truthy child.text && !child.textAtomic then
    match handleInlineTopX xc (child.text.getD []) x with
    | none => none
    | some (data, x1) =>
      match ppTop x1.st data false { child with text := none, textAtomic := false } true with
      | none => none
      | some (lst, c1) => some (c1, lst, x1)
  else some (child, [], x)

/-- the tail half of `visitChildX` -/
def tailStepX (xc : XCfg) (c1 : Node) (x1 : XSt) : Option (Node × List Node × XSt) :=
  if Node.truthy c1.tail then
    let tl := c1.tail.getD []
    let h : Option (Str × XSt) := if c1.tailAtomic then some (tl, x1) else handleInlineTopX xc tl x1
    match h with
    | none => none
    | some (data, x2) =>
      match ppTop x2.st data c1.tailAtomic (mkEl "d") false with
      | none => none
      | some (tr, dumby) =>
        let c2 : Node :=
          if Node.truthy dumby.tail then { c1 with tail := dumby.tail, tailAtomic := dumby.tailAtomic }
          else { c1 with tail := none, tailAtomic := false }
        some (c2, tr, x2)
  else some (c1, [], x1)

theorem visitChildX_eq (xc : XCfg) (child : Node) (v : VisitX) :
    visitChildX xc child v =
      match textStepX xc child v.x with
      | none => none
      | some (c1, lst, x1) =>
        match tailStepX xc c1 x1 with
        | none => none
        | some (c2, tr, x2) =>
          let i := v.done.length
          let pushes := ((List.range lst.length).map (fun k => [i, k])).reverse ++ v.pushes
          let pushes := if child.children.isEmpty then pushes else [i] :: pushes
          let c3 := { c2 with children := lst ++ c2.children }
          some (c3, tr, { v with pushes := pushes, x := x2 }) := by
  unfold visitChildX textStepX tailStepX
  rfl

/-- what `visitChild` does to the bookkeeping of the loop, whatever the inline engine did -/
theorem visitChildX_shape {xc : XCfg} {child : Node} {v : VisitX} {c : Node} {tr : List Node} {v' : VisitX}
    (h : visitChildX xc child v = some (c, tr, v')) :
    v'.done = v.done ∧ v'.posmap = v.posmap ∧
      ∃ new, v'.pushes = new ++ v.pushes ∧ new.length ≤ c.children.length + 1 ∧
        ∀ q ∈ new, 1 ≤ q.length ∧ q.length ≤ 2 := by
  rw [visitChildX_eq] at h
  split at h
  · cases h
  · next c1 lst st1 _ =>
    split at h
    · cases h
    · next c2 tr' st2 _ =>
      simp only [Option.some.injEq, Prod.mk.injEq] at h
      obtain ⟨rfl, rfl, rfl⟩ := h
      refine ⟨rfl, rfl, ?_⟩
      have hR : ∀ q ∈ ((List.range lst.length).map (fun k => [v.done.length, k])).reverse, 1 ≤ q.length ∧ q.length ≤ 2 := by
        intro q hq
        simp only [List.mem_reverse, List.mem_map, List.mem_range] at hq
        obtain ⟨k, _, rfl⟩ := hq
        simp
      by_cases he : child.children.isEmpty = true
      · refine ⟨((List.range lst.length).map (fun k => [v.done.length, k])).reverse, by simp [he], ?_, hR⟩
        simp
        omega
      · refine ⟨[v.done.length] :: ((List.range lst.length).map (fun k => [v.done.length, k])).reverse,
          by simp [he], ?_, ?_⟩
        · simp
        · intro q hq
          rcases List.mem_cons.1 hq with rfl | hq
          · simp
          · exact hR q hq

/-- **the contract**: potential and invariants of the elements (`own`, `ok`: local, they do not look at the
    children) and of the state (`sok`, `ext`), and what one visit of a child guarantees -/
structure VisitOKX (xc : XCfg) (own : St → Node → Nat) (ok : St → Node → Prop) (sok : St → Prop)
    (ext : St → St → Prop) : Prop where
  own_pos : ∀ st n, 1 ≤ own st n
  own_children : ∀ st (n : Node) (l : List Node), own st { n with children := l } = own st n
  ok_children : ∀ st (n : Node) (l : List Node), ok st n → ok st { n with children := l }
  ext_refl : ∀ st, ext st st
  ext_trans : ∀ a b c, ext a b → ext b c → ext a c
  frame : ∀ st st' n, ext st st' → ok st n → ok st' n ∧ own st' n = own st n
  visit : ∀ (child : Node) (v : VisitX), sok v.x.st → child.Forall (ok v.x.st) →
    ∃ c tr v', visitChildX xc child v = some (c, tr, v') ∧ sok v'.x.st ∧ ext v.x.st v'.x.st ∧ c.Forall (ok v'.x.st) ∧
      (∀ t ∈ tr, t.Forall (ok v'.x.st)) ∧
      npot (own v'.x.st) c + lpot (own v'.x.st) tr ≤ npot (own v.x.st) child


section contract
variable {xc : XCfg} {own : St → Node → Nat} {ok : St → Node → Prop} {sok : St → Prop} {ext : St → St → Prop}

theorem VisitOKX.frame_tree (C : VisitOKX xc own ok sok ext) {st st' : St} (he : ext st st') {n : Node}
    (h : n.Forall (ok st)) : n.Forall (ok st') ∧ npot (own st') n = npot (own st) n :=
  ⟨Node.Forall.mono (fun m hm => (C.frame st st' m he hm).1) n h,
   npot_congr n (Node.Forall.mono (fun m hm => (C.frame st st' m he hm).2) n h)⟩

theorem VisitOKX.frame_list (C : VisitOKX xc own ok sok ext) {st st' : St} (he : ext st st') :
    ∀ (l : List Node), (∀ d ∈ l, d.Forall (ok st)) →
      (∀ d ∈ l, d.Forall (ok st')) ∧ lpot (own st') l = lpot (own st) l := by
  intro l
  induction l with
  | nil => intro _; exact ⟨(by intro d hd; cases hd), (by simp)⟩
  | cons c r ih =>
    intro h
    obtain ⟨a1, a2⟩ := C.frame_tree he (h c (List.mem_cons_self ..))
    obtain ⟨b1, b2⟩ := ih (fun d hd => h d (List.mem_cons_of_mem _ hd))
    refine ⟨?_, by simp [a2, b2]⟩
    intro d hd
    rcases List.mem_cons.1 hd with rfl | hd
    · exact a1
    · exact b1 d hd

/-- **the live loop over the children terminates** within `Σ pot(todo) + 1` turns, conserves the potential, and
    pushes fewer paths than the potential of the elements it finishes -/
theorem visitLoopX_total (C : VisitOKX xc own ok sok ext) :
    ∀ (g : Nat) (todo : List (Node × Option Nat)) (v : VisitX), sok v.x.st →
      (∀ x ∈ todo, x.1.Forall (ok v.x.st)) → (∀ d ∈ v.done, d.Forall (ok v.x.st)) →
      lpot (own v.x.st) (todo.map (·.1)) < g →
      ∃ r, visitLoopX xc g todo v = some r ∧ sok r.x.st ∧ ext v.x.st r.x.st ∧ (∀ d ∈ r.done, d.Forall (ok r.x.st)) ∧
        lpot (own r.x.st) r.done ≤ lpot (own v.x.st) v.done + lpot (own v.x.st) (todo.map (·.1)) ∧
        ∃ new, r.pushes = new ++ v.pushes ∧ new.length + lpot (own v.x.st) v.done ≤ lpot (own r.x.st) r.done ∧
          ∀ q ∈ new, 1 ≤ q.length ∧ q.length ≤ 2 := by
  intro g
  induction g with
  | zero => intro todo v _ _ _ h; omega
  | succ g ih =>
    intro todo v hs htodo hdone hg
    cases todo with
    | nil =>
      refine ⟨v, by simp [visitLoopX], hs, C.ext_refl _, hdone, by simp, [], by simp, by simp, by intro q hq; cases hq⟩
    | cons x rest =>
      obtain ⟨child, orig⟩ := x
      cases orig
      all_goals (
        obtain ⟨c, tr, v1, hv, s1, e1, okc, oktr, hpot⟩ := C.visit child v hs (htodo _ (List.mem_cons_self ..))
        obtain ⟨sh1, sh2, new1, sh3, sh4, sh5⟩ := visitChildX_shape hv
        simp only [visitLoopX, hv]
        -- the rest of the worklist and the finished children, seen from the new state
        obtain ⟨r1, r2⟩ := C.frame_list e1 (rest.map (·.1)) (by
          intro d hd
          obtain ⟨y, hy, rfl⟩ := List.mem_map.1 hd
          exact htodo y (List.mem_cons_of_mem _ hy))
        obtain ⟨d1, d2⟩ := C.frame_list e1 v.done hdone
        have hpc : 1 ≤ npot (own v1.x.st) c := by
          rw [npot_def]; have := C.own_pos v1.x.st c; omega
        simp only [List.map_cons, lpot_cons] at hg
        obtain ⟨r, hr, s2, e2, okd, hcons, new2, p1, p2, p3⟩ := ih
          (tr.map (fun n => (n, none)) ++ rest)
          { v1 with done := c :: v1.done, posmap := _ }
          s1
          (by
            intro y hy
            rcases List.mem_append.1 hy with hy | hy
            · obtain ⟨n, hn, rfl⟩ := List.mem_map.1 hy
              exact oktr n hn
            · exact r1 _ (List.mem_map.2 ⟨y, hy, rfl⟩))
          (by
            intro d hd
            simp only [sh1] at hd
            rcases List.mem_cons.1 hd with rfl | hd
            · exact okc
            · exact d1 d hd)
          (by
            simp only [List.map_append, lpot_append, lpot_map_fst, r2]
            omega)
        refine ⟨r, hr, s2, C.ext_trans _ _ _ e1 e2, okd, ?_, new2 ++ new1, ?_, ?_, ?_⟩
        · simp only [sh1, lpot_cons, List.map_append, lpot_append, lpot_map_fst, r2, d2, List.map_cons] at hcons ⊢
          omega
        · simp only [p1, sh3, List.append_assoc]
        · simp only [sh1, lpot_cons, d2, List.length_append] at p2 ⊢
          have := children_lt_pot (C.own_pos v1.x.st) c
          omega
        · intro q hq
          rcases List.mem_append.1 hq with hq | hq
          · exact p3 q hq
          · exact sh5 q hq
      )

/-! ### the stack loop -/

/-- **the stack loop terminates**: with inner fuel above `N ≥ pot root` and outer fuel above
    `Σ_{q ∈ stack} (N+1)^(N+2-|q|)` -/
theorem runLoopX_total (C : VisitOKX xc own ok sok ext) (N g2 : Nat) (hg2 : N < g2) :
    ∀ (g : Nat) (root : Node) (stack : List Path) (x : XSt), sok x.st → root.Forall (ok x.st) →
      npot (own x.st) root ≤ N → (∀ q ∈ stack, q.length ≤ N + 1) → phi (N + 1) (N + 2) stack < g →
      (runLoopX xc g2 g root stack x).isSome = true := by
  intro g
  induction g with
  | zero => intro root stack x _ _ _ _ h; omega
  | succ g ih =>
    intro root stack x hs hok hpot hlen hphi
    cases stack with
    | nil => simp [runLoopX]
    | cons p stack =>
      have hB : 1 ≤ (N + 1) ^ (N + 2 - p.length) := Nat.pow_pos (by omega)
      simp only [phi] at hphi
      have hlen' : ∀ q ∈ stack, q.length ≤ N + 1 := fun q hq => hlen q (List.mem_cons_of_mem _ hq)
      simp only [runLoopX]
      cases hget : getAt root p with
      | none => exact ih root stack x hs hok hpot hlen' (by omega)
      | some cur =>
        simp only
        have hcur : cur.Forall (ok x.st) := forall_getAt hok hget
        have hdepth := getAt_pot (C.own_pos x.st) p hget
        have hcs : lpot (own x.st) cur.children + 1 ≤ npot (own x.st) cur := by
          rw [npot_def]; have := C.own_pos x.st cur; omega
        obtain ⟨r, hr, s2, e2, okd, hcons, new, p1, p2, p3⟩ := visitLoopX_total C g2 (withIdx cur.children 0)
          { x := x } hs
          (by
            intro x hx
            have := withIdx_mem hx
            exact ((Node.forall_iff _ _).1 hcur).2 _ this)
          (by intro d hd; cases hd)
          (by rw [withIdx_map_fst]; simp only; omega)
        rw [hr]
        simp only
        have hcons' : lpot (own r.x.st) r.done ≤ lpot (own x.st) cur.children := by
          simpa [withIdx_map_fst] using hcons
        have p1' : r.pushes = new := by simpa using p1
        have p2' : new.length ≤ lpot (own r.x.st) r.done := by simpa using p2
        -- the rebuilt tree
        have e2' : ext x.st r.x.st := e2
        obtain ⟨rok, rpot⟩ := C.frame_tree e2' hok
        obtain ⟨cok, cpot⟩ := C.frame_tree e2' hcur
        have hnewok : ({ cur with children := r.done.reverse } : Node).Forall (ok r.x.st) := by
          rw [Node.forall_iff]
          refine ⟨C.ok_children _ _ _ ((Node.forall_iff _ _).1 cok).1, ?_⟩
          intro d hd
          exact okd d (List.mem_reverse.1 hd)
        have hnewpot : npot (own r.x.st) { cur with children := r.done.reverse } ≤ npot (own r.x.st) cur := by
          rw [npot_def, npot_def (own r.x.st) cur, C.own_children]
          simp only [lpot_reverse]
          have : lpot (own r.x.st) cur.children = lpot (own x.st) cur.children := by
            have h1 := npot_def (own r.x.st) cur
            have h2 := npot_def (own x.st) cur
            have h3 := (C.frame x.st r.x.st cur e2' ((Node.forall_iff _ _).1 hcur).1).2
            omega
          omega
        have hset := npot_setAt (own := own r.x.st) (C.own_children r.x.st) p (new := { cur with children := r.done.reverse }) hget
        apply ih
        · exact s2
        · exact forall_setAt (C.ok_children r.x.st) rok hnewok hget
        · omega
        · intro q hq
          rcases List.mem_append.1 hq with hq | hq
          · obtain ⟨y, hy, rfl⟩ := List.mem_map.1 hq
            rw [p1'] at hy
            have := (p3 y hy).2
            have hp1 : 1 ≤ npot (own x.st) cur := by omega
            simp only [List.length_append]
            omega
          · obtain ⟨y, hy, rfl⟩ := List.mem_map.1 hq
            rw [remap_length]; exact hlen' y hy
        · rw [phi_append, phi_map_remap, p1']
          have hpush := phi_pushes (B := N + 1) (D := N + 2) (by omega) p new (fun q hq => (p3 q hq).1)
          have hnew : new.length ≤ N := by omega
          have hp : p.length + 1 ≤ N := by omega
          have hstep : new.length * (N + 1) ^ (N + 2 - p.length - 1) < (N + 1) ^ (N + 2 - p.length) := by
            have : N + 2 - p.length = (N + 2 - p.length - 1) + 1 := by omega
            rw [this, Nat.pow_succ]
            have hpos : 0 < (N + 1) ^ (N + 2 - p.length - 1) := Nat.pow_pos (by omega)
            calc new.length * (N + 1) ^ (N + 2 - p.length - 1 + 1 - 1)
                = new.length * (N + 1) ^ (N + 2 - p.length - 1) := by simp
              _ ≤ N * (N + 1) ^ (N + 2 - p.length - 1) := Nat.mul_le_mul_right _ hnew
              _ < (N + 1) * (N + 1) ^ (N + 2 - p.length - 1) := Nat.mul_lt_mul_of_pos_right (by omega) hpos
              _ = (N + 1) ^ (N + 2 - p.length - 1) * (N + 1) := Nat.mul_comm _ _
          omega

end contract

/-! ### the potential through one visit -/

theorem handleInlineTopX_spec (xc : XCfg) (ht0 : TableOK xc) {data : Str} {x : XSt} {d : Str} {x' : XSt}
    (h : handleInlineTopX xc data x = some (d, x')) (hs : SOK x.st.stash) (hd : IdsLt x.st.stash.length data) :
    SOK x'.st.stash ∧ IdsLt x'.st.stash.length d ∧ x.st.stash <+: x'.st.stash ∧ nuS x'.st d ≤ nuS x.st data :=
  handleInlineX_spec xc ht0 _ _ _ _ _ _ h hs hd

theorem ppTop_some (st : St) (hs : SOK st.stash) (data : Str) (atomic : Bool) (parent : Node) (isText : Bool) :
    ∃ res p', ppTop st data atomic parent isText = some (res, p') := by
  obtain ⟨res, p', h, _⟩ := ppTop_ok st hs.stashOK data atomic parent isText
  exact ⟨res, p', h⟩

/-- the text half of a visit answers -/
theorem textStepX_some (xc : XCfg) (ht0 : TableOK xc) (hc : 0 < xc.table.length) (child : Node) (x : XSt)
    (hs : SOK x.st.stash) (ht : IdsLt x.st.stash.length (child.text.getD [])) :
    ∃ r, textStepX xc child x = some r := by
  unfold textStepX
  split
  · have htot := handleInlineTopX_total xc ht0 hc (child.text.getD []) x
    cases hh : handleInlineTopX xc (child.text.getD []) x with
    | none => rw [hh] at htot; cases htot
    | some p =>
      obtain ⟨data, x1⟩ := p
      obtain ⟨a1, _, _, _⟩ := handleInlineTopX_spec xc ht0 hh hs ht
      obtain ⟨res, p', hp⟩ := ppTop_some x1.st a1 data false { child with text := none, textAtomic := false } true
      simp only [hp]
      exact ⟨_, rfl⟩
  · exact ⟨_, rfl⟩

/-- the tail half of a visit answers -/
theorem tailStepX_some (xc : XCfg) (ht0 : TableOK xc) (hc : 0 < xc.table.length) (c1 : Node) (x1 : XSt)
    (hs : SOK x1.st.stash) (ht : IdsLt x1.st.stash.length (c1.tail.getD [])) :
    ∃ r, tailStepX xc c1 x1 = some r := by
  unfold tailStepX
  split
  · simp only
    by_cases hat : c1.tailAtomic = true
    · simp only [hat, if_true]
      obtain ⟨res, p', hp⟩ := ppTop_some x1.st hs (c1.tail.getD []) true (mkEl "d") false
      simp only [hp]
      exact ⟨_, rfl⟩
    · simp only [hat]
      have htot := handleInlineTopX_total xc ht0 hc (c1.tail.getD []) x1
      cases hh : handleInlineTopX xc (c1.tail.getD []) x1 with
      | none => rw [hh] at htot; cases htot
      | some p =>
        obtain ⟨data, x2⟩ := p
        obtain ⟨a1, _, _, _⟩ := handleInlineTopX_spec xc ht0 hh hs ht
        obtain ⟨res, p', hp⟩ := ppTop_some x2.st a1 data false (mkEl "d") false
        simp only [Bool.false_eq_true, if_false, hp]
        exact ⟨_, rfl⟩
  · exact ⟨_, rfl⟩

/-- the text half of a visit -/
theorem textStepX_acc (xc : XCfg) (ht0 : TableOK xc) {child : Node} {x : XSt} {c1 : Node} {lst : List Node} {x1 : XSt}
    (h : textStepX xc child x = some (c1, lst, x1)) (hs : SOK x.st.stash)
    (ht : IdsLt x.st.stash.length (child.text.getD [])) :
    SOK x1.st.stash ∧ x.st.stash <+: x1.st.stash ∧ c1.tail = child.tail ∧ c1.children = child.children ∧
      (∀ n ∈ lst, Deep (IdsLt x1.st.stash.length) n) ∧ IdsLt x1.st.stash.length (c1.text.getD []) ∧
      lpot (ownW (wts x1.st.stash)) lst + nuS x1.st (c1.text.getD []) ≤ nuS x.st (child.text.getD []) := by
  unfold textStepX at h
  split at h
  · split at h
    · cases h
    · next data xa hh =>
      obtain ⟨a1, a2, a3, a4⟩ := handleInlineTopX_spec xc ht0 hh hs ht
      split at h
      · cases h
      · next lst' c1' hp =>
        cases h
        obtain ⟨o1, o2, o3, o4⟩ := ppTop_acc x1.st a1 hp a2 (show slot true _ = [] from rfl)
        refine ⟨a1, a3, o4.2.1 rfl, o4.2.2, o2, by simpa [slot] using o3, ?_⟩
        simp only [slot, if_true, nuS] at o1 a4 ⊢
        omega
  · cases h
    exact ⟨hs, List.prefix_refl _, rfl, rfl, (by intro n hn; cases hn), ht, by simp⟩

/-- the tail half of a visit -/
theorem tailStepX_acc (xc : XCfg) (ht0 : TableOK xc) {c1 : Node} {x1 : XSt} {c2 : Node} {tr : List Node} {x2 : XSt}
    (h : tailStepX xc c1 x1 = some (c2, tr, x2)) (hs : SOK x1.st.stash)
    (ht : IdsLt x1.st.stash.length (c1.tail.getD [])) :
    SOK x2.st.stash ∧ x1.st.stash <+: x2.st.stash ∧ c2.text = c1.text ∧ c2.children = c1.children ∧
      (∀ n ∈ tr, Deep (IdsLt x2.st.stash.length) n) ∧ IdsLt x2.st.stash.length (c2.tail.getD []) ∧
      lpot (ownW (wts x2.st.stash)) tr + nuS x2.st (c2.tail.getD []) ≤ nuS x1.st (c1.tail.getD []) := by
  -- the element that receives the tail: what is left in the dummy goes back to the child
  have hback : ∀ (dumby : Node),
      ((if Node.truthy dumby.tail then { c1 with tail := dumby.tail, tailAtomic := dumby.tailAtomic }
        else { c1 with tail := none, tailAtomic := false } : Node).tail.getD []) = dumby.tail.getD [] := by
    intro dumby
    split
    · rfl
    · next hnt =>
      cases hdt : dumby.tail with
      | none => rfl
      | some x =>
        cases x with
        | nil => rfl
        | cons c r => simp [Node.truthy, hdt] at hnt
  unfold tailStepX at h
  split at h
  · simp only at h
    by_cases hat : c1.tailAtomic = true
    · simp only [hat, if_true] at h
      split at h
      · cases h
      · next tr' dumby hp =>
        cases h
        obtain ⟨o1, o2, o3, o4⟩ := ppTop_acc x1.st hs hp ht (show slot false (mkEl "d") = [] from rfl)
        refine ⟨hs, List.prefix_refl _, by split <;> rfl, by split <;> rfl, o2, ?_, ?_⟩
        · rw [hback]; simpa [slot] using o3
        · rw [hback]; simpa [slot, nuS] using o1
    · simp only [hat] at h
      split at h
      · cases h
      · next data xb hh =>
        simp only [Bool.false_eq_true, if_false] at hh
        obtain ⟨a1, a2, a3, a4⟩ := handleInlineTopX_spec xc ht0 hh hs ht
        split at h
        · cases h
        · next tr' dumby hp =>
          cases h
          obtain ⟨o1, o2, o3, o4⟩ := ppTop_acc x2.st a1 hp a2 (show slot false (mkEl "d") = [] from rfl)
          refine ⟨a1, a3, by split <;> rfl, by split <;> rfl, o2, ?_, ?_⟩
          · rw [hback]; simpa [slot] using o3
          · rw [hback]
            simp only [slot, nuS, Bool.false_eq_true, if_false] at o1 a4 ⊢
            omega
  · cases h
    exact ⟨hs, List.prefix_refl _, rfl, rfl, (by intro n hn; cases hn), ht, by simp⟩

/-! ### the contract holds -/

/-- potential of an element in a state (without its children) -/
def ownSt (st : St) (n : Node) : Nat := ownW (wts st.stash) n
/-- invariant of an element in a state: its text and tail only hold ids of existing entries -/
def okSt (st : St) (n : Node) : Prop := TopQ (IdsLt st.stash.length) n
/-- invariant of the state -/
def sokSt (st : St) : Prop := SOK st.stash
/-- the stash only grows -/
def extSt (st st' : St) : Prop := st.stash <+: st'.stash

/-- **one visit of a child satisfies the contract**, for every pattern table without the wikilink pattern -/
theorem visitOKX (xc : XCfg) (ht0 : TableOK xc) (hc : 0 < xc.table.length) : VisitOKX xc ownSt okSt sokSt extSt where
  own_pos := by intro st n; simp only [ownSt, ownW]; omega
  own_children := by intro st n l; rfl
  ok_children := by intro st n l h; exact h
  ext_refl := fun st => List.prefix_refl _
  ext_trans := fun a b c h1 h2 => h1.trans h2
  frame := by
    intro st st' n he hok
    exact ⟨topQ_mono he.length_le hok, ownS_frame he hok⟩
  visit := by
    intro child v hs hok
    have hdeep : Deep (IdsLt v.x.st.stash.length) child := hok
    have hdc := (deep_iff _ _).1 hdeep
    have hs' : SOK v.x.st.stash := hs
    obtain ⟨⟨c1, lst, x1⟩, h1⟩ := textStepX_some xc ht0 hc child v.x hs' (optQ_getD (IdsLt.nil _) hdc.1.1)
    obtain ⟨a1, a2, a3, a4, a5, a6, a7⟩ := textStepX_acc xc ht0 h1 hs' (optQ_getD (IdsLt.nil _) hdc.1.1)
    have htl : IdsLt x1.st.stash.length (c1.tail.getD []) := by
      rw [a3]; exact (optQ_getD (IdsLt.nil _) hdc.1.2).mono a2.length_le
    obtain ⟨⟨c2, tr, x2⟩, h2⟩ := tailStepX_some xc ht0 hc c1 x1 a1 htl
    obtain ⟨b1, b2, b3, b4, b5, b6, b7⟩ := tailStepX_acc xc ht0 h2 a1 htl
    have hkids1 : ∀ d ∈ child.children, Deep (IdsLt v.x.st.stash.length) d := hdc.2
    have hv : visitChildX xc child v = some ({ c2 with children := lst ++ c2.children }, tr,
        { v with
          pushes := (if child.children.isEmpty then
              ((List.range lst.length).map (fun k => [v.done.length, k])).reverse ++ v.pushes
            else [v.done.length] :: (((List.range lst.length).map (fun k => [v.done.length, k])).reverse ++ v.pushes)),
          x := x2 }) := by
      rw [visitChildX_eq, h1]; simp only [h2]
    refine ⟨_, _, _, hv, b1, a2.trans b2, ?_, b5, ?_⟩
    · -- the rebuilt child
      show Deep (IdsLt x2.st.stash.length) _
      rw [deep_iff]
      refine ⟨⟨?_, ?_⟩, ?_⟩
      · intro s hs''
        have : c2.text = some s := hs''
        rw [b3] at this
        have h6 := a6; rw [this] at h6
        exact h6.mono b2.length_le
      · intro s hs''
        have : c2.tail = some s := hs''
        rw [this] at b6; exact b6
      · intro d hd
        simp only [b4, a4] at hd
        rcases List.mem_append.1 hd with hd | hd
        · exact deep_mono b2.length_le (a5 d hd)
        · exact deep_mono (a2.trans b2).length_le (hkids1 d hd)
    · -- the potential
      have f1 := nuS_frame b2 a6
      have f2 := lpotS_frame b2 lst a5
      have f3 := lpotS_frame (a2.trans b2) child.children hkids1
      have f4 := nuS_frame a2 (optQ_getD (IdsLt.nil _) hdc.1.2)
      have e2 : ownSt x2.st = ownW (wts x2.st.stash) := rfl
      have e0 : ownSt v.x.st = ownW (wts v.x.st.stash) := rfl
      simp only
      rw [e2, e0]
      rw [npot_def (ownW (wts x2.st.stash)), npot_def (ownW (wts v.x.st.stash)) child]
      simp only [b4, a4, lpot_append, f2, f3]
      simp only [ownW, b3]
      simp only [nuS] at f1 f4 a7 b7
      rw [a3] at b7
      omega

/-! ### `runX` terminates -/

theorem nuW_nilAcc_le (s : Str) : nuW [] s ≤ s.length := by
  simp only [nuW, idW_nilAcc, phiC]
  have := List.countP_le_length (p := isTrigC) (l := s)
  omega

mutual
theorem npot_le_size : ∀ (n : Node), npot (ownW []) n ≤ size n
  | ⟨tag, attrs, text, ta, children, tail, tla⟩ => by
    have := lpot_le_sizeList children
    have h1 := nuW_nilAcc_le (text.getD [])
    have h2 := nuW_nilAcc_le (tail.getD [])
    simp only [npot_def, ownW, size]
    omega
theorem lpot_le_sizeList : ∀ (l : List Node), lpot (ownW []) l ≤ sizeList l
  | [] => by simp [sizeList]
  | c :: r => by
    have := npot_le_size c
    have := lpot_le_sizeList r
    simp only [lpot_cons, sizeList]
    omega
end

/-- a tree without `STX` holds no placeholder -/
theorem deep_of_treeNoCtl {t : Node} (h : TreeNoCtl t) : Deep (IdsLt 0) t := by
  apply Node.Forall.mono _ t h
  intro m hm
  obtain ⟨_, _, h3, h4⟩ := hm
  exact ⟨fun s hs => IdsLt.of_no_stx 0 (by have := h3.1; simp only [NoCtlO, hs, Option.getD_some] at this; exact this),
    fun s hs => IdsLt.of_no_stx 0 (by have := h4.1; simp only [NoCtlO, hs, Option.getD_some] at this; exact this)⟩

/-- **the two loops of `runX` terminate** for every pattern table without the wikilink pattern: the live loop over the
    children within `size tree + 1` turns, the stack loop within `Inline.bigFuel tree` -/
theorem runX_total_big (xc : XCfg) (ht0 : TableOK xc) (hc : 0 < xc.table.length) (tree : Node) (x : XSt)
    (hx : x.st.stash = []) (h : Deep (IdsLt 0) tree) (g2 : Nat) (hg2 : size tree < g2) (g : Nat) (hg : Inline.bigFuel tree ≤ g) :
    (runLoopX xc g2 g tree [[]] x).isSome = true := by
  apply runLoopX_total (visitOKX xc ht0 hc) (size tree) g2 hg2 g tree [[]] x
  · show SOK x.st.stash
    rw [hx]; exact sok_nil
  · show Deep (IdsLt x.st.stash.length) tree
    rw [hx]; exact h
  · show npot (ownW (wts x.st.stash)) tree ≤ size tree
    rw [hx]; exact npot_le_size tree
  · intro q hq; simp only [List.mem_singleton] at hq; subst hq; simp
  · simp only [phi, List.length_nil, Nat.sub_zero, Nat.add_zero]
    unfold Inline.bigFuel at hg; omega

/-! ### more fuel never changes a result -/

theorem visitLoopX_mono (xc : XCfg) : ∀ (g g' : Nat) (todo : List (Node × Option Nat)) (v r : VisitX), g ≤ g' →
    visitLoopX xc g todo v = some r → visitLoopX xc g' todo v = some r := by
  intro g
  induction g with
  | zero => intro g' todo v r _ h; simp [visitLoopX] at h
  | succ g ih =>
    intro g' todo v r hle h
    cases g' with
    | zero => omega
    | succ g' =>
      cases todo with
      | nil => simpa [visitLoopX] using h
      | cons y todo =>
        obtain ⟨child, orig⟩ := y
        simp only [visitLoopX] at h ⊢
        split at h
        · cases h
        · next c tr v1 hx =>
          try simp only [hx]
          exact ih g' _ _ _ (by omega) h

theorem runLoopX_mono (xc : XCfg) {g2 g2' : Nat} (h2 : g2 ≤ g2') : ∀ (g g' : Nat) (root : Node) (stack : List Path)
    (x : XSt) (r : Node × XSt), g ≤ g' → runLoopX xc g2 g root stack x = some r →
    runLoopX xc g2' g' root stack x = some r := by
  intro g
  induction g with
  | zero => intro g' root stack x r _ h; simp [runLoopX] at h
  | succ g ih =>
    intro g' root stack x r hle h
    cases g' with
    | zero => omega
    | succ g' =>
      cases stack with
      | nil => simpa [runLoopX] using h
      | cons p stack =>
        simp only [runLoopX] at h ⊢
        split at h
        · next hget =>
          try simp only [hget]
          exact ih g' _ _ _ _ (by omega) h
        · next cur hget =>
          try simp only [hget]
          split at h
          · cases h
          · next v hv =>
            rw [visitLoopX_mono xc g2 g2' _ _ _ h2 hv]
            exact ih g' _ _ _ _ (by omega) h


end MdVerif.InlineN
