/-
Helper lemmas for `Props/C16RenderX.lean`, part 2: nl2br — the `nl` pattern of the table engine on a paragraph of
quiet lines (every line feed becomes a stashed `br`), `__processPlaceholders` putting the `br` elements back as
children with the following line as tail, and `InlineX.runX` on the resulting document.

Core Lean only.
-/
import MdVerif.Lemmas.RenderX
import MdVerif.Lemmas.RenderXDoc
import MdVerif.Lemmas.RenderXBlock
import MdVerif.Lemmas.DocParse2

namespace MdVerif.RenderX
open Py Inline InlineX

/-! ### the `nl` pattern -/

/-- `'\n' ++ l` for every line -/
def nlTail : List Str → Str
  | [] => []
  | l :: r => '\n' :: l ++ nlTail r

/-- the lines with placeholders `n`, `n+1`, … in front -/
def brData (n : Nat) : List Str → Str
  | [] => []
  | l :: r => placeholder n ++ l ++ brData (n + 1) r

theorem joinLines_eq_nlTail (l : Str) (r : List Str) : joinLines (l :: r) = l ++ nlTail r := by
  induction r generalizing l with
  | nil => simp [joinLines, join, nlTail]
  | cons a r ih => rw [Block.joinLines_cons_cons l a r, ih a]; simp [nlTail]

def brNode : Node := mkEl "br"

theorem applyPatternX_nl (xc : XCfg) (hi : HIX) (pi : Nat) (hk : xc.table[pi]? = some PatK.nl) (A B : Str)
    (hA : '\n' ∉ A) (x : XSt) :
    applyPatternX xc hi pi (A ++ '\n' :: B) 0 x =
      some (A ++ placeholder x.st.stash.length ++ B, true, 0,
        { x with st := { x.st with stash := x.st.stash ++ [.node brNode] } }) := by
  have hf : find ['\n'] (A ++ '\n' :: B) = some A.length := by
    have := Escape.find_prefix_after (ph := '\n') (pt := []) A B hA
    simpa using this
  have hd : pyDrop (A ++ '\n' :: B) ((A.length : Int) + 1) = B := by
    have := Escape.pyDrop_append (A ++ ['\n']) B
    simpa using this
  unfold applyPatternX
  simp only [hk, findX, show ¬ (0 > (A ++ '\n' :: B).length) by omega, if_false, List.drop_zero, hf]
  simp only [mkEl, Option.isSome_none, Bool.false_and, Bool.false_eq_true, if_false, hiNodeX, hiOptX, Node.truthy,
    hiNodesX, stashX, stashNode]
  simp only [brNode, mkEl, Nat.zero_add]
  have hd' : pyDrop (A ++ '\n' :: B) (((0 : Nat) : Int) + (A.length : Int) + 1) = B := by
    rw [show ((0 : Nat) : Int) + (A.length : Int) + 1 = (A.length : Int) + 1 by simp]; exact hd
  rw [hd']
  simp

/-- the `nl` pass: one turn of the pattern loop per line feed -/
theorem nl_pass (xc : XCfg) (hi : HIX) (pi : Nat) (hk : xc.table[pi]? = some PatK.nl) (hpi : pi < xc.table.length) :
    ∀ (r : List Str) (A : Str) (x : XSt) (g : Nat), '\n' ∉ A → (∀ l ∈ r, '\n' ∉ l) →
      hiLoopX xc.table.length (applyPatternX xc hi) (g + r.length) (A ++ nlTail r) pi 0 x =
      hiLoopX xc.table.length (applyPatternX xc hi) g (A ++ brData x.st.stash.length r) pi 0
        { x with st := { x.st with stash := x.st.stash ++ List.replicate r.length (.node brNode) } } := by
  intro r
  induction r with
  | nil => intro A x g _ _; simp [nlTail, brData]
  | cons l r ih =>
    intro A x g hA hr
    have hl : '\n' ∉ l := hr l List.mem_cons_self
    have hph : '\n' ∉ placeholder x.st.stash.length :=
      fun hm => (Escape.phChar_facts (Escape.phChar_of_mem_placeholder hm)).2.2.2.2.2.2.2 rfl
    have hA' : '\n' ∉ A ++ placeholder x.st.stash.length ++ l := by
      intro hm
      simp only [List.mem_append] at hm
      rcases hm with (hm | hm) | hm
      · exact hA hm
      · exact hph hm
      · exact hl hm
    have hstep := applyPatternX_nl xc hi pi hk A (l ++ nlTail r) hA x
    rw [show g + (l :: r).length = (g + r.length) + 1 by simp; omega]
    rw [show A ++ nlTail (l :: r) = A ++ '\n' :: (l ++ nlTail r) by simp [nlTail]]
    rw [show hiLoopX xc.table.length (applyPatternX xc hi) (g + r.length + 1) (A ++ '\n' :: (l ++ nlTail r)) pi 0 x =
      hiLoopX xc.table.length (applyPatternX xc hi) (g + r.length) (A ++ placeholder x.st.stash.length ++ (l ++ nlTail r)) pi 0
        { x with st := { x.st with stash := x.st.stash ++ [.node brNode] } } by
      simp only [hiLoopX, hpi, if_true, hstep]]
    have := ih (A ++ placeholder x.st.stash.length ++ l)
      { x with st := { x.st with stash := x.st.stash ++ [.node brNode] } } g hA'
      (fun a ha => hr a (List.mem_cons_of_mem _ ha))
    simp only [List.append_assoc] at this ⊢
    rw [this]
    simp [brData, List.replicate_succ, List.append_assoc]

/-! ### `__processPlaceholders` puts the `br` elements back -/

open DocParse2 in
/-- the loop state after the lines: each line becomes the tail of a new `br` -/
def brFold : List Str → List Node × Node → List Node × Node
  | [], rp => rp
  | l :: r, rp => brFold r (DocParse2.lt l (brNode :: rp.1, rp.2))

theorem stx_not_mem_find {B : Str} (h : STX ∉ B) : find phPrefix B = none := CodeLaw.find_phPrefix_none B h

theorem ppLoop_brs (S : List StashItem) (nested : Node → Option Node) (hn : nested brNode = some brNode) :
    ∀ (r : List Str) (P B : Str) (n : Nat) (rp : List Node × Node) (g : Nat), STX ∉ B → (∀ l ∈ r, STX ∉ l) →
      (∀ k, k < r.length → S[n + k]? = some (.node brNode)) →
      ppLoop S nested (P ++ B ++ brData n r) false true (g + r.length + 1) P.length rp.1 rp.2 =
        some ((brFold r (DocParse2.lt B rp)).1.reverse, (brFold r (DocParse2.lt B rp)).2) := by
  intro r
  induction r with
  | nil =>
    intro P B n rp g hB _ _
    have hd : (P ++ B).drop P.length = B := by simp
    simp only [brData, List.append_nil, List.length_nil, Nat.add_zero, brFold]
    rw [DocParse2.ppLoop_endG S nested (P ++ B) g P.length rp (by simp) (by rw [hd]; exact stx_not_mem_find hB), hd]
  | cons l r ih =>
    intro P B n rp g hB hr hS
    have hl : STX ∉ l := hr l List.mem_cons_self
    have hdata : P ++ B ++ brData n (l :: r) = (P ++ B) ++ placeholder n ++ (l ++ brData (n + 1) r) := by
      simp [brData, List.append_assoc]
    have hd : (P ++ B ++ brData n (l :: r)).drop P.length = B ++ phPrefix ++ (pad4 n ++ [ETX] ++ (l ++ brData (n + 1) r)) := by
      rw [hdata, Escape.placeholder_eq]; simp [List.append_assoc]
    have h2 : find phPrefix ((P ++ B ++ brData n (l :: r)).drop P.length) = some B.length := by
      rw [hd]; exact Escape.find_prefix_after B _ hB
    have h3 : findPh (P ++ B ++ brData n (l :: r)) (P.length + B.length) =
        (some (pad4 n), ((P ++ B) ++ placeholder n).length) := by
      rw [hdata]
      have := Escape.findPh_placeholder (P ++ B) n (l ++ brData (n + 1) r)
      simpa using this
    have h4 : stashGet S (pad4 n) = some (.node brNode) := by
      rw [Escape.stashGet_pad4]; simpa using hS 0 (by simp)
    have hsl : Inline.slice (P ++ B ++ brData n (l :: r)) P.length (P.length + B.length) = B := by
      simp [Inline.slice, List.take_append, List.append_assoc]
    rw [show g + (l :: r).length + 1 = (g + r.length + 1) + 1 by simp; omega,
      DocParse2.ppLoop_stepNode S nested _ _ P.length rp B.length (pad4 n) _ brNode (by simp) h2 h3 h4 hn, hsl]
    have := ih (P ++ B ++ placeholder n) l (n + 1) (brNode :: (DocParse2.lt B rp).1, (DocParse2.lt B rp).2) g hl
      (fun a ha => hr a (List.mem_cons_of_mem _ ha))
      (fun k hk => by
        have := hS (k + 1) (by simp; omega)
        rwa [show n + (k + 1) = n + 1 + k by omega] at this)
    simp only [brFold]
    rw [← this]
    congr 1
    simp [brData, List.append_assoc]

/-- a `br` whose tail is the line -/
def brTail (l : Str) : Node := { brNode with tail := some l }

theorem brFold_eq (r : List Str) (hne : ∀ l ∈ r, l ≠ []) (res : List Node) (par : Node) :
    brFold r (res, par) = ((r.map brTail).reverse ++ res, par) := by
  induction r generalizing res with
  | nil => simp [brFold]
  | cons l r ih =>
    obtain ⟨a, b, rfl⟩ : ∃ a b, l = a :: b := by
      cases l with
      | nil => exact absurd rfl (hne _ List.mem_cons_self)
      | cons a b => exact ⟨a, b, rfl⟩
    simp only [brFold, DocParse2.lt, linkText, List.isEmpty_cons, Bool.false_eq_true, if_false, brNode, mkEl,
      Node.truthy]
    rw [ih (fun x hx => hne x (List.mem_cons_of_mem _ hx))]
    simp [brTail, brNode, mkEl]

theorem procNode_br (pp : PP) : procNode pp brNode = some brNode := by
  simp [procNode, petTail, petText, procKids, brNode, mkEl, Node.truthy]

/-- `__processPlaceholders` on the text of a paragraph after the `nl` pass -/
theorem ppTop_brs (st : St) (l0 : Str) (r : List Str) (parent : Node) (n : Nat) (hl0 : l0 ≠ []) (hs0 : STX ∉ l0)
    (hr : ∀ l ∈ r, l ≠ [] ∧ STX ∉ l) (hS : ∀ k, k < r.length → st.stash[n + k]? = some (.node brNode))
    (hp1 : parent.text = none) (hp2 : parent.textAtomic = false) :
    ppTop st (l0 ++ brData n r) false parent true = some (r.map brTail, { parent with text := some l0 }) := by
  obtain ⟨c, t, rfl⟩ : ∃ c t, l0 = c :: t := by cases l0 <;> simp_all
  have hlen : r.length + 1 ≤ (c :: t ++ brData n r).length := by
    have : ∀ (m : Nat) (r : List Str), r.length ≤ (brData m r).length := by
      intro m r
      induction r generalizing m with
      | nil => simp
      | cons a r ih =>
        have := ih (m + 1)
        have := Escape.placeholder_length_pos m
        simp only [brData, List.length_append, List.length_cons]; omega
    have := this n r
    simp only [List.cons_append, List.length_cons, List.length_append]; omega
  obtain ⟨g, hg⟩ : ∃ g, (c :: t ++ brData n r).length + 2 = g + r.length + 1 :=
    ⟨(c :: t ++ brData n r).length + 1 - r.length, by omega⟩
  unfold ppTop
  rw [show st.stash.length + 2 = (st.stash.length + 1) + 1 from rfl]
  unfold processPlaceholders
  simp only [List.cons_append, List.isEmpty_cons, Bool.false_eq_true, if_false]
  rw [show (c :: (t ++ brData n r)) = c :: t ++ brData n r from rfl, hg]
  have := ppLoop_brs st.stash (procNode fun d a p t_1 => processPlaceholders st.stash (st.stash.length + 1) d a p t_1)
    (procNode_br _) r [] (c :: t) n ([], parent) g hs0 (fun l hl => (hr l hl).2) hS
  simp only [List.nil_append, List.length_nil] at this
  rw [this, brFold_eq r (fun l hl => (hr l hl).1)]
  obtain ⟨tag, attrs, text, ta, children, tail, tla⟩ := parent
  simp only at hp1 hp2
  subst hp1; subst hp2
  simp [DocParse2.lt, linkText, Node.truthy]

/-! ### the paragraph through the inline stage -/

theorem applyPatternX_nl_none (xc : XCfg) (hi : HIX) (pi : Nat) (hk : xc.table[pi]? = some PatK.nl) (data : Str)
    (h : '\n' ∉ data) (x : XSt) : applyPatternX xc hi pi data 0 x = some (data, false, 0, x) := by
  unfold applyPatternX
  simp only [hk, findX, show ¬ (0 > data.length) by omega, if_false, List.drop_zero, Escape.find_none_of_head h]

theorem nl_not_mem_brData (n : Nat) (r : List Str) (h : ∀ l ∈ r, '\n' ∉ l) : '\n' ∉ brData n r := by
  induction r generalizing n with
  | nil => simp [brData]
  | cons l r ih =>
    intro hm
    simp only [brData, List.mem_append] at hm
    rcases hm with (hm | hm) | hm
    · exact (Escape.phChar_facts (Escape.phChar_of_mem_placeholder hm)).2.2.2.2.2.2.2 rfl
    · exact h l List.mem_cons_self hm
    · exact ih (n + 1) (fun a ha => h a (List.mem_cons_of_mem _ ha)) hm

/-- `__handleInline` on a paragraph of quiet lines when `nl` is the last pattern of the table -/
theorem handleInlineTopX_nl (xc : XCfg) (m : Nat) (hlast : xc.table[m]? = some PatK.nl) (hm : m + 1 = xc.table.length)
    (hbefore : ∀ p, p < m → xc.table[p]? ≠ some PatK.nl) (l0 : Str) (r : List Str)
    (hq : QuietX (joinLines (l0 :: r))) (hl : ∀ l ∈ l0 :: r, '\n' ∉ l) (x : XSt) :
    handleInlineTopX xc (joinLines (l0 :: r)) x =
      some (l0 ++ brData x.st.stash.length r,
        { x with st := { x.st with stash := x.st.stash ++ List.replicate r.length (.node brNode) } }) := by
  have hl0 : '\n' ∉ l0 := hl l0 List.mem_cons_self
  have hr : ∀ l ∈ r, '\n' ∉ l := fun l h => hl l (List.mem_cons_of_mem _ h)
  have hlen : r.length ≤ (joinLines (l0 :: r)).length := by
    rw [joinLines_eq_nlTail]
    have : ∀ r : List Str, r.length ≤ (nlTail r).length := by
      intro r
      induction r with
      | nil => simp
      | cons a r ih => simp only [nlTail, List.length_cons, List.length_append]; omega
    have := this r
    simp only [List.length_append]; omega
  have hfuel := loopFuelX_ge2 xc.table.length (joinLines (l0 :: r)).length (by omega)
  obtain ⟨g, hg⟩ : ∃ g, loopFuelX xc.table.length (joinLines (l0 :: r)).length = ((g + 2) + r.length) + m :=
    ⟨loopFuelX xc.table.length (joinLines (l0 :: r)).length - 2 - r.length - m, by omega⟩
  unfold handleInlineTopX
  rw [show (joinLines (l0 :: r)).length + xc.table.length + 4 = ((joinLines (l0 :: r)).length + xc.table.length + 3) + 1
    from rfl]
  unfold handleInlineX
  rw [hg]
  -- the patterns before `nl` find nothing
  rw [hiLoopX_skip xc.table.length _ _ x m (by omega) (fun p hp => by
    unfold applyPatternX
    cases hk : xc.table[p]? with
    | none => rfl
    | some k =>
      simp only []
      rw [findX_quiet xc k _ x hq (fun e => absurd (e ▸ hk) (hbefore p hp))]) m 0 _ (by omega)]
  -- the `nl` pass
  rw [joinLines_eq_nlTail, nl_pass xc _ m hlast (by omega) r l0 x (g + 2) hl0 hr]
  -- the last turn: no line feed is left
  have hnone : '\n' ∉ l0 ++ brData x.st.stash.length r := by
    intro hmem
    rcases List.mem_append.1 hmem with h | h
    · exact hl0 h
    · exact nl_not_mem_brData _ r hr h
  have h1 : m < xc.table.length := by omega
  have h2 : ¬ (m + 1 < xc.table.length) := by omega
  simp only [hiLoopX, h1, if_true, applyPatternX_nl_none xc _ m hlast _ hnone, Bool.false_eq_true, if_false, h2]

/-- the paragraph visited as a child of the root -/
theorem visitChildX_nl (xc : XCfg) (m : Nat) (hlast : xc.table[m]? = some PatK.nl) (hm : m + 1 = xc.table.length)
    (hbefore : ∀ p, p < m → xc.table[p]? ≠ some PatK.nl) (l0 : Str) (r : List Str)
    (hq : QuietX (joinLines (l0 :: r))) (hl : ∀ l ∈ l0 :: r, l ≠ [] ∧ '\n' ∉ l ∧ STX ∉ l) (v : VisitX) :
    visitChildX xc (Block.mkText "p" (joinLines (l0 :: r))) v =
      some ({ Block.mkText "p" l0 with children := r.map brTail }, [],
        { v with pushes := ((List.range r.length).map (fun k => [v.done.length, k])).reverse ++ v.pushes,
                 x := { v.x with st := { v.x.st with stash := v.x.st.stash ++ List.replicate r.length (.node brNode) } } }) := by
  have h1 := handleInlineTopX_nl xc m hlast hm hbefore l0 r hq (fun l h => (hl l h).2.1) v.x
  have hne : joinLines (l0 :: r) ≠ [] := by
    rw [joinLines_eq_nlTail]
    have := (hl l0 List.mem_cons_self).1
    cases l0 with
    | nil => exact absurd rfl this
    | cons a b => simp
  have h2 := ppTop_brs { stash := v.x.st.stash ++ List.replicate r.length (.node brNode), html := v.x.st.html }
    l0 r { Block.mkText "p" (joinLines (l0 :: r)) with text := none, textAtomic := false } v.x.st.stash.length
    (hl l0 List.mem_cons_self).1 (hl l0 List.mem_cons_self).2.2
    (fun l h => ⟨(hl l (List.mem_cons_of_mem _ h)).1, (hl l (List.mem_cons_of_mem _ h)).2.2⟩)
    (fun k hk => by
      simp only []
      rw [List.getElem?_append_right (by omega)]
      simp [hk])
    rfl rfl
  unfold visitChildX
  have ht : Node.truthy (Block.mkText "p" (joinLines (l0 :: r))).text = true :=
    (CodeLaw.truthy_some_iff _).2 hne
  simp only [ht, show (Block.mkText "p" (joinLines (l0 :: r))).textAtomic = false from rfl, Bool.not_false,
    Bool.and_self, if_true, show (Block.mkText "p" (joinLines (l0 :: r))).text.getD [] = joinLines (l0 :: r) from rfl,
    h1, h2]
  simp [Block.mkText, Node.el, Node.truthy]

/-! ### `InlineProcessor.run` on the document -/

theorem mStack_childless (root : Node) (ps : List Path)
    (h : ∀ q ∈ ps, ∃ cur, getAt root q = some cur ∧ cur.children = []) : CodeLaw.mStack root ps = ps.length := by
  induction ps with
  | nil => rfl
  | cons q ps ih =>
    obtain ⟨cur, hc, hk⟩ := h q List.mem_cons_self
    rw [CodeLaw.mStack_cons, ih (fun a ha => h a (List.mem_cons_of_mem _ ha))]
    simp only [CodeLaw.wPath, hc, CodeLaw.below_eq, hk, CodeLaw.belowKids, List.length_cons]
    omega

theorem length_le_joinLines (ls : List Str) (l : Str) (h : l ∈ ls) : l.length ≤ (joinLines ls).length := by
  induction ls with
  | nil => simp at h
  | cons a ls ih =>
    cases ls with
    | nil =>
      have : l = a := by simpa using h
      subst this; simp [joinLines, join]
    | cons b ls =>
      rw [Block.joinLines_cons_cons]
      rcases List.mem_cons.1 h with rfl | h
      · simp
      · have := ih h
        simp only [List.length_append, List.length_cons]; omega

/-- the document `<div><p>` lines `</p></div>` of the block stage -/
def nlDoc (l0 : Str) (r : List Str) : Node := (Node.el "div").append (Block.mkText "p" (joinLines (l0 :: r)))

/-- … and after the inline stage -/
def nlMid (l0 : Str) (r : List Str) : Node :=
  { Node.el "div" with children := [{ Block.mkText "p" l0 with children := r.map brTail }] }

theorem runX_nl (xc : XCfg) (m : Nat) (hlast : xc.table[m]? = some PatK.nl) (hm : m + 1 = xc.table.length)
    (hbefore : ∀ p, p < m → xc.table[p]? ≠ some PatK.nl) (l0 : Str) (r : List Str)
    (hq : QuietX (joinLines (l0 :: r))) (hl : ∀ l ∈ l0 :: r, l ≠ [] ∧ '\n' ∉ l ∧ STX ∉ l) (html : List Str) :
    runX xc (nlDoc l0 r) html =
      some (nlMid l0 r, { st := { stash := List.replicate r.length (.node brNode), html := html } }) := by
  have hsz : Inline.size (nlDoc l0 r) = 2 + (joinLines (l0 :: r)).length := by
    simp [nlDoc, Node.append, Node.el, Block.mkText, Inline.size, Inline.sizeList]; omega
  obtain ⟨g, hg⟩ : ∃ g, runFuel (nlDoc l0 r) = g + 2 := ⟨runFuel (nlDoc l0 r) - 2, by simp [runFuel]⟩
  have hv := visitChildX_nl xc m hlast hm hbefore l0 r hq hl { x := { st := { html := html } } }
  have hrun := runX_root xc true (fun _ => rfl) (by omega) (nlDoc l0 r) html
    { done := [{ Block.mkText "p" l0 with children := r.map brTail }], posmap := [(0, 0)],
      pushes := ((List.range r.length).map (fun k => [0, k])).reverse,
      x := { st := { stash := List.replicate r.length (.node brNode), html := html } } }
    (by
      rw [hg]
      simp only [nlDoc, Node.append, Node.el, List.nil_append, withIdx, visitLoopX, hv]
      simp [visitLoopX])
    (by
      intro q hq cur hcur
      simp only [List.mem_reverse, List.mem_map, List.mem_range] at hq
      obtain ⟨k, hk, rfl⟩ := hq
      simp only [getAt, List.reverse_cons, List.reverse_nil, List.nil_append, List.getElem?_cons_zero,
        List.getElem?_map] at hcur
      cases hlk : r[k]? with
      | none => rw [hlk] at hcur; simp at hcur
      | some l =>
        rw [hlk] at hcur
        simp only [Option.map_some, Option.some.injEq] at hcur
        subst hcur
        refine ⟨rfl, ?_⟩
        have h1 := length_le_joinLines (l0 :: r) l (List.mem_cons_of_mem _ (List.mem_of_getElem? hlk))
        simp only [brTail, brNode, mkEl, Inline.size, Inline.sizeList, runFuel, hsz]
        simp only [Option.getD_none, Option.getD_some, List.length_nil]
        omega)
    (by
      rw [mStack_childless]
      · have h1 : r.length ≤ (joinLines (l0 :: r)).length := by
          rw [joinLines_eq_nlTail]
          have : ∀ r : List Str, r.length ≤ (nlTail r).length := by
            intro r
            induction r with
            | nil => simp
            | cons a r ih => simp only [nlTail, List.length_cons, List.length_append]; omega
          have := this r
          simp only [List.length_append]; omega
        simp only [List.length_reverse, List.length_map, List.length_range, runFuel, hsz]
        omega
      · intro q hq
        simp only [List.mem_reverse, List.mem_map, List.mem_range] at hq
        obtain ⟨k, hk, rfl⟩ := hq
        refine ⟨brTail (r[k]'hk), ?_, rfl⟩
        simp [getAt, List.getElem?_map, hk])
  rw [hrun]
  rfl

/-! ### prettify, unescape, serializer -/

/-- a `br` after prettify: the line feed in front of the next line -/
def brFin (l : Str) : Node := { brNode with tail := some ('\n' :: l) }

/-- the document after prettify (and unescape) -/
def nlFin (l0 : Str) (r : List Str) : Node :=
  { tag := .name "div".toList, text := some ['\n'], tail := some ['\n'],
    children := [{ tag := .name "p".toList, text := some l0, tail := some ['\n'], children := r.map brFin }] }

theorem bl_br : TreeProc.isBlockLevel TreeProc.defaultBlockLevel (.name ['b', 'r']) = false := by decide

theorem prettifyKids_brs (r : List Str) :
    TreeProc.prettifyKids TreeProc.defaultBlockLevel (r.map brTail) = r.map brTail := by
  induction r with
  | nil => rfl
  | cons l r ih => simp [TreeProc.prettifyKids, brTail, brNode, mkEl, bl_br, ih]

theorem isBlank_false_of_visible {l : Str} (h : Escape.startsVisible l = true) : isBlank l = false :=
  Escape.isBlank_of_visible h

theorem mapKids_br_brs (r : List Str) (hv : ∀ l ∈ r, Escape.startsVisible l = true) :
    TreeProc.mapKids TreeProc.brRule (r.map brTail) = r.map brFin := by
  induction r with
  | nil => rfl
  | cons l r ih =>
    have hl := hv l List.mem_cons_self
    obtain ⟨a, b, rfl⟩ : ∃ a b, l = a :: b := by
      cases l with
      | nil => simp [Escape.startsVisible] at hl
      | cons a b => exact ⟨a, b, rfl⟩
    have hb : isBlank (a :: b) = false := isBlank_false_of_visible hl
    simp only [List.map_cons, TreeProc.mapKids, ih (fun x hx => hv x (List.mem_cons_of_mem _ hx))]
    simp [TreeProc.mapTree, TreeProc.mapKids, TreeProc.brRule, TreeProc.tagIs, brTail, brFin, brNode, mkEl,
      TreeProc.blankOrNone, Node.truthy, hb]

theorem mapKids_pre_brs (r : List Str) : TreeProc.mapKids TreeProc.preRule (r.map brFin) = r.map brFin := by
  induction r with
  | nil => rfl
  | cons l r ih =>
    simp only [List.map_cons, TreeProc.mapKids, ih]
    simp [TreeProc.mapTree, TreeProc.mapKids, TreeProc.preRule, TreeProc.tagIs, brFin, brNode, mkEl]

theorem prettify_nl (l0 : Str) (r : List Str) (hv : ∀ l ∈ l0 :: r, Escape.startsVisible l = true) :
    TreeProc.prettify (nlMid l0 r) = nlFin l0 r := by
  have h0 := hv l0 List.mem_cons_self
  obtain ⟨a, b, rfl⟩ : ∃ a b, l0 = a :: b := by
    cases l0 with
    | nil => simp [Escape.startsVisible] at h0
    | cons a b => exact ⟨a, b, rfl⟩
  have hb : isBlank (a :: b) = false := isBlank_false_of_visible h0
  have hr : ∀ l ∈ r, Escape.startsVisible l = true := fun l h => hv l (List.mem_cons_of_mem _ h)
  simp only [TreeProc.prettify, nlMid, Node.el, Block.mkText, TreeProc.prettifyETree, TreeProc.prettifyKids,
    CodeLaw.bl_div, CodeLaw.bl_p, TreeProc.blankOrNone, Node.truthy, prettifyKids_brs, hb]
  simp [TreeProc.mapTree, TreeProc.mapKids, TreeProc.brRule, TreeProc.preRule, TreeProc.tagIs, mapKids_br_brs r hr,
    mapKids_pre_brs, nlFin, CodeLaw.bl_div, CodeLaw.bl_p, hb]

theorem unescapeKids_brs (r : List Str) (hs : ∀ l ∈ r, TreeProc.STX ∉ l) :
    TreeProc.unescapeKids (r.map brFin) = some (r.map brFin) := by
  induction r with
  | nil => rfl
  | cons l r ih =>
    have hl : TreeProc.STX ∉ '\n' :: l := by
      intro hm
      rcases List.mem_cons.1 hm with h | h
      · exact absurd h (by decide)
      · exact hs l List.mem_cons_self h
    simp only [List.map_cons, TreeProc.unescapeKids, ih (fun x hx => hs x (List.mem_cons_of_mem _ hx))]
    simp [TreeProc.unescapeTree, TreeProc.unescapeKids, TreeProc.unescAttrs, brFin, brNode, mkEl, Node.truthy,
      CodeLaw.unescapeText_id _ hl]

theorem unescapeTree_nl (l0 : Str) (r : List Str) (hne : l0 ≠ []) (hs : ∀ l ∈ l0 :: r, TreeProc.STX ∉ l) :
    TreeProc.unescapeTree (nlFin l0 r) = some (nlFin l0 r) := by
  obtain ⟨a, b, rfl⟩ : ∃ a b, l0 = a :: b := by
    cases l0 with
    | nil => exact absurd rfl hne
    | cons a b => exact ⟨a, b, rfl⟩
  have t3 : TreeProc.unescapeText 0 ['\n'] = some ['\n'] := by decide
  simp [nlFin, TreeProc.unescapeTree, TreeProc.unescapeKids, TreeProc.unescAttrs, Node.truthy, t3,
    CodeLaw.unescapeText_id _ (hs _ List.mem_cons_self),
    unescapeKids_brs r (fun l h => hs l (List.mem_cons_of_mem _ h))]

/-- `<br />` / `<br>` -/
def brTag : Ser.Fmt → Str
  | .xhtml => "<br />".toList
  | .html => "<br>".toList

/-- the serialised `br` elements with their tails -/
def brOut (fmt : Ser.Fmt) : List Str → Str
  | [] => []
  | l :: r => brTag fmt ++ '\n' :: l ++ brOut fmt r

theorem serializeList_brs (fmt : Ser.Fmt) (r : List Str) (hp : ∀ l ∈ r, ∀ c ∈ l, c ≠ '&' ∧ c ≠ '<' ∧ c ≠ '>') :
    Ser.serializeList fmt (r.map brFin) = brOut fmt r := by
  induction r with
  | nil => rfl
  | cons l r ih =>
    have he : Ser.escCdata ('\n' :: l) = '\n' :: l := by
      apply CodeLaw.escCdata_plain
      intro c hc
      rcases List.mem_cons.1 hc with rfl | hc
      · decide
      · exact hp l List.mem_cons_self c hc
    have hempty : Ser.isEmptyTag ['b', 'r'] = true := by decide
    simp only [List.map_cons, Ser.serializeList, ih (fun x hx => hp x (List.mem_cons_of_mem _ hx)), brOut]
    cases fmt <;>
      simp [Ser.serialize, Ser.element, Ser.writeAttrs, Ser.sortAttrs, brFin, brNode, mkEl, hempty, Node.truthy, he,
        brTag, Ser.serializeList]

theorem serialize_nl (fmt : Ser.Fmt) (l0 : Str) (r : List Str) (hne : l0 ≠ [])
    (hp : ∀ l ∈ l0 :: r, ∀ c ∈ l, c ≠ '&' ∧ c ≠ '<' ∧ c ≠ '>') :
    Ser.serialize fmt (nlFin l0 r) =
      "<div>".toList ++ ('\n' :: ("<p>".toList ++ l0 ++ brOut fmt r ++ "</p>".toList) ++ ['\n']) ++ "</div>\n".toList := by
  obtain ⟨a, b, rfl⟩ : ∃ a b, l0 = a :: b := by
    cases l0 with
    | nil => exact absurd rfl hne
    | cons a b => exact ⟨a, b, rfl⟩
  have e7 : Ser.escCdata ['\n'] = ['\n'] := by decide
  have e0 : Ser.escCdata (a :: b) = a :: b := CodeLaw.escCdata_plain _ (hp _ List.mem_cons_self)
  simp only [nlFin]
  rw [CodeLaw.serialize_plain fmt _ _ _ _ _ _ (by decide) (by decide)]
  simp only [Ser.serializeList]
  rw [CodeLaw.serialize_plain fmt _ _ _ _ _ _ (by decide) (by decide)]
  rw [serializeList_brs fmt r (fun l h => hp l (List.mem_cons_of_mem _ h))]
  simp [Node.truthy, e7, e0, List.append_assoc]

/-! ### end to end -/

/-- the rendering of a paragraph of lines with nl2br -/
def nlOut (fmt : Ser.Fmt) (l0 : Str) (r : List Str) : Str := "<p>".toList ++ l0 ++ brOut fmt r ++ "</p>".toList

theorem stx_not_mem_brOut (fmt : Ser.Fmt) (r : List Str) (h : ∀ l ∈ r, Post.STX ∉ l) : Post.STX ∉ brOut fmt r := by
  induction r with
  | nil => simp [brOut]
  | cons l r ih =>
    intro hm
    simp only [brOut, List.mem_append, List.mem_cons] at hm
    rcases hm with (hm | hm | hm) | hm
    · cases fmt <;> exact absurd hm (by decide)
    · exact absurd hm (by decide)
    · exact h l List.mem_cons_self hm
    · exact ih (fun x hx => h x (List.mem_cons_of_mem _ hx)) hm

theorem table_nl : (InlineX.table false false true)[16]? = some PatK.nl ∧ 16 + 1 = (InlineX.table false false true).length ∧
    ∀ p, p < 16 → (InlineX.table false false true)[p]? ≠ some PatK.nl := by
  refine ⟨by decide, by decide, ?_⟩
  decide

theorem convertX_nl2br (cfg : Pipeline.Cfg) (hbl : cfg.blockLevel = TreeProc.defaultBlockLevel) (htab : 0 < cfg.tab)
    (l0 : Str) (r : List Str) (h : ∀ l ∈ l0 :: r, PlainFacts l) :
    PipelineX.convertX { nl2br := true } cfg (joinLines (l0 :: r)) = .ok (nlOut cfg.fmt l0 r) := by
  obtain ⟨s1, s2, _, s4⟩ := src_facts l0 r h
  have hnorm := normalize_plain_lines cfg.tab l0 r h
  have hblk := parseDocument_plain cfg.tab htab l0 r h
  have hcore : ({ admonition := false, defList := false, footnotes := false, abbr := false, saneLists := false } :
      BlockExt.XCfg) = BlockExt.XCfg.core := rfl
  have hl : ∀ l ∈ l0 :: r, l ≠ [] ∧ '\n' ∉ l ∧ Inline.STX ∉ l := fun l hl => ⟨(h l hl).ne, (h l hl).noNl, (h l hl).noStx⟩
  have hrun := fun (ic : Inline.Cfg) (keys : List Str) =>
    runX_nl { cfg := ic, table := InlineX.table false false true, fnKeys := keys } 16 table_nl.1 table_nl.2.1
      table_nl.2.2 l0 r (quietX_lines l0 r h) hl []
  have hpre := prettify_nl l0 r (fun l hl => (h l hl).visible)
  have hun := unescapeTree_nl l0 r (h l0 List.mem_cons_self).ne (fun l hl => (h l hl).noStx)
  have hser := serialize_nl cfg.fmt l0 r (h l0 List.mem_cons_self).ne (fun l hl => (h l hl).noMarkup)
  have hJ : Post.STX ∉ nlOut cfg.fmt l0 r := by
    intro hm
    simp only [nlOut, List.mem_append] at hm
    rcases hm with ((hm | hm) | hm) | hm
    · exact absurd hm (by decide)
    · exact (h l0 List.mem_cons_self).noStx hm
    · exact stx_not_mem_brOut cfg.fmt r (fun l hl => (h l (List.mem_cons_of_mem _ hl)).noStx) hm
    · exact absurd hm (by decide)
  have hfin := finishX_wrapped { nl2br := true } cfg rfl (nlOut cfg.fmt l0 r) hJ
    (fun c hc => by
      have : c = '<' := by simpa [nlOut] using hc.symm
      subst this; decide)
    (fun c hc => by
      have e : nlOut cfg.fmt l0 r = ("<p>".toList ++ l0 ++ brOut cfg.fmt r ++ "</p".toList) ++ ['>'] := by
        simp [nlOut]
      rw [e, List.getLast?_append] at hc
      have : c = '>' := by simpa using hc.symm
      subst this; decide)
  simp only [PipelineX.convertX, s1, s2, PipelineX.Exts.unsupported, Bool.false_eq_true, if_false,
    PipelineX.treeX, PipelineX.prepareX, hnorm, s4, Bool.false_and, PipelineX.Exts.blockCfg, hcore,
    parseDocumentXT_core, hblk, PipelineX.refsX, Bool.or_self, PipelineX.escX]
  rw [show (Node.el "div").append (Block.mkText "p" (joinLines (l0 :: r))) = nlDoc l0 r from rfl, hrun]
  simp only [hbl, hpre, hun, hser]
  exact hfin

/-! ### nl2br together with the other extensions of the model -/

theorem table_nl_gen (fn wl : Bool) :
    ∃ m, (InlineX.table fn wl true)[m]? = some PatK.nl ∧ m + 1 = (InlineX.table fn wl true).length ∧
      ∀ p, p < m → (InlineX.table fn wl true)[p]? ≠ some PatK.nl := by
  cases fn <;> cases wl
  · exact ⟨16, by decide, by decide, by decide⟩
  · exact ⟨17, by decide, by decide, by decide⟩
  · exact ⟨17, by decide, by decide, by decide⟩
  · exact ⟨18, by decide, by decide, by decide⟩

/-- the block stage with any block extensions: one paragraph, empty log -/
theorem parseDocumentXT_plain (cfg : BlockExt.XCfg) (tab : Nat) (htab : tab > 0) (l0 : Str) (r : List Str)
    (h : ∀ l ∈ l0 :: r, PlainFacts l) :
    BlockExt.parseDocumentXT false cfg tab (joinLines (l0 :: r) ++ ['\n', '\n']) =
      some ((Node.el "div").append (Block.mkText "p" (joinLines (l0 :: r))), []) := by
  obtain ⟨_, _, _, hne, _⟩ := block_facts l0 r h
  have hsplit : splitS ['\n', '\n'] (joinLines (l0 :: r) ++ ['\n', '\n']) = [joinLines (l0 :: r), []] := by
    simp only [splitS]; exact Escape.splitAux_blocks true _ hne
  have hfuel : BlockExt.fuelForX (joinLines (l0 :: r) ++ ['\n', '\n']).length =
      (2 * (joinLines (l0 :: r) ++ ['\n', '\n']).length + 8) + 1 + 1 := by simp only [BlockExt.fuelForX]
  have h1 := fun pb rest => dispatchXT_plain cfg tab htab pb [] [] (Node.el "div") l0 r rest h
  have hpara := paraP_plain [] (by decide) [] (Node.el "div") l0 r [[]] h
  have hpre : Block.preCode (Block.mkText "p" (joinLines (l0 :: r))) = none := by
    have : (Block.mkText "p" (joinLines (l0 :: r))).isTag "pre" = false := by
      simp only [Block.mkText, Node.isTag, Node.el]; decide
    simp [Block.preCode, this]
  have h3 : ∀ pb, BlockExt.dispatchXT false cfg tab pb [] []
      ((Node.el "div").append (Block.mkText "p" (joinLines (l0 :: r)))) [] [] =
      some ((Node.el "div").append (Block.mkText "p" (joinLines (l0 :: r))), [], []) := by
    intro pb
    simp only [BlockExt.dispatchXT, admTest_plain tab htab _ [] (by simp) (by simp), ite_self, BlockExt.tailEmptyT,
      List.isEmpty_nil, Bool.true_or, if_true, Block.emptyP, CodeLaw.last_append, hpre, List.drop_nil]
  simp only [BlockExt.parseDocumentXT, Block.parseChunk, hsplit]
  rw [hfuel]
  simp only [BlockExt.parseBlocksXT, h1, hpara, h3]

theorem duplicatesKids_brs (fn : Footnotes.State) (r : List Str) :
    FootnotesTree.duplicatesKids fn (r.map brTail) = some (r.map brTail) := by
  induction r with
  | nil => rfl
  | cons l r ih =>
    simp only [List.map_cons, FootnotesTree.duplicatesKids, ih]
    simp [FootnotesTree.duplicates, FootnotesTree.duplicatesKids, brTail, brNode, mkEl]

theorem duplicates_nlMid (fn : Footnotes.State) (l0 : Str) (r : List Str) :
    FootnotesTree.duplicates fn (nlMid l0 r) = some (nlMid l0 r) := by
  simp [nlMid, Node.el, Block.mkText, FootnotesTree.duplicates, FootnotesTree.duplicatesKids, duplicatesKids_brs]

theorem postprocess_id (s : Str) (h : Post.STX ∉ s) : FootnotesTree.postprocess s = s := by
  have h1 : contains s FootnotesTree.fnBacklinkText = false := by
    rw [contains_eq_false_iff]
    intro pre post e
    apply h
    rw [e, show FootnotesTree.fnBacklinkText = Post.STX :: ("zz1337820767766393qq".toList ++ [FootnotesTree.ETX]) from rfl]
    simp
  have h2 : contains s FootnotesTree.nbspPlaceholder = false := by
    rw [contains_eq_false_iff]
    intro pre post e
    apply h
    rw [e, show FootnotesTree.nbspPlaceholder = Post.STX :: ("qq3936677670287331zz".toList ++ [FootnotesTree.ETX]) from rfl]
    simp
  unfold FootnotesTree.postprocess
  rw [replace_id_of_not_contains _ h1, replace_id_of_not_contains _ h2]

/-- the end of `convertX` on `<div>\nJ\n</div>\n` when nothing is in the HTML stash, footnotes on or off -/
theorem finishX_wrapped' (x : PipelineX.Exts) (cfg : Pipeline.Cfg) (J : Str)
    (hstx : Post.STX ∉ J) (hh : ∀ c, J.head? = some c → isSpace c = false)
    (hl : ∀ c, J.getLast? = some c → isSpace c = false) :
    PipelineX.finishX x cfg [] ("<div>".toList ++ ('\n' :: J ++ ['\n']) ++ "</div>\n".toList) = .ok J := by
  have hs : strip J = J := strip_eq_self hh hl
  have hs2 : strip ('\n' :: J ++ ['\n']) = J := by
    have := strip_append_of_blank (a := ['\n']) (b := ['\n']) (by decide) (by decide) J
    have e : '\n' :: J ++ ['\n'] = ['\n'] ++ J ++ ['\n'] := by simp
    rw [e, this, hs]
  simp only [PipelineX.finishX, Escape.topLevelStrip_div, hs2, PipelineX.postX, Post.rawHtmlFuel, List.length_nil,
    Post.rawHtml, List.isEmpty_nil, if_true, Option.map_some, postprocess_id J hstx, ite_self,
    Escape.ampSub_id _ hstx, hs]

/-- nl2br with any of admonition, def_list, abbr, footnotes, sane_lists, wikilinks enabled as well -/
theorem convertX_nl2br_with (x : PipelineX.Exts) (hnl : x.nl2br = true) (hf : x.fencedCode = false)
    (htb : x.tables = false) (hal : x.attrList = false) (htoc : x.toc = false)
    (cfg : Pipeline.Cfg) (hbl : cfg.blockLevel = TreeProc.defaultBlockLevel) (htab : 0 < cfg.tab)
    (l0 : Str) (r : List Str) (h : ∀ l ∈ l0 :: r, PlainFacts l) :
    PipelineX.convertX x cfg (joinLines (l0 :: r)) = .ok (nlOut cfg.fmt l0 r) := by
  obtain ⟨s1, s2, s3, s4⟩ := src_facts l0 r h
  have hnorm := normalize_plain_lines cfg.tab l0 r h
  have hblk := parseDocumentXT_plain x.blockCfg cfg.tab htab l0 r h
  have hl : ∀ l ∈ l0 :: r, l ≠ [] ∧ '\n' ∉ l ∧ Inline.STX ∉ l := fun l hl => ⟨(h l hl).ne, (h l hl).noNl, (h l hl).noStx⟩
  obtain ⟨m, m1, m2, m3⟩ := table_nl_gen x.footnotes x.wikilinks
  have hrun := fun (ic : Inline.Cfg) (keys : List Str) =>
    runX_nl { cfg := ic, table := InlineX.table x.footnotes x.wikilinks true, fnKeys := keys } m m1 m2 m3 l0 r
      (quietX_lines l0 r h) hl []
  have hpre := prettify_nl l0 r (fun l hl => (h l hl).visible)
  have hun := unescapeTree_nl l0 r (h l0 List.mem_cons_self).ne (fun l hl => (h l hl).noStx)
  have hser := serialize_nl cfg.fmt l0 r (h l0 List.mem_cons_self).ne (fun l hl => (h l hl).noMarkup)
  have hJ : Post.STX ∉ nlOut cfg.fmt l0 r := by
    intro hm
    simp only [nlOut, List.mem_append] at hm
    rcases hm with ((hm | hm) | hm) | hm
    · exact absurd hm (by decide)
    · exact (h l0 List.mem_cons_self).noStx hm
    · exact stx_not_mem_brOut cfg.fmt r (fun l hl => (h l (List.mem_cons_of_mem _ hl)).noStx) hm
    · exact absurd hm (by decide)
  have hfin := finishX_wrapped' x cfg (nlOut cfg.fmt l0 r) hJ
    (fun c hc => by
      have : c = '<' := by simpa [nlOut] using hc.symm
      subst this; decide)
    (fun c hc => by
      have e : nlOut cfg.fmt l0 r = ("<p>".toList ++ l0 ++ brOut cfg.fmt r ++ "</p".toList) ++ ['>'] := by
        simp [nlOut]
      rw [e, List.getLast?_append] at hc
      have : c = '>' := by simpa using hc.symm
      subst this; decide)
  have hfo : BlockExt.footnotesOf [] = [] := rfl
  have hab : BlockExt.abbrsOf [] = [] := rfl
  have hmk : ∀ p fc, FootnotesTree.makeDiv p fc [] [] = .ok (none, []) := fun _ _ => rfl
  have habbr : ∀ t, AbbrTree.run [] t = t := fun _ => rfl
  simp only [PipelineX.convertX, s1, s2, PipelineX.Exts.unsupported, Bool.false_eq_true, if_false,
    PipelineX.treeX, PipelineX.prepareX, hnorm, s3, s4, Bool.and_false, hf, htb, hblk, hfo, hmk, hab, hnl, hal, htoc]
  have hroot : (Node.el "div").append (Block.mkText "p" (joinLines (l0 :: r))) = nlDoc l0 r := rfl
  cases hfn : x.footnotes <;> cases hab' : x.abbr <;>
    simp only [hfn, hab', Bool.false_eq_true, if_false, if_true, hroot, List.map_nil, PipelineX.refsX, Bool.or_self,
      Bool.or_true, Bool.or_false, Bool.true_or, BlockExt.refsOf, List.filter_nil, PipelineX.escX, htb, Bool.false_and] <;>
    (rw [hfn] at hrun; rw [hrun]; simp only [duplicates_nlMid, hbl, hpre, hab, habbr, hun, hser]; exact hfin)

/-! ### the duplicates tree processor on a tree without `div.footnote` -/

mutual
/-- no `div` whose class is exactly `footnote` -/
def noFnDiv : Node → Bool
  | ⟨tag, attrs, _, _, children, _, _⟩ =>
    !(tag == .name "div".toList && ((attrs.find? (fun kv => kv.1 = "class".toList)).map (·.2)).getD [] == "footnote".toList)
      && noFnDivKids children
def noFnDivKids : List Node → Bool
  | [] => true
  | c :: r => noFnDiv c && noFnDivKids r
end

mutual
theorem duplicates_noFn (fn : Footnotes.State) : (n : Node) → noFnDiv n = true → FootnotesTree.duplicates fn n = some n
  | ⟨tag, attrs, text, ta, children, tail, tla⟩, h => by
    simp only [noFnDiv, Bool.and_eq_true, Bool.not_eq_true'] at h
    simp only [FootnotesTree.duplicates, duplicatesKids_noFn fn children h.2, h.1, Bool.false_eq_true, if_false]
theorem duplicatesKids_noFn (fn : Footnotes.State) : (ns : List Node) → noFnDivKids ns = true →
    FootnotesTree.duplicatesKids fn ns = some ns
  | [], _ => rfl
  | c :: r, h => by
    simp only [noFnDivKids, Bool.and_eq_true] at h
    simp only [FootnotesTree.duplicatesKids, duplicates_noFn fn c h.1, duplicatesKids_noFn fn r h.2]
end

end MdVerif.RenderX
