/-
C06 on the EXTENDED block parser (`Model/BlockExt.lean`, `Model/BlockExtT.lean`): helper lemmas for
`Props/C06X.lean`.  Part 1: the `sane_lists` processors conserve letters (`listPX_step`), the `footnotes` and `abbr`
block processors never fire on the domain (`plain`: no `[`), the dispatcher `dispatchXT` and the loop
`parseBlocksXT` conserve letters for every flag set without `admonition`, `def_list`, `tables`.

The invariant, `Post`, `Step`, `Conserves` are those of `Lemmas/BlockConserve.lean` (core block parser), unchanged:
the core processors are called by `dispatchXT` as they are, so their step lemmas are reused as they are.
Core Lean only.
-/
import MdVerif.Lemmas.PyBasic
import MdVerif.Lemmas.BlockConserve
import MdVerif.Lemmas.BlockExtFlags
import MdVerif.Model.BlockExtT

namespace MdVerif.ConserveX
open Py Block BlockExt Letters

variable {L : Char → Bool}

/-! ### the domain has no trigger of `footnotes` / `abbr` -/

theorem not_contains_of_plain {b pat : Str} (hp : plain b = true) (hpat : '[' ∈ pat) : contains b pat = false := by
  rw [Py.contains_eq_false_iff]
  intro pre post e
  have hm : '[' ∈ b := by rw [e]; simp [hpat]
  have := (plain_iff.mp hp) '[' hm
  simp [plainChar] at this

theorem footnoteP_plain {b : Str} (hp : plain b = true) (refs : Refs) (rest : List Str) :
    footnoteP refs b rest = none :=
  footnoteP_none (not_contains_of_plain hp (by decide)) refs rest

theorem abbrSearch_plain {b : Str} (hp : plain b = true) : abbrSearch b = none :=
  abbrSearch_none (not_contains_of_plain hp (by decide))

/-! ### a fresh element with attributes -/

theorem elA_nodeOk (tag : String) (a : List (Str × Str)) : nodeOk L { Node.el tag with attrs := a } = true := by
  simp [Node.el, nodeOk, localOk, preOk, kidsGood, kidsOk, optLetters]

theorem elA_treeOk (tag : String) (a : List (Str × Str)) : treeOk L { Node.el tag with attrs := a } = true := by
  simp [Node.el, treeOk, kidsGood, kidsOk]

theorem elA_doc (tag : String) (a : List (Str × Str)) : docLetters L { Node.el tag with attrs := a } = [] := by
  simp [Node.el, docLetters, textLetters, kidsLetters, optLetters, escLetters]

theorem Post.of_elA {tag : String} {a : List (Str × Str)} {p' : Node} {x : Str}
    (h : Post L { Node.el tag with attrs := a } p' x) (hpre : (Node.el tag).isTag "pre" = false) :
    nodeOk L p' = true ∧ docLetters L p' ++ optLetters L p'.tail = x := by
  refine ⟨h.node_ok (elA_nodeOk tag a) hpre, ?_⟩
  rw [h.doc, h.tail, elA_doc]; simp [Node.el, optLetters]

/-! ### `get_items` with the `CHILD_RE` of a `Sane…ListProcessor` -/

theorem getItemsStepX_spec (h : LetterClass L) (p : ListParams) (tab : Nat) {items : List Str} (hi : ItemsOk items)
    {line : Str} (hl : '\n' ∉ line) (hp : plain line = true) :
    queueLetters L (getItemsStepX p tab items line) = queueLetters L items ++ letters L line ∧
      ItemsOk (getItemsStepX p tab items line) := by
  have hne : items ≠ [] := by obtain ⟨⟨x, t, e, _⟩, _⟩ := hi; simp [e]
  simp only [getItemsStepX]
  split
  · rename_i mk content hm
    obtain ⟨h1, _, h3⟩ := listItemMatch_content h hl hm
    exact ⟨by simp [queueLetters_append, h1], itemsOk_append hi (plain_of_subset hp h3)⟩
  · split
    · split
      · split
        · exact ⟨queueLetters_modifyLast h hne line, itemsOk_modifyLast hi hp⟩
        · exact ⟨by simp [queueLetters_append], itemsOk_append hi hp⟩
      · exact ⟨by simp [queueLetters_append], itemsOk_append hi hp⟩
    · exact ⟨queueLetters_modifyLast h hne line, itemsOk_modifyLast hi hp⟩

theorem getItemsX_fold (h : LetterClass L) (p : ListParams) (tab : Nat) (ls : List Str) :
    ∀ {items : List Str}, ItemsOk items → (∀ l ∈ ls, '\n' ∉ l ∧ plain l = true) →
    queueLetters L (ls.foldl (getItemsStepX p tab) items) = queueLetters L items ++ queueLetters L ls ∧
      ItemsOk (ls.foldl (getItemsStepX p tab) items) := by
  induction ls with
  | nil => intro items hi _; exact ⟨by simp, hi⟩
  | cons l ls ih =>
    intro items hi hls
    obtain ⟨h1, h2⟩ := getItemsStepX_spec h p tab hi (hls l (by simp)).1 (hls l (by simp)).2
    obtain ⟨h3, h4⟩ := ih h2 (fun l' hl' => hls l' (List.mem_cons_of_mem _ hl'))
    exact ⟨by simp only [List.foldl_cons, h3, h1, queueLetters_cons, List.append_assoc], h4⟩

/-- `get_items` of a block whose first line is an item of the processor's kind: the letters of the block, first
    item not indented -/
theorem getItemsX_spec (h : LetterClass L) (p : ListParams) (tab : Nat) {b : Str} (hp : plain b = true)
    (hm : (listItemMatch tab p.childOl p.childUl (firstLine b)).isSome = true) :
    queueLetters L (getItemsX p tab b) = letters L b ∧ ItemsOk (getItemsX p tab b) := by
  obtain ⟨t, ht⟩ := lines_head b
  have hmem : ∀ l ∈ lines b, '\n' ∉ l ∧ plain l = true := fun l hl => ⟨mem_lines_no_nl hl, plain_lines hp l hl⟩
  rw [ht] at hmem
  simp only [getItemsX, ht, List.foldl_cons]
  cases hm' : listItemMatch tab p.childOl p.childUl (firstLine b) with
  | none => rw [hm'] at hm; cases hm
  | some m =>
    obtain ⟨mk, content⟩ := m
    obtain ⟨h1, h2, h3⟩ := listItemMatch_content h (hmem _ (by simp)).1 hm'
    have hstep : getItemsStepX p tab [] (firstLine b) = [content] := by simp [getItemsStepX, hm']
    have hi : ItemsOk [content] :=
      ⟨⟨content, [], rfl, h2⟩, by
        intro x hx; simp at hx; rw [hx]; exact plain_of_subset (hmem _ (by simp)).2 h3⟩
    obtain ⟨h4, h5⟩ := getItemsX_fold h p tab t hi (fun l hl => hmem l (List.mem_cons_of_mem _ hl))
    rw [hstep]
    refine ⟨?_, h5⟩
    rw [h4, ← queueLetters_lines h b, ht]
    simp [h1]

/-! ### `SaneOListProcessor`, `SaneUListProcessor` -/

theorem isSib_list {p : ListParams} {n : Node} (h : p.isSib n = true) : isListTag n = true := by
  simp only [ListParams.isSib, Bool.or_eq_true, Bool.and_eq_true] at h
  simp only [isListTag, Bool.or_eq_true]
  rcases h with h | h
  · exact Or.inr h.2
  · exact Or.inl h.2

/-- `OListProcessor.run` for any variant `p` of the class attributes (`SIBLING_TAGS`, `CHILD_RE`, `LAZY_OL`): one
    turn of the loop conserves letters.  The `start` attribute a `SaneOListProcessor` sets is not text. -/
theorem listPX_step (h : LetterClass L) (p : ListParams) {tab : Nat} {pb : PB} (hpb : Conserves L tab pb)
    {state : List BState} {refs refs' : Refs} {parent parent' : Node} {b : Str} {rest blocks' : List Str}
    {tag : String} (htag : tag = "ol" ∨ tag = "ul")
    (hinv : inv L tab state parent (b :: rest) = true) (hns : startsWith b (spaces tab) = false)
    (hm : (listItemMatch tab p.childOl p.childUl b).isSome = true)
    (hr : listPX p tab pb state refs parent b rest tag = some (parent', refs', blocks')) :
    Step L tab state parent b rest parent' blocks' := by
  obtain ⟨hok, hpl, hli⟩ := inv_iff.mp hinv
  have htab : 0 < tab := by
    rcases Nat.eq_zero_or_pos tab with h0 | h0
    · subst h0; simp [spaces] at hns
    · exact h0
  have hpb' := hpl b (by simp)
  have hplr : ∀ y ∈ rest, plain y = true := fun y hy => hpl y (List.mem_cons_of_mem _ hy)
  have hm' := hm
  rw [listItemMatch_firstLine] at hm'
  obtain ⟨hq, ⟨x, t, hitems, hx⟩, hpi⟩ := getItemsX_spec h p tab hpb' hm'
  have hnind := not_indented_of_head htab hx
  have hst2 : isstate (state ++ [.list]) .list = true := by rw [isstate_snoc]; rfl
  have hstl : isstate (state ++ [.looselist]) .list = false := by rw [isstate_snoc]; rfl
  have fin : ∀ p2, Post L parent p2 (letters L b) → Step L tab state parent b rest p2 rest := by
    intro p2 hp2
    exact Step.of_post hp2 rfl hplr (listInv_requeue hli hp2.tag (Or.inl rfl))
  simp only [listPX] at hr
  split at hr
  · rename_i lst hsib
    have hl : parent.last? = some lst ∧ isListTag lst = true := by
      split at hsib
      · split at hsib
        · rename_i hb; cases hsib; exact ⟨by assumption, isSib_list hb⟩
        · cases hsib
      · cases hsib
    have hn := nodeOk_of_last hok hl.1
    split at hr
    · cases hr
    · rename_i newli refs1 hcall
      split at hr
      · rename_i lst3 refs3 hli3
        cases hr
        change listItems tab pb _ refs1 ((prepList lst).append newli) _ = _ at hli3
        rw [hitems] at hcall hli3
        simp only [List.headD_cons, List.drop_succ_cons, List.drop_zero] at hcall hli3
        have p1 := prepList_post h hn hl.2
        have hpli : Post L (Node.el "li") newli (letters L x) := by
          have := hpb _ refs (Node.el "li") [x] newli refs1
            (inv_iff.mpr ⟨el_treeOk "li", by simpa using hpi x (by rw [hitems]; simp),
              listInv_of_not_list hstl _ _⟩) hcall
          simpa using this
        obtain ⟨hnn, hd⟩ := hpli.of_el (by decide)
        have p2 := Post.append (L := L) p1.ok hnn (by rw [isTag_congr hpli.tag]; decide)
        rw [hd] at p2
        have p3 := listItems_post h hpb hst2 t p2.ok (fun y hy => hpi y (by rw [hitems]; simp [hy])) (by
          cases t with
          | nil => trivial
          | cons i2 r => exact Or.inr ⟨newli, last_append _ _, by rw [isItemTag_congr hpli.tag]; decide⟩) hli3
        have pp := (p1.trans p2).trans p3
        rw [List.nil_append, ← queueLetters_cons, ← hitems, hq] at pp
        exact fin _ (Post.setLast_post hok hl.1 (not_safe_of_list hl.2) (not_pre_of_list hl.2) pp)
      · cases hr
  · split at hr
    · split at hr
      · rename_i lst3 refs3 hli3
        cases hr
        have pp := listItems_post h hpb hst2 _ hok hpi (by rw [hitems]; exact Or.inl hnind) hli3
        rw [hq] at pp
        exact fin _ pp
      · cases hr
    · have hpre : (Node.el tag).isTag "pre" = false := by rcases htag with e | e <;> subst e <;> decide
      have hcode : ∀ n : Node, n.tag = (Node.el tag).tag → n.isTag "code" = false := by
        intro n hn
        have : n.isTag "code" = (Node.el tag).isTag "code" := isTag_congr hn "code"
        rw [this]; rcases htag with e | e <;> subst e <;> decide
      split at hr
      · rename_i lst3 refs3 hli3
        cases hr
        split at hli3
        · have pp := listItems_post h hpb hst2 _ (elA_treeOk tag _) hpi (by rw [hitems]; exact Or.inl hnind) hli3
          rw [hq] at pp
          obtain ⟨hnn, hd⟩ := Post.of_elA pp hpre
          have p2 := Post.append (L := L) hok hnn (hcode _ pp.tag)
          rw [hd] at p2
          exact fin _ p2
        · have pp := listItems_post h hpb hst2 _ (el_treeOk tag) hpi (by rw [hitems]; exact Or.inl hnind) hli3
          rw [hq] at pp
          obtain ⟨hnn, hd⟩ := pp.of_el hpre
          have p2 := Post.append (L := L) hok hnn (hcode _ pp.tag)
          rw [hd] at p2
          exact fin _ p2
      · cases hr

/-! ### the dispatcher -/

/-- the flag sets of this part: no `admonition`, no `def_list` (see `Props/C06X.lean` for why) -/
def listFlags (cfg : XCfg) : Prop := cfg.admonition = false ∧ cfg.defList = false

theorem tailList_step (h : LetterClass L) {cfg : XCfg} (hc : listFlags cfg) {tab : Nat} {pb : PB}
    (hpb : Conserves L tab pb) {state : List BState} {refs refs' : Refs} {parent parent' : Node} {b : Str}
    {rest blocks' : List Str} (hinv : inv L tab state parent (b :: rest) = true)
    (hns : startsWith b (spaces tab) = false)
    (hr : tailList cfg tab pb state refs parent b rest = some (parent', refs', blocks')) :
    Step L tab state parent b rest parent' blocks' := by
  obtain ⟨hok, hpl, hli⟩ := inv_iff.mp hinv
  have hpb' := hpl b (by simp)
  simp only [tailList] at hr
  split at hr
  · rename_i hm
    split at hr
    · exact listPX_step h .saneOl hpb (Or.inl rfl) hinv hns hm hr
    · exact listP_step h hpb (Or.inl rfl) hinv hns (Or.inl hm) hr
  · split at hr
    · rename_i hm
      split at hr
      · exact listPX_step h .saneUl hpb (Or.inr rfl) hinv hns hm hr
      · exact listP_step h hpb (Or.inr rfl) hinv hns (Or.inr hm) hr
    · simp only [tailDef, hc.2, Bool.false_eq_true, if_false, tailQuote] at hr
      split at hr
      · exact quoteP_step h hpb hinv hns hr
      · simp only [tailFootnote, footnoteP_plain hpb', tailAbbr, abbrP, abbrSearch_plain hpb', ite_self,
          tailRef, refSearch_none_of_plain hpb'] at hr
        simp only [Option.some.injEq] at hr
        exact paraP_step h hinv hns hr

theorem dispatchXT_eq {cfg : XCfg} (hc : listFlags cfg) (tab : Nat) (pb : PB) (state : List BState) (refs : Refs)
    (parent : Node) (b : Str) (rest : List Str) :
    dispatchXT false cfg tab pb state refs parent b rest =
      if b.isEmpty || startsWith b ['\n'] then some (emptyP refs parent b rest)
      else if startsWith b (spaces tab) && !isstate state .detabbed && indentCond parent then
        indentP tab pb state refs parent b rest
      else if startsWith b (spaces tab) then some (codeP tab refs parent b rest)
      else
      match hashSearch b with
      | some m => hashP tab pb state refs parent b rest m
      | none =>
      if setextMatch b then some (setextP refs parent b rest) else
      match hrSearch b with
      | some m => hrP pb state refs parent b rest m
      | none => tailList cfg tab pb state refs parent b rest := by
  simp only [dispatchXT, hc.1, Bool.false_eq_true, if_false, tailEmptyT, hc.2, Bool.false_and]
  rfl

/-- one turn of the loop of the extended parser, table processor off -/
theorem dispatchXT_step (h : LetterClass L) {cfg : XCfg} (hc : listFlags cfg) {tab : Nat} {pb : PB}
    (hpb : Conserves L tab pb) {state : List BState} {refs refs' : Refs} {parent parent' : Node} {b : Str}
    {rest blocks' : List Str} (hinv : inv L tab state parent (b :: rest) = true)
    (hr : dispatchXT false cfg tab pb state refs parent b rest = some (parent', refs', blocks')) :
    Step L tab state parent b rest parent' blocks' := by
  obtain ⟨hok, hpl, hli⟩ := inv_iff.mp hinv
  rw [dispatchXT_eq hc] at hr
  split at hr
  · rename_i he
    simp only [Option.some.injEq] at hr
    exact emptyP_step h hinv he hr
  · split at hr
    · exact indentP_step h hpb hinv hr
    · rename_i hnind
      split at hr
      · rename_i hsp
        simp only [Option.some.injEq] at hr
        refine codeP_step h hinv ?_ hr
        cases hs : isstate state .list with
        | false => rfl
        | true =>
          exfalso
          obtain ⟨_, hitem, _⟩ := listInv_cons hli hs
          apply hnind
          simp [hsp, isstate_list_not_detabbed hs, hitem, indentCond]
      · rename_i hns
        simp only [Bool.not_eq_true] at hns
        split at hr
        · rename_i m hm
          exact hashP_step h hpb hinv hns hm hr
        · split at hr
          · rename_i hm
            simp only [Option.some.injEq] at hr
            exact setextP_step h hinv hm hr
          · split at hr
            · rename_i m hm
              exact hrP_step h hpb hinv hns hm hr
            · exact tailList_step h hc hpb hinv hns hr

theorem parseBlocksXT_conserves (h : LetterClass L) {cfg : XCfg} (hc : listFlags cfg) (tab : Nat) (f : Nat) :
    Conserves L tab (parseBlocksXT false cfg tab f) := by
  induction f with
  | zero =>
    intro state refs parent blocks parent' refs' hinv hr
    cases blocks with
    | nil =>
      simp only [parseBlocksXT, Option.some.injEq, Prod.mk.injEq] at hr
      rw [← hr.1]
      exact Post.refl (inv_iff.mp hinv).1
    | cons b rest => simp [parseBlocksXT] at hr
  | succ f ih =>
    intro state refs parent blocks parent' refs' hinv hr
    cases blocks with
    | nil =>
      simp only [parseBlocksXT, Option.some.injEq, Prod.mk.injEq] at hr
      rw [← hr.1]
      exact Post.refl (inv_iff.mp hinv).1
    | cons b rest =>
      simp only [parseBlocksXT] at hr
      split at hr
      · rename_i p1 refs1 blocks1 hd
        have st := dispatchXT_step h hc ih hinv hd
        have hp := ih state refs1 p1 blocks1 parent' refs' st.inv hr
        refine ⟨?_, hp.ok, hp.tag.trans st.tag, hp.tail.trans st.tail⟩
        rw [hp.doc, st.doc, queueLetters_cons, List.append_assoc]
      · cases hr

theorem parseDocumentXT_conserves (h : LetterClass L) {cfg : XCfg} (hc : listFlags cfg) {tab : Nat} {text : Str}
    (hp : plain text = true) {root : Node} {log : Refs}
    (hr : parseDocumentXT false cfg tab text = some (root, log)) :
    docLetters L root = letters L text ∧ treeOk L root = true := by
  have := parseChunk_post h (parseBlocksXT_conserves h hc tab (fuelForX text.length)) (state := []) (by rfl)
    (el_treeOk "div") hp hr
  exact ⟨by rw [this.doc, el_doc, List.nil_append], this.ok⟩

end MdVerif.ConserveX
