/-
Helper lemmas for C10b (`Props/C10b.lean`): umbrella of the parts, and the composition of the stage lemmas along
`Pipeline.convert` on the widened domain (no `<`, `&`, `[`, `]`; no backslash immediately followed by a backtick).

Parts (all core Lean): `PlaceholdersBBt` (where `BACKTICK_RE` can match, in terms of runs of backticks),
`PlaceholdersBBlock` (the block parser keeps a string property that is closed under infixes and newline-joins),
`PlaceholdersBPP`, `PlaceholdersBRun`, `PlaceholdersBHI`, `PlaceholdersBEm`, `PlaceholdersBFM` (the inline engine with
the invariants `StrB`/`StrT`/`SNodeB`/`WNodeB`); the later stages are those of `Placeholders`.
-/
import MdVerif.Lemmas.PlaceholdersBFM
import MdVerif.Lemmas.PlaceholdersBBlock
import MdVerif.Lemmas.Placeholders

namespace MdVerif.NoCtl
open Py Inline

/-! ### the text handed to the block parser -/

theorem goahead_no_amp (e : Bool) : ∀ (f : Nat) (s : Str), '&' ∉ s → s.length < f → Extract.goahead e f s = (s, []) := by
  intro f
  induction f with
  | zero => intro s _ h; omega
  | succ f ih =>
    intro s hs hl
    cases s with
    | nil => rfl
    | cons c r =>
      have hc : c ≠ '&' := fun e => hs (by simp [e])
      have hr : '&' ∉ r := fun hm => hs (List.mem_cons_of_mem _ hm)
      simp only [Extract.goahead, bne_iff_ne, ne_eq, hc, not_false_eq_true, if_true]
      rw [ih r hr (by simp at hl; omega)]

theorem extract_no_amp {s : Str} (h : '&' ∉ s) : Extract.extract s = s := by
  unfold Extract.extract
  rw [goahead_no_amp false _ s h (by omega)]
  simp [Extract.goahead]

/-- on the widened domain the prepared text is the normalised text, and it is in the domain -/
theorem prepare_domB (cfg : Pipeline.Cfg) {s : Str} (h : C10DomainL cfg.tab s) :
    Blk.AllC (fun c => Blk.okc c && domCharB c) (Pipeline.prepare cfg s) ∧ Adj3 (Pipeline.prepare cfg s) := by
  have hn : ∀ c ∈ Normalize.normalize cfg.tab s, domCharB c = true := by
    intro c hc
    rcases (Normalize.mem_normalize hc).1 with rfl | rfl | hm
    · decide
    · decide
    · exact h.1 c hm
  have hamp : '&' ∉ Normalize.normalize cfg.tab s := by
    intro hm
    have := hn _ hm
    simp [domCharB] at this
  have hprep : Pipeline.prepare cfg s = Normalize.normalize cfg.tab s := extract_no_amp hamp
  rw [hprep]
  refine ⟨?_, h.2⟩
  intro c hc
  have hok := noCtl_iff.1 (normalize_noctl cfg.tab s) c hc
  simp only [Bool.and_eq_true]
  exact ⟨by simp [Blk.okc, hok.1, hok.2], hn c hc⟩

/-! ### from the block tree to the invariants of the inline engine -/

/-- the string property that the block parser keeps: characters of the domain, none of the three adjacencies -/
theorem strDom_adj3 : BlkB.StrDom (fun c => Blk.okc c && domCharB c) Blk.okc
    (fun s => Blk.AllC (fun c => Blk.okc c && domCharB c) s ∧ Adj3 s) where
  chars := BlkB.charDom_domB
  allc := fun _ hs => hs.1
  nil := ⟨Blk.allC_nil, adj3_nil⟩
  inf := fun _ _ hs ht => ⟨fun c hc => hs.1 c (ht.subset hc), hs.2.infix ht⟩
  joinNl := fun _ _ ha hb => ⟨Blk.allC_append.2 ⟨ha.1, Blk.allC_cons.2 ⟨by decide, hb.1⟩⟩, adj3_joinNl ha.2 hb.2⟩

theorem allC_domB {s : Str} (h : Blk.AllC (fun c => Blk.okc c && domCharB c) s) : NoCtl s ∧ DomB s := by
  refine ⟨noCtl_iff.2 fun c hc => ?_, fun c hc => ?_⟩
  · have := h c hc
    simp only [Bool.and_eq_true] at this
    simpa [Blk.okc] using this.1
  · have := h c hc
    simp only [Bool.and_eq_true] at this
    exact this.2

theorem wnodeB_of_bnodeP {n : Node}
    (h : BlkB.BNodeP (fun c => Blk.okc c && domCharB c) Blk.okc
      (fun s => Blk.AllC (fun c => Blk.okc c && domCharB c) s ∧ Adj3 s) n) : WNodeB 0 n := by
  obtain ⟨⟨b1, b2, b3, b4, b5, b6, b7⟩, p1, p2⟩ := h
  have hattrs : attrsNoCtl n.attrs := by rw [b2]; intro kv hkv; cases hkv
  have htail := allC_domB p1.1
  refine ⟨b1, hattrs, b3, strT_of_noCtl htail.1 htail.2 p1.2, ?_, fun hc => b7 (by simpa [isCode] using hc)⟩
  split
  · rename_i hat
    rw [if_pos hat] at b5
    exact allC_okc b5
  · rename_i hat
    have hat' : n.textAtomic = false := by simpa using hat
    have ht := p2 hat'
    have htx := allC_domB ht.1
    exact strT_of_noCtl htx.1 htx.2 ht.2

/-- the reference definitions collected by the block parser have urls and titles without STX/ETX -/
theorem refsOK_of_refsC {refs : Block.Refs} (esc : List Char)
    (h : Blk.RefsC (fun c => Blk.okc c && domCharB c) refs) :
    RefsOK { esc := esc, refs := refs.reverse } := by
  intro r hr
  have hr' : r ∈ refs := List.mem_reverse.1 hr
  exact ⟨(allC_domB (h r hr').1).1, (allC_domB (h r hr').2).1⟩

theorem fnode_of_wnodeB {n : Node} (h : WNodeB 0 n) : FNode n := by
  obtain ⟨h1, h2, h3, h4, h5, h6⟩ := h
  refine ⟨h1, h2, h4.1, ?_, ?_⟩
  · by_cases hat : n.textAtomic = true
    · rw [if_pos hat] at h5; exact WF.of_noCtl h5
    · rw [if_neg hat] at h5; exact h5.1
  · intro hc
    have := h6 hc
    rw [if_pos this] at h5; exact h5

/-! ### end to end -/

theorem convert_noctlL {cfg : Pipeline.Cfg} (hcfg : EscOK cfg.esc) {src out : Str} (hd : C10DomainL cfg.tab src)
    (h : Pipeline.convert cfg src = .ok out) : NoCtl out := by
  unfold Pipeline.convert at h
  split at h
  · cases h
  · split at h
    · cases h; exact noCtl_nil
    · cases ht : Pipeline.tree cfg src with
      | none => simp [ht] at h
      | some r =>
        cases r with
        | none => simp [ht] at h
        | some p =>
          obtain ⟨u, html⟩ := p
          simp only [ht] at h
          cases hf : Post.finish cfg.blockLevel html (Ser.serialize cfg.fmt u) with
          | none => simp [hf] at h
          | some r2 =>
            cases r2 with
            | none => simp [hf] at h
            | some o =>
              simp only [hf, Pipeline.Outcome.ok.injEq] at h
              subst h
              unfold Pipeline.tree at ht
              cases hb : Block.parseDocument cfg.tab (Pipeline.prepare cfg src) with
              | none => simp [hb] at ht
              | some br =>
                obtain ⟨root, refs⟩ := br
                simp only [hb] at ht
                cases hr : Inline.run { esc := cfg.esc, refs := refs.reverse } root with
                | none => simp [hr] at ht
                | some ir =>
                  obtain ⟨t, st⟩ := ir
                  simp only [hr] at ht
                  cases hu : TreeProc.unescapeTree (TreeProc.prettify t cfg.blockLevel) with
                  | none => simp [hu] at ht
                  | some u' =>
                    simp only [hu, Option.some.injEq, Prod.mk.injEq] at ht
                    obtain ⟨rfl, rfl⟩ := ht
                    obtain ⟨hroot, hrefs, -⟩ := BlkB.parseDocument_strs strDom_adj3 cfg.tab _ (prepare_domB cfg hd) hb
                    have htree : root.Forall (WNodeB 0) := Node.Forall.mono (fun _ hn => wnodeB_of_bnodeP hn) root hroot
                    have hhi : HISpecB { esc := cfg.esc, refs := refs.reverse } :=
                      hiSpecB (cfg := { esc := cfg.esc, refs := refs.reverse }) hcfg (refsOK_of_refsC cfg.esc hrefs)
                    obtain ⟨ht', hhtml⟩ := run_specB hhi htree hr
                    have hfn : t.Forall FNode := Node.Forall.mono (fun _ hn => fnode_of_wnodeB hn) t ht'
                    have hun := unescapeTree_fnode (prettify_fnode hfn cfg.blockLevel) hu
                    have hser := serialize_noctl cfg.fmt hun
                    rw [hhtml] at hf
                    exact finish_noctl hser hf

/-- the domain without brackets is inside the domain with reference links -/
theorem domainL_of_E2 {tab : Nat} {s : Str} (h : C10DomainE2 tab s) : C10DomainL tab s := by
  have hn : ∀ c ∈ Normalize.normalize tab s, c ≠ '[' ∧ c ≠ ']' := by
    intro c hc
    rcases (Normalize.mem_normalize hc).1 with rfl | rfl | hm
    · decide
    · decide
    · exact ⟨(h.1 c hm).2.2.1, (h.1 c hm).2.2.2⟩
  refine ⟨fun c hc => ?_, adj3_of_no_bracket h.2 (fun hm => (hn _ hm).1 rfl) (fun hm => (hn _ hm).2 rfl)⟩
  have := h.1 c hc
  simp [domCharB, this.1, this.2.1]

theorem convert_noctlB {cfg : Pipeline.Cfg} (hcfg : EscOK cfg.esc) {src out : Str} (hd : C10DomainE2 cfg.tab src)
    (h : Pipeline.convert cfg src = .ok out) : NoCtl out := convert_noctlL hcfg (domainL_of_E2 hd) h

end MdVerif.NoCtl
