/-
The tree processors between the inline stage and `attr_list` keep a tree `c`-free (`prettify`, the footnote
duplicates); `AttrListTreeprocessor` is the identity on a tree without `{`.  Core Lean only.
-/
import MdVerif.Lemmas.PipelineXInertAttr

namespace MdVerif.PipelineX
open Py Pipeline BlockExt InlineX

variable {c : Char}

/-! ### `prettify` -/

theorem prettify_node_deep (hnl : c ≠ '\n') (tag : Tag) (attrs : List (Str × Str)) (text : Option Str) (ta : Bool)
    (kids : List Node) (tail : Option Str) (tla : Bool) (b1 b2 : Bool)
    (h1 : ∀ s, text = some s → c ∉ s) (h2 : ∀ s, tail = some s → c ∉ s) (h3 : ∀ k ∈ kids, DeepC c k) :
    DeepC c ⟨tag, attrs, if b1 then some ['\n'] else text, if b1 then false else ta, kids,
      if b2 then some ['\n'] else tail, if b2 then false else tla⟩ := by
  rw [DeepC_iff]
  refine ⟨?_, ?_, h3⟩
  · intro s hs
    cases b1 with
    | true => simp only [if_true] at hs; cases hs; simpa using hnl
    | false => exact h1 s (by simpa using hs)
  · intro s hs
    cases b2 with
    | true => simp only [if_true] at hs; cases hs; simpa using hnl
    | false => exact h2 s (by simpa using hs)

mutual
theorem prettifyETree_deep (hnl : c ≠ '\n') (bl : List Str) : ∀ (n : Node), DeepC c n → DeepC c (TreeProc.prettifyETree bl n)
  | ⟨tag, attrs, text, ta, children, tail, tla⟩, h => by
    have h' := (DeepC_iff _).mp h
    simp only [TreeProc.prettifyETree]
    apply prettify_node_deep hnl _ _ _ _ _ _ _ _ _ h'.1 h'.2.1
    intro k hk
    split at hk
    · exact prettifyKids_deep hnl bl children (fun k hk => h'.2.2 k hk) k hk
    · exact h'.2.2 k hk
theorem prettifyKids_deep (hnl : c ≠ '\n') (bl : List Str) : ∀ (l : List Node), (∀ k ∈ l, DeepC c k) →
    ∀ k ∈ TreeProc.prettifyKids bl l, DeepC c k
  | [], _, k, hk => by simp [TreeProc.prettifyKids] at hk
  | a :: r, hl, k, hk => by
    simp only [TreeProc.prettifyKids, List.mem_cons] at hk
    rcases hk with hk | hk
    · rw [hk]
      split
      · exact prettifyETree_deep hnl bl a (hl a List.mem_cons_self)
      · exact hl a List.mem_cons_self
    · exact prettifyKids_deep hnl bl r (fun k hk => hl k (List.mem_cons_of_mem _ hk)) k hk
end

mutual
theorem mapTree_deep (f : Node → Node) (hf : ∀ n, DeepC c n → DeepC c (f n)) : ∀ (n : Node), DeepC c n →
    DeepC c (TreeProc.mapTree f n)
  | ⟨tag, attrs, text, ta, children, tail, tla⟩, h => by
    have h' := (DeepC_iff _).mp h
    simp only [TreeProc.mapTree]
    apply hf
    rw [DeepC_iff]
    exact ⟨h'.1, h'.2.1, mapKids_deep f hf children (fun k hk => h'.2.2 k hk)⟩
theorem mapKids_deep (f : Node → Node) (hf : ∀ n, DeepC c n → DeepC c (f n)) : ∀ (l : List Node),
    (∀ k ∈ l, DeepC c k) → ∀ k ∈ TreeProc.mapKids f l, DeepC c k
  | [], _, k, hk => by simp [TreeProc.mapKids] at hk
  | a :: r, hl, k, hk => by
    simp only [TreeProc.mapKids, List.mem_cons] at hk
    rcases hk with hk | hk
    · exact hk ▸ mapTree_deep f hf a (hl a List.mem_cons_self)
    · exact mapKids_deep f hf r (fun k hk => hl k (List.mem_cons_of_mem _ hk)) k hk
end

theorem brRule_deep (hnl : c ≠ '\n') (n : Node) (h : DeepC c n) : DeepC c (TreeProc.brRule n) := by
  have h' := (DeepC_iff n).mp h
  simp only [TreeProc.brRule]
  split
  · split
    · rw [DeepC_iff]
      exact ⟨h'.1, (by intro s hs; cases hs; simpa using hnl), h'.2.2⟩
    · rw [DeepC_iff]
      refine ⟨h'.1, ?_, h'.2.2⟩
      intro s hs; cases hs
      intro hm
      rcases List.mem_cons.mp hm with hm | hm
      · exact hnl hm
      · exact optC_of_DeepC_tail h hm
  · exact h

theorem preRule_deep (hnl : c ≠ '\n') (n : Node) (h : DeepC c n) : DeepC c (TreeProc.preRule n) := by
  simp only [TreeProc.preRule]
  split
  · split
    · rename_i code rest hch
      split
      · split
        · rename_i t ht
          have hcode : DeepC c code := DeepC_kids h code (by rw [hch]; exact List.mem_cons_self)
          apply DeepC_children _ h
          intro k hk
          rcases List.mem_cons.mp hk with hk | hk
          · rw [hk]
            have hc' := (DeepC_iff code).mp hcode
            rw [DeepC_iff]
            refine ⟨?_, hc'.2.1, hc'.2.2⟩
            intro s hs; cases hs
            intro hm
            rcases List.mem_append.mp hm with hm | hm
            · exact hc'.1 t ht ((rstripP_infix _ _).subset hm)
            · simp only [List.mem_singleton] at hm; exact hnl hm
          · exact DeepC_kids h k (by rw [hch]; exact List.mem_cons_of_mem _ hk)
        · exact h
      · exact h
    · exact h
  · exact h

theorem prettify_deep (hnl : c ≠ '\n') (bl : List Str) (n : Node) (h : DeepC c n) : DeepC c (TreeProc.prettify n bl) := by
  simp only [TreeProc.prettify]
  exact mapTree_deep _ (preRule_deep hnl) _ (mapTree_deep _ (brRule_deep hnl) _ (prettifyETree_deep hnl bl n h))

/-! ### `AttrListTreeprocessor` on a tree without `{` -/

open AttrList in
theorem baseAt_none (ok : Str → Bool) {s : Str} (h : '{' ∉ s) : baseAt ok s = none := by
  cases s with
  | nil => rfl
  | cons a r =>
    have ha : a ≠ '{' := fun e => h (e ▸ List.mem_cons_self)
    unfold baseAt
    split
    · rename_i heq; injection heq with h1 _; exact absurd h1 ha
    · rename_i heq; injection heq with h1 _; exact absurd h1 ha
    · rfl

open AttrList in
theorem headerSearch_none : ∀ {s : Str}, '{' ∉ s → headerSearch s = none := by
  intro s
  induction s with
  | nil => intro _; rfl
  | cons a r ih =>
    intro h
    have hr : '{' ∉ r := fun hm => h (List.mem_cons_of_mem _ hm)
    simp only [headerSearch]
    have : (if a = ' ' then baseAt endOk (r.dropWhile (· = ' ')) else none) = none := by
      split
      · exact baseAt_none _ (fun hm => hr ((List.dropWhile_suffix _).subset hm))
      · rfl
    rw [this, ih hr]
    rfl

open AttrList in
theorem blockSearch_none : ∀ {s : Str}, '{' ∉ s → blockSearch s = none := by
  intro s
  induction s with
  | nil => intro _; rfl
  | cons a r ih =>
    intro h
    have hr : '{' ∉ r := fun hm => h (List.mem_cons_of_mem _ hm)
    simp only [blockSearch]
    have : (if a = '\n' then baseAt endOk (r.dropWhile (· = ' ')) else none) = none := by
      split
      · exact baseAt_none _ (fun hm => hr ((List.dropWhile_suffix _).subset hm))
      · rfl
    rw [this, ih hr]
    rfl

open AttrList in
theorem blockApply_id (header hashes : Bool) (a : Attrs) {s : Str} (h : '{' ∉ s) : blockApply header hashes a s = (a, s) := by
  simp only [blockApply]
  cases header <;> simp [headerSearch_none h, blockSearch_none h]

theorem blockRule_id (tag : Tag) (attrs : List (Str × Str)) (text : Option Str) (children : List Node)
    (ht : ∀ s, text = some s → '{' ∉ s) (hk : ∀ k ∈ children, DeepC '{' k) :
    AttrListTree.blockRule tag attrs text children = (attrs, none, none) := by
  have hlast : '{' ∉ (children.getLast?.bind (·.tail)).getD [] := by
    cases hl : children.getLast? with
    | none => simp
    | some l =>
      have := optC_of_DeepC_tail (hk l (List.mem_of_getLast? hl))
      simpa [hl] using this
  have htext : '{' ∉ text.getD [] := by
    cases text with
    | none => simp
    | some s => exact ht s rfl
  simp only [AttrListTree.blockRule]
  have honText : (if Node.truthy text = true then
        (if (AttrList.blockApply (AttrListTree.isHeaderTag tag || AttrListTree.isCellTag tag) (AttrListTree.isHeaderTag tag) attrs
            (text.getD [])).2 = text.getD [] then
          ((AttrList.blockApply (AttrListTree.isHeaderTag tag || AttrListTree.isCellTag tag) (AttrListTree.isHeaderTag tag) attrs
            (text.getD [])).1, (none : Option Str), (none : Option (Nat × Str)))
        else ((AttrList.blockApply (AttrListTree.isHeaderTag tag || AttrListTree.isCellTag tag) (AttrListTree.isHeaderTag tag) attrs
            (text.getD [])).1, some (AttrList.blockApply (AttrListTree.isHeaderTag tag || AttrListTree.isCellTag tag)
            (AttrListTree.isHeaderTag tag) attrs (text.getD [])).2, none))
      else (attrs, none, none)) = (attrs, none, none) := by
    rw [blockApply_id _ _ _ htext]
    simp
  have honTail : ∀ (i : Nat) (tl : Str), '{' ∉ tl →
      (if (AttrList.blockApply (AttrListTree.isHeaderTag tag || AttrListTree.isCellTag tag) (AttrListTree.isHeaderTag tag) attrs tl).2 = tl then
          ((AttrList.blockApply (AttrListTree.isHeaderTag tag || AttrListTree.isCellTag tag) (AttrListTree.isHeaderTag tag) attrs tl).1,
            (none : Option Str), (none : Option (Nat × Str)))
        else ((AttrList.blockApply (AttrListTree.isHeaderTag tag || AttrListTree.isCellTag tag) (AttrListTree.isHeaderTag tag) attrs tl).1,
            none, some (i, (AttrList.blockApply (AttrListTree.isHeaderTag tag || AttrListTree.isCellTag tag)
              (AttrListTree.isHeaderTag tag) attrs tl).2))) = (attrs, none, none) := by
    intro i tl htl
    rw [blockApply_id _ _ _ htl]
    simp
  split
  · split
    · split
      · exact honTail _ _ hlast
      · exact honText
    · rename_i pos _
      split
      · apply honTail
        cases hp : children[pos - 1]? with
        | none => simp
        | some k =>
          have := optC_of_DeepC_tail (hk k (List.mem_of_getElem? hp))
          simpa [hp] using this
      · exact honText
  · split
    · exact honTail _ _ hlast
    · exact honText

mutual
theorem attrNode_id (bl : List Str) : ∀ (n : Node), DeepC '{' n → AttrListTree.attrNode bl none n = n
  | ⟨tag, attrs, text, ta, children, tail, tla⟩, h => by
    have h' := (DeepC_iff _).mp h
    simp only [AttrListTree.attrNode]
    split
    · rw [blockRule_id tag attrs text children h'.1 h'.2.2]
      simp only []
      rw [attrKids_id bl children (fun k hk => h'.2.2 k hk) 0]
    · split
      · have : AttrList.inlineMatch (tail.getD []) = none := by
          apply baseAt_none
          cases tail with
          | none => simp
          | some t => exact h'.2.1 t rfl
        rw [this]
        simp only []
        rw [attrKids_id bl children (fun k hk => h'.2.2 k hk) 0]
      · rw [attrKids_id bl children (fun k hk => h'.2.2 k hk) 0]
theorem attrKids_id (bl : List Str) : ∀ (l : List Node), (∀ k ∈ l, DeepC '{' k) → ∀ i,
    AttrListTree.attrKids bl none i l = l
  | [], _, i => rfl
  | a :: r, hl, i => by
    simp only [AttrListTree.attrKids]
    rw [attrNode_id bl a (hl a List.mem_cons_self), attrKids_id bl r (fun k hk => hl k (List.mem_cons_of_mem _ hk)) (i + 1)]
end

/-- `AttrListTreeprocessor.run` leaves a tree without `{` as it is -/
theorem attrListRun_id (bl : List Str) (n : Node) (h : DeepC '{' n) : AttrListTree.run bl n = n :=
  attrNode_id bl n h

/-! ### the footnote duplicates -/

mutual
theorem firstBackref_deep : ∀ (n : Node) {a : Node}, DeepC c n → FootnotesTree.firstBackref n = some a → DeepC c a
  | ⟨tag, attrs, text, ta, children, tail, tla⟩, a, h, he => by
    simp only [FootnotesTree.firstBackref] at he
    split at he
    · injection he with he; exact he ▸ h
    · exact firstBackrefKids_deep children (DeepC_kids h) he
theorem firstBackrefKids_deep : ∀ (l : List Node) {a : Node}, (∀ k ∈ l, DeepC c k) →
    FootnotesTree.firstBackrefKids l = some a → DeepC c a
  | [], a, _, he => by simp [FootnotesTree.firstBackrefKids] at he
  | x :: r, a, hl, he => by
    simp only [FootnotesTree.firstBackrefKids] at he
    split at he
    · rename_i a' ha'
      injection he with he
      exact he ▸ firstBackref_deep x (hl x List.mem_cons_self) ha'
    · exact firstBackrefKids_deep r (fun k hk => hl k (List.mem_cons_of_mem _ hk)) he
end

theorem dupLi_deep (fn : Footnotes.State) {li li' : Node} (h : DeepC c li) (he : FootnotesTree.dupLi fn li = some li') :
    DeepC c li' := by
  simp only [FootnotesTree.dupLi] at he
  split at he
  · cases he
  · split at he
    · split at he
      · injection he with he; exact he ▸ h
      · rename_i link hlink
        have hlinkD := firstBackref_deep li h hlink
        split at he
        · cases he
        · split at he
          · rename_i last hlast
            injection he with he
            rw [← he]
            have hlastD := DeepC_last h hlast
            apply DeepC_setLast h
            apply DeepC_children _ hlastD
            intro k hk
            rcases List.mem_append.mp hk with hk | hk
            · exact DeepC_kids hlastD k hk
            · obtain ⟨hr, _, rfl⟩ := List.mem_map.mp hk
              exact DeepC_setAttr _ _ hlinkD
          · cases he
    · injection he with he; exact he ▸ h

theorem dupLis_deep (fn : Footnotes.State) : ∀ (l : List Node) {l' : List Node}, (∀ k ∈ l, DeepC c k) →
    FootnotesTree.dupLis fn l = some l' → ∀ k ∈ l', DeepC c k := by
  intro l
  induction l with
  | nil => intro l' _ he; simp only [FootnotesTree.dupLis] at he; cases he; intro k hk; cases hk
  | cons a r ih =>
    intro l' hl he
    simp only [FootnotesTree.dupLis] at he
    split at he
    · rename_i a' r' ha' hr'
      injection he with he
      rw [← he]
      intro k hk
      rcases List.mem_cons.mp hk with hk | hk
      · exact hk ▸ dupLi_deep fn (hl a List.mem_cons_self) ha'
      · exact ih (fun k hk => hl k (List.mem_cons_of_mem _ hk)) hr' k hk
    · cases he

mutual
theorem dupFirstOl_deep (fn : Footnotes.State) : ∀ (n : Node) {r : Node × Bool}, DeepC c n →
    FootnotesTree.dupFirstOl fn n = some r → DeepC c r.1
  | ⟨tag, attrs, text, ta, children, tail, tla⟩, r, h, he => by
    have h' := (DeepC_iff _).mp h
    simp only [FootnotesTree.dupFirstOl] at he
    split at he
    · split at he
      · rename_i ks hks
        injection he with he
        rw [← he, DeepC_iff]
        exact ⟨h'.1, h'.2.1, dupLis_deep fn children (fun k hk => h'.2.2 k hk) hks⟩
      · cases he
    · split at he
      · rename_i ks found hks
        injection he with he
        rw [← he, DeepC_iff]
        exact ⟨h'.1, h'.2.1, dupFirstOlKids_deep fn children (fun k hk => h'.2.2 k hk) hks⟩
      · cases he
theorem dupFirstOlKids_deep (fn : Footnotes.State) : ∀ (l : List Node) {r : List Node × Bool}, (∀ k ∈ l, DeepC c k) →
    FootnotesTree.dupFirstOlKids fn l = some r → ∀ k ∈ r.1, DeepC c k
  | [], r, _, he => by
    simp only [FootnotesTree.dupFirstOlKids] at he
    injection he with he
    rw [← he]; intro k hk; cases hk
  | a :: rest, r, hl, he => by
    simp only [FootnotesTree.dupFirstOlKids] at he
    split at he
    · cases he
    · rename_i a' ha'
      injection he with he
      rw [← he]
      intro k hk
      rcases List.mem_cons.mp hk with hk | hk
      · exact hk ▸ dupFirstOl_deep fn a (hl a List.mem_cons_self) ha'
      · exact hl k (List.mem_cons_of_mem _ hk)
    · rename_i a' ha'
      split at he
      · rename_i r' found hr'
        injection he with he
        rw [← he]
        intro k hk
        rcases List.mem_cons.mp hk with hk | hk
        · exact hk ▸ dupFirstOl_deep fn a (hl a List.mem_cons_self) ha'
        · exact dupFirstOlKids_deep fn rest (fun k hk => hl k (List.mem_cons_of_mem _ hk)) hr' k hk
      · cases he
end

mutual
theorem duplicates_deep (fn : Footnotes.State) : ∀ (n : Node) {n' : Node}, DeepC c n →
    FootnotesTree.duplicates fn n = some n' → DeepC c n'
  | ⟨tag, attrs, text, ta, children, tail, tla⟩, n', h, he => by
    have h' := (DeepC_iff _).mp h
    simp only [FootnotesTree.duplicates] at he
    split at he
    · cases he
    · rename_i ks hks
      have hksD := duplicatesKids_deep fn children (fun k hk => h'.2.2 k hk) hks
      have hn : DeepC c ⟨tag, attrs, text, ta, ks, tail, tla⟩ := by
        rw [DeepC_iff]; exact ⟨h'.1, h'.2.1, hksD⟩
      split at he
      · cases hd : FootnotesTree.dupFirstOl fn ⟨tag, attrs, text, ta, ks, tail, tla⟩ with
        | none => rw [hd] at he; cases he
        | some r =>
          rw [hd] at he
          injection he with he
          exact he ▸ dupFirstOl_deep fn _ hn hd
      · injection he with he; exact he ▸ hn
theorem duplicatesKids_deep (fn : Footnotes.State) : ∀ (l : List Node) {l' : List Node}, (∀ k ∈ l, DeepC c k) →
    FootnotesTree.duplicatesKids fn l = some l' → ∀ k ∈ l', DeepC c k
  | [], l', _, he => by
    simp only [FootnotesTree.duplicatesKids] at he
    injection he with he
    rw [← he]; intro k hk; cases hk
  | a :: r, l', hl, he => by
    simp only [FootnotesTree.duplicatesKids] at he
    split at he
    · rename_i a' r' ha' hr'
      injection he with he
      rw [← he]
      intro k hk
      rcases List.mem_cons.mp hk with hk | hk
      · exact hk ▸ duplicates_deep fn a (hl a List.mem_cons_self) ha'
      · exact duplicatesKids_deep fn r (fun k hk => hl k (List.mem_cons_of_mem _ hk)) hr' k hk
    · cases he
end

end MdVerif.PipelineX
